import LolHtml.Lemmas.TbBody4
/-!
"in body" as a whole, "text" and "in table text" in the body phase; the `table` start tag.
-/
namespace LolHtml.Spec.TreeBuilder
open LolHtml.Model (Ns)

variable {c : Cfg} {s : State}

/-- a rule that rebuilds the anchor suffix: the new suffix has the invariant of the new mode -/
theorem bstep_anch {s' : State} (hB : BInv s) (m' : Mode) (hm : s'.mode = m')
    (hm' : m' ≠ .text ∧ m' ≠ .inTableText ∧ m' ∉ preBody ∧ m' ∉ framesetModes)
    (hba : BA m' (anchorSuffix s'.tree.stack)) (hform : FormRel s s')
    (hfo : s'.framesetOk = s.framesetOk ∨ s'.framesetOk = false)
    (hsel : s'.framesetOk = true → StackAll PNoSel s.tree → StackAll PNoSel s'.tree) : BStep s s' := by
  have he : effMode s' = m' := by simp [effMode, hm, hm'.1, hm'.2.1]
  refine ⟨⟨he ▸ hba, ?_, fun h => absurd (hm ▸ h) hm'.1, ?_⟩, ?_, ?_⟩
  · intro f hf
    rcases hform with e | e | ⟨f', e, hf'⟩
    · exact hB.form f (e ▸ hf)
    · rw [e] at hf; cases hf
    · rw [e] at hf; injection hf with hf; subst hf; exact hf'
  · intro h
    have hs : s.framesetOk = true := by
      rcases hfo with e | e
      · rw [← e]; exact h
      · rw [e] at h; cases h
    exact hsel h (hB.sel hs)
  · intro h
    rcases hfo with e | e
    · rw [e]; exact h
    · exact e
  · unfold BodyPhase; rw [he]; exact ⟨hm'.2.2.1, hm'.2.2.2⟩

theorem BA.of_keeps {m : Mode} {t X : Tree} (h : BA m (anchorSuffix t.stack)) (hk : Keeps t X) :
    BA m (anchorSuffix X.stack) := by rw [hk]; exact h

/-- pushing a `table` element -/
theorem BA.pushTable {m : Mode} {X : Tree} (h : BA m (anchorSuffix X.stack)) (a : Attrs) :
    BA .inTable (anchorSuffix (X.insertHtml .table a).stack) := by
  refine BA.push h (El.mk X.nextId .html .table a) rfl rfl rfl (Or.inr ?_) ?_
  · intro hw
    refine ⟨hw, ?_, ?_, ?_, ?_, ?_, ?_, ?_⟩ <;> (intro h; cases h)
  · show (El.mk X.nextId .html .table a).isHtmlIn [.table] = true
    rfl

/-- the `table` start tag of "in body" -/
theorem bstep_table (hB : BInv s) (a : Attrs) (X : State) (hk : Keeps s.tree X.tree) (hform : X.formPtr = s.formPtr) :
    BStep s { X.insertHtml .table a with framesetOk := false, mode := .inTable } := by
  have hba : BA (effMode s) (anchorSuffix X.tree.stack) := hB.ba.of_keeps hk
  refine bstep_anch hB .inTable rfl (by simp [preBody, framesetModes]) (hba.pushTable a) (Or.inl hform) (Or.inr rfl) ?_
  intro h; cases h

set_option maxHeartbeats 4000000 in
theorem inBody_body (hleg : c.legacySelect = false) (hI : Inv false s) (hB : BInv s) (hph : BodyPhase s)
    (h1 : s.mode ≠ .text) (h2 : s.mode ≠ .inTableText) (t : Token)
    (hstart : ∀ n sc a, t = .start n sc a →
      n ≠ .svg ∧ n ≠ .math ∧ n ≠ .template ∧ (n = .frameset → s.framesetOk = false))
    (hend : ∀ n, t = .end n → (n = .body ∨ n = .html → modeAnchors s.mode = some [.body]) ∧
      (n ≠ .body → n.isIn anchorNames = true → ∀ a r, anchorSuffix s.tree.stack = a :: r → a.isHtml n = false)) :
    BodyPost s (inBody c s t) := by
  have hAT := AT.ofInv hI hB
  cases t with
  | char cc =>
    cases cc <;> simp only [inBody, inBodyChar, Res.ok] <;> body_branch hAT hB hph h1 h2
  | comment => exact bstep_same hB hph
  | doctype d => exact bstep_same hB hph
  | eof =>
    simp only [inBody, hI.tmodes, List.isEmpty_nil, Bool.not_true, Bool.false_eq_true, if_false, Res.ok]
    exact bstep_same hB hph
  | «end» n =>
    obtain ⟨hbe, hna⟩ := hend n rfl
    exact inBodyEnd_body hleg hI hB hph h1 h2 n hbe hna
  | start n sc a =>
    obtain ⟨hsvg, hmath, htpl, hfs⟩ := hstart n sc a rfl
    by_cases htab : n = .table
    · subst htab
      simp only [inBody]
      eval_rule [inBodyStart, hleg]
      split
      · refine bstep_table hB a _ ?_ rfl
        (try dsimp only [onTree_tree]); keeps_ok hAT
      · exact bstep_table hB a _ (Keeps.refl _) rfl
    · exact inBodyStart_body hleg hI hB hph h1 h2 n sc a ⟨hsvg, hmath, htpl, htab⟩ hfs

/-- "text" -/
theorem text_body (hI : Inv false s) (hB : BInv s) (hph : BodyPhase s) (h1 : s.mode = .text) (t : Token) :
    BodyPost s (text c s t) := by
  obtain ⟨e, r, hst, hen⟩ := hB.txt h1
  have ho : s.origMode ≠ .text ∧ s.origMode ≠ .inTableText := by
    have := hI.modes.2.2.1 h1
    simp only [List.mem_cons, List.mem_nil_iff, or_false, not_or] at this
    exact ⟨this.1, this.2.1⟩
  have heff : effMode s = s.origMode := by simp [effMode, h1]
  have hpop : BStep s { s.pop with mode := s.origMode } := by
    have hk : anchorSuffix s.pop.tree.stack = anchorSuffix s.tree.stack := by
      show anchorSuffix s.tree.stack.tail = _
      rw [hst, List.tail_cons, anchorSuffix_cons_non e r hen]
    have he' : effMode ({ s.pop with mode := s.origMode } : State) = s.origMode := by simp [effMode, ho.1, ho.2]
    refine ⟨⟨?_, hB.form, fun h => absurd h ho.1, ?_⟩, fun h => h, ?_⟩
    · rw [he']; have hba := hB.ba; rw [heff] at hba; exact (hk ▸ hba :)
    · intro h e' he''
      exact hB.sel h e' (List.mem_of_mem_tail he'')
    · unfold BodyPhase; rw [he', ← heff]; exact hph
  cases t with
  | char cc => exact bstep_same hB hph
  | eof => exact hpop
  | «end» n => exact hpop
  | start n sc a => trivial
  | comment => trivial
  | doctype d => trivial

/-- a character token of "in body" keeps the anchor suffix and everything else of the invariant -/
theorem inBodyChar_keeps (hI : Inv false s) (cc : CharClass) :
    Keeps s.tree (inBodyChar s cc).tree ∧ Inv false (inBodyChar s cc) ∧ (inBodyChar s cc).mode = s.mode ∧
    (inBodyChar s cc).origMode = s.origMode ∧ (inBodyChar s cc).formPtr = s.formPtr ∧
    (inBodyChar s cc).pending = s.pending ∧
    ((inBodyChar s cc).framesetOk = s.framesetOk ∨ (inBodyChar s cc).framesetOk = false) ∧
    (StackAll PNoSel s.tree → StackAll PNoSel (inBodyChar s cc).tree) := by
  have hk : Keeps s.tree s.tree.reconstructAfe := keeps_reconstructAfe hI.tree.afe
  have hok : TreeOk (PNoCol false) s.tree.reconstructAfe := hI.tree.reconstructAfe (fmtOk_PNoCol _)
  have hsel : StackAll PNoSel s.tree → StackAll PNoSel s.tree.reconstructAfe := fun h =>
    (TreeOk.reconstructAfe fmtOk_PNoSel ⟨h, hI.tree.afe⟩).stack
  cases cc
  · exact ⟨Keeps.refl _, hI, rfl, rfl, rfl, rfl, Or.inl rfl, fun h => h⟩
  · exact ⟨hk, ⟨hok, hI.tmodes, hI.head, hI.modes, hI.notCol⟩, rfl, rfl, rfl, rfl, Or.inl rfl, hsel⟩
  · exact ⟨hk, ⟨hok, hI.tmodes, hI.head, hI.modes, hI.notCol⟩, rfl, rfl, rfl, rfl, Or.inr rfl, hsel⟩

theorem foldl_inBodyChar_keeps (l : List CharClass) : ∀ (s : State), Inv false s →
    Keeps s.tree (l.foldl inBodyChar s).tree ∧ (l.foldl inBodyChar s).mode = s.mode ∧
    (l.foldl inBodyChar s).origMode = s.origMode ∧ (l.foldl inBodyChar s).formPtr = s.formPtr ∧
    ((l.foldl inBodyChar s).framesetOk = s.framesetOk ∨ (l.foldl inBodyChar s).framesetOk = false) ∧
    (StackAll PNoSel s.tree → StackAll PNoSel (l.foldl inBodyChar s).tree) := by
  induction l with
  | nil => intro s _; exact ⟨Keeps.refl _, rfl, rfl, rfl, Or.inl rfl, fun h => h⟩
  | cons x xs ih =>
    intro s hI
    obtain ⟨k1, i1, m1, o1, f1, _, fo1, s1⟩ := inBodyChar_keeps hI x
    obtain ⟨k2, m2, o2, f2, fo2, s2⟩ := ih _ i1
    refine ⟨k1.trans k2, m2.trans m1, o2.trans o1, f2.trans f1, ?_, fun h => s2 (s1 h)⟩
    rcases fo2 with e | e
    · rcases fo1 with e1 | e1
      · exact Or.inl (e.trans e1)
      · exact Or.inr (e.trans e1)
    · exact Or.inr e

/-- "in table text" -/
theorem inTableText_body (hI : Inv false s) (hB : BInv s) (hph : BodyPhase s) (h2 : s.mode = .inTableText) (t : Token) :
    BodyPost s (inTableText c s t) := by
  have ho : s.origMode ≠ .text ∧ s.origMode ≠ .inTableText := by
    have := hI.modes.2.1 h2
    simp only [List.mem_cons, List.mem_nil_iff, or_false] at this
    rcases this with e | e | e <;> simp [e]
  have heff : effMode s = s.origMode := by simp [effMode, h2]
  have hflush : BStep s { flushPending s with mode := (flushPending s).origMode } := by
    have hI0 : Inv false ({ s with pending := [] } : State) := ⟨hI.tree, hI.tmodes, hI.head, hI.modes, hI.notCol⟩
    have key : ∀ s' : State, Keeps s.tree s'.tree → s'.origMode = s.origMode → s'.formPtr = s.formPtr →
        (s'.framesetOk = s.framesetOk ∨ s'.framesetOk = false) → (StackAll PNoSel s.tree → StackAll PNoSel s'.tree) →
        BStep s { s' with mode := s'.origMode } := by
      intro s' hk hom hf hfo hs
      have he' : effMode ({ s' with mode := s'.origMode } : State) = s.origMode := by
        simp [effMode, hom, ho.1, ho.2]
      refine ⟨⟨?_, fun f h => hB.form f (hf ▸ h), fun h => absurd (hom ▸ h) ho.1, ?_⟩, ?_, ?_⟩
      · rw [he']; have hba := hB.ba; rw [heff] at hba; exact (hba.of_keeps hk :)
      · intro h
        have hs' : s.framesetOk = true := by
          rcases hfo with e | e
          · rw [← e]; exact h
          · rw [e] at h; cases h
        exact hs (hB.sel hs')
      · intro h
        rcases hfo with e | e
        · rw [e]; exact h
        · exact e
      · unfold BodyPhase; rw [he', ← heff]; exact hph
    unfold flushPending
    simp only
    split
    · obtain ⟨k, _, o, f, fo, sl⟩ := foldl_inBodyChar_keeps s.pending.reverse _ hI0
      exact key _ k o f fo sl
    · exact key _ (Keeps.refl _) rfl rfl (Or.inl rfl) (fun h => h)
  have hpend : ∀ cc, BStep s { s with pending := cc :: s.pending } := fun cc =>
    ⟨⟨hB.ba, hB.form, hB.txt, hB.sel⟩, fun h => h, hph⟩
  cases t with
  | char cc =>
    cases cc
    · exact bstep_same hB hph
    · exact hpend _
    · exact hpend _
  | eof => exact hflush
  | «end» n => exact hflush
  | start n sc a => exact hflush
  | comment => exact hflush
  | doctype d => exact hflush

end LolHtml.Spec.TreeBuilder
