import LolHtml.Lemmas.TbHop8
/-!
Preservation of the invariant: "before head", "after head"; all modes together (`stepMode_inv`); the
dispatcher and the token loop.
-/
namespace LolHtml.Spec.TreeBuilder
open LolHtml.Model (Ns)

variable {b : Bool} {c : Cfg} {s : State}

/-- inserting the `head` element and setting the head element pointer -/
theorem inv_insertHead (hI : Inv b s) (a : Attrs) :
    Inv b { (s.insertHtml .head a) with headPtr := (s.insertHtml .head a).current, mode := .inHead } := by
  refine ⟨hI.tree.insertHtml _ _ (by simp [PNoCol]), hI.tmodes, ?_, by simp [MF, framesetModes], by simp⟩
  intro h hh
  simp only [State.current, Tree.current, State.insertHtml, State.onTree, Tree.insertHtml, Tree.pushNew,
    List.head?_cons, Option.some.injEq] at hh
  subst hh
  exact ⟨rfl, rfl⟩

set_option maxHeartbeats 8000000 in
theorem beforeHead_inv (hI : Inv b s) (t : Token) : InvPost b (beforeHead c s t) := by
  have key : ∀ a, InvPost b (Res.again { (s.insertHtml .head a) with headPtr := (s.insertHtml .head a).current, mode := .inHead }) :=
    fun a => ⟨Or.inl (inv_insertHead hI a), rfl⟩
  cases t with
  | char cc => cases cc <;> first | exact Or.inl hI | exact key {}
  | comment => exact Or.inl hI
  | doctype d => exact Or.inl hI
  | eof => exact key {}
  | «end» n =>
    simp only [beforeHead]
    split
    · exact key {}
    · exact Or.inl hI
  | start n sc a =>
    by_cases h1 : n = .html
    · subst h1; exact Or.inl hI
    by_cases h2 : n = .head
    · subst h2; exact Or.inl (inv_insertHead hI a)
    · have : beforeHead c s (.start n sc a) =
          Res.again { (s.insertHtml .head {}) with headPtr := (s.insertHtml .head {}).current, mode := .inHead } := by
        cases n <;> first | exact (h1 rfl).elim | exact (h2 rfl).elim | rfl
      rw [this]; exact key {}

set_option maxHeartbeats 8000000 in
/-- "after head", the tokens processed by the "in head" rules with the head element pushed back -/
theorem afterHead_head_inv (hI : Inv b s) (hm : s.mode = .afterHead) (n : Name) (sc : Bool) (a : Attrs)
    (hh : n.isIn headStartNames = true) (hnt : n ≠ .template) (h : El) (hp : s.headPtr = some h) :
    InvPost b (afterHead c s (.start n sc a)) := by
  have h1 : s.mode ≠ .text := by simp [hm]
  have h2 : s.mode ≠ .inTableText := by simp [hm]
  have hP : PNoCol b h.name h.ns := by
    obtain ⟨e1, e2⟩ := hI.head h hp
    simp [PNoCol, e1, e2]
  have hhead : ∀ h', some h = some h' → h'.ns = .html ∧ h'.name = .head := fun h' hh' => hI.head h' (hp.trans hh')
  cases n <;> simp [headStartNames, Name.isIn] at hh <;> (try (exfalso; exact hnt rfl))
  all_goals simp +decide [afterHead, hp, inHead, Res.mapState, rawText, Name.isIn, htmlStartInBody, Res.ok, Res.ignore,
    Res.again, headStartNames]
  all_goals (repeat' split)
  all_goals first
    | (refine Or.inl ⟨?_, (Inv.tmodes hI :), (Inv.head hI :), (Inv.modes hI :), (Inv.notCol hI :)⟩
       (try dsimp only [onTree_tree]); tree_ok)
    | (refine Or.inl ⟨?_, (Inv.tmodes hI :), hhead, (mf_text (Inv.modes hI) h1 h2 (Inv.notCol hI) :), ?_⟩
       · (try dsimp only [onTree_tree]); tree_ok
       · simp)

set_option maxHeartbeats 8000000 in
theorem afterHead_inv (hleg : c.legacySelect = false) (hI : Inv b s) (hm : s.mode = .afterHead) (t : Token)
    (htok : TokOk b t) : InvPost b (afterHead c s t) := by
  have h1 : s.mode ≠ .text := by simp [hm]
  have h2 : s.mode ≠ .inTableText := by simp [hm]
  cases t with
  | start n sc a =>
    by_cases hh : n.isIn headStartNames = true
    · have hnt : n ≠ .template := htok.2.2.1
      cases hp : s.headPtr with
      | none =>
        have := inHead_inv (c := c) hI h1 h2 (.start n sc a) htok (Or.inr hh)
        cases n <;> simp [headStartNames, Name.isIn] at hh <;> simpa [afterHead, hp, headStartNames, Name.isIn] using this
      | some h => exact afterHead_head_inv hI hm n sc a hh hnt h hp
    · have hh' : n.isIn headStartNames = false := by simpa using hh
      have hfs : n = .frameset → b = true := htok.2.2.2
      cases n <;> (try (simp [headStartNames, Name.isIn] at hh'; done))
      all_goals eval_rule [afterHead]
      all_goals (repeat' split)
      all_goals table_branch hleg hI h1 h2 htok
  | «end» n =>
    cases n
    all_goals eval_rule [afterHead]
    all_goals (repeat' split)
    all_goals table_branch hleg hI h1 h2 htok
  | char cc =>
    cases cc
    all_goals eval_rule [afterHead]
    all_goals table_branch hleg hI h1 h2 htok
  | comment => exact Or.inl hI
  | doctype d => exact Or.inl hI
  | eof =>
    eval_rule [afterHead]
    table_branch hleg hI h1 h2 htok

end LolHtml.Spec.TreeBuilder
