import LolHtml.Lemmas.TbBody6
/-!
The transitions of the table insertion modes in the body phase (push a structure element on the first
anchor, pop down to below the first anchor, "reset the insertion mode appropriately"), and "in table".
-/
namespace LolHtml.Spec.TreeBuilder
open LolHtml.Model (Ns)

variable {c : Cfg} {s : State}

/-- start tags of the class, in a given state: a `frameset` start tag only when the frameset-ok flag is off -/
def TokB (s : State) (t : Token) : Prop :=
  ∀ n sc a, t = .start n sc a → n ≠ .svg ∧ n ≠ .math ∧ n ≠ .template ∧ (n = .frameset → s.framesetOk = false)

theorem isHtmlIn_not (a : El) (L : List Name) (n : Name) (ha : a.isHtmlIn L = true) (hn : n.isIn L = false) :
    a.isHtml n = false := by
  cases hq : a.isHtml n
  · rfl
  · simp only [El.isHtml, Bool.and_eq_true, beq_iff_eq] at hq
    simp only [El.isHtmlIn, Bool.and_eq_true] at ha
    rw [hq.2, hn] at ha; exact absurd ha.2 (by simp)

/-- a token of a table mode handed on to "in body" -/
theorem inBody_fall (hleg : c.legacySelect = false) (hI : Inv false s) (hB : BInv s) (hph : BodyPhase s)
    (h1 : s.mode ≠ .text) (h2 : s.mode ≠ .inTableText) (L : List Name) (hL : modeAnchors s.mode = some L)
    (t : Token) (htok : TokB s t)
    (hend : ∀ n, t = .end n → (n = .body ∨ n = .html → L = [.body]) ∧
      (n ≠ .body → n.isIn anchorNames = true → n.isIn L = false)) : BodyPost s (inBody c s t) := by
  refine inBody_body hleg hI hB hph h1 h2 t htok ?_
  intro n hn
  obtain ⟨e1, e2⟩ := hend n hn
  refine ⟨fun h => by rw [hL, e1 h], ?_⟩
  intro hnb hna a r hA
  obtain ⟨a', r', hA', ha'⟩ := hB.anchor h1 h2 L hL
  rw [hA] at hA'
  obtain ⟨rfl, rfl⟩ := List.cons.inj hA'
  exact isHtmlIn_not a L n ha' (e2 hnb hna)

theorem end_side (n : Name) (L : List Name) (hb : n ≠ .body ∧ n ≠ .html)
    (h : n.isIn anchorNames = false ∨ n.isIn L = false) :
    (n = .body ∨ n = .html → L = [.body]) ∧ (n ≠ .body → n.isIn anchorNames = true → n.isIn L = false) := by
  refine ⟨fun h' => ?_, fun _ ha => ?_⟩
  · rcases h' with h' | h'
    · exact absurd h' hb.1
    · exact absurd h' hb.2
  · rcases h with h | h
    · rw [h] at ha; cases ha
    · exact h

/-- "in table" → "in table text" -/
theorem bstep_toTableText (hB : BInv s) (hph : BodyPhase s) (h1 : s.mode ≠ .text) (h2 : s.mode ≠ .inTableText) :
    BStep s { s with pending := [], origMode := s.mode, mode := .inTableText } := by
  have he : effMode ({ s with pending := [], origMode := s.mode, mode := .inTableText } : State) = effMode s := by
    rw [effMode_eq h1 h2]; simp [effMode]
  refine ⟨⟨?_, hB.form, fun h => (by cases h), hB.sel⟩, fun h => h, ?_⟩
  · rw [he]; exact hB.ba
  · unfold BodyPhase; rw [he]; exact hph

/-- which structure element may be pushed on which first anchor, and the insertion mode that results -/
def PushOk (x a0 : El) (m' : Mode) : Prop :=
  (x.isHtml .caption = true ∧ a0.isHtmlIn [.table] = true ∧ m' = .inCaption) ∨
  (x.isHtml .colgroup = true ∧ a0.isHtmlIn [.table] = true ∧ m' = .inColumnGroup) ∨
  (x.isHtmlIn secNames = true ∧ a0.isHtmlIn [.table] = true ∧ m' = .inTableBody) ∨
  (x.isHtml .tr = true ∧ a0.isHtmlIn secNames = true ∧ m' = .inRow) ∨
  (x.isHtmlIn [.td, .th] = true ∧ a0.isHtmlIn [.tr] = true ∧ m' = .inCell)

theorem isHtml_name {x : El} {n : Name} (h : x.isHtml n = true) : x.ns = .html ∧ x.name = n := by
  simpa [El.isHtml] using h

theorem isHtmlIn_name {x : El} {l : List Name} (h : x.isHtmlIn l = true) : x.ns = .html ∧ x.name.isIn l = true := by
  simpa [El.isHtmlIn] using h

set_option maxHeartbeats 1000000 in
theorem bstep_push {s' : State} {a0 : El} {r0 : List El} (hB : BInv s) (hA : anchorSuffix s.tree.stack = a0 :: r0)
    (x : El) (hst : s'.tree.stack = x :: a0 :: r0) (m' : Mode) (hm : s'.mode = m') (hx : PushOk x a0 m')
    (hform : s'.formPtr = s.formPtr) (hfo : s'.framesetOk = s.framesetOk) : BStep s s' := by
  have hS : SOk (a0 :: r0) := hA ▸ hB.ba.sok.suffix
  -- facts about `x` in each case
  have hfacts : x.isAnchor = true ∧ x.isHtmlIn [.head, .html, .body] = false ∧ x.isHtml .frameset = false ∧
      x.name ≠ .select ∧ W (x :: a0 :: r0) ∧ AnchOk m' (x :: a0 :: r0) ∧
      (m' ≠ .text ∧ m' ≠ .inTableText ∧ m' ∉ preBody ∧ m' ∉ framesetModes) := by
    obtain ⟨i, ns, nm, atr⟩ := x
    rcases hx with ⟨h1, h2, rfl⟩ | ⟨h1, h2, rfl⟩ | ⟨h1, h2, rfl⟩ | ⟨h1, h2, rfl⟩ | ⟨h1, h2, rfl⟩
    · obtain ⟨rfl, rfl⟩ := isHtml_name h1
      refine ⟨rfl, rfl, rfl, (fun h => by cases h), ⟨hS.w, ?_, ?_, ?_, ?_, ?_, ?_, ?_⟩, rfl, by simp [preBody, framesetModes]⟩ <;>
        first | (intro h; cases h; done) | (intro _; exact h2)
    · obtain ⟨rfl, rfl⟩ := isHtml_name h1
      refine ⟨rfl, rfl, rfl, (fun h => by cases h), ⟨hS.w, ?_, ?_, ?_, ?_, ?_, ?_, ?_⟩, rfl, by simp [preBody, framesetModes]⟩ <;>
        first | (intro h; cases h; done) | (intro _; exact h2)
    · obtain ⟨rfl, hn⟩ := isHtmlIn_name h1
      have hnm : nm = .tbody ∨ nm = .thead ∨ nm = .tfoot := by simpa [secNames, Name.isIn] using hn
      rcases hnm with rfl | rfl | rfl <;>
        (refine ⟨rfl, rfl, rfl, (fun h => by cases h), ⟨hS.w, ?_, ?_, ?_, ?_, ?_, ?_, ?_⟩, rfl, by simp [preBody, framesetModes]⟩ <;>
          first | (intro h; cases h; done) | (intro _; exact h2))
    · obtain ⟨rfl, rfl⟩ := isHtml_name h1
      refine ⟨rfl, rfl, rfl, (fun h => by cases h), ⟨hS.w, ?_, ?_, ?_, ?_, ?_, ?_, ?_⟩, rfl, by simp [preBody, framesetModes]⟩ <;>
        first | (intro h; cases h; done) | (intro _; exact h2)
    · obtain ⟨rfl, hn⟩ := isHtmlIn_name h1
      have hnm : nm = .td ∨ nm = .th := by simpa [Name.isIn] using hn
      rcases hnm with rfl | rfl <;>
        (refine ⟨rfl, rfl, rfl, (fun h => by cases h), ⟨hS.w, ?_, ?_, ?_, ?_, ?_, ?_, ?_⟩, rfl, by simp [preBody, framesetModes]⟩ <;>
          first | (intro h; cases h; done) | (intro _; exact h2))
  obtain ⟨hxa, hxn, hxf, hxs, hw, hanch, hm'⟩ := hfacts
  have hS' : SOk s'.tree.stack := hst ▸ hS.push x hxn hxf hw
  refine bstep_anch hB m' hm hm' (hS'.ba ?_) (Or.inl hform) (Or.inl hfo) ?_
  · rw [hst, anchorSuffix_cons_anchor x _ hxa]; exact hanch
  · intro _ hsel e he
    rw [hst] at he
    rcases List.mem_cons.mp he with rfl | he
    · exact hxs
    · exact hsel e (anchorSuffix_sub _ e (hA ▸ he))

/-- which insertion mode results from popping down to below the first anchor -/
def PopOk (a0 : El) (m' : Mode) : Prop :=
  ((a0.isHtml .caption = true ∨ a0.isHtml .colgroup = true ∨ a0.isHtmlIn secNames = true) ∧ m' = .inTable) ∨
  (a0.isHtml .tr = true ∧ m' = .inTableBody) ∨ (a0.isHtmlIn [.td, .th] = true ∧ m' = .inRow)

theorem bstep_popTo {s' : State} {a0 : El} {r0 : List El} (hB : BInv s) (hA : anchorSuffix s.tree.stack = a0 :: r0)
    (hst : s'.tree.stack = r0) (m' : Mode) (hm : s'.mode = m') (hp : PopOk a0 m')
    (hform : s'.formPtr = s.formPtr) (hfo : s'.framesetOk = s.framesetOk) : BStep s s' := by
  have hS : SOk (a0 :: r0) := hA ▸ hB.ba.sok.suffix
  obtain ⟨hWr, w1, w2, w3, w4, w5, w6, w7⟩ := hS.w
  have tblAnch : ∀ n : Name, n.isIn [Name.table] = true → n.isIn anchorNames = true := by
    intro n hn; cases n <;> simp [Name.isIn] at hn <;> decide
  have trAnch : ∀ n : Name, n.isIn [Name.tr] = true → n.isIn anchorNames = true := by
    intro n hn; cases n <;> simp [Name.isIn] at hn <;> decide
  have secAnch : ∀ n : Name, n.isIn secNames = true → n.isIn anchorNames = true := by
    intro n hn; cases n <;> simp [secNames, Name.isIn] at hn <;> decide
  -- the element below `a0`
  have key : ∀ (l : List Name), (∀ n : Name, n.isIn l = true → n.isIn anchorNames = true) → nextIn l r0 →
      modeAnchors m' = some l → AnchOk m' (anchorSuffix r0) := by
    intro l hl hn hml
    cases r0 with
    | nil => exact hn.elim
    | cons y r' =>
      rw [anchorSuffix_cons_anchor y r' (isHtmlIn_anchor y l hl hn)]
      unfold AnchOk; rw [hml]; exact hn
  have hbody : a0.isHtmlIn [.head, .html, .body] = false ∧ AnchOk m' (anchorSuffix r0) ∧
      (m' ≠ .text ∧ m' ≠ .inTableText ∧ m' ∉ preBody ∧ m' ∉ framesetModes) := by
    have nb : ∀ n : Name, n.isIn [Name.head, .html, .body] = false → a0.name = n → a0.isHtmlIn [.head, .html, .body] = false := by
      intro n hn e; simp [El.isHtmlIn, e, hn]
    rcases hp with ⟨h | h | h, rfl⟩ | ⟨h, rfl⟩ | ⟨h, rfl⟩
    · exact ⟨nb _ (by decide) (isHtml_name h).2, key _ tblAnch (w4 h) rfl, by simp [preBody, framesetModes]⟩
    · exact ⟨nb _ (by decide) (isHtml_name h).2, key _ tblAnch (w5 h) rfl, by simp [preBody, framesetModes]⟩
    · refine ⟨?_, key _ tblAnch (w2 h) rfl, by simp [preBody, framesetModes]⟩
      have := (isHtmlIn_name h).2
      have hnm : a0.name = .tbody ∨ a0.name = .thead ∨ a0.name = .tfoot := by simpa [secNames, Name.isIn] using this
      rcases hnm with e | e | e <;> exact nb _ (by decide) e
    · exact ⟨nb _ (by decide) (isHtml_name h).2, key _ secAnch (w1 h) rfl, by simp [preBody, framesetModes]⟩
    · refine ⟨?_, key _ trAnch (w3 h) rfl, by simp [preBody, framesetModes]⟩
      have := (isHtmlIn_name h).2
      have hnm : a0.name = .td ∨ a0.name = .th := by simpa [Name.isIn] using this
      rcases hnm with e | e <;> exact nb _ (by decide) e
  obtain ⟨hnb, hanch, hm'⟩ := hbody
  have hS' : SOk s'.tree.stack := hst ▸ hS.tail hnb
  refine bstep_anch hB m' hm hm' (hS'.ba (hst ▸ hanch)) (Or.inl hform) (Or.inl hfo) ?_
  intro _ hsel e he
  rw [hst] at he
  exact hsel e (anchorSuffix_sub _ e (hA ▸ List.mem_cons_of_mem _ he))

/-- "pop until a `table` has been popped, reset the insertion mode appropriately" -/
theorem bstep_reset (hleg : c.legacySelect = false) (hI : Inv false s) (hB : BInv s)
    (hsc : s.inTableScope .table = true) : BStep s ((s.popUntilNamed .table).resetMode c) := by
  have hS : SOk s.tree.stack := hB.ba.sok
  have hany : s.tree.stack.any (·.isHtml .table) = true := scope_any _ _ _ hsc
  have hS' : SOk (popUntil (·.isHtml .table) s.tree.stack) := by
    refine hS.popUntil _ ?_ _ hany
    intro e he
    have := (isHtml_name he)
    simp [El.isHtmlIn, this.2, Name.isIn]
  have hnt : ∀ e ∈ popUntil (·.isHtml .table) s.tree.stack, e.isHtml .template = false := by
    intro e he
    have := (hI.tree.stack e (popUntil_sub _ _ e he)).2.1
    simp [El.isHtml, this]
  obtain ⟨hanch, hmem⟩ := resetLoop_ba (c := c) hleg s.headPtr.isNone _ hS' hnt
  have hm' : ∀ m ∈ resetModes, m ≠ .text ∧ m ≠ .inTableText ∧ m ∉ preBody ∧ m ∉ framesetModes := by
    intro m hm
    simp only [resetModes, List.mem_cons, List.mem_nil_iff, or_false] at hm
    rcases hm with rfl | rfl | rfl | rfl | rfl | rfl | rfl <;> simp [preBody, framesetModes]
  have htm : s.tmodes = [] := hI.tmodes
  refine bstep_anch hB _ rfl (hm' _ ?_) (SOk.ba ?_ ?_) (Or.inl rfl) (Or.inl rfl) ?_
  · show resetLoop c (s.popUntilNamed .table).tmodes _ _ ∈ resetModes
    rw [show (s.popUntilNamed .table).tmodes = [] from htm]; exact hmem
  · exact hS'
  · show AnchOk (resetLoop c (s.popUntilNamed .table).tmodes _ _) _
    rw [show (s.popUntilNamed .table).tmodes = [] from htm]; exact hanch
  · intro _ hsel e he
    exact hsel e (popUntil_sub _ _ e he)

end LolHtml.Spec.TreeBuilder
