import LolHtml.Lemmas.InvDefs
/-!
# C15 — actions preserve the in-arm invariant

For every action `a` and flag `f` with `flagStep hasByte a f = some f'`: running `a` (lexer or tag
scanner implementation) inside an arm keeps the cursor, re-establishes `MInvA` with flag `f'`, and
signals only `ActSigOK` things.
-/
namespace LolHtml.Model

variable {κ : Type}

/-! ### the tree-builder simulator only fails with `ambiguity` or at an uncovered site -/

theorem Guard.assertNotAmbiguous_err {cfg : TagCfg} {tag : Nat} {e : Err}
    (h : Guard.assertNotAmbiguous cfg tag = .error e) : ErrOK U1 e := by
  unfold Guard.assertNotAmbiguous at h
  split at h
  · simp only [Except.error.injEq] at h; subst h; simp [ErrOK]
  · cases h

theorem Guard.trackStartTag_err {cfg : TagCfg} {g : GuardState} {tag : Nat} {e : Err}
    (h : Guard.trackStartTag cfg g tag = .error e) : ErrOK U1 e := by
  unfold Guard.trackStartTag at h
  (repeat' split at h) <;>
    first
    | (cases h; done)
    | (simp only [Except.error.injEq] at h; subst h; apply Guard.assertNotAmbiguous_err; assumption)

theorem Sim.feedbackForStartTag_err {cfg : TagCfg} {s : Sim} {tag : Nat} {e : Err}
    (h : s.feedbackForStartTag cfg tag = .error e) : ErrOK U1 e := by
  unfold Sim.feedbackForStartTag at h
  dsimp only at h
  split at h
  · rename_i e' he'
    simp only [Except.error.injEq] at h
    subst h
    split at he'
    · split at he'
      · cases he'
      · rename_i e'' hg
        simp only [Except.error.injEq] at he'
        subst he'
        exact Guard.trackStartTag_err hg
    · cases he'
  · (repeat' split at h) <;> first | (cases h; done) | (simp only [Except.error.injEq] at h; subst h; simp [ErrOK, U1])

theorem Sim.feedbackForEndTag_err {cfg : TagCfg} {s : Sim} {tag : Nat} {e : Err}
    (h : s.feedbackForEndTag cfg tag = .error e) : ErrOK U1 e := by
  unfold Sim.feedbackForEndTag at h
  dsimp only at h
  split at h
  · cases h
  · simp only [Except.error.injEq] at h; subst h; simp [ErrOK, U1]

theorem lexGetFeedback_err {cfg : TagCfg} {sim : Sim} {fd : FeedbackDirective} {tok : TagOutline} {e : Err}
    (h : lexGetFeedback cfg sim fd tok = .error e) : ErrOK U1 e := by
  unfold lexGetFeedback at h
  split at h
  · cases h
  · cases h
  · split at h
    · cases hfb : sim.feedbackForStartTag cfg ‹Nat› with
      | error e' => rw [hfb] at h; simp [Except.map] at h; subst h; exact Sim.feedbackForStartTag_err hfb
      | ok v => rw [hfb] at h; simp [Except.map] at h
    · cases hfb : sim.feedbackForEndTag cfg ‹Nat› with
      | error e' => rw [hfb] at h; simp [Except.map] at h; subst h; exact Sim.feedbackForEndTag_err hfb
      | ok v => rw [hfb] at h; simp [Except.map] at h

theorem Sim.leaveNs_fb {s s' : Sim} {f : Feedback} (h : s.leaveNs = some (s', f)) : ∃ b, f = .setAllowCdata b := by
  unfold Sim.leaveNs at h
  split at h
  · simp only [Option.some.injEq, Prod.mk.injEq] at h; exact ⟨_, h.2.symm⟩
  · cases h

/-- callbacks never answer with another `RequestLexeme` -/
theorem Sim.runCallback_fb {s s' : Sim} {k : RLKind} {v : TagView} {f : Feedback}
    (h : s.runCallback k v = some (s', f)) : ∀ k', f ≠ .requestLexeme k' := by
  intro k' hk
  subst hk
  unfold Sim.runCallback at h
  (repeat' split at h) <;>
    first
    | (cases h; done)
    | (obtain ⟨b, hb⟩ := Sim.leaveNs_fb h; cases hb)
    | (simp only [Sim.enterNs, Option.some.injEq, Prod.mk.injEq] at h; cases h.2)

theorem lexHandleFeedback_err {inp : Bytes} {c : Common} {sim : Sim} {f : Feedback} {o : TagOutline} {e : Err}
    (h : lexHandleFeedback inp c sim f o = .error e) : ErrOK U1 e := by
  unfold lexHandleFeedback at h
  dsimp only at h
  split at h
  · split at h
    · simp only [Except.error.injEq] at h; subst h; simp [ErrOK, U1]
    · split at h
      · simp only [Except.error.injEq] at h; subst h; simp [ErrOK, U1]
      · rename_i s' f' hcb
        have := Sim.runCallback_fb hcb
        cases f' with
        | requestLexeme k' => exact absurd rfl (this k')
        | _ => cases h
  · rename_i hne
    cases f with
    | requestLexeme k' => exact absurd rfl (hne k')
    | _ => cases h

theorem lexHandleFeedback_frame {inp : Bytes} {c : Common} {sim : Sim} {f : Feedback} {o : TagOutline}
    {cs : Common × Sim} (h : lexHandleFeedback inp c sim f o = .ok cs) :
    cs.1.nextPos = c.nextPos ∧ cs.1.state = c.state ∧ cs.1.isLast = c.isLast := by
  unfold lexHandleFeedback at h
  dsimp only at h
  (repeat' split at h) <;> first | (cases h; done) | (simp only [Except.ok.injEq] at h; subst h; exact ⟨rfl, rfl, rfl⟩)

theorem lexStampTag_frame (c : Common) (sim : Sim) (tok : TagOutline) :
    (lexStampTag c sim tok).1.nextPos = c.nextPos ∧ (lexStampTag c sim tok).1.state = c.state ∧
    (lexStampTag c sim tok).1.isLast = c.isLast := by
  unfold lexStampTag
  split <;> exact ⟨rfl, rfl, rfl⟩

/-! ### lexer -/

section
variable {env : Env κ} {inp : Bytes} {W : κ → Nat} {lo : Nat}

/-- what the lexer's emit helpers guarantee: cursor untouched, `lexeme_start` moved to the end of
the emitted range, watermark at or before it, only (allowed) errors signalled -/
def EmitPost (W : κ → Nat) (c : Common) (l : LexRegs) (rawEnd : Nat) (r : M κ × Option Signal) : Prop :=
  r.1.c = c ∧ r.1.r = .lexer { l with lexemeStart := rawEnd } ∧ W r.1.x.sink ≤ rawEnd ∧
  ∀ sig, r.2 = some sig → ∃ e, sig = .err e ∧ ErrOK U1 e

theorem lexEmitNonTag_post (hs : SinkSafe env.ops W inp U1) (c : Common) (l : LexRegs) (x : Ctx κ)
    (o : Option NonTagOutline) (rawEnd : Nat) (h1 : W x.sink ≤ l.lexemeStart) (h2 : l.lexemeStart ≤ rawEnd)
    (h3 : rawEnd ≤ inp.length) : EmitPost W c l rawEnd (lexEmitNonTag env inp c l x o rawEnd) := by
  unfold lexEmitNonTag
  obtain ⟨hw, he⟩ := hs.handleNonTag ⟨x.prevConsumed, ⟨l.lexemeStart, rawEnd⟩, o⟩ x.sink h1 h2 h3
  dsimp only at hw he ⊢
  split
  · exact ⟨rfl, rfl, hw, fun sig h => by cases h⟩
  · rename_i e herr
    refine ⟨rfl, rfl, hw, fun sig h => ?_⟩
    simp only [Option.some.injEq] at h
    exact ⟨e, h.symm, he e herr⟩

/-- `emit_text`: either nothing happens or the text `[lexeme_start, pos)` is emitted -/
theorem lexEmitText_post (hs : SinkSafe env.ops W inp U1) (c : Common) (l : LexRegs) (x : Ctx κ)
    (h1 : W x.sink ≤ l.lexemeStart) (h3 : c.pos ≤ inp.length) :
    (lexEmitText env inp c l x = (⟨c, .lexer l, x⟩, none) ∧ ¬ c.pos > l.lexemeStart) ∨
    EmitPost W c l c.pos (lexEmitText env inp c l x) := by
  unfold lexEmitText
  split
  · right
    rename_i h
    exact lexEmitNonTag_post hs c l x _ _ h1 (by omega) h3
  · left
    rename_i h
    exact ⟨rfl, h⟩

theorem lexEmitEof_post (hs : SinkSafe env.ops W inp U1) (c : Common) (l : LexRegs) (x : Ctx κ)
    (h1 : W x.sink ≤ l.lexemeStart) (h2 : l.lexemeStart ≤ c.pos) (h3 : c.pos ≤ inp.length) :
    EmitPost W c l c.pos (lexEmitEof env inp ⟨c, .lexer l, x⟩) := by
  unfold lexEmitEof
  exact lexEmitNonTag_post hs c l x _ _ h1 h2 h3

/-- from `EmitPost` to `ActPost` -/
theorem ActPost_of_emit {hb f f' : Bool} {c : Common} {l : LexRegs} {x : Ctx κ} {rawEnd : Nat}
    {r : M κ × Option Signal}
    (hm : MInvA W inp.length lo hb f ⟨c, .lexer l, x⟩) (hp : EmitPost W c l rawEnd r)
    (h1 : rawEnd ≤ c.nextPos - 1 + 1) (h2 : f' = true → rawEnd ≤ c.nextPos - 1) :
    ActPost U1 W inp.length lo hb f' ⟨c, .lexer l, x⟩ r := by
  obtain ⟨hc, hr, hw, hsig⟩ := hp
  obtain ⟨a1, a2, a3, a4, _⟩ := hm
  refine ⟨⟨by rw [hc], by rw [hc], by rw [hc]⟩, ⟨by rw [hc]; exact a1, by rw [hc]; exact a2, by rw [hc]; exact a3,
    by rw [hc]; exact a4, ?_⟩, ?_⟩
  · rw [hr, hc]
    exact ⟨hw, h1, h2⟩
  · intro sig h
    obtain ⟨e, he, hok⟩ := hsig sig h
    subst he
    exact hok

/-- a result that leaves cursor, `lexeme_start` and the sink alone -/
theorem lexQuiet_post {hb f : Bool} {c : Common} {l : LexRegs} {x : Ctx κ}
    (hm : MInvA W inp.length lo hb f ⟨c, .lexer l, x⟩) (c' : Common) (l' : LexRegs)
    (hN : c'.nextPos = c.nextPos) (hS : c'.state = c.state) (hL : c'.isLast = c.isLast)
    (hls : l'.lexemeStart = l.lexemeStart) (sig : Option Signal)
    (hsig : ∀ s, sig = some s → ∃ e, s = .err e ∧ ErrOK U1 e) :
    ActPost U1 W inp.length lo hb f ⟨c, .lexer l, x⟩ (⟨c', .lexer l', x⟩, sig) := by
  obtain ⟨a1, a2, a3, a4, a5⟩ := hm
  refine ⟨⟨hN, hS, hL⟩, ⟨by simpa only [hN] using a1, by simpa only [hN] using a2, by simpa only [hN] using a3,
    by simpa only [hN] using a4, ?_⟩, ?_⟩
  · simp only [RegsA, hN, hls] at a5 ⊢
    exact a5
  · intro s h
    obtain ⟨e, he, hok⟩ := hsig s h
    subst he
    exact hok

theorem andThen_emit {c : Common} {l : LexRegs} {e1 e2 : Nat} {r : M κ × Option Signal}
    {g : M κ → M κ × Option Signal}
    (h1 : EmitPost W c l e1 r)
    (h2 : ∀ x', W x'.sink ≤ e1 → EmitPost W c { l with lexemeStart := e1 } e2 (g ⟨c, .lexer { l with lexemeStart := e1 }, x'⟩)) :
    EmitPost W c l e1 (andThen r g) ∨ EmitPost W c l e2 (andThen r g) := by
  unfold andThen
  split
  · left
    rename_i s hs
    exact ⟨h1.1, h1.2.1, h1.2.2.1, fun sig h => by
      simp only [Option.some.injEq] at h; subst h; exact h1.2.2.2 _ hs⟩
  · right
    obtain ⟨hc, hr, hw, _⟩ := h1
    have hm : r.1 = ⟨c, .lexer { l with lexemeStart := e1 }, r.1.x⟩ := by
      cases hr1 : r.1 with
      | mk c0 r0 x0 => rw [hr1] at hc hr; simp only at hc hr; rw [hc, hr]
    rw [hm]
    have := h2 r.1.x hw
    exact this

theorem lexEmitTagLexeme_post (hs : SinkSafe env.ops W inp U1) {hb f : Bool} (c0 c : Common) (l0 l : LexRegs)
    (x0 x : Ctx κ) (sim : Sim) (tok : TagOutline)
    (hm : MInvA W inp.length lo hb f ⟨c0, .lexer l0, x0⟩) (hbt : hb = true)
    (hN : c.nextPos = c0.nextPos) (hS : c.state = c0.state) (hL : c.isLast = c0.isLast)
    (hls : l.lexemeStart = l0.lexemeStart) (hx : x.sink = x0.sink) :
    ActPost U1 W inp.length lo hb false ⟨c0, .lexer l0, x0⟩
      (lexEmitTagLexeme env inp c l x sim tok (c0.nextPos - 1 + 1)) := by
  obtain ⟨a1, a2, a3, a4, a5⟩ := hm
  simp only [RegsA] at a5
  have a4' := a4 hbt
  dsimp only at a1 a2 a3 a4' a5
  unfold lexEmitTagLexeme
  obtain ⟨hw, he⟩ := hs.handleTag ⟨x.prevConsumed, ⟨l.lexemeStart, c0.nextPos - 1 + 1⟩, tok⟩ x.sink
    (by dsimp only; rw [hx, hls]; exact a5.1) (by dsimp only; rw [hls]; exact a5.2.1) (by dsimp only; omega)
  dsimp only at hw he ⊢
  have hinv : MInvA W inp.length lo hb false
      (⟨c, .lexer { l with lexemeStart := c0.nextPos - 1 + 1 },
        { x with sink := (env.ops.handleTag inp ⟨x.prevConsumed, ⟨l.lexemeStart, c0.nextPos - 1 + 1⟩, tok⟩ x.sink).1, sim := sim }⟩ : M κ) := by
    refine ⟨by simpa only [hN] using a1, by simpa only [hN] using a2, by simpa only [hN] using a3,
      by simpa only [hN] using a4, ?_⟩
    simp only [RegsA, hN]
    exact ⟨hw, Nat.le_refl _, fun h => by cases h⟩
  split
  · rename_i e herr
    refine ⟨⟨hN, hS, hL⟩, hinv, fun sig h => ?_⟩
    simp only [Option.some.injEq] at h
    subst h
    exact he e herr
  · exact ⟨⟨hN, hS, hL⟩, hinv, fun sig h => by cases h⟩
  · refine ⟨⟨hN, hS, hL⟩, hinv, fun sig h => ?_⟩
    simp only [Option.some.injEq] at h
    subst h
    simp only [ActSigOK, mkBookmark]
    refine ⟨hw, by omega, trivial, by omega⟩

theorem lexEmitTag_post (hs : SinkSafe env.ops W inp U1) {hb f : Bool} (c : Common) (l : LexRegs) (x : Ctx κ)
    (hm : MInvA W inp.length lo hb f ⟨c, .lexer l, x⟩) (hbt : hb = true) :
    ActPost U1 W inp.length lo hb false ⟨c, .lexer l, x⟩ (lexEmitTag env inp c l x) := by
  have hweak : MInvA W inp.length lo hb false ⟨c, .lexer l, x⟩ := by
    obtain ⟨a1, a2, a3, a4, a5⟩ := hm
    exact ⟨a1, a2, a3, a4, a5.1, a5.2.1, fun h => by cases h⟩
  unfold lexEmitTag
  split
  · exact lexQuiet_post hweak c l rfl rfl rfl rfl _ (fun s h => by
      simp only [Option.some.injEq] at h; subst h; exact ⟨_, rfl, by simp [ErrOK, U1]⟩)
  · rename_i tok _
    dsimp only
    split
    · rename_i e herr
      exact lexQuiet_post hweak c _ rfl rfl rfl rfl _ (fun s h => by
        simp only [Option.some.injEq] at h; subst h; exact ⟨_, rfl, lexGetFeedback_err herr⟩)
    · rename_i sf _
      split
      · rename_i e herr
        have hweak' : MInvA W inp.length lo hb false ⟨c, .lexer l, { x with sim := sf.1 }⟩ := hweak
        have := lexQuiet_post (x := { x with sim := sf.1 }) hweak' { c with lastTextType := .data }
          { l with curTag := none, fd := .none } rfl rfl rfl rfl (some (.err e)) (fun s h => by
          simp only [Option.some.injEq] at h; subst h
          refine ⟨_, rfl, ?_⟩
          split at herr
          · exact lexHandleFeedback_err herr
          · cases herr)
        exact this
      · rename_i cs hcs
        have hfr : cs.1.nextPos = c.nextPos ∧ cs.1.state = c.state ∧ cs.1.isLast = c.isLast := by
          split at hcs
          · exact lexHandleFeedback_frame (c := { c with lastTextType := .data }) hcs
          · simp only [Except.ok.injEq] at hcs; subst hcs; exact ⟨rfl, rfl, rfl⟩
        obtain ⟨s1, s2, s3⟩ := lexStampTag_frame cs.1 cs.2 tok
        have := lexEmitTagLexeme_post hs (f := f) c (lexStampTag cs.1 cs.2 tok).1 l { l with curTag := none, fd := .none }
          x x cs.2 (lexStampTag cs.1 cs.2 tok).2 hm hbt (by rw [s1, hfr.1]) (by rw [s2, hfr.2.1])
          (by rw [s3, hfr.2.2]) rfl rfl
        simpa only [Common.pos] using this

/-- **Lexer actions preserve the in-arm invariant.** -/
theorem lexAct_post (hs : SinkSafe env.ops W inp U1) {hb f f' : Bool} (a : ActName) (c : Common)
    (l : LexRegs) (x : Ctx κ) (hm : MInvA W inp.length lo hb f ⟨c, .lexer l, x⟩)
    (hf : flagStep hb a f = some f') :
    ActPost U1 W inp.length lo hb f' ⟨c, .lexer l, x⟩ (lexAct env a inp c l x) := by
  have hm' := hm
  obtain ⟨a1, a2, a3, a4, a5⟩ := hm'
  simp only [RegsA] at a5
  dsimp only at a1 a2 a3 a4 a5
  have hpos : c.pos = c.nextPos - 1 := rfl
  cases a
  case emitText =>
    simp only [flagStep, ActName.isInclEmit, ActName.isExclEmit, Bool.false_eq_true, if_false,
      Option.some.injEq] at hf
    subst hf
    simp only [lexAct]
    rcases lexEmitText_post hs c l x a5.1 (by rw [hpos]; exact a3) with ⟨h, _⟩ | h
    · rw [h]
      exact lexQuiet_post hm c l rfl rfl rfl rfl none (fun s h => by cases h)
    · exact ActPost_of_emit hm h (by rw [hpos]; omega) (fun _ => by rw [hpos]; omega)
  case emitTextAndEof =>
    simp only [flagStep, ActName.isInclEmit, ActName.isExclEmit, Bool.false_eq_true, if_false, if_true] at hf
    split at hf
    · rename_i hft
      simp only [Option.some.injEq] at hf
      subst hf
      have hle := a5.2.2 hft
      simp only [lexAct]
      rcases lexEmitText_post hs c l x a5.1 (by rw [hpos]; exact a3) with ⟨h, hn⟩ | h
      · rw [h]
        simp only [andThen]
        exact ActPost_of_emit hm (lexEmitEof_post hs c l x a5.1 (by rw [hpos]; exact hle) (by rw [hpos]; exact a3))
          (by rw [hpos]; omega) (fun _ => by rw [hpos]; omega)
      · rcases andThen_emit (g := lexEmitEof env inp) (e2 := c.pos) h (fun x' hx' =>
          lexEmitEof_post hs c { l with lexemeStart := c.pos } x' hx' (Nat.le_refl _) (by rw [hpos]; exact a3)) with h' | h'
        · exact ActPost_of_emit hm h' (by rw [hpos]; omega) (fun _ => by rw [hpos]; omega)
        · exact ActPost_of_emit hm h' (by rw [hpos]; omega) (fun _ => by rw [hpos]; omega)
    · cases hf
  case emitCurrentToken =>
    simp only [flagStep, ActName.isInclEmit, if_true] at hf
    split at hf
    · rename_i hbt
      simp only [Option.some.injEq] at hf
      subst hf
      simp only [lexAct]
      have := lexEmitNonTag_post hs c { l with curNonTag := none } x l.curNonTag (c.pos + 1) a5.1
        (by rw [hpos]; exact a5.2.1) (by rw [hpos]; have := a4 hbt; omega)
      have hm2 : MInvA W inp.length lo hb f ⟨c, .lexer { l with curNonTag := none }, x⟩ := hm
      have := ActPost_of_emit (f' := false) hm2 this (by rw [hpos]; omega) (fun h => by cases h)
      exact ⟨this.1, this.2.1, this.2.2⟩
    · cases hf
  case emitCurrentTokenAndEof =>
    simp only [flagStep, ActName.isInclEmit, ActName.isExclEmit, Bool.false_eq_true, if_false, if_true] at hf
    split at hf
    · rename_i hft
      simp only [Option.some.injEq] at hf
      subst hf
      have hle := a5.2.2 hft
      subst hft
      simp only [lexAct]
      have h := lexEmitNonTag_post hs c { l with curNonTag := none } x l.curNonTag c.pos a5.1
        (by rw [hpos]; exact hle) (by rw [hpos]; exact a3)
      have hm2 : MInvA W inp.length lo hb true ⟨c, .lexer { l with curNonTag := none }, x⟩ := hm
      rcases andThen_emit (g := lexEmitEof env inp) (e2 := c.pos) h (fun x' hx' =>
        lexEmitEof_post hs c { l with curNonTag := none, lexemeStart := c.pos } x' hx' (Nat.le_refl _) (by rw [hpos]; exact a3)) with h' | h'
      · have := ActPost_of_emit (f' := true) hm2 h' (by rw [hpos]; omega) (fun _ => by rw [hpos]; omega)
        exact ⟨this.1, this.2.1, this.2.2⟩
      · have := ActPost_of_emit (f' := true) hm2 h' (by rw [hpos]; omega) (fun _ => by rw [hpos]; omega)
        exact ⟨this.1, this.2.1, this.2.2⟩
    · cases hf
  case emitRawWithoutToken =>
    simp only [flagStep, ActName.isInclEmit, if_true] at hf
    split at hf
    · rename_i hbt
      simp only [Option.some.injEq] at hf
      subst hf
      simp only [lexAct]
      have := lexEmitNonTag_post hs c l x none (c.pos + 1) a5.1
        (by rw [hpos]; exact a5.2.1) (by rw [hpos]; have := a4 hbt; omega)
      exact ActPost_of_emit (f' := false) hm this (by rw [hpos]; omega) (fun h => by cases h)
    · cases hf
  case emitRawWithoutTokenAndEof =>
    simp only [flagStep, ActName.isInclEmit, ActName.isExclEmit, Bool.false_eq_true, if_false, if_true] at hf
    split at hf
    · rename_i hft
      simp only [Option.some.injEq] at hf
      subst hf
      have hle := a5.2.2 hft
      simp only [lexAct]
      have h := lexEmitNonTag_post hs c l x none c.pos a5.1 (by rw [hpos]; exact hle) (by rw [hpos]; exact a3)
      rcases andThen_emit (g := lexEmitEof env inp) (e2 := c.pos) h (fun x' hx' =>
        lexEmitEof_post hs c { l with lexemeStart := c.pos } x' hx' (Nat.le_refl _) (by rw [hpos]; exact a3)) with h' | h'
      · exact ActPost_of_emit (f' := true) hm h' (by rw [hpos]; omega) (fun _ => by rw [hpos]; omega)
      · exact ActPost_of_emit (f' := true) hm h' (by rw [hpos]; omega) (fun _ => by rw [hpos]; omega)
    · cases hf
  case emitTag =>
    simp only [flagStep, ActName.isInclEmit, if_true] at hf
    split at hf
    · rename_i hbt
      simp only [Option.some.injEq] at hf
      subst hf
      simp only [lexAct]
      exact lexEmitTag_post hs c l x hm hbt
    · cases hf
  all_goals
    simp only [flagStep, ActName.isInclEmit, ActName.isExclEmit, Bool.false_eq_true, if_false,
      Option.some.injEq] at hf
    subst hf
    simp only [lexAct]
    (repeat' split) <;>
      exact lexQuiet_post hm _ _ rfl rfl rfl rfl _ (fun s h => by
        first
        | (cases h; done)
        | (simp only [Option.some.injEq] at h; subst h; exact ⟨_, rfl, by simp [ErrOK, U1]⟩))

end

/-! ### tag scanner -/

section
variable {env : Env κ} {inp : Bytes} {W : κ → Nat} {lo : Nat}

theorem scanApplyFeedback_frame (c : Common) (s : ScanRegs) (f : Feedback) :
    (scanApplyFeedback c s f).1.nextPos = c.nextPos ∧ (scanApplyFeedback c s f).1.state = c.state ∧
    (scanApplyFeedback c s f).1.isLast = c.isLast ∧ (scanApplyFeedback c s f).2.1.tagStart = s.tagStart ∧
    (scanApplyFeedback c s f).2.1.chSeqStart = s.chSeqStart := by
  cases f <;> exact ⟨rfl, rfl, rfl, rfl, rfl⟩

/-- a scanner result that leaves the cursor and the sink alone -/
theorem scanQuiet_post {hb f f' : Bool} {c : Common} {s : ScanRegs} {x : Ctx κ}
    (hm : MInvA W inp.length lo hb f ⟨c, .scanner s, x⟩) (c' : Common) (s' : ScanRegs) (x' : Ctx κ)
    (hN : c'.nextPos = c.nextPos) (hS : c'.state = c.state) (hL : c'.isLast = c.isLast)
    (hx : W x'.sink ≤ W x.sink)
    (hts : ∀ p, s'.tagStart = some p → s.tagStart = some p ∨ p = c.nextPos - 1)
    (hcs : s'.chSeqStart = s.chSeqStart) (sig : Option Signal)
    (hsig : ∀ sg, sig = some sg → ActSigOK U1 W inp.length lo ⟨c', .scanner s', x'⟩ sg) :
    ActPost U1 W inp.length lo hb f' ⟨c, .scanner s, x⟩ (⟨c', .scanner s', x'⟩, sig) := by
  obtain ⟨a1, a2, a3, a4, a5⟩ := hm
  refine ⟨⟨hN, hS, hL⟩, ⟨by simpa only [hN] using a1, by simpa only [hN] using a2, by simpa only [hN] using a3,
    by simpa only [hN] using a4, ?_⟩, hsig⟩
  simp only [RegsA, hN] at a5 ⊢
  refine ⟨by omega, ?_, by rw [hcs]; exact a5.2.2⟩
  intro p hp
  rcases hts p hp with h | h
  · have := a5.2.1 p h
    omega
  · subst h
    dsimp only at a2
    omega

theorem scanEmitHint_post (hs : SinkSafe env.ops W inp U1) {hb f f' : Bool} (c0 c : Common) (s0 s : ScanRegs)
    (x0 x : Ctx κ) (p : Nat) (ie : Bool)
    (hm : MInvA W inp.length lo hb f ⟨c0, .scanner s0, x0⟩)
    (hN : c.nextPos = c0.nextPos) (hS : c.state = c0.state) (hL : c.isLast = c0.isLast)
    (hx : x.sink = x0.sink) (hts : s.tagStart = none) (hcs : s.chSeqStart = s0.chSeqStart)
    (hp : s0.tagStart = some p) :
    ActPost U1 W inp.length lo hb f' ⟨c0, .scanner s0, x0⟩ (scanEmitHint env inp c s x p ie) := by
  have hm' := hm
  obtain ⟨a1, a2, a3, a4, a5⟩ := hm'
  simp only [RegsA] at a5
  have hpp := a5.2.1 p hp
  have hcs0 : s0.chSeqStart = none := a5.2.2
  dsimp only at a1 a2 a3 hpp
  unfold scanEmitHint
  split
  · exact scanQuiet_post hm c s x hN hS hL (by rw [hx]; exact Nat.le_refl _)
      (fun p' h => by rw [hts] at h; cases h) hcs _ (fun sg h => by
        simp only [Option.some.injEq] at h; subst h; simp [ActSigOK, ErrOK, U1])
  · rename_i name _
    dsimp only
    have hres : W (if ie = true then env.ops.endTagHint name x.sink
          else env.ops.startTagHint name x.sim.currentNs x.sink).1 ≤ W x0.sink ∧
        ∀ e, (if ie = true then env.ops.endTagHint name x.sink
          else env.ops.startTagHint name x.sim.currentNs x.sink).2 = .error e → ErrOK U1 e := by
      split
      · have := hs.endTagHint name x.sink
        rw [hx] at this ⊢
        exact this
      · have := hs.startTagHint name x.sim.currentNs x.sink
        rw [hx] at this ⊢
        exact this
    obtain ⟨hw, he⟩ := hres
    split
    · rename_i e herr
      refine scanQuiet_post hm _ s _ (by split <;> exact hN) (by split <;> exact hS) (by split <;> exact hL) hw
        (fun p' h => by rw [hts] at h; cases h) hcs _ (fun sg h => ?_)
      simp only [Option.some.injEq] at h; subst h
      exact he e herr
    · exact scanQuiet_post hm _ s _ (by split <;> exact hN) (by split <;> exact hS) (by split <;> exact hL) hw
        (fun p' h => by rw [hts] at h; cases h) hcs _ (fun sg h => by cases h)
    · refine scanQuiet_post hm _ { s with pendingTextTypeChange := none } _ (by split <;> exact hN)
        (by split <;> exact hS) (by split <;> exact hL) hw
        (fun p' h => by dsimp only at h; rw [hts] at h; cases h) hcs _ (fun sg h => ?_)
      simp only [Option.some.injEq] at h; subst h
      simp only [ActSigOK, mkBookmark]
      refine ⟨by omega, by omega, trivial, by omega, hts, by rw [hcs]; exact hcs0⟩

theorem scanFinishTagName_post (hs : SinkSafe env.ops W inp U1) {hb f f' : Bool} (c : Common) (s : ScanRegs)
    (x : Ctx κ) (hm : MInvA W inp.length lo hb f ⟨c, .scanner s, x⟩) :
    ActPost U1 W inp.length lo hb f' ⟨c, .scanner s, x⟩ (scanFinishTagName env inp c s x) := by
  have hm' := hm
  obtain ⟨a1, a2, a3, a4, a5⟩ := hm'
  simp only [RegsA] at a5
  unfold scanFinishTagName
  split
  · exact scanQuiet_post hm c s x rfl rfl rfl (Nat.le_refl _) (fun p h => Or.inl h) rfl _ (fun sg h => by
      simp only [Option.some.injEq] at h; subst h; simp [ActSigOK, ErrOK, U1])
  · rename_i p hp
    have hpp := a5.2.1 p hp
    have hcs0 : s.chSeqStart = none := a5.2.2
    dsimp only at a1 a2 a3 hpp
    dsimp only
    split
    · rename_i e herr
      refine scanQuiet_post hm c { s with tagStart := none } x rfl rfl rfl (Nat.le_refl _)
        (fun p' h => by cases h) rfl _ (fun sg h => ?_)
      simp only [Option.some.injEq] at h; subst h
      simp only [ActSigOK]
      split at herr
      · exact Sim.feedbackForEndTag_err herr
      · exact Sim.feedbackForStartTag_err herr
    · rename_i sf _
      obtain ⟨f1, f2, f3, f4, f5⟩ := scanApplyFeedback_frame c { s with tagStart := none } sf.2
      split
      · refine scanQuiet_post hm _ _ { x with sim := sf.1 } f1 f2 f3 (Nat.le_refl _)
          (fun p' h => by dsimp only at h; rw [f4] at h; cases h) (by dsimp only; rw [f5]) _ (fun sg h => ?_)
        simp only [Option.some.injEq] at h; subst h
        simp only [ActSigOK, mkBookmark]
        refine ⟨by omega, by omega, trivial, by omega, by rw [f4], by rw [f5]; exact hcs0⟩
      · exact scanEmitHint_post hs c _ s _ x { x with sim := sf.1 } p _ hm f1 f2 f3 rfl (by dsimp only; rw [f4])
          (by dsimp only; rw [f5]) hp

/-- **Tag-scanner actions preserve the in-arm invariant** (for any flag). -/
theorem scanAct_post (hs : SinkSafe env.ops W inp U1) {hb f f' : Bool} (a : ActName) (c : Common)
    (s : ScanRegs) (x : Ctx κ) (hm : MInvA W inp.length lo hb f ⟨c, .scanner s, x⟩) :
    ActPost U1 W inp.length lo hb f' ⟨c, .scanner s, x⟩ (scanAct env a inp c s x) := by
  cases a
  case finishTagName =>
    simp only [scanAct]
    exact scanFinishTagName_post hs c s x hm
  case markTagStart =>
    simp only [scanAct]
    exact scanQuiet_post hm c { s with tagStart := some c.pos } x rfl rfl rfl (Nat.le_refl _)
      (fun p h => by dsimp only at h; simp only [Option.some.injEq, Common.pos] at h; exact Or.inr h.symm) rfl none
      (fun sg h => by cases h)
  case unmarkTagStart =>
    simp only [scanAct]
    exact scanQuiet_post hm c { s with tagStart := none } x rfl rfl rfl (Nat.le_refl _) (fun p h => by cases h) rfl none
      (fun sg h => by cases h)
  all_goals
    simp only [scanAct]
    (repeat' split) <;>
      exact scanQuiet_post (f' := f') hm _ _ x rfl rfl rfl (Nat.le_refl _) (fun p h => Or.inl h) rfl none (fun sg h => by cases h)

/-- **Every action preserves the in-arm invariant.** -/
theorem act_post (hs : SinkSafe env.ops W inp U1) {hb f f' : Bool} (a : ActName) (m : M κ)
    (hm : MInvA W inp.length lo hb f m) (hf : flagStep hb a f = some f') :
    ActPost U1 W inp.length lo hb f' m (act env a inp m) := by
  unfold act
  cases m with
  | mk c r x =>
    cases r with
    | lexer l => exact lexAct_post hs a c l x hm hf
    | scanner s => exact scanAct_post hs a c s x hm

end
end LolHtml.Model
