import LolHtml.Model.SM
/-!
Frame lemma: no action moves the cursor or changes `is_last`, `state`, `entered`.
-/
namespace LolHtml.Model.Chunk
open LolHtml LolHtml.Model

variable {κ : Type} {env : Env κ} {inp : Bytes}

/-- the fields of `Common` that actions never touch -/
def CFix (c c' : Common) : Prop :=
  c'.nextPos = c.nextPos ∧ c'.isLast = c.isLast ∧ c'.state = c.state ∧ c'.entered = c.entered

theorem CFix.refl (c : Common) : CFix c c := ⟨rfl, rfl, rfl, rfl⟩
theorem CFix.trans {a b c : Common} (h1 : CFix a b) (h2 : CFix b c) : CFix a c :=
  ⟨h2.1.trans h1.1, h2.2.1.trans h1.2.1, h2.2.2.1.trans h1.2.2.1, h2.2.2.2.trans h1.2.2.2⟩

theorem lexEmitNonTag_cfix (c : Common) (l : LexRegs) (x : Ctx κ) (o : Option NonTagOutline) (e : Nat) :
    CFix c (lexEmitNonTag env inp c l x o e).1.c := by
  unfold lexEmitNonTag; dsimp only; split <;> exact CFix.refl c

theorem lexEmitText_cfix (c : Common) (l : LexRegs) (x : Ctx κ) : CFix c (lexEmitText env inp c l x).1.c := by
  unfold lexEmitText; split
  · exact lexEmitNonTag_cfix ..
  · exact CFix.refl c

theorem lexEmitEof_cfix (m : M κ) : CFix m.c (lexEmitEof env inp m).1.c := by
  unfold lexEmitEof; split
  · exact lexEmitNonTag_cfix ..
  · exact CFix.refl _

theorem andThen_cfix (c : Common) (r : M κ × Option Signal) (g : M κ → M κ × Option Signal)
    (hr : CFix c r.1.c) (hg : ∀ m, CFix m.c (g m).1.c) : CFix c (andThen r g).1.c := by
  unfold andThen; split
  · exact hr
  · exact hr.trans (hg _)

theorem lexEmitTagLexeme_cfix (c : Common) (l : LexRegs) (x : Ctx κ) (sim : Sim) (t : TagOutline) (e : Nat) :
    CFix c (lexEmitTagLexeme env inp c l x sim t e).1.c := by
  unfold lexEmitTagLexeme; dsimp only; split <;> exact CFix.refl c

theorem lexHandleFeedback_cfix (c : Common) (sim : Sim) (f : Feedback) (o : TagOutline) (r : Common × Sim)
    (h : lexHandleFeedback inp c sim f o = .ok r) : CFix c r.1 := by
  unfold lexHandleFeedback at h
  dsimp only at h
  repeat' split at h
  all_goals first
    | (cases h; done)
    | (simp only [Except.ok.injEq] at h; subst h; exact ⟨rfl, rfl, rfl, rfl⟩)

theorem lexStampTag_cfix (c : Common) (sim : Sim) (t : TagOutline) : CFix c (lexStampTag c sim t).1 := by
  unfold lexStampTag; split <;> exact ⟨rfl, rfl, rfl, rfl⟩

theorem lexEmitTag_cfix (c : Common) (l : LexRegs) (x : Ctx κ) : CFix c (lexEmitTag env inp c l x).1.c := by
  unfold lexEmitTag
  split
  · exact CFix.refl c
  · dsimp only
    split
    · exact CFix.refl c
    · split
      · exact ⟨rfl, rfl, rfl, rfl⟩
      · rename_i cs hcs
        have h0 : CFix c { c with lastTextType := .data } := ⟨rfl, rfl, rfl, rfl⟩
        have h1 : CFix { c with lastTextType := .data } cs.1 := by
          split at hcs
          · exact lexHandleFeedback_cfix _ _ _ _ _ hcs
          · simp only [Except.ok.injEq] at hcs; subst hcs; exact CFix.refl _
        exact (h0.trans h1).trans ((lexStampTag_cfix _ _ _).trans (lexEmitTagLexeme_cfix ..))

theorem lexAct_cfix (a : ActName) (c : Common) (l : LexRegs) (x : Ctx κ) : CFix c (lexAct env a inp c l x).1.c := by
  cases a <;> simp only [lexAct]
  case emitText => exact lexEmitText_cfix ..
  case emitTextAndEof => exact andThen_cfix c _ _ (lexEmitText_cfix ..) (fun m => lexEmitEof_cfix m)
  case emitCurrentToken => exact lexEmitNonTag_cfix ..
  case emitCurrentTokenAndEof => exact andThen_cfix c _ _ (lexEmitNonTag_cfix ..) (fun m => lexEmitEof_cfix m)
  case emitRawWithoutToken => exact lexEmitNonTag_cfix ..
  case emitRawWithoutTokenAndEof => exact andThen_cfix c _ _ (lexEmitNonTag_cfix ..) (fun m => lexEmitEof_cfix m)
  case emitTag => exact lexEmitTag_cfix ..
  all_goals (repeat' split) <;> exact ⟨rfl, rfl, rfl, rfl⟩

theorem scanEmitHint_cfix (c : Common) (s : ScanRegs) (x : Ctx κ) (ts : Nat) (ie : Bool) :
    CFix c (scanEmitHint env inp c s x ts ie).1.c := by
  unfold scanEmitHint
  split
  · exact CFix.refl c
  · dsimp only
    have : CFix c (if ie = true then c else { c with lastStartTagNameHash := s.tagNameHash }) := by
      split
      · exact CFix.refl c
      · exact ⟨rfl, rfl, rfl, rfl⟩
    split <;> exact this

theorem scanApplyFeedback_cfix (c : Common) (s : ScanRegs) (f : Feedback) : CFix c (scanApplyFeedback c s f).1 := by
  cases f <;> exact ⟨rfl, rfl, rfl, rfl⟩

theorem scanFinishTagName_cfix (c : Common) (s : ScanRegs) (x : Ctx κ) :
    CFix c (scanFinishTagName env inp c s x).1.c := by
  unfold scanFinishTagName
  split
  · exact CFix.refl c
  · dsimp only
    split
    · exact CFix.refl c
    · split
      · exact scanApplyFeedback_cfix ..
      · exact (scanApplyFeedback_cfix ..).trans (scanEmitHint_cfix ..)

theorem scanAct_cfix (a : ActName) (c : Common) (s : ScanRegs) (x : Ctx κ) : CFix c (scanAct env a inp c s x).1.c := by
  cases a <;> simp only [scanAct]
  case finishTagName => exact scanFinishTagName_cfix ..
  all_goals (repeat' split) <;> exact ⟨rfl, rfl, rfl, rfl⟩

theorem act_cfix (a : ActName) (m : M κ) : CFix m.c (act env a inp m).1.c := by
  unfold act; split
  · exact lexAct_cfix ..
  · exact scanAct_cfix ..

theorem runCalls_cfix (cs : List Call) (m : M κ) : CFix m.c (runCalls env inp cs m).1.c := by
  induction cs generalizing m with
  | nil => exact CFix.refl _
  | cons cl cs ih =>
    simp only [runCalls]
    have h1 := act_cfix (env := env) (inp := inp) cl.act m
    split
    · split
      · exact h1
      · exact h1.trans (ih _)
    · exact h1.trans (ih _)

end LolHtml.Model.Chunk
