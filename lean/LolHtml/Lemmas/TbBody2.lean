import LolHtml.Lemmas.TbBody1
/-!
`BStep`: a rule executed in the body phase leaves the body-phase invariant in place. The rules of "in head"
(as used from the body phase) and the start tags of "in body".
-/
namespace LolHtml.Spec.TreeBuilder
open LolHtml.Model (Ns)

variable {c : Cfg} {s s' : State}

/-- the parser is past "after head" and not in a frameset mode -/
def BodyPhase (s : State) : Prop := effMode s ∉ preBody ∧ effMode s ∉ framesetModes

/-- what a rule leaves behind -/
structure BStep (s s' : State) : Prop where
  binv : BInv s'
  fo : s.framesetOk = false → s'.framesetOk = false
  phase : BodyPhase s'

def BodyPost (s : State) : Res → Prop
  | .done s' _ => BStep s s'
  | .reprocess s' _ => BStep s s'
  | .impossible _ => True

/-- how a rule of "in body" may change the insertion mode -/
def ModeRel (s s' : State) : Prop :=
  (s'.mode = s.mode ∧ s'.origMode = s.origMode) ∨ (s'.mode = .text ∧ s'.origMode = s.mode) ∨
  (modeAnchors s.mode = some [.body] ∧ (s'.mode = .afterBody ∨ s'.mode = .inBody ∨ s'.mode = .afterAfterBody))

def FormRel (s s' : State) : Prop :=
  s'.formPtr = s.formPtr ∨ s'.formPtr = none ∨ ∃ f, s'.formPtr = some f ∧ f.isAnchor = false

theorem effMode_eq (h1 : s.mode ≠ .text) (h2 : s.mode ≠ .inTableText) : effMode s = s.mode := by
  simp [effMode, h1, h2]

theorem AT.ofInv (hI : Inv false s) (hB : BInv s) : AT s.tree := ⟨hI.tree, W.ofSuffix hB.ba.w⟩

theorem bstep_keep (hB : BInv s) (hph : BodyPhase s) (h1 : s.mode ≠ .text) (h2 : s.mode ≠ .inTableText)
    (hafe : AfeFmt s.tree) (hk : Keeps s.tree s'.tree) (hm : ModeRel s s') (hform : FormRel s s')
    (hfo : s'.framesetOk = s.framesetOk ∨ s'.framesetOk = false)
    (htxt : s'.mode = .text → ∃ e r, s'.tree.stack = e :: r ∧ e.isAnchor = false)
    (hsel : s'.framesetOk = true → TreeOk PNoSel s.tree → TreeOk PNoSel s'.tree) : BStep s s' := by
  have he := effMode_eq h1 h2
  obtain ⟨hp1, hp2⟩ := hph
  rw [he] at hp1 hp2
  have hanch : modeAnchors (effMode s') = modeAnchors s.mode ∧ effMode s' ∉ preBody ∧ effMode s' ∉ framesetModes := by
    rcases hm with ⟨e1, e2⟩ | ⟨e1, e2⟩ | ⟨e1, e2⟩
    · have : effMode s' = effMode s := by simp [effMode, e1, e2]
      rw [this, he]; exact ⟨rfl, hp1, hp2⟩
    · have : effMode s' = s.mode := by simp [effMode, e1, e2]
      rw [this]; exact ⟨rfl, hp1, hp2⟩
    · rcases e2 with e2 | e2 | e2 <;>
        (have : effMode s' = s'.mode := by simp [effMode, e2]
         rw [this, e2, e1]; simp [modeAnchors, preBody, framesetModes])
  have hselS : s'.framesetOk = true → StackAll PNoSel s'.tree := by
    intro h
    have hs : s.framesetOk = true := by
      rcases hfo with e | e
      · rw [← e]; exact h
      · rw [e] at h; cases h
    exact (hsel h ⟨hB.sel hs, hafe⟩).stack
  have hform' : ∀ f, s'.formPtr = some f → f.isAnchor = false := by
    intro f hf
    rcases hform with e | e | ⟨f', e, hf'⟩
    · exact hB.form f (e ▸ hf)
    · rw [e] at hf; cases hf
    · rw [e] at hf; injection hf with hf; subst hf; exact hf'
  have hanchOk : AnchOk (effMode s') (anchorSuffix s'.tree.stack) := by
    have := hB.ba.anch
    rw [he] at this
    unfold AnchOk at this ⊢
    rw [hanch.1, hk]; exact this
  refine ⟨⟨⟨?_, ?_, hanchOk, ?_⟩, hform', htxt, hselS⟩, ?_, ⟨hanch.2.1, hanch.2.2⟩⟩
  · rw [hk]; exact hB.ba.w
  · rw [hk]; exact hB.ba.bottom
  · rw [hk]; exact hB.ba.nofs
  · intro h
    rcases hfo with e | e
    · rw [e]; exact h
    · exact e

theorem bstep_same (hB : BInv s) (hph : BodyPhase s) : BStep s s := ⟨hB, fun h => h, hph⟩

/-- close a branch of a rule of "in body": `hAT : AT s.tree`, `hB : BInv s`, `hph : BodyPhase s` -/
syntax "body_branch" ident ident ident ident ident : tactic
macro_rules
  | `(tactic| body_branch $hAT:ident $hB:ident $hph:ident $h1:ident $h2:ident) => `(tactic| first
    | contradiction
    | (exfalso; simp_all; done)
    | (show BStep _ _; with_reducible exact bstep_same $hB $hph)
    | (show BStep _ _; refine bstep_keep $hB $hph $h1 $h2 (AT.ok $hAT).afe ?_ ?_ ?_ ?_ ?_ ?_
       · ((try dsimp only [onTree_tree]); keeps_ok $hAT)
       · first | exact Or.inl ⟨rfl, rfl⟩ | exact Or.inr (Or.inl ⟨rfl, rfl⟩)
       · first | exact Or.inl rfl | exact Or.inr (Or.inl rfl)
               | (refine Or.inr (Or.inr ⟨_, rfl, ?_⟩); simp [El.isAnchor, El.isHtmlIn, anchorNames, Name.isIn])
       · first | exact Or.inl rfl | exact Or.inr rfl
       · first | (intro h; exact absurd h $h1)
               | (intro _; exact ⟨_, _, rfl, by simp [El.isAnchor, El.isHtmlIn, anchorNames, Name.isIn]⟩)
       · first | (intro h; simp at h; done)
               | (intro _ hT; (try dsimp only [onTree_tree]); sel_ok)))

/-! ### removing a non-anchor element from anywhere in the stack -/

theorem anchorSuffix_filter (x : El) (hx : x.isAnchor = false) (st : List El) :
    anchorSuffix (st.filter (· != x)) = (anchorSuffix st).filter (· != x) := by
  induction st with
  | nil => rfl
  | cons e es ih =>
    by_cases he : e.isAnchor = true
    · have hne : (e != x) = true := by
        simp only [bne_iff_ne, ne_eq]; intro h; rw [h, hx] at he; cases he
      rw [anchorSuffix_cons_anchor e es he]
      simp only [List.filter_cons, hne, if_true]
      rw [anchorSuffix_cons_anchor _ _ he]
    · have he' : e.isAnchor = false := by simpa using he
      rw [anchorSuffix_cons_non e es he']
      by_cases hne : (e != x) = true
      · simp only [List.filter_cons, hne, if_true]
        rw [anchorSuffix_cons_non _ _ he']; exact ih
      · have hne' : (e != x) = false := by simpa using hne
        simp only [List.filter_cons, hne', Bool.false_eq_true, if_false]; exact ih

theorem nextIn_filter (x : El) (hx : x.isAnchor = false) (l : List Name)
    (hl : ∀ n : Name, n.isIn l = true → n.isIn anchorNames = true) (r : List El) (h : nextIn l r) :
    nextIn l (r.filter (· != x)) := by
  cases r with
  | nil => exact h.elim
  | cons y r' =>
    have hy : y.isAnchor = true := by
      simp only [nextIn, El.isHtmlIn, Bool.and_eq_true] at h
      simp [El.isAnchor, El.isHtmlIn, h.1, hl _ h.2]
    have hne : (y != x) = true := by
      simp only [bne_iff_ne, ne_eq]; intro e; rw [e, hx] at hy; cases hy
    simp only [List.filter_cons, hne, if_true]; exact h

theorem W.filter (x : El) (hx : x.isAnchor = false) (st : List El) (h : W st) : W (st.filter (· != x)) := by
  induction st with
  | nil => exact h
  | cons e es ih =>
    obtain ⟨h0, h1, h2, h3, h4, h5, h6, h7⟩ := h
    by_cases hne : (e != x) = true
    · simp only [List.filter_cons, hne, if_true]
      refine ⟨ih h0, fun he => nextIn_filter x hx _ ?_ _ (h1 he), fun he => nextIn_filter x hx _ ?_ _ (h2 he),
        fun he => nextIn_filter x hx _ ?_ _ (h3 he), fun he => nextIn_filter x hx _ ?_ _ (h4 he),
        fun he => nextIn_filter x hx _ ?_ _ (h5 he), fun he => nextIn_filter x hx _ ?_ _ (h6 he),
        fun he => nextIn_filter x hx _ ?_ _ (h7 he)⟩ <;>
        (intro n hn; cases n <;> simp [secNames, Name.isIn] at hn <;> decide)
    · have hne' : (e != x) = false := by simpa using hne
      simp only [List.filter_cons, hne', Bool.false_eq_true, if_false]; exact ih h0

theorem BA.filter {m : Mode} {A : List El} (h : BA m A) (x : El) (hx : x.isAnchor = false)
    (hA : ∀ a r, A = a :: r → a.isAnchor = true) : BA m (A.filter (· != x)) := by
  refine ⟨W.filter x hx A h.w, ?_, ?_, fun e he => h.nofs e (List.mem_filter.mp he).1⟩
  · obtain ⟨mid, b, hh, hAe, hb, hhh, hmid⟩ := h.bottom
    have hbn : (b != x) = true := by
      simp only [bne_iff_ne, ne_eq]; intro e
      have : b.isAnchor = true := by
        simp only [El.isHtml, Bool.and_eq_true, beq_iff_eq] at hb
        simp [El.isAnchor, El.isHtmlIn, hb.1, hb.2, anchorNames, Name.isIn]
      rw [e, hx] at this; cases this
    have hhn : (hh != x) = true := by
      simp only [bne_iff_ne, ne_eq]; intro e
      have : hh.isAnchor = true := by
        simp only [El.isHtml, Bool.and_eq_true, beq_iff_eq] at hhh
        simp [El.isAnchor, El.isHtmlIn, hhh.1, hhh.2, anchorNames, Name.isIn]
      rw [e, hx] at this; cases this
    refine ⟨mid.filter (· != x), b, hh, ?_, hb, hhh, fun e he => hmid e (List.mem_filter.mp he).1⟩
    rw [hAe, List.filter_append]
    simp only [List.filter_cons, hbn, hhn, if_true, List.filter_nil]
  · have := h.anch
    unfold AnchOk at this ⊢
    cases hm : modeAnchors m with
    | none => trivial
    | some l =>
      rw [hm] at this
      cases A with
      | nil => exact this.elim
      | cons a r =>
        have ha := hA a r rfl
        have hne : (a != x) = true := by
          simp only [bne_iff_ne, ne_eq]; intro e; rw [e, hx] at ha; cases ha
        simp only [List.filter_cons, hne, if_true]; exact this

theorem anchorSuffix_head_anchor (st : List El) : ∀ a r, anchorSuffix st = a :: r → a.isAnchor = true := by
  induction st with
  | nil => intro a r h; cases h
  | cons e es ih =>
    intro a r h
    by_cases he : e.isAnchor = true
    · rw [anchorSuffix_cons_anchor e es he] at h
      injection h with h1 _; subst h1; exact he
    · have he' : e.isAnchor = false := by simpa using he
      rw [anchorSuffix_cons_non e es he'] at h
      exact ih a r h

/-- a rule that removes a non-anchor element somewhere and otherwise keeps the anchor suffix -/
theorem bstep_filter (hB : BInv s) (hph : BodyPhase s) (h1 : s.mode ≠ .text) (h2 : s.mode ≠ .inTableText)
    (x : El) (hx : x.isAnchor = false)
    (hk : anchorSuffix s'.tree.stack = (anchorSuffix s.tree.stack).filter (· != x))
    (hm : s'.mode = s.mode ∧ s'.origMode = s.origMode) (hform : FormRel s s')
    (hfo : s'.framesetOk = s.framesetOk ∨ s'.framesetOk = false)
    (hsel : s'.framesetOk = true → StackAll PNoSel s.tree → StackAll PNoSel s'.tree) : BStep s s' := by
  have he := effMode_eq h1 h2
  have he' : effMode s' = effMode s := by simp [effMode, hm.1, hm.2]
  have hselS : s'.framesetOk = true → StackAll PNoSel s'.tree := by
    intro h
    have hs : s.framesetOk = true := by
      rcases hfo with e | e
      · rw [← e]; exact h
      · rw [e] at h; cases h
    exact hsel h (hB.sel hs)
  refine ⟨⟨?_, ?_, fun h => absurd (hm.1 ▸ h) h1, hselS⟩, ?_, ?_⟩
  · rw [he', hk]
    exact hB.ba.filter x hx (anchorSuffix_head_anchor _)
  · intro f hf
    rcases hform with e | e | ⟨f', e, hf'⟩
    · exact hB.form f (e ▸ hf)
    · rw [e] at hf; cases hf
    · rw [e] at hf; injection hf with hf; subst hf; exact hf'
  · intro h
    rcases hfo with e | e
    · rw [e]; exact h
    · exact e
  · unfold BodyPhase; rw [he']; exact hph

end LolHtml.Spec.TreeBuilder
