import LolHtml.Lemmas.EscRealCommentRun
/-!
Induction over the comment text: the lexer on the generated table follows `Lemmas.EscComment.after`
byte by byte; assembled with the prologue `<!--` (data state → tag open → markup declaration open →
comment start).
-/
namespace LolHtml.Model.CommentStates
open LolHtml LolHtml.Model LolHtml.Model.TagStates
open LolHtml.Thm.C16 (Lexeme recOps)
open LolHtml.Spec.Esc.CommentEnd (State)
open LolHtml.Lemmas.EscComment (next pend after)

section
variable {tbl : Table} {cfg : TagCfg} (hok : CommentStatesOk tbl = true) {inp : Bytes}

theorem getElem?_of_drop {inp : Bytes} {p : Nat} {b : UInt8} {w tail : Bytes} (hd : inp.drop p = b :: w ++ tail) :
    inp[p]? = some b ∧ inp.drop (p + 1) = w ++ tail := by
  constructor
  · have : (inp.drop p)[0]? = some b := by rw [hd]; rfl
    rw [List.getElem?_drop] at this
    simpa using this
  · have : (inp.drop p).drop 1 = w ++ tail := by rw [hd]; rfl
    rw [List.drop_drop] at this
    exact this

include hok

/-- **Many bytes.** The lexer follows `after`: either the whole of `w` is consumed silently and the
machine is in the lol-html state of the WHATWG state reached, or the comment lexeme is handed to the
sink at the byte of `w` on which the WHATWG machine emits the comment, with a text range that starts
at `s` and ends at or before that byte. -/
theorem run_bytes (F : CFrame) (s : Nat) : ∀ (w : Bytes) (q : State) (p : Nat) (m : M (List Lexeme)) (tail : Bytes),
    AtQ F q s p m → inp.drop p = w ++ tail →
    match after q w with
    | some q' => ∃ k m', k ≤ 3 * w.length ∧
        (∀ fuel, runLoop ⟨tbl, cfg, recOps⟩ inp (k + fuel) m = runLoop ⟨tbl, cfg, recOps⟩ inp fuel m') ∧
        AtQ F q' s (p + w.length) m'
    | none => ∃ k j tps r, k ≤ 3 * w.length ∧ j < w.length ∧
        (∀ fuel, runLoop ⟨tbl, cfg, recOps⟩ inp (k + fuel) m = runLoop ⟨tbl, cfg, recOps⟩ inp fuel (em F (p + j) tps r)) ∧
        r.start = s ∧ r.end ≤ p + j
  | [], q, p, m, _, h, _ => by
    simp only [after]
    exact ⟨0, m, by simp, fun fuel => by simp, by simpa using h⟩
  | b :: w, q, p, m, tail, h, hd => by
    obtain ⟨hb, hd'⟩ := getElem?_of_drop hd
    have g := consume_byte (cfg := cfg) hok F q s p b m hb h
    unfold Goal at g
    simp only [after]
    cases hn : next q b with
    | none =>
      rw [hn] at g
      obtain ⟨k, tps, r, hk1, hk3, hrun, hrs, hre⟩ := g
      simp only [Option.bind_none]
      exact ⟨k, 0, tps, r, by simp; omega, by simp, by simpa using hrun, hrs, by omega⟩
    | some q1 =>
      rw [hn] at g
      obtain ⟨k, m1, hk1, hk3, hrun, hat⟩ := g
      simp only [Option.bind_some]
      have ih := run_bytes F s w q1 (p + 1) m1 tail hat hd'
      cases ha : after q1 w with
      | none =>
        rw [ha] at ih
        obtain ⟨k2, j, tps, r, hk2, hj, hrun2, hrs, hre⟩ := ih
        refine ⟨k + k2, j + 1, tps, r, by simp; omega, by simp; omega, fun fuel => ?_, hrs, by omega⟩
        rw [Nat.add_assoc, hrun, hrun2, show p + 1 + j = p + (j + 1) by omega]
      | some q2 =>
        rw [ha] at ih
        obtain ⟨k2, m2, hk2, hrun2, hat2⟩ := ih
        refine ⟨k + k2, m2, by simp; omega, fun fuel => ?_, ?_⟩
        · rw [Nat.add_assoc, hrun, hrun2]
        · rw [show p + (b :: w).length = p + 1 + w.length by simp; omega]; exact hat2

/-- **Prologue.** `<!--` from the clean data state: three silent calls lead to the comment start state. -/
theorem prologue (il en ca : Bool) (lsh : Nat) (cq : UInt8) (ltt : TextType) (l : LexRegs) (x : Ctx (List Lexeme))
    (p : Nat) (tail : Bytes) (hd : inp.drop p = [60, 33, 45, 45] ++ tail) (hl : l.lexemeStart = p) :
    ∃ m', (∀ fuel, runLoop ⟨tbl, cfg, recOps⟩ inp (3 + fuel) ⟨⟨p, il, 2, en, ca, lsh, cq, ltt⟩, .lexer l, x⟩
        = runLoop ⟨tbl, cfg, recOps⟩ inp fuel m') ∧
      AtQ ⟨il, ca, lsh, cq, ltt, p, l.curTag, l.curAttr, l.fd, x⟩ .commentStart (p + 4) (p + 4) m' := by
  obtain ⟨h0, hd1⟩ := getElem?_of_drop (w := [33, 45, 45]) hd
  obtain ⟨h1, hd2⟩ := getElem?_of_drop (w := [45, 45]) hd1
  obtain ⟨h2, hd3⟩ := getElem?_of_drop (w := [45]) hd2
  obtain ⟨h3, _⟩ := getElem?_of_drop (w := []) hd3
  obtain ⟨ls, tps, ct, cnt, cattr, fd⟩ := l
  simp only at hl
  subst hl
  have s1 := step2_lt (env := ⟨tbl, cfg, recOps⟩) (tagOk_of_ok hok) (inp := inp) (p := ls) (il := il) (en := en)
    (ca := ca) (lsh := lsh) (cq := cq) (ltt := ltt) (x := x) (l := ⟨ls, tps, ct, cnt, cattr, fd⟩) h0 rfl
  have s2 := step28_bang (cfg := cfg) (il := il) (en := false) (ca := ca) (lsh := lsh) (cq := cq) (ltt := ltt) (x := x)
    (l := ⟨ls, tps, ct, cnt, cattr, fd⟩) hok h1
  have s3 := step30_dashdash (cfg := cfg) (il := il) (ca := ca) (lsh := lsh) (cq := cq) (ltt := ltt) (x := x)
    (ls := ls) (tps := tps) (ct := ct) (cnt := cnt) (cattr := cattr) (fd := fd) hok h2 h3
  refine ⟨_, run3 s1 s2 s3, ?_⟩
  exact ⟨by omega, ls + 1 + 1, cnt, by simp [cm]⟩

end
end LolHtml.Model.CommentStates
