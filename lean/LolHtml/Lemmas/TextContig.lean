import LolHtml.Lemmas.PreserveView
import LolHtml.Lemmas.Locations
/-!
Contiguity of the chunks of one text node, at the level of the dispatcher (one chunk per text lexeme,
plus the closing empty chunk): after a chunk that is not the last of its node, the next token handed to
the controller is a text chunk of the same node and starts exactly where the previous one ended.

`TextInv` is the sink-side invariant; `TV` adds the link with the lexer: while a text node is open,
`previously_consumed + lexeme_start` is where its last chunk ended (consecutive text lexemes are
adjacent; any other lexeme, and any tag-scanner activity, closes the node first).
-/
namespace LolHtml.Model

variable {γ : Type}

/-- `b` may follow `a`: after a non-last text chunk comes a text chunk starting where it ended -/
def Link (a b : Token) : Prop :=
  match a with
  | .text _ _ false s1 => (match b with | .text _ _ _ s2 => s2.start = s1.end | _ => False)
  | _ => True

/-- every token may follow its predecessor -/
def Contig : List Token → Prop
  | [] => True
  | [_] => True
  | a :: b :: rest => Link a b ∧ Contig (b :: rest)

/-- a text chunk that is not the last one of its node -/
def OpenText (t : Token) : Prop := ∃ b tt s, t = .text b tt false s

theorem Link.of_not_open {a b : Token} (h : ¬ OpenText a) : Link a b := by
  unfold Link
  split
  · rename_i x y s; exact absurd ⟨_, _, _, rfl⟩ h
  · trivial

theorem Contig.snoc {l : List Token} {t : Token} (h : Contig l) (hl : ∀ a, l.getLast? = some a → Link a t) :
    Contig (l ++ [t]) := by
  induction l with
  | nil => trivial
  | cons a rest ih =>
    cases rest with
    | nil => exact ⟨hl a rfl, trivial⟩
    | cons b rest' =>
      obtain ⟨h1, h2⟩ := h
      refine ⟨h1, ih h2 ?_⟩
      intro x hx
      apply hl
      simpa [List.getLast?_cons_cons] using hx

theorem Contig.get {l : List Token} (h : Contig l) (i : Nat) (hi : i + 1 < l.length) : Link l[i] l[i + 1] := by
  induction l generalizing i with
  | nil => simp at hi
  | cons a rest ih =>
    cases rest with
    | nil => simp at hi
    | cons b rest' =>
      obtain ⟨h1, h2⟩ := h
      cases i with
      | zero => exact h1
      | succ j =>
        have := ih h2 j (by simp only [List.length_cons] at hi ⊢; omega)
        simpa using this

/-- the source range of a text chunk is as long as the chunk's bytes -/
def TextLen (t : Token) : Prop :=
  match t with
  | .text raw _ _ s => s.end = s.start + raw.length
  | _ => True

/-- not a text chunk -/
def NotText (t : Token) : Prop := ∀ b tt l s, t ≠ .text b tt l s

theorem NotText.notOpen {t : Token} (h : NotText t) : ¬ OpenText t := fun ⟨b, tt, s, hh⟩ => h b tt false s hh

theorem NotText.textLen {t : Token} (h : NotText t) : TextLen t := by
  unfold TextLen
  split
  · rename_i raw a b s; exact absurd rfl (h raw a b s)
  · trivial

/-- what is proved of the list of tokens handed to the controller -/
def Good (l : List Token) : Prop := Contig l ∧ ∀ t ∈ l, TextLen t

theorem Good.snoc {l : List Token} {t : Token} (h : Good l) (hl : ∀ a, l.getLast? = some a → Link a t)
    (ht : TextLen t) : Good (l ++ [t]) := by
  refine ⟨h.1.snoc hl, ?_⟩
  intro x hx
  rw [List.mem_append] at hx
  rcases hx with hx | hx
  · exact h.2 x hx
  · simp only [List.mem_singleton] at hx; subst hx; exact ht

/-- sink-side invariant -/
structure TextInv (log : γ → List Token) (d : Disp γ) : Prop where
  contig : Good (log d.ctl)
  open_ : d.textPending = true → d.flags.text = true ∧
    ∃ b tt s, (log d.ctl).getLast? = some (.text b tt false s) ∧ s.end = d.textPendingStart
  closed : d.textPending = false → ∀ a, (log d.ctl).getLast? = some a → ¬ OpenText a

/-- the joint invariant: `ls?` = the lexer's `lexeme_start` (`none`: the tag scanner is running) -/
def TV (log : γ → List Token) (pc : Nat) (ls? : Option Nat) (d : Disp γ) : Prop :=
  TextInv log d ∧
  match ls? with
  | some ls => d.textPending = true → pc + ls = d.textPendingStart
  | none => d.textPending = false

/-- a step that, when it succeeds, establishes `Q` -/
def OkD {α : Type} (Q : Disp γ → Prop) (r : DRes γ α) : Prop := ∀ a, r.2 = .ok a → Q r.1

theorem OkD.bind {α β : Type} {Q Q' : Disp γ → Prop} {r : DRes γ α} {f : Disp γ → α → DRes γ β}
    (hr : OkD Q r) (hf : ∀ d a, Q d → OkD Q' (f d a)) : OkD Q' (DRes.bind r f) := by
  unfold DRes.bind
  split
  · intro a ha; simp at ha
  · rename_i a ha
    exact hf _ _ (hr a ha)

section
variable {ctl : Controller γ} {log : γ → List Token} {pc : Nat} {inp : Bytes}

/-- appending a token that closes / does not open a text node -/
theorem TextInv.append_closed {d d' : Disp γ} {t : Token} (h : TextInv log d) (hlog : log d'.ctl = log d.ctl ++ [t])
    (hlink : ∀ a, (log d.ctl).getLast? = some a → Link a t) (hnot : ¬ OpenText t) (hlen : TextLen t)
    (hp : d'.textPending = false) :
    TextInv log d' := by
  refine ⟨by rw [hlog]; exact h.contig.snoc hlink hlen, fun hp' => by rw [hp] at hp'; simp at hp', ?_⟩
  intro _ a ha
  rw [hlog, List.getLast?_append] at ha
  simp at ha
  subst ha
  exact hnot

theorem TextInv.frame {d d' : Disp γ} (h : TextInv log d) (hlog : log d'.ctl = log d.ctl) (hp : d'.textPending = d.textPending)
    (hts : d'.textPendingStart = d.textPendingStart) (hf : d.textPending = true → d'.flags.text = d.flags.text) :
    TextInv log d' := by
  refine ⟨by rw [hlog]; exact h.contig, ?_, ?_⟩
  · intro hp'
    rw [hp] at hp'
    obtain ⟨a, b⟩ := h.open_ hp'
    rw [hlog, hts, hf hp']
    exact ⟨a, b⟩
  · intro hp'
    rw [hp] at hp'
    rw [hlog]
    exact h.closed hp'

theorem tokenProduced_flags (d : Disp γ) (t : Token) : (Disp.tokenProduced ctl d t).1.flags = d.flags := by
  have key : ∀ (d0 : Disp γ) (o : Option Nat) (cs : List Bytes), ((d0.noteNextEncoding o).pushChunks cs).flags = d0.flags := by
    intro d0 o cs
    unfold Disp.noteNextEncoding Disp.pushChunks
    (repeat' split) <;> simp
  unfold Disp.tokenProduced
  dsimp only
  split <;> simp only [key]

theorem flushPendingText_T (hlog : Logging ctl log) (d : Disp γ) (h : TextInv log d) :
    OkD (fun d' => TextInv log d' ∧ d'.textPending = false ∧ d'.flags = d.flags) (d.flushPendingText ctl) := by
  intro a ha
  unfold Disp.flushPendingText at ha ⊢
  split
  · rename_i hp
    obtain ⟨_, b, tt, s, hlast, hend⟩ := h.open_ hp
    obtain ⟨t1, t2, t3, t4, t5⟩ := tokenProduced_log hlog { d with textPending := false }
      (.text [] d.lastTextType true ⟨d.textPendingStart, d.textPendingStart⟩)
    have hfl := tokenProduced_flags (ctl := ctl) { d with textPending := false }
      (.text [] d.lastTextType true ⟨d.textPendingStart, d.textPendingStart⟩)
    refine ⟨?_, by rw [t3], hfl⟩
    apply TextInv.append_closed (d := d) h t1
    · intro a' ha'
      rw [hlast] at ha'
      simp only [Option.some.injEq] at ha'
      subst ha'
      simp only [Link]
      exact hend.symm
    · intro ⟨b', tt', s', hh⟩; simp at hh
    · simp [TextLen]
    · rw [t3]
  · rename_i hp
    exact ⟨h, by simpa using hp, rfl⟩

theorem emitChunkBefore_frame {d d' : Disp γ} {raw : Range} (he : d.emitChunkBefore inp raw = .ok d') :
    d'.ctl = d.ctl ∧ d'.textPending = d.textPending ∧ d'.textPendingStart = d.textPendingStart ∧ d'.flags = d.flags ∧
    d'.lastTextType = d.lastTextType := by
  unfold Disp.emitChunkBefore at he
  split at he
  · simp at he
  · simp only [Except.ok.injEq] at he
    subst he
    refine ⟨?_, ?_, ?_, ?_, ?_⟩ <;> (split <;> rfl)

/-- a non-text token on a closed node -/
theorem emitToken_T (hlog : Logging ctl log) (d : Disp γ) (raw : Range) (tok : Token) (hnot : NotText tok)
    (hnp : d.textPending = false) (h : TextInv log d) :
    OkD (fun d' => TextInv log d' ∧ d'.textPending = false) (d.emitToken ctl inp raw tok) := by
  unfold Disp.emitToken
  cases he : d.emitChunkBefore inp raw with
  | error e => intro a ha; simp [DRes.ofExcept, DRes.bind] at ha
  | ok d1 =>
    obtain ⟨e1, e2, e3, e4, _⟩ := emitChunkBefore_frame he
    simp only [DRes.ofExcept, DRes.bind]
    obtain ⟨t1, t2, t3, t4, t5⟩ := tokenProduced_log hlog d1 tok
    cases hres : (Disp.tokenProduced ctl d1 tok).2 with
    | error e => intro a ha; simp at ha
    | ok u =>
      intro a _
      have hfe : ∀ d0 : Disp γ, d0.flushEncodingChange.ctl = d0.ctl ∧ d0.flushEncodingChange.textPending = d0.textPending := by
        intro d0; unfold Disp.flushEncodingChange; (repeat' split) <;> simp
      obtain ⟨f1, f3⟩ := hfe { Disp.tokenProduced ctl d1 tok |>.1 with rcs := raw.end }
      have hp' : ({ Disp.tokenProduced ctl d1 tok |>.1 with rcs := raw.end }).flushEncodingChange.textPending = false := by
        rw [f3]; simp only; rw [t3, e2, hnp]
      refine ⟨?_, hp'⟩
      apply TextInv.append_closed (d := d) h (t := tok)
      · rw [f1]; simp only; rw [t1, e1]
      · intro a' ha'
        exact Link.of_not_open (h.closed hnp a' ha')
      · exact hnot.notOpen
      · exact hnot.textLen
      · exact hp'

theorem tagToToken_notOpen {f f' : Flags} {lx : TagLexeme} {tok : Token}
    (h : tagToToken f inp lx = some (f', some tok)) : NotText tok := by
  unfold tagToToken at h
  intro b tt l s hh
  subst hh
  (repeat' split at h) <;> simp_all

theorem nonTagToToken_notOpen {f : Flags} {lx : NonTagLexeme} {tok : Token}
    (h : nonTagToToken f inp lx = some (some tok)) : NotText tok := by
  unfold nonTagToToken at h
  intro b tt l s hh
  subst hh
  simp only at h
  (repeat' split at h) <;> simp_all

theorem produceTag_T (hlog : Logging ctl log) (d : Disp γ) (lx : TagLexeme) (hnp : d.textPending = false)
    (h : TextInv log d) : OkD (fun d' => TextInv log d' ∧ d'.textPending = false) (d.produceTag ctl inp lx) := by
  unfold Disp.produceTag
  split
  · intro a ha; simp at ha
  · rename_i ft hft
    split
    · intro a _
      exact ⟨h.frame rfl rfl rfl (fun hp => by rw [hnp] at hp; simp at hp), hnp⟩
    · rename_i tok htok
      have hno := tagToToken_notOpen (inp := inp) (f := d.flags) (f' := ft.1) (lx := lx) (tok := tok) (by rw [hft, ← htok])
      exact emitToken_T hlog { d with flags := ft.1 } lx.raw tok hno hnp
        (h.frame rfl rfl rfl (fun hp => by rw [hnp] at hp; simp at hp))

theorem textLen_of_slice {rawb : Bytes} {ls e : Nat} {tt : TextType} {l : Bool}
    (h : checkedSlice inp ⟨ls, e⟩ = some rawb) : TextLen (.text rawb tt l (srcOf pc ⟨ls, e⟩)) := by
  obtain ⟨h1, h2, h3⟩ := checkedSlice_some h
  subst h3
  simp only [TextLen, srcOf, slice, List.length_drop, List.length_take] at h1 h2 ⊢
  omega

/-- a text lexeme adjacent to the open node (or opening one) -/
theorem produceText_T (hlog : Logging ctl log) (d : Disp γ) (ls e : Nat) (o : Option NonTagOutline) (tt : TextType)
    (hft : d.flags.text = true) (hadj : d.textPending = true → pc + ls = d.textPendingStart) (h : TextInv log d) :
    OkD (fun d' => TextInv log d' ∧ d'.textPending = true ∧ d'.textPendingStart = pc + e)
      (d.produceText ctl inp ⟨pc, ⟨ls, e⟩, o⟩ tt) := by
  unfold Disp.produceText
  simp only
  split
  · intro a ha; simp at ha
  · rename_i rawb hraw
    cases he : d.emitChunkBefore inp ⟨ls, e⟩ with
    | error err => intro a ha; simp [DRes.ofExcept, DRes.bind] at ha
    | ok d1 =>
      obtain ⟨e1, e2, e3, e4, _⟩ := emitChunkBefore_frame he
      simp only [DRes.ofExcept, DRes.bind]
      obtain ⟨t1, t2, t3, t4, t5⟩ := tokenProduced_log hlog { d1 with lastTextType := tt }
        (.text rawb tt false (srcOf pc ⟨ls, e⟩))
      have tf := tokenProduced_flags (ctl := ctl) { d1 with lastTextType := tt } (.text rawb tt false (srcOf pc ⟨ls, e⟩))
      cases hres : (Disp.tokenProduced ctl { d1 with lastTextType := tt } (.text rawb tt false (srcOf pc ⟨ls, e⟩))).2 with
      | error err => intro a ha; simp at ha
      | ok u =>
        intro a _
        refine ⟨⟨?_, ?_, ?_⟩, rfl, rfl⟩
        · simp only
          rw [t1]
          simp only
          rw [e1]
          refine h.contig.snoc ?_ (textLen_of_slice hraw)
          intro a' ha'
          by_cases hp : d.textPending = true
          · obtain ⟨_, b, tt', s, hlast, hend⟩ := h.open_ hp
            rw [hlast] at ha'
            simp only [Option.some.injEq] at ha'
            subst ha'
            simp only [Link, srcOf]
            rw [hadj hp, hend]
          · exact Link.of_not_open (h.closed (by simpa using hp) a' ha')
        · intro _
          refine ⟨?_, rawb, tt, srcOf pc ⟨ls, e⟩, ?_, rfl⟩
          · simp only
            rw [tf]
            simp only [e4, hft]
          · simp only
            rw [t1]
            simp
        · intro hp; simp at hp

theorem notPending_adj {d : Disp γ} {x : Nat} (h : d.textPending = false) :
    d.textPending = true → x = d.textPendingStart :=
  fun hp => by rw [h] at hp; simp at hp

theorem handleNonTag_T (hlog : Logging ctl log) (ls e : Nat) (o : Option NonTagOutline) (d : Disp γ)
    (h : TV log pc (some ls) d) :
    OkD (TV log pc (some e)) (Disp.handleNonTag ctl inp ⟨pc, ⟨ls, e⟩, o⟩ d) := by
  obtain ⟨hT, hadj⟩ := h
  simp only at hadj
  -- a non-text lexeme: the open node is closed first, nothing re-opens it
  have nontext : (∀ tt, o ≠ some (.text tt)) →
      OkD (TV log pc (some e)) (Disp.handleNonTag ctl inp ⟨pc, ⟨ls, e⟩, o⟩ d) := by
    intro hne
    have hnt : (⟨pc, ⟨ls, e⟩, o⟩ : NonTagLexeme).isText = false := by
      cases o with
      | none => rfl
      | some ot => cases ot <;> first | rfl | exact absurd rfl (hne _)
    unfold Disp.handleNonTag
    rw [hnt]
    simp only [Bool.false_eq_true, if_false]
    refine OkD.bind (flushPendingText_T hlog d hT) ?_
    intro d1 _ ⟨hd1, hp1, _⟩
    unfold Disp.produceNonTag
    simp only
    split
    · intro a ha; simp at ha
    · intro a _
      exact ⟨hd1, notPending_adj hp1⟩
    · rename_i tok htok
      intro a ha
      obtain ⟨h1, h2⟩ := emitToken_T hlog d1 ⟨ls, e⟩ tok (nonTagToToken_notOpen htok) hp1 hd1 a ha
      exact ⟨h1, notPending_adj h2⟩
  cases o with
  | none => exact nontext (by intro tt hh; simp at hh)
  | some ot =>
    cases ot with
    | comment t => exact nontext (by intro tt hh; simp at hh)
    | doctype t => exact nontext (by intro tt hh; simp at hh)
    | eof => exact nontext (by intro tt hh; simp at hh)
    | text tt' =>
      unfold Disp.handleNonTag
      simp only [NonTagLexeme.isText, if_true]
      unfold DRes.bind
      simp only
      unfold Disp.produceNonTag
      simp only
      split
      · rename_i hft
        intro a ha
        obtain ⟨h1, h2, h3⟩ := produceText_T hlog d ls e _ tt' hft hadj hT a ha
        exact ⟨h1, fun _ => by rw [h3]⟩
      · rename_i hft
        intro a _
        have hnp : d.textPending = false := by
          by_cases hp : d.textPending = true
          · exact absurd (hT.open_ hp).1 hft
          · simpa using hp
        exact ⟨hT, notPending_adj hnp⟩

theorem answerAux_TFrame (hlog : Logging ctl log) (d : Disp γ) (info : AuxInfo) :
    log (d.answerAux ctl info).1.ctl = log d.ctl ∧ (d.answerAux ctl info).1.textPending = d.textPending ∧
    (d.answerAux ctl info).1.textPendingStart = d.textPendingStart := by
  unfold Disp.answerAux
  dsimp only
  split <;> simp [hlog.auxInfo]

theorem adjustFlagsForTag_TFrame (hlog : Logging ctl log) (d : Disp γ) (lx : TagLexeme) :
    log (d.adjustFlagsForTag ctl inp lx).1.ctl = log d.ctl ∧ (d.adjustFlagsForTag ctl inp lx).1.textPending = d.textPending ∧
    (d.adjustFlagsForTag ctl inp lx).1.textPendingStart = d.textPendingStart := by
  obtain ⟨a, _, c, e, _⟩ := adjustFlagsForTag_LFrame (inp := inp) hlog d lx
  exact ⟨a, c, e⟩

/-- the flag-adjustment step of `handle_tag` on a closed node -/
theorem adjustStep_T (hlog : Logging ctl log) (lx : TagLexeme) (d1 : Disp γ) (hd1 : TextInv log d1)
    (hp1 : d1.textPending = false) :
    OkD (fun d' => TextInv log d' ∧ d'.textPending = false)
      (if d1.gotFlagsFromHint then (({ d1 with gotFlagsFromHint := false }, .ok ()) : DRes γ Unit)
       else d1.adjustFlagsForTag ctl inp lx) := by
  split
  · intro a _
    exact ⟨hd1.frame rfl rfl rfl (fun _ => rfl), hp1⟩
  · intro a _
    obtain ⟨a1, a2, a3⟩ := adjustFlagsForTag_TFrame (inp := inp) hlog d1 lx
    exact ⟨hd1.frame a1 a2 a3 (fun hp => by rw [hp1] at hp; simp at hp), by rw [a2]; exact hp1⟩

theorem resumeEmission_T (lx : TagLexeme) (d2 : Disp γ) (hd2 : TextInv log d2) (hp2 : d2.textPending = false) :
    TextInv log (d2.resumeEmission ctl lx) ∧ (d2.resumeEmission ctl lx).textPending = false := by
  unfold Disp.resumeEmission
  split
  · exact ⟨hd2.frame rfl rfl rfl (fun _ => rfl), hp2⟩
  · exact ⟨hd2, hp2⟩

/-- `handle_tag`: closes the open node; the node is closed afterwards -/
theorem handleTag_T (hlog : Logging ctl log) (lx : TagLexeme) (d : Disp γ) (h : TextInv log d) :
    OkD (fun d' => TextInv log d' ∧ d'.textPending = false) (Disp.handleTag ctl inp lx d) := by
  unfold Disp.handleTag
  refine OkD.bind (flushPendingText_T hlog d h) ?_
  intro d1 _ ⟨hd1, hp1, _⟩
  refine OkD.bind (adjustStep_T hlog lx d1 hd1 hp1) ?_
  intro d2 _ ⟨hd2, hp2⟩
  have hres := resumeEmission_T (ctl := ctl) lx d2 hd2 hp2
  refine OkD.bind (produceTag_T (inp := inp) hlog _ lx hres.2 hres.1) ?_
  intro d3 _ ⟨hd3, hp3⟩
  intro a _
  exact ⟨hd3.frame rfl rfl rfl (fun _ => rfl), hp3⟩

theorem startTagHint_T (hlog : Logging ctl log) (name : LocalName) (ns : Ns) (d : Disp γ) (h : TextInv log d)
    (hnp : d.textPending = false) :
    TextInv log (Disp.startTagHint ctl name ns d).1 ∧ (Disp.startTagHint ctl name ns d).1.textPending = false := by
  unfold Disp.startTagHint
  dsimp only
  split
  · exact ⟨h.frame (by simp [Disp.applyHintFlags, hlog.startTag]) rfl rfl (fun hp => by rw [hnp] at hp; simp at hp), hnp⟩
  · exact ⟨h.frame (by simp [hlog.startTag]) rfl rfl (fun _ => rfl), hnp⟩
  · exact ⟨h.frame (by simp [hlog.startTag]) rfl rfl (fun _ => rfl), hnp⟩

theorem endTagHint_T (hlog : Logging ctl log) (name : LocalName) (d : Disp γ) (h : TextInv log d) :
    OkD (fun d' => TextInv log d' ∧ d'.textPending = false) (Disp.endTagHint ctl name d) := by
  unfold Disp.endTagHint
  refine OkD.bind (flushPendingText_T hlog d h) ?_
  intro d1 _ ⟨hd1, hp1, _⟩
  intro a _
  dsimp only
  exact ⟨hd1.frame (by simp [Disp.applyHintFlags, hlog.endTag]) rfl rfl (fun hp => by rw [hp1] at hp; simp at hp), hp1⟩

/-! ### The error side: whatever the outcome, the tokens handed over so far are contiguous -/

theorem contig_bind {α β : Type} {Q : Disp γ → Prop} {r : DRes γ α} {f : Disp γ → α → DRes γ β}
    (hok : OkD Q r) (hc : Good (log r.1.ctl)) (hf : ∀ d a, Q d → Good (log (f d a).1.ctl)) :
    Good (log (DRes.bind r f).1.ctl) := by
  unfold DRes.bind
  split
  · exact hc
  · rename_i a ha; exact hf _ _ (hok a ha)

theorem flushPendingText_C (hlog : Logging ctl log) (d : Disp γ) (h : TextInv log d) :
    Good (log (d.flushPendingText ctl).1.ctl) := by
  unfold Disp.flushPendingText
  split
  · rename_i hp
    obtain ⟨_, b, tt, s, hlast, hend⟩ := h.open_ hp
    rw [(tokenProduced_log hlog _ _).1]
    show Good (log d.ctl ++ [_])
    refine h.contig.snoc ?_ (by simp [TextLen])
    intro a' ha'
    rw [hlast] at ha'
    simp only [Option.some.injEq] at ha'
    subst ha'
    simp only [Link]
    exact hend.symm
  · exact h.contig

theorem flushEncodingChange_ctl (d0 : Disp γ) : d0.flushEncodingChange.ctl = d0.ctl := by
  unfold Disp.flushEncodingChange; (repeat' split) <;> simp

theorem emitToken_C (hlog : Logging ctl log) (d : Disp γ) (raw : Range) (tok : Token) (hnot : NotText tok)
    (hnp : d.textPending = false) (h : TextInv log d) : Good (log (d.emitToken ctl inp raw tok).1.ctl) := by
  unfold Disp.emitToken
  cases he : d.emitChunkBefore inp raw with
  | error e => simp only [DRes.ofExcept, DRes.bind]; exact h.contig
  | ok d1 =>
    obtain ⟨e1, _⟩ := emitChunkBefore_frame he
    simp only [DRes.ofExcept, DRes.bind]
    have hc : Good (log (Disp.tokenProduced ctl d1 tok).1.ctl) := by
      rw [(tokenProduced_log hlog d1 tok).1, e1]
      exact h.contig.snoc (fun a' ha' => Link.of_not_open (h.closed hnp a' ha')) hnot.textLen
    cases hres : (Disp.tokenProduced ctl d1 tok).2 with
    | error e => exact hc
    | ok u =>
      simp only
      rw [flushEncodingChange_ctl]
      exact hc

theorem produceTag_C (hlog : Logging ctl log) (d : Disp γ) (lx : TagLexeme) (hnp : d.textPending = false)
    (h : TextInv log d) : Good (log (d.produceTag ctl inp lx).1.ctl) := by
  unfold Disp.produceTag
  split
  · exact h.contig
  · rename_i ft hft
    split
    · exact h.contig
    · rename_i tok htok
      exact emitToken_C hlog { d with flags := ft.1 } lx.raw _
        (tagToToken_notOpen (inp := inp) (f := d.flags) (f' := ft.1) (lx := lx) (tok := tok) (by rw [hft, ← htok])) hnp
        (h.frame rfl rfl rfl (fun hp => by rw [hnp] at hp; simp at hp))

theorem produceText_C (hlog : Logging ctl log) (d : Disp γ) (ls e : Nat) (o : Option NonTagOutline) (tt : TextType)
    (hadj : d.textPending = true → pc + ls = d.textPendingStart) (h : TextInv log d) :
    Good (log (d.produceText ctl inp ⟨pc, ⟨ls, e⟩, o⟩ tt).1.ctl) := by
  unfold Disp.produceText
  simp only
  split
  · exact h.contig
  · rename_i rawb hraw
    cases he : d.emitChunkBefore inp ⟨ls, e⟩ with
    | error err => simp only [DRes.ofExcept, DRes.bind]; exact h.contig
    | ok d1 =>
      obtain ⟨e1, _⟩ := emitChunkBefore_frame he
      simp only [DRes.ofExcept, DRes.bind]
      have hc : Good (log (Disp.tokenProduced ctl { d1 with lastTextType := tt }
          (.text rawb tt false (srcOf pc ⟨ls, e⟩))).1.ctl) := by
        rw [(tokenProduced_log hlog _ _).1]
        simp only
        rw [e1]
        refine h.contig.snoc ?_ (textLen_of_slice hraw)
        intro a' ha'
        by_cases hp : d.textPending = true
        · obtain ⟨_, b, tt', s, hlast, hend⟩ := h.open_ hp
          rw [hlast] at ha'
          simp only [Option.some.injEq] at ha'
          subst ha'
          simp only [Link, srcOf]
          rw [hadj hp, hend]
        · exact Link.of_not_open (h.closed (by simpa using hp) a' ha')
      cases hres : (Disp.tokenProduced ctl { d1 with lastTextType := tt } (.text rawb tt false (srcOf pc ⟨ls, e⟩))).2 with
      | error err => exact hc
      | ok u => exact hc

theorem handleNonTag_C (hlog : Logging ctl log) (ls e : Nat) (o : Option NonTagOutline) (d : Disp γ)
    (h : TV log pc (some ls) d) : Good (log (Disp.handleNonTag ctl inp ⟨pc, ⟨ls, e⟩, o⟩ d).1.ctl) := by
  obtain ⟨hT, hadj⟩ := h
  simp only at hadj
  have nontext : (∀ tt, o ≠ some (.text tt)) →
      Good (log (Disp.handleNonTag ctl inp ⟨pc, ⟨ls, e⟩, o⟩ d).1.ctl) := by
    intro hne
    have hnt : (⟨pc, ⟨ls, e⟩, o⟩ : NonTagLexeme).isText = false := by
      cases o with
      | none => rfl
      | some ot => cases ot <;> first | rfl | exact absurd rfl (hne _)
    unfold Disp.handleNonTag
    rw [hnt]
    simp only [Bool.false_eq_true, if_false]
    refine contig_bind (flushPendingText_T hlog d hT) (flushPendingText_C hlog d hT) ?_
    intro d1 _ ⟨hd1, hp1, _⟩
    unfold Disp.produceNonTag
    simp only
    split
    · exact hd1.contig
    · exact hd1.contig
    · rename_i tok htok
      exact emitToken_C hlog d1 ⟨ls, e⟩ _ (nonTagToToken_notOpen htok) hp1 hd1
  cases o with
  | none => exact nontext (by intro tt hh; simp at hh)
  | some ot =>
    cases ot with
    | comment t => exact nontext (by intro tt hh; simp at hh)
    | doctype t => exact nontext (by intro tt hh; simp at hh)
    | eof => exact nontext (by intro tt hh; simp at hh)
    | text tt' =>
      unfold Disp.handleNonTag
      simp only [NonTagLexeme.isText, if_true]
      unfold DRes.bind
      simp only
      unfold Disp.produceNonTag
      simp only
      split
      · exact produceText_C hlog d ls e _ tt' hadj hT
      · exact hT.contig

theorem handleTag_C (hlog : Logging ctl log) (lx : TagLexeme) (d : Disp γ) (h : TextInv log d) :
    Good (log (Disp.handleTag ctl inp lx d).1.ctl) := by
  unfold Disp.handleTag
  refine contig_bind (flushPendingText_T hlog d h) (flushPendingText_C hlog d h) ?_
  intro d1 _ ⟨hd1, hp1, _⟩
  refine contig_bind (adjustStep_T hlog lx d1 hd1 hp1) ?_ ?_
  · split
    · exact hd1.contig
    · rw [(adjustFlagsForTag_TFrame (inp := inp) hlog d1 lx).1]; exact hd1.contig
  · intro d2 _ ⟨hd2, hp2⟩
    have hres := resumeEmission_T (ctl := ctl) lx d2 hd2 hp2
    refine contig_bind (produceTag_T (inp := inp) hlog _ lx hres.2 hres.1) (produceTag_C hlog _ lx hres.2 hres.1) ?_
    intro d3 _ ⟨hd3, _⟩
    exact hd3.contig

theorem startTagHint_C (hlog : Logging ctl log) (name : LocalName) (ns : Ns) (d : Disp γ) (h : TextInv log d) :
    Good (log (Disp.startTagHint ctl name ns d).1.ctl) := by
  unfold Disp.startTagHint
  dsimp only
  split <;> simp only [Disp.applyHintFlags, hlog.startTag] <;> exact h.contig

theorem endTagHint_C (hlog : Logging ctl log) (name : LocalName) (d : Disp γ) (h : TextInv log d) :
    Good (log (Disp.endTagHint ctl name d).1.ctl) := by
  unfold Disp.endTagHint
  refine contig_bind (flushPendingText_T hlog d h) (flushPendingText_C hlog d h) ?_
  intro d1 _ ⟨hd1, _, _⟩
  simp only [Disp.applyHintFlags, hlog.endTag]
  exact hd1.contig

/-- **The dispatcher's operations keep the joint invariant.** -/
theorem dispOps_TV (hlog : Logging ctl log) :
    OpsView (dispOps ctl) inp pc (TV (γ := γ) log pc) (fun d => Good (log d.ctl)) where
  handleNonTag := fun ls e o k hk hok => handleNonTag_T hlog ls e o k hk () hok
  handleTag := by
    intro ls e t k hk
    have := handleTag_T (inp := inp) hlog ⟨pc, ⟨ls, e⟩, t⟩ k hk.1
    exact ⟨fun hok => ⟨(this _ hok).1, notPending_adj (this _ hok).2⟩,
           fun hok => ⟨(this _ hok).1, (this _ hok).2⟩⟩
  startTagHint := by
    intro n ns k hk
    obtain ⟨a, b⟩ := startTagHint_T hlog n ns k hk.1 hk.2
    exact ⟨fun _ => ⟨a, b⟩, fun _ ls => ⟨a, notPending_adj b⟩⟩
  endTagHint := by
    intro n k hk
    have := endTagHint_T hlog n k hk.1
    exact ⟨fun hok => ⟨(this _ hok).1, (this _ hok).2⟩,
           fun hok ls => ⟨(this _ hok).1, notPending_adj (this _ hok).2⟩⟩
  toLex := fun k hk ls => ⟨hk.1, notPending_adj hk.2⟩
  weaken := fun _ _ hk => hk.1.contig
  handleNonTagE := fun ls e o k hk _ _ => handleNonTag_C hlog ls e o k hk
  handleTagE := fun ls e t k hk _ _ => handleTag_C (inp := inp) hlog ⟨pc, ⟨ls, e⟩, t⟩ k hk.1
  startTagHintE := fun n ns k hk _ _ => startTagHint_C hlog n ns k hk.1
  endTagHintE := fun n k hk _ _ => endTagHint_C hlog n k hk.1

end
end LolHtml.Model
