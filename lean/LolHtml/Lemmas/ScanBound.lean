import LolHtml.Lemmas.ScanBoundDefs
/-!
C09, absolute bound of the tag scanner: the invariant "`tag_start = some p` only while the table
state is in `TagHead`, and the bytes from `p` up to the cursor are `<`[`/`]name-prefix", preserved by
every state-function call of a scanner machine on every table satisfying `HeadOk`.
-/
set_option linter.unusedSimpArgs false
set_option linter.unusedVariables false

namespace LolHtml.Model

variable {κ : Type}

/-! ### small facts -/

theorem forall_uint8 (p : UInt8 → Bool) (h : (List.range 256).all (fun n => p (UInt8.ofNat n)) = true) :
    ∀ b, p b = true := by
  intro b
  have hb : b.toNat ∈ List.range 256 := by simpa using UInt8.toNat_lt_size b
  have := List.all_eq_true.mp h _ hb
  simpa using this

theorem alpha_not_nameEnd : ∀ b, (!isAsciiAlpha b || !isNameEnd b) = true :=
  forall_uint8 _ (by decide +kernel)

theorem nameOk_snoc (n : Bytes) (b : UInt8) (h : nameOk n = true) (hb : isNameEnd b = false) :
    nameOk (n ++ [b]) = true := by
  cases n with
  | nil => simp [nameOk] at h
  | cons x xs =>
    simp only [nameOk, List.cons_append, Bool.and_eq_true, List.all_cons, List.all_append, List.all_nil] at h ⊢
    simp [h.1, h.2.1, h.2.2, hb]

theorem nameOk_ne_nil {n : Bytes} (h : nameOk n = true) : n ≠ [] := by
  cases n <;> simp [nameOk] at h ⊢

theorem shape_step (ph ph' : Phase) (w : Bytes) (b : UInt8) (hs : shapeB ph w = true)
    (hstep : stepOk ph b ph' = true) : shapeB ph' (w ++ [b]) = true := by
  have hal := alpha_not_nameEnd b
  cases ph <;> cases ph' <;> simp only [stepOk, Bool.false_eq_true] at hstep
  · -- lt → slash
    simp only [shapeB, beq_iff_eq] at hs hstep ⊢
    subst hs; subst hstep; rfl
  · -- lt → name
    simp only [shapeB, beq_iff_eq] at hs
    subst hs
    have : isNameEnd b = false := by simpa [hstep] using hal
    simp [shapeB, nameOk, hstep, this]
  · -- slash → name
    simp only [shapeB, beq_iff_eq] at hs
    subst hs
    have : isNameEnd b = false := by simpa [hstep] using hal
    simp [shapeB, nameOk, hstep, this]
  · -- name → name
    have hb : isNameEnd b = false := by simpa using hstep
    simp only [shapeB, Bool.and_eq_true, Bool.or_eq_true, beq_iff_eq] at hs ⊢
    obtain ⟨hh, hn⟩ := hs
    have hne : w ≠ [] := by intro h; subst h; simp at hh
    refine ⟨by cases w with | nil => exact absurd rfl hne | cons x xs => simpa using hh, ?_⟩
    rcases hn with hn | ⟨h1, hn⟩
    · left
      have hl : 1 ≤ w.length := by cases w with | nil => exact absurd rfl hne | cons x xs => simp
      rw [List.drop_append_of_le_length hl]
      exact nameOk_snoc _ b hn hb
    · right
      have hl : 1 < w.length := by
        rcases Nat.lt_or_ge 1 w.length with h | h
        · exact h
        · simp [List.getElem?_eq_none h] at h1
      refine ⟨by rw [List.getElem?_append_left hl]; exact h1, ?_⟩
      rw [List.drop_append_of_le_length (by omega)]
      exact nameOk_snoc _ b hn hb

theorem allIdx_get {p : StateId → StateDef → Bool} {l : List StateDef} {k j : Nat} {sd : StateDef}
    (h : allIdx p l k = true) (hj : l[j]? = some sd) : p (k + j) sd = true := by
  induction l generalizing k j with
  | nil => simp at hj
  | cons x xs ih =>
    simp only [allIdx, Bool.and_eq_true] at h
    cases j with
    | zero => simp at hj; subst hj; simpa using h.1
    | succ j =>
      simp only [List.getElem?_cons_succ] at hj
      have := ih h.2 hj
      simpa [Nat.add_assoc, Nat.add_comm 1 j] using this

theorem HeadOk_state {t : Table} {L : Labels} {i : StateId} {sd : StateDef} (h : HeadOk t L = true)
    (hs : t.state? i = some sd) : stateOk t L i sd = true := by
  have := allIdx_get (k := 0) h hs
  simpa using this

theorem patMatches_none_pat {tbl : Table} {c : Common} {p : Pat} (h : patMatches tbl c none p = true) :
    p = .eoc ∨ p = .eof := by
  cases p <;> simp [patMatches] at h ⊢

theorem patMatches_c0 {tbl : Table} {c : Common} {p : Pat} (b : UInt8) (hp : p ≠ .closingQuote) :
    patMatches tbl c (some b) p = patMatches tbl c0 (some b) p := by
  cases p <;> simp [patMatches] at hp ⊢

theorem findArm_c0 {tbl : Table} {c : Common} (b : UInt8) (arms : List Arm)
    (h : ∀ a ∈ arms, a.pat ≠ .closingQuote) : findArm tbl c (some b) arms = findArm tbl c0 (some b) arms := by
  induction arms with
  | nil => rfl
  | cons a rest ih =>
    simp only [findArm]
    rw [patMatches_c0 b (h a (by simp)), ih (fun x hx => h x (by simp [hx]))]

theorem findArm_sel {tbl : Table} {c : Common} {ch : Option UInt8} {arms : List Arm} {a : Arm}
    (h : findArm tbl c ch arms = some a) : a ∈ arms ∧ patMatches tbl c ch a.pat = true := by
  induction arms with
  | nil => simp [findArm] at h
  | cons x rest ih =>
    simp only [findArm] at h
    split at h
    · simp only [Option.some.injEq] at h; subst h; exact ⟨by simp, by assumption⟩
    · obtain ⟨h1, h2⟩ := ih h; exact ⟨by simp [h1], h2⟩

theorem findByte_spec {nd : UInt8} {l : List UInt8} {p : Nat} (h : findByte nd l = some p) :
    l[p]? = some nd := by
  induction l generalizing p with
  | nil => simp [findByte] at h
  | cons b bs ih =>
    simp only [findByte] at h
    split at h
    · rename_i hb; simp only [Option.some.injEq] at h; subst h; simpa using hb
    · cases hr : findByte nd bs with
      | none => simp [hr] at h
      | some q => simp [hr] at h; subst h; simpa using ih hr

/-- running out of look-ahead means the bytes seen so far are a proper prefix of the literal -/
theorem matchSeqFrom_needMore {inp : Bytes} {isLast ic : Bool} {np : Nat} (es : List UInt8) (d : Nat) (hd : 1 ≤ d)
    (h : matchSeqFrom inp isLast ic np d es = .needMore) :
    matchPrefix ic (inp.drop (np + d - 1)) es = true ∧ isLast = false := by
  induction es generalizing d with
  | nil => simp [matchSeqFrom] at h
  | cons e es ih =>
    simp only [matchSeqFrom] at h
    split at h
    · rename_i ch hch
      split at h
      · rename_i hcmp
        have := ih (d + 1) (by omega) h
        have hdrop : inp.drop (np + d - 1) = ch :: inp.drop (np + (d + 1) - 1) := by
          have hlt : np + d - 1 < inp.length := by
            rcases Nat.lt_or_ge (np + d - 1) inp.length with h' | h'
            · exact h'
            · simp [List.getElem?_eq_none h'] at hch
          rw [List.drop_eq_getElem_cons hlt]
          have : inp[np + d - 1] = ch := by
            have := List.getElem?_eq_getElem hlt
            rw [this] at hch; simpa using hch
          rw [this]; congr 2; omega
        rw [hdrop]
        have h2 : np + (d + 1) - 1 = np + d := by omega
        rw [h2] at this ⊢
        simp [matchPrefix, hcmp, this.1, this.2]
      · simp at h
    · rename_i hch
      split at h
      · simp at h
      · rename_i hl
        have : inp.drop (np + d - 1) = [] := by
          apply List.drop_eq_nil_of_le
          rcases Nat.lt_or_ge (np + d - 1) inp.length with h' | h'
          · simp [List.getElem?_eq_getElem h'] at hch
          · exact h'
        rw [this]
        simp [matchPrefix] at hl ⊢
        exact hl

theorem matchPrefix_length {ic : Bool} {v : Bytes} {lit : List UInt8} (h : matchPrefix ic v lit = true) :
    v.length < lit.length := by
  induction v generalizing lit with
  | nil => cases lit <;> simp [matchPrefix] at h ⊢
  | cons c v ih =>
    cases lit with
    | nil => simp [matchPrefix] at h
    | cons e lit =>
      simp only [matchPrefix, Bool.and_eq_true] at h
      have := ih h.2
      simp; omega

/-! ### signals of the scanner's actions: never `endOfInput` -/

def Signal.isEnd : Option Signal → Bool
  | some (.endOfInput _) => true
  | _ => false

section
variable {env : Env κ} {inp : Bytes}

theorem scanEmitHint_sig (c : Common) (s : ScanRegs) (x : Ctx κ) (t : Nat) (ie : Bool) :
    Signal.isEnd (scanEmitHint env inp c s x t ie).2 = false := by
  unfold scanEmitHint
  split
  · rfl
  · dsimp only
    split <;> rfl

theorem scanAct_sig (a : ActName) (c : Common) (s : ScanRegs) (x : Ctx κ) :
    Signal.isEnd (scanAct env a inp c s x).2 = false := by
  cases a <;> simp only [scanAct]
  case finishTagName =>
    unfold scanFinishTagName
    split
    · rfl
    · dsimp only
      split
      · rfl
      · split
        · rfl
        · exact scanEmitHint_sig _ _ _ _ _
  all_goals (first | rfl | (split <;> rfl))

theorem act_sig (a : ActName) (m : M κ) (h : m.isScanner = true) : Signal.isEnd (act env a inp m).2 = false := by
  obtain ⟨c, r, x⟩ := m
  cases r with
  | lexer l => simp [M.isScanner] at h
  | scanner s => exact scanAct_sig a c s x

theorem runCalls_sig (cs : List Call) (m : M κ) (h : m.isScanner = true) :
    Signal.isEnd (runCalls env inp cs m).2 = false := by
  induction cs generalizing m with
  | nil => rfl
  | cons cl cs ih =>
    have h1 := act_sig (env := env) (inp := inp) cl.act m h
    have hf := (act_frame (env := env) (inp := inp) cl.act m h).1
    simp only [runCalls]
    split
    · split
      · rename_i s hs _
        rw [hs] at h1; exact h1
      · exact ih _ hf.scan
    · exact ih _ hf.scan

end

/-! ### interpreter layers on a scanner machine -/

section
variable {env : Env κ} {inp : Bytes}

theorem cond_scanner (cnd : Cond) (m : M κ) (h : m.isScanner = true) : ∃ b, cond cnd m = some b := by
  obtain ⟨c, r, x⟩ := m
  cases r with
  | lexer l => simp [M.isScanner] at h
  | scanner s => cases cnd <;> simp [cond]

theorem runBody_seq (b : Body) (m : M κ) (h : m.isScanner = true) :
    ∃ q ∈ b.seqs, runBody env inp b m = runSeq env inp q m := by
  cases b with
  | seq s => exact ⟨s, by simp [Body.seqs], rfl⟩
  | ite cnd t e =>
    obtain ⟨bv, hb⟩ := cond_scanner cnd m h
    cases bv with
    | true => exact ⟨t, by simp [Body.seqs], by simp [runBody, hb]⟩
    | false => exact ⟨e, by simp [Body.seqs], by simp [runBody, hb]⟩

/-- what one action list + transition does to a scanner machine -/
theorem runSeq_spec (q : ActSeq) (m : M κ) (h : m.isScanner = true) :
    (runSeq env inp q m).1.isScanner = true ∧ (runSeq env inp q m).1.cs = m.cs ∧
    (runSeq env inp q m).1.c.isLast = m.c.isLast ∧
    Signal.isEnd (runSeq env inp q m).2.1 = false ∧
    ((runSeq env inp q m).2.1 = none →
      (runSeq env inp q m).1.ts = (tsCalls q.calls).apply m.c.pos m.ts ∧
      ((runSeq env inp q m).2.2 = .fell → q.trans = none) ∧
      (q.trans = none → (runSeq env inp q m).2.2 = .fell ∧ (runSeq env inp q m).1.c.state = m.c.state ∧ (runSeq env inp q m).1.c.nextPos = m.c.nextPos) ∧
      (∀ j, q.trans = some (.goto j) → (runSeq env inp q m).1.c.state = j ∧ (runSeq env inp q m).1.c.nextPos = m.c.nextPos)) := by
  obtain ⟨hf, ht⟩ := runCalls_frame (env := env) (inp := inp) q.calls m h
  have hs := runCalls_sig (env := env) (inp := inp) q.calls m h
  unfold runSeq
  dsimp only
  split
  · rename_i sig hsig
    rw [hsig] at hs
    exact ⟨hf.scan, hf.cs, hf.isLast, hs, fun hn => by simp at hn⟩
  · rename_i hnone
    split
    · rename_i htr
      refine ⟨hf.scan, hf.cs, hf.isLast, rfl, fun _ => ⟨ht hnone, fun _ => htr, fun _ => ⟨rfl, hf.state, hf.nextPos⟩, fun j hj => by simp [htr] at hj⟩⟩
    · rename_i tr htr
      cases tr with
      | goto j =>
        simp only [applyTrans]
        refine ⟨hf.scan, hf.cs, hf.isLast, rfl, fun _ => ⟨ht hnone, fun hc => by simp at hc, fun hc => by simp [htr] at hc, fun j' hj => ?_⟩⟩
        simp only [htr, Option.some.injEq, Trans.goto.injEq] at hj
        subst hj
        exact ⟨rfl, hf.nextPos⟩
      | gotoDyn =>
        simp only [applyTrans]
        exact ⟨hf.scan, hf.cs, hf.isLast, rfl, fun _ => ⟨ht hnone, fun hc => by simp at hc, fun hc => by simp [htr] at hc, fun j' hj => by simp [htr] at hj⟩⟩
      | reconsume j =>
        simp only [applyTrans]
        split
        · exact ⟨hf.scan, hf.cs, hf.isLast, rfl, fun hc => by simp at hc⟩
        · exact ⟨hf.scan, hf.cs, hf.isLast, rfl, fun _ => ⟨ht hnone, fun hc => by simp at hc, fun hc => by simp [htr] at hc, fun j' hj => by simp [htr] at hj⟩⟩

end

/-! ### the invariant -/

structure HInv (t : Table) (L : Labels) (inp : Bytes) (m : M κ) : Prop where
  scan : m.isScanner = true
  stale : m.cs ≠ none → ∃ sd, t.state? m.c.state = some sd ∧ hasSeq sd.arms = true
  head : ∀ p, m.ts = some p → ∃ ph w, L.at m.c.state = some ph ∧ shapeB ph w = true ∧
    p + w.length = m.c.nextPos ∧ w <+: inp.drop p

theorem HInv.of_none {t : Table} {L : Labels} {inp : Bytes} {m : M κ} (h1 : m.isScanner = true)
    (h2 : m.cs = none) (h3 : m.ts = none) : HInv t L inp m :=
  ⟨h1, fun h => absurd h2 h, fun p hp => by simp [h3] at hp⟩

/-- what a state-function call must establish -/
def ScanStepPost (t : Table) (L : Labels) (inp : Bytes) (last : Bool) (r : M κ × Option Signal) : Prop :=
  match r.2 with
  | none => HInv t L inp r.1 ∧ r.1.c.isLast = last
  | some (.endOfInput n) => HeldOk t inp n ∧ (last = false → ∀ data, HInv t L (inp.drop n ++ data) r.1) ∧
      (r.1.ts = none → r.1.cs = none → inp.length ≤ n) ∧ r.1.isScanner = true
  | _ => True

theorem ScanStepPost.of_sig {t : Table} {L : Labels} {inp : Bytes} {last : Bool} {r : M κ × Option Signal}
    (h1 : r.2 ≠ none) (h2 : Signal.isEnd r.2 = false) : ScanStepPost t L inp last r := by
  unfold ScanStepPost
  split
  · rename_i h; exact absurd h h1
  · rename_i h; simp [h, Signal.isEnd] at h2
  · trivial

/-- the head invariant while the byte just consumed has not been accounted for yet -/
def HeadMid (L : Labels) (inp : Bytes) (m : M κ) : Prop :=
  ∀ p, m.ts = some p → ∃ ph w, L.at m.c.state = some ph ∧ shapeB ph w = true ∧
    p + w.length + 1 = m.c.nextPos ∧ w <+: inp.drop p

theorem isTagHeadPrefix_of_shape {ph : Phase} {w : Bytes} (h : shapeB ph w = true) : isTagHeadPrefix w = true := by
  cases ph <;> simp [isTagHeadPrefix, h]

theorem drop_of_prefix {w inp : Bytes} {p : Nat} (h : w <+: inp.drop p) :
    inp.drop p = w ++ inp.drop (p + w.length) := by
  obtain ⟨rest, hr⟩ := h
  have : rest = inp.drop (p + w.length) := by
    have := congrArg (List.drop w.length) hr
    simp only [List.drop_left, List.drop_drop] at this
    rw [this]
  rw [← this, hr]

theorem prefix_app {w a : Bytes} (b : Bytes) (h : w <+: a) : w <+: a ++ b := by
  obtain ⟨rest, hr⟩ := h
  exact ⟨rest ++ b, by rw [← hr]; simp⟩

/-- `adjust_for_next_input` on the scanner's registers -/
def ScanRegs.adjust (s : ScanRegs) : ScanRegs :=
  match s.tagStart with
  | some ts => { s with tagNameStart := alignNat s.tagNameStart ts, tagStart := some 0 }
  | none => s

theorem breakOnEndOfInput_scanner {inp : Bytes} (c : Common) (s : ScanRegs) (x : Ctx κ) (n : Nat)
    (hcons : consumedByteCount inp (⟨c, .scanner s, x⟩ : M κ) = n) (h1 : 1 ≤ c.nextPos) (h2 : n ≤ c.nextPos - 1) :
    breakOnEndOfInput inp (⟨c, .scanner s, x⟩ : M κ) =
      (⟨{ c with nextPos := c.nextPos - 1 - n }, .scanner (if c.isLast then s else s.adjust), x⟩,
       some (.endOfInput n)) := by
  unfold breakOnEndOfInput
  rw [hcons]
  have hnot : ¬ (c.nextPos = 0 ∨ c.nextPos - 1 < n) := by omega
  cases hl : c.isLast with
  | true => simp [hnot, hl]
  | false =>
    cases hts : s.tagStart with
    | none => simp [adjustForNextInput, hts, ScanRegs.adjust, hnot, hl]
    | some ts => simp [adjustForNextInput, hts, ScanRegs.adjust, hnot, hl]

/-- **break.** Either the end of the chunk was reached with no sequence matching in progress
(`.inl`), or a look-ahead ran out of input (`.inr`). -/
theorem break_spec {t : Table} {L : Labels} {inp : Bytes} (c : Common) (s : ScanRegs) (x : Ctx κ)
    (hpos : 1 ≤ c.nextPos)
    (hmid : HeadMid L inp (⟨c, .scanner s, x⟩ : M κ))
    (hcs : (s.chSeqStart = none ∧ inp.length ≤ c.pos) ∨
           (s.chSeqStart = some c.pos ∧ IsSeqPrefix t (inp.drop c.pos) ∧
             ∃ sd, t.state? c.state = some sd ∧ hasSeq sd.arms = true)) :
    ScanStepPost t L inp c.isLast (breakOnEndOfInput inp (⟨c, .scanner s, x⟩ : M κ)) := by
  have hp1 : c.pos + 1 = c.nextPos := by simp [Common.pos]; omega
  cases hts : s.tagStart with
  | none =>
    have hadj : (if c.isLast then s else s.adjust) = s := by
      split
      · rfl
      · simp [ScanRegs.adjust, hts]
    rcases hcs with ⟨hc, hlen⟩ | ⟨hc, hpre, hsd⟩
    · -- nothing held
      have hcons : consumedByteCount inp (⟨c, .scanner s, x⟩ : M κ) = inp.length := by
        simp [consumedByteCount, hts, hc]
      rw [breakOnEndOfInput_scanner c s x _ hcons hpos (by omega), hadj]
      simp only [ScanStepPost]
      refine ⟨⟨[], [], by simp, Or.inl rfl, Or.inl rfl⟩, fun _ data => ?_, fun _ _ => Nat.le_refl _, rfl⟩
      exact HInv.of_none rfl (by simpa [M.cs] using hc) (by simpa [M.ts] using hts)
    · have hcons : consumedByteCount inp (⟨c, .scanner s, x⟩ : M κ) = c.pos := by
        simp [consumedByteCount, hts, hc]
      rw [breakOnEndOfInput_scanner c s x _ hcons hpos (by omega), hadj]
      simp only [ScanStepPost]
      refine ⟨⟨[], inp.drop c.pos, by simp, Or.inl rfl, Or.inr hpre⟩, fun _ data => ?_, fun _ h2 => ?_, rfl⟩
      · exact ⟨rfl, fun _ => hsd, fun p hp => by simp [M.ts, hts] at hp⟩
      · simp [M.cs, hc] at h2
  | some p =>
    obtain ⟨ph, w, hlab, hshape, hlen, hpre⟩ := hmid p (by simp [M.ts, hts])
    simp only at hlab hlen
    have hpw : p + w.length = c.pos := by omega
    have hcons : consumedByteCount inp (⟨c, .scanner s, x⟩ : M κ) = p := by
      rcases hcs with ⟨hc, _⟩ | ⟨hc, _⟩
      · simp [consumedByteCount, hts, hc]
      · simp [consumedByteCount, hts, hc]; omega
    have hdrop := drop_of_prefix hpre
    rw [hpw] at hdrop
    have hheld : HeldOk t inp p := by
      refine ⟨w, inp.drop c.pos, hdrop, Or.inr (isTagHeadPrefix_of_shape hshape), ?_⟩
      rcases hcs with ⟨_, hl⟩ | ⟨_, hpre', _⟩
      · exact Or.inl (List.drop_eq_nil_of_le hl)
      · exact Or.inr hpre'
    rw [breakOnEndOfInput_scanner c s x _ hcons hpos (by omega)]
    simp only [ScanStepPost]
    refine ⟨hheld, fun hl data => ?_, fun h1 _ => ?_, rfl⟩
    rotate_left
    · exfalso
      simp only [M.ts] at h1
      split at h1
      · rw [hts] at h1; simp at h1
      · simp [ScanRegs.adjust, hts] at h1
    have hadj : (if c.isLast then s else s.adjust)
        = { s with tagNameStart := alignNat s.tagNameStart p, tagStart := some 0 } := by
      simp [hl, ScanRegs.adjust, hts]
    rw [hadj]
    refine ⟨rfl, fun hne => ?_, fun p' hp' => ?_⟩
    · rcases hcs with ⟨hc, _⟩ | ⟨_, _, hsd⟩
      · simp [M.cs, hc] at hne
      · exact hsd
    · simp only [M.ts, Option.some.injEq] at hp'
      subst hp'
      refine ⟨ph, w, hlab, hshape, ?_, ?_⟩
      · simp only; omega
      · simp only [List.drop_zero]
        exact prefix_app data hpre


/-! ### the walk through one state-function call -/

/-- facts about the machine inside `dispatch`, after the byte `ch` was consumed -/
structure Disp0 (t : Table) (L : Labels) (inp : Bytes) (sd : StateDef) (ch : Option UInt8) (m : M κ) : Prop where
  scan : m.isScanner = true
  hsd : t.state? m.c.state = some sd
  ok : stateOk t L m.c.state sd = true
  pos : 1 ≤ m.c.nextPos
  chNone : ch = none → inp.length ≤ m.c.pos
  chSome : ∀ b, ch = some b → inp[m.c.pos]? = some b
  mem : ∀ nd, sd.memchr = some nd → ch = some nd ∨ ch = none
  head : HeadMid L inp m

def Pat.isSpecial : Pat → Bool
  | .chSeq .. => true
  | .eoc => true
  | .eof => true
  | _ => false

/-- arms not selected by a byte never mark; inside `TagHead` they clear, or keep and break -/
theorem special_arm_ts {t : Table} {L : Labels} {i : StateId} {sd : StateDef} {arm : Arm} {q : ActSeq}
    (hok : stateOk t L i sd = true) (ha : arm ∈ sd.arms) (hq : q ∈ arm.body.seqs) (hpat : arm.pat.isSpecial = true) :
    tsCalls q.calls = .clear ∨
    (tsCalls q.calls = .keep ∧ (L.at i ≠ none → (arm.pat = .eoc ∨ arm.pat = .eof) ∧ q.trans = none)) := by
  simp only [stateOk, Bool.and_eq_true] at hok
  obtain ⟨_, hok⟩ := hok
  cases hl : L.at i with
  | none =>
    rw [hl] at hok
    simp only [plainStateOk, List.all_eq_true] at hok
    have := hok arm ha q hq
    simp only [markSeqOk, Bool.or_eq_true, Bool.and_eq_true, bne_iff_ne, ne_eq] at this
    rcases this with h | ⟨h, _⟩
    · cases hk : tsCalls q.calls with
      | keep => exact Or.inr ⟨rfl, fun h' => absurd rfl h'⟩
      | clear => exact Or.inl rfl
      | mark => exact absurd hk h
    · exfalso
      simp only [markPatOk, Bool.or_eq_true, beq_iff_eq, Bool.and_eq_true] at h
      rcases h with h | ⟨_, h⟩ <;> simp [h, Pat.isSpecial] at hpat
  | some ph =>
    rw [hl] at hok
    simp only [headStateOk, Bool.and_eq_true, List.all_eq_true] at hok
    have hsp := hok.1.2 arm ha
    cases hp : arm.pat with
    | chSeq bs ic =>
      simp only [specialArmOk, hp, List.all_eq_true, beq_iff_eq] at hsp
      exact Or.inl (hsp q hq)
    | eoc =>
      simp only [specialArmOk, hp, List.all_eq_true, Bool.or_eq_true, beq_iff_eq, Bool.and_eq_true,
        Option.isNone_iff_eq_none] at hsp
      rcases hsp q hq with h | ⟨h1, h2⟩
      · exact Or.inl h
      · exact Or.inr ⟨h1, fun _ => ⟨Or.inl rfl, h2⟩⟩
    | eof =>
      simp only [specialArmOk, hp, List.all_eq_true, Bool.or_eq_true, beq_iff_eq, Bool.and_eq_true,
        Option.isNone_iff_eq_none] at hsp
      rcases hsp q hq with h | ⟨h1, h2⟩
      · exact Or.inl h
      · exact Or.inr ⟨h1, fun _ => ⟨Or.inr rfl, h2⟩⟩
    | _ => simp [hp, Pat.isSpecial] at hpat

theorem seqLits_mem {t : Table} {i : StateId} {sd : StateDef} {arm : Arm} {bytes : List UInt8} {ic : Bool}
    (hs : t.state? i = some sd) (ha : arm ∈ sd.arms) (hp : arm.pat = .chSeq bytes ic) : (bytes, ic) ∈ seqLits t := by
  simp only [seqLits, List.mem_flatMap, List.mem_filterMap]
  refine ⟨sd, List.mem_of_getElem? hs, arm, ha, by simp [hp]⟩

theorem hasSeq_of_mem {arms : List Arm} {arm : Arm} {bytes : List UInt8} {ic : Bool} (ha : arm ∈ arms)
    (hp : arm.pat = .chSeq bytes ic) : hasSeq arms = true := by
  simp only [hasSeq, List.any_eq_true]
  exact ⟨arm, ha, by simp [hp]⟩

section
variable {env : Env κ} {inp : Bytes} {t : Table} {L : Labels}

/-- first byte + look-ahead of a sequence arm -/
def firstMatch (inp : Bytes) (m : M κ) (ch : Option UInt8) (e0 : UInt8) (es : List UInt8) (ic : Bool) : SeqMatch :=
  match ch with
  | some c0 => if seqCmp c0 e0 ic then matchSeqFrom inp m.c.isLast ic m.c.nextPos 1 es else .mismatch
  | none => if m.c.isLast then .mismatch else .needMore

theorem runSeqArms_cons_other (ch : Option UInt8) (arm : Arm) (rest : List Arm) (m : M κ)
    (h : ∀ b ic, arm.pat ≠ .chSeq b ic) :
    runSeqArms env inp ch (arm :: rest) m = runSeqArms env inp ch rest m := by
  cases hp : arm.pat <;> simp only [runSeqArms, hp]
  exact absurd hp (h _ _)

theorem runSeqArms_cons_nil (ch : Option UInt8) (arm : Arm) (rest : List Arm) (m : M κ) (ic : Bool)
    (h : arm.pat = .chSeq [] ic) :
    runSeqArms env inp ch (arm :: rest) m = runSeqArms env inp ch rest (leaveSeq (enterSeq m)) := by
  simp only [runSeqArms, h]

theorem runSeqArms_cons_cons (ch : Option UInt8) (arm : Arm) (rest : List Arm) (m : M κ) (ic : Bool)
    (e0 : UInt8) (es : List UInt8) (h : arm.pat = .chSeq (e0 :: es) ic) :
    runSeqArms env inp ch (arm :: rest) m =
      (match firstMatch inp (enterSeq m) ch e0 es ic with
       | .needMore => .inl (breakOnEndOfInput inp (enterSeq m))
       | .mismatch => runSeqArms env inp ch rest (leaveSeq (enterSeq m))
       | .matched =>
         let m1 := enterSeq m
         let m2 : M κ := { m1 with c := { m1.c with nextPos := m1.c.nextPos + es.length } }
         let r := runBody env inp arm.body (leaveSeq m2)
         .inl (r.1, r.2.1)) := by
  simp only [runSeqArms, h, firstMatch]
  rfl

theorem scan_runSeqArms_post {sd : StateDef} {ch : Option UInt8} (arms : List Arm) (hsub : ∀ a ∈ arms, a ∈ sd.arms)
    (m : M κ) (h : Disp0 t L inp sd ch m) :
    match runSeqArms env inp ch arms m with
    | .inl r => ScanStepPost t L inp m.c.isLast r
    | .inr m' => m'.c = m.c ∧ m'.isScanner = true ∧ m'.ts = m.ts ∧ m'.cs = (if hasSeq arms then none else m.cs) := by
  induction arms generalizing m with
  | nil => simp [runSeqArms, hasSeq, h.scan]
  | cons arm rest ih =>
    have hrest : ∀ a ∈ rest, a ∈ sd.arms := fun a ha => hsub a (by simp [ha])
    have harm : arm ∈ sd.arms := hsub arm (by simp)
    obtain ⟨c, r, x⟩ := m
    cases r with
    | lexer l => have := h.scan; simp [M.isScanner] at this
    | scanner s =>
    by_cases hseq : ∃ bytes ic, arm.pat = .chSeq bytes ic
    · obtain ⟨bytes, ic, hpat⟩ := hseq
      have hsp : arm.pat.isSpecial = true := by simp [hpat, Pat.isSpecial]
      have hhas : hasSeq (arm :: rest) = true := hasSeq_of_mem (by simp) hpat
      -- the machine after a failed attempt at this arm
      have hD : Disp0 t L inp sd ch (⟨c, .scanner { s with chSeqStart := none }, x⟩ : M κ) :=
        ⟨rfl, h.hsd, h.ok, h.pos, h.chNone, h.chSome, h.mem, h.head⟩
      have hskip : match runSeqArms env inp ch rest (leaveSeq (enterSeq (⟨c, .scanner s, x⟩ : M κ))) with
          | .inl r => ScanStepPost t L inp c.isLast r
          | .inr m' => m'.c = c ∧ m'.isScanner = true ∧ m'.ts = M.ts (⟨c, .scanner s, x⟩ : M κ) ∧
              m'.cs = (if hasSeq (arm :: rest) then none else M.cs (⟨c, .scanner s, x⟩ : M κ)) := by
        have := ih hrest _ hD
        have hm : leaveSeq (enterSeq (⟨c, .scanner s, x⟩ : M κ)) = ⟨c, .scanner { s with chSeqStart := none }, x⟩ := rfl
        rw [hm]
        split at this
        · exact this
        · obtain ⟨a1, a2, a3, a4⟩ := this
          refine ⟨a1, a2, a3, ?_⟩
          rw [a4, hhas]; simp [M.cs]
      cases bytes with
      | nil =>
        rw [runSeqArms_cons_nil ch arm rest _ ic hpat]
        exact hskip
      | cons e0 es =>
        rw [runSeqArms_cons_cons ch arm rest _ ic e0 es hpat]
        cases hfirst : firstMatch inp (enterSeq (⟨c, .scanner s, x⟩ : M κ)) ch e0 es ic with
        | needMore =>
          dsimp only
          simp only [firstMatch, enterSeq] at hfirst
          have hpre : matchPrefix ic (inp.drop c.pos) (e0 :: es) = true ∧ c.isLast = false := by
            split at hfirst
            · rename_i c0
              split at hfirst
              · rename_i hcmp
                have := matchSeqFrom_needMore es 1 (Nat.le_refl _) hfirst
                have hc0 := h.chSome c0 rfl
                simp only at hc0
                have hlt : c.pos < inp.length := by
                  rcases Nat.lt_or_ge c.pos inp.length with h' | h'
                  · exact h'
                  · simp [List.getElem?_eq_none h'] at hc0
                have hdrop : inp.drop c.pos = c0 :: inp.drop (c.nextPos + 1 - 1) := by
                  rw [List.drop_eq_getElem_cons hlt]
                  have : inp[c.pos] = c0 := by
                    rw [List.getElem?_eq_getElem hlt] at hc0; simpa using hc0
                  rw [this]
                  have := h.pos
                  simp only [Common.pos] at *
                  congr 2; omega
                rw [hdrop]
                have h2 : c.nextPos + 1 - 1 = c.nextPos := by omega
                rw [h2] at this ⊢
                simp [matchPrefix, hcmp, this.1, this.2]
              · simp at hfirst
            · have := h.chNone rfl
              simp only at this
              rw [List.drop_eq_nil_of_le this]
              cases hl : c.isLast with
              | true => simp [hl] at hfirst
              | false => simp [matchPrefix]
          simp only [enterSeq]
          exact break_spec c { s with chSeqStart := some c.pos } x h.pos h.head
            (Or.inr ⟨rfl, ⟨(e0 :: es, ic), seqLits_mem h.hsd harm hpat, hpre.1⟩, sd, h.hsd, hasSeq_of_mem harm hpat⟩)
        | mismatch => exact hskip
        | matched =>
          dsimp only
          simp only [enterSeq, leaveSeq]
          -- matched: run the arm's body with the cursor advanced
          obtain ⟨q, hq, hrun⟩ := runBody_seq (env := env) (inp := inp) arm.body
            (⟨{ c with nextPos := c.nextPos + es.length }, .scanner { s with chSeqStart := none }, x⟩ : M κ) rfl
          rw [hrun]
          obtain ⟨s1, s2, s3, s4, s5⟩ := runSeq_spec (env := env) (inp := inp) q
            (⟨{ c with nextPos := c.nextPos + es.length }, .scanner { s with chSeqStart := none }, x⟩ : M κ) rfl
          cases hsig : (runSeq env inp q (⟨{ c with nextPos := c.nextPos + es.length }, .scanner { s with chSeqStart := none }, x⟩ : M κ)).2.1 with
          | some sig =>
            apply ScanStepPost.of_sig
            · simp [hsig]
            · simpa [hsig] using s4
          | none =>
            simp only [ScanStepPost, hsig]
            obtain ⟨hts, _, _, _⟩ := s5 hsig
            refine ⟨?_, s3⟩
            apply HInv.of_none s1 (by rw [s2]; rfl)
            rw [hts]
            rcases special_arm_ts h.ok harm hq hsp with hk | ⟨hk, hlab⟩
            · rw [hk]; rfl
            · rw [hk]
              cases hmts : s.tagStart with
              | none => simp [TSK.apply, M.ts, hmts]
              | some p =>
                exfalso
                obtain ⟨ph, _, hl, _⟩ := h.head p (by simp [M.ts, hmts])
                have := (hlab (by rw [hl]; simp)).1
                rw [hpat] at this
                simp at this
    · have hnp : ∀ b ic, arm.pat ≠ .chSeq b ic := fun b ic hp => hseq ⟨b, ic, hp⟩
      rw [runSeqArms_cons_other ch arm rest _ hnp]
      have := ih hrest _ h
      split at this
      · exact this
      · obtain ⟨a1, a2, a3, a4⟩ := this
        refine ⟨a1, a2, a3, ?_⟩
        rw [a4]
        have : hasSeq (arm :: rest) = hasSeq rest := by
          simp only [hasSeq, List.any_cons]
          cases hp : arm.pat <;> simp
        rw [this]


theorem prefix_snoc {w l : Bytes} {b : UInt8} (h : w <+: l) (hb : l[w.length]? = some b) : (w ++ [b]) <+: l := by
  obtain ⟨rest, hr⟩ := h
  subst hr
  cases rest with
  | nil => simp at hb
  | cons x xs =>
    simp at hb
    subst hb
    exact ⟨xs, by simp⟩

theorem scanner_destruct (m : M κ) (h : m.isScanner = true) : ∃ c s x, m = ⟨c, .scanner s, x⟩ := by
  obtain ⟨c, r, x⟩ := m
  cases r with
  | lexer l => simp [M.isScanner] at h
  | scanner s => exact ⟨c, s, x, rfl⟩

/-- end-of-chunk / end-of-file arm: run the body, then break unless it made a transition -/
theorem special_body_post {sd : StateDef} {m : M κ} {arm : Arm} (h : Disp0 t L inp sd none m) (hcs : m.cs = none)
    (harm : arm ∈ sd.arms) (hpat : arm.pat = .eoc ∨ arm.pat = .eof) :
    ScanStepPost t L inp m.c.isLast
      (match (runBody env inp arm.body m).2.1, (runBody env inp arm.body m).2.2 with
       | some sig, _ => ((runBody env inp arm.body m).1, some sig)
       | none, .transitioned => ((runBody env inp arm.body m).1, none)
       | none, .fell => breakOnEndOfInput inp (runBody env inp arm.body m).1) := by
  have hsp : arm.pat.isSpecial = true := by rcases hpat with h | h <;> simp [h, Pat.isSpecial]
  obtain ⟨q, hq, hrun⟩ := runBody_seq (env := env) (inp := inp) arm.body m h.scan
  rw [hrun]
  obtain ⟨s1, s2, s3, s4, s5⟩ := runSeq_spec (env := env) (inp := inp) q m h.scan
  cases hsig : (runSeq env inp q m).2.1 with
  | some sig =>
    apply ScanStepPost.of_sig
    · simp
    · simpa [hsig] using s4
  | none =>
    obtain ⟨hts, hfell, hstay, _⟩ := s5 hsig
    have hkind := special_arm_ts h.ok harm hq hsp
    cases hend : (runSeq env inp q m).2.2 with
    | transitioned =>
      simp only [ScanStepPost]
      refine ⟨?_, s3⟩
      apply HInv.of_none s1 (by rw [s2, hcs])
      rw [hts]
      rcases hkind with hk | ⟨hk, hlab⟩
      · rw [hk]; rfl
      · rw [hk]
        cases hmts : m.ts with
        | none => rfl
        | some p =>
          exfalso
          obtain ⟨ph, _, hl, _⟩ := h.head p hmts
          have := (hstay (hlab (by rw [hl]; simp)).2).1
          rw [hend] at this
          simp at this
    | fell =>
      have htr := hfell hend
      obtain ⟨_, hst, hnp⟩ := hstay htr
      obtain ⟨c2, s2', x2, hm2⟩ := scanner_destruct _ s1
      rw [hm2] at hst hnp s2 s3 hts
      simp only at hst hnp s3
      show ScanStepPost t L inp m.c.isLast (breakOnEndOfInput inp (runSeq env inp q m).1)
      rw [hm2, ← s3]
      apply break_spec c2 s2' x2 (by rw [hnp]; exact h.pos)
      · intro p hp
        simp only [M.ts] at hp hts
        rw [hts] at hp
        have hk : tsCalls q.calls = .keep := by
          rcases hkind with hk | ⟨hk, _⟩
          · rw [hk] at hp; simp [TSK.apply] at hp
          · exact hk
        rw [hk] at hp
        obtain ⟨ph, w, hl, hs, hlen, hpre⟩ := h.head p hp
        exact ⟨ph, w, by rw [hst]; exact hl, hs, by rw [hnp]; exact hlen, hpre⟩
      · left
        refine ⟨by rw [hcs] at s2; simpa [M.cs] using s2, ?_⟩
        have := h.chNone rfl
        simpa [Common.pos, hnp] using this

/-- an arm selected by the byte `b` -/
theorem normal_body_post (htbl : env.tbl = t) {sd : StateDef} {m : M κ} {arm : Arm} {b : UInt8}
    (h : Disp0 t L inp sd (some b) m) (hcs : m.cs = none)
    (hfind : findArm env.tbl m.c (some b) sd.arms = some arm) :
    ScanStepPost t L inp m.c.isLast ((runBody env inp arm.body m).1, (runBody env inp arm.body m).2.1) := by
  obtain ⟨harm, hmatch⟩ := findArm_sel hfind
  obtain ⟨q, hq, hrun⟩ := runBody_seq (env := env) (inp := inp) arm.body m h.scan
  rw [hrun]
  obtain ⟨s1, s2, s3, s4, s5⟩ := runSeq_spec (env := env) (inp := inp) q m h.scan
  cases hsig : (runSeq env inp q m).2.1 with
  | some sig =>
    apply ScanStepPost.of_sig
    · simp
    · simpa [hsig] using s4
  | none =>
    obtain ⟨hts, hfell, hstay, hgoto⟩ := s5 hsig
    simp only [ScanStepPost]
    refine ⟨⟨s1, fun hne => absurd (by rw [s2, hcs]) hne, ?_⟩, s3⟩
    intro p hp
    rw [hts] at hp
    have hb : inp[m.c.pos]? = some b := h.chSome b rfl
    have hok := h.ok
    simp only [stateOk, Bool.and_eq_true] at hok
    cases hl : L.at m.c.state with
    | some ph =>
      rw [hl] at hok
      simp only [headStateOk, Bool.and_eq_true, List.all_eq_true] at hok
      obtain ⟨⟨hmem, hspecial⟩, hbytes⟩ := hok.2
      have hcq : ∀ a ∈ sd.arms, a.pat ≠ .closingQuote := by
        intro a ha hp'
        have := hspecial a ha
        simp [specialArmOk, hp'] at this
      have hbyte := hbytes b.toNat (by simpa using UInt8.toNat_lt_size b)
      simp only [byteOk, UInt8.ofNat_toNat] at hbyte
      rw [← findArm_c0 (c := m.c) b sd.arms hcq, ← htbl, hfind] at hbyte
      simp only [List.all_eq_true] at hbyte
      have hq' := hbyte q hq
      unfold seqKeepOk at hq'
      split at hq'
      · rename_i hk; rw [hk] at hp; simp [TSK.apply] at hp
      · simp at hq'
      · rename_i hk
        rw [hk] at hp
        obtain ⟨ph', w, hl', hs, hlen, hpre⟩ := h.head p hp
        rw [hl] at hl'
        simp only [Option.some.injEq] at hl'
        subst hl'
        have hsn : (w ++ [b]) <+: inp.drop p := by
          apply prefix_snoc hpre
          rw [List.getElem?_drop]
          have : p + w.length = m.c.pos := by simp only [Common.pos]; omega
          rw [this]; exact hb
        split at hq'
        · rename_i htr
          obtain ⟨_, hst, hnp⟩ := hstay htr
          exact ⟨ph, w ++ [b], by rw [hst]; exact hl, shape_step _ _ _ _ hs hq', by rw [hnp]; simp; omega, hsn⟩
        · rename_i j htr
          obtain ⟨hst, hnp⟩ := hgoto j htr
          split at hq'
          · rename_i ph' hlj
            exact ⟨ph', w ++ [b], by rw [hst]; exact hlj, shape_step _ _ _ _ hs hq', by rw [hnp]; simp; omega, hsn⟩
          · simp at hq'
        · simp at hq'
    | none =>
      rw [hl] at hok
      have hmts : m.ts = none := by
        cases hm : m.ts with
        | none => rfl
        | some p' =>
          obtain ⟨ph, _, hl', _⟩ := h.head p' hm
          rw [hl] at hl'; simp at hl'
      simp only [plainStateOk, List.all_eq_true] at hok
      have hmk := hok.2 arm harm q hq
      simp only [markSeqOk, Bool.or_eq_true, Bool.and_eq_true, bne_iff_ne, ne_eq] at hmk
      rw [hmts] at hp
      cases hk : tsCalls q.calls with
      | keep => rw [hk] at hp; simp [TSK.apply] at hp
      | clear => rw [hk] at hp; simp [TSK.apply] at hp
      | mark =>
        rw [hk] at hp hmk
        simp only [TSK.apply, Option.some.injEq] at hp
        rcases hmk with hmk | ⟨hpat, htr⟩
        · exact absurd rfl hmk
        · have hb60 : b = 60 := by
            simp only [markPatOk, Bool.or_eq_true, beq_iff_eq, Bool.and_eq_true] at hpat
            rcases hpat with hp1 | ⟨hm1, _⟩
            · rw [hp1] at hmatch
              simpa [patMatches] using hmatch
            · rcases h.mem _ hm1 with h1 | h1
              · simpa using h1
              · simp at h1
          split at htr
          · rename_i j htr'
            obtain ⟨hst, hnp⟩ := hgoto j htr'
            simp only [beq_iff_eq] at htr
            refine ⟨.lt, [60], by rw [hst]; exact htr, rfl, ?_, ?_⟩
            · rw [hnp, ← hp]; simp only [Common.pos, List.length_singleton]; have := h.pos; omega
            · have : ([] ++ [b] : Bytes) <+: inp.drop p := by
                apply prefix_snoc (List.nil_prefix)
                rw [List.getElem?_drop, ← hp]
                simpa using hb
              simpa [hb60] using this
          · simp at htr

theorem scan_dispatch_post (htbl : env.tbl = t) {sd : StateDef} {ch : Option UInt8} (m : M κ)
    (h : Disp0 t L inp sd ch m) (hstale : m.cs ≠ none → hasSeq sd.arms = true) :
    ScanStepPost t L inp m.c.isLast (dispatch env inp ch sd.arms m) := by
  have hsa := scan_runSeqArms_post (env := env) sd.arms (fun a ha => ha) m h
  unfold dispatch
  split at hsa
  · rename_i r heq
    rw [heq]; exact hsa
  · rename_i m' heq
    rw [heq]
    obtain ⟨a1, a2, a3, a4⟩ := hsa
    have hcs : m'.cs = none := by
      rw [a4]
      split
      · rfl
      · rename_i hh
        cases hm : m.cs with
        | none => rfl
        | some q => exact absurd (hstale (by rw [hm]; simp)) hh
    have hD : Disp0 t L inp sd ch m' :=
      ⟨a2, by rw [a1]; exact h.hsd, by rw [a1]; exact h.ok, by rw [a1]; exact h.pos,
       by rw [show m'.c.pos = m.c.pos by rw [a1]]; exact h.chNone,
       by rw [show m'.c.pos = m.c.pos by rw [a1]]; exact h.chSome, h.mem,
       by intro p hp; rw [a3] at hp; rw [a1]; exact h.head p hp⟩
    have hlast : m'.c.isLast = m.c.isLast := by rw [a1]
    rw [← hlast]
    dsimp only
    split
    · apply ScanStepPost.of_sig <;> simp [Signal.isEnd]
    · rename_i arm hfind
      obtain ⟨harm, hmatch⟩ := findArm_sel hfind
      split
      · rename_i hpat
        have hchn : ch = none := by
          cases ch with
          | none => rfl
          | some b => rw [hpat] at hmatch; simp [patMatches] at hmatch
        subst hchn
        exact special_body_post hD hcs harm (Or.inl hpat)
      · rename_i hpat
        have hchn : ch = none := by
          cases ch with
          | none => rfl
          | some b => rw [hpat] at hmatch; simp [patMatches] at hmatch
        subst hchn
        split
        · exact special_body_post hD hcs harm (Or.inr hpat)
        · rename_i hl
          obtain ⟨c2, s2, x2, hm2⟩ := scanner_destruct _ a2
          subst hm2
          apply break_spec c2 s2 x2 hD.pos hD.head
          left
          exact ⟨by simpa [M.cs] using hcs, hD.chNone rfl⟩
      · rename_i hne1 hne2
        cases ch with
        | none =>
          rcases patMatches_none_pat hmatch with h1 | h1
          · exact absurd h1 hne1
          · exact absurd h1 hne2
        | some b => exact normal_body_post htbl hD hcs hfind


/-- **One state-function call** of a scanner machine keeps the invariant; when it breaks, what is
held back is a tag head and/or a proper prefix of a look-ahead sequence, and the machine is ready for
the next chunk. -/
theorem scan_stateFn_post (htbl : env.tbl = t) (hok : HeadOk t L = true) (m : M κ) (h : HInv t L inp m) :
    ScanStepPost t L inp m.c.isLast (stateFn env inp m) := by
  unfold stateFn
  rw [htbl]
  split
  · apply ScanStepPost.of_sig <;> simp [Signal.isEnd]
  · rename_i sd hsd
    have hst := HeadOk_state hok hsd
    have henter : tsCalls sd.enter = .keep := by
      simp only [stateOk, Bool.and_eq_true, beq_iff_eq] at hst; exact hst.1
    dsimp only
    -- the enter-action prelude
    have hpre : ∀ pre : StepRes κ, pre = (if (!sd.enter.isEmpty && !m.c.entered) = true then
        (let m1 : M κ := { m with c := { m.c with nextPos := m.c.nextPos + 1 } }
         let r := runCalls env inp sd.enter m1
         match r.2 with
         | some sig => (r.1, some sig)
         | none =>
           let m2 := r.1
           (({ m2 with c := { m2.c with nextPos := m2.c.nextPos - 1, entered := true } } : M κ), (none : Option Signal)))
        else (m, none)) →
        Signal.isEnd pre.2 = false ∧
        (pre.2 = none → pre.1.isScanner = true ∧ pre.1.c.state = m.c.state ∧ pre.1.c.nextPos = m.c.nextPos ∧
          pre.1.c.isLast = m.c.isLast ∧ pre.1.ts = m.ts ∧ pre.1.cs = m.cs) := by
      intro pre hpre
      subst hpre
      split
      · obtain ⟨hf, ht⟩ := runCalls_frame (env := env) (inp := inp) sd.enter
          ({ m with c := { m.c with nextPos := m.c.nextPos + 1 } } : M κ) h.scan
        have hsg := runCalls_sig (env := env) (inp := inp) sd.enter
          ({ m with c := { m.c with nextPos := m.c.nextPos + 1 } } : M κ) h.scan
        dsimp only
        split
        · rename_i sig hs
          rw [hs] at hsg
          exact ⟨hsg, fun hn => by simp at hn⟩
        · rename_i hn
          refine ⟨rfl, fun _ => ⟨hf.scan, hf.state, ?_, hf.isLast, ?_, hf.cs⟩⟩
          · have := hf.nextPos; simp only at this ⊢; omega
          · have := ht hn
            rw [henter] at this
            exact this
      · exact ⟨rfl, fun _ => ⟨h.scan, rfl, rfl, rfl, rfl, rfl⟩⟩
    generalize hpe : (if (!sd.enter.isEmpty && !m.c.entered) = true then
        (let m1 : M κ := { m with c := { m.c with nextPos := m.c.nextPos + 1 } }
         let r := runCalls env inp sd.enter m1
         match r.2 with
         | some sig => (r.1, some sig)
         | none =>
           let m2 := r.1
           (({ m2 with c := { m2.c with nextPos := m2.c.nextPos - 1, entered := true } } : M κ), (none : Option Signal)))
        else (m, none)) = pre
    obtain ⟨hpsig, hpfacts⟩ := hpre pre hpe.symm
    split
    · rename_i sig hs
      apply ScanStepPost.of_sig
      · simp
      · rw [hs] at hpsig; exact hpsig
    · rename_i hn
      obtain ⟨p1, p2, p3, p4, p5, p6⟩ := hpfacts hn
      obtain ⟨c, s, x, hm⟩ := scanner_destruct _ p1
      rw [hm] at p2 p3 p4 p5 p6 ⊢
      simp only at p2 p3 p4
      have hsd' : t.state? c.state = some sd := by rw [p2]; exact hsd
      have hstale : ∀ np, M.cs (⟨{ c with nextPos := np }, .scanner s, x⟩ : M κ) ≠ none → hasSeq sd.arms = true := by
        intro np hne
        have : m.cs ≠ none := by rw [← p6]; exact hne
        obtain ⟨sd', h1, h2⟩ := h.stale this
        rw [hsd] at h1
        simp only [Option.some.injEq] at h1
        subst h1; exact h2
      have hts : ∀ np, M.ts (⟨{ c with nextPos := np }, .scanner s, x⟩ : M κ) = m.ts := fun np => p5
      rw [← p4]
      split
      · -- memchr state: never inside TagHead
        rename_i needle hneedle
        have hnohead : m.ts = none := by
          cases hmts : m.ts with
          | none => rfl
          | some p =>
            obtain ⟨ph, _, hl, _⟩ := h.head p hmts
            simp only [stateOk, Bool.and_eq_true] at hst
            rw [hl] at hst
            simp [headStateOk, hneedle] at hst
        split
        · rename_i p hfind
          apply scan_dispatch_post htbl _ _ (hstale _)
          refine ⟨rfl, hsd', by rw [p2]; exact hst, by simp only; omega, fun hc => by simp at hc, ?_, ?_, ?_⟩
          · intro b hb
            simp only [Option.some.injEq] at hb
            subst hb
            have := findByte_spec hfind
            rw [List.getElem?_drop] at this
            simpa [Common.pos] using this
          · intro nd hnd
            rw [hneedle] at hnd
            simp only [Option.some.injEq] at hnd
            left; rw [hnd]
          · intro p' hp'
            rw [hts, hnohead] at hp'; simp at hp'
        · apply scan_dispatch_post htbl _ _ (hstale _)
          refine ⟨rfl, hsd', by rw [p2]; exact hst, by simp only; omega, ?_, fun b hb => by simp at hb, fun _ _ => Or.inr rfl, ?_⟩
          · intro _
            simp only [Common.pos, List.length_drop]
            omega
          · intro p' hp'
            rw [hts, hnohead] at hp'; simp at hp'
      · rename_i hnomem
        apply scan_dispatch_post htbl _ _ (hstale _)
        refine ⟨rfl, hsd', by rw [p2]; exact hst, by simp only; omega, ?_, ?_, ?_, ?_⟩
        · intro hc
          simp only [Common.pos, Nat.add_sub_cancel]
          rcases Nat.lt_or_ge c.nextPos inp.length with h' | h'
          · rw [List.getElem?_eq_getElem h'] at hc; simp at hc
          · exact h'
        · intro b hb
          simpa [Common.pos] using hb
        · intro nd hnd
          rw [hnomem] at hnd; simp at hnd
        · intro p' hp'
          rw [hts] at hp'
          obtain ⟨ph, w, hl, hs, hlen, hpre⟩ := h.head p' hp'
          exact ⟨ph, w, by rw [p2]; exact hl, hs, by simp only; omega, hpre⟩

/-- the parsing loop of a scanner machine, up to the first signal -/
theorem scan_runLoop_post (htbl : env.tbl = t) (hok : HeadOk t L = true) (n : Nat) (m : M κ) (h : HInv t L inp m) :
    match (runLoop env inp n m).2 with
    | .endOfInput k => HeldOk t inp k ∧
        (m.c.isLast = false → ∀ data, HInv t L (inp.drop k ++ data) (runLoop env inp n m).1) ∧
        ((runLoop env inp n m).1.ts = none → (runLoop env inp n m).1.cs = none → inp.length ≤ k) ∧
        (runLoop env inp n m).1.isScanner = true
    | _ => True := by
  induction n generalizing m with
  | zero => simp [runLoop]
  | succ n ih =>
    have hstep := scan_stateFn_post (env := env) (inp := inp) htbl hok m h
    simp only [runLoop]
    unfold ScanStepPost at hstep
    split at hstep
    · rename_i hn
      rw [hn]
      dsimp only
      have := ih _ hstep.1
      rw [hstep.2] at this
      exact this
    · rename_i k hk
      rw [hk]
      exact hstep
    · rename_i h1 h2
      cases hs : (stateFn env inp m).2 with
      | none => exact absurd hs h1
      | some sig =>
        dsimp only
        cases sig with
        | endOfInput k => exact absurd hs (h2 k)
        | err e => trivial
        | directive d bm => trivial

end

end LolHtml.Model
