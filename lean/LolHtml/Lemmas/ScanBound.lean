import LolHtml.Lemmas.ScanBoundDefs
/-!
C09, absolute bound of the tag scanner: the invariant "`tag_start = some p` only while the table
state is in `TagHead`, and the bytes from `p` up to the cursor are `<`[`/`]name-prefix", preserved by
every state-function call of a scanner machine on every table satisfying `HeadOk`.
-/
namespace LolHtml.Model

variable {κ : Type}

/-! ### small facts -/

theorem forall_uint8 (p : UInt8 → Bool) (h : (List.range 256).all (fun n => p (UInt8.ofNat n)) = true) :
    ∀ b, p b = true := by
  intro b
  have hb : b.toNat ∈ List.range 256 := by simpa using UInt8.toNat_lt_size b
  have := List.all_eq_true.mp h _ hb
  simpa using this

theorem alpha_not_nameEnd : ∀ b, (!isAsciiAlpha b || !isNameEnd b) = true :=
  forall_uint8 _ (by decide +kernel)

theorem nameOk_snoc (n : Bytes) (b : UInt8) (h : nameOk n = true) (hb : isNameEnd b = false) :
    nameOk (n ++ [b]) = true := by
  cases n with
  | nil => simp [nameOk] at h
  | cons x xs =>
    simp only [nameOk, List.cons_append, Bool.and_eq_true, List.all_cons, List.all_append, List.all_nil] at h ⊢
    simp [h.1, h.2.1, h.2.2, hb]

theorem nameOk_ne_nil {n : Bytes} (h : nameOk n = true) : n ≠ [] := by
  cases n <;> simp [nameOk] at h ⊢

theorem shape_step (ph ph' : Phase) (w : Bytes) (b : UInt8) (hs : shapeB ph w = true)
    (hstep : stepOk ph b ph' = true) : shapeB ph' (w ++ [b]) = true := by
  have hal := alpha_not_nameEnd b
  cases ph <;> cases ph' <;> simp only [stepOk, Bool.false_eq_true] at hstep
  · -- lt → slash
    simp only [shapeB, beq_iff_eq] at hs hstep ⊢
    subst hs; subst hstep; rfl
  · -- lt → name
    simp only [shapeB, beq_iff_eq] at hs
    subst hs
    have : isNameEnd b = false := by simpa [hstep] using hal
    simp [shapeB, nameOk, hstep, this]
  · -- slash → name
    simp only [shapeB, beq_iff_eq] at hs
    subst hs
    have : isNameEnd b = false := by simpa [hstep] using hal
    simp [shapeB, nameOk, hstep, this]
  · -- name → name
    have hb : isNameEnd b = false := by simpa using hstep
    simp only [shapeB, Bool.and_eq_true, Bool.or_eq_true, beq_iff_eq] at hs ⊢
    obtain ⟨hh, hn⟩ := hs
    have hne : w ≠ [] := by intro h; subst h; simp at hh
    refine ⟨by cases w with | nil => exact absurd rfl hne | cons x xs => simpa using hh, ?_⟩
    rcases hn with hn | ⟨h1, hn⟩
    · left
      have hl : 1 ≤ w.length := by cases w with | nil => exact absurd rfl hne | cons x xs => simp
      rw [List.drop_append_of_le_length hl]
      exact nameOk_snoc _ b hn hb
    · right
      have hl : 1 < w.length := by
        rcases Nat.lt_or_ge 1 w.length with h | h
        · exact h
        · simp [List.getElem?_eq_none h] at h1
      refine ⟨by rw [List.getElem?_append_left hl]; exact h1, ?_⟩
      rw [List.drop_append_of_le_length (by omega)]
      exact nameOk_snoc _ b hn hb

theorem allIdx_get {p : StateId → StateDef → Bool} {l : List StateDef} {k j : Nat} {sd : StateDef}
    (h : allIdx p l k = true) (hj : l[j]? = some sd) : p (k + j) sd = true := by
  induction l generalizing k j with
  | nil => simp at hj
  | cons x xs ih =>
    simp only [allIdx, Bool.and_eq_true] at h
    cases j with
    | zero => simp at hj; subst hj; simpa using h.1
    | succ j =>
      simp only [List.getElem?_cons_succ] at hj
      have := ih h.2 hj
      simpa [Nat.add_assoc, Nat.add_comm 1 j] using this

theorem HeadOk_state {t : Table} {L : Labels} {i : StateId} {sd : StateDef} (h : HeadOk t L = true)
    (hs : t.state? i = some sd) : stateOk t L i sd = true := by
  have := allIdx_get (k := 0) h hs
  simpa using this

theorem patMatches_none {tbl : Table} {c : Common} {p : Pat} (h : patMatches tbl c none p = true) :
    p = .eoc ∨ p = .eof := by
  cases p <;> simp [patMatches] at h ⊢

theorem patMatches_c0 {tbl : Table} {c : Common} {p : Pat} (b : UInt8) (hp : p ≠ .closingQuote) :
    patMatches tbl c (some b) p = patMatches tbl c0 (some b) p := by
  cases p <;> simp [patMatches] at hp ⊢

theorem findArm_c0 {tbl : Table} {c : Common} (b : UInt8) (arms : List Arm)
    (h : ∀ a ∈ arms, a.pat ≠ .closingQuote) : findArm tbl c (some b) arms = findArm tbl c0 (some b) arms := by
  induction arms with
  | nil => rfl
  | cons a rest ih =>
    simp only [findArm]
    rw [patMatches_c0 b (h a (by simp)), ih (fun x hx => h x (by simp [hx]))]

theorem findArm_some {tbl : Table} {c : Common} {ch : Option UInt8} {arms : List Arm} {a : Arm}
    (h : findArm tbl c ch arms = some a) : a ∈ arms ∧ patMatches tbl c ch a.pat = true := by
  induction arms with
  | nil => simp [findArm] at h
  | cons x rest ih =>
    simp only [findArm] at h
    split at h
    · simp only [Option.some.injEq] at h; subst h; exact ⟨by simp, by assumption⟩
    · obtain ⟨h1, h2⟩ := ih h; exact ⟨by simp [h1], h2⟩

theorem findByte_spec {nd : UInt8} {l : List UInt8} {p : Nat} (h : findByte nd l = some p) :
    l[p]? = some nd := by
  induction l generalizing p with
  | nil => simp [findByte] at h
  | cons b bs ih =>
    simp only [findByte] at h
    split at h
    · rename_i hb; simp only [Option.some.injEq] at h; subst h; simpa using hb
    · cases hr : findByte nd bs with
      | none => simp [hr] at h
      | some q => simp [hr] at h; subst h; simpa using ih hr

/-- running out of look-ahead means the bytes seen so far are a proper prefix of the literal -/
theorem matchSeqFrom_needMore {inp : Bytes} {isLast ic : Bool} {np : Nat} (es : List UInt8) (d : Nat) (hd : 1 ≤ d)
    (h : matchSeqFrom inp isLast ic np d es = .needMore) :
    matchPrefix ic (inp.drop (np + d - 1)) es = true ∧ isLast = false := by
  induction es generalizing d with
  | nil => simp [matchSeqFrom] at h
  | cons e es ih =>
    simp only [matchSeqFrom] at h
    split at h
    · rename_i ch hch
      split at h
      · rename_i hcmp
        have := ih (d + 1) (by omega) h
        have hdrop : inp.drop (np + d - 1) = ch :: inp.drop (np + (d + 1) - 1) := by
          have hlt : np + d - 1 < inp.length := by
            rcases Nat.lt_or_ge (np + d - 1) inp.length with h' | h'
            · exact h'
            · simp [List.getElem?_eq_none h'] at hch
          rw [List.drop_eq_getElem_cons hlt]
          have : inp[np + d - 1] = ch := by
            have := List.getElem?_eq_getElem hlt
            rw [this] at hch; simpa using hch
          rw [this]; congr 2; omega
        rw [hdrop]
        have h2 : np + (d + 1) - 1 = np + d := by omega
        rw [h2] at this ⊢
        simp [matchPrefix, hcmp, this.1, this.2]
      · simp at h
    · rename_i hch
      split at h
      · simp at h
      · rename_i hl
        have : inp.drop (np + d - 1) = [] := by
          apply List.drop_eq_nil_of_le
          rcases Nat.lt_or_ge (np + d - 1) inp.length with h' | h'
          · simp [List.getElem?_eq_getElem h'] at hch
          · exact h'
        rw [this]
        simp [matchPrefix] at hl ⊢
        exact hl

theorem matchPrefix_length {ic : Bool} {v : Bytes} {lit : List UInt8} (h : matchPrefix ic v lit = true) :
    v.length < lit.length := by
  induction v generalizing lit with
  | nil => cases lit <;> simp [matchPrefix] at h ⊢
  | cons c v ih =>
    cases lit with
    | nil => simp [matchPrefix] at h
    | cons e lit =>
      simp only [matchPrefix, Bool.and_eq_true] at h
      have := ih h.2
      simp; omega

/-! ### signals of the scanner's actions: never `endOfInput` -/

def Signal.isEnd : Option Signal → Bool
  | some (.endOfInput _) => true
  | _ => false

section
variable {env : Env κ} {inp : Bytes}

theorem scanEmitHint_sig (c : Common) (s : ScanRegs) (x : Ctx κ) (t : Nat) (ie : Bool) :
    Signal.isEnd (scanEmitHint env inp c s x t ie).2 = false := by
  unfold scanEmitHint
  split
  · rfl
  · dsimp only
    split <;> rfl

theorem scanAct_sig (a : ActName) (c : Common) (s : ScanRegs) (x : Ctx κ) :
    Signal.isEnd (scanAct env a inp c s x).2 = false := by
  cases a <;> simp only [scanAct]
  case finishTagName =>
    unfold scanFinishTagName
    split
    · rfl
    · dsimp only
      split
      · rfl
      · split
        · rfl
        · exact scanEmitHint_sig _ _ _ _ _
  all_goals (first | rfl | (split <;> rfl))

theorem act_sig (a : ActName) (m : M κ) (h : m.isScanner = true) : Signal.isEnd (act env a inp m).2 = false := by
  obtain ⟨c, r, x⟩ := m
  cases r with
  | lexer l => simp [M.isScanner] at h
  | scanner s => exact scanAct_sig a c s x

theorem runCalls_sig (cs : List Call) (m : M κ) (h : m.isScanner = true) :
    Signal.isEnd (runCalls env inp cs m).2 = false := by
  induction cs generalizing m with
  | nil => rfl
  | cons cl cs ih =>
    have h1 := act_sig (env := env) (inp := inp) cl.act m h
    have hf := (act_frame (env := env) (inp := inp) cl.act m h).1
    simp only [runCalls]
    split
    · split
      · rename_i s hs _
        rw [hs] at h1; exact h1
      · exact ih _ hf.scan
    · exact ih _ hf.scan

end

/-! ### interpreter layers on a scanner machine -/

section
variable {env : Env κ} {inp : Bytes}

theorem cond_scanner (cnd : Cond) (m : M κ) (h : m.isScanner = true) : ∃ b, cond cnd m = some b := by
  obtain ⟨c, r, x⟩ := m
  cases r with
  | lexer l => simp [M.isScanner] at h
  | scanner s => cases cnd <;> simp [cond]

theorem runBody_seq (b : Body) (m : M κ) (h : m.isScanner = true) :
    ∃ q ∈ b.seqs, runBody env inp b m = runSeq env inp q m := by
  cases b with
  | seq s => exact ⟨s, by simp [Body.seqs], rfl⟩
  | ite cnd t e =>
    obtain ⟨bv, hb⟩ := cond_scanner cnd m h
    cases bv with
    | true => exact ⟨t, by simp [Body.seqs], by simp [runBody, hb]⟩
    | false => exact ⟨e, by simp [Body.seqs], by simp [runBody, hb]⟩

/-- what one action list + transition does to a scanner machine -/
theorem runSeq_spec (q : ActSeq) (m : M κ) (h : m.isScanner = true) :
    (runSeq env inp q m).1.isScanner = true ∧ (runSeq env inp q m).1.cs = m.cs ∧
    (runSeq env inp q m).1.c.isLast = m.c.isLast ∧
    Signal.isEnd (runSeq env inp q m).2.1 = false ∧
    ((runSeq env inp q m).2.1 = none →
      (runSeq env inp q m).1.ts = (tsCalls q.calls).apply m.c.pos m.ts ∧
      ((runSeq env inp q m).2.2 = .fell → q.trans = none) ∧
      (q.trans = none → (runSeq env inp q m).1.c.state = m.c.state ∧ (runSeq env inp q m).1.c.nextPos = m.c.nextPos) ∧
      (∀ j, q.trans = some (.goto j) → (runSeq env inp q m).1.c.state = j ∧ (runSeq env inp q m).1.c.nextPos = m.c.nextPos)) := by
  obtain ⟨hf, ht⟩ := runCalls_frame (env := env) (inp := inp) q.calls m h
  have hs := runCalls_sig (env := env) (inp := inp) q.calls m h
  unfold runSeq
  dsimp only
  split
  · rename_i sig hsig
    rw [hsig] at hs
    exact ⟨hf.scan, hf.cs, hf.isLast, hs, fun hn => by simp at hn⟩
  · rename_i hnone
    split
    · rename_i htr
      refine ⟨hf.scan, hf.cs, hf.isLast, rfl, fun _ => ⟨ht hnone, fun _ => htr, fun _ => ⟨hf.state, hf.nextPos⟩, fun j hj => by simp [htr] at hj⟩⟩
    · rename_i tr htr
      cases tr with
      | goto j =>
        simp only [applyTrans]
        refine ⟨hf.scan, hf.cs, hf.isLast, rfl, fun _ => ⟨ht hnone, fun hc => by simp at hc, fun hc => by simp [htr] at hc, fun j' hj => ?_⟩⟩
        simp only [htr, Option.some.injEq, Trans.goto.injEq] at hj
        subst hj
        exact ⟨rfl, hf.nextPos⟩
      | gotoDyn =>
        simp only [applyTrans]
        exact ⟨hf.scan, hf.cs, hf.isLast, rfl, fun _ => ⟨ht hnone, fun hc => by simp at hc, fun hc => by simp [htr] at hc, fun j' hj => by simp [htr] at hj⟩⟩
      | reconsume j =>
        simp only [applyTrans]
        split
        · exact ⟨hf.scan, hf.cs, hf.isLast, rfl, fun hc => by simp at hc⟩
        · exact ⟨hf.scan, hf.cs, hf.isLast, rfl, fun _ => ⟨ht hnone, fun hc => by simp at hc, fun hc => by simp [htr] at hc, fun j' hj => by simp [htr] at hj⟩⟩

end

/-! ### the invariant -/

structure HInv (t : Table) (L : Labels) (inp : Bytes) (m : M κ) : Prop where
  scan : m.isScanner = true
  stale : m.cs ≠ none → ∃ sd, t.state? m.c.state = some sd ∧ hasSeq sd.arms = true
  head : ∀ p, m.ts = some p → ∃ ph w, L.at m.c.state = some ph ∧ shapeB ph w = true ∧
    p + w.length = m.c.nextPos ∧ w <+: inp.drop p

theorem HInv.of_none {t : Table} {L : Labels} {inp : Bytes} {m : M κ} (h1 : m.isScanner = true)
    (h2 : m.cs = none) (h3 : m.ts = none) : HInv t L inp m :=
  ⟨h1, fun h => absurd h2 h, fun p hp => by simp [h3] at hp⟩

/-- what a state-function call must establish -/
def StepPost (t : Table) (L : Labels) (inp : Bytes) (last : Bool) (r : M κ × Option Signal) : Prop :=
  match r.2 with
  | none => HInv t L inp r.1
  | some (.endOfInput n) => HeldOk t inp n ∧ (last = false → ∀ data, HInv t L (inp.drop n ++ data) r.1)
  | _ => True

theorem StepPost.of_sig {t : Table} {L : Labels} {inp : Bytes} {last : Bool} {r : M κ × Option Signal}
    (h1 : r.2 ≠ none) (h2 : Signal.isEnd r.2 = false) : StepPost t L inp last r := by
  unfold StepPost
  split
  · rename_i h; exact absurd h h1
  · rename_i h; simp [h, Signal.isEnd] at h2
  · trivial

/-- the head invariant while the byte just consumed has not been accounted for yet -/
def HeadMid (L : Labels) (inp : Bytes) (m : M κ) : Prop :=
  ∀ p, m.ts = some p → ∃ ph w, L.at m.c.state = some ph ∧ shapeB ph w = true ∧
    p + w.length + 1 = m.c.nextPos ∧ w <+: inp.drop p

theorem isTagHeadPrefix_of_shape {ph : Phase} {w : Bytes} (h : shapeB ph w = true) : isTagHeadPrefix w = true := by
  cases ph <;> simp [isTagHeadPrefix, h]

theorem drop_of_prefix {w inp : Bytes} {p : Nat} (h : w <+: inp.drop p) :
    inp.drop p = w ++ inp.drop (p + w.length) := by
  obtain ⟨rest, hr⟩ := h
  have : rest = inp.drop (p + w.length) := by
    have := congrArg (List.drop w.length) hr
    simp only [List.drop_left, List.drop_drop] at this
    rw [this]
  rw [← this, hr]

theorem prefix_app {w a : Bytes} (b : Bytes) (h : w <+: a) : w <+: a ++ b := by
  obtain ⟨rest, hr⟩ := h
  exact ⟨rest ++ b, by rw [← hr]; simp⟩

/-- `adjust_for_next_input` on the scanner's registers -/
def ScanRegs.adjust (s : ScanRegs) : ScanRegs :=
  match s.tagStart with
  | some ts => { s with tagNameStart := alignNat s.tagNameStart ts, tagStart := some 0 }
  | none => s

theorem breakOnEndOfInput_scanner {inp : Bytes} (c : Common) (s : ScanRegs) (x : Ctx κ) (n : Nat)
    (hcons : consumedByteCount inp (⟨c, .scanner s, x⟩ : M κ) = n) (h1 : 1 ≤ c.nextPos) (h2 : n ≤ c.nextPos - 1) :
    breakOnEndOfInput inp (⟨c, .scanner s, x⟩ : M κ) =
      (⟨{ c with nextPos := c.nextPos - 1 - n }, .scanner (if c.isLast then s else s.adjust), x⟩,
       some (.endOfInput n)) := by
  unfold breakOnEndOfInput
  rw [hcons]
  have hnot : ¬ (c.nextPos = 0 ∨ c.nextPos - 1 < n) := by omega
  cases hl : c.isLast with
  | true => simp [hnot, hl]
  | false =>
    cases hts : s.tagStart with
    | none => simp [adjustForNextInput, hts, ScanRegs.adjust, hnot, hl]
    | some ts => simp [adjustForNextInput, hts, ScanRegs.adjust, hnot, hl]

/-- **break.** Either the end of the chunk was reached with no sequence matching in progress
(`.inl`), or a look-ahead ran out of input (`.inr`). -/
theorem break_spec {t : Table} {L : Labels} {inp : Bytes} (c : Common) (s : ScanRegs) (x : Ctx κ)
    (hpos : 1 ≤ c.nextPos)
    (hmid : HeadMid L inp (⟨c, .scanner s, x⟩ : M κ))
    (hcs : (s.chSeqStart = none ∧ inp.length ≤ c.pos) ∨
           (s.chSeqStart = some c.pos ∧ IsSeqPrefix t (inp.drop c.pos) ∧ c.pos ≤ inp.length ∧
             ∃ sd, t.state? c.state = some sd ∧ hasSeq sd.arms = true)) :
    StepPost t L inp c.isLast (breakOnEndOfInput inp (⟨c, .scanner s, x⟩ : M κ)) := by
  have hp1 : c.pos + 1 = c.nextPos := by simp [Common.pos]; omega
  cases hts : s.tagStart with
  | none =>
    have hadj : (if c.isLast then s else s.adjust) = s := by
      split
      · rfl
      · simp [ScanRegs.adjust, hts]
    rcases hcs with ⟨hc, hlen⟩ | ⟨hc, hpre, hle, hsd⟩
    · -- nothing held
      have hcons : consumedByteCount inp (⟨c, .scanner s, x⟩ : M κ) = inp.length := by
        simp [consumedByteCount, hts, hc]
      rw [breakOnEndOfInput_scanner c s x _ hcons hpos (by omega), hadj]
      simp only [StepPost]
      refine ⟨⟨Nat.le_refl _, [], [], by simp, Or.inl rfl, Or.inl rfl⟩, fun _ data => ?_⟩
      exact HInv.of_none rfl (by simpa [M.cs] using hc) (by simpa [M.ts] using hts)
    · have hcons : consumedByteCount inp (⟨c, .scanner s, x⟩ : M κ) = c.pos := by
        simp [consumedByteCount, hts, hc]
      rw [breakOnEndOfInput_scanner c s x _ hcons hpos (by omega), hadj]
      simp only [StepPost]
      refine ⟨⟨hle, [], inp.drop c.pos, by simp, Or.inl rfl, Or.inr hpre⟩, fun _ data => ?_⟩
      exact ⟨rfl, fun _ => hsd, fun p hp => by simp [M.ts, hts] at hp⟩
  | some p =>
    obtain ⟨ph, w, hlab, hshape, hlen, hpre⟩ := hmid p (by simp [M.ts, hts])
    simp only at hlab hlen
    have hpw : p + w.length = c.pos := by omega
    have hcons : consumedByteCount inp (⟨c, .scanner s, x⟩ : M κ) = p := by
      rcases hcs with ⟨hc, _⟩ | ⟨hc, _⟩
      · simp [consumedByteCount, hts, hc]
      · simp [consumedByteCount, hts, hc]; omega
    have hdrop := drop_of_prefix hpre
    rw [hpw] at hdrop
    have hple : p ≤ inp.length := by
      rcases Nat.lt_or_ge inp.length p with h | h
      · have : inp.drop p = [] := List.drop_eq_nil_of_le (by omega)
        rw [this] at hpre
        have : w = [] := List.prefix_nil.mp hpre
        subst this
        cases ph <;> simp [shapeB] at hshape
      · exact h
    have hheld : HeldOk t inp p := by
      refine ⟨hple, w, inp.drop c.pos, hdrop, Or.inr (isTagHeadPrefix_of_shape hshape), ?_⟩
      rcases hcs with ⟨_, hl⟩ | ⟨_, hpre', _⟩
      · exact Or.inl (List.drop_eq_nil_of_le hl)
      · exact Or.inr hpre'
    rw [breakOnEndOfInput_scanner c s x _ hcons hpos (by omega)]
    simp only [StepPost]
    refine ⟨hheld, fun hl data => ?_⟩
    have hadj : (if c.isLast then s else s.adjust)
        = { s with tagNameStart := alignNat s.tagNameStart p, tagStart := some 0 } := by
      simp [hl, ScanRegs.adjust, hts]
    rw [hadj]
    refine ⟨rfl, fun hne => ?_, fun p' hp' => ?_⟩
    · rcases hcs with ⟨hc, _⟩ | ⟨_, _, _, hsd⟩
      · simp [M.cs, hc] at hne
      · exact hsd
    · simp only [M.ts, Option.some.injEq] at hp'
      subst hp'
      refine ⟨ph, w, hlab, hshape, ?_, ?_⟩
      · simp only; omega
      · simp only [List.drop_zero]
        exact prefix_app data hpre

end LolHtml.Model
