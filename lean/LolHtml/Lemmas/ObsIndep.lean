import LolHtml.Model.Stream
/-!
Observer independence, dispatcher level (lexer mode).

`withObs H o` is the controller "`H` together with observer-only handlers capturing `o`": every flag
decision of `H` is joined with `o`; a token is handed to `H` only if `H`'s own flags asked for it,
otherwise it is serialised unchanged. `ObsR` relates the dispatcher of the `withObs H o` run to the
dispatcher of the `H` run; every lexeme keeps it and yields the same result — unless the observing run
panics (excluded globally by `C15_no_panic_full`).

Valid while `H`'s own flags contain a non-one-shot flag (`Flags.sticky`): then both parsers stay in the
lexer. (`H`'s flags empty = the tag scanner runs in the `H` run: the scanner ⇄ lexer half of the
independence claim, not covered here.)
-/
set_option linter.unusedSimpArgs false
set_option linter.unusedVariables false

namespace LolHtml.Model

variable {γ : Type} {lk : Bool}

def Flags.join (a b : Flags) : Flags :=
  ⟨a.text || b.text, a.comments || b.comments, a.nextStartTag || b.nextStartTag, a.nextEndTag || b.nextEndTag,
   a.doctypes || b.doctypes⟩

/-- a capture flag that is not cleared by the token it asked for -/
def Flags.sticky (f : Flags) : Bool := f.text || f.comments || f.doctypes

/-- does `f` ask for the token `t` -/
def Flags.wants (f : Flags) : Token → Bool
  | .startTag .. => f.nextStartTag
  | .endTag .. => f.nextEndTag
  | .comment .. => f.comments
  | .doctype .. => f.doctypes
  | .text .. => f.text

/-- the one-shot flags are cleared by the token they asked for -/
def Flags.after (f : Flags) : Token → Flags
  | .startTag .. => { f with nextStartTag := false }
  | .endTag .. => { f with nextEndTag := false }
  | _ => f

/-- `H` together with observer-only handlers (capture `o`, write nothing, never fail). The second
component of the state is the capture-flag set `H` itself currently asks for. -/
def withObs (H : Controller γ) (o : Flags) : Controller (γ × Flags) where
  initialFlags gf := (H.initialFlags gf.1).join o
  startTag gf n ns :=
    match H.startTag gf.1 n ns with
    | (g', .flags f) => ((g', f), .flags (f.join o))
    | (g', .infoRequest) => ((g', gf.2), .infoRequest)
    | (g', .err e) => ((g', gf.2), .err e)
  auxInfo gf i :=
    match H.auxInfo gf.1 i with
    | (g', .ok f) => ((g', f), .ok (f.join o))
    | (g', .error e) => ((g', gf.2), .error e)
  endTag gf n := (((H.endTag gf.1 n).1, (H.endTag gf.1 n).2), (H.endTag gf.1 n).2.join o)
  token gf t :=
    if gf.2.wants t then (((H.token gf.1 t).1, gf.2.after t), (H.token gf.1 t).2)
    else (gf, { chunks := [t.raw] })
  shouldEmit gf := H.shouldEmit gf.1
  handleEnd gf := (((H.handleEnd gf.1).1, gf.2), (H.handleEnd gf.1).2)
  bailOut gf e := (((H.bailOut gf.1 e).1, gf.2), (H.bailOut gf.1 e).2)

/-- every capture-flag set `H` returns contains a sticky flag: `H` keeps the parser in the lexer -/
structure StickyCtl (H : Controller γ) : Prop where
  init : ∀ g, (H.initialFlags g).sticky = true
  start : ∀ g n ns f, (H.startTag g n ns).2 = .flags f → f.sticky = true
  aux : ∀ g i f, (H.auxInfo g i).2 = .ok f → f.sticky = true
  end_ : ∀ g n, (H.endTag g n).2.sticky = true

theorem Flags.sticky_nonempty {f : Flags} (h : f.sticky = true) : f.isEmpty = false := by
  cases f
  simp only [Flags.sticky, Flags.isEmpty] at *
  rename_i a b c d e
  cases a <;> cases b <;> cases e <;> simp_all

theorem Flags.sticky_join {f o : Flags} (h : f.sticky = true) : (f.join o).sticky = true := by
  cases f; cases o
  simp only [Flags.sticky, Flags.join] at *
  rename_i a b c d e a' b' c' d' e'
  cases a <;> cases b <;> cases e <;> simp_all

/-! ### views -/

/-- the dispatcher registers the relation talks about (everything but the controller state, the sink
log and the encoding registers) -/
structure DView where
  flags : Flags
  emis : Bool
  gf : Bool
  pa : Bool
  tp : Bool
  tps : Nat
  ltt : TextType
  rcs : Nat

def Disp.view {κ : Type} (d : Disp κ) : DView :=
  ⟨d.flags, d.emissionEnabled, d.gotFlagsFromHint, d.pendingAux, d.textPending, d.textPendingStart, d.lastTextType, d.rcs⟩

/-- a panic of the dispatcher (`"debug_assert: Tag should exist at this point"` is the one panic of a
lexer action that does not call the sink) -/
def IsPanic {α : Type} (r : Except Err α) : Prop :=
  ∃ s, r = .error (.panic s) ∧ s ≠ "debug_assert: Tag should exist at this point"

/-- result of handing a token to the controller -/
def tokRes {κ : Type} (ctl : Controller κ) (g : κ) (t : Token) : Except Err Unit :=
  match (ctl.token g t).2.err with
  | some e => .error e
  | none => .ok ()

section specs
variable {κ : Type} (ctl : Controller κ)

theorem tokenProduced_vspec (d : Disp κ) (t : Token) :
    (Disp.tokenProduced ctl d t).2 = tokRes ctl d.ctl t ∧
    (Disp.tokenProduced ctl d t).1.ctl = (ctl.token d.ctl t).1 ∧
    (Disp.tokenProduced ctl d t).1.view = d.view := by
  unfold Disp.tokenProduced tokRes
  dsimp only
  have h1 : ∀ (d : Disp κ) o, (d.noteNextEncoding o).view = d.view ∧ (d.noteNextEncoding o).ctl = d.ctl := by
    intro d o; unfold Disp.noteNextEncoding; (repeat' split) <;> exact ⟨rfl, rfl⟩
  have h2 : ∀ (d : Disp κ) cs, (d.pushChunks cs).view = d.view ∧ (d.pushChunks cs).ctl = d.ctl := by
    intro d cs; unfold Disp.pushChunks; split <;> exact ⟨rfl, rfl⟩
  cases herr : (ctl.token d.ctl t).2.err <;>
    (dsimp only; refine ⟨rfl, ?_, ?_⟩ <;> simp only [(h2 _ _).1, (h2 _ _).2, (h1 _ _).1, (h1 _ _).2] <;> rfl)

theorem flushPendingText_vspec (d : Disp κ) :
    (d.textPending = false ∧ d.flushPendingText ctl = (d, .ok ())) ∨
    (d.textPending = true ∧
      (d.flushPendingText ctl).2 = tokRes ctl d.ctl (.text [] d.lastTextType true ⟨d.textPendingStart, d.textPendingStart⟩) ∧
      (d.flushPendingText ctl).1.ctl = (ctl.token d.ctl (.text [] d.lastTextType true ⟨d.textPendingStart, d.textPendingStart⟩)).1 ∧
      (d.flushPendingText ctl).1.view = { d.view with tp := false }) := by
  unfold Disp.flushPendingText
  cases hd : d.textPending with
  | false => left; simp
  | true =>
    right
    simp only [if_true]
    obtain ⟨a, b, c⟩ := tokenProduced_vspec ctl { d with textPending := false }
      (.text [] d.lastTextType true ⟨d.textPendingStart, d.textPendingStart⟩)
    exact ⟨by first | rfl | trivial, a, b, c⟩

/-- the bounds `emit_chunk_before_lexeme` needs -/
def Disp.before {κ : Type} (d : Disp κ) (inp : Bytes) (raw : Range) : Prop := d.rcs ≤ raw.start ∧ raw.start ≤ inp.length

theorem emitChunkBefore_vspec (d : Disp κ) (inp : Bytes) (raw : Range) :
    (¬ d.before inp raw ∧ IsPanic (d.emitChunkBefore inp raw)) ∨
    (d.before inp raw ∧ ∃ e, d.emitChunkBefore inp raw = .ok e ∧ e.ctl = d.ctl ∧ e.view = { d.view with rcs := raw.start }) := by
  unfold Disp.emitChunkBefore Disp.before checkedSlice
  dsimp only
  by_cases hb : d.rcs ≤ raw.start ∧ raw.start ≤ inp.length
  · right
    rw [if_pos hb]
    refine ⟨hb, _, rfl, ?_, ?_⟩ <;> (try dsimp only) <;> (split <;> rfl)
  · left
    rw [if_neg hb]
    exact ⟨hb, _, rfl, by decide⟩

theorem flushEncodingChange_vspec (d : Disp κ) : d.flushEncodingChange.ctl = d.ctl ∧ d.flushEncodingChange.view = d.view := by
  unfold Disp.flushEncodingChange
  (repeat' split) <;> exact ⟨rfl, rfl⟩

theorem emitToken_vspec (d : Disp κ) (inp : Bytes) (raw : Range) (tok : Token) :
    (¬ d.before inp raw ∧ IsPanic (d.emitToken ctl inp raw tok).2) ∨
    (d.before inp raw ∧ (d.emitToken ctl inp raw tok).2 = tokRes ctl d.ctl tok ∧
      (d.emitToken ctl inp raw tok).1.ctl = (ctl.token d.ctl tok).1 ∧
      (d.emitToken ctl inp raw tok).1.view =
        { d.view with rcs := (match tokRes ctl d.ctl tok with | .ok _ => raw.end | .error _ => raw.start) }) := by
  unfold Disp.emitToken
  rcases emitChunkBefore_vspec d inp raw with ⟨hb, s, hs, hne⟩ | ⟨hb, e, he, hc, hv⟩
  · left
    rw [hs]
    exact ⟨hb, s, rfl, hne⟩
  · right
    rw [he]
    simp only [DRes.ofExcept, DRes.bind]
    obtain ⟨a, b, c⟩ := tokenProduced_vspec ctl e tok
    rw [hc] at a b
    rw [hv] at c
    generalize Disp.tokenProduced ctl e tok = tp at a b c ⊢
    refine ⟨hb, ?_⟩
    cases hr : tp.2 with
    | error err =>
      dsimp only
      rw [← a, hr]
      exact ⟨rfl, b, c⟩
    | ok u =>
      dsimp only
      rw [← a, hr]
      obtain ⟨f1, f2⟩ := flushEncodingChange_vspec ({ tp.1 with rcs := raw.end } : Disp κ)
      rw [f1, f2]
      refine ⟨rfl, b, ?_⟩
      have : Disp.view ({ tp.1 with rcs := raw.end } : Disp κ) = { tp.1.view with rcs := raw.end } := rfl
      rw [this, c]

theorem produceText_vspec (d : Disp κ) (inp : Bytes) (lx : NonTagLexeme) (tt : TextType) :
    (checkedSlice inp lx.raw = none ∧ IsPanic (d.produceText ctl inp lx tt).2) ∨
    (∃ raw, checkedSlice inp lx.raw = some raw ∧
      ((¬ d.before inp lx.raw ∧ IsPanic (d.produceText ctl inp lx tt).2) ∨
       (d.before inp lx.raw ∧
        (d.produceText ctl inp lx tt).2 = tokRes ctl d.ctl (.text raw tt false (srcOf lx.prevConsumed lx.raw)) ∧
        (d.produceText ctl inp lx tt).1.ctl = (ctl.token d.ctl (.text raw tt false (srcOf lx.prevConsumed lx.raw))).1 ∧
        (d.produceText ctl inp lx tt).1.view =
          (match tokRes ctl d.ctl (.text raw tt false (srcOf lx.prevConsumed lx.raw)) with
           | .ok _ => { d.view with ltt := tt, tp := true, tps := lx.prevConsumed + lx.raw.end, rcs := lx.raw.end }
           | .error _ => { d.view with ltt := tt, rcs := lx.raw.start })))) := by
  unfold Disp.produceText
  cases hs : checkedSlice inp lx.raw with
  | none => left; exact ⟨rfl, _, rfl, by decide⟩
  | some raw =>
    right
    refine ⟨raw, rfl, ?_⟩
    dsimp only
    rcases emitChunkBefore_vspec d inp lx.raw with ⟨hb, s, hs', hne⟩ | ⟨hb, e, he, hc, hv⟩
    · left
      rw [hs']
      exact ⟨hb, s, rfl, hne⟩
    · right
      rw [he]
      simp only [DRes.ofExcept, DRes.bind]
      obtain ⟨a, b, c⟩ := tokenProduced_vspec ctl { e with lastTextType := tt } (.text raw tt false (srcOf lx.prevConsumed lx.raw))
      have hv' : Disp.view ({ e with lastTextType := tt } : Disp κ) = { d.view with ltt := tt, rcs := lx.raw.start } := by
        have : Disp.view ({ e with lastTextType := tt } : Disp κ) = { e.view with ltt := tt } := rfl
        rw [this, hv]
      rw [hv'] at c
      generalize Disp.tokenProduced ctl { e with lastTextType := tt } (.text raw tt false (srcOf lx.prevConsumed lx.raw)) = tp at a b c ⊢
      have a' : tp.2 = tokRes ctl d.ctl (.text raw tt false (srcOf lx.prevConsumed lx.raw)) := by
        rw [a]; show tokRes ctl e.ctl _ = _; rw [hc]
      have b' : tp.1.ctl = (ctl.token d.ctl (.text raw tt false (srcOf lx.prevConsumed lx.raw))).1 := by
        rw [b]; show (ctl.token e.ctl _).1 = _; rw [hc]
      refine ⟨hb, ?_⟩
      cases hr : tp.2 with
      | error err =>
        dsimp only
        rw [← a', hr]
        exact ⟨rfl, b', c⟩
      | ok u =>
        dsimp only
        rw [← a', hr]
        refine ⟨rfl, b', ?_⟩
        have : Disp.view ({ tp.1 with textPending := true, textPendingStart := lx.prevConsumed + lx.raw.end, rcs := lx.raw.end } : Disp κ) =
            { tp.1.view with tp := true, tps := lx.prevConsumed + lx.raw.end, rcs := lx.raw.end } := rfl
        rw [this, c]

end specs

/-! ### the relation -/

/-- the relation on (controller state, view) pairs; `fS` = `H`'s own flags as recorded in the
observing controller's state -/
structure ObsV (lk : Bool) (fS : Flags) (c' : γ × Flags) (c : γ) (v' v : DView) : Prop where
  ctl : c' = (c, fS)
  flags : ∃ o', v'.flags = v.flags.join o'
  /-- lock-step variant (`lk`): `H`'s own flags keep the `H` run in the lexer too -/
  sticky : lk = true → v.flags.sticky = true
  /-- the observing run stays in the lexer -/
  sticky' : v'.flags.sticky = true
  emis : v'.emis = v.emis
  gf' : v'.gf = false
  gf : v.gf = false
  pa' : v'.pa = false
  pa : v.pa = false
  tp : v.tp = true → v'.tp = true ∧ v'.tps = v.tps ∧ v'.ltt = v.ltt ∧ v.flags.text = true
  tp' : v.tp = false → v'.tp = true → v.flags.text = false
  rcs : v.rcs ≤ v'.rcs

/-- the dispatcher of the observing run `d'` and of the plain run `d` -/
def ObsR0 (lk : Bool) (fS : Flags) (d' : Disp (γ × Flags)) (d : Disp γ) : Prop := ObsV lk fS d'.ctl d.ctl d'.view d.view

abbrev ObsR (lk : Bool) (d' : Disp (γ × Flags)) (d : Disp γ) : Prop := ObsR0 lk d.flags d' d

/-- related outcomes of a dispatcher step: same result and related dispatchers (also when `H` fails),
unless the observing run panics -/
def DRelO {α : Type} (lk : Bool) (r' : DRes (γ × Flags) α) (r : DRes γ α) : Prop :=
  IsPanic r'.2 ∨ (r'.2 = r.2 ∧ ObsR lk r'.1 r.1)

theorem DRelO.bind {α β : Type} {r' : DRes (γ × Flags) α} {r : DRes γ α}
    {f' : Disp (γ × Flags) → α → DRes (γ × Flags) β} {f : Disp γ → α → DRes γ β}
    (h : DRelO lk r' r) (hf : ∀ d' d a, ObsR lk d' d → DRelO lk (f' d' a) (f d a)) : DRelO lk (r'.bind f') (r.bind f) := by
  unfold DRes.bind
  rcases h with ⟨s, hs, hne⟩ | ⟨h1, h2⟩
  · left; rw [hs]; exact ⟨s, rfl, hne⟩
  · rw [h1]
    cases hr : r.2 with
    | error e => right; exact ⟨rfl, h2⟩
    | ok a => exact hf _ _ a h2

/-- as `DRelO`, with a postcondition on the result value -/
def DRelQ {α : Type} (lk : Bool) (Q : α → Prop) (r' : DRes (γ × Flags) α) (r : DRes γ α) : Prop :=
  IsPanic r'.2 ∨ (r'.2 = r.2 ∧ ObsR lk r'.1 r.1 ∧ ∀ a, r.2 = .ok a → Q a)

theorem DRelQ.toO {α : Type} {Q : α → Prop} {r' : DRes (γ × Flags) α} {r : DRes γ α} (h : DRelQ lk Q r' r) : DRelO lk r' r := by
  rcases h with h | ⟨h1, h2, _⟩
  · exact Or.inl h
  · exact Or.inr ⟨h1, h2⟩

theorem DRelO.bindQ {α β : Type} {Q : β → Prop} {r' : DRes (γ × Flags) α} {r : DRes γ α}
    {f' : Disp (γ × Flags) → α → DRes (γ × Flags) β} {f : Disp γ → α → DRes γ β}
    (h : DRelO lk r' r) (hf : ∀ d' d a, ObsR lk d' d → DRelQ lk Q (f' d' a) (f d a)) : DRelQ lk Q (r'.bind f') (r.bind f) := by
  unfold DRes.bind
  rcases h with ⟨s, hs, hne⟩ | ⟨h1, h2⟩
  · left; rw [hs]; exact ⟨s, rfl, hne⟩
  · rw [h1]
    cases hr : r.2 with
    | error e => right; exact ⟨rfl, h2, fun a ha => by cases ha⟩
    | ok a => exact hf _ _ a h2

section
variable {H : Controller γ} {o : Flags} {inp : Bytes}

theorem withObs_token_wants (g : γ) (f : Flags) (t : Token) (hw : f.wants t = true) :
    (withObs H o).token (g, f) t = (((H.token g t).1, f.after t), (H.token g t).2) := by
  simp only [withObs, hw, if_true]

theorem withObs_token_skip (g : γ) (f : Flags) (t : Token) (hw : f.wants t = false) :
    (withObs H o).token (g, f) t = ((g, f), { chunks := [t.raw] }) := by
  simp only [withObs, hw, Bool.false_eq_true, if_false]

theorem tokRes_wants (g : γ) (f : Flags) (t : Token) (hw : f.wants t = true) :
    tokRes (withObs H o) (g, f) t = tokRes H g t := by
  unfold tokRes; rw [withObs_token_wants g f t hw]

theorem tokRes_skip (g : γ) (f : Flags) (t : Token) (hw : f.wants t = false) :
    tokRes (withObs H o) (g, f) t = .ok () := by
  unfold tokRes; rw [withObs_token_skip g f t hw]


/-! ### pure facts about flags and `to_token` -/

theorem Flags.after_sticky (f : Flags) (t : Token) : (f.after t).sticky = f.sticky := by
  cases t <;> rfl

theorem Flags.after_text' (f : Flags) (t : Token) : (f.after t).text = f.text := by
  cases t <;> rfl

theorem Flags.join_wants {f o' : Flags} {t : Token} (h : f.wants t = true) : (f.join o').wants t = true := by
  cases t <;> simp only [Flags.wants, Flags.join] at * <;> simp [h]

theorem checkedSlice_le {inp : Bytes} {r : Range} {b : Bytes} (h : checkedSlice inp r = some b) : r.start ≤ r.end := by
  unfold checkedSlice at h
  split at h
  · rename_i hh; exact hh.1
  · cases h

/-- does the flag set ask for this tag lexeme -/
def tagWanted (g : Flags) (lx : TagLexeme) : Bool :=
  match lx.outline with
  | .startTag .. => g.nextStartTag
  | .endTag .. => g.nextEndTag

/-- the token of a tag lexeme (independent of the flags) -/
def tagTok (inp : Bytes) (lx : TagLexeme) : Option Token :=
  match lx.outline with
  | .startTag name _ ns as sc =>
    match checkedSlice inp name, attrsOf inp as, checkedSlice inp lx.raw with
    | some n, some attrs, some raw => some (.startTag n attrs ns sc raw (srcOf lx.prevConsumed lx.raw) lx.prevConsumed)
    | _, _, _ => none
  | .endTag name _ =>
    match checkedSlice inp name, checkedSlice inp lx.raw with
    | some n, some raw => some (.endTag n raw (srcOf lx.prevConsumed lx.raw))
    | _, _ => none

theorem tagToToken_eq (g : Flags) (inp : Bytes) (lx : TagLexeme) :
    tagToToken g inp lx =
      if tagWanted g lx then (tagTok inp lx).map (fun t => (g.after t, some t)) else some (g, none) := by
  unfold tagToToken tagWanted tagTok
  cases lx.outline with
  | startTag name hsh ns as sc =>
    dsimp only
    cases g.nextStartTag with
    | false => rfl
    | true =>
      simp only [if_true]
      cases checkedSlice inp name <;> cases attrsOf inp as <;> cases checkedSlice inp lx.raw <;> rfl
  | endTag name hsh =>
    dsimp only
    cases g.nextEndTag with
    | false => rfl
    | true =>
      simp only [if_true]
      cases checkedSlice inp name <;> cases checkedSlice inp lx.raw <;> rfl

theorem tagTok_facts {inp : Bytes} {lx : TagLexeme} {t : Token} (h : tagTok inp lx = some t) (g : Flags) :
    g.wants t = tagWanted g lx ∧ lx.raw.start ≤ lx.raw.end := by
  unfold tagTok at h
  unfold tagWanted
  cases ho : lx.outline with
  | startTag name hsh ns as sc =>
    rw [ho] at h
    dsimp only at h ⊢
    cases h1 : checkedSlice inp name <;> cases h2 : attrsOf inp as <;> cases h3 : checkedSlice inp lx.raw <;>
      simp only [h1, h2, h3] at h
    all_goals first
      | (cases h; done)
      | (simp only [Option.some.injEq] at h; subst h; exact ⟨rfl, checkedSlice_le h3⟩)
  | endTag name hsh =>
    rw [ho] at h
    dsimp only at h ⊢
    cases h1 : checkedSlice inp name <;> cases h3 : checkedSlice inp lx.raw <;> simp only [h1, h3] at h
    all_goals first
      | (cases h; done)
      | (simp only [Option.some.injEq] at h; subst h; exact ⟨rfl, checkedSlice_le h3⟩)

theorem tagWanted_join {f o' : Flags} {lx : TagLexeme} (h : tagWanted f lx = true) : tagWanted (f.join o') lx = true := by
  unfold tagWanted at *
  cases ho : lx.outline <;> rw [ho] at h <;> simp only [Flags.join] at * <;> simp [h]

theorem Flags.join_after (f o' : Flags) (t : Token) : (f.join o').after t = (f.after t).join (o'.after t) := by
  cases t <;> simp [Flags.after, Flags.join]

theorem Flags.join_after_skip (f o' : Flags) (t : Token) (h : f.wants t = false) :
    (f.join o').after t = f.join (o'.after t) := by
  cases t <;> simp only [Flags.wants] at h <;> simp [Flags.after, Flags.join, h]


/-! ### the dispatcher steps, relationally -/

theorem ObsR0.mk' {fS : Flags} {d' : Disp (γ × Flags)} {d : Disp γ} {c' : γ × Flags} {c : γ} {v' v : DView}
    (hc' : d'.ctl = c') (hc : d.ctl = c) (hv' : d'.view = v') (hv : d.view = v) (h : ObsV lk fS c' c v' v) :
    ObsR0 lk fS d' d := by
  unfold ObsR0; rw [hc', hc, hv', hv]; exact h

theorem ObsR.mk' {d' : Disp (γ × Flags)} {d : Disp γ} {c' : γ × Flags} {c : γ} {v' v : DView}
    (hc' : d'.ctl = c') (hc : d.ctl = c) (hv' : d'.view = v') (hv : d.view = v) (h : ObsV lk v.flags c' c v' v) :
    ObsR lk d' d := by
  have : d.flags = v.flags := by rw [← hv]; rfl
  unfold ObsR; rw [this]; exact ObsR0.mk' hc' hc hv' hv h

theorem flush_obs {d' : Disp (γ × Flags)} {d : Disp γ} (h : ObsR lk d' d) :
    (d'.flushPendingText (withObs H o)).2 = (d.flushPendingText H).2 ∧
    ObsR lk (d'.flushPendingText (withObs H o)).1 (d.flushPendingText H).1 ∧
    (d.flushPendingText H).1.textPending = false ∧ (d'.flushPendingText (withObs H o)).1.textPending = false := by
  have hc := h.ctl
  rcases flushPendingText_vspec H d with ⟨hd, he⟩ | ⟨hd, hres, hctl, hview⟩
  · rw [he]
    rcases flushPendingText_vspec (withObs H o) d' with ⟨hd', he'⟩ | ⟨hd', hres', hctl', hview'⟩
    · rw [he']; exact ⟨rfl, h, hd, hd'⟩
    · have hft : d.flags.text = false := h.tp' hd hd'
      rw [hc] at hres' hctl'
      rw [tokRes_skip _ _ _ (by simpa [Flags.wants] using hft)] at hres'
      rw [withObs_token_skip _ _ _ (by simpa [Flags.wants] using hft)] at hctl'
      refine ⟨hres', ?_, hd, ?_⟩
      · refine ObsR.mk' hctl' rfl hview' rfl ?_
        exact ⟨rfl, h.flags, h.sticky, h.sticky', h.emis, h.gf', h.gf, h.pa', h.pa,
          fun hh => (by rw [show d.view.tp = d.textPending from rfl, hd] at hh; cases hh), fun _ hh => (by cases hh), h.rcs⟩
      · have : (d'.flushPendingText (withObs H o)).1.textPending = (d'.flushPendingText (withObs H o)).1.view.tp := rfl
        rw [this, hview']
  · obtain ⟨t1, t2, t3, t4⟩ := h.tp hd
    rcases flushPendingText_vspec (withObs H o) d' with ⟨hd', he'⟩ | ⟨hd', hres', hctl', hview'⟩
    · rw [show d'.view.tp = d'.textPending from rfl, hd'] at t1; cases t1
    · have e2 : d'.lastTextType = d.lastTextType := t3
      have e3 : d'.textPendingStart = d.textPendingStart := t2
      rw [e2, e3, hc] at hres' hctl'
      have hw : d.flags.wants (.text [] d.lastTextType true ⟨d.textPendingStart, d.textPendingStart⟩) = true := by
        have t4' : d.flags.text = true := t4
        simpa [Flags.wants] using t4'
      rw [tokRes_wants _ _ _ hw] at hres'
      rw [withObs_token_wants _ _ _ hw] at hctl'
      refine ⟨by rw [hres', hres], ?_, ?_, ?_⟩
      · refine ObsR.mk' hctl' hctl hview' hview ?_
        exact ⟨rfl, h.flags, h.sticky, h.sticky', h.emis, h.gf', h.gf, h.pa', h.pa,
          fun hh => (by cases hh), fun _ hh => (by cases hh), h.rcs⟩
      · have : (d.flushPendingText H).1.textPending = (d.flushPendingText H).1.view.tp := rfl
        rw [this, hview]
      · have : (d'.flushPendingText (withObs H o)).1.textPending = (d'.flushPendingText (withObs H o)).1.view.tp := rfl
        rw [this, hview']

theorem before_mono {fS : Flags} {d' : Disp (γ × Flags)} {d : Disp γ} (h : ObsR0 lk fS d' d) {raw : Range}
    (hb : d'.before inp raw) : d.before inp raw := by
  have : d.rcs ≤ d'.rcs := h.rcs
  exact ⟨by have := hb.1; omega, hb.2⟩

/-- a token both runs hand to `H` -/
theorem emitToken_both {fS : Flags} {d' : Disp (γ × Flags)} {d : Disp γ} (h : ObsR0 lk fS d' d) (raw : Range) (t : Token)
    (hw : fS.wants t = true) :
    IsPanic (d'.emitToken (withObs H o) inp raw t).2 ∨
    ((d'.emitToken (withObs H o) inp raw t).2 = (d.emitToken H inp raw t).2 ∧
      ObsR0 lk (fS.after t) (d'.emitToken (withObs H o) inp raw t).1 (d.emitToken H inp raw t).1 ∧
      (d.emitToken H inp raw t).1.flags = d.flags) := by
  have hc := h.ctl
  rcases emitToken_vspec (withObs H o) d' inp raw t with ⟨_, hp⟩ | ⟨hb', hres', q1, q2⟩
  · exact Or.inl hp
  · right
    rcases emitToken_vspec H d inp raw t with ⟨hnb, _⟩ | ⟨hb, hres, p1, p2⟩
    · exact absurd (before_mono h hb') hnb
    · rw [hc, tokRes_wants _ _ _ hw] at hres' q2
      rw [hc, withObs_token_wants _ _ _ hw] at q1
      refine ⟨by rw [hres', hres], ObsR0.mk' q1 p1 q2 p2 ?_, congrArg DView.flags p2⟩
      exact ⟨rfl, h.flags, h.sticky, h.sticky', h.emis, h.gf', h.gf, h.pa', h.pa, h.tp, h.tp', Nat.le_refl _⟩

/-- a token only the observers asked for -/
theorem emitToken_only {fS : Flags} {d' : Disp (γ × Flags)} {d : Disp γ} (h : ObsR0 lk fS d' d) (raw : Range) (t : Token)
    (hw : fS.wants t = false) (hraw : raw.start ≤ raw.end) :
    IsPanic (d'.emitToken (withObs H o) inp raw t).2 ∨
    ((d'.emitToken (withObs H o) inp raw t).2 = .ok () ∧ ObsR0 lk fS (d'.emitToken (withObs H o) inp raw t).1 d) := by
  have hc := h.ctl
  rcases emitToken_vspec (withObs H o) d' inp raw t with ⟨_, hp⟩ | ⟨hb', hres', q1, q2⟩
  · exact Or.inl hp
  · right
    rw [hc, tokRes_skip _ _ _ hw] at hres' q2
    rw [hc, withObs_token_skip _ _ _ hw] at q1
    refine ⟨hres', ObsR0.mk' q1 rfl q2 rfl ?_⟩
    have h1 : d.rcs ≤ d'.rcs := h.rcs
    have h2 := hb'.1
    exact ⟨rfl, h.flags, h.sticky, h.sticky', h.emis, h.gf', h.gf, h.pa', h.pa, h.tp, h.tp', by show d.rcs ≤ raw.end; omega⟩

theorem ObsV.setFlags {fS : Flags} {c' : γ × Flags} {c : γ} {v' v : DView} (h : ObsV lk fS c' c v' v) (f1 f1' : Flags)
    (hj : ∃ o1, f1' = f1.join o1) (hs : f1.sticky = v.flags.sticky) (hs' : f1'.sticky = v'.flags.sticky)
    (ht : f1.text = v.flags.text) :
    ObsV lk fS c' c { v' with flags := f1' } { v with flags := f1 } :=
  ⟨h.ctl, hj, fun hl => by show f1.sticky = true; rw [hs]; exact h.sticky hl,
    by show f1'.sticky = true; rw [hs']; exact h.sticky', h.emis, h.gf', h.gf, h.pa', h.pa,
    fun hh => by
      obtain ⟨a, b, c, d⟩ := h.tp hh
      exact ⟨a, b, c, by show f1.text = true; rw [ht]; exact d⟩,
    fun h1 h2 => by show f1.text = false; rw [ht]; exact h.tp' h1 h2, h.rcs⟩

theorem produceTag_obs {d' : Disp (γ × Flags)} {d : Disp γ} (h : ObsR lk d' d) (lx : TagLexeme) :
    DRelO lk (d'.produceTag (withObs H o) inp lx) (d.produceTag H inp lx) := by
  obtain ⟨o', hfl⟩ := h.flags
  have hfl' : d'.flags = d.flags.join o' := hfl
  unfold Disp.produceTag
  rw [tagToToken_eq, tagToToken_eq, hfl']
  cases hwH : tagWanted d.flags lx with
  | true =>
    have hwO := tagWanted_join (o' := o') hwH
    simp only [hwO, if_true]
    cases htok : tagTok inp lx with
    | none => left; exact ⟨_, rfl, by decide⟩
    | some t =>
      simp only [Option.map_some]
      obtain ⟨hw, _⟩ := tagTok_facts htok d.flags
      rw [hwH] at hw
      have h1 : ObsR0 lk d.flags ({ d' with flags := (d.flags.join o').after t } : Disp (γ × Flags)) ({ d with flags := d.flags.after t } : Disp γ) := by
        refine ObsR0.mk' (c' := d'.ctl) (c := d.ctl) (v' := { d'.view with flags := (d.flags.join o').after t })
          (v := { d.view with flags := d.flags.after t }) rfl rfl rfl rfl ?_
        exact ObsV.setFlags h _ _ ⟨o'.after t, Flags.join_after _ _ _⟩ (Flags.after_sticky _ _)
          (by rw [Flags.after_sticky]; exact congrArg Flags.sticky hfl'.symm) (Flags.after_text' _ _)
      rcases emitToken_both (H := H) (o := o) (inp := inp) h1 lx.raw t hw with hp | ⟨e1, r1, r2⟩
      · exact Or.inl hp
      · right
        refine ⟨e1, ?_⟩
        have : (Disp.emitToken H ({ d with flags := d.flags.after t } : Disp γ) inp lx.raw t).1.flags = d.flags.after t := r2
        unfold ObsR
        rw [this]
        exact r1
  | false =>
    simp only [Bool.false_eq_true, if_false]
    cases hwO : tagWanted (d.flags.join o') lx with
    | false =>
      simp only [Bool.false_eq_true, if_false]
      right
      refine ⟨rfl, ?_⟩
      have e1 : ({ d' with flags := d.flags.join o' } : Disp (γ × Flags)) = d' := by rw [← hfl']
      have e2 : ({ d with flags := d.flags } : Disp γ) = d := rfl
      rw [e1, e2]
      exact h
    | true =>
      simp only [if_true]
      have e2 : ({ d with flags := d.flags } : Disp γ) = d := rfl
      rw [e2]
      cases htok : tagTok inp lx with
      | none => left; exact ⟨_, rfl, by decide⟩
      | some t =>
        simp only [Option.map_some]
        obtain ⟨hw, hraw⟩ := tagTok_facts htok d.flags
        rw [hwH] at hw
        have h1 : ObsR0 lk d.flags ({ d' with flags := (d.flags.join o').after t } : Disp (γ × Flags)) d := by
          refine ObsR0.mk' (c' := d'.ctl) (c := d.ctl) (v' := { d'.view with flags := (d.flags.join o').after t })
            (v := { d.view with flags := d.flags }) rfl rfl rfl rfl ?_
          exact ObsV.setFlags h _ _ ⟨o'.after t, Flags.join_after_skip _ _ _ hw⟩ rfl
            (by rw [Flags.after_sticky]; exact congrArg Flags.sticky hfl'.symm) rfl
        rcases emitToken_only (H := H) (o := o) (inp := inp) h1 lx.raw t hw hraw with hp | ⟨e1, e3⟩
        · exact Or.inl hp
        · right
          exact ⟨e1, e3⟩

/-! ### non-tag lexemes -/

def ntWanted (g : Flags) (lx : NonTagLexeme) : Bool :=
  match lx.outline with
  | some (.comment _) => g.comments
  | some (.doctype _) => g.doctypes
  | _ => false

def ntTok (inp : Bytes) (lx : NonTagLexeme) : Option Token :=
  match lx.outline with
  | some (.comment text) =>
    match checkedSlice inp text, checkedSlice inp lx.raw with
    | some t, some raw => some (.comment t raw (srcOf lx.prevConsumed lx.raw))
    | _, _ => none
  | some (.doctype dt) =>
    match checkedSlice inp lx.raw with
    | some raw => some (.doctype (dt.name.bind (checkedSlice inp)) (dt.publicId.bind (checkedSlice inp))
        (dt.systemId.bind (checkedSlice inp)) dt.forceQuirks raw (srcOf lx.prevConsumed lx.raw))
    | none => none
  | _ => none

theorem nonTagToToken_eq (g : Flags) (inp : Bytes) (lx : NonTagLexeme) :
    nonTagToToken g inp lx = if ntWanted g lx then (ntTok inp lx).map some else some none := by
  unfold nonTagToToken ntWanted ntTok
  cases lx.outline with
  | none => rfl
  | some ol =>
    cases ol with
    | text tt => rfl
    | eof => rfl
    | comment text =>
      dsimp only
      cases g.comments with
      | false => rfl
      | true =>
        simp only [if_true]
        cases checkedSlice inp text <;> cases checkedSlice inp lx.raw <;> rfl
    | doctype dt =>
      dsimp only
      cases g.doctypes with
      | false => rfl
      | true =>
        simp only [if_true]
        cases checkedSlice inp lx.raw <;> rfl

theorem ntTok_facts {inp : Bytes} {lx : NonTagLexeme} {t : Token} (h : ntTok inp lx = some t) (g : Flags) :
    g.wants t = ntWanted g lx ∧ lx.raw.start ≤ lx.raw.end := by
  unfold ntTok at h
  unfold ntWanted
  cases ho : lx.outline with
  | none => rw [ho] at h; cases h
  | some ol =>
    rw [ho] at h
    cases ol with
    | text tt => cases h
    | eof => cases h
    | comment text =>
      dsimp only at h ⊢
      cases h1 : checkedSlice inp text <;> cases h3 : checkedSlice inp lx.raw <;> simp only [h1, h3] at h
      all_goals first
        | (cases h; done)
        | (simp only [Option.some.injEq] at h; subst h; exact ⟨rfl, checkedSlice_le h3⟩)
    | doctype dt =>
      dsimp only at h ⊢
      cases h3 : checkedSlice inp lx.raw <;> simp only [h3] at h
      all_goals first
        | (cases h; done)
        | (simp only [Option.some.injEq] at h; subst h; exact ⟨rfl, checkedSlice_le h3⟩)

theorem ntWanted_join {f o' : Flags} {lx : NonTagLexeme} (h : ntWanted f lx = true) : ntWanted (f.join o') lx = true := by
  unfold ntWanted at *
  cases ho : lx.outline with
  | none => rw [ho] at h; cases h
  | some ol =>
    rw [ho] at h
    cases ol <;> simp only [Flags.join] at * <;> simp_all

theorem Flags.after_nt {inp : Bytes} {lx : NonTagLexeme} {t : Token} (h : ntTok inp lx = some t) (f : Flags) : f.after t = f := by
  unfold ntTok at h
  cases ho : lx.outline with
  | none => rw [ho] at h; cases h
  | some ol =>
    rw [ho] at h
    cases ol with
    | text tt => cases h
    | eof => cases h
    | comment text =>
      dsimp only at h
      cases h1 : checkedSlice inp text <;> cases h3 : checkedSlice inp lx.raw <;> simp only [h1, h3] at h
      all_goals first
        | (cases h; done)
        | (simp only [Option.some.injEq] at h; subst h; rfl)
    | doctype dt =>
      dsimp only at h
      cases h3 : checkedSlice inp lx.raw <;> simp only [h3] at h
      all_goals first
        | (cases h; done)
        | (simp only [Option.some.injEq] at h; subst h; rfl)

theorem produceText_obs {d' : Disp (γ × Flags)} {d : Disp γ} (h : ObsR lk d' d) (lx : NonTagLexeme) (tt : TextType) :
    DRelO lk (if d'.flags.text then d'.produceText (withObs H o) inp lx tt else (d', .ok ()))
      (if d.flags.text then d.produceText H inp lx tt else (d, .ok ())) := by
  obtain ⟨o', hfl⟩ := h.flags
  have hfl' : d'.flags = d.flags.join o' := hfl
  have hc := h.ctl
  cases hfT : d.flags.text with
  | true =>
    have : d'.flags.text = true := by rw [hfl']; simp [Flags.join, hfT]
    rw [this]
    simp only [if_true]
    rcases produceText_vspec (withObs H o) d' inp lx tt with ⟨_, hp⟩ | ⟨raw, hraw, hrest'⟩
    · exact Or.inl hp
    · rcases hrest' with ⟨_, hp⟩ | ⟨hb', hres', q1, q2⟩
      · exact Or.inl hp
      · right
        rcases produceText_vspec H d inp lx tt with ⟨hn, _⟩ | ⟨raw2, hraw2, hrest⟩
        · rw [hraw] at hn; cases hn
        · rw [hraw] at hraw2
          simp only [Option.some.injEq] at hraw2
          subst hraw2
          rcases hrest with ⟨hnb, _⟩ | ⟨hb, hres, p1, p2⟩
          · exact absurd (before_mono h hb') hnb
          · have hw : d.flags.wants (.text raw tt false (srcOf lx.prevConsumed lx.raw)) = true := by
              simpa [Flags.wants] using hfT
            rw [hc, tokRes_wants _ _ _ hw] at hres' q2
            rw [hc, withObs_token_wants _ _ _ hw] at q1
            refine ⟨by rw [hres', hres], ?_⟩
            cases hr : tokRes H d.ctl (.text raw tt false (srcOf lx.prevConsumed lx.raw)) with
            | ok u =>
              rw [hr] at q2 p2
              refine ObsR.mk' q1 p1 q2 p2 ?_
              exact ⟨rfl, h.flags, h.sticky, h.sticky', h.emis, h.gf', h.gf, h.pa', h.pa,
                fun _ => ⟨rfl, rfl, rfl, hfT⟩, fun hh => (by cases hh), Nat.le_refl _⟩
            | error err =>
              rw [hr] at q2 p2
              refine ObsR.mk' q1 p1 q2 p2 ?_
              exact ⟨rfl, h.flags, h.sticky, h.sticky', h.emis, h.gf', h.gf, h.pa', h.pa,
                fun hh => (by
                  obtain ⟨a1, a2, _, a4⟩ := h.tp hh
                  exact ⟨a1, a2, rfl, a4⟩),
                h.tp', Nat.le_refl _⟩
  | false =>
    simp only [Bool.false_eq_true, if_false]
    cases hfO : d'.flags.text with
    | false => simp only [Bool.false_eq_true, if_false]; right; exact ⟨rfl, h⟩
    | true =>
      simp only [if_true]
      rcases produceText_vspec (withObs H o) d' inp lx tt with ⟨_, hp⟩ | ⟨raw, hraw, hrest'⟩
      · exact Or.inl hp
      · rcases hrest' with ⟨_, hp⟩ | ⟨hb', hres', q1, q2⟩
        · exact Or.inl hp
        · right
          have hw : d.flags.wants (.text raw tt false (srcOf lx.prevConsumed lx.raw)) = false := by
            simpa [Flags.wants] using hfT
          rw [hc, tokRes_skip _ _ _ hw] at hres' q2
          rw [hc, withObs_token_skip _ _ _ hw] at q1
          refine ⟨hres', ?_⟩
          refine ObsR.mk' q1 rfl q2 rfl ?_
          have hdtp : d.view.tp = false := by
            cases hh : d.view.tp with
            | false => rfl
            | true =>
              have := (h.tp hh).2.2.2
              have hfT' : d.view.flags.text = false := hfT
              rw [hfT'] at this; cases this
          have h1 : d.rcs ≤ d'.rcs := h.rcs
          have h2 := hb'.1
          have h3 := checkedSlice_le hraw
          exact ⟨rfl, h.flags, h.sticky, h.sticky', h.emis, h.gf', h.gf, h.pa', h.pa,
            fun hh => (by rw [hdtp] at hh; cases hh), fun _ _ => hfT, by show d.rcs ≤ lx.raw.end; omega⟩

theorem produceNonTag_obs {d' : Disp (γ × Flags)} {d : Disp γ} (h : ObsR lk d' d) (lx : NonTagLexeme) :
    DRelO lk (d'.produceNonTag (withObs H o) inp lx) (d.produceNonTag H inp lx) := by
  obtain ⟨o', hfl⟩ := h.flags
  have hfl' : d'.flags = d.flags.join o' := hfl
  unfold Disp.produceNonTag
  cases hol : lx.outline with
  | some ol =>
    cases ol with
    | text tt => exact produceText_obs h lx tt
    | comment _ | doctype _ | eof =>
      dsimp only
      rw [nonTagToToken_eq, nonTagToToken_eq, hfl']
      cases hwH : ntWanted d.flags lx with
      | true =>
        have hwO := ntWanted_join (o' := o') hwH
        simp only [hwO, if_true]
        cases htok : ntTok inp lx with
        | none => left; exact ⟨_, rfl, by decide⟩
        | some t =>
          simp only [Option.map_some]
          obtain ⟨hw, _⟩ := ntTok_facts htok d.flags
          rw [hwH] at hw
          rcases emitToken_both (H := H) (o := o) (inp := inp) h lx.raw t hw with hp | ⟨e1, r1, r2⟩
          · exact Or.inl hp
          · right
            refine ⟨e1, ?_⟩
            unfold ObsR
            rw [r2]
            rw [Flags.after_nt htok] at r1
            exact r1
      | false =>
        simp only [Bool.false_eq_true, if_false]
        cases hwO : ntWanted (d.flags.join o') lx with
        | false => simp only [Bool.false_eq_true, if_false]; right; exact ⟨rfl, h⟩
        | true =>
          simp only [if_true]
          cases htok : ntTok inp lx with
          | none => left; exact ⟨_, rfl, by decide⟩
          | some t =>
            simp only [Option.map_some]
            obtain ⟨hw, hraw⟩ := ntTok_facts htok d.flags
            rw [hwH] at hw
            rcases emitToken_only (H := H) (o := o) (inp := inp) h lx.raw t hw hraw with hp | ⟨e1, e3⟩
            · exact Or.inl hp
            · right
              exact ⟨e1, e3⟩
  | none =>
    dsimp only
    rw [nonTagToToken_eq, nonTagToToken_eq]
    have e1 : ∀ g, ntWanted g lx = false := by intro g; unfold ntWanted; rw [hol]
    simp only [e1, Bool.false_eq_true, if_false]
    right; exact ⟨rfl, h⟩

/-! ### flag decisions -/

theorem withObs_aux_ok {g g' : γ} {f f1 : Flags} {i : AuxInfo} (h : H.auxInfo g i = (g', .ok f1)) :
    (withObs H o).auxInfo (g, f) i = ((g', f1), .ok (f1.join o)) := by
  simp only [withObs, h]

theorem withObs_aux_err {g g' : γ} {f : Flags} {i : AuxInfo} {e : Err} (h : H.auxInfo g i = (g', .error e)) :
    (withObs H o).auxInfo (g, f) i = ((g', f), .error e) := by
  simp only [withObs, h]

theorem withObs_start_flags {g g' : γ} {f f1 : Flags} {n : LocalName} {ns : Ns} (h : H.startTag g n ns = (g', .flags f1)) :
    (withObs H o).startTag (g, f) n ns = ((g', f1), .flags (f1.join o)) := by
  simp only [withObs, h]

theorem withObs_start_info {g g' : γ} {f : Flags} {n : LocalName} {ns : Ns} (h : H.startTag g n ns = (g', .infoRequest)) :
    (withObs H o).startTag (g, f) n ns = ((g', f), .infoRequest) := by
  simp only [withObs, h]

theorem withObs_start_err {g g' : γ} {f : Flags} {n : LocalName} {ns : Ns} {e : Err} (h : H.startTag g n ns = (g', .err e)) :
    (withObs H o).startTag (g, f) n ns = ((g', f), .err e) := by
  simp only [withObs, h]

theorem DRes.bind_ok' {κ α β : Type} {r : DRes κ α} {a : α} (f : Disp κ → α → DRes κ β) (h : r.2 = .ok a) :
    r.bind f = f r.1 a := by unfold DRes.bind; rw [h]

theorem DRes.bind_err' {κ α β : Type} {r : DRes κ α} {e : Err} (f : Disp κ → α → DRes κ β) (h : r.2 = .error e) :
    r.bind f = (r.1, .error e) := by unfold DRes.bind; rw [h]

theorem Flags.sticky_join_right {f o : Flags} (h : o.sticky = true) : (f.join o).sticky = true := by
  cases f; cases o
  simp only [Flags.sticky, Flags.join] at *
  rename_i a b c d e a' b' c' d' e'
  cases a' <;> cases b' <;> cases e' <;> simp_all

/-- `ObsR` after a flag decision of `H` -/
theorem ObsR.decide {d' : Disp (γ × Flags)} {d : Disp γ} (h : ObsR lk d' d) (htp : d.textPending = false)
    (htp' : d'.textPending = false) (g' : γ) (f1 : Flags) (hst : lk = true → f1.sticky = true)
    (ho : o.sticky = true ∨ lk = true) :
    ObsR lk ({ d' with ctl := (g', f1), flags := f1.join o } : Disp (γ × Flags)) ({ d with ctl := g', flags := f1 } : Disp γ) := by
  refine ObsR.mk' (c' := (g', f1)) (c := g') (v' := { d'.view with flags := f1.join o }) (v := { d.view with flags := f1 })
    rfl rfl rfl rfl ?_
  have hj : (f1.join o).sticky = true := by
    rcases ho with ho | hl
    · exact Flags.sticky_join_right ho
    · exact Flags.sticky_join (hst hl)
  exact ⟨rfl, ⟨o, rfl⟩, hst, hj, h.emis, h.gf', h.gf, h.pa', h.pa,
    fun hh => (by rw [show ({ d.view with flags := f1 } : DView).tp = d.textPending from rfl, htp] at hh; cases hh),
    fun _ hh => (by rw [show ({ d'.view with flags := f1.join o } : DView).tp = d'.textPending from rfl, htp'] at hh; cases hh),
    h.rcs⟩

/-- `ObsR` after a call of `H` that does not change its flags -/
theorem ObsR.setCtl {d' : Disp (γ × Flags)} {d : Disp γ} (h : ObsR lk d' d) (g' : γ) :
    ObsR lk ({ d' with ctl := (g', d.flags) } : Disp (γ × Flags)) ({ d with ctl := g' } : Disp γ) := by
  refine ObsR.mk' (c' := (g', d.flags)) (c := g') (v' := d'.view) (v := d.view) rfl rfl rfl rfl ?_
  exact ⟨rfl, h.flags, h.sticky, h.sticky', h.emis, h.gf', h.gf, h.pa', h.pa, h.tp, h.tp', h.rcs⟩

variable (hs : lk = true → StickyCtl H) (ho : o.sticky = true ∨ lk = true)
include hs ho

theorem answerAux_obs {d' : Disp (γ × Flags)} {d : Disp γ} (h : ObsR lk d' d) (htp : d.textPending = false)
    (htp' : d'.textPending = false) (info : AuxInfo) :
    DRelO lk (d'.answerAux (withObs H o) info) (d.answerAux H info) := by
  have hc : d'.ctl = (d.ctl, d.flags) := h.ctl
  unfold Disp.answerAux
  rw [hc]
  cases hr : H.auxInfo d.ctl info with
  | mk g' res =>
    cases res with
    | ok f1 =>
      rw [withObs_aux_ok hr]
      right
      exact ⟨rfl, h.decide (o := o) htp htp' g' f1 (fun hl => (hs hl).aux _ _ _ (by rw [hr])) ho⟩
    | error e =>
      rw [withObs_aux_err hr]
      right
      exact ⟨rfl, h.setCtl g'⟩

theorem adjust_obs {d' : Disp (γ × Flags)} {d : Disp γ} (h : ObsR lk d' d) (htp : d.textPending = false)
    (htp' : d'.textPending = false) (lx : TagLexeme) :
    DRelO lk (d'.adjustFlagsForTag (withObs H o) inp lx) (d.adjustFlagsForTag H inp lx) := by
  have hc : d'.ctl = (d.ctl, d.flags) := h.ctl
  have hpa : d.pendingAux = false := h.pa
  have hpa' : d'.pendingAux = false := h.pa'
  unfold Disp.adjustFlagsForTag
  rw [if_neg (by rw [hpa']; simp), if_neg (by rw [hpa]; simp)]
  cases lx.outline with
  | startTag name hsh ns as sc =>
    dsimp only
    cases LocalName.new inp name hsh with
    | none => left; exact ⟨_, rfl, by decide⟩
    | some ln =>
      dsimp only
      rw [hc]
      cases hr : H.startTag d.ctl ln ns with
      | mk g' res =>
        cases res with
        | flags f1 =>
          rw [withObs_start_flags hr]
          right
          exact ⟨rfl, h.decide (o := o) htp htp' g' f1 (fun hl => (hs hl).start _ _ _ _ (by rw [hr])) ho⟩
        | infoRequest =>
          rw [withObs_start_info hr]
          exact answerAux_obs (o := o) hs ho (h.setCtl g') htp htp' _
        | err e =>
          rw [withObs_start_err hr]
          right
          exact ⟨rfl, h.setCtl g'⟩
  | endTag name hsh =>
    dsimp only
    cases LocalName.new inp name hsh with
    | none => left; exact ⟨_, rfl, by decide⟩
    | some ln =>
      dsimp only
      rw [hc]
      right
      refine ⟨rfl, ?_⟩
      exact h.decide (o := o) htp htp' (H.endTag d.ctl ln).1 (H.endTag d.ctl ln).2 (fun hl => (hs hl).end_ _ _) ho

omit hs ho in
theorem resume_obs {d' : Disp (γ × Flags)} {d : Disp γ} (h : ObsR lk d' d) (lx : TagLexeme) :
    ObsR lk (d'.resumeEmission (withObs H o) lx) (d.resumeEmission H lx) := by
  have hc : d'.ctl = (d.ctl, d.flags) := h.ctl
  have he : d'.emissionEnabled = d.emissionEnabled := h.emis
  unfold Disp.resumeEmission Disp.shouldStopRemoving
  have : (withObs H o).shouldEmit d'.ctl = H.shouldEmit d.ctl := by rw [hc]; rfl
  rw [this, he]
  split
  · refine ObsR.mk' (c' := d'.ctl) (c := d.ctl) (v' := { d'.view with emis := true, rcs := lx.raw.start })
      (v := { d.view with emis := true, rcs := lx.raw.start }) rfl rfl rfl rfl ?_
    exact ⟨hc, h.flags, h.sticky, h.sticky', rfl, h.gf', h.gf, h.pa', h.pa, h.tp, h.tp', Nat.le_refl _⟩
  · exact h

/-- the part of `handle_tag` after the capture flags are settled -/
def Disp.tagTail {κ : Type} (ctl : Controller κ) (inp : Bytes) (lx : TagLexeme) (d : Disp κ) : DRes κ Directive :=
  ((d.resumeEmission ctl lx).produceTag ctl inp lx).bind fun d _ =>
  let d := { d with emissionEnabled := ctl.shouldEmit d.ctl }
  (d, .ok d.nextDirective)

omit hs ho in
theorem handleTag_eq {κ : Type} (ctl : Controller κ) (lx : TagLexeme) (d : Disp κ) :
    Disp.handleTag ctl inp lx d =
      (d.flushPendingText ctl).bind fun d _ =>
      DRes.bind (if d.gotFlagsFromHint then (({ d with gotFlagsFromHint := false }, .ok ()) : DRes κ Unit)
        else d.adjustFlagsForTag ctl inp lx) fun d _ => d.tagTail ctl inp lx := rfl

/-- outcome of two related tag steps: the observing run answers `lex`, the plain run its own directive -/
def TagOut (lk : Bool) (r' : DRes (γ × Flags) Directive) (r : DRes γ Directive) : Prop :=
  IsPanic r'.2 ∨ (ObsR lk r'.1 r.1 ∧
    ((∃ e, r'.2 = .error e ∧ r.2 = .error e) ∨ (r'.2 = .ok .lex ∧ r.2 = .ok r.1.nextDirective)))

omit hs ho in
theorem DRelO.bindT {α : Type} {r' : DRes (γ × Flags) α} {r : DRes γ α}
    {f' : Disp (γ × Flags) → α → DRes (γ × Flags) Directive} {f : Disp γ → α → DRes γ Directive}
    (h : DRelO lk r' r) (hf : ∀ d' d a, ObsR lk d' d → TagOut lk (f' d' a) (f d a)) : TagOut lk (r'.bind f') (r.bind f) := by
  unfold DRes.bind
  rcases h with ⟨s, hs, hne⟩ | ⟨h1, h2⟩
  · left; rw [hs]; exact ⟨s, rfl, hne⟩
  · rw [h1]
    cases hr : r.2 with
    | error e => right; exact ⟨h2, Or.inl ⟨e, rfl, rfl⟩⟩
    | ok a => exact hf _ _ a h2

omit hs ho in
/-- resume / produce / emission update, relationally -/
theorem tagTail_obs {d' : Disp (γ × Flags)} {d : Disp γ} (h : ObsR lk d' d) (lx : TagLexeme) :
    TagOut lk (d'.tagTail (withObs H o) inp lx) (d.tagTail H inp lx) := by
  unfold Disp.tagTail
  apply DRelO.bindT (produceTag_obs (resume_obs h lx) lx)
  intro k' k _ hK
  right
  have hcK : k'.ctl = (k.ctl, k.flags) := hK.ctl
  have hne' : k'.flags.isEmpty = false := Flags.sticky_nonempty hK.sticky'
  have : (withObs H o).shouldEmit k'.ctl = H.shouldEmit k.ctl := by rw [hcK]; rfl
  dsimp only
  rw [this]
  refine ⟨?_, Or.inr ⟨?_, rfl⟩⟩
  · refine ObsR.mk' (c' := k'.ctl) (c := k.ctl) (v' := { k'.view with emis := H.shouldEmit k.ctl })
      (v := { k.view with emis := H.shouldEmit k.ctl }) rfl rfl rfl rfl ?_
    exact ⟨hcK, hK.flags, hK.sticky, hK.sticky', rfl, hK.gf', hK.gf, hK.pa', hK.pa, hK.tp, hK.tp', hK.rcs⟩
  · simp only [Disp.nextDirective, hne']
    rfl

/-- **one tag lexeme, both runs in the lexer**: related dispatchers; the observing run answers `lex`, the
plain run answers its own directive (`scan` when `H`'s flags have become empty: the hand-over back to
the tag scanner) — unless the observing run panics -/
theorem handleTag_obs {d' : Disp (γ × Flags)} {d : Disp γ} (h : ObsR lk d' d) (lx : TagLexeme) :
    TagOut lk (Disp.handleTag (withObs H o) inp lx d') (Disp.handleTag H inp lx d) := by
  rw [handleTag_eq, handleTag_eq]
  obtain ⟨f1, f2, f3, f4⟩ := flush_obs (H := H) (o := o) h
  cases hfr : (d.flushPendingText H).2 with
  | error e =>
    rw [DRes.bind_err' _ hfr, DRes.bind_err' _ (by rw [f1, hfr])]
    right
    exact ⟨f2, Or.inl ⟨e, rfl, rfl⟩⟩
  | ok u =>
    rw [DRes.bind_ok' _ hfr, DRes.bind_ok' _ (by rw [f1, hfr])]
    have g1 : (d.flushPendingText H).1.gotFlagsFromHint = false := f2.gf
    have g2 : (d'.flushPendingText (withObs H o)).1.gotFlagsFromHint = false := f2.gf'
    rw [g1, g2]
    simp only [Bool.false_eq_true, if_false]
    apply DRelO.bindT (adjust_obs hs ho f2 f3 f4 lx)
    intro e' e _ hR
    exact tagTail_obs hR lx

/-- in the lock-step variant both answer `lex` -/
theorem handleTag_obs_lock {d' : Disp (γ × Flags)} {d : Disp γ} (hl : lk = true) (h : ObsR lk d' d) (lx : TagLexeme) :
    DRelQ lk (fun dir => dir = Directive.lex) (Disp.handleTag (withObs H o) inp lx d') (Disp.handleTag H inp lx d) := by
  rcases handleTag_obs (inp := inp) hs ho h lx with hp | ⟨hR, ⟨e, e1, e2⟩ | ⟨e1, e2⟩⟩
  · exact Or.inl hp
  · exact Or.inr ⟨by rw [e1, e2], hR, fun a ha => by rw [e2] at ha; cases ha⟩
  · have hne : (Disp.handleTag H inp lx d).1.flags.isEmpty = false := Flags.sticky_nonempty (hR.sticky hl)
    have hd : (Disp.handleTag H inp lx d).1.nextDirective = .lex := by simp only [Disp.nextDirective, hne]; rfl
    rw [hd] at e2
    exact Or.inr ⟨by rw [e1, e2], hR, fun a ha => by rw [e2] at ha; simpa using ha.symm⟩

omit hs ho in
/-- **one non-tag lexeme** -/
theorem handleNonTag_obs {d' : Disp (γ × Flags)} {d : Disp γ} (h : ObsR lk d' d) (lx : NonTagLexeme) :
    DRelO lk (Disp.handleNonTag (withObs H o) inp lx d') (Disp.handleNonTag H inp lx d) := by
  unfold Disp.handleNonTag
  cases lx.isText with
  | true =>
    simp only [if_true]
    rw [DRes.bind_ok' _ (rfl : ((d, Except.ok ()) : DRes γ Unit).2 = .ok ()),
      DRes.bind_ok' _ (rfl : ((d', Except.ok ()) : DRes (γ × Flags) Unit).2 = .ok ())]
    exact produceNonTag_obs h lx
  | false =>
    simp only [Bool.false_eq_true, if_false]
    obtain ⟨f1, f2, _, _⟩ := flush_obs (H := H) (o := o) h
    cases hfr : (d.flushPendingText H).2 with
    | error e =>
      rw [DRes.bind_err' _ hfr, DRes.bind_err' _ (by rw [f1, hfr])]
      right
      exact ⟨rfl, f2⟩
    | ok u =>
      rw [DRes.bind_ok' _ hfr, DRes.bind_ok' _ (by rw [f1, hfr])]
      exact produceNonTag_obs f2 lx

end
end LolHtml.Model
