import LolHtml.Model.Stream
/-!
Observer independence, dispatcher level (lexer mode).

`withObs H o` is the controller "`H` together with observer-only handlers capturing `o`": every flag
decision of `H` is joined with `o`; a token is handed to `H` only if `H`'s own flags asked for it,
otherwise it is serialised unchanged. `ObsR` relates the dispatcher of the `withObs H o` run to the
dispatcher of the `H` run; every lexeme keeps it and yields the same result — unless the observing run
panics (excluded globally by `C15_no_panic_full`).

Valid while `H`'s own flags contain a non-one-shot flag (`Flags.sticky`): then both parsers stay in the
lexer. (`H`'s flags empty = the tag scanner runs in the `H` run: the scanner ⇄ lexer half of the
independence claim, not covered here.)
-/
set_option linter.unusedSimpArgs false
set_option linter.unusedVariables false

namespace LolHtml.Model

variable {γ : Type}

def Flags.join (a b : Flags) : Flags :=
  ⟨a.text || b.text, a.comments || b.comments, a.nextStartTag || b.nextStartTag, a.nextEndTag || b.nextEndTag,
   a.doctypes || b.doctypes⟩

/-- a capture flag that is not cleared by the token it asked for -/
def Flags.sticky (f : Flags) : Bool := f.text || f.comments || f.doctypes

/-- does `f` ask for the token `t` -/
def Flags.wants (f : Flags) : Token → Bool
  | .startTag .. => f.nextStartTag
  | .endTag .. => f.nextEndTag
  | .comment .. => f.comments
  | .doctype .. => f.doctypes
  | .text .. => f.text

/-- the one-shot flags are cleared by the token they asked for -/
def Flags.after (f : Flags) : Token → Flags
  | .startTag .. => { f with nextStartTag := false }
  | .endTag .. => { f with nextEndTag := false }
  | _ => f

/-- `H` together with observer-only handlers (capture `o`, write nothing, never fail). The second
component of the state is the capture-flag set `H` itself currently asks for. -/
def withObs (H : Controller γ) (o : Flags) : Controller (γ × Flags) where
  initialFlags gf := (H.initialFlags gf.1).join o
  startTag gf n ns :=
    match H.startTag gf.1 n ns with
    | (g', .flags f) => ((g', f), .flags (f.join o))
    | (g', .infoRequest) => ((g', gf.2), .infoRequest)
    | (g', .err e) => ((g', gf.2), .err e)
  auxInfo gf i :=
    match H.auxInfo gf.1 i with
    | (g', .ok f) => ((g', f), .ok (f.join o))
    | (g', .error e) => ((g', gf.2), .error e)
  endTag gf n := (((H.endTag gf.1 n).1, (H.endTag gf.1 n).2), (H.endTag gf.1 n).2.join o)
  token gf t :=
    if gf.2.wants t then (((H.token gf.1 t).1, gf.2.after t), (H.token gf.1 t).2)
    else (gf, { chunks := [t.raw] })
  shouldEmit gf := H.shouldEmit gf.1
  handleEnd gf := (((H.handleEnd gf.1).1, gf.2), (H.handleEnd gf.1).2)
  bailOut gf e := (((H.bailOut gf.1 e).1, gf.2), (H.bailOut gf.1 e).2)

/-- every capture-flag set `H` returns contains a sticky flag: `H` keeps the parser in the lexer -/
structure StickyCtl (H : Controller γ) : Prop where
  init : ∀ g, (H.initialFlags g).sticky = true
  start : ∀ g n ns f, (H.startTag g n ns).2 = .flags f → f.sticky = true
  aux : ∀ g i f, (H.auxInfo g i).2 = .ok f → f.sticky = true
  end_ : ∀ g n, (H.endTag g n).2.sticky = true

theorem Flags.sticky_nonempty {f : Flags} (h : f.sticky = true) : f.isEmpty = false := by
  cases f
  simp only [Flags.sticky, Flags.isEmpty] at *
  rename_i a b c d e
  cases a <;> cases b <;> cases e <;> simp_all

theorem Flags.sticky_join {f o : Flags} (h : f.sticky = true) : (f.join o).sticky = true := by
  cases f; cases o
  simp only [Flags.sticky, Flags.join] at *
  rename_i a b c d e a' b' c' d' e'
  cases a <;> cases b <;> cases e <;> simp_all

/-! ### views -/

/-- the dispatcher registers the relation talks about (everything but the controller state, the sink
log and the encoding registers) -/
structure DView where
  flags : Flags
  emis : Bool
  gf : Bool
  pa : Bool
  tp : Bool
  tps : Nat
  ltt : TextType
  rcs : Nat

def Disp.view {κ : Type} (d : Disp κ) : DView :=
  ⟨d.flags, d.emissionEnabled, d.gotFlagsFromHint, d.pendingAux, d.textPending, d.textPendingStart, d.lastTextType, d.rcs⟩

def IsPanic {α : Type} (r : Except Err α) : Prop := ∃ s, r = .error (.panic s)

/-- result of handing a token to the controller -/
def tokRes {κ : Type} (ctl : Controller κ) (g : κ) (t : Token) : Except Err Unit :=
  match (ctl.token g t).2.err with
  | some e => .error e
  | none => .ok ()

section specs
variable {κ : Type} (ctl : Controller κ)

theorem tokenProduced_spec (d : Disp κ) (t : Token) :
    (Disp.tokenProduced ctl d t).2 = tokRes ctl d.ctl t ∧
    (Disp.tokenProduced ctl d t).1.ctl = (ctl.token d.ctl t).1 ∧
    (Disp.tokenProduced ctl d t).1.view = d.view := by
  unfold Disp.tokenProduced tokRes
  dsimp only
  have h1 : ∀ (d : Disp κ) o, (d.noteNextEncoding o).view = d.view ∧ (d.noteNextEncoding o).ctl = d.ctl := by
    intro d o; unfold Disp.noteNextEncoding; (repeat' split) <;> exact ⟨rfl, rfl⟩
  have h2 : ∀ (d : Disp κ) cs, (d.pushChunks cs).view = d.view ∧ (d.pushChunks cs).ctl = d.ctl := by
    intro d cs; unfold Disp.pushChunks; split <;> exact ⟨rfl, rfl⟩
  cases herr : (ctl.token d.ctl t).2.err <;>
    (dsimp only; refine ⟨rfl, ?_, ?_⟩ <;> simp only [(h2 _ _).1, (h2 _ _).2, (h1 _ _).1, (h1 _ _).2] <;> rfl)

theorem flushPendingText_spec (d : Disp κ) :
    (d.textPending = false ∧ d.flushPendingText ctl = (d, .ok ())) ∨
    (d.textPending = true ∧
      (d.flushPendingText ctl).2 = tokRes ctl d.ctl (.text [] d.lastTextType true ⟨d.textPendingStart, d.textPendingStart⟩) ∧
      (d.flushPendingText ctl).1.ctl = (ctl.token d.ctl (.text [] d.lastTextType true ⟨d.textPendingStart, d.textPendingStart⟩)).1 ∧
      (d.flushPendingText ctl).1.view = { d.view with tp := false }) := by
  unfold Disp.flushPendingText
  cases hd : d.textPending with
  | false => left; simp
  | true =>
    right
    simp only [if_true]
    obtain ⟨a, b, c⟩ := tokenProduced_spec ctl { d with textPending := false }
      (.text [] d.lastTextType true ⟨d.textPendingStart, d.textPendingStart⟩)
    exact ⟨by first | rfl | trivial, a, b, c⟩

/-- the bounds `emit_chunk_before_lexeme` needs -/
def Disp.before {κ : Type} (d : Disp κ) (inp : Bytes) (raw : Range) : Prop := d.rcs ≤ raw.start ∧ raw.start ≤ inp.length

theorem emitChunkBefore_spec (d : Disp κ) (inp : Bytes) (raw : Range) :
    (¬ d.before inp raw ∧ IsPanic (d.emitChunkBefore inp raw)) ∨
    (d.before inp raw ∧ ∃ e, d.emitChunkBefore inp raw = .ok e ∧ e.ctl = d.ctl ∧ e.view = { d.view with rcs := raw.start }) := by
  unfold Disp.emitChunkBefore Disp.before checkedSlice
  dsimp only
  by_cases hb : d.rcs ≤ raw.start ∧ raw.start ≤ inp.length
  · right
    rw [if_pos hb]
    refine ⟨hb, _, rfl, ?_, ?_⟩ <;> (try dsimp only) <;> (split <;> rfl)
  · left
    rw [if_neg hb]
    exact ⟨hb, _, rfl⟩

theorem flushEncodingChange_spec (d : Disp κ) : d.flushEncodingChange.ctl = d.ctl ∧ d.flushEncodingChange.view = d.view := by
  unfold Disp.flushEncodingChange
  (repeat' split) <;> exact ⟨rfl, rfl⟩

theorem emitToken_spec (d : Disp κ) (inp : Bytes) (raw : Range) (tok : Token) :
    (¬ d.before inp raw ∧ IsPanic (d.emitToken ctl inp raw tok).2) ∨
    (d.before inp raw ∧ (d.emitToken ctl inp raw tok).2 = tokRes ctl d.ctl tok ∧
      (tokRes ctl d.ctl tok = .ok () →
        (d.emitToken ctl inp raw tok).1.ctl = (ctl.token d.ctl tok).1 ∧
        (d.emitToken ctl inp raw tok).1.view = { d.view with rcs := raw.end })) := by
  unfold Disp.emitToken
  rcases emitChunkBefore_spec d inp raw with ⟨hb, s, hs⟩ | ⟨hb, e, he, hc, hv⟩
  · left
    rw [hs]
    exact ⟨hb, s, rfl⟩
  · right
    rw [he]
    simp only [DRes.ofExcept, DRes.bind]
    obtain ⟨a, b, c⟩ := tokenProduced_spec ctl e tok
    rw [hc] at a b
    refine ⟨hb, ?_, ?_⟩
    · cases hr : (Disp.tokenProduced ctl e tok).2 with
      | error err => rw [← a, hr]
      | ok u => rw [← a, hr]
    · intro hok
      rw [← a] at hok
      rw [hok]
      dsimp only
      obtain ⟨f1, f2⟩ := flushEncodingChange_spec ({ (Disp.tokenProduced ctl e tok).1 with rcs := raw.end } : Disp κ)
      rw [f1, f2]
      refine ⟨b, ?_⟩
      show Disp.view { (Disp.tokenProduced ctl e tok).1 with rcs := raw.end } = _
      have : Disp.view ({ (Disp.tokenProduced ctl e tok).1 with rcs := raw.end } : Disp κ) =
          { (Disp.tokenProduced ctl e tok).1.view with rcs := raw.end } := rfl
      rw [this, c, hv]

theorem produceText_spec (d : Disp κ) (inp : Bytes) (lx : NonTagLexeme) (tt : TextType) :
    (checkedSlice inp lx.raw = none ∧ IsPanic (d.produceText ctl inp lx tt).2) ∨
    (∃ raw, checkedSlice inp lx.raw = some raw ∧
      ((¬ d.before inp lx.raw ∧ IsPanic (d.produceText ctl inp lx tt).2) ∨
       (d.before inp lx.raw ∧
        (d.produceText ctl inp lx tt).2 = tokRes ctl d.ctl (.text raw tt false (srcOf lx.prevConsumed lx.raw)) ∧
        (tokRes ctl d.ctl (.text raw tt false (srcOf lx.prevConsumed lx.raw)) = .ok () →
          (d.produceText ctl inp lx tt).1.ctl = (ctl.token d.ctl (.text raw tt false (srcOf lx.prevConsumed lx.raw))).1 ∧
          (d.produceText ctl inp lx tt).1.view =
            { d.view with ltt := tt, tp := true, tps := lx.prevConsumed + lx.raw.end, rcs := lx.raw.end })))) := by
  unfold Disp.produceText
  cases hs : checkedSlice inp lx.raw with
  | none => left; exact ⟨rfl, _, rfl⟩
  | some raw =>
    right
    refine ⟨raw, rfl, ?_⟩
    dsimp only
    rcases emitChunkBefore_spec d inp lx.raw with ⟨hb, s, hs'⟩ | ⟨hb, e, he, hc, hv⟩
    · left
      rw [hs']
      exact ⟨hb, s, rfl⟩
    · right
      rw [he]
      simp only [DRes.ofExcept, DRes.bind]
      obtain ⟨a, b, c⟩ := tokenProduced_spec ctl { e with lastTextType := tt } (.text raw tt false (srcOf lx.prevConsumed lx.raw))
      have hv' : Disp.view ({ e with lastTextType := tt } : Disp κ) = { d.view with ltt := tt, rcs := lx.raw.start } := by
        have : Disp.view ({ e with lastTextType := tt } : Disp κ) = { e.view with ltt := tt } := rfl
        rw [this, hv]
      rw [hv'] at c
      generalize Disp.tokenProduced ctl { e with lastTextType := tt } (.text raw tt false (srcOf lx.prevConsumed lx.raw)) = tp at a b c ⊢
      have a' : tp.2 = tokRes ctl d.ctl (.text raw tt false (srcOf lx.prevConsumed lx.raw)) := by
        rw [a]; show tokRes ctl e.ctl _ = _; rw [hc]
      have b' : tp.1.ctl = (ctl.token d.ctl (.text raw tt false (srcOf lx.prevConsumed lx.raw))).1 := by
        rw [b]; show (ctl.token e.ctl _).1 = _; rw [hc]
      refine ⟨hb, ?_, ?_⟩
      · cases hr : tp.2 with
        | error err => dsimp only; rw [← a', hr]
        | ok u => dsimp only; rw [← a', hr]
      · intro hok
        rw [← a'] at hok
        rw [hok]
        dsimp only
        refine ⟨b', ?_⟩
        have : Disp.view ({ tp.1 with textPending := true, textPendingStart := lx.prevConsumed + lx.raw.end, rcs := lx.raw.end } : Disp κ) =
            { tp.1.view with tp := true, tps := lx.prevConsumed + lx.raw.end, rcs := lx.raw.end } := rfl
        rw [this, c]

end specs

/-! ### the relation -/

/-- the relation on (controller state, view) pairs; `fS` = `H`'s own flags as recorded in the
observing controller's state -/
structure ObsV (fS : Flags) (c' : γ × Flags) (c : γ) (v' v : DView) : Prop where
  ctl : c' = (c, fS)
  flags : ∃ o', v'.flags = v.flags.join o'
  sticky : v.flags.sticky = true
  emis : v'.emis = v.emis
  gf' : v'.gf = false
  gf : v.gf = false
  pa' : v'.pa = false
  pa : v.pa = false
  tp : v.tp = true → v'.tp = true ∧ v'.tps = v.tps ∧ v'.ltt = v.ltt ∧ v.flags.text = true
  tp' : v.tp = false → v'.tp = true → v.flags.text = false
  rcs : v.rcs ≤ v'.rcs

/-- the dispatcher of the observing run `d'` and of the plain run `d` -/
def ObsR0 (fS : Flags) (d' : Disp (γ × Flags)) (d : Disp γ) : Prop := ObsV fS d'.ctl d.ctl d'.view d.view

abbrev ObsR (d' : Disp (γ × Flags)) (d : Disp γ) : Prop := ObsR0 d.flags d' d

/-- related outcomes of a dispatcher step: same result (and related dispatchers on success), unless the
observing run panics -/
def DRelO {α : Type} (r' : DRes (γ × Flags) α) (r : DRes γ α) : Prop :=
  IsPanic r'.2 ∨ (r'.2 = r.2 ∧ ∀ a, r.2 = .ok a → ObsR r'.1 r.1)

theorem DRelO.bind {α β : Type} {r' : DRes (γ × Flags) α} {r : DRes γ α}
    {f' : Disp (γ × Flags) → α → DRes (γ × Flags) β} {f : Disp γ → α → DRes γ β}
    (h : DRelO r' r) (hf : ∀ d' d a, ObsR d' d → DRelO (f' d' a) (f d a)) : DRelO (r'.bind f') (r.bind f) := by
  unfold DRes.bind
  rcases h with ⟨s, hs⟩ | ⟨h1, h2⟩
  · left; rw [hs]; exact ⟨s, rfl⟩
  · rw [h1]
    cases hr : r.2 with
    | error e => right; exact ⟨rfl, fun a ha => by cases ha⟩
    | ok a => exact hf _ _ a (h2 a hr)

section
variable {H : Controller γ} {o : Flags} {inp : Bytes}

theorem withObs_token_wants (g : γ) (f : Flags) (t : Token) (hw : f.wants t = true) :
    (withObs H o).token (g, f) t = (((H.token g t).1, f.after t), (H.token g t).2) := by
  simp only [withObs, hw, if_true]

theorem withObs_token_skip (g : γ) (f : Flags) (t : Token) (hw : f.wants t = false) :
    (withObs H o).token (g, f) t = ((g, f), { chunks := [t.raw] }) := by
  simp only [withObs, hw, Bool.false_eq_true, if_false]

theorem tokRes_wants (g : γ) (f : Flags) (t : Token) (hw : f.wants t = true) :
    tokRes (withObs H o) (g, f) t = tokRes H g t := by
  unfold tokRes; rw [withObs_token_wants g f t hw]

theorem tokRes_skip (g : γ) (f : Flags) (t : Token) (hw : f.wants t = false) :
    tokRes (withObs H o) (g, f) t = .ok () := by
  unfold tokRes; rw [withObs_token_skip g f t hw]


/-! ### pure facts about flags and `to_token` -/

theorem Flags.after_sticky (f : Flags) (t : Token) : (f.after t).sticky = f.sticky := by
  cases t <;> rfl

theorem Flags.after_text' (f : Flags) (t : Token) : (f.after t).text = f.text := by
  cases t <;> rfl

theorem Flags.join_wants {f o' : Flags} {t : Token} (h : f.wants t = true) : (f.join o').wants t = true := by
  cases t <;> simp only [Flags.wants, Flags.join] at * <;> simp [h]

theorem checkedSlice_le {inp : Bytes} {r : Range} {b : Bytes} (h : checkedSlice inp r = some b) : r.start ≤ r.end := by
  unfold checkedSlice at h
  split at h
  · rename_i hh; exact hh.1
  · cases h

/-- does the flag set ask for this tag lexeme -/
def tagWanted (g : Flags) (lx : TagLexeme) : Bool :=
  match lx.outline with
  | .startTag .. => g.nextStartTag
  | .endTag .. => g.nextEndTag

/-- the token of a tag lexeme (independent of the flags) -/
def tagTok (inp : Bytes) (lx : TagLexeme) : Option Token :=
  match lx.outline with
  | .startTag name _ ns as sc =>
    match checkedSlice inp name, attrsOf inp as, checkedSlice inp lx.raw with
    | some n, some attrs, some raw => some (.startTag n attrs ns sc raw (srcOf lx.prevConsumed lx.raw) lx.prevConsumed)
    | _, _, _ => none
  | .endTag name _ =>
    match checkedSlice inp name, checkedSlice inp lx.raw with
    | some n, some raw => some (.endTag n raw (srcOf lx.prevConsumed lx.raw))
    | _, _ => none

theorem tagToToken_eq (g : Flags) (inp : Bytes) (lx : TagLexeme) :
    tagToToken g inp lx =
      if tagWanted g lx then (tagTok inp lx).map (fun t => (g.after t, some t)) else some (g, none) := by
  unfold tagToToken tagWanted tagTok
  cases lx.outline with
  | startTag name hsh ns as sc =>
    dsimp only
    cases g.nextStartTag with
    | false => rfl
    | true =>
      simp only [if_true]
      cases checkedSlice inp name <;> cases attrsOf inp as <;> cases checkedSlice inp lx.raw <;> rfl
  | endTag name hsh =>
    dsimp only
    cases g.nextEndTag with
    | false => rfl
    | true =>
      simp only [if_true]
      cases checkedSlice inp name <;> cases checkedSlice inp lx.raw <;> rfl

theorem tagTok_facts {inp : Bytes} {lx : TagLexeme} {t : Token} (h : tagTok inp lx = some t) (g : Flags) :
    g.wants t = tagWanted g lx ∧ lx.raw.start ≤ lx.raw.end := by
  unfold tagTok at h
  unfold tagWanted
  cases ho : lx.outline with
  | startTag name hsh ns as sc =>
    rw [ho] at h
    dsimp only at h ⊢
    cases h1 : checkedSlice inp name <;> cases h2 : attrsOf inp as <;> cases h3 : checkedSlice inp lx.raw <;>
      simp only [h1, h2, h3] at h
    all_goals first
      | (cases h; done)
      | (simp only [Option.some.injEq] at h; subst h; exact ⟨rfl, checkedSlice_le h3⟩)
  | endTag name hsh =>
    rw [ho] at h
    dsimp only at h ⊢
    cases h1 : checkedSlice inp name <;> cases h3 : checkedSlice inp lx.raw <;> simp only [h1, h3] at h
    all_goals first
      | (cases h; done)
      | (simp only [Option.some.injEq] at h; subst h; exact ⟨rfl, checkedSlice_le h3⟩)

theorem tagWanted_join {f o' : Flags} {lx : TagLexeme} (h : tagWanted f lx = true) : tagWanted (f.join o') lx = true := by
  unfold tagWanted at *
  cases ho : lx.outline <;> rw [ho] at h <;> simp only [Flags.join] at * <;> simp [h]

theorem Flags.join_after (f o' : Flags) (t : Token) : (f.join o').after t = (f.after t).join (o'.after t) := by
  cases t <;> simp [Flags.after, Flags.join]

theorem Flags.join_after_skip (f o' : Flags) (t : Token) (h : f.wants t = false) :
    (f.join o').after t = f.join (o'.after t) := by
  cases t <;> simp only [Flags.wants] at h <;> simp [Flags.after, Flags.join, h]

end
end LolHtml.Model
