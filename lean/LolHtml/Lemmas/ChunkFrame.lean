import LolHtml.Lemmas.ChunkRel
/-!
Frames (`inpW = pre ++ inpS ++ post`), the abstract transfer function on validity flags, the
hypothesis on the sink operations (`OpsSim`) and small lemmas about the relations.
-/
namespace LolHtml.Model.Chunk
open LolHtml LolHtml.Model

/-- the whole run's input contains the split run's input at offset `δ` -/
structure Frame (inpS inpW : Bytes) (δ : Nat) : Prop where
  ex : ∃ pre post, pre.length = δ ∧ inpW = pre ++ inpS ++ post

/-- nothing follows the split input in the whole input -/
def Closed (inpS inpW : Bytes) (δ : Nat) : Prop := inpW.length = inpS.length + δ

section frame
variable {inpS inpW : Bytes} {δ : Nat}

theorem Frame.len (F : Frame inpS inpW δ) : inpS.length + δ ≤ inpW.length := by
  obtain ⟨pre, post, h1, h2⟩ := F.ex
  subst h2; simp; omega

theorem Frame.get (F : Frame inpS inpW δ) {i : Nat} (h : i < inpS.length) : inpW[i + δ]? = inpS[i]? := by
  obtain ⟨pre, post, h1, h2⟩ := F.ex
  subst h2 h1
  rw [List.append_assoc, List.getElem?_append_right (by omega)]
  rw [show i + pre.length - pre.length = i by omega, List.getElem?_append_left h]

theorem Frame.get_closed (F : Frame inpS inpW δ) (hc : Closed inpS inpW δ) (i : Nat) : inpW[i + δ]? = inpS[i]? := by
  by_cases h : i < inpS.length
  · exact F.get h
  · rw [List.getElem?_eq_none (by unfold Closed at hc; omega), List.getElem?_eq_none (by omega)]

theorem Frame.get' (F : Frame inpS inpW δ) {i : Nat} (h : i < inpS.length ∨ Closed inpS inpW δ) :
    inpW[i + δ]? = inpS[i]? := by
  rcases h with h | h
  · exact F.get h
  · exact F.get_closed h i

theorem slice_get {α : Type} (xs : List α) (s e i : Nat) :
    (LolHtml.slice xs s e)[i]? = if s + i < e then xs[s + i]? else none := by
  unfold LolHtml.slice
  rw [List.getElem?_drop, List.getElem?_take]

theorem Frame.slice (F : Frame inpS inpW δ) {s e : Nat} (h : e ≤ inpS.length) :
    LolHtml.slice inpW (s + δ) (e + δ) = LolHtml.slice inpS s e := by
  obtain ⟨pre, post, h1, h2⟩ := F.ex
  subst h2 h1
  apply List.ext_getElem?
  intro i
  rw [slice_get, slice_get]
  by_cases hi : s + i < e
  · rw [if_pos hi, if_pos (by omega), List.append_assoc, List.getElem?_append_right (by omega)]
    rw [show s + pre.length + i - pre.length = s + i by omega, List.getElem?_append_left (by omega)]
  · rw [if_neg hi, if_neg (by omega)]

theorem Frame.checkedSlice (F : Frame inpS inpW δ) {r : Range} {b : Bytes} (h : checkedSlice inpS r = some b) :
    checkedSlice inpW (shR δ r) = some b := by
  unfold Model.checkedSlice at *
  have hl := F.len
  split at h
  · rename_i hc
    simp only [Option.some.injEq] at h
    rw [if_pos (by simp only [shR]; omega)]
    simp only [shR, Option.some.injEq]
    rw [F.slice hc.2]; exact h
  · simp at h

theorem Frame.refl (inp : Bytes) : Frame inp inp 0 := ⟨[], [], rfl, by simp⟩

theorem Frame.prefix (a b : Bytes) : Frame a (a ++ b) 0 := ⟨[], b, rfl, by simp⟩

end frame
end LolHtml.Model.Chunk
