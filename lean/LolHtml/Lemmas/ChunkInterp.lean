import LolHtml.Lemmas.ChunkScan
import LolHtml.Lemmas.ChunkNextPos
import LolHtml.Lemmas.ChunkWf
/-!
The DSL interpreter: action lists, transitions, arm bodies.
-/
namespace LolHtml.Model.Chunk
open LolHtml LolHtml.Model

variable {κ : Type}

section
variable {env : Env κ} {inpS inpW : Bytes} {δ : Nat} {K : Nat → κ → κ → Prop} {Loc : κ → Nat → Nat → TextType → Prop}

/-- the split lexer's `lexeme_start` (0 for the tag scanner) -/
def lexStart : Regs → Nat
  | .lexer l => l.lexemeStart
  | .scanner _ => 0

/-- whenever an action of the list reads the byte under the cursor, that byte is inside the split input
(or the two inputs end together) -/
def CallsIn (inpS inpW : Bytes) (δ np : Nat) (cs : List Call) : Prop :=
  ∀ cl ∈ cs, readsInp cl.act = true → (np ≤ inpS.length ∨ Closed inpS inpW δ)

def BodyIn (inpS inpW : Bytes) (δ np : Nat) (b : Body) : Prop :=
  ∀ s ∈ b.seqs, CallsIn inpS inpW δ np s.calls

/-- the text debt can only be carried into an action list that starts by emitting text -/
def StartsWithText : List Call → Prop
  | cl :: _ => cl.act = .emitText ∨ cl.act = .emitTextAndEof
  | [] => False

theorem act_sim (F : Frame inpS inpW δ) (hops : OpsSim env.ops inpS inpW δ K Loc) (a : ActName) {d : Nat}
    {ab ab' : Ab} (habs : absAct a ab = some ab') {ms mw : M κ} (h : MRel δ d 0 ab .none ms mw)
    (hK : K d ms.x.sink mw.x.sink) (hloc : 0 < d → Loc ms.x.sink ms.x.prevConsumed (lexStart ms.r) ms.c.lastTextType)
    (hd : d = 0 ∨ a = .emitText ∨ a = .emitTextAndEof)
    (hin : readsInp a = true → (ms.c.nextPos ≤ inpS.length ∨ Closed inpS inpW δ)) :
    ActSim δ K ab' (qRequired a) (act env a inpS ms) (act env a inpW mw) := by
  obtain ⟨hc, hr, hsim, hpc⟩ := h
  unfold act
  cases hrs : ms.r with
  | lexer ls =>
    cases hrw : mw.r with
    | lexer lw =>
      rw [hrs, hrw] at hr
      exact lexAct_sim F hops a habs hc hr hsim hpc hK (by rw [hrs] at hloc; exact hloc) hd hin
    | scanner sw => rw [hrs, hrw] at hr; exact hr.elim
  | scanner ss =>
    cases hrw : mw.r with
    | lexer lw => rw [hrs, hrw] at hr; exact hr.elim
    | scanner sw =>
      rw [hrs, hrw] at hr
      obtain ⟨hd0, hs, hq1, hq2⟩ := hr
      subst hd0
      exact scanAct_sim F hops a habs ⟨hc, hs, hq1, hq2, hsim, hpc, hK⟩ hin

theorem cond_sim {ab : Ab} {d : Nat} {ms mw : M κ} (h : MRel δ d 0 ab .none ms mw) (cnd : Cond) :
    cond cnd mw = cond cnd ms := by
  obtain ⟨hc, hr, hsim, hpc⟩ := h
  unfold cond
  cases cnd with
  | cdataAllowed => simp only [hc.cdataAllowed]
  | isAppropriateEndTag =>
    cases hrs : ms.r with
    | lexer ls =>
      cases hrw : mw.r with
      | lexer lw =>
        rw [hrs, hrw] at hr
        have htag := (show LexRel δ d ab ms.c.nextPos ls lw from hr).tag
        simp only
        rcases optRel_cases htag with ⟨h1, h2⟩ | ⟨t, t', h1, h2, htr⟩
        · rw [h1, h2]
        · rw [h1, h2]
          obtain ⟨k1, k2, _, _, _, _⟩ := htr
          cases t <;> cases t' <;> simp only [TagOutline.isStart] at k1 <;> try cases k1
          · rfl
          · simp only [TagOutline.nameHash] at k2
            simp only [k2, hc.lastStartTagNameHash]
      | scanner sw => rw [hrs, hrw] at hr; exact hr.elim
    | scanner ss =>
      cases hrw : mw.r with
      | lexer lw => rw [hrs, hrw] at hr; exact hr.elim
      | scanner sw =>
        rw [hrs, hrw] at hr
        obtain ⟨_, hs, _, _⟩ := hr
        simp only [hs.hash, hc.lastStartTagNameHash]

/-- `action_list!` -/
theorem runCalls_sim (F : Frame inpS inpW δ) (hops : OpsSim env.ops inpS inpW δ K Loc) :
    ∀ (cs : List Call) {d : Nat} {ab ab' : Ab}, absCalls cs ab = some ab' → ∀ {ms mw : M κ},
    MRel δ d 0 ab .none ms mw → K d ms.x.sink mw.x.sink → (0 < d → Loc ms.x.sink ms.x.prevConsumed (lexStart ms.r) ms.c.lastTextType) →
    (d = 0 ∨ StartsWithText cs) →
    CallsIn inpS inpW δ ms.c.nextPos cs →
    ActSim δ K ab' true (runCalls env inpS cs ms) (runCalls env inpW cs mw) := by
  intro cs
  induction cs with
  | nil =>
    intro d ab ab' habs ms mw h hK _ hd _
    simp only [absCalls, Option.some.injEq] at habs; subst habs
    have hd0 : d = 0 := by rcases hd with h | h; exact h; exact h.elim
    subst hd0
    exact ActSim.ret h hK
  | cons cl cs ih =>
    intro d ab ab'' habs ms mw h hK hloc hd hin
    simp only [absCalls] at habs
    split at habs
    · cases habs
    · rename_i hq
      split at habs
      · cases habs
      · rename_i ab1 hab1
        have hd' : d = 0 ∨ cl.act = .emitText ∨ cl.act = .emitTextAndEof := by
          rcases hd with h | h
          · exact Or.inl h
          · exact Or.inr h
        have hact := act_sim F hops cl.act hab1 h hK hloc hd' (hin cl (List.mem_cons_self))
        have hfix := act_cfix (env := env) (inp := inpS) cl.act ms
        simp only [runCalls]
        rcases hact with ⟨hmust, hp⟩ | ⟨hs, hm, hdir⟩
        · -- split run panics; the call is written with `?`
          left
          refine ⟨rfl, ?_⟩
          have hclq : cl.q = true := by
            simp only [hmust, Bool.true_and, Bool.not_eq_true', Bool.not_eq_false] at hq; exact hq
          revert hp
          cases (act env cl.act inpS ms).2 with
          | none => intro hp; exact hp.elim
          | some s => intro hp; simp only [hclq, if_true]; exact hp
        · have hcont : ∀ (_ : (act env cl.act inpS ms).2 = none ∨ qRequired cl.act = false),
              ActSim δ K ab'' true (runCalls env inpS cs (act env cl.act inpS ms).1)
                (runCalls env inpW cs (act env cl.act inpW mw).1) := by
            intro hh
            obtain ⟨h1, h2⟩ := hm hh
            exact ih habs h1 h2 (fun hh => absurd hh (Nat.lt_irrefl 0)) (Or.inl rfl)
              (by rw [hfix.1]; exact fun c hc => hin c (List.mem_cons_of_mem _ hc))
          cases hrs : (act env cl.act inpS ms).2 with
          | none =>
            rw [hrs] at hs
            rw [hs.none_left]
            exact hcont (Or.inl hrs)
          | some s =>
            rw [hrs] at hs
            cases hrw : (act env cl.act inpW mw).2 with
            | none => rw [hrw] at hs; cases hs.none_right
            | some s' =>
              rw [hrw] at hs
              simp only
              by_cases hclq : cl.q = true
              · simp only [hclq, if_true]
                exact Or.inr ⟨hs, (fun hh => by rcases hh with hh | hh <;> cases hh),
                  fun dr bm hh => hdir dr bm (by rw [hrs]; exact hh)⟩
              · simp only [hclq]
                have hnq : qRequired cl.act = false := by
                  cases hqr : qRequired cl.act
                  · rfl
                  · simp [hqr, hclq] at hq
                exact hcont (Or.inr hnq)

theorem RegsRel.weaken {d np : Nat} {ab ab' : Ab} {sm : SeqMode} {rs rw : Regs}
    (h : RegsRel δ d ab sm np rs rw) (hle : ab'.le ab = true) : RegsRel δ d ab' sm np rs rw := by
  cases rs <;> cases rw
  · exact LexRel.weaken h hle
  · exact h
  · exact h
  · exact ⟨h.1, h.2.1.weaken hle, h.2.2⟩

theorem MRel.weaken {d skip : Nat} {ab ab' : Ab} {sm : SeqMode} {ms mw : M κ}
    (h : MRel δ d skip ab sm ms mw) (hle : ab'.le ab = true) : MRel δ d skip ab' sm ms mw :=
  ⟨h.c, h.r.weaken hle, h.sim, h.pc⟩

theorem textState_mem (t : Table) (tt : TextType) : t.textState tt ∈ textStates t := by
  cases tt <;> simp [Table.textState, textStates]

/-- outcome of an arm body in the two runs -/
def BodySim (δ : Nat) (K : Nat → κ → κ → Prop) (fs : FlagMap) (st : StateId) (loops : Bool) (c0 : Common)
    (rs rw : M κ × Option Signal × SeqEnd) : Prop :=
  SPanic rs.2.1 ∨ (SigRel δ 0 rs.2.1 rw.2.1 ∧ rw.2.2 = rs.2.2 ∧ DirOk δ K (rs.1, rs.2.1) (rw.1, rw.2.1) ∧ (rs.2.1 = none →
    K 0 rs.1.x.sink rw.1.x.sink ∧
    match rs.2.2 with
    | .transitioned => MRel δ 0 0 (fs rs.1.c.state).1 .none rs.1 rw.1 ∧ rs.1.c.entered = false
    | .fell => CFix c0 rs.1.c ∧ ∃ ab'', MRel δ 0 0 ab'' .none rs.1 rw.1 ∧
        (loops = true → (fs st).2.le ab'' = true) ∧ (loops = false → ab''.P = true)))

/-- `reconsume`: un-consume one byte -/
theorem RegsRel.unconsume {np : Nat} {ab ab' : Ab} {rs rw : Regs} (h : RegsRel δ 0 ab .none np rs rw)
    (hP : ab.P = true) (hle : ab'.le ab = true) (hP' : ab'.P = false) :
    RegsRel δ 0 ab' .none (np - 1) rs rw := by
  cases rs <;> cases rw
  · have hl : LexRel δ 0 ab np _ _ := h
    have h2 := hl.weaken hle
    have := hl.p hP
    have hN : ab'.N = true → ab.N = true := ((Ab.le_iff ab' ab).mp hle).2.2.2.2.2.1
    exact { h2 with ls_le := by omega, p := (fun g => by rw [hP'] at g; cases g), ntu := (fun g => hl.ntp (hN g) hP), ntp := (fun _ g => by rw [hP'] at g; cases g) }
  · exact h
  · exact h
  · obtain ⟨h1, h2, h3⟩ := h
    have h4 := h2.weaken hle
    have hp := h2.p hP
    refine ⟨h1, { h4 with ts_le := fun t ht => ?_, p := fun g => by rw [hP'] at g; cases g }, h3⟩
    have := hp.2 t ht
    omega

theorem MRel.goto {d : Nat} {ab : Ab} {ms mw : M κ} (h : MRel δ d 0 ab .none ms mw) (tg tg' : StateId)
    (e : tg' = tg) :
    MRel δ d 0 ab .none { ms with c := { ms.c with state := tg, entered := false } }
      { mw with c := { mw.c with state := tg', entered := false } } :=
  ⟨{ h.c with state := e, entered := rfl }, h.r, h.sim, h.pc⟩

theorem runSeq_some {inp : Bytes} {s : ActSeq} {m : M κ} {sg : Signal}
    (h : (runCalls env inp s.calls m).2 = some sg) :
    runSeq env inp s m = ((runCalls env inp s.calls m).1, some sg, .fell) := by
  unfold runSeq; simp only [h]

theorem runSeq_none_none {inp : Bytes} {s : ActSeq} {m : M κ}
    (h : (runCalls env inp s.calls m).2 = none) (ht : s.trans = none) :
    runSeq env inp s m = ((runCalls env inp s.calls m).1, none, .fell) := by
  unfold runSeq; simp only [h, ht]

theorem runSeq_none_some {inp : Bytes} {s : ActSeq} {m : M κ} {t : Trans}
    (h : (runCalls env inp s.calls m).2 = none) (ht : s.trans = some t) :
    runSeq env inp s m = ((applyTrans env t (runCalls env inp s.calls m).1).1,
      (applyTrans env t (runCalls env inp s.calls m).1).2, .transitioned) := by
  unfold runSeq; simp only [h, ht]

theorem runSeq_sim (F : Frame inpS inpW δ) (hops : OpsSim env.ops inpS inpW δ K Loc) (fs : FlagMap) (st : StateId)
    (loops : Bool) (s : ActSeq) {d : Nat} {ab : Ab} (hok : seqOk env.tbl fs st ab loops s = true)
    {ms mw : M κ}
    (h : MRel δ d 0 ab .none ms mw) (hK : K d ms.x.sink mw.x.sink) (hloc : 0 < d → Loc ms.x.sink ms.x.prevConsumed (lexStart ms.r) ms.c.lastTextType)
    (hd : d = 0 ∨ StartsWithText s.calls)
    (hin : CallsIn inpS inpW δ ms.c.nextPos s.calls) :
    BodySim δ K fs st loops ms.c (runSeq env inpS s ms) (runSeq env inpW s mw) := by
  unfold seqOk at hok
  split at hok
  · cases hok
  · rename_i ab' habs
    have hrc := runCalls_sim F hops s.calls habs h hK hloc hd hin
    have hfix := runCalls_cfix (env := env) (inp := inpS) s.calls ms
    rcases hrc with ⟨_, hp⟩ | ⟨hs, hm, hdir⟩
    · left
      cases hrs : (runCalls env inpS s.calls ms).2 with
      | none => rw [hrs] at hp; exact hp.elim
      | some sg => rw [hrs] at hp; rw [runSeq_some hrs]; exact hp
    · cases hrs : (runCalls env inpS s.calls ms).2 with
      | some sg =>
        rw [hrs] at hs
        cases hrw : (runCalls env inpW s.calls mw).2 with
        | none => rw [hrw] at hs; cases hs.none_right
        | some sg' =>
          rw [hrw] at hs
          rw [runSeq_some hrs, runSeq_some hrw]
          exact Or.inr ⟨hs, rfl, (fun dr bm hh => hdir dr bm (by rw [hrs]; exact hh)), fun hh => by cases hh⟩
      | none =>
        rw [hrs] at hs
        have hrw := hs.none_left
        obtain ⟨hm1, hk1⟩ := hm (Or.inl hrs)
        cases htr : s.trans with
        | none =>
          rw [htr] at hok
          rw [runSeq_none_none hrs htr, runSeq_none_none hrw htr]
          refine Or.inr ⟨trivial, rfl, (fun _ _ hh => by cases hh), fun _ => ⟨hk1, hfix, ab', hm1, fun hl => ?_, fun hl => ?_⟩⟩
          · simpa [hl] using hok
          · simpa [hl] using hok
        | some t =>
          rw [htr] at hok
          rw [runSeq_none_some hrs htr, runSeq_none_some hrw htr]
          cases t with
          | goto tg =>
            simp only [transTargets, List.all_cons, List.all_nil, Bool.and_true] at hok
            refine Or.inr ⟨trivial, rfl, (fun _ _ hh => by cases hh), fun _ => ⟨hk1, ?_, rfl⟩⟩
            exact (hm1.goto tg tg rfl).weaken hok
          | gotoDyn =>
            simp only [transTargets, List.all_eq_true] at hok
            refine Or.inr ⟨trivial, rfl, (fun _ _ hh => by cases hh), fun _ => ⟨hk1, ?_, rfl⟩⟩
            have := hok _ (textState_mem env.tbl (runCalls env inpS s.calls ms).1.c.lastTextType)
            simp only [applyTrans]
            exact (hm1.goto _ _ (by rw [hm1.c.lastTextType])).weaken this
          | reconsume tg =>
            simp only [Bool.and_eq_true, Bool.not_eq_true'] at hok
            obtain ⟨⟨hP, hfsP⟩, hle⟩ := hok
            simp only [applyTrans]
            have hnp := hm1.c.nextPos
            by_cases h0 : (runCalls env inpS s.calls ms).1.c.nextPos = 0
            · rw [if_pos h0]; exact Or.inl trivial
            · rw [if_neg h0, if_neg (by omega)]
              refine Or.inr ⟨trivial, rfl, (fun _ _ hh => by cases hh), fun _ => ⟨hk1, ⟨{ hm1.c with state := rfl, entered := rfl, nextPos := ?_ }, ?_, hm1.sim, hm1.pc⟩, rfl⟩⟩
              · show (runCalls env inpW s.calls mw).1.c.nextPos - 1 + 0 = (runCalls env inpS s.calls ms).1.c.nextPos - 1 + δ
                omega
              · exact hm1.r.unconsume hP hle hfsP

theorem runBody_sim (F : Frame inpS inpW δ) (hops : OpsSim env.ops inpS inpW δ K Loc) (fs : FlagMap) (st : StateId)
    (loops : Bool) (b : Body) {d : Nat} {ab : Ab} (hok : bodyOk env.tbl fs st ab loops b = true)
    {ms mw : M κ}
    (h : MRel δ d 0 ab .none ms mw) (hK : K d ms.x.sink mw.x.sink) (hloc : 0 < d → Loc ms.x.sink ms.x.prevConsumed (lexStart ms.r) ms.c.lastTextType)
    (hd : d = 0 ∨ ∃ s, b = .seq s ∧ StartsWithText s.calls)
    (hin : BodyIn inpS inpW δ ms.c.nextPos b) :
    BodySim δ K fs st loops ms.c (runBody env inpS b ms) (runBody env inpW b mw) := by
  cases b with
  | seq s =>
    refine runSeq_sim F hops fs st loops s hok h hK hloc ?_ (hin s (by simp [Body.seqs]))
    rcases hd with hd | ⟨s', hs', hst⟩
    · exact Or.inl hd
    · cases hs'; exact Or.inr hst
  | ite cnd t e =>
    have hd0 : d = 0 := by
      rcases hd with hd | ⟨s', hs', _⟩
      · exact hd
      · cases hs'
    subst hd0
    simp only [bodyOk, Bool.and_eq_true] at hok
    simp only [runBody]
    rw [cond_sim h cnd]
    cases cond cnd ms with
    | none => exact Or.inl trivial
    | some bb =>
      cases bb
      · exact runSeq_sim F hops fs st loops e hok.2 h hK hloc (Or.inl rfl) (hin e (by simp [Body.seqs]))
      · exact runSeq_sim F hops fs st loops t hok.1 h hK hloc (Or.inl rfl) (hin t (by simp [Body.seqs]))

end
end LolHtml.Model.Chunk
