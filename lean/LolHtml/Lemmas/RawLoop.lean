import LolHtml.Lemmas.RawStep
/-!
# Attribute raw ranges: the state function and the parsing loop keep the certificate invariant
(the structure of `Lemmas/TokLoop.lean`)
-/
set_option linter.unusedSimpArgs false
set_option linter.unusedVariables false
namespace LolHtml.Model

variable {κ : Type}

section
variable {env : Env κ} {inp : Bytes} {W : κ → Nat} {lo : Nat}

theorem enterRaw_some {sd : StateDef} {a a0 : RV} (h : enterRaw sd a = some a0) :
    ∃ f', rawCalls false sd.enter (true, a) = some (f', a0) := by
  unfold enterRaw at h
  cases hc : rawCalls false sd.enter (true, a) with
  | none => rw [hc] at h; cases h
  | some fa =>
    rw [hc] at h
    simp only [Option.map_some, Option.some.injEq] at h
    exact ⟨fa.1, by rw [← h]⟩

theorem enterPhase_raw {cert : RCert} (hs : SinkSafe env.ops W inp U1) (hs3 : SinkSafe3 env.ops inp) {sd : StateDef}
    (m : M κ) (hst : env.tbl.state? m.c.state = some sd)
    (hm : MInvB env.tbl inp.length (W m.x.sink) lo m) (htb : RawB env.tbl cert m) :
    (∀ e, (enterPhase env inp sd m).2 = some (.err e) → ErrNot T3 e) ∧
    ((enterPhase env inp sd m).2 = none →
      ∃ a, RawM a m.c.nextPos (enterPhase env inp sd m).1 ∧ rcovered (cert.at m.c.state) a = true) := by
  obtain ⟨a, sd', hsd', ht, hcond⟩ := htb
  rw [hst] at hsd'
  simp only [Option.some.injEq] at hsd'
  subst hsd'
  obtain ⟨b1, b2, sd', hsd', b3⟩ := hm
  rw [hst] at hsd'
  simp only [Option.some.injEq] at hsd'
  subst hsd'
  unfold enterPhase
  split
  · rename_i hcond'
    have hpend : enterPending sd m.c = true := hcond'
    rw [hpend] at hcond
    simp only [if_true] at hcond
    unfold rsuccCovered at hcond
    simp only [if_true] at hcond
    have hst2 : env.tbl.states[m.c.state]? = some sd := hst
    rw [hst2] at hcond
    dsimp only at hcond
    split at hcond
    · cases hcond
    · rename_i a0 ha0
      obtain ⟨f', hcalls⟩ := enterRaw_some ha0
      simp only [Bool.and_eq_true, Bool.not_eq_true'] at hcond'
      have hres : seqResume sd m.c = false := by
        simp only [seqResume, hcond'.1, hcond'.2, Bool.or_false, Bool.and_false]
      rw [hres] at b3
      have hA : MInvA W inp.length lo false true { m with c := { m.c with nextPos := m.c.nextPos + 1 } } := by
        refine ⟨by dsimp only; omega, by dsimp only; omega, by dsimp only; omega, fun h => (by cases h), ?_⟩
        dsimp only
        cases hr : m.r with
        | lexer l => rw [hr] at b3; simp only [RegsB, RegsA] at b3 ⊢; refine ⟨b3.1, by omega, fun _ => by omega⟩
        | scanner s =>
          rw [hr] at b3
          simp only [RegsB, RegsA] at b3 ⊢
          refine ⟨by omega, fun p hp => by have := b3.2.1 p hp; omega, ?_⟩
          rcases b3.2.2 with h | h
          · exact h
          · cases h
      have rc := runCalls_raw (pos := m.c.nextPos) hs hs3 sd.enter
        { m with c := { m.c with nextPos := m.c.nextPos + 1 } } hA (by dsimp only; omega)
        (RawM_regs ht rfl) hcalls
      dsimp only
      split
      · rename_i sig hsig
        refine ⟨fun e h => ?_, fun h => by cases h⟩
        simp only [Option.some.injEq] at h
        subst h
        exact rc.2 e hsig
      · rename_i hnone
        refine ⟨fun e h => (by cases h), fun _ => ⟨a0, RawM_regs (rc.1 hnone) rfl, hcond⟩⟩
  · rename_i hcond'
    have hpend : enterPending sd m.c = false := by
      simpa [enterPending] using hcond'
    rw [hpend] at hcond
    simp only [Bool.false_eq_true, if_false] at hcond
    exact ⟨fun e h => (by cases h), fun _ => ⟨a, ht, hcond⟩⟩

theorem consumePhase_raw {cert : RCert} (hchk : checkRaw env.tbl cert = true) (hs : SinkSafe env.ops W inp U1)
    (hs3 : SinkSafe3 env.ops inp) (hw : Wf env.tbl) {sd : StateDef} (m : M κ)
    (hst : env.tbl.state? m.c.state = some sd) (hm : MInvB env.tbl inp.length (W m.x.sink) lo m)
    (hent : (sd.enter.isEmpty || m.c.entered) = true) {a : RV} (ht : RawM a m.c.nextPos m)
    (hcov : rcovered (cert.at m.c.state) a = true) :
    RawStepP env.tbl cert (consumePhase env inp sd m) := by
  obtain ⟨b1, b2, sd', hsd', b3⟩ := hm
  rw [hst] at hsd'
  simp only [Option.some.injEq] at hsd'
  subst hsd'
  have hC : ∀ (N' : Nat) (ch : Option UInt8), m.c.nextPos + 1 ≤ N' → N' - 1 ≤ inp.length →
      (ch.isSome = true → N' - 1 < inp.length) → (ch = none → N' - 1 = inp.length) →
      MInvC W inp.length lo m.c.nextPos ch (hasSeqArm sd.arms) { m with c := { m.c with nextPos := N' } } := by
    intro N' ch h1 h2 h3 h4
    refine ⟨by dsimp only; omega, by dsimp only; omega, by dsimp only; omega, h2, h3, h4, ?_⟩
    dsimp only
    cases hr : m.r with
    | lexer l => rw [hr] at b3; simp only [RegsB, RegsC] at b3 ⊢; omega
    | scanner s =>
      rw [hr] at b3
      simp only [RegsB, RegsC] at b3 ⊢
      refine ⟨by omega, fun p hp => by have := b3.2.1 p hp; omega, ?_⟩
      rcases b3.2.2 with h | h
      · exact Or.inl h
      · right
        simp only [seqResume, Bool.and_eq_true] at h
        exact h.1
  have hT : ∀ (N' : Nat), m.c.nextPos + 1 ≤ N' →
      RawM a (({ m with c := { m.c with nextPos := N' } } : M κ).c.nextPos - 1) { m with c := { m.c with nextPos := N' } } := by
    intro N' h1
    exact RawM_regs (RawR.mono ht (by dsimp only; omega)) rfl
  unfold consumePhase
  split
  · rename_i needle _
    dsimp only
    split
    · rename_i p hp
      have hlt := findByte_lt hp
      simp only [List.length_drop] at hlt
      exact dispatch_raw (n0 := m.c.nextPos) hchk hs hs3 hw (some needle) _ hst hent
        (hC _ _ (by omega) (by omega) (fun _ => by omega) (fun h => by cases h)) hcov (hT _ (by omega))
    · simp only [List.length_drop]
      exact dispatch_raw (n0 := m.c.nextPos) hchk hs hs3 hw none _ hst hent
        (hC _ _ (by omega) (by omega) (fun h => by cases h) (fun _ => by omega)) hcov (hT _ (by omega))
  · dsimp only
    cases hch : inp[m.c.nextPos]? with
    | some x =>
      have hlt : m.c.nextPos < inp.length := by
        rcases Nat.lt_or_ge m.c.nextPos inp.length with h | h
        · exact h
        · rw [List.getElem?_eq_none h] at hch; cases hch
      exact dispatch_raw (n0 := m.c.nextPos) hchk hs hs3 hw (some x) _ hst hent
        (hC _ _ (by omega) (by omega) (fun _ => by omega) (fun h => by cases h)) hcov (hT _ (by omega))
    | none =>
      have hge : inp.length ≤ m.c.nextPos := by
        rcases Nat.lt_or_ge m.c.nextPos inp.length with h | h
        · rw [List.getElem?_eq_getElem h] at hch; cases hch
        · exact h
      exact dispatch_raw (n0 := m.c.nextPos) hchk hs hs3 hw none _ hst hent
        (hC _ _ (by omega) (by omega) (fun h => by cases h) (fun _ => by omega)) hcov (hT _ (by omega))

/-- **One invocation of a state function keeps the certificate invariant.** -/
theorem stateFn_raw {cert : RCert} (hchk : checkRaw env.tbl cert = true) (hs : SinkSafe env.ops W inp U1)
    (hs3 : SinkSafe3 env.ops inp) (hw : Wf env.tbl) (m : M κ)
    (hm : MInvB env.tbl inp.length (W m.x.sink) lo m) (htb : RawB env.tbl cert m) :
    RawStepP env.tbl cert (stateFn env inp m) := by
  rw [stateFn_eq]
  have hm' := hm
  obtain ⟨_, _, sd, hst, _⟩ := hm'
  rw [hst]
  dsimp only
  obtain ⟨e1, e2⟩ := enterPhase_post hs hw m hst hm
  obtain ⟨t2, t3⟩ := enterPhase_raw (cert := cert) hs hs3 m hst hm htb
  split
  · rename_i sig hsig
    unfold RawStepP
    dsimp only
    cases sig with
    | err e => exact t2 e hsig
    | directive d bm => trivial
    | endOfInput k => exact absurd (e1 _ hsig) (by simp [ActSigOK])
  · rename_i hnone
    obtain ⟨i1, i2, i3, i4⟩ := e2 hnone
    obtain ⟨a, ta, hcov⟩ := t3 hnone
    exact consumePhase_raw hchk hs hs3 hw (enterPhase env inp sd m).1 (by rw [i3]; exact hst) i1 i4
      (by rw [i2]; exact ta) (by rw [i3]; exact hcov)

/-- raw-range specification of the parsing loop -/
def LoopRaw (t : Table) (cert : RCert) (r : M κ × Signal) : Prop :=
  match r.2 with
  | .err e => ErrNot T3 e
  | .endOfInput _ => r.1.c.isLast = false → RawB t cert r.1
  | .directive _ _ => True

theorem runLoop_raw {cert : RCert} (hchk : checkRaw env.tbl cert = true) (hs : SinkSafe env.ops W inp U1)
    (hs3 : SinkSafe3 env.ops inp) (hw : Wf env.tbl) (fuel : Nat) (m : M κ)
    (hm : MInvB env.tbl inp.length (W m.x.sink) lo m) (htb : RawB env.tbl cert m)
    (hfuel : mu env.tbl inp.length m < fuel) :
    LoopRaw env.tbl cert (runLoop env inp fuel m) := by
  induction fuel generalizing m with
  | zero => omega
  | succ n ih =>
    simp only [runLoop]
    have h1 := stateFn_post hs hw m hm
    have t1 := stateFn_raw hchk hs hs3 hw m hm htb
    unfold StepPost at h1
    unfold RawStepP at t1
    split
    · rename_i sig hsig
      rw [hsig] at t1
      unfold LoopRaw
      cases sig with
      | err e => exact t1
      | directive d bm => trivial
      | endOfInput k => exact t1
    · rename_i hnone
      rw [hnone] at h1 t1
      obtain ⟨hB, hP⟩ := h1
      have := mu_decrease hw hB.2.1 hP
      exact ih _ hB t1 (by omega)

end
end LolHtml.Model
