import LolHtml.Lemmas.Locations
import LolHtml.Lemmas.PreserveOk
import LolHtml.Lemmas.StreamLocations
/-!
The location invariant without the assumption that handlers succeed: a successful sink operation
keeps `LInv`; a failing one (handler error, bounds assertion) leaves at least the ordering of the
tokens handed over so far — and, every sink-calling action being written with `?` (`EmitsChecked`),
nothing is handed over after it.
-/
namespace LolHtml.Model

variable {γ : Type}

/-- handlers never switch emission off (no element content removal) -/
def NoRemoval (ctl : Controller γ) : Prop := ∀ g, ctl.shouldEmit g = true

/-- the log is ordered whatever happened; `Q` holds if the step succeeded -/
def GoodD {α : Type} (log : γ → List Token) (Q : Disp γ → Prop) (r : DRes γ α) : Prop :=
  Ordered (log r.1.ctl) ∧ ∀ a, r.2 = .ok a → Q r.1

theorem GoodD.bind {α β : Type} {log : γ → List Token} {Q Q' : Disp γ → Prop} {r : DRes γ α}
    {f : Disp γ → α → DRes γ β} (hr : GoodD log Q r) (hf : ∀ d a, Q d → GoodD log Q' (f d a)) :
    GoodD log Q' (DRes.bind r f) := by
  unfold DRes.bind
  split
  · rename_i e he
    exact ⟨hr.1, fun a ha => by simp at ha⟩
  · rename_i a ha
    exact hf _ _ (hr.2 a ha)

section
variable {ctl : Controller γ} {log : γ → List Token} {pc : Nat} {inp : Bytes}

theorem GoodD.of_inv {α : Type} {Q : Disp γ → Prop} {r : DRes γ α} (h : LInv log pc r.1) (hq : Q r.1) :
    GoodD log Q r := ⟨h.ordered, fun _ _ => hq⟩

theorem emitToken_good (hlog : Logging ctl log) (d : Disp γ) (raw : Range) (tok : Token)
    (hsrc : tok.src = srcOf pc raw) (hraw : raw.start ≤ raw.end) (hnp : d.textPending = false) (h : LInv log pc d) :
    GoodD log (fun d' => LInv log pc d' ∧ d'.textPending = false) (d.emitToken ctl inp raw tok) := by
  unfold Disp.emitToken
  cases he : d.emitChunkBefore inp raw with
  | error e => exact ⟨by simpa [DRes.ofExcept, DRes.bind] using h.ordered, fun a ha => by simp [DRes.ofExcept, DRes.bind] at ha⟩
  | ok d1 =>
    obtain ⟨hd1, hrcs, hle, htp, hctl, _⟩ := emitChunkBefore_LInv h he
    simp only [DRes.ofExcept, DRes.bind]
    obtain ⟨t1, t2, t3, t4, t5⟩ := tokenProduced_log hlog d1 tok
    have hsrc1 : tok.src.start = pc + raw.start := by rw [hsrc]; rfl
    have hsrc2 : tok.src.end = pc + raw.end := by rw [hsrc]; rfl
    have hord : Ordered (log (Disp.tokenProduced ctl d1 tok).1.ctl) := by
      rw [t1]
      apply hd1.ordered.append (by omega)
      intro a ha
      have := hd1.below a ha
      omega
    cases hres : (Disp.tokenProduced ctl d1 tok).2 with
    | error e => exact ⟨hord, fun a ha => by simp at ha⟩
    | ok u =>
      simp only
      have hfe : ∀ d0 : Disp γ, d0.flushEncodingChange.ctl = d0.ctl ∧ d0.flushEncodingChange.rcs = d0.rcs ∧
          d0.flushEncodingChange.textPending = d0.textPending ∧ d0.flushEncodingChange.textPendingStart = d0.textPendingStart ∧
          d0.flushEncodingChange.emissionEnabled = d0.emissionEnabled := by
        intro d0; unfold Disp.flushEncodingChange; (repeat' split) <;> simp
      obtain ⟨f1, f2, f3, f4, f5⟩ := hfe { Disp.tokenProduced ctl d1 tok |>.1 with rcs := raw.end }
      have hfinal : LInv log pc ({ Disp.tokenProduced ctl d1 tok |>.1 with rcs := raw.end }).flushEncodingChange := by
        refine ⟨?_, ?_, ?_, ?_⟩
        · rw [f1]; exact hord
        · intro a ha
          rw [f1] at ha
          simp only at ha
          rw [t1] at ha
          rw [f2]
          simp only
          rcases List.mem_append.mp ha with h1 | h1
          · have := hd1.below a h1; omega
          · simp only [List.mem_singleton] at h1; subst h1; omega
        · intro hp
          rw [f3] at hp
          simp only at hp
          rw [t3, htp, hnp] at hp
          simp at hp
        · rw [f5]; simp only; rw [t5]; exact hd1.emission
      exact ⟨hfinal.ordered, fun _ _ => ⟨hfinal, by rw [f3]; simp only; rw [t3, htp, hnp]⟩⟩

theorem produceTag_good (hlog : Logging ctl log) (d : Disp γ) (lx : TagLexeme)
    (hpc : lx.prevConsumed = pc) (hnp : d.textPending = false) (h : LInv log pc d) :
    GoodD log (fun d' => LInv log pc d' ∧ d'.textPending = false) (d.produceTag ctl inp lx) := by
  unfold Disp.produceTag
  split
  · exact GoodD.of_inv h ⟨h, hnp⟩
  · rename_i ft hft
    split
    · exact GoodD.of_inv (h.frame rfl rfl rfl rfl rfl) ⟨h.frame rfl rfl rfl rfl rfl, hnp⟩
    · rename_i tok htok
      have hsrc := tagToToken_src (inp := inp) (f := d.flags) (f' := ft.1) (lx := lx) (tok := tok) (by rw [hft, ← htok])
      rw [hpc] at hsrc
      exact emitToken_good hlog { d with flags := ft.1 } lx.raw tok hsrc.1 hsrc.2.1 hnp (h.frame rfl rfl rfl rfl rfl)

theorem produceText_good (hlog : Logging ctl log) (d : Disp γ) (lx : NonTagLexeme) (tt : TextType)
    (hpc : lx.prevConsumed = pc) (h : LInv log pc d) : GoodD log (LInv log pc) (d.produceText ctl inp lx tt) := by
  subst hpc
  unfold Disp.produceText
  split
  · exact GoodD.of_inv h h
  · rename_i rawb hraw
    obtain ⟨r1, r2, _⟩ := checkedSlice_some hraw
    cases he : d.emitChunkBefore inp lx.raw with
    | error e => exact ⟨by simpa [DRes.ofExcept, DRes.bind] using h.ordered, fun a ha => by simp [DRes.ofExcept, DRes.bind] at ha⟩
    | ok d1 =>
      obtain ⟨hd1, hrcs, hle, htp, hctl, _⟩ := emitChunkBefore_LInv h he
      simp only [DRes.ofExcept, DRes.bind]
      obtain ⟨t1, t2, t3, t4, t5⟩ := tokenProduced_log hlog { d1 with lastTextType := tt }
        (.text rawb tt false (srcOf lx.prevConsumed lx.raw))
      have hs1 : (Token.text rawb tt false (srcOf lx.prevConsumed lx.raw)).src.start = lx.prevConsumed + lx.raw.start := rfl
      have hs2 : (Token.text rawb tt false (srcOf lx.prevConsumed lx.raw)).src.end = lx.prevConsumed + lx.raw.end := rfl
      have hord : Ordered (log (Disp.tokenProduced ctl { d1 with lastTextType := tt }
          (.text rawb tt false (srcOf lx.prevConsumed lx.raw))).1.ctl) := by
        rw [t1]
        apply hd1.ordered.append (by omega)
        intro a ha
        have := hd1.below a ha
        omega
      cases hres : (Disp.tokenProduced ctl { d1 with lastTextType := tt } (.text rawb tt false (srcOf lx.prevConsumed lx.raw))).2 with
      | error e => exact ⟨hord, fun a ha => by simp at ha⟩
      | ok u =>
        simp only
        have hbelow : ∀ a ∈ log d1.ctl ++ [Token.text rawb tt false (srcOf lx.prevConsumed lx.raw)],
            a.src.end ≤ lx.prevConsumed + lx.raw.end := by
          intro a ha
          rcases List.mem_append.mp ha with h1 | h1
          · have := hd1.below a h1; omega
          · simp only [List.mem_singleton] at h1; subst h1; omega
        have hfinal : LInv log lx.prevConsumed
            { (Disp.tokenProduced ctl { d1 with lastTextType := tt } (.text rawb tt false (srcOf lx.prevConsumed lx.raw))).1 with
              textPending := true, textPendingStart := lx.prevConsumed + lx.raw.end, rcs := lx.raw.end } := by
          refine ⟨hord, ?_, ?_, ?_⟩
          · simp only; rw [t1]; exact hbelow
          · intro _
            simp only
            rw [t1]
            exact ⟨Nat.le_refl _, hbelow⟩
          · simp only; rw [t5]; exact hd1.emission
        exact ⟨hfinal.ordered, fun _ _ => hfinal⟩

theorem produceNonTag_good (hlog : Logging ctl log) (d : Disp γ) (lx : NonTagLexeme)
    (hpc : lx.prevConsumed = pc) (hnp : lx.isText = false → d.textPending = false) (h : LInv log pc d) :
    GoodD log (LInv log pc) (d.produceNonTag ctl inp lx) := by
  unfold Disp.produceNonTag
  split
  · split
    · exact produceText_good hlog d lx _ hpc h
    · exact GoodD.of_inv h h
  · rename_i hnt
    have hnt' : lx.isText = false := by
      unfold NonTagLexeme.isText
      split
      · rename_i tt' heq; exact absurd heq (hnt tt')
      · rfl
    split
    · exact GoodD.of_inv h h
    · exact GoodD.of_inv h h
    · rename_i tok htok
      have hsrc := nonTagToToken_src htok
      rw [hpc] at hsrc
      have := emitToken_good (inp := inp) hlog d lx.raw tok hsrc.1 hsrc.2.1 (hnp hnt') h
      exact ⟨this.1, fun a ha => (this.2 a ha).1⟩

theorem flushPendingText_good (hlog : Logging ctl log) (d : Disp γ) (h : LInv log pc d) :
    GoodD log (fun d' => LInv log pc d' ∧ d'.textPending = false) (d.flushPendingText ctl) := by
  obtain ⟨h1, h2, _⟩ := flushPendingText_LInv hlog d h
  exact GoodD.of_inv h1 ⟨h1, h2⟩

theorem handleTag_good (hlog : Logging ctl log) (hnr : NoRemoval ctl) (lx : TagLexeme) (d : Disp γ)
    (hpc : lx.prevConsumed = pc) (h : LInv log pc d) : GoodD log (LInv log pc) (Disp.handleTag ctl inp lx d) := by
  unfold Disp.handleTag
  apply (flushPendingText_good hlog d h).bind
  intro d1 _ ⟨hd1, hp1⟩
  apply GoodD.bind (Q := fun d' => LInv log pc d' ∧ d'.textPending = false)
  · split
    · exact GoodD.of_inv (hd1.frame rfl rfl rfl rfl rfl) ⟨hd1.frame rfl rfl rfl rfl rfl, hp1⟩
    · obtain ⟨a, b, c, e, f⟩ := adjustFlagsForTag_LFrame (inp := inp) hlog d1 lx
      exact GoodD.of_inv (hd1.frame a b c e f) ⟨hd1.frame a b c e f, by rw [c]; exact hp1⟩
  · intro d2 _ ⟨hd2, hp2⟩
    have hres : d2.resumeEmission ctl lx = d2 := by
      unfold Disp.resumeEmission
      rw [if_neg]
      simp [Disp.shouldStopRemoving, hd2.emission]
    rw [hres]
    apply (produceTag_good (inp := inp) hlog d2 lx hpc hp2 hd2).bind
    intro d3 _ ⟨hd3, _⟩
    have : LInv log pc { d3 with emissionEnabled := ctl.shouldEmit d3.ctl } :=
      hd3.frame rfl rfl rfl rfl (by simp [hnr d3.ctl, hd3.emission])
    exact GoodD.of_inv this this

theorem handleNonTag_good (hlog : Logging ctl log) (lx : NonTagLexeme) (d : Disp γ)
    (hpc : lx.prevConsumed = pc) (h : LInv log pc d) : GoodD log (LInv log pc) (Disp.handleNonTag ctl inp lx d) := by
  unfold Disp.handleNonTag
  apply GoodD.bind (Q := fun d' => LInv log pc d' ∧ (lx.isText = false → d'.textPending = false))
  · split
    · rename_i ht
      exact GoodD.of_inv h ⟨h, fun hf => by rw [ht] at hf; simp at hf⟩
    · have := flushPendingText_good hlog d h
      exact ⟨this.1, fun a ha => ⟨(this.2 a ha).1, fun _ => (this.2 a ha).2⟩⟩
  · intro d1 _ ⟨hd1, hp1⟩
    exact produceNonTag_good hlog d1 lx hpc hp1 hd1

/-- The dispatcher's sink operations: `LInv` on success, the log still ordered on failure. -/
theorem dispOps_LInv_ok (hlog : Logging ctl log) (hnr : NoRemoval ctl) :
    OpsPreserveOk (dispOps ctl) inp pc (LInv (γ := γ) log pc) (fun d => Ordered (log d.ctl)) where
  handleTag := fun lx k hpc hk =>
    ⟨fun a ha => (handleTag_good hlog hnr lx k hpc hk).2 a ha, fun _ _ => (handleTag_good hlog hnr lx k hpc hk).1⟩
  handleNonTag := fun lx k hpc hk =>
    ⟨fun a ha => (handleNonTag_good hlog lx k hpc hk).2 a ha, fun _ _ => (handleNonTag_good hlog lx k hpc hk).1⟩
  startTagHint := fun n ns k hk =>
    ⟨fun _ _ => startTagHint_LInv hlog n ns k hk, fun _ _ => (startTagHint_LInv hlog n ns k hk).ordered⟩
  endTagHint := fun n k hk =>
    ⟨fun _ _ => endTagHint_LInv hlog n k hk, fun _ _ => (endTagHint_LInv hlog n k hk).ordered⟩
  weaken := fun _ hk => hk.ordered

end

/-! ### the stream -/

variable {w : World γ} {log : γ → List Token}

/-- one `write`, any handlers (that do not remove content): the invariant is kept on success; the log
stays ordered in every outcome -/
theorem Stream.write_LocInv_ok (hlog : Logging w.ctl log) (hnr : NoRemoval w.ctl) (ht : EmitsChecked w.tbl = true)
    (s : Stream γ) (data : Bytes) (h : s.LocInv log) :
    Ordered (log (s.write w data).1.disp.ctl) ∧ ((s.write w data).2 = .ok () → (s.write w data).1.LocInv log) := by
  obtain ⟨hinv, hrcs⟩ := h
  unfold Stream.write
  cases hcf : s.chunkFor w data with
  | inl s' =>
    obtain ⟨_, hs'⟩ := Stream.chunkFor_inl hcf
    simp only
    refine ⟨?_, fun h => by simp at h⟩
    rw [hs', Stream.bail_log hlog]
    exact hinv.ordered
  | inr sc =>
    obtain ⟨s1, chunk⟩ := sc
    obtain ⟨_, c2, _, _, _⟩ := Stream.chunkFor_inr hcf
    simp only
    have hp := Parser.parse_ok (env := w.env) (inp := chunk) (pc := s.parser.x.prevConsumed)
      (P := LInv log s.parser.x.prevConsumed) (Pe := fun d => Ordered (log d.ctl)) (dispOps_LInv_ok hlog hnr) ht false s1.parser
      (by rw [c2]; exact ⟨rfl, hinv⟩)
    cases hpr : (s1.parser.parse w.env chunk false).2 with
    | error e =>
      rw [hpr] at hp
      simp only
      refine ⟨?_, fun h => by simp at h⟩
      rw [Stream.bail_log hlog]
      exact hp.1
    | ok consumed =>
      rw [hpr] at hp
      obtain ⟨hP, hpc⟩ := hp
      simp only
      cases hfl : Disp.flushRemaining (Stream.disp { s1 with parser := (s1.parser.parse w.env chunk false).1 }) chunk consumed with
      | error e =>
        simp only
        exact ⟨hP.ordered, fun h => by simp at h⟩
      | ok d =>
        simp only
        obtain ⟨hd, hd0⟩ := flushRemaining_LInv (d := Stream.disp { s1 with parser := (s1.parser.parse w.env chunk false).1 }) hP hfl
        refine ⟨?_, ?_⟩
        · rw [Stream.keepTail_log hlog]
          exact hd.ordered
        · intro hok
          obtain ⟨k1, k2⟩ := Stream.keepTail_disp _ _ _ _ hok
          unfold Stream.LocInv
          rw [k1, k2]
          simp only [setDisp_disp, Stream.setDisp]
          rw [hpc]
          exact ⟨hd, hd0⟩

theorem Stream.end_ordered_ok (hlog : Logging w.ctl log) (hnr : NoRemoval w.ctl) (ht : EmitsChecked w.tbl = true)
    (s : Stream γ) (h : s.LocInv log) : Ordered (log (s.end w).1.disp.ctl) := by
  obtain ⟨hinv, hrcs⟩ := h
  unfold Stream.end
  generalize (if s.hasBuffered = true then s.buf.data else []) = chunk
  have hp := Parser.parse_ok (env := w.env) (inp := chunk) (pc := s.parser.x.prevConsumed)
    (P := LInv log s.parser.x.prevConsumed) (Pe := fun d => Ordered (log d.ctl)) (dispOps_LInv_ok hlog hnr) ht true s.parser ⟨rfl, hinv⟩
  simp only
  cases hpr : (s.parser.parse w.env chunk true).2 with
  | error e =>
    rw [hpr] at hp
    simp only
    rw [Stream.bail_log hlog]
    exact hp.1
  | ok consumed =>
    rw [hpr] at hp
    obtain ⟨hP, _⟩ := hp
    simp only [setDisp_disp]
    unfold Disp.finish
    cases hfl : Disp.flushRemaining (Stream.disp { s with parser := (s.parser.parse w.env chunk true).1 }) chunk chunk.length with
    | error e =>
      simp only [DRes.ofExcept, DRes.bind]
      exact hP.ordered
    | ok d =>
      obtain ⟨hd, _⟩ := flushRemaining_LInv (d := Stream.disp { s with parser := (s.parser.parse w.env chunk true).1 }) hP hfl
      simp only [DRes.ofExcept, DRes.bind]
      split <;> simp only [hlog.handleEnd] <;> exact hd.ordered

end LolHtml.Model
