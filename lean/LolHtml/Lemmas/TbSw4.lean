import LolHtml.Lemmas.TbSw3
/-!
`SwPost` for "in column group" and the modes before / after the body; all modes (`stepMode_sw`).
-/
namespace LolHtml.Spec.TreeBuilder
open LolHtml.Model (Ns)

variable {c : Cfg} {s : State}

set_option maxHeartbeats 8000000 in
theorem inColumnGroup_sw (hm : s.mode = .inColumnGroup) (hcur : s.currentIs .colgroup = true) (htm : s.tmodes = [])
    (hnt : s.hasOnStack .template = false) (t : Token) : SwPost c t s (inColumnGroup c s t) := by
  have h1 : s.mode ≠ .text := by simp [hm]
  sw_cases t [inColumnGroup, inHead, inBody, hcur, hnt, htm] (first | exact inBody_sw h1 htm _)

set_option maxHeartbeats 8000000 in
theorem afterBody_sw (hm : s.mode = .afterBody) (htm : s.tmodes = []) (t : Token) : SwPost c t s (afterBody c s t) := by
  have h1 : s.mode ≠ .text := by simp [hm]
  sw_cases t [afterBody] (first | exact inBody_sw h1 htm _)

set_option maxHeartbeats 8000000 in
theorem afterAfterBody_sw (hm : s.mode = .afterAfterBody) (htm : s.tmodes = []) (t : Token) :
    SwPost c t s (afterAfterBody c s t) := by
  have h1 : s.mode ≠ .text := by simp [hm]
  sw_cases t [afterAfterBody] (first | exact inBody_sw h1 htm _)

set_option maxHeartbeats 8000000 in
theorem inFrameset_sw (hm : s.mode = .inFrameset) (htm : s.tmodes = []) (t : Token) : SwPost c t s (inFrameset c s t) := by
  have h1 : s.mode ≠ .text := by simp [hm]
  sw_cases t [inFrameset] (first | exact inHead_sw h1 htm _ (Or.inr (by rfl)))

set_option maxHeartbeats 8000000 in
theorem afterFrameset_sw (hm : s.mode = .afterFrameset) (htm : s.tmodes = []) (t : Token) :
    SwPost c t s (afterFrameset c s t) := by
  have h1 : s.mode ≠ .text := by simp [hm]
  sw_cases t [afterFrameset] (first | exact inHead_sw h1 htm _ (Or.inr (by rfl)))

set_option maxHeartbeats 8000000 in
theorem afterAfterFrameset_sw (hm : s.mode = .afterAfterFrameset) (htm : s.tmodes = []) (t : Token) :
    SwPost c t s (afterAfterFrameset c s t) := by
  have h1 : s.mode ≠ .text := by simp [hm]
  sw_cases t [afterAfterFrameset] (first | exact inHead_sw h1 htm _ (Or.inr (by rfl)) | exact inBody_sw h1 htm _)

set_option maxHeartbeats 8000000 in
theorem initial_sw (hm : s.mode = .initial) (t : Token) : SwPost c t s (initial c s t) := by
  sw_cases t [initial] (skip)

set_option maxHeartbeats 8000000 in
theorem beforeHtml_sw (hm : s.mode = .beforeHtml) (t : Token) : SwPost c t s (beforeHtml c s t) := by
  sw_cases t [beforeHtml] (skip)

set_option maxHeartbeats 8000000 in
theorem beforeHead_sw (hm : s.mode = .beforeHead) (t : Token) : SwPost c t s (beforeHead c s t) := by
  sw_cases t [beforeHead] (skip)

set_option maxHeartbeats 8000000 in
theorem inHeadNoscript_sw (hm : s.mode = .inHeadNoscript) (hns : c.scripting = false) (htm : s.tmodes = []) (t : Token) :
    SwPost c t s (inHeadNoscript c s t) := by
  have h1 : s.mode ≠ .text := by simp [hm]
  sw_cases t [inHeadNoscript] (first | exact inHead_sw h1 htm _ (Or.inr (by rfl)))

theorem SwPost.congr_mode {t : Token} {s1 s2 : State} {r : Res} (hm : s1.mode = s2.mode) (ho : s1.origMode = s2.origMode)
    (h : SwPost c t s1 r) : SwPost c t s2 r := by
  cases r <;> simp_all [SwPost, NsOk]

theorem SwPost.mapState {t : Token} {r : Res} (f : State → State) (hf : ∀ x, (f x).mode = x.mode ∧ (f x).origMode = x.origMode)
    (h : SwPost c t s r) : SwPost c t s (r.mapState f) := by
  cases r <;> simp_all [SwPost, NsOk, Res.mapState]

set_option maxHeartbeats 8000000 in
theorem afterHead_sw (hm : s.mode = .afterHead) (htm : s.tmodes = []) (t : Token) : SwPost c t s (afterHead c s t) := by
  have h1 : s.mode ≠ .text := by simp [hm]
  have push : ∀ (h : El), callsHead t = true →
      SwPost c t s ((inHead c (s.onTree (·.pushEl h)) t).mapState (·.removeFromStack h)) := by
    intro h hc
    refine SwPost.mapState (fun x => x.removeFromStack h) (fun x => ⟨rfl, rfl⟩) ?_
    exact SwPost.congr_mode (s1 := s.onTree (·.pushEl h)) rfl rfl (inHead_sw (s := s.onTree (·.pushEl h)) h1 htm t (Or.inr hc))
  sw_cases t [afterHead]
    (first | exact inHead_sw h1 htm _ (Or.inr (by rfl)) | exact push _ (by rfl))

end LolHtml.Spec.TreeBuilder
