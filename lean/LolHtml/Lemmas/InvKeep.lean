import LolHtml.Lemmas.InvAct
/-!
# C15 — `is_last` and the kind of machine are never changed by the interpreter

A frame property that needs no invariant: every layer of the interpreter, for every table, keeps
`c.isLast` and keeps a lexer a lexer / a tag scanner a tag scanner.
-/
namespace LolHtml.Model

variable {κ : Type}

def Regs.isLex : Regs → Bool
  | .lexer _ => true
  | .scanner _ => false

def Keep (m m' : M κ) : Prop := m'.c.isLast = m.c.isLast ∧ m'.r.isLex = m.r.isLex

theorem Keep.refl (m : M κ) : Keep m m := ⟨rfl, rfl⟩
theorem Keep.trans {a b c : M κ} (h1 : Keep a b) (h2 : Keep b c) : Keep a c :=
  ⟨h2.1.trans h1.1, h2.2.trans h1.2⟩

section
variable {env : Env κ} {inp : Bytes}

theorem lexEmitNonTag_keep (c : Common) (l : LexRegs) (x : Ctx κ) (o : Option NonTagOutline) (e : Nat) :
    (lexEmitNonTag env inp c l x o e).1.c = c ∧ (lexEmitNonTag env inp c l x o e).1.r.isLex = true := by
  unfold lexEmitNonTag
  dsimp only
  split <;> exact ⟨rfl, rfl⟩

theorem lexEmitText_keep (c : Common) (l : LexRegs) (x : Ctx κ) :
    (lexEmitText env inp c l x).1.c = c ∧ (lexEmitText env inp c l x).1.r.isLex = true := by
  unfold lexEmitText
  split
  · exact lexEmitNonTag_keep _ _ _ _ _
  · exact ⟨rfl, rfl⟩

theorem lexEmitEof_keep (m : M κ) :
    (lexEmitEof env inp m).1.c = m.c ∧ (lexEmitEof env inp m).1.r.isLex = m.r.isLex := by
  unfold lexEmitEof
  split
  · rename_i l hl
    rw [hl]
    exact lexEmitNonTag_keep _ _ _ _ _
  · exact ⟨rfl, rfl⟩

theorem andThen_keep (r : M κ × Option Signal) (g : M κ → M κ × Option Signal) (c : Common)
    (hr : r.1.c = c ∧ r.1.r.isLex = true) (hg : ∀ m, (g m).1.c = m.c ∧ (g m).1.r.isLex = m.r.isLex) :
    (andThen r g).1.c = c ∧ (andThen r g).1.r.isLex = true := by
  unfold andThen
  split
  · exact hr
  · obtain ⟨h1, h2⟩ := hg r.1
    exact ⟨h1.trans hr.1, h2.trans hr.2⟩

theorem lexEmitTagLexeme_keep (c : Common) (l : LexRegs) (x : Ctx κ) (sim : Sim) (t : TagOutline) (e : Nat) :
    (lexEmitTagLexeme env inp c l x sim t e).1.c = c ∧ (lexEmitTagLexeme env inp c l x sim t e).1.r.isLex = true := by
  unfold lexEmitTagLexeme
  dsimp only
  split <;> exact ⟨rfl, rfl⟩

theorem lexEmitTag_keep (c : Common) (l : LexRegs) (x : Ctx κ) :
    (lexEmitTag env inp c l x).1.c.isLast = c.isLast ∧ (lexEmitTag env inp c l x).1.r.isLex = true := by
  unfold lexEmitTag
  split
  · exact ⟨rfl, rfl⟩
  · rename_i tok _
    dsimp only
    split
    · exact ⟨rfl, rfl⟩
    · rename_i sf _
      split
      · exact ⟨rfl, rfl⟩
      · rename_i cs hcs
        have hfr : cs.1.isLast = c.isLast := by
          split at hcs
          · exact (lexHandleFeedback_frame (c := { c with lastTextType := .data }) hcs).2.2
          · simp only [Except.ok.injEq] at hcs; subst hcs; rfl
        obtain ⟨h1, h2⟩ := lexEmitTagLexeme_keep (env := env) (inp := inp) (lexStampTag cs.1 cs.2 tok).1
          { l with curTag := none, fd := .none } x cs.2 (lexStampTag cs.1 cs.2 tok).2
          (({ c with lastTextType := .data } : Common).pos + 1)
        exact ⟨by rw [h1, (lexStampTag_frame cs.1 cs.2 tok).2.2, hfr], h2⟩

theorem lexAct_keep (a : ActName) (c : Common) (l : LexRegs) (x : Ctx κ) :
    (lexAct env a inp c l x).1.c.isLast = c.isLast ∧ (lexAct env a inp c l x).1.r.isLex = true := by
  cases a <;> simp only [lexAct]
  case emitText => obtain ⟨h1, h2⟩ := lexEmitText_keep (env := env) (inp := inp) c l x; exact ⟨by rw [h1], h2⟩
  case emitTextAndEof =>
    obtain ⟨h1, h2⟩ := andThen_keep _ (lexEmitEof env inp) c (lexEmitText_keep c l x) lexEmitEof_keep
    exact ⟨by rw [h1], h2⟩
  case emitCurrentToken =>
    obtain ⟨h1, h2⟩ := lexEmitNonTag_keep (env := env) (inp := inp) c { l with curNonTag := none } x l.curNonTag (c.pos + 1)
    exact ⟨by rw [h1], h2⟩
  case emitCurrentTokenAndEof =>
    obtain ⟨h1, h2⟩ := andThen_keep _ (lexEmitEof env inp) c
      (lexEmitNonTag_keep c { l with curNonTag := none } x l.curNonTag c.pos) lexEmitEof_keep
    exact ⟨by rw [h1], h2⟩
  case emitRawWithoutToken =>
    obtain ⟨h1, h2⟩ := lexEmitNonTag_keep (env := env) (inp := inp) c l x none (c.pos + 1)
    exact ⟨by rw [h1], h2⟩
  case emitRawWithoutTokenAndEof =>
    obtain ⟨h1, h2⟩ := andThen_keep _ (lexEmitEof env inp) c (lexEmitNonTag_keep c l x none c.pos) lexEmitEof_keep
    exact ⟨by rw [h1], h2⟩
  case emitTag => exact lexEmitTag_keep c l x
  all_goals (repeat' split) <;> first | exact ⟨rfl, rfl⟩ | simp [Regs.isLex]

theorem scanEmitHint_keep (c : Common) (s : ScanRegs) (x : Ctx κ) (ts : Nat) (ie : Bool) :
    (scanEmitHint env inp c s x ts ie).1.c.isLast = c.isLast ∧ (scanEmitHint env inp c s x ts ie).1.r.isLex = false := by
  unfold scanEmitHint
  split
  · exact ⟨rfl, rfl⟩
  · dsimp only
    split <;> (refine ⟨?_, rfl⟩; dsimp only; split <;> rfl)

theorem scanFinishTagName_keep (c : Common) (s : ScanRegs) (x : Ctx κ) :
    (scanFinishTagName env inp c s x).1.c.isLast = c.isLast ∧ (scanFinishTagName env inp c s x).1.r.isLex = false := by
  unfold scanFinishTagName
  split
  · exact ⟨rfl, rfl⟩
  · dsimp only
    split
    · exact ⟨rfl, rfl⟩
    · rename_i sf _
      obtain ⟨_, _, f3, _, _⟩ := scanApplyFeedback_frame c { s with tagStart := none } sf.2
      split
      · exact ⟨f3, rfl⟩
      · obtain ⟨h1, h2⟩ := scanEmitHint_keep (env := env) (inp := inp) (scanApplyFeedback c { s with tagStart := none } sf.2).1
          { (scanApplyFeedback c { s with tagStart := none } sf.2).2.1 with isInEndTag := false } { x with sim := sf.1 }
          ‹Nat› s.isInEndTag
        exact ⟨h1.trans f3, h2⟩

theorem scanAct_keep (a : ActName) (c : Common) (s : ScanRegs) (x : Ctx κ) :
    (scanAct env a inp c s x).1.c.isLast = c.isLast ∧ (scanAct env a inp c s x).1.r.isLex = false := by
  cases a <;> simp only [scanAct]
  case finishTagName => exact scanFinishTagName_keep c s x
  all_goals (repeat' split) <;> first | exact ⟨rfl, rfl⟩ | simp [Regs.isLex]

theorem act_keep (a : ActName) (m : M κ) : Keep m (act env a inp m).1 := by
  unfold act
  cases m with
  | mk c r x =>
    cases r with
    | lexer l => exact lexAct_keep a c l x
    | scanner s => exact scanAct_keep a c s x

theorem runCalls_keep (cs : List Call) (m : M κ) : Keep m (runCalls env inp cs m).1 := by
  induction cs generalizing m with
  | nil => exact Keep.refl m
  | cons cl cs ih =>
    simp only [runCalls]
    have h1 := act_keep (env := env) (inp := inp) cl.act m
    split
    · split
      · exact h1
      · exact h1.trans (ih _)
    · exact h1.trans (ih _)

theorem applyTrans_keep (t : Trans) (m : M κ) : Keep m (applyTrans env t m).1 := by
  cases t <;> simp only [applyTrans]
  · exact ⟨rfl, rfl⟩
  · exact ⟨rfl, rfl⟩
  · split <;> exact ⟨rfl, rfl⟩

theorem runSeq_keep (s : ActSeq) (m : M κ) : Keep m (runSeq env inp s m).1 := by
  unfold runSeq
  have h1 := runCalls_keep (env := env) (inp := inp) s.calls m
  dsimp only
  split
  · exact h1
  · split
    · exact h1
    · exact h1.trans (applyTrans_keep _ _)

theorem runBody_keep (b : Body) (m : M κ) : Keep m (runBody env inp b m).1 := by
  cases b with
  | seq s => exact runSeq_keep s m
  | ite c t e =>
    simp only [runBody]
    split
    · exact Keep.refl m
    · exact runSeq_keep _ m
    · exact runSeq_keep _ m

theorem adjustForNextInput_keep (m : M κ) : Keep m (adjustForNextInput m) := by
  unfold adjustForNextInput
  split
  · rename_i l hl; exact ⟨rfl, by rw [hl]; rfl⟩
  · rename_i s hs
    split
    · exact ⟨rfl, by rw [hs]; rfl⟩
    · exact Keep.refl m

theorem break_aux (m0 m' : M κ) (h : Keep m0 m') (k : Nat) :
    Keep m0 (if m'.c.nextPos = 0 ∨ m'.c.nextPos - 1 < k then
        (m', some (Signal.err (.panic "break_on_end_of_input: pos - consumed_byte_count underflow")))
      else
        (({ m' with c := { m'.c with nextPos := m'.c.nextPos - 1 - k } } : M κ), some (Signal.endOfInput k))).1 := by
  split <;> exact ⟨h.1, h.2⟩

theorem breakOnEndOfInput_keep (m : M κ) : Keep m (breakOnEndOfInput inp m).1 := by
  unfold breakOnEndOfInput
  refine break_aux m _ ?_ _
  split
  · exact Keep.refl m
  · exact adjustForNextInput_keep m

theorem enterSeq_keep (m : M κ) : Keep m (enterSeq m) := by
  unfold enterSeq
  split
  · rename_i s hs; exact ⟨rfl, by rw [hs]; rfl⟩
  · exact Keep.refl m

theorem leaveSeq_keep (m : M κ) : Keep m (leaveSeq m) := by
  unfold leaveSeq
  split
  · rename_i s hs; exact ⟨rfl, by rw [hs]; rfl⟩
  · exact Keep.refl m

def SumKeep (m : M κ) : (M κ × Option Signal) ⊕ M κ → Prop
  | .inl r => Keep m r.1
  | .inr m' => Keep m m'

theorem runSeqArms_keep (ch : Option UInt8) (arms : List Arm) (m : M κ) :
    SumKeep m (runSeqArms env inp ch arms m) := by
  induction arms generalizing m with
  | nil => exact Keep.refl m
  | cons arm rest ih =>
    simp only [runSeqArms]
    have hle : Keep m (leaveSeq (enterSeq m)) := (enterSeq_keep m).trans (leaveSeq_keep _)
    have hcont : SumKeep m (runSeqArms env inp ch rest (leaveSeq (enterSeq m))) := by
      have := ih (leaveSeq (enterSeq m))
      cases hres : runSeqArms env inp ch rest (leaveSeq (enterSeq m)) with
      | inl r => rw [hres] at this; exact hle.trans this
      | inr m' => rw [hres] at this; exact hle.trans this
    split
    · split
      · exact hcont
      · split
        · exact (enterSeq_keep m).trans (breakOnEndOfInput_keep _)
        · exact hcont
        · simp only [SumKeep]
          refine Keep.trans (b := leaveSeq { enterSeq m with c := { (enterSeq m).c with nextPos := (enterSeq m).c.nextPos + _ } }) ?_ (runBody_keep _ _)
          exact Keep.trans (b := { enterSeq m with c := { (enterSeq m).c with nextPos := (enterSeq m).c.nextPos + _ } })
            ⟨(enterSeq_keep m).1, (enterSeq_keep m).2⟩ (leaveSeq_keep _)
    · exact ih m

theorem dispatch_keep (ch : Option UInt8) (arms : List Arm) (m : M κ) : Keep m (dispatch env inp ch arms m).1 := by
  unfold dispatch
  have h1 := runSeqArms_keep (env := env) (inp := inp) ch arms m
  split
  · rename_i r hr; rw [hr] at h1; exact h1
  · rename_i m' hr
    rw [hr] at h1
    simp only [SumKeep] at h1
    split
    · exact h1
    · rename_i arm _
      have h2 := h1.trans (runBody_keep (env := env) (inp := inp) arm.body m')
      split
      · dsimp only
        (repeat' split) <;> first | exact h2 | exact h2.trans (breakOnEndOfInput_keep _)
      · split
        · dsimp only
          (repeat' split) <;> first | exact h2 | exact h2.trans (breakOnEndOfInput_keep _)
        · exact h1.trans (breakOnEndOfInput_keep _)
      · exact h2

theorem stateFn_keep (m : M κ) : Keep m (stateFn env inp m).1 := by
  unfold stateFn
  split
  · exact Keep.refl m
  · rename_i sd _
    dsimp only
    have hpre : Keep m (if (!sd.enter.isEmpty && !m.c.entered) = true then
        (let m1 : M κ := { m with c := { m.c with nextPos := m.c.nextPos + 1 } }
         let r := runCalls env inp sd.enter m1
         match r.2 with
         | some sig => (r.1, some sig)
         | none =>
           let m2 := r.1
           (({ m2 with c := { m2.c with nextPos := m2.c.nextPos - 1, entered := true } } : M κ), (none : Option Signal)))
        else (m, none)).1 := by
      split
      · have h1 := runCalls_keep (env := env) (inp := inp) sd.enter { m with c := { m.c with nextPos := m.c.nextPos + 1 } }
        dsimp only
        split
        · exact ⟨h1.1, h1.2⟩
        · exact ⟨h1.1, h1.2⟩
      · exact Keep.refl m
    split
    · exact hpre
    · split
      · split <;> exact hpre.trans (Keep.trans ⟨rfl, rfl⟩ (dispatch_keep _ _ _))
      · exact hpre.trans (Keep.trans ⟨rfl, rfl⟩ (dispatch_keep _ _ _))

theorem runLoop_keep (n : Nat) (m : M κ) : Keep m (runLoop env inp n m).1 := by
  induction n generalizing m with
  | zero => exact Keep.refl m
  | succ n ih =>
    simp only [runLoop]
    have h1 := stateFn_keep (env := env) (inp := inp) m
    split
    · exact h1
    · exact h1.trans (ih _)

end
end LolHtml.Model
