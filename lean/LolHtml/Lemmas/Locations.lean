import LolHtml.Model.Stream
import LolHtml.Lemmas.PreservePc
import LolHtml.Lemmas.Tiling
/-!
Source locations of the tokens handed to the transform controller: the dispatcher stamps every token
with `src = previously_consumed + raw` (`srcOf`) and its own bounds checks (`emit_chunk_before_lexeme`
slices `[remaining_content_start, raw.start)`, `to_token` slices `raw`) force the ranges of successive
tokens to be ordered and disjoint. `LInv` is the invariant; `dispOps_LInv` shows that the four sink
operations keep it for lexemes located by the parser's byte count.
-/
namespace LolHtml.Model

variable {γ : Type}

/-- `log g` is the list of tokens the controller has been handed so far. -/
structure Logging (ctl : Controller γ) (log : γ → List Token) : Prop where
  token : ∀ g t, log (ctl.token g t).1 = log g ++ [t]
  startTag : ∀ g n ns, log (ctl.startTag g n ns).1 = log g
  auxInfo : ∀ g i, log (ctl.auxInfo g i).1 = log g
  endTag : ∀ g n, log (ctl.endTag g n).1 = log g
  handleEnd : ∀ g, log (ctl.handleEnd g).1 = log g
  bailOut : ∀ g e, log (ctl.bailOut g e).1 = log g

/-- Handlers may rewrite tokens at will, but they do not remove element content (emission is never
switched off) and the token callback does not fail half-way. Both restrictions come from the proof
method (the dispatcher operations are analysed without the lexer's register invariant
`remaining_content_start ≤ lexeme_start`, which is package `inv`'s), not from the code. -/
structure Tame (ctl : Controller γ) : Prop where
  shouldEmit : ∀ g, ctl.shouldEmit g = true
  tokenOk : ∀ g t, (ctl.token g t).2.err = none

/-- every range is well-formed and successive ranges are ordered and disjoint -/
def Ordered (l : List Token) : Prop :=
  (∀ a ∈ l, a.src.start ≤ a.src.end) ∧ l.Pairwise fun a b => a.src.end ≤ b.src.start

/-- the invariant, for an input slice at document offset `pc` -/
structure LInv (log : γ → List Token) (pc : Nat) (d : Disp γ) : Prop where
  ordered : Ordered (log d.ctl)
  /-- every token handed over so far ends at or before the absolute `remaining_content_start` -/
  below : ∀ a ∈ log d.ctl, a.src.end ≤ pc + d.rcs
  /-- an open text node ends where its last chunk ended, at or before `remaining_content_start` -/
  pending : d.textPending = true → d.textPendingStart ≤ pc + d.rcs ∧ ∀ a ∈ log d.ctl, a.src.end ≤ d.textPendingStart
  emission : d.emissionEnabled = true

theorem Ordered.append {l : List Token} {t : Token} (h : Ordered l) (ht : t.src.start ≤ t.src.end)
    (hl : ∀ a ∈ l, a.src.end ≤ t.src.start) : Ordered (l ++ [t]) := by
  refine ⟨?_, ?_⟩
  · intro a ha
    rcases List.mem_append.mp ha with h1 | h1
    · exact h.1 a h1
    · simp only [List.mem_singleton] at h1; subst h1; exact ht
  · rw [List.pairwise_append]
    refine ⟨h.2, List.pairwise_singleton _ _, ?_⟩
    intro a ha b hb
    simp only [List.mem_singleton] at hb; subst hb
    exact hl a ha

section
variable {ctl : Controller γ} {log : γ → List Token} {pc : Nat} {inp : Bytes}

theorem tokenProduced_log (hlog : Logging ctl log) (d : Disp γ) (t : Token) :
    log (Disp.tokenProduced ctl d t).1.ctl = log d.ctl ++ [t] ∧
    (Disp.tokenProduced ctl d t).1.rcs = d.rcs ∧
    (Disp.tokenProduced ctl d t).1.textPending = d.textPending ∧
    (Disp.tokenProduced ctl d t).1.textPendingStart = d.textPendingStart ∧
    (Disp.tokenProduced ctl d t).1.emissionEnabled = d.emissionEnabled := by
  have key : ∀ (d0 : Disp γ) (o : Option Nat) (cs : List Bytes),
      ((d0.noteNextEncoding o).pushChunks cs).ctl = d0.ctl ∧ ((d0.noteNextEncoding o).pushChunks cs).rcs = d0.rcs ∧
      ((d0.noteNextEncoding o).pushChunks cs).textPending = d0.textPending ∧
      ((d0.noteNextEncoding o).pushChunks cs).textPendingStart = d0.textPendingStart ∧
      ((d0.noteNextEncoding o).pushChunks cs).emissionEnabled = d0.emissionEnabled := by
    intro d0 o cs
    unfold Disp.noteNextEncoding Disp.pushChunks
    (repeat' split) <;> simp
  obtain ⟨k1, k2, k3, k4, k5⟩ := key { d with ctl := (ctl.token d.ctl t).1 } (ctl.token d.ctl t).2.nextEncoding (ctl.token d.ctl t).2.chunks
  unfold Disp.tokenProduced
  dsimp only
  split <;> simp only [k1, k2, k3, k4, k5, hlog.token] <;> simp

theorem tokenProduced_ok (htame : Tame ctl) (d : Disp γ) (t : Token) : (Disp.tokenProduced ctl d t).2 = .ok () := by
  unfold Disp.tokenProduced
  simp [htame.tokenOk]

theorem LInv.mono_rcs {d d' : Disp γ} (h : LInv log pc d) (hc : d'.ctl = d.ctl) (hr : d.rcs ≤ d'.rcs)
    (htp : d'.textPending = d.textPending) (hts : d'.textPendingStart = d.textPendingStart)
    (he : d'.emissionEnabled = d.emissionEnabled) : LInv log pc d' := by
  refine ⟨by rw [hc]; exact h.ordered, ?_, ?_, by rw [he]; exact h.emission⟩
  · intro a ha; rw [hc] at ha; have := h.below a ha; omega
  · intro hp
    rw [htp] at hp
    obtain ⟨p1, p2⟩ := h.pending hp
    rw [hts, hc]
    exact ⟨by omega, p2⟩

theorem LInv.frame {d d' : Disp γ} (h : LInv log pc d) (hc : log d'.ctl = log d.ctl) (hr : d'.rcs = d.rcs)
    (htp : d'.textPending = d.textPending) (hts : d'.textPendingStart = d.textPendingStart)
    (he : d'.emissionEnabled = d.emissionEnabled) : LInv log pc d' := by
  refine ⟨by rw [hc]; exact h.ordered, ?_, ?_, by rw [he]; exact h.emission⟩
  · intro a ha; rw [hc] at ha; rw [hr]; exact h.below a ha
  · intro hp
    rw [htp] at hp
    obtain ⟨p1, p2⟩ := h.pending hp
    rw [hts, hc, hr]
    exact ⟨p1, p2⟩

theorem flushPendingText_LInv (hlog : Logging ctl log) (d : Disp γ) (h : LInv log pc d) :
    LInv log pc (d.flushPendingText ctl).1 ∧ (d.flushPendingText ctl).1.textPending = false ∧
    (d.flushPendingText ctl).1.rcs = d.rcs := by
  unfold Disp.flushPendingText
  split
  · rename_i hp
    obtain ⟨p1, p2⟩ := h.pending hp
    obtain ⟨t1, t2, t3, t4, t5⟩ := tokenProduced_log hlog { d with textPending := false }
      (.text [] d.lastTextType true ⟨d.textPendingStart, d.textPendingStart⟩)
    refine ⟨⟨?_, ?_, ?_, ?_⟩, by rw [t3], by rw [t2]⟩
    · rw [t1]
      exact h.ordered.append (Nat.le_refl _) p2
    · intro a ha
      rw [t1] at ha
      rw [t2]
      rcases List.mem_append.mp ha with h1 | h1
      · exact h.below a h1
      · simp only [List.mem_singleton] at h1; subst h1; exact p1
    · intro hp'; rw [t3] at hp'; simp at hp'
    · rw [t5]; exact h.emission
  · rename_i hp
    exact ⟨h, by simpa using hp, rfl⟩

theorem emitChunkBefore_LInv {d d' : Disp γ} {raw : Range} (h : LInv log pc d)
    (he : d.emitChunkBefore inp raw = .ok d') :
    LInv log pc d' ∧ d'.rcs = raw.start ∧ d.rcs ≤ raw.start ∧ d'.textPending = d.textPending ∧ d'.ctl = d.ctl ∧
    d'.lastTextType = d.lastTextType := by
  unfold Disp.emitChunkBefore at he
  split at he
  · simp at he
  · rename_i chunk hs
    obtain ⟨h1, _, _⟩ := checkedSlice_some hs
    simp only at h1
    simp only [Except.ok.injEq] at he
    subst he
    refine ⟨?_, rfl, h1, ?_, ?_, ?_⟩
    · apply h.mono_rcs
      · split <;> rfl
      · exact h1
      · split <;> rfl
      · split <;> rfl
      · split <;> rfl
    · split <;> rfl
    · split <;> rfl
    · split <;> rfl

/-- a non-text token: `emit_chunk_before_lexeme`, the token, `remaining_content_start := raw.end` -/
theorem emitToken_LInv (hlog : Logging ctl log) (htame : Tame ctl) (d : Disp γ) (raw : Range) (tok : Token)
    (hsrc : tok.src = srcOf pc raw) (hraw : raw.start ≤ raw.end) (hnp : d.textPending = false) (h : LInv log pc d) :
    LInv log pc (d.emitToken ctl inp raw tok).1 ∧ (d.emitToken ctl inp raw tok).1.textPending = false := by
  unfold Disp.emitToken
  cases he : d.emitChunkBefore inp raw with
  | error e => simpa [DRes.ofExcept, DRes.bind] using ⟨h, hnp⟩
  | ok d1 =>
    obtain ⟨hd1, hrcs, hle, htp, hctl, _⟩ := emitChunkBefore_LInv h he
    simp only [DRes.ofExcept, DRes.bind]
    obtain ⟨t1, t2, t3, t4, t5⟩ := tokenProduced_log hlog d1 tok
    rw [tokenProduced_ok htame]
    simp only
    have hfe : ∀ d0 : Disp γ, d0.flushEncodingChange.ctl = d0.ctl ∧ d0.flushEncodingChange.rcs = d0.rcs ∧
        d0.flushEncodingChange.textPending = d0.textPending ∧ d0.flushEncodingChange.textPendingStart = d0.textPendingStart ∧
        d0.flushEncodingChange.emissionEnabled = d0.emissionEnabled := by
      intro d0; unfold Disp.flushEncodingChange; (repeat' split) <;> simp
    obtain ⟨f1, f2, f3, f4, f5⟩ := hfe { Disp.tokenProduced ctl d1 tok |>.1 with rcs := raw.end }
    have hsrc1 : tok.src.start = pc + raw.start := by rw [hsrc]; rfl
    have hsrc2 : tok.src.end = pc + raw.end := by rw [hsrc]; rfl
    refine ⟨⟨?_, ?_, ?_, ?_⟩, ?_⟩
    · rw [f1]
      simp only
      rw [t1]
      apply hd1.ordered.append (by omega)
      intro a ha
      have := hd1.below a ha
      omega
    · intro a ha
      rw [f1] at ha
      simp only at ha
      rw [t1] at ha
      rw [f2]
      simp only
      rcases List.mem_append.mp ha with h1 | h1
      · have := hd1.below a h1; omega
      · simp only [List.mem_singleton] at h1; subst h1; omega
    · intro hp
      rw [f3] at hp
      simp only at hp
      rw [t3, htp, hnp] at hp
      simp at hp
    · rw [f5]; simp only; rw [t5]; exact hd1.emission
    · rw [f3]; simp only; rw [t3, htp, hnp]

theorem tagToToken_src {f f' : Flags} {lx : TagLexeme} {tok : Token}
    (h : tagToToken f inp lx = some (f', some tok)) :
    tok.src = srcOf lx.prevConsumed lx.raw ∧ lx.raw.start ≤ lx.raw.end ∧ lx.raw.end ≤ inp.length := by
  unfold tagToToken at h
  split at h
  · split at h
    · split at h
      · rename_i hraw
        obtain ⟨r1, r2, _⟩ := checkedSlice_some hraw
        simp only [Option.some.injEq, Prod.mk.injEq] at h
        rw [← h.2]; exact ⟨rfl, r1, r2⟩
      · simp at h
    · simp at h
  · split at h
    · split at h
      · rename_i hraw
        obtain ⟨r1, r2, _⟩ := checkedSlice_some hraw
        simp only [Option.some.injEq, Prod.mk.injEq] at h
        rw [← h.2]; exact ⟨rfl, r1, r2⟩
      · simp at h
    · simp at h

theorem nonTagToToken_src {f : Flags} {lx : NonTagLexeme} {tok : Token}
    (h : nonTagToToken f inp lx = some (some tok)) :
    tok.src = srcOf lx.prevConsumed lx.raw ∧ lx.raw.start ≤ lx.raw.end ∧ lx.raw.end ≤ inp.length := by
  unfold nonTagToToken at h
  simp only at h
  split at h
  · split at h
    · split at h
      · rename_i hraw
        obtain ⟨r1, r2, _⟩ := checkedSlice_some hraw
        simp only [Option.some.injEq] at h
        rw [← h]; exact ⟨rfl, r1, r2⟩
      · simp at h
    · simp at h
  · split at h
    · split at h
      · rename_i hraw
        obtain ⟨r1, r2, _⟩ := checkedSlice_some hraw
        simp only [Option.some.injEq] at h
        rw [← h]; exact ⟨rfl, r1, r2⟩
      · simp at h
    · simp at h
  · simp at h

theorem produceTag_LInv (hlog : Logging ctl log) (htame : Tame ctl) (d : Disp γ) (lx : TagLexeme)
    (hpc : lx.prevConsumed = pc) (hnp : d.textPending = false) (h : LInv log pc d) :
    LInv log pc (d.produceTag ctl inp lx).1 := by
  unfold Disp.produceTag
  split
  · exact h
  · rename_i ft hft
    split
    · exact h.frame rfl rfl rfl rfl rfl
    · rename_i tok htok
      have hsrc := tagToToken_src (inp := inp) (f := d.flags) (f' := ft.1) (lx := lx) (tok := tok) (by rw [hft, ← htok])
      rw [hpc] at hsrc
      exact (emitToken_LInv hlog htame { d with flags := ft.1 } lx.raw tok hsrc.1 hsrc.2.1 hnp
        (h.frame rfl rfl rfl rfl rfl)).1

theorem produceText_LInv (hlog : Logging ctl log) (htame : Tame ctl) (d : Disp γ) (lx : NonTagLexeme) (tt : TextType)
    (hpc : lx.prevConsumed = pc) (h : LInv log pc d) : LInv log pc (d.produceText ctl inp lx tt).1 := by
  subst hpc
  unfold Disp.produceText
  split
  · exact h
  · rename_i rawb hraw
    obtain ⟨r1, r2, _⟩ := checkedSlice_some hraw
    cases he : d.emitChunkBefore inp lx.raw with
    | error e => simpa [DRes.ofExcept, DRes.bind] using h
    | ok d1 =>
      obtain ⟨hd1, hrcs, hle, htp, hctl, _⟩ := emitChunkBefore_LInv h he
      simp only [DRes.ofExcept, DRes.bind]
      obtain ⟨t1, t2, t3, t4, t5⟩ := tokenProduced_log hlog { d1 with lastTextType := tt }
        (.text rawb tt false (srcOf lx.prevConsumed lx.raw))
      rw [tokenProduced_ok htame]
      simp only
      have hs1 : (Token.text rawb tt false (srcOf lx.prevConsumed lx.raw)).src.start = lx.prevConsumed + lx.raw.start := rfl
      have hs2 : (Token.text rawb tt false (srcOf lx.prevConsumed lx.raw)).src.end = lx.prevConsumed + lx.raw.end := rfl
      have hbelow : ∀ a ∈ log d1.ctl ++ [Token.text rawb tt false (srcOf lx.prevConsumed lx.raw)],
          a.src.end ≤ lx.prevConsumed + lx.raw.end := by
        intro a ha
        rcases List.mem_append.mp ha with h1 | h1
        · have := hd1.below a h1; omega
        · simp only [List.mem_singleton] at h1; subst h1; omega
      refine ⟨?_, ?_, ?_, ?_⟩
      · simp only
        rw [t1]
        apply hd1.ordered.append (by omega)
        intro a ha
        have := hd1.below a ha
        omega
      · simp only; rw [t1]; exact hbelow
      · intro _
        simp only
        rw [t1]
        exact ⟨Nat.le_refl _, hbelow⟩
      · simp only; rw [t5]; exact hd1.emission

theorem produceNonTag_LInv (hlog : Logging ctl log) (htame : Tame ctl) (d : Disp γ) (lx : NonTagLexeme)
    (hpc : lx.prevConsumed = pc) (hnp : lx.isText = false → d.textPending = false) (h : LInv log pc d) :
    LInv log pc (d.produceNonTag ctl inp lx).1 := by
  unfold Disp.produceNonTag
  split
  · split
    · exact produceText_LInv hlog htame d lx _ hpc h
    · exact h
  · rename_i hnt
    have hnt' : lx.isText = false := by
      unfold NonTagLexeme.isText
      split
      · rename_i tt' heq; exact absurd heq (hnt tt')
      · rfl
    split
    · exact h
    · exact h
    · rename_i tok htok
      have hsrc := nonTagToToken_src htok
      rw [hpc] at hsrc
      exact (emitToken_LInv hlog htame d lx.raw tok hsrc.1 hsrc.2.1 (hnp hnt') h).1

theorem answerAux_LFrame (hlog : Logging ctl log) (d : Disp γ) (info : AuxInfo) :
    log (d.answerAux ctl info).1.ctl = log d.ctl ∧ (d.answerAux ctl info).1.rcs = d.rcs ∧
    (d.answerAux ctl info).1.textPending = d.textPending ∧ (d.answerAux ctl info).1.textPendingStart = d.textPendingStart ∧
    (d.answerAux ctl info).1.emissionEnabled = d.emissionEnabled := by
  unfold Disp.answerAux
  dsimp only
  split <;> simp [hlog.auxInfo]

theorem adjustFlagsForTag_LFrame (hlog : Logging ctl log) (d : Disp γ) (lx : TagLexeme) :
    log (d.adjustFlagsForTag ctl inp lx).1.ctl = log d.ctl ∧ (d.adjustFlagsForTag ctl inp lx).1.rcs = d.rcs ∧
    (d.adjustFlagsForTag ctl inp lx).1.textPending = d.textPending ∧
    (d.adjustFlagsForTag ctl inp lx).1.textPendingStart = d.textPendingStart ∧
    (d.adjustFlagsForTag ctl inp lx).1.emissionEnabled = d.emissionEnabled := by
  unfold Disp.adjustFlagsForTag
  split
  · dsimp only
    split
    · exact answerAux_LFrame hlog _ _
    · simp
  · split
    · split
      · simp
      · dsimp only
        split
        · simp [hlog.startTag]
        · have := answerAux_LFrame hlog { d with ctl := (ctl.startTag d.ctl ‹LocalName› ‹Ns›).1 } ⟨inp, ‹List AttrOutline›, ‹Bool›⟩
          simpa [hlog.startTag] using this
        · simp [hlog.startTag]
    · split <;> simp [hlog.endTag]

theorem handleTag_LInv (hlog : Logging ctl log) (htame : Tame ctl) (lx : TagLexeme) (d : Disp γ)
    (hpc : lx.prevConsumed = pc) (h : LInv log pc d) : LInv log pc (Disp.handleTag ctl inp lx d).1 := by
  refine And.left (b := (Disp.handleTag ctl inp lx d).1.textPending = false) ?_
  unfold Disp.handleTag
  obtain ⟨h1, h1p, _⟩ := flushPendingText_LInv hlog d h
  apply DRes.bind_fst (fun d : Disp γ => LInv log pc d ∧ d.textPending = false) _ _ ⟨h1, h1p⟩
  intro d1 _ ⟨hd1, hp1⟩
  apply DRes.bind_fst (fun d : Disp γ => LInv log pc d ∧ d.textPending = false)
  · split
    · exact ⟨hd1.frame rfl rfl rfl rfl rfl, hp1⟩
    · obtain ⟨a, b, c, e, f⟩ := adjustFlagsForTag_LFrame (inp := inp) hlog d1 lx
      exact ⟨hd1.frame a b c e f, by rw [c]; exact hp1⟩
  · intro d2 _ ⟨hd2, hp2⟩
    have hres : d2.resumeEmission ctl lx = d2 := by
      unfold Disp.resumeEmission
      rw [if_neg]
      simp [Disp.shouldStopRemoving, hd2.emission]
    rw [hres]
    have hd3 := produceTag_LInv (inp := inp) hlog htame d2 lx hpc hp2 hd2
    have hp3 : (d2.produceTag ctl inp lx).1.textPending = false := by
      unfold Disp.produceTag
      split
      · exact hp2
      · rename_i ft hft
        split
        · exact hp2
        · rename_i tok htok
          have hsrc := tagToToken_src (inp := inp) (f := d2.flags) (f' := ft.1) (lx := lx) (tok := tok) (by rw [hft, ← htok])
          rw [hpc] at hsrc
          exact (emitToken_LInv hlog htame { d2 with flags := ft.1 } lx.raw tok hsrc.1 hsrc.2.1 hp2
            (hd2.frame rfl rfl rfl rfl rfl)).2
    apply DRes.bind_fst (fun d : Disp γ => LInv log pc d ∧ d.textPending = false) _ _ ⟨hd3, hp3⟩
    intro d3 _ ⟨hd3', hp3'⟩
    exact ⟨hd3'.frame rfl rfl rfl rfl (by simp [htame.shouldEmit, hd3'.emission]), hp3'⟩

theorem handleNonTag_LInv (hlog : Logging ctl log) (htame : Tame ctl) (lx : NonTagLexeme) (d : Disp γ)
    (hpc : lx.prevConsumed = pc) (h : LInv log pc d) : LInv log pc (Disp.handleNonTag ctl inp lx d).1 := by
  unfold Disp.handleNonTag
  have h0 : (fun d : Disp γ => LInv log pc d ∧ (lx.isText = false → d.textPending = false))
      (if lx.isText = true then ((d, .ok ()) : DRes γ Unit) else d.flushPendingText ctl).1 := by
    split
    · rename_i ht; exact ⟨h, fun hf => by rw [ht] at hf; simp at hf⟩
    · obtain ⟨h1, h1p, _⟩ := flushPendingText_LInv hlog d h
      exact ⟨h1, fun _ => h1p⟩
  generalize (if lx.isText = true then ((d, .ok ()) : DRes γ Unit) else d.flushPendingText ctl) = r at h0 ⊢
  unfold DRes.bind
  split
  · exact h0.1
  · exact produceNonTag_LInv hlog htame r.1 lx hpc h0.2 h0.1

theorem startTagHint_LInv (hlog : Logging ctl log) (name : LocalName) (ns : Ns) (d : Disp γ) (h : LInv log pc d) :
    LInv log pc (Disp.startTagHint ctl name ns d).1 := by
  unfold Disp.startTagHint
  dsimp only
  split
  · exact h.frame (by simp [Disp.applyHintFlags, hlog.startTag]) rfl rfl rfl rfl
  · exact h.frame (by simp [hlog.startTag]) rfl rfl rfl rfl
  · exact h.frame (by simp [hlog.startTag]) rfl rfl rfl rfl

theorem endTagHint_LInv (hlog : Logging ctl log) (name : LocalName) (d : Disp γ) (h : LInv log pc d) :
    LInv log pc (Disp.endTagHint ctl name d).1 := by
  unfold Disp.endTagHint
  obtain ⟨h1, _, _⟩ := flushPendingText_LInv hlog d h
  apply DRes.bind_fst (LInv log pc) _ _ h1
  intro d1 _ hd1
  dsimp only
  exact hd1.frame (by simp [Disp.applyHintFlags, hlog.endTag]) rfl rfl rfl rfl

/-- The dispatcher's sink operations keep the location invariant for lexemes located by `pc`. -/
theorem dispOps_LInv (hlog : Logging ctl log) (htame : Tame ctl) :
    OpsPreserveAt (dispOps ctl) inp pc (LInv (γ := γ) log pc) where
  handleTag := fun lx k hpc hk => handleTag_LInv hlog htame lx k hpc hk
  handleNonTag := fun lx k hpc hk => handleNonTag_LInv hlog htame lx k hpc hk
  startTagHint := fun n ns k hk => startTagHint_LInv hlog n ns k hk
  endTagHint := fun n k hk => endTagHint_LInv hlog n k hk

end
end LolHtml.Model
