import LolHtml.Lemmas.ChunkFrame
/-!
The abstract transfer function on validity flags, the hypothesis on the sink operations, and small
lemmas about the relations.
-/
namespace LolHtml.Model.Chunk
open LolHtml LolHtml.Model

/-- after a lexeme has been emitted every lexer position register may be stale -/
def Ab.stale (ab : Ab) : Ab :=
  { ab with T := false, Gn := false, Ga := false, A := false, N := false, Nc := false }

/-- Abstract effect of one action on the validity flags; `none` = the action would read a register
that is not known to be valid (the table check fails). -/
def absAct (a : ActName) (ab : Ab) : Option Ab :=
  match a with
  | .emitText | .emitTextAndEof | .emitRawWithoutTokenAndEof => if ab.P then some ab.stale else none
  | .emitCurrentToken => if ab.P && ab.N then some { ab.stale with P := false } else none
  | .emitCurrentTokenAndEof => if ab.P && ab.N then some ab.stale else none
  | .emitRawWithoutToken => if ab.P then some { ab.stale with P := false } else none
  | .emitTag => if ab.P && ab.Gn && ab.Ga then some { ab.stale with P := false } else none
  | .createStartTag | .createEndTag => if ab.P then some { ab with Gn := false, Ga := true, Sn := true } else none
  | .createDoctype => some { ab with N := true, Nc := false }
  | .createComment => some { ab with N := false, Nc := true }
  | .startTokenPart => if ab.P then some { ab with T := true } else none
  | .markCommentTextEnd => if ab.P then some { ab with N := if ab.Nc then ab.T else ab.N && ab.T } else none
  | .shiftCommentTextEndBy _ => some ab
  | .setForceQuirks => some ab
  | .finishDoctypeName | .finishDoctypePublicId | .finishDoctypeSystemId =>
      if ab.P then some { ab with N := ab.N && ab.T } else none
  | .finishTagName => if ab.P && ab.Sn then some { ab with Gn := ab.T, St := false, Sn := false } else none
  | .updateTagNameHash => if ab.P then some ab else none
  | .markAsSelfClosing => some ab
  | .startAttr => if ab.P then some { ab with A := false } else none
  | .finishAttrName => if ab.P then some { ab with A := ab.T } else none
  | .finishAttrValue => if ab.P then some { ab with A := ab.A && ab.T } else none
  | .finishAttr => some { ab with Ga := ab.Ga && ab.A, A := true }
  | .setClosingQuoteToDouble | .setClosingQuoteToSingle => some ab
  | .markTagStart => if ab.P then some { ab with St := true, Sn := false } else none
  | .unmarkTagStart => some { ab with St := false, Sn := false }
  | .enterCdata | .leaveCdata => some ab

/-- actions that must be written with `?` (their signal must stop the action list) -/
def qRequired : ActName → Bool
  | .emitText | .emitTextAndEof | .emitCurrentToken | .emitCurrentTokenAndEof | .emitRawWithoutToken
  | .emitRawWithoutTokenAndEof | .emitTag | .finishTagName => true
  | _ => false

/-- actions that read the byte under the cursor -/
def readsInp : ActName → Bool
  | .updateTagNameHash | .finishAttrValue | .emitCurrentToken | .emitCurrentTokenAndEof => true
  | _ => false

def absCalls : List Call → Ab → Option Ab
  | [], ab => some ab
  | cl :: cs, ab =>
    if qRequired cl.act && !cl.q then none else
    match absAct cl.act ab with
    | none => none
    | some ab' => absCalls cs ab'

/-! ### Sink operations -/

def EPanic {α : Type} : Except Err α → Prop
  | .error (.panic _) => True
  | _ => False

variable {κ : Type}

/-- outcome of a sink operation in the two runs: the split run hits a panic branch, or the results are
equal and, when they are `ok`, the sink states are related -/
def OpRel {α : Type} (K0 : κ → κ → Prop) (rs rw : κ × Except Err α) : Prop :=
  EPanic rs.2 ∨ (rw.2 = rs.2 ∧ ((∃ a, rs.2 = .ok a) → K0 rs.1 rw.1))

/-- the parts of a doctype lexeme are inside the split input (or the two inputs end together, so that a part
out of range in one is out of range in the other): the silent `get` of `to_token` gives the same result -/
def DtIn (inpS inpW : Bytes) (δ : Nat) : Option NonTagOutline → Prop
  | some (.doctype d) => inpW.length = inpS.length + δ ∨ leNonTag inpS.length (.doctype d)
  | _ => True

theorem leNonTag_mono {U U' : Nat} {n : NonTagOutline} (h : U ≤ U') (hn : leNonTag U n) : leNonTag U' n := by
  cases n with
  | doctype d =>
    obtain ⟨a, b, c⟩ := hn
    have ho : ∀ o, leOR U o → leOR U' o := by
      intro o ho; cases o with
      | none => trivial
      | some r => exact Nat.le_trans ho h
    exact ⟨ho _ a, ho _ b, ho _ c⟩
  | _ => trivial

theorem dtIn_of {inpS inpW : Bytes} {δ np : Nat} {o : Option NonTagOutline}
    (hin : np ≤ inpS.length ∨ inpW.length = inpS.length + δ) (hu : ∀ n, o = some n → leNonTag np n) : DtIn inpS inpW δ o := by
  cases o with
  | none => trivial
  | some n =>
    cases n with
    | doctype d =>
      rcases hin with h | h
      · exact Or.inr (leNonTag_mono h (hu _ rfl))
      · exact Or.inl h
    | _ => trivial

/-- What the proof needs from the sink: handling corresponding lexemes in `K`-related sink states gives
equal results and related states (unless the split run hits a panic branch, e.g. a slice out of range);
and a text lexeme the whole run emits in one piece is equivalent to the two pieces of the split run,
the first of which (`d` bytes) the split run's sink has already received (`K d`); `Loc ks pc p tt`: the sink
recorded that the piece it received ended at position `p` of the split input (whose offset is `pc`) and
had text type `tt`. -/
structure OpsSim (ops : SinkOps κ) (inpS inpW : Bytes) (δ : Nat) (K : Nat → κ → κ → Prop)
    (Loc : κ → Nat → Nat → TextType → Prop) : Prop where
  tag : ∀ pc raw o ks kw, K 0 ks kw →
    OpRel (K 0) (ops.handleTag inpS ⟨pc + δ, raw, o⟩ ks) (ops.handleTag inpW ⟨pc, shR δ raw, shTag δ o⟩ kw)
  nonTag : ∀ pc raw (o : Option NonTagOutline) ks kw, K 0 ks kw → DtIn inpS inpW δ o →
    OpRel (K 0) (ops.handleNonTag inpS ⟨pc + δ, raw, o⟩ ks) (ops.handleNonTag inpW ⟨pc, shR δ raw, o.map (shNonTag δ)⟩ kw)
  text : ∀ pc a x d tt ks kw, K d ks kw → Loc ks (pc + δ) (a + d - δ) tt → 0 < d → δ ≤ a + d → a + d ≤ x →
    OpRel (K 0)
      (if a + d < x then ops.handleNonTag inpS ⟨pc + δ, ⟨a + d - δ, x - δ⟩, some (.text tt)⟩ ks else (ks, .ok ()))
      (ops.handleNonTag inpW ⟨pc, ⟨a, x⟩, some (.text tt)⟩ kw)
  textOk : ∀ pc raw tt d ks kw, K d ks kw →
    EPanic (ops.handleNonTag inpS ⟨pc, raw, some (.text tt)⟩ ks).2 ∨
    (ops.handleNonTag inpS ⟨pc, raw, some (.text tt)⟩ ks).2 = .ok ()
  startHint : ∀ n ns ks kw, K 0 ks kw → OpRel (K 0) (ops.startTagHint n ns ks) (ops.startTagHint n ns kw)
  endHint : ∀ n ks kw, K 0 ks kw → OpRel (K 0) (ops.endTagHint n ks) (ops.endTagHint n kw)

/-! ### Lemmas about the relations -/

theorem OptRel.nn {α : Type} {R : α → α → Prop} : OptRel R none none := trivial

theorem OptRel.mono {α : Type} {R R' : α → α → Prop} (h : ∀ a b, R a b → R' a b) :
    ∀ {x y : Option α}, OptRel R x y → OptRel R' x y
  | none, none, _ => trivial
  | some a, some b, hr => h a b hr
  | none, some _, hr => hr.elim
  | some _, none, hr => hr.elim

theorem OptRel.isSome {α : Type} {R : α → α → Prop} : ∀ {x y : Option α}, OptRel R x y → y.isSome = x.isSome
  | none, none, _ => rfl
  | some _, some _, _ => rfl
  | none, some _, hr => hr.elim
  | some _, none, hr => hr.elim

theorem TagRel.weaken {δ L L' : Nat} {gn ga gn' ga' : Bool} {t t' : TagOutline}
    (h : TagRel δ L gn ga t t') (hL : L' ≤ L) (hn : gn' = true → gn = true) (ha : ga' = true → ga = true) :
    TagRel δ L' gn' ga' t t' :=
  { kind := h.kind, hash := h.hash, ns := h.ns, sc := h.sc
    name := fun g => ⟨(h.name (hn g)).1, geR_mono hL (h.name (hn g)).2⟩
    attrs := fun g => ⟨(h.attrs (ha g)).1, fun a ha' => geA_mono hL ((h.attrs (ha g)).2 a ha')⟩ }

theorem TagRel.stale {δ L L' : Nat} {gn ga : Bool} {t t' : TagOutline} (h : TagRel δ L gn ga t t') :
    TagRel δ L' false false t t' :=
  { kind := h.kind, hash := h.hash, ns := h.ns, sc := h.sc
    name := fun g => by cases g
    attrs := fun g => by cases g }

theorem AttrRel.stale {δ L L' : Nat} {v : Bool} {a a' : AttrOutline} (_h : AttrRel δ L v a a') :
    AttrRel δ L' false a a' := ⟨fun g => by cases g⟩

theorem NonTagRel.stale {δ L L' : Nat} {v : Bool} {a a' : NonTagOutline} (h : NonTagRel δ L v a a') :
    NonTagRel δ L' false a a' := ⟨h.ctor, fun g => by cases g⟩

theorem geNonTag_mono {L L' : Nat} {n : NonTagOutline} (h : L' ≤ L) (hr : geNonTag L n) : geNonTag L' n := by
  cases n with
  | comment r => exact geR_mono h hr
  | doctype d =>
    obtain ⟨a, b, c⟩ := hr
    have ho : ∀ o, geOR L o → geOR L' o := by
      intro o ho; cases o with
      | none => trivial
      | some r => exact geR_mono h ho
    exact ⟨ho _ a, ho _ b, ho _ c⟩
  | _ => trivial

/-- a fully valid tag relation determines the whole tag -/
theorem TagRel.eq_sh {δ L : Nat} {t t' : TagOutline} (h : TagRel δ L true true t t') : t' = shTag δ t := by
  obtain ⟨hk, hh, hns, hsc, hn, ha⟩ := h
  have hn := (hn rfl).1
  have ha := (ha rfl).1
  cases t <;> cases t' <;> simp_all [TagOutline.isStart, TagOutline.nameHash, TagOutline.name, tagAttrs, tagNs, tagSc, shTag]

end LolHtml.Model.Chunk
