import LolHtml.Model.TreeSim
import LolHtml.Model.TreeSimRun
/-!
Tree-builder simulator (`Sim.stepTag` / `Sim.run` of Model/TreeSimRun.lean): the invariant
"`ns_stack` is non-empty, its top is `current_ns`, its bottom is `Html`", its preservation by every
tag step, absence of panics, and the strict/non-strict simulation.
-/

namespace LolHtml.Lemmas.Sim
open LolHtml LolHtml.Model

/-- Simulator invariant. -/
structure Inv (s : Sim) : Prop where
  top : s.nsStack.head? = some s.currentNs
  bottom : s.nsStack.getLast? = some .html

/-- `SetAllowCdata b` always carries `b = (current_ns != Html)` (of the state after the step), and a
finished step never leaves a `RequestLexeme` pending. -/
def FbOk (s : Sim) (fb : Feedback) : Prop :=
  (∀ b, fb = .setAllowCdata b → b = (s.currentNs != .html)) ∧ (∀ k, fb ≠ .requestLexeme k)

theorem inv_new (strict : Bool) : Inv (Sim.new strict) := ⟨rfl, rfl⟩

theorem inv_two (s : Sim) (h : Inv s) (hne : s.currentNs ≠ .html) :
    ∃ top rest, s.nsStack = s.currentNs :: top :: rest := by
  obtain ⟨ht, hb⟩ := h
  match hs : s.nsStack with
  | [] => rw [hs] at ht; simp at ht
  | [x] =>
    rw [hs] at ht hb; simp at ht hb
    exact absurd (ht ▸ hb) hne
  | x :: y :: r =>
    rw [hs] at ht; simp at ht
    exact ⟨y, r, by rw [ht]⟩

theorem inv_enter (s : Sim) (h : Inv s) (ns : Ns) :
    Inv (s.enterNs ns).1 ∧ FbOk (s.enterNs ns).1 (s.enterNs ns).2 ∧
    (s.enterNs ns).1.currentNs = ns ∧ (s.enterNs ns).1.guard = s.guard ∧ (s.enterNs ns).1.strict = s.strict := by
  obtain ⟨ht, hb⟩ := h
  refine ⟨⟨rfl, ?_⟩, ⟨?_, ?_⟩, rfl, rfl, rfl⟩
  · simp only [Sim.enterNs]
    match hs : s.nsStack with
    | [] => rw [hs] at ht; simp at ht
    | x :: r => rw [hs] at hb; simpa [List.getLast?_cons_cons] using hb
  · intro b hb'; simp only [Sim.enterNs] at hb' ⊢; injection hb' with hb'; exact hb'.symm
  · intro k hk; simp [Sim.enterNs] at hk

/-- `leave_ns` succeeds whenever the stack has two entries, and keeps the invariant. -/
theorem inv_leave (s : Sim) (h : Inv s) (top : Ns) (rest : List Ns) (hs : s.nsStack = s.currentNs :: top :: rest) :
    ∃ s' fb, s.leaveNs = some (s', fb) ∧ Inv s' ∧ FbOk s' fb ∧ s'.nsStack = top :: rest ∧
      s'.guard = s.guard ∧ s'.strict = s.strict := by
  refine ⟨{ s with nsStack := top :: rest, currentNs := top }, .setAllowCdata (top != .html), ?_, ⟨rfl, ?_⟩, ⟨?_, ?_⟩, rfl, rfl, rfl⟩
  · simp [Sim.leaveNs, hs]
  · have := h.bottom; rw [hs] at this; simpa [List.getLast?_cons_cons] using this
  · intro b hb; injection hb with hb; exact hb.symm
  · intro k hk; cases hk


/-! ### start tags -/

/-- guard part of `get_feedback_for_start_tag` -/
def guardStart (cfg : TagCfg) (s : Sim) (t : Nat) : Except Err Sim :=
  if s.strict then
    match Guard.trackStartTag cfg s.guard t with
    | .ok g => .ok { s with guard := g }
    | .error e => .error e
  else .ok s

/-- namespace / text-type part of `get_feedback_for_start_tag` -/
def startCore (cfg : TagCfg) (s : Sim) (t : Nat) : Except Err (Sim × Feedback) :=
  if t == cfg.svg then .ok (s.enterNs .svg)
  else if t == cfg.math then .ok (s.enterNs .mathml)
  else if s.currentNs != .html then
    match s.startTagInForeign cfg t with
    | some r => .ok r
    | none => .error (.panic "leave_ns: namespace stack empty")
  else .ok (s, textTypeAdjustment cfg t)

theorem start_eq (cfg : TagCfg) (s : Sim) (t : Nat) :
    s.feedbackForStartTag cfg t =
      match guardStart cfg s t with
      | .error e => .error e
      | .ok s => startCore cfg s t := rfl

theorem assert_err (cfg : TagCfg) (t : Nat) (e : Err)
    (h : Guard.assertNotAmbiguous cfg t = .error e) : e = .ambiguity t := by
  unfold Guard.assertNotAmbiguous at h
  split at h
  · injection h with h; exact h.symm
  · cases h

theorem guard_err (cfg : TagCfg) (g : GuardState) (t : Nat) (e : Err)
    (h : Guard.trackStartTag cfg g t = .error e) : e = .ambiguity t := by
  unfold Guard.trackStartTag at h
  cases g <;> simp only at h <;> (repeat' split at h) <;> (try cases h) <;>
    (try exact assert_err _ _ _ (by assumption))

theorem guardStart_cases (cfg : TagCfg) (s : Sim) (t : Nat) :
    (∃ g, guardStart cfg s t = .ok { s with guard := g }) ∨
    (s.strict = true ∧ guardStart cfg s t = .error (.ambiguity t)) := by
  unfold guardStart
  by_cases hs : s.strict = true
  · cases hg : Guard.trackStartTag cfg s.guard t with
    | ok g => left; exact ⟨g, by simp [hs]⟩
    | error e => right; simp [hs, guard_err cfg _ _ _ hg]
  · left; refine ⟨s.guard, ?_⟩; rw [if_neg hs]

theorem textType_fbOk (cfg : TagCfg) (s : Sim) (t : Nat) : FbOk s (textTypeAdjustment cfg t) := by
  unfold textTypeAdjustment
  constructor
  · intro b hb; repeat' split at hb
    all_goals cases hb
  · intro k hk; repeat' split at hk
    all_goals cases hk

/-- What a start tag can do to a state satisfying the invariant (no guard involved). -/
theorem startCore_good (cfg : TagCfg) (s : Sim) (h : Inv s) (t : Nat) :
    ∃ s' fb, startCore cfg s t = .ok (s', fb) ∧ Inv s' ∧ s'.guard = s.guard ∧ s'.strict = s.strict ∧
      ((FbOk s' fb) ∨
       (∃ k, fb = .requestLexeme k ∧ s' = s ∧ s.currentNs ≠ .html ∧ k ≠ .annotationXmlEnd)) := by
  unfold startCore
  by_cases h1 : t = cfg.svg
  · have := inv_enter s h .svg
    exact ⟨_, _, by simp [h1], this.1, this.2.2.2.1, this.2.2.2.2, .inl this.2.1⟩
  by_cases h2 : t = cfg.math
  · subst h2
    have := inv_enter s h .mathml
    exact ⟨_, _, by simp [h1], this.1, this.2.2.2.1, this.2.2.2.2, .inl this.2.1⟩
  by_cases h3 : s.currentNs = .html
  · exact ⟨s, _, by simp [h1, h2, h3], h, rfl, rfl, .inl (textType_fbOk cfg s t)⟩
  · obtain ⟨top, rest, hs⟩ := inv_two s h h3
    unfold Sim.startTagInForeign
    by_cases h4 : t ∈ cfg.foreignExit
    · obtain ⟨s', fb, hl, hi, hf, -, hg, hst⟩ := inv_leave s h top rest hs
      exact ⟨s', fb, by simp [h1, h2, h3, h4, hl], hi, hg, hst, .inl hf⟩
    by_cases h5 : s.isIntegrationPointEnter cfg t = true
    · exact ⟨s, .requestLexeme .integrationPointEnter, by simp [h1, h2, h3, h4, h5], h, rfl, rfl,
        .inr ⟨.integrationPointEnter, rfl, rfl, h3, by decide⟩⟩
    by_cases h6 : t = cfg.font
    · subst h6
      exact ⟨s, .requestLexeme .fontCheck, by simp [h1, h2, h3, h4, h5], h, rfl, rfl,
        .inr ⟨.fontCheck, rfl, rfl, h3, by decide⟩⟩
    by_cases h7 : NameHash.isEmpty t = true ∧ s.currentNs = .mathml
    · exact ⟨s, .requestLexeme .annotationXmlStart, by simp [h1, h2, h4, h5, h6, h7], h, rfl, rfl,
        .inr ⟨.annotationXmlStart, rfl, rfl, h3, by decide⟩⟩
    · refine ⟨s, .none, by simp [h1, h2, h3, h4, h5, h6, h7], h, rfl, rfl, .inl ⟨?_, ?_⟩⟩
      · intro b hb; cases hb
      · intro k hk; cases hk


/-! ### end tags -/

def guardEnd (cfg : TagCfg) (s : Sim) (t : Nat) : Sim :=
  if s.strict then { s with guard := Guard.trackEndTag cfg s.guard t } else s

def endCore (cfg : TagCfg) (s : Sim) (t : Nat) : Option (Sim × Feedback) :=
  if s.currentNs == .html then s.checkIntegrationPointExit cfg t
  else if s.shouldLeaveNs cfg t then s.leaveNs
  else some (s, .none)

theorem end_eq (cfg : TagCfg) (s : Sim) (t : Nat) :
    s.feedbackForEndTag cfg t =
      match endCore cfg (guardEnd cfg s t) t with
      | some r => .ok r
      | none => .error (.panic "leave_ns: namespace stack empty") := rfl

theorem guardEnd_eq (cfg : TagCfg) (s : Sim) (t : Nat) :
    ∃ g, guardEnd cfg s t = { s with guard := g } := by
  unfold guardEnd
  by_cases hs : s.strict = true
  · exact ⟨_, by rw [if_pos hs]⟩
  · exact ⟨s.guard, by rw [if_neg hs]⟩

theorem none_fbOk (s : Sim) : FbOk s .none := by
  constructor
  · intro b hb; cases hb
  · intro k hk; cases hk

theorem endCore_good (cfg : TagCfg) (s : Sim) (h : Inv s) (t : Nat) :
    ∃ s' fb, endCore cfg s t = some (s', fb) ∧ Inv s' ∧ s'.guard = s.guard ∧ s'.strict = s.strict ∧
      ((FbOk s' fb) ∨
       (fb = .requestLexeme .annotationXmlEnd ∧ s' = s ∧ ∃ top rest, s.nsStack = s.currentNs :: top :: rest)) := by
  unfold endCore
  by_cases h3 : s.currentNs = .html
  · unfold Sim.checkIntegrationPointExit
    match hs : s.nsStack with
    | [] => exact ⟨s, .none, by simp [h3], h, rfl, rfl, .inl (none_fbOk s)⟩
    | [x] => exact ⟨s, .none, by simp [h3], h, rfl, rfl, .inl (none_fbOk s)⟩
    | x :: prev :: rest =>
      have hx : x = s.currentNs := by have := h.top; rw [hs] at this; simpa using this
      subst hx
      by_cases hc : ((prev == .mathml && cfg.mathmlTextIP.contains t) || (prev == .svg && cfg.svgHtmlIP.contains t)) = true
      · obtain ⟨s', fb, hl, hi, hf, -, hg, hst⟩ := inv_leave s h prev rest hs
        exact ⟨s', fb, by simp only [h3, beq_self_eq_true, if_true, hc, hl], hi, hg, hst, .inl hf⟩
      by_cases hd : (NameHash.isEmpty t && prev == .mathml) = true
      · exact ⟨s, _, by simp only [h3, beq_self_eq_true, if_true, hc, hd]; simp, h, rfl, rfl,
          .inr ⟨rfl, rfl, prev, rest, rfl⟩⟩
      · exact ⟨s, .none, by simp only [h3, beq_self_eq_true, if_true, hc, hd]; simp, h, rfl, rfl,
          .inl (none_fbOk s)⟩
  · have hne : (s.currentNs == .html) = false := by simpa using h3
    simp only [hne, Bool.false_eq_true, if_false]
    by_cases hl : s.shouldLeaveNs cfg t = true
    · obtain ⟨top, rest, hs⟩ := inv_two s h h3
      obtain ⟨s', fb, hl', hi, hf, -, hg, hst⟩ := inv_leave s h top rest hs
      exact ⟨s', fb, by simp [hl, hl'], hi, hg, hst, .inl hf⟩
    · exact ⟨s, .none, by simp [hl], h, rfl, rfl, .inl (none_fbOk s)⟩

/-! ### callbacks -/

theorem callback_start_good (s : Sim) (h : Inv s) (hne : s.currentNs ≠ .html) (k : RLKind)
    (hk : k ≠ .annotationXmlEnd) (v : TagView) (hv : v.isStart = true) :
    ∃ s' fb, s.runCallback k v = some (s', fb) ∧ Inv s' ∧ FbOk s' fb ∧ s'.guard = s.guard ∧ s'.strict = s.strict := by
  obtain ⟨top, rest, hs⟩ := inv_two s h hne
  obtain ⟨sl, fl, hl, hil, hfl, -, hgl, hsl⟩ := inv_leave s h top rest hs
  have he := inv_enter s h .html
  unfold Sim.runCallback
  cases k with
  | annotationXmlEnd => exact absurd rfl hk
  | integrationPointEnter =>
    by_cases hsc : v.selfClosing = true
    · exact ⟨s, .none, by simp [hv, hsc], h, none_fbOk s, rfl, rfl⟩
    · exact ⟨_, _, by simp [hv, hsc], he.1, he.2.1, he.2.2.2.1, he.2.2.2.2⟩
  | fontCheck =>
    simp only [hv, Bool.not_true, Bool.false_eq_true, if_false]
    split
    · exact ⟨sl, fl, hl, hil, hfl, hgl, hsl⟩
    · exact ⟨s, .none, rfl, h, none_fbOk s, rfl, rfl⟩
  | annotationXmlStart =>
    simp only [hv, Bool.not_true, Bool.false_eq_true, if_false]
    split
    · exact ⟨_, _, rfl, he.1, he.2.1, he.2.2.2.1, he.2.2.2.2⟩
    · exact ⟨s, .none, rfl, h, none_fbOk s, rfl, rfl⟩

theorem callback_end_good (s : Sim) (h : Inv s) (top : Ns) (rest : List Ns)
    (hs : s.nsStack = s.currentNs :: top :: rest) (v : TagView) (hv : v.isStart = false) :
    ∃ s' fb, s.runCallback .annotationXmlEnd v = some (s', fb) ∧ Inv s' ∧ FbOk s' fb ∧
      s'.guard = s.guard ∧ s'.strict = s.strict := by
  obtain ⟨sl, fl, hl, hil, hfl, -, hgl, hsl⟩ := inv_leave s h top rest hs
  unfold Sim.runCallback
  simp only [hv, Bool.false_eq_true, if_false]
  split
  · exact ⟨sl, fl, hl, hil, hfl, hgl, hsl⟩
  · exact ⟨s, .none, rfl, h, none_fbOk s, rfl, rfl⟩


/-! ### one tag step, runs -/

theorem inv_guard (s : Sim) (h : Inv s) (g : GuardState) : Inv { s with guard := g } := ⟨h.top, h.bottom⟩

/-- Finishing a step whose feedback is not a request. -/
theorem finish_ok (v : TagView) (s' : Sim) (fb : Feedback) (hf : ∀ k, fb ≠ .requestLexeme k) :
    Sim.finishStep v (.ok (s', fb)) = .ok (s', fb) := by
  cases fb <;> first | rfl | exact absurd rfl (hf _)

theorem finish_req (v : TagView) (s' : Sim) (k : RLKind) (r' : Sim × Feedback)
    (hc : s'.runCallback k v = some r') :
    Sim.finishStep v (.ok (s', .requestLexeme k)) = .ok r' := by
  simp [Sim.finishStep, hc]

/-- **One tag step preserves the invariant and never panics**; the only possible error is the
guard's `ParsingAmbiguityError` on a start tag in strict mode. -/
theorem step_good (cfg : TagCfg) (s : Sim) (h : Inv s) (ev : TagEvent) :
    (∃ s' fb, s.stepTag cfg ev = .ok (s', fb) ∧ Inv s' ∧ FbOk s' fb ∧ s'.strict = s.strict) ∨
    (s.strict = true ∧ ev.view.isStart = true ∧ s.stepTag cfg ev = .error (.ambiguity ev.hash)) := by
  unfold Sim.stepTag
  by_cases hv : ev.view.isStart = true
  · simp only [hv, if_true]
    rw [start_eq]
    rcases guardStart_cases cfg s ev.hash with ⟨g, hg⟩ | ⟨hs, hg⟩
    · left
      rw [hg]
      dsimp only
      obtain ⟨s', fb, he, hi, -, hst, hfb | ⟨k, hk, hs', hne, hkne⟩⟩ :=
        startCore_good cfg { s with guard := g } (inv_guard s h g) ev.hash
      · rw [he]; exact ⟨s', fb, finish_ok _ s' fb hfb.2, hi, hfb, hst⟩
      · subst hk
        obtain ⟨s'', fb', hc, hi', hf', -, hst'⟩ :=
          callback_start_good s' hi (by rw [hs']; exact hne) k hkne ev.view hv
        rw [he]; exact ⟨s'', fb', finish_req _ s' k _ hc, hi', hf', by rw [hst', hst]⟩
    · right
      rw [hg]
      exact ⟨hs, trivial, rfl⟩
  · have hv' : ev.view.isStart = false := by simpa using hv
    left
    simp only [hv', Bool.false_eq_true, if_false]
    rw [end_eq]
    obtain ⟨g, hg⟩ := guardEnd_eq cfg s ev.hash
    rw [hg]
    obtain ⟨s', fb, he, hi, -, hst, hfb | ⟨hk, hs', top, rest, hstack⟩⟩ :=
      endCore_good cfg { s with guard := g } (inv_guard s h g) ev.hash
    · rw [he]
      exact ⟨s', fb, finish_ok _ s' fb hfb.2, hi, hfb, hst⟩
    · subst hk
      rw [he]
      obtain ⟨s'', fb', hc, hi', hf', -, hst'⟩ :=
        callback_end_good s' hi top rest (by rw [hs']; exact hstack) ev.view hv'
      exact ⟨s'', fb', finish_req _ s' _ _ hc, hi', hf', by rw [hst', hst]⟩


theorem run_good (cfg : TagCfg) (evs : List TagEvent) : ∀ s, Inv s →
    (∀ p ∈ (Sim.run cfg s evs).1, Inv p.1 ∧ FbOk p.1 p.2 ∧ p.1.strict = s.strict) ∧
    (∀ e, (Sim.run cfg s evs).2 = some e → s.strict = true ∧ ∃ t, e = .ambiguity t) := by
  induction evs with
  | nil => intro s _; simp [Sim.run]
  | cons ev evs ih =>
    intro s h
    rcases step_good cfg s h ev with ⟨s', fb, he, hi, hf, hst⟩ | ⟨hs, -, he⟩
    · have := ih s' hi
      simp only [Sim.run, he]
      constructor
      · intro p hp
        rcases List.mem_cons.mp hp with rfl | hp
        · exact ⟨hi, hf, hst⟩
        · have := this.1 p hp; exact ⟨this.1, this.2.1, by rw [this.2.2, hst]⟩
      · intro e hE; have := this.2 e hE; exact ⟨by rw [← hst]; exact this.1, this.2⟩
    · simp only [Sim.run, he]
      constructor
      · intro p hp; cases hp
      · intro e hE; injection hE with hE; exact ⟨hs, _, hE.symm⟩

/-- In the HTML namespace with an empty namespace stack, a tag other than `<svg>`/`<math>` leaves the
namespace state alone and answers with the table lookup `get_text_type_adjustment`. -/
theorem step_html (cfg : TagCfg) (s : Sim) (hs : s.nsStack = [.html]) (hc : s.currentNs = .html)
    (ev : TagEvent) (hev : ev.view.isStart = true → ev.hash ≠ cfg.svg ∧ ev.hash ≠ cfg.math) :
    (∃ g, s.stepTag cfg ev = .ok ({ s with guard := g },
        if ev.view.isStart then textTypeAdjustment cfg ev.hash else .none)) ∨
    (s.strict = true ∧ ev.view.isStart = true ∧ s.stepTag cfg ev = .error (.ambiguity ev.hash)) := by
  unfold Sim.stepTag
  by_cases hv : ev.view.isStart = true
  · obtain ⟨h1, h2⟩ := hev hv
    simp only [hv, if_true]
    rw [start_eq]
    rcases guardStart_cases cfg s ev.hash with ⟨g, hg⟩ | ⟨hst, hg⟩
    · left
      refine ⟨g, ?_⟩
      rw [hg]
      dsimp only
      have : startCore cfg { s with guard := g } ev.hash =
          .ok ({ s with guard := g }, textTypeAdjustment cfg ev.hash) := by
        simp [startCore, h1, h2, hc]
      rw [this]
      exact finish_ok _ _ _ (textType_fbOk cfg s ev.hash).2
    · right; rw [hg]; exact ⟨hst, trivial, rfl⟩
  · have hv' : ev.view.isStart = false := by simpa using hv
    left
    simp only [hv', Bool.false_eq_true, if_false]
    rw [end_eq]
    obtain ⟨g, hg⟩ := guardEnd_eq cfg s ev.hash
    refine ⟨g, ?_⟩
    rw [hg]
    have : endCore cfg { s with guard := g } ev.hash = some ({ s with guard := g }, .none) := by
      simp [endCore, hc, Sim.checkIntegrationPointExit, hs]
    rw [this]
    rfl


/-! ### strict mode only adds the guard -/

/-- Forget the guard: the state of the non-strict simulator. -/
def erase (s : Sim) : Sim := { s with guard := .default, strict := false }

def eraseR (r : Sim × Feedback) : Sim × Feedback := (erase r.1, r.2)

theorem leave_erase (s : Sim) : (erase s).leaveNs = s.leaveNs.map eraseR := by
  obtain ⟨st, c, g, b⟩ := s
  match st with
  | [] => rfl
  | [_] => rfl
  | _ :: _ :: _ => rfl

theorem startCore_erase (cfg : TagCfg) (s : Sim) (t : Nat) :
    startCore cfg (erase s) t = (startCore cfg s t).map eraseR := by
  unfold startCore
  by_cases h1 : t = cfg.svg
  · simp [h1]; rfl
  by_cases h2 : t = cfg.math
  · subst h2; simp [h1]; rfl
  by_cases h3 : s.currentNs = .html
  · have : (erase s).currentNs = .html := h3
    simp [h1, h2, h3, this]; rfl
  · have h3' : ¬ (erase s).currentNs = .html := h3
    simp only [beq_iff_eq, h1, h2, if_false, bne_iff_ne, ne_eq, h3, h3', not_false_eq_true, if_true]
    have : (erase s).startTagInForeign cfg t = (s.startTagInForeign cfg t).map eraseR := by
      unfold Sim.startTagInForeign
      rw [leave_erase]
      have hi : (erase s).isIntegrationPointEnter cfg t = s.isIntegrationPointEnter cfg t := rfl
      have hc : (erase s).currentNs = s.currentNs := rfl
      rw [hi, hc]
      repeat' split
      all_goals rfl
    rw [this]
    cases s.startTagInForeign cfg t <;> rfl

theorem endCore_erase (cfg : TagCfg) (s : Sim) (t : Nat) :
    endCore cfg (erase s) t = (endCore cfg s t).map eraseR := by
  unfold endCore
  have hc : (erase s).currentNs = s.currentNs := rfl
  have hl : (erase s).shouldLeaveNs cfg t = s.shouldLeaveNs cfg t := rfl
  rw [hc, hl]
  split
  · unfold Sim.checkIntegrationPointExit
    have hst : (erase s).nsStack = s.nsStack := rfl
    rw [hst]
    split
    · rw [leave_erase]
      repeat' split
      all_goals rfl
    · rfl
  · split
    · exact leave_erase s
    · rfl

theorem callback_erase (s : Sim) (k : RLKind) (v : TagView) :
    (erase s).runCallback k v = (s.runCallback k v).map eraseR := by
  unfold Sim.runCallback
  cases k <;> simp only [leave_erase] <;> (repeat' split) <;> rfl

/-- A successful step of the strict simulator is, guard aside, the step of the non-strict one. -/
theorem step_erase (cfg : TagCfg) (s : Sim) (ev : TagEvent) (s' : Sim) (fb : Feedback)
    (h : s.stepTag cfg ev = .ok (s', fb)) : (erase s).stepTag cfg ev = .ok (erase s', fb) := by
  unfold Sim.stepTag at h ⊢
  have key : ∀ (r : Except Err (Sim × Feedback)) (r' : Except Err (Sim × Feedback)),
      (∀ x, r = .ok x → r' = .ok (eraseR x)) →
      Sim.finishStep ev.view r = .ok (s', fb) → Sim.finishStep ev.view r' = .ok (erase s', fb) := by
    intro r r' hrr hfin
    match r, hfin with
    | .ok (s1, f1), hfin =>
      rw [hrr _ rfl]
      cases f1 with
      | requestLexeme k =>
        simp only [Sim.finishStep, eraseR] at hfin ⊢
        rw [callback_erase]
        cases hcb : s1.runCallback k ev.view with
        | none => rw [hcb] at hfin; cases hfin
        | some x => rw [hcb] at hfin; injection hfin with hfin; subst hfin; rfl
      | switchTextType _ => simp only [Sim.finishStep, eraseR] at hfin ⊢; injection hfin with hfin; cases hfin; rfl
      | setAllowCdata _ => simp only [Sim.finishStep, eraseR] at hfin ⊢; injection hfin with hfin; cases hfin; rfl
      | none => simp only [Sim.finishStep, eraseR] at hfin ⊢; injection hfin with hfin; cases hfin; rfl
  refine key _ _ ?_ h
  intro x hx
  by_cases hv : ev.view.isStart = true
  · simp only [hv, if_true] at hx ⊢
    rw [start_eq] at hx ⊢
    have hg : guardStart cfg (erase s) ev.hash = .ok (erase s) := by simp [guardStart, erase]
    rw [hg]
    dsimp only
    rcases guardStart_cases cfg s ev.hash with ⟨g, hg'⟩ | ⟨-, hg'⟩
    · rw [hg'] at hx
      dsimp only at hx
      have he : erase { s with guard := g } = erase s := rfl
      rw [← he, startCore_erase, hx]; rfl
    · rw [hg'] at hx; cases hx
  · have hv' : ev.view.isStart = false := by simpa using hv
    simp only [hv', Bool.false_eq_true, if_false] at hx ⊢
    rw [end_eq] at hx ⊢
    have hg : guardEnd cfg (erase s) ev.hash = erase s := by simp [guardEnd, erase]
    obtain ⟨g, hg'⟩ := guardEnd_eq cfg s ev.hash
    rw [hg]
    rw [hg'] at hx
    have he : erase { s with guard := g } = erase s := rfl
    rw [← he, endCore_erase]
    cases hec : endCore cfg { s with guard := g } ev.hash with
    | none => rw [hec] at hx; cases hx
    | some y => rw [hec] at hx; injection hx with hx; subst hx; rfl

theorem run_erase (cfg : TagCfg) (evs : List TagEvent) : ∀ s, (Sim.run cfg s evs).2 = none →
    Sim.run cfg (erase s) evs = ((Sim.run cfg s evs).1.map eraseR, none) := by
  induction evs with
  | nil => intro s _; rfl
  | cons ev evs ih =>
    intro s h
    cases hst : s.stepTag cfg ev with
    | error e => simp [Sim.run, hst] at h
    | ok r =>
      obtain ⟨s', fb⟩ := r
      simp only [Sim.run, hst] at h ⊢
      rw [step_erase cfg s ev s' fb hst]
      simp only
      rw [ih s' h]
      rfl

end LolHtml.Lemmas.Sim
