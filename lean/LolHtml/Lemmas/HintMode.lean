import LolHtml.Lemmas.RelexMode
/-!
# The parser never issues a tag hint while a tag hint is outstanding

A third instance of the generic walk (`Lemmas/PhaseWalk.lean`), much simpler than the two of `Lemmas/RelexMode.lean`: for a
sink flag `Pend` that only a hint answered `lex` can raise and that a successful `handle_tag` lowers,

* the tag scanner keeps `Good sink ∧ ¬Pend sink` (a hint answered `scan` does not raise the flag; a hint answered `lex`
  hands over to the lexer);
* the lexer keeps `Good sink`, and hands over to the scanner only after a successful `handle_tag`, i.e. with `¬Pend`.

Unlike `XLaws` the hint laws of `HLaws` are all RELATIVE to `Pend k = false` — so they also hold for a sink whose hints
refuse with `.panic guardSite` when `Pend` is up, and the walk shows that such a sink never refuses: the error class is
`GErr e := e = .panic guardSite`.
-/
set_option linter.unusedSimpArgs false
set_option linter.unusedVariables false

namespace LolHtml.Model

variable {κ : Type}

/-- the error of the probe -/
def GErr (e : Err) : Prop := e = .panic guardSite

theorem GErr.sub {e : Err} (h : GErr e) : U3err e := Or.inr h

theorem GErr.noU {e : Err} (h : ¬ U3err e) : ¬ GErr e := fun hg => h hg.sub

structure HLaws (ops : SinkOps κ) (inp : Bytes) (Pend : κ → Bool) (Good : κ → Prop) : Prop where
  startScan : ∀ n ns k, Pend k = false → (ops.startTagHint n ns k).2 = .ok .scan → Pend (ops.startTagHint n ns k).1 = false
  endScan : ∀ n k, Pend k = false → (ops.endTagHint n k).2 = .ok .scan → Pend (ops.endTagHint n k).1 = false
  goodS : ∀ n ns k, Good k → Pend k = false → Good (ops.startTagHint n ns k).1
  goodE : ∀ n k, Good k → Pend k = false → Good (ops.endTagHint n k).1
  errS : ∀ n ns k e, Pend k = false → (ops.startTagHint n ns k).2 = .error e → ¬ GErr e
  errE : ∀ n k e, Pend k = false → (ops.endTagHint n k).2 = .error e → ¬ GErr e
  goodNT : ∀ lx k, Good k → Good (ops.handleNonTag inp lx k).1
  goodT : ∀ lx k, Good k → Good (ops.handleTag inp lx k).1
  pendT : ∀ lx k d, Good k → (ops.handleTag inp lx k).2 = .ok d → Pend (ops.handleTag inp lx k).1 = false
  errNT : ∀ lx k e, (ops.handleNonTag inp lx k).2 = .error e → ¬ GErr e
  errT : ∀ lx k e, (ops.handleTag inp lx k).2 = .error e → ¬ GErr e

section
variable {env : Env κ} {inp : Bytes} {Pend : κ → Bool} {Good : κ → Prop}

/-! ### the scanner -/

def HScanI (Pend : κ → Bool) (Good : κ → Prop) (_ab : Ab) (m : M κ) : Prop :=
  m.isScanner = true ∧ Good m.x.sink ∧ Pend m.x.sink = false

def HScanJ (Good : κ → Prop) (d : Directive) (_bm : Bookmark) (m : M κ) : Prop :=
  d = .lex ∧ m.isScanner = true ∧ Good m.x.sink

theorem scanEmitHint_H (hx : HLaws env.ops inp Pend Good) (c : Common) (s : ScanRegs) (x : Ctx κ) (ts : Nat) (iet : Bool)
    (hg : Good x.sink) (hp : Pend x.sink = false) (ab : Ab) :
    SigPost GErr (HScanI Pend Good ab) (HScanJ Good) (scanEmitHint env inp c s x ts iet) := by
  unfold scanEmitHint
  split
  · exact GErr.noU (by simp [U3err, U2err, U2, guardSite])
  · rename_i name _
    dsimp only
    cases iet with
    | true =>
      simp only [if_true]
      have g := hx.goodE name x.sink hg hp
      cases hr : (env.ops.endTagHint name x.sink).2 with
      | error e => exact hx.errE _ _ _ hp hr
      | ok d =>
        cases d with
        | scan => exact ⟨rfl, g, hx.endScan name x.sink hp hr⟩
        | lex => exact ⟨rfl, rfl, g⟩
    | false =>
      simp only [Bool.false_eq_true, if_false]
      have g := hx.goodS name x.sim.currentNs x.sink hg hp
      cases hr : (env.ops.startTagHint name x.sim.currentNs x.sink).2 with
      | error e => exact hx.errS _ _ _ _ hp hr
      | ok d =>
        cases d with
        | scan => exact ⟨rfl, g, hx.startScan name _ x.sink hp hr⟩
        | lex => exact ⟨rfl, rfl, g⟩

theorem scanFinishTagName_H (hx : HLaws env.ops inp Pend Good) (c : Common) (s : ScanRegs) (x : Ctx κ)
    (hg : Good x.sink) (hp : Pend x.sink = false) (ab : Ab) :
    SigPost GErr (HScanI Pend Good ab) (HScanJ Good) (scanFinishTagName env inp c s x) := by
  unfold scanFinishTagName
  split
  · exact GErr.noU (by simp [U3err, U2err, U2, guardSite])
  · rename_i ts _
    dsimp only
    have hfb : ∀ r, (if s.isInEndTag = true then x.sim.feedbackForEndTag env.cfg s.tagNameHash
        else x.sim.feedbackForStartTag env.cfg s.tagNameHash) = r → (∀ e, r = .error e → ¬ U3err e) := by
      intro r hr
      subst hr
      cases s.isInEndTag with
      | true =>
        simp only [if_true]
        exact fun e h => feedbackForEndTag_noU2 h
      | false =>
        simp only [Bool.false_eq_true, if_false]
        exact fun e h => feedbackForStartTag_noU2 h
    split
    · rename_i e he
      exact GErr.noU ((hfb _ he) e rfl)
    · rename_i sf he
      try dsimp only
      split
      · exact ⟨rfl, rfl, hg⟩
      · exact scanEmitHint_H hx _ _ { x with sim := sf.1 } _ _ hg hp ab

theorem scan_phinv_H (hx : HLaws env.ops inp Pend Good) : PhInv env inp GErr (HScanI Pend Good) (HScanJ Good) where
  sub := fun e h => h.sub
  frame := fun ab m c' h => h
  adjust := by
    intro ab m h
    obtain ⟨c, s, x, rfl⟩ := scanner_destruct m h.1
    unfold adjustForNextInput
    dsimp only
    split <;> exact h
  enter := by
    intro ab m h
    obtain ⟨c, s, x, rfl⟩ := scanner_destruct m h.1
    exact h
  leave := by
    intro ab m h
    obtain ⟨c, s, x, rfl⟩ := scanner_destruct m h.1
    exact h
  le := fun ab ab' m _ h => h
  act := by
    intro a ab ab' m h _
    obtain ⟨c, s, x, rfl⟩ := scanner_destruct m h.1
    obtain ⟨_, hg, hp⟩ := h
    simp only [act]
    by_cases hfin : a = .finishTagName
    · subst hfin
      simp only [scanAct]
      have := scanFinishTagName_H (inp := inp) hx c s x hg hp ab'
      unfold SigPost at this
      cases hs : (scanFinishTagName env inp c s x).2 with
      | none => simp only [hs] at this ⊢; exact this
      | some sig =>
        cases sig with
        | err e => simp only [hs] at this ⊢; exact ⟨this, fun hh => by simp [silentAct] at hh⟩
        | directive d bm => simp only [hs] at this ⊢; exact ⟨rfl, this⟩
        | endOfInput k => simp only [hs] at this
    · obtain ⟨c', s', hr⟩ := scanAct_ret (env := env) (inp := inp) a hfin c s x
      rw [hr]
      exact ⟨rfl, hg, hp⟩

/-! ### the lexer -/

def HLexI (Good : κ → Prop) (_ab : Ab) (m : M κ) : Prop := ∃ c l x, m = ⟨c, .lexer l, x⟩ ∧ Good x.sink

def HLexJ (Pend : κ → Bool) (Good : κ → Prop) (d : Directive) (_bm : Bookmark) (m : M κ) : Prop :=
  d = .scan ∧ ∃ c l x, m = ⟨c, .lexer l, x⟩ ∧ Good x.sink ∧ Pend x.sink = false

theorem lexEmitNonTag_H (hx : HLaws env.ops inp Pend Good) (c : Common) (l : LexRegs) (x : Ctx κ) (o : Option NonTagOutline)
    (e : Nat) (h : Good x.sink) :
    Quiet GErr (fun m => ∃ l' x', m = ⟨c, .lexer l', x'⟩ ∧ Good x'.sink) (lexEmitNonTag env inp c l x o e) := by
  unfold lexEmitNonTag
  dsimp only
  have hc := hx.goodNT ⟨x.prevConsumed, ⟨l.lexemeStart, e⟩, o⟩ x.sink h
  cases hr : (env.ops.handleNonTag inp ⟨x.prevConsumed, ⟨l.lexemeStart, e⟩, o⟩ x.sink).2 with
  | ok u => exact ⟨⟨_, _, rfl, hc⟩, Or.inl rfl⟩
  | error e' => exact ⟨⟨_, _, rfl, hc⟩, Or.inr ⟨e', rfl, hx.errNT _ _ _ hr⟩⟩

theorem lexEmitText_H (hx : HLaws env.ops inp Pend Good) (c : Common) (l : LexRegs) (x : Ctx κ) (h : Good x.sink) :
    Quiet GErr (fun m => ∃ l' x', m = ⟨c, .lexer l', x'⟩ ∧ Good x'.sink) (lexEmitText env inp c l x) := by
  unfold lexEmitText
  split
  · exact lexEmitNonTag_H hx c l x _ _ h
  · exact ⟨⟨_, _, rfl, h⟩, Or.inl rfl⟩

theorem andThen_eof_H (hx : HLaws env.ops inp Pend Good) (c : Common) (r : M κ × Option Signal)
    (h : Quiet GErr (fun m => ∃ l' x', m = ⟨c, .lexer l', x'⟩ ∧ Good x'.sink) r) :
    Quiet GErr (fun m => ∃ l' x', m = ⟨c, .lexer l', x'⟩ ∧ Good x'.sink) (andThen r (lexEmitEof env inp)) := by
  unfold andThen
  obtain ⟨⟨l', x', hm, hc⟩, h2⟩ := h
  rcases h2 with h2 | ⟨e, h2, h3⟩
  · rw [h2]
    dsimp only
    rw [hm]
    unfold lexEmitEof
    dsimp only
    exact lexEmitNonTag_H hx c l' x' _ _ hc
  · rw [h2]
    exact ⟨⟨l', x', hm, hc⟩, Or.inr ⟨e, rfl, h3⟩⟩

theorem lexEmitTagLexeme_H (hx : HLaws env.ops inp Pend Good) (c : Common) (l : LexRegs) (x : Ctx κ) (sim : Sim)
    (tok : TagOutline) (e : Nat) (ab : Ab) (hg : Good x.sink) :
    SigPost GErr (HLexI Good ab) (HLexJ Pend Good) (lexEmitTagLexeme env inp c l x sim tok e) := by
  unfold lexEmitTagLexeme
  dsimp only
  have g := hx.goodT ⟨x.prevConsumed, ⟨l.lexemeStart, e⟩, tok⟩ x.sink hg
  cases hr : (env.ops.handleTag inp ⟨x.prevConsumed, ⟨l.lexemeStart, e⟩, tok⟩ x.sink).2 with
  | error e' => exact hx.errT _ _ _ hr
  | ok d =>
    have p := hx.pendT _ _ d hg hr
    cases d with
    | lex => exact ⟨_, _, _, rfl, g⟩
    | scan => exact ⟨rfl, _, _, _, rfl, g, p⟩

theorem lexGetFeedback_noU {cfg : TagCfg} {sim : Sim} {fd : FeedbackDirective} {tok : TagOutline} {e : Err}
    (h : lexGetFeedback cfg sim fd tok = .error e) : ¬ U3err e := by
  unfold lexGetFeedback at h
  split at h
  · cases h
  · cases h
  · split at h
    · rename_i hsh _ _ _
      cases hfb : sim.feedbackForStartTag cfg hsh with
      | error e' => rw [hfb] at h; simp [Except.map] at h; subst h; exact feedbackForStartTag_noU2 hfb
      | ok v => rw [hfb] at h; simp [Except.map] at h
    · rename_i hsh
      cases hfb : sim.feedbackForEndTag cfg hsh with
      | error e' => rw [hfb] at h; simp [Except.map] at h; subst h; exact feedbackForEndTag_noU2 hfb
      | ok v => rw [hfb] at h; simp [Except.map] at h

theorem lexHandleFeedback_noG {inp : Bytes} {c : Common} {sim : Sim} {f : Feedback} {o : TagOutline} {e : Err}
    (h : lexHandleFeedback inp c sim f o = .error e) : ¬ GErr e := by
  have hsimple : ∀ (c : Common) (sim : Sim) (f : Feedback),
      (match f with
        | .switchTextType t => (.ok ({ c with lastTextType := t }, sim) : Except Err (Common × Sim))
        | .setAllowCdata b => .ok ({ c with cdataAllowed := b }, sim)
        | .none => .ok (c, sim)
        | .requestLexeme _ => .error (.panic "nested RequestLexeme")) = .error e → ¬ GErr e := by
    intro c sim f h
    cases f
    all_goals first
      | (cases h; done)
      | (simp only [Except.error.injEq] at h; subst h; simp [GErr, guardSite])
  unfold lexHandleFeedback at h
  dsimp only at h
  cases f with
  | requestLexeme k =>
    dsimp only at h
    cases hv : tagViewFor k inp o with
    | none =>
      rw [hv] at h
      simp only [Except.error.injEq] at h; subst h; simp [GErr, guardSite]
    | some v =>
      rw [hv] at h
      dsimp only at h
      cases hcb : sim.runCallback k v with
      | none =>
        rw [hcb] at h
        simp only [Except.error.injEq] at h; subst h; simp [GErr, guardSite]
      | some sf =>
        obtain ⟨s', fb⟩ := sf
        rw [hcb] at h
        exact hsimple c s' fb h
  | switchTextType t => exact hsimple c sim (.switchTextType t) h
  | setAllowCdata b => exact hsimple c sim (.setAllowCdata b) h
  | none => exact hsimple c sim .none h

theorem lexEmitTag_H (hx : HLaws env.ops inp Pend Good) (c : Common) (l : LexRegs) (x : Ctx κ) (ab : Ab)
    (hg : Good x.sink) :
    SigPost GErr (HLexI Good ab) (HLexJ Pend Good) (lexEmitTag env inp c l x) := by
  unfold lexEmitTag
  cases hct : l.curTag with
  | none => exact GErr.noU (by simp [U3err, U2err, U2, guardSite])
  | some tok =>
    dsimp only
    cases hgf : lexGetFeedback env.cfg x.sim l.fd tok with
    | error e => exact GErr.noU (lexGetFeedback_noU hgf)
    | ok sf =>
      dsimp only
      cases hsf : sf.2 with
      | none =>
        dsimp only
        exact lexEmitTagLexeme_H hx _ _ _ _ _ _ _ hg
      | some f =>
        dsimp only
        cases hh : lexHandleFeedback inp { c with lastTextType := .data } sf.1 f tok with
        | error e => exact lexHandleFeedback_noG hh
        | ok cs =>
          dsimp only
          exact lexEmitTagLexeme_H hx _ _ _ _ _ _ _ hg

theorem lex_phinv_H (hx : HLaws env.ops inp Pend Good) : PhInv env inp GErr (HLexI Good) (HLexJ Pend Good) where
  sub := fun e h => h.sub
  frame := by
    intro ab m c' ⟨c, l, x, hm, h⟩
    subst hm
    exact ⟨c', l, x, rfl, h⟩
  adjust := by
    intro ab m ⟨c, l, x, hm, h⟩
    subst hm
    exact ⟨c, _, x, rfl, h⟩
  enter := by
    intro ab m ⟨c, l, x, hm, h⟩
    subst hm
    exact ⟨c, l, x, rfl, h⟩
  leave := by
    intro ab m ⟨c, l, x, hm, h⟩
    subst hm
    exact ⟨c, l, x, rfl, h⟩
  le := fun ab ab' m _ h => h
  act := by
    intro a ab ab' m ⟨c, l, x, hm, h⟩ hp
    subst hm
    simp only [act]
    have hmono : ∀ {r : M κ × Option Signal},
        Quiet GErr (fun m => ∃ l' x', m = ⟨c, .lexer l', x'⟩ ∧ Good x'.sink) r → Quiet GErr (HLexI Good ab') r := by
      intro r ⟨⟨l', x', e1, e2⟩, q⟩
      exact ⟨⟨c, l', x', e1, e2⟩, q⟩
    by_cases hplain : plainAct a = true
    · obtain ⟨c', l', hr, _, _⟩ := lexAct_plain (env := env) (inp := inp) a hplain c l x
      rw [hr]
      exact ⟨c', l', x, rfl, h⟩
    · cases a <;> simp only [plainAct, not_true_eq_false] at hplain <;> simp only [lexAct]
      case emitText => exact (hmono (lexEmitText_H hx c l x h)).act
      case emitTextAndEof => exact (hmono (andThen_eof_H hx c _ (lexEmitText_H hx c l x h))).act
      case emitCurrentToken => exact (hmono (lexEmitNonTag_H hx c { l with curNonTag := none } x _ _ h)).act
      case emitCurrentTokenAndEof =>
        exact (hmono (andThen_eof_H hx c _ (lexEmitNonTag_H hx c { l with curNonTag := none } x _ _ h))).act
      case emitRawWithoutToken => exact (hmono (lexEmitNonTag_H hx c l x _ _ h)).act
      case emitRawWithoutTokenAndEof => exact (hmono (andThen_eof_H hx c _ (lexEmitNonTag_H hx c l x _ _ h))).act
      case emitTag =>
        have := lexEmitTag_H (inp := inp) hx c l x ab' h
        unfold SigPost at this
        cases hs : (lexEmitTag env inp c l x).2 with
        | none => simp only [hs] at this ⊢; exact this
        | some sig =>
          cases sig with
          | err e => simp only [hs] at this ⊢; exact ⟨this, fun hh => by simp [silentAct] at hh⟩
          | directive d bm => simp only [hs] at this ⊢; exact ⟨rfl, this⟩
          | endOfInput k => simp only [hs] at this
      case createStartTag => exact ⟨c, _, x, rfl, h⟩
      case createEndTag => exact ⟨c, _, x, rfl, h⟩
      case finishTagName =>
        cases hct : l.curTag with
        | some t => exact ⟨c, _, x, rfl, h⟩
        | none => exact ⟨GErr.noU (by simp [U3err, U2err, U2, guardSite]), fun hh => by simp [silentAct] at hh⟩
      case updateTagNameHash =>
        cases hb : inp[c.pos]? with
        | none => exact ⟨c, _, x, rfl, h⟩
        | some ch =>
          cases hct : l.curTag with
          | some t => exact ⟨c, _, x, rfl, h⟩
          | none => exact ⟨GErr.noU (by simp [U3err, U2err, U2, guardSite]), fun _ => ⟨c, _, x, rfl, h⟩⟩

/-! ### `Parser.parse` -/

/-- the parser invariant: in tag-scanner mode no tag hint is outstanding -/
def HMode (Pend : κ → Bool) (Good : κ → Prop) (p : Parser κ) : Prop :=
  Good p.x.sink ∧ (p.directive = .scan → Pend p.x.sink = false)

variable {P : PLabels}

theorem parseLoop_H (hx : HLaws env.ops inp Pend Good) (hph : PhaseOk env.tbl P = true) (last : Bool) (n : Nat)
    (p : Parser κ) (h : HMode Pend Good p) :
    (∀ e, (Parser.parseLoop env inp last n p).2 = .error e → ¬ GErr e) ∧
    (∀ k, (Parser.parseLoop env inp last n p).2 = .ok k → HMode Pend Good (Parser.parseLoop env inp last n p).1) := by
  induction n generalizing p with
  | zero =>
    simp only [Parser.parseLoop]
    exact ⟨fun e he => by simp only [Except.error.injEq] at he; subst he; simp [GErr, guardSite], fun k hk => by cases hk⟩
  | succ n ih =>
    cases hd : p.directive with
    | scan =>
      have hm : p.machine last = ⟨{ p.scanC with isLast := last }, .scanner p.scanR, p.x⟩ := by
        simp [Parser.machine, hd]
      have h2 := runLoop_walk (scan_phinv_H hx) hph (defaultFuel inp)
        (⟨{ p.scanC with isLast := last }, .scanner p.scanR, p.x⟩ : M κ) ⟨rfl, h.1, h.2 hd⟩
      simp only [Parser.parseLoop]
      rw [hm]
      unfold LoopPost at h2
      split
      · rename_i consumed hres
        rw [hres] at h2
        obtain ⟨hscan, hg', hp'⟩ := h2
        obtain ⟨c, s, x, hr⟩ := scanner_destruct _ hscan
        rw [hr] at hg' hp' ⊢
        refine ⟨fun e he => (by cases he), fun k hk => ?_⟩
        simp only [HMode, Parser.store, hd]
        exact ⟨hg', fun _ => hp'⟩
      · rename_i d bm hres
        rw [hres] at h2
        obtain ⟨hdl, hscan, hg'⟩ := h2
        subst hdl
        obtain ⟨c, s, x, hr⟩ := scanner_destruct _ hscan
        rw [hr] at hg' ⊢
        apply ih
        simp only [HMode, loadBookmark, Parser.store]
        exact ⟨hg', fun hh => by cases hh⟩
      · exact ⟨fun e he => by simp only [Except.error.injEq] at he; subst he; simp [GErr], fun k hk => by cases hk⟩
      · rename_i e hne hres
        rw [hres] at h2
        exact ⟨fun e' he => by simp only [Except.error.injEq] at he; subst he; exact h2, fun k hk => by cases hk⟩
    | lex =>
      have hm : p.machine last = ⟨{ p.lexC with isLast := last }, .lexer p.lexR, p.x⟩ := by
        simp [Parser.machine, hd]
      have h2 := runLoop_walk (lex_phinv_H hx) hph (defaultFuel inp)
        (⟨{ p.lexC with isLast := last }, .lexer p.lexR, p.x⟩ : M κ) ⟨_, _, _, rfl, h.1⟩
      simp only [Parser.parseLoop]
      rw [hm]
      unfold LoopPost at h2
      split
      · rename_i consumed hres
        rw [hres] at h2
        obtain ⟨c, l, x, hr, hg'⟩ := h2
        rw [hr]
        refine ⟨fun e he => (by cases he), fun k hk => ?_⟩
        simp only [HMode, Parser.store, hd]
        exact ⟨hg', fun hh => by cases hh⟩
      · rename_i d bm hres
        rw [hres] at h2
        obtain ⟨hds, c, l, x, hr, hg', hp'⟩ := h2
        subst hds
        rw [hr]
        apply ih
        simp only [HMode, loadBookmark, Parser.store]
        exact ⟨hg', fun _ => hp'⟩
      · exact ⟨fun e he => by simp only [Except.error.injEq] at he; subst he; simp [GErr], fun k hk => by cases hk⟩
      · rename_i e hne hres
        rw [hres] at h2
        exact ⟨fun e' he => by simp only [Except.error.injEq] at he; subst he; exact h2, fun k hk => by cases hk⟩

/-- **`Parser::parse`** over a sink with `HLaws`: no `.panic guardSite`, and the invariant again -/
theorem parse_H (hx : HLaws env.ops inp Pend Good) (hph : PhaseOk env.tbl P = true) (last : Bool)
    (p : Parser κ) (h : HMode Pend Good p) :
    (∀ e, (Parser.parse env inp last p).2 = .error e → ¬ GErr e) ∧
    (∀ k, (Parser.parse env inp last p).2 = .ok k → HMode Pend Good (Parser.parse env inp last p).1) :=
  parseLoop_H hx hph last _ p h

end

end LolHtml.Model
