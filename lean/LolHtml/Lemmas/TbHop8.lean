import LolHtml.Lemmas.TbHop7
/-!
Preservation of the invariant: frameset modes, "initial", "before html", "before head", "in head noscript",
"after head".
-/
namespace LolHtml.Spec.TreeBuilder
open LolHtml.Model (Ns)

variable {b : Bool} {c : Cfg} {s : State}

theorem frameset_b (hI : Inv b s) (hm : s.mode ∈ framesetModes) : b = true := by
  cases b with
  | true => rfl
  | false => exact absurd hm (hI.modes.2.2.2 rfl).1

set_option maxHeartbeats 8000000 in
theorem inFrameset_inv (hleg : c.legacySelect = false) (hI : Inv b s) (hm : s.mode = .inFrameset) (t : Token)
    (htok : TokOk b t) : InvPost b (inFrameset c s t) := by
  have h1 : s.mode ≠ .text := by simp [hm]
  have h2 : s.mode ≠ .inTableText := by simp [hm]
  have hb : b = true := frameset_b hI (by simp [hm, framesetModes])
  subst hb
  mode_cases t hleg hI h1 h2 htok [inFrameset]

set_option maxHeartbeats 8000000 in
theorem afterFrameset_inv (hleg : c.legacySelect = false) (hI : Inv b s) (hm : s.mode = .afterFrameset) (t : Token)
    (htok : TokOk b t) : InvPost b (afterFrameset c s t) := by
  have h1 : s.mode ≠ .text := by simp [hm]
  have h2 : s.mode ≠ .inTableText := by simp [hm]
  have hb : b = true := frameset_b hI (by simp [hm, framesetModes])
  subst hb
  mode_cases t hleg hI h1 h2 htok [afterFrameset]

set_option maxHeartbeats 8000000 in
theorem afterAfterFrameset_inv (hleg : c.legacySelect = false) (hI : Inv b s) (hm : s.mode = .afterAfterFrameset) (t : Token)
    (htok : TokOk b t) : InvPost b (afterAfterFrameset c s t) := by
  have h1 : s.mode ≠ .text := by simp [hm]
  have h2 : s.mode ≠ .inTableText := by simp [hm]
  have hb : b = true := frameset_b hI (by simp [hm, framesetModes])
  subst hb
  mode_cases t hleg hI h1 h2 htok [afterAfterFrameset]

set_option maxHeartbeats 8000000 in
theorem initial_inv (hleg : c.legacySelect = false) (hI : Inv b s) (hm : s.mode = .initial) (t : Token)
    (htok : TokOk b t) : InvPost b (initial c s t) := by
  have h1 : s.mode ≠ .text := by simp [hm]
  have h2 : s.mode ≠ .inTableText := by simp [hm]
  mode_cases t hleg hI h1 h2 htok [initial]

set_option maxHeartbeats 8000000 in
theorem beforeHtml_inv (hleg : c.legacySelect = false) (hI : Inv b s) (hm : s.mode = .beforeHtml) (t : Token)
    (htok : TokOk b t) : InvPost b (beforeHtml c s t) := by
  have h1 : s.mode ≠ .text := by simp [hm]
  have h2 : s.mode ≠ .inTableText := by simp [hm]
  mode_cases t hleg hI h1 h2 htok [beforeHtml]

set_option maxHeartbeats 8000000 in
theorem inHeadNoscript_inv (hleg : c.legacySelect = false) (hI : Inv b s) (hm : s.mode = .inHeadNoscript) (t : Token)
    (htok : TokOk b t) : InvPost b (inHeadNoscript c s t) := by
  have h1 : s.mode ≠ .text := by simp [hm]
  have h2 : s.mode ≠ .inTableText := by simp [hm]
  mode_cases t hleg hI h1 h2 htok [inHeadNoscript]

end LolHtml.Spec.TreeBuilder
