import LolHtml.Lemmas.Tiling
/-!
Stream-level consequences of the tiling invariant: what one `write` / `end` call does to
"emitted ++ pending", in every outcome (success, error with and without graceful bail-out).
-/
namespace LolHtml.Model

variable {γ : Type}

/-- bytes received but not yet emitted, kept for the next call -/
def Stream.pending (s : Stream γ) : Bytes := if s.hasBuffered then s.buf.data else []

/-- all bytes the sink has received -/
def Stream.emitted (s : Stream γ) : Bytes := sinkBytes s.disp.sink

/-- between calls: nothing of the (now dropped) previous slice is half-emitted, emission is on -/
def Stream.Idle (s : Stream γ) : Prop := s.disp.rcs = 0 ∧ s.disp.emissionEnabled = true

/-- observers that also add nothing at document end / bail-out -/
structure ObservingAll (ctl : Controller γ) : Prop extends Observing ctl where
  handleEnd_empty : ∀ g, (ctl.handleEnd g).2.1.flatten = []

theorem Buf.append_data (b : Buf) (s : Bytes) (h : (b.append s).2 = true) : (b.append s).1.data = b.data ++ s := by
  simp only [Buf.append] at *
  by_cases hc : b.cap - b.data.length < s.length
  · simp only [hc, if_true] at h ⊢
    by_cases hi : (b.increase (s.length + b.data.length - b.cap)).2 = true
    · simp [hi]
    · simp [hi] at h
  · simp [hc]

theorem Buf.append_fail_data (b : Buf) (s : Bytes) (h : (b.append s).2 = false) : (b.append s).1.data = b.data := by
  simp only [Buf.append] at *
  by_cases hc : b.cap - b.data.length < s.length
  · simp only [hc, if_true] at h ⊢
    by_cases hi : (b.increase (s.length + b.data.length - b.cap)).2 = true
    · simp [hi] at h
    · simp only [Buf.increase] at hi ⊢
      simp only [decide_eq_true_eq] at hi
      simp [hi]
  · simp [hc] at h

theorem setDisp_disp (s : Stream γ) (d : Disp γ) : (s.setDisp d).disp = d := rfl
theorem setDisp_buf (s : Stream γ) (d : Disp γ) : (s.setDisp d).buf = s.buf := rfl
theorem setDisp_hasBuffered (s : Stream γ) (d : Disp γ) : (s.setDisp d).hasBuffered = s.hasBuffered := rfl
theorem setDisp_cfg (s : Stream γ) (d : Disp γ) : (s.setDisp d).cfg = s.cfg := rfl

section
variable {w : World γ}

theorem flushRemaining_spec {pre inp : Bytes} {d d' : Disp γ} {consumed : Nat} (h : DInv pre inp d)
    (hf : d.flushRemaining inp consumed = .ok d') :
    sinkBytes d'.sink = pre ++ inp.take consumed ∧ consumed ≤ inp.length ∧ d'.rcs = 0 ∧
    d'.emissionEnabled = true := by
  obtain ⟨a, b, c⟩ := h
  unfold Disp.flushRemaining at hf
  rw [if_pos c] at hf
  split at hf
  · simp at hf
  · rename_i out hs
    obtain ⟨h1, h2, h3⟩ := checkedSlice_some hs
    simp only at h1 h2
    simp only [Except.ok.injEq] at hf
    subst hf
    refine ⟨?_, h2, rfl, ?_⟩
    · split
      · rename_i he
        have : out = [] := by cases out <;> simp_all
        simp only
        rw [a, ← take_append_slice inp d.rcs consumed h1, ← h3, this, List.append_nil]
      · simp only [Disp.push, sinkBytes_append, sinkBytes_chunk, a, h3, List.append_assoc]
        rw [take_append_slice _ _ _ h1]
    · split <;> simpa [Disp.push] using c

theorem flushForBailOut_spec {pre inp : Bytes} {d : Disp γ} (h : sinkBytes d.sink = pre) (hr : d.rcs ≤ inp.length) :
    ∃ d', d.flushForBailOut inp = .ok d' ∧ sinkBytes d'.sink = pre ++ inp.drop d.rcs ∧ d'.rcs = 0 := by
  unfold Disp.flushForBailOut
  have hs : checkedSlice inp ⟨d.rcs, inp.length⟩ = some (inp.drop d.rcs) := by
    unfold checkedSlice
    simp [hr, slice]
  rw [hs]
  refine ⟨_, rfl, ?_, rfl⟩
  · split
    · rename_i he
      have : inp.drop d.rcs = [] := by
        cases hh : inp.drop d.rcs with
        | nil => rfl
        | cons x xs => simp [hh] at he
      simp [h, this]
    · simp [Disp.push, h]

end
end LolHtml.Model

namespace LolHtml.Model
variable {γ : Type} {w : World γ}

theorem Stream.chunkFor_inr {s s1 : Stream γ} {data chunk : Bytes} (h : s.chunkFor w data = .inr (s1, chunk)) :
    chunk = s.pending ++ data ∧ s1.parser = s.parser ∧ s1.hasBuffered = s.hasBuffered ∧ s1.cfg = s.cfg ∧
    (s.hasBuffered = true → s1.buf.data = chunk) := by
  unfold Stream.chunkFor at h
  by_cases hb : s.hasBuffered = true
  · simp only [hb, if_true] at h
    by_cases ha : (s.buf.append data).2 = true
    · simp only [ha, if_true, Sum.inr.injEq, Prod.mk.injEq] at h
      obtain ⟨h1, h2⟩ := h
      subst h1
      have := Buf.append_data _ _ ha
      refine ⟨?_, rfl, by simp [hb], rfl, fun _ => ?_⟩
      · rw [← h2, this]; simp [Stream.pending, hb]
      · exact h2
    · simp [ha] at h
  · simp only [hb] at h
    simp only [Bool.false_eq_true, if_false, Sum.inr.injEq, Prod.mk.injEq] at h
    obtain ⟨h1, h2⟩ := h
    subst h1 h2
    refine ⟨by simp [Stream.pending, hb], rfl, rfl, rfl, fun h => absurd h hb⟩

theorem Stream.parse_DInv (hobs : Observing w.ctl) (s : Stream γ) (chunk : Bytes) (last : Bool) (hi : s.Idle) :
    DInv s.emitted chunk (s.parser.parse w.env chunk last).1.x.sink := by
  apply Parser.parse_sink (P := DInv s.emitted chunk) (dispOps_DInv hobs)
  obtain ⟨h1, h2⟩ := hi
  simp only [Stream.disp] at h1 h2
  exact ⟨by simp [Stream.emitted, Stream.disp, h1], by omega, h2⟩

theorem Stream.keepTail_ok {s : Stream γ} {data chunk : Bytes} {consumed : Nat}
    (hc : consumed ≤ chunk.length) (hbuf : s.hasBuffered = true → s.buf.data = chunk)
    (hnb : s.hasBuffered = false → data = chunk)
    (h : (s.keepTail w data chunk consumed).2 = .ok ()) :
    (s.keepTail w data chunk consumed).1.pending = chunk.drop consumed ∧
    (s.keepTail w data chunk consumed).1.disp = s.disp := by
  unfold Stream.keepTail at *
  by_cases hlt : consumed < chunk.length
  · simp only [hlt, if_true] at h ⊢
    by_cases hb : s.hasBuffered = true
    · simp only [hb, if_true] at h ⊢
      unfold Buf.shift at *
      rw [hbuf hb] at *
      simp only [hc, if_true] at h ⊢
      simp [Stream.pending, hb, Stream.disp]
    · have hb' : s.hasBuffered = false := by simpa using hb
      simp only [hb', Bool.false_eq_true, if_false] at h ⊢
      by_cases hi : (s.buf.initWith (data.drop consumed)).2 = true
      · simp only [hi, if_true] at h ⊢
        have := Buf.append_data { s.buf with data := [] } (data.drop consumed) (by simpa [Buf.initWith] using hi)
        simp only [Stream.pending, if_true]
        simp only [Buf.initWith] at *
        rw [this, hnb hb']
        simp [Stream.disp]
      · simp [hi] at h
  · simp only [hlt, if_false]
    have : consumed = chunk.length := by omega
    simp [Stream.pending, this, Stream.disp]

/-- **One successful `write`**: nothing is lost, nothing is duplicated, the stream is idle again. -/
theorem Stream.write_ok (hobs : Observing w.ctl) (s : Stream γ) (data : Bytes) (hi : s.Idle)
    (h : (s.write w data).2 = .ok ()) :
    (s.write w data).1.Idle ∧
    (s.write w data).1.emitted ++ (s.write w data).1.pending = s.emitted ++ s.pending ++ data := by
  unfold Stream.write at *
  cases hcf : s.chunkFor w data with
  | inl s' => simp [hcf] at h
  | inr sc =>
    obtain ⟨s1, chunk⟩ := sc
    obtain ⟨c1, c2, c3, c4, c5⟩ := Stream.chunkFor_inr hcf
    simp only [hcf] at h ⊢
    have hidle1 : s1.Idle := by simpa [Stream.Idle, Stream.disp, c2] using hi
    have hem : s1.emitted = s.emitted := by simp [Stream.emitted, Stream.disp, c2]
    have hD := Stream.parse_DInv hobs s1 chunk false hidle1
    cases hpr : (s1.parser.parse w.env chunk false).2 with
    | error e => simp [hpr] at h
    | ok consumed =>
      simp only [hpr] at h ⊢
      cases hfl : Disp.flushRemaining (Stream.disp { s1 with parser := (s1.parser.parse w.env chunk false).1 }) chunk consumed with
      | error e => simp [hfl] at h
      | ok d =>
        simp only [hfl] at h ⊢
        obtain ⟨f1, f2, f3, f4⟩ := flushRemaining_spec (d := Stream.disp { s1 with parser := (s1.parser.parse w.env chunk false).1 }) hD hfl
        have hk := Stream.keepTail_ok (w := w) (s := Stream.setDisp { s1 with parser := (s1.parser.parse w.env chunk false).1 } d)
          (data := data) (chunk := chunk) (consumed := consumed) f2
          (by intro hb; exact c5 (by simpa [Stream.setDisp, c3] using hb))
          (by intro hb
              have : s.hasBuffered = false := by simpa [Stream.setDisp, c3] using hb
              rw [c1]; simp [Stream.pending, this])
          h
        obtain ⟨k1, k2⟩ := hk
        refine ⟨?_, ?_⟩
        · simp only [Stream.Idle, k2, setDisp_disp]; exact ⟨f3, f4⟩
        · rw [k1]
          simp only [Stream.emitted, k2, setDisp_disp, f1]
          rw [List.append_assoc, List.take_append_drop, c1]
          simp only [Stream.emitted] at hem
          rw [hem]
          simp [List.append_assoc]

end LolHtml.Model

namespace LolHtml.Model
variable {γ : Type} {w : World γ}

/-- **A successful `end`**: everything still pending is emitted; observers add nothing. -/
theorem Stream.end_ok (hobs : ObservingAll w.ctl) (s : Stream γ) (hi : s.Idle) (h : (s.end w).2 = .ok ()) :
    (s.end w).1.emitted = s.emitted ++ s.pending := by
  unfold Stream.end at *
  have hD := Stream.parse_DInv hobs.toObserving s (if s.hasBuffered = true then s.buf.data else []) true hi
  generalize hchunk : (if s.hasBuffered = true then s.buf.data else []) = chunk at *
  have hp : s.pending = chunk := by simp [Stream.pending, hchunk]
  cases hpr : (s.parser.parse w.env chunk true).2 with
  | error e => simp [hpr] at h
  | ok consumed =>
    simp only [hpr] at h ⊢
    simp only [Stream.emitted, setDisp_disp]
    unfold Disp.finish at *
    cases hfl : Disp.flushRemaining (Stream.disp { s with parser := (s.parser.parse w.env chunk true).1 }) chunk chunk.length with
    | error e => simp [hfl, DRes.ofExcept, DRes.bind] at h
    | ok d =>
      obtain ⟨f1, _, _, _⟩ := flushRemaining_spec (d := Stream.disp { s with parser := (s.parser.parse w.env chunk true).1 }) hD hfl
      simp only [hfl, DRes.ofExcept, DRes.bind] at h ⊢
      have := hobs.handleEnd_empty d.ctl
      cases he : (w.ctl.handleEnd d.ctl).2.2 with
      | some e => simp [he] at h
      | none =>
        simp only [he]
        simp only [sinkBytes_append, sinkBytes_chunks, sinkBytes_chunk, this, List.append_nil, f1, List.take_length, hp]
        rfl

end LolHtml.Model

namespace LolHtml.Model
variable {γ : Type} {w : World γ}

theorem Stream.bail_off (s : Stream γ) (e : Err) (slices : List Bytes) (h : s.shouldBailOutFor e = false) :
    s.bail w e slices = s := by
  unfold Stream.bail; simp [h]

theorem runBailOut_spec (d : Disp γ) (e : Err) :
    ∃ bo, sinkBytes (d.runBailOut w.ctl e).sink = sinkBytes d.sink ++ bo ∧ (d.runBailOut w.ctl e).rcs = d.rcs := by
  refine ⟨(w.ctl.bailOut d.ctl e).2.flatten, ?_, rfl⟩
  simp [Disp.runBailOut]

/-- graceful bail-out with one slice to flush -/
theorem Stream.bail_one (s : Stream γ) (e : Err) (chunk pre : Bytes) (h : sinkBytes s.disp.sink = pre)
    (hr : s.disp.rcs ≤ chunk.length) (hb : s.shouldBailOutFor e = true) :
    ∃ bo, (s.bail w e [chunk]).emitted = pre ++ bo ++ chunk.drop s.disp.rcs ∧
      (s.bail w e [chunk]).bailOutRuns = s.bailOutRuns + 1 := by
  obtain ⟨bo, hbo, hrcs⟩ := runBailOut_spec (w := w) s.disp e
  obtain ⟨d', hd', hs', _⟩ := flushForBailOut_spec (inp := chunk) (d := s.disp.runBailOut w.ctl e) (pre := pre ++ bo)
    (by rw [hbo, h]) (by rw [hrcs]; exact hr)
  refine ⟨bo, ?_, ?_⟩
  · simp only [Stream.disp] at hd' hs' hrcs
    simp only [Stream.bail, hb, if_true, List.foldl_cons, List.foldl_nil, Stream.emitted, Stream.disp, Stream.setDisp, hd']
    rw [hs', hrcs]
  · simp [Stream.bail, hb]

/-- graceful bail-out with two slices (buffered tail, then the rejected new data), from an idle stream -/
theorem Stream.bail_two (s : Stream γ) (e : Err) (a b pre : Bytes) (h : sinkBytes s.disp.sink = pre)
    (hr : s.disp.rcs = 0) (hb : s.shouldBailOutFor e = true) :
    ∃ bo, (s.bail w e [a, b]).emitted = pre ++ bo ++ a ++ b ∧
      (s.bail w e [a, b]).bailOutRuns = s.bailOutRuns + 1 := by
  obtain ⟨bo, hbo, hrcs⟩ := runBailOut_spec (w := w) s.disp e
  obtain ⟨d1, hd1, hs1, hr1⟩ := flushForBailOut_spec (inp := a) (d := s.disp.runBailOut w.ctl e) (pre := pre ++ bo)
    (by rw [hbo, h]) (by rw [hrcs, hr]; omega)
  obtain ⟨d2, hd2, hs2, _⟩ := flushForBailOut_spec (inp := b) (d := d1) (pre := pre ++ bo ++ a)
    (by rw [hs1, hrcs, hr]; simp) (by rw [hr1]; omega)
  refine ⟨bo, ?_, ?_⟩
  · simp only [Stream.disp] at hd1 hd2
    simp only [Stream.bail, hb, if_true, List.foldl_cons, List.foldl_nil, Stream.emitted, Stream.disp, Stream.setDisp, hd1, hd2]
    rw [hs2, hr1]; simp
  · simp [Stream.bail, hb]

end LolHtml.Model

namespace LolHtml.Model
variable {γ : Type} {w : World γ}

theorem Stream.chunkFor_inl {s s' : Stream γ} {data : Bytes} (h : s.chunkFor w data = .inl s') :
    s.hasBuffered = true ∧ s' = ({ s with buf := (s.buf.append data).1 }).bail w .mem [s.buf.data, data] := by
  unfold Stream.chunkFor at h
  by_cases hb : s.hasBuffered = true
  · rw [if_pos hb] at h
    by_cases ha : (s.buf.append data).2 = true
    · simp [ha] at h
    · dsimp only at h
      rw [if_neg ha] at h
      simp only [Sum.inl.injEq] at h
      exact ⟨hb, h.symm⟩
  · simp [hb] at h

/-- What a failing call leaves in the sink (`inp` = everything received and not emitted before the
call, plus the new data): the emitted prefix `inp.take k`; with the matching graceful flag on,
followed by the bail-out handlers' output `bo` and every remaining byte `inp.drop k`. -/
def FailOutcome (s s' : Stream γ) (inp : Bytes) (e : Err) : Prop :=
  ∃ k bo, k ≤ inp.length ∧
    (if s.shouldBailOutFor e = true then
      s'.emitted = s.emitted ++ inp.take k ++ bo ++ inp.drop k ∧ s'.bailOutRuns = s.bailOutRuns + 1
     else s'.emitted = s.emitted ++ inp.take k ∧ s'.bailOutRuns = s.bailOutRuns)

/-- failure while keeping the unconsumed tail: only the memory limit of `init_with` -/
theorem Stream.keepTail_err {s : Stream γ} {data chunk : Bytes} {consumed : Nat} (hc : consumed ≤ chunk.length)
    (hbuf : s.hasBuffered = true → s.buf.data = chunk) (hnb : s.hasBuffered = false → data = chunk)
    (hrcs : s.disp.rcs = 0) (e : Err) (h : (s.keepTail w data chunk consumed).2 = .error e) :
    e = .mem ∧
    (if s.shouldBailOutFor .mem = true then
      ∃ bo, (s.keepTail w data chunk consumed).1.emitted = s.emitted ++ bo ++ chunk.drop consumed ∧
        (s.keepTail w data chunk consumed).1.bailOutRuns = s.bailOutRuns + 1
     else (s.keepTail w data chunk consumed).1.emitted = s.emitted ∧
        (s.keepTail w data chunk consumed).1.bailOutRuns = s.bailOutRuns) := by
  unfold Stream.keepTail at h ⊢
  by_cases hlt : consumed < chunk.length
  · rw [if_pos hlt] at h ⊢
    by_cases hb : s.hasBuffered = true
    · rw [if_pos hb] at h
      have : s.buf.shift consumed = some { s.buf with data := s.buf.data.drop consumed } := by
        unfold Buf.shift; rw [hbuf hb]; simp [hc]
      rw [this] at h
      simp at h
    · rw [if_neg hb] at h ⊢
      have hb' : s.hasBuffered = false := by simpa using hb
      dsimp only at h ⊢
      by_cases hiw : (s.buf.initWith (data.drop consumed)).2 = true
      · rw [if_pos hiw] at h; simp at h
      · rw [if_neg hiw] at h ⊢
        simp only [Except.error.injEq] at h
        refine ⟨h.symm, ?_⟩
        by_cases hbail : s.shouldBailOutFor .mem = true
        · rw [if_pos hbail]
          obtain ⟨bo, h1, h2⟩ := Stream.bail_one (w := w) { s with buf := (s.buf.initWith (data.drop consumed)).1 }
            .mem (data.drop consumed) s.emitted rfl (by simp [Stream.disp] at hrcs ⊢; omega)
            (by simpa [Stream.shouldBailOutFor] using hbail)
          refine ⟨bo, ?_, h2⟩
          rw [h1, hnb hb']
          simp only [Stream.disp] at hrcs ⊢
          rw [hrcs]; simp
        · rw [if_neg hbail]
          have hoff : s.shouldBailOutFor .mem = false := by simpa using hbail
          rw [Stream.bail_off _ _ _ (by simpa [Stream.shouldBailOutFor] using hoff)]
          exact ⟨rfl, rfl⟩
  · rw [if_neg hlt] at h; simp at h

/-- **A failing `write`.** -/
theorem Stream.write_err (hobs : Observing w.ctl) (s : Stream γ) (data : Bytes) (hi : s.Idle) (e : Err)
    (h : (s.write w data).2 = .error e) : FailOutcome s (s.write w data).1 (s.pending ++ data) e := by
  unfold Stream.write at *
  cases hcf : s.chunkFor w data with
  | inl s' =>
    simp only [hcf, Except.error.injEq] at h ⊢
    subst h
    obtain ⟨hb, hs'⟩ := Stream.chunkFor_inl hcf
    subst hs'
    refine ⟨0, ?_⟩
    by_cases hbail : s.shouldBailOutFor .mem = true
    · obtain ⟨bo, h1, h2⟩ := Stream.bail_two (w := w) ({ s with buf := (s.buf.append data).1 }) .mem s.buf.data data
        s.emitted rfl hi.1 hbail
      refine ⟨bo, Nat.zero_le _, ?_⟩
      simp only [hbail, if_true]
      refine ⟨?_, h2⟩
      rw [h1]; simp [Stream.pending, hb, List.append_assoc]
    · have hoff : s.shouldBailOutFor .mem = false := by simpa using hbail
      refine ⟨[], Nat.zero_le _, ?_⟩
      simp only [hoff, Bool.false_eq_true, if_false]
      rw [Stream.bail_off { s with buf := (s.buf.append data).1 } _ _ (by simpa [Stream.shouldBailOutFor] using hoff)]
      simp [Stream.emitted, Stream.disp]
  | inr sc =>
    obtain ⟨s1, chunk⟩ := sc
    obtain ⟨c1, c2, c3, c4, c5⟩ := Stream.chunkFor_inr hcf
    simp only [hcf] at h ⊢
    have hidle1 : s1.Idle := by simpa [Stream.Idle, Stream.disp, c2] using hi
    have hem : s1.emitted = s.emitted := by simp [Stream.emitted, Stream.disp, c2]
    have hsb : ∀ e, s1.shouldBailOutFor e = s.shouldBailOutFor e := by
      intro e; simp [Stream.shouldBailOutFor, c4]
    have hD := Stream.parse_DInv hobs s1 chunk false hidle1
    rw [← c1]
    have hruns : s1.bailOutRuns = s.bailOutRuns := by
      unfold Stream.chunkFor at hcf
      by_cases hb : s.hasBuffered = true
      · rw [if_pos hb] at hcf
        by_cases ha : (s.buf.append data).2 = true
        · dsimp only at hcf
          rw [if_pos ha] at hcf
          simp only [Sum.inr.injEq, Prod.mk.injEq] at hcf
          rw [← hcf.1]
        · simp [ha] at hcf
      · rw [if_neg hb] at hcf
        simp only [Sum.inr.injEq, Prod.mk.injEq] at hcf
        rw [← hcf.1]
    cases hpr : (s1.parser.parse w.env chunk false).2 with
    | error e' =>
      simp only [hpr, Except.error.injEq] at h ⊢
      subst h
      obtain ⟨a, b, c⟩ := hD
      refine ⟨(s1.parser.parse w.env chunk false).1.x.sink.rcs, ?_⟩
      by_cases hbail : s.shouldBailOutFor e' = true
      · obtain ⟨bo, h1, h2⟩ := Stream.bail_one (w := w) { s1 with parser := (s1.parser.parse w.env chunk false).1 } e' chunk
          (s1.emitted ++ chunk.take (s1.parser.parse w.env chunk false).1.x.sink.rcs) (by simpa [Stream.disp] using a)
          (by simpa [Stream.disp] using b) (by simpa [Stream.shouldBailOutFor, c4] using (hsb e').trans hbail)
        refine ⟨bo, b, ?_⟩
        simp only [hbail, if_true]
        refine ⟨?_, by rw [h2, hruns]⟩
        rw [h1, hem]; simp [Stream.disp]
      · have hoff : s.shouldBailOutFor e' = false := by simpa using hbail
        refine ⟨[], b, ?_⟩
        simp only [hoff, Bool.false_eq_true, if_false]
        rw [Stream.bail_off { s1 with parser := (s1.parser.parse w.env chunk false).1 } _ _
          (by simpa [Stream.shouldBailOutFor, c4] using (hsb e').trans hoff)]
        refine ⟨?_, hruns⟩
        rw [← hem]
        simpa [Stream.emitted, Stream.disp] using a
    | ok consumed =>
      simp only [hpr] at h ⊢
      cases hfl : Disp.flushRemaining (Stream.disp { s1 with parser := (s1.parser.parse w.env chunk false).1 }) chunk consumed with
      | error e' =>
        simp only [hfl, Except.error.injEq] at h ⊢
        subst h
        -- flush_remaining_input fails only on an out-of-range slice: a panic-class error, never recovered
        obtain ⟨a, b, c⟩ := hD
        have hpanic : ∃ m, e' = .panic m := by
          unfold Disp.flushRemaining at hfl
          simp only [Stream.disp, c, if_true] at hfl
          split at hfl
          · simp only [Except.error.injEq] at hfl; exact ⟨_, hfl.symm⟩
          · simp at hfl
        obtain ⟨m, rfl⟩ := hpanic
        refine ⟨(s1.parser.parse w.env chunk false).1.x.sink.rcs, [], b, ?_⟩
        simp only [Stream.shouldBailOutFor, Settings.recovers, Bool.false_eq_true, if_false]
        refine ⟨?_, hruns⟩
        rw [← hem]
        simpa [Stream.emitted, Stream.disp] using a
      | ok d =>
        simp only [hfl] at h ⊢
        obtain ⟨f1, f2, f3, f4⟩ := flushRemaining_spec (d := Stream.disp { s1 with parser := (s1.parser.parse w.env chunk false).1 }) hD hfl
        obtain ⟨k1, k2⟩ := Stream.keepTail_err (w := w)
          (s := Stream.setDisp { s1 with parser := (s1.parser.parse w.env chunk false).1 } d)
          (data := data) (chunk := chunk) (consumed := consumed) f2
          (by intro hb; exact c5 (by simpa [Stream.setDisp, c3] using hb))
          (by intro hb
              have : s.hasBuffered = false := by simpa [Stream.setDisp, c3] using hb
              rw [c1]; simp [Stream.pending, this])
          (by simpa [setDisp_disp] using f3) e h
        subst k1
        have hsb2 : (Stream.setDisp { s1 with parser := (s1.parser.parse w.env chunk false).1 } d).shouldBailOutFor .mem
            = s.shouldBailOutFor .mem := by
          simpa [Stream.shouldBailOutFor, Stream.setDisp, c4] using hsb .mem
        have hem2 : (Stream.setDisp { s1 with parser := (s1.parser.parse w.env chunk false).1 } d).emitted
            = s.emitted ++ chunk.take consumed := by
          simp only [Stream.emitted, setDisp_disp, f1]
          simp only [Stream.emitted] at hem
          rw [hem]
        rw [hsb2] at k2
        refine ⟨consumed, ?_⟩
        by_cases hbail : s.shouldBailOutFor .mem = true
        · rw [if_pos hbail] at k2
          obtain ⟨bo, k3, k4⟩ := k2
          refine ⟨bo, f2, ?_⟩
          rw [if_pos hbail]
          exact ⟨by rw [k3, hem2], by rw [k4]; simpa [Stream.setDisp] using hruns⟩
        · rw [if_neg hbail] at k2
          refine ⟨[], f2, ?_⟩
          rw [if_neg hbail]
          exact ⟨by rw [k2.1, hem2], by rw [k2.2]; simpa [Stream.setDisp] using hruns⟩

end LolHtml.Model

namespace LolHtml.Model
variable {γ : Type} {w : World γ}

/-- **A failing `end`**: either the parser failed (then as for `write`), or an end handler failed —
after every received byte had already been emitted; the bail-out handlers are not run then. -/
theorem Stream.end_err (hobs : ObservingAll w.ctl) (s : Stream γ) (hi : s.Idle) (e : Err)
    (h : (s.end w).2 = .error e) :
    FailOutcome s (s.end w).1 s.pending e ∨
    ((s.end w).1.emitted = s.emitted ++ s.pending ∧ (s.end w).1.bailOutRuns = s.bailOutRuns) := by
  unfold Stream.end at *
  have hD := Stream.parse_DInv hobs.toObserving s (if s.hasBuffered = true then s.buf.data else []) true hi
  generalize hchunk : (if s.hasBuffered = true then s.buf.data else []) = chunk at *
  have hp : s.pending = chunk := by simp [Stream.pending, hchunk]
  rw [hp]
  cases hpr : (s.parser.parse w.env chunk true).2 with
  | error e' =>
    left
    simp only [hpr, Except.error.injEq] at h ⊢
    subst h
    obtain ⟨a, b, c⟩ := hD
    refine ⟨(s.parser.parse w.env chunk true).1.x.sink.rcs, ?_⟩
    by_cases hbail : s.shouldBailOutFor e' = true
    · obtain ⟨bo, h1, h2⟩ := Stream.bail_one (w := w) { s with parser := (s.parser.parse w.env chunk true).1 } e' chunk
        (s.emitted ++ chunk.take (s.parser.parse w.env chunk true).1.x.sink.rcs) (by simpa [Stream.disp] using a)
        (by simpa [Stream.disp] using b) (by simpa [Stream.shouldBailOutFor] using hbail)
      refine ⟨bo, b, ?_⟩
      simp only [hbail, if_true]
      exact ⟨by rw [h1]; simp [Stream.disp], h2⟩
    · have hoff : s.shouldBailOutFor e' = false := by simpa using hbail
      refine ⟨[], b, ?_⟩
      simp only [hoff, Bool.false_eq_true, if_false]
      rw [Stream.bail_off { s with parser := (s.parser.parse w.env chunk true).1 } _ _
        (by simpa [Stream.shouldBailOutFor] using hoff)]
      exact ⟨by simpa [Stream.emitted, Stream.disp] using a, rfl⟩
  | ok consumed =>
    right
    simp only [hpr] at h ⊢
    simp only [Stream.emitted, setDisp_disp]
    unfold Disp.finish at *
    cases hfl : Disp.flushRemaining (Stream.disp { s with parser := (s.parser.parse w.env chunk true).1 }) chunk chunk.length with
    | error e' =>
      -- impossible: rcs ≤ chunk.length
      exfalso
      obtain ⟨a, b, c⟩ := hD
      unfold Disp.flushRemaining at hfl
      simp only [Stream.disp, c, if_true] at hfl
      have : checkedSlice chunk ⟨(s.parser.parse w.env chunk true).1.x.sink.rcs, chunk.length⟩
          = some (chunk.drop (s.parser.parse w.env chunk true).1.x.sink.rcs) := by
        unfold checkedSlice; simp [b, slice]
      rw [this] at hfl
      simp at hfl
    | ok d =>
      obtain ⟨f1, _, _, _⟩ := flushRemaining_spec (d := Stream.disp { s with parser := (s.parser.parse w.env chunk true).1 }) hD hfl
      simp only [hfl, DRes.ofExcept, DRes.bind] at h ⊢
      have := hobs.handleEnd_empty d.ctl
      cases he : (w.ctl.handleEnd d.ctl).2.2 with
      | none => simp [he] at h
      | some e' =>
        simp only [he]
        refine ⟨?_, rfl⟩
        simp only [sinkBytes_append, sinkBytes_chunks, this, List.append_nil, f1, List.take_length]
        rfl

end LolHtml.Model


namespace LolHtml.Model
variable {γ : Type} {w : World γ}

theorem Stream.bail_cfg (s : Stream γ) (e : Err) (sl : List Bytes) : (s.bail w e sl).cfg = s.cfg := by
  unfold Stream.bail; split <;> rfl

theorem Stream.keepTail_cfg (s : Stream γ) (data chunk : Bytes) (c : Nat) : (s.keepTail w data chunk c).1.cfg = s.cfg := by
  unfold Stream.keepTail
  split
  · split
    · split <;> rfl
    · dsimp only
      split
      · rfl
      · rw [Stream.bail_cfg]
  · rfl

/-- the settings never change -/
theorem Stream.write_cfg (s : Stream γ) (data : Bytes) : (s.write w data).1.cfg = s.cfg := by
  unfold Stream.write
  cases hcf : s.chunkFor w data with
  | inl s' =>
    obtain ⟨_, hs'⟩ := Stream.chunkFor_inl hcf
    subst hs'
    rw [Stream.bail_cfg]
  | inr sc =>
    obtain ⟨s1, chunk⟩ := sc
    obtain ⟨_, _, _, c4, _⟩ := Stream.chunkFor_inr hcf
    dsimp only
    split
    · rw [Stream.bail_cfg]; exact c4
    · split
      · exact c4
      · rw [Stream.keepTail_cfg]; exact c4

end LolHtml.Model
