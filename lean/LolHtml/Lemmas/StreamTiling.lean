import LolHtml.Lemmas.Tiling
/-!
Stream-level consequences of the tiling invariant: what one `write` / `end` call does to
"emitted ++ pending", in every outcome (success, error with and without graceful bail-out).
-/
namespace LolHtml.Model

variable {γ : Type}

/-- bytes received but not yet emitted, kept for the next call -/
def Stream.pending (s : Stream γ) : Bytes := if s.hasBuffered then s.buf.data else []

/-- all bytes the sink has received -/
def Stream.emitted (s : Stream γ) : Bytes := sinkBytes s.disp.sink

/-- between calls: nothing of the (now dropped) previous slice is half-emitted, emission is on -/
def Stream.Idle (s : Stream γ) : Prop := s.disp.rcs = 0 ∧ s.disp.emissionEnabled = true

/-- observers that also add nothing at document end / bail-out -/
structure ObservingAll (ctl : Controller γ) : Prop extends Observing ctl where
  handleEnd_empty : ∀ g cs, (ctl.handleEnd g).2 = .ok cs → cs.flatten = []

theorem Buf.append_data (b : Buf) (s : Bytes) (h : (b.append s).2 = true) : (b.append s).1.data = b.data ++ s := by
  simp only [Buf.append] at *
  by_cases hc : b.cap - b.data.length < s.length
  · simp only [hc, if_true] at h ⊢
    by_cases hi : (b.increase (s.length + b.data.length - b.cap)).2 = true
    · simp [hi]
    · simp [hi] at h
  · simp [hc]

theorem Buf.append_fail_data (b : Buf) (s : Bytes) (h : (b.append s).2 = false) : (b.append s).1.data = b.data := by
  simp only [Buf.append] at *
  by_cases hc : b.cap - b.data.length < s.length
  · simp only [hc, if_true] at h ⊢
    by_cases hi : (b.increase (s.length + b.data.length - b.cap)).2 = true
    · simp [hi] at h
    · simp only [Buf.increase] at hi ⊢
      simp only [decide_eq_true_eq] at hi
      simp [hi]
  · simp [hc] at h

theorem setDisp_disp (s : Stream γ) (d : Disp γ) : (s.setDisp d).disp = d := rfl
theorem setDisp_buf (s : Stream γ) (d : Disp γ) : (s.setDisp d).buf = s.buf := rfl
theorem setDisp_hasBuffered (s : Stream γ) (d : Disp γ) : (s.setDisp d).hasBuffered = s.hasBuffered := rfl
theorem setDisp_cfg (s : Stream γ) (d : Disp γ) : (s.setDisp d).cfg = s.cfg := rfl

section
variable {w : World γ}

theorem flushRemaining_spec {pre inp : Bytes} {d d' : Disp γ} {consumed : Nat} (h : DInv pre inp d)
    (hf : d.flushRemaining inp consumed = .ok d') :
    sinkBytes d'.sink = pre ++ inp.take consumed ∧ consumed ≤ inp.length ∧ d'.rcs = 0 ∧
    d'.emissionEnabled = true ∧ d'.bailOutRuns = d.bailOutRuns := by
  obtain ⟨a, b, c⟩ := h
  unfold Disp.flushRemaining at hf
  rw [if_pos c] at hf
  split at hf
  · simp at hf
  · rename_i out hs
    obtain ⟨h1, h2, h3⟩ := checkedSlice_some hs
    simp only at h1 h2
    simp only [Except.ok.injEq] at hf
    subst hf
    refine ⟨?_, h2, rfl, ?_, ?_⟩
    · split
      · rename_i he
        have : out = [] := by cases out <;> simp_all
        simp only
        rw [a, ← take_append_slice inp d.rcs consumed h1, ← h3, this, List.append_nil]
      · simp only [Disp.push, sinkBytes_append, sinkBytes_chunk, a, h3, List.append_assoc]
        rw [take_append_slice _ _ _ h1]
    · split <;> simpa [Disp.push] using c
    · split <;> simp [Disp.push]

theorem flushForBailOut_spec {pre inp : Bytes} {d : Disp γ} (h : sinkBytes d.sink = pre) (hr : d.rcs ≤ inp.length) :
    ∃ d', d.flushForBailOut inp = .ok d' ∧ sinkBytes d'.sink = pre ++ inp.drop d.rcs ∧ d'.rcs = 0 ∧
      d'.bailOutRuns = d.bailOutRuns := by
  unfold Disp.flushForBailOut
  have hs : checkedSlice inp ⟨d.rcs, inp.length⟩ = some (inp.drop d.rcs) := by
    unfold checkedSlice
    simp [hr, slice]
  rw [hs]
  refine ⟨_, rfl, ?_, rfl, ?_⟩
  · split
    · rename_i he
      have : inp.drop d.rcs = [] := by
        cases hh : inp.drop d.rcs with
        | nil => rfl
        | cons x xs => simp [hh] at he
      simp [h, this]
    · simp [Disp.push, h]
  · split <;> simp [Disp.push]

end
end LolHtml.Model

namespace LolHtml.Model
variable {γ : Type} {w : World γ}

theorem Stream.chunkFor_inr {s s1 : Stream γ} {data chunk : Bytes} (h : s.chunkFor w data = .inr (s1, chunk)) :
    chunk = s.pending ++ data ∧ s1.parser = s.parser ∧ s1.hasBuffered = s.hasBuffered ∧ s1.cfg = s.cfg ∧
    (s.hasBuffered = true → s1.buf.data = chunk) := by
  unfold Stream.chunkFor at h
  by_cases hb : s.hasBuffered = true
  · simp only [hb, if_true] at h
    by_cases ha : (s.buf.append data).2 = true
    · simp only [ha, if_true, Sum.inr.injEq, Prod.mk.injEq] at h
      obtain ⟨h1, h2⟩ := h
      subst h1
      have := Buf.append_data _ _ ha
      refine ⟨?_, rfl, by simp [hb], rfl, fun _ => ?_⟩
      · rw [← h2, this]; simp [Stream.pending, hb]
      · exact h2
    · simp [ha] at h
  · simp only [hb] at h
    simp only [Bool.false_eq_true, if_false, Sum.inr.injEq, Prod.mk.injEq] at h
    obtain ⟨h1, h2⟩ := h
    subst h1 h2
    refine ⟨by simp [Stream.pending, hb], rfl, rfl, rfl, fun h => absurd h hb⟩

theorem Stream.parse_DInv (hobs : Observing w.ctl) (s : Stream γ) (chunk : Bytes) (last : Bool) (hi : s.Idle) :
    DInv s.emitted chunk (s.parser.parse w.env chunk last).1.x.sink := by
  apply Parser.parse_sink (P := DInv s.emitted chunk) (dispOps_DInv hobs)
  obtain ⟨h1, h2⟩ := hi
  simp only [Stream.disp] at h1 h2
  exact ⟨by simp [Stream.emitted, Stream.disp, h1], by omega, h2⟩

theorem Stream.keepTail_ok {s : Stream γ} {data chunk : Bytes} {consumed : Nat}
    (hc : consumed ≤ chunk.length) (hbuf : s.hasBuffered = true → s.buf.data = chunk)
    (hnb : s.hasBuffered = false → data = chunk)
    (h : (s.keepTail w data chunk consumed).2 = .ok ()) :
    (s.keepTail w data chunk consumed).1.pending = chunk.drop consumed ∧
    (s.keepTail w data chunk consumed).1.disp = s.disp := by
  unfold Stream.keepTail at *
  by_cases hlt : consumed < chunk.length
  · simp only [hlt, if_true] at h ⊢
    by_cases hb : s.hasBuffered = true
    · simp only [hb, if_true] at h ⊢
      unfold Buf.shift at *
      rw [hbuf hb] at *
      simp only [hc, if_true] at h ⊢
      simp [Stream.pending, hb, Stream.disp]
    · have hb' : s.hasBuffered = false := by simpa using hb
      simp only [hb', Bool.false_eq_true, if_false] at h ⊢
      by_cases hi : (s.buf.initWith (data.drop consumed)).2 = true
      · simp only [hi, if_true] at h ⊢
        have := Buf.append_data { s.buf with data := [] } (data.drop consumed) (by simpa [Buf.initWith] using hi)
        simp only [Stream.pending, if_true]
        simp only [Buf.initWith] at *
        rw [this, hnb hb']
        simp [Stream.disp]
      · simp [hi] at h
  · simp only [hlt, if_false]
    have : consumed = chunk.length := by omega
    simp [Stream.pending, this, Stream.disp]

/-- **One successful `write`**: nothing is lost, nothing is duplicated, the stream is idle again. -/
theorem Stream.write_ok (hobs : Observing w.ctl) (s : Stream γ) (data : Bytes) (hi : s.Idle)
    (h : (s.write w data).2 = .ok ()) :
    (s.write w data).1.Idle ∧
    (s.write w data).1.emitted ++ (s.write w data).1.pending = s.emitted ++ s.pending ++ data := by
  unfold Stream.write at *
  cases hcf : s.chunkFor w data with
  | inl s' => simp [hcf] at h
  | inr sc =>
    obtain ⟨s1, chunk⟩ := sc
    obtain ⟨c1, c2, c3, c4, c5⟩ := Stream.chunkFor_inr hcf
    simp only [hcf] at h ⊢
    have hidle1 : s1.Idle := by simpa [Stream.Idle, Stream.disp, c2] using hi
    have hem : s1.emitted = s.emitted := by simp [Stream.emitted, Stream.disp, c2]
    have hD := Stream.parse_DInv hobs s1 chunk false hidle1
    cases hpr : (s1.parser.parse w.env chunk false).2 with
    | error e => simp [hpr] at h
    | ok consumed =>
      simp only [hpr] at h ⊢
      cases hfl : Disp.flushRemaining (Stream.disp { s1 with parser := (s1.parser.parse w.env chunk false).1 }) chunk consumed with
      | error e => simp [hfl] at h
      | ok d =>
        simp only [hfl] at h ⊢
        obtain ⟨f1, f2, f3, f4, _⟩ := flushRemaining_spec (d := Stream.disp { s1 with parser := (s1.parser.parse w.env chunk false).1 }) hD hfl
        have hk := Stream.keepTail_ok (w := w) (s := Stream.setDisp { s1 with parser := (s1.parser.parse w.env chunk false).1 } d)
          (data := data) (chunk := chunk) (consumed := consumed) f2
          (by intro hb; exact c5 (by simpa [Stream.setDisp, c3] using hb))
          (by intro hb
              have : s.hasBuffered = false := by simpa [Stream.setDisp, c3] using hb
              rw [c1]; simp [Stream.pending, this])
          h
        obtain ⟨k1, k2⟩ := hk
        refine ⟨?_, ?_⟩
        · simp only [Stream.Idle, k2, setDisp_disp]; exact ⟨f3, f4⟩
        · rw [k1]
          simp only [Stream.emitted, k2, setDisp_disp, f1]
          rw [List.append_assoc, List.take_append_drop, c1]
          simp only [Stream.emitted] at hem
          rw [hem]
          simp [List.append_assoc]

end LolHtml.Model

namespace LolHtml.Model
variable {γ : Type} {w : World γ}

/-- **A successful `end`**: everything still pending is emitted; observers add nothing. -/
theorem Stream.end_ok (hobs : ObservingAll w.ctl) (s : Stream γ) (hi : s.Idle) (h : (s.end w).2 = .ok ()) :
    (s.end w).1.emitted = s.emitted ++ s.pending := by
  unfold Stream.end at *
  have hD := Stream.parse_DInv hobs.toObserving s (if s.hasBuffered = true then s.buf.data else []) true hi
  generalize hchunk : (if s.hasBuffered = true then s.buf.data else []) = chunk at *
  have hp : s.pending = chunk := by simp [Stream.pending, hchunk]
  cases hpr : (s.parser.parse w.env chunk true).2 with
  | error e => simp [hpr] at h
  | ok consumed =>
    simp only [hpr] at h ⊢
    simp only [Stream.emitted, setDisp_disp]
    unfold Disp.finish at *
    cases hfl : Disp.flushRemaining (Stream.disp { s with parser := (s.parser.parse w.env chunk true).1 }) chunk chunk.length with
    | error e => simp [hfl, DRes.ofExcept, DRes.bind] at h
    | ok d =>
      obtain ⟨f1, _, _, _, _⟩ := flushRemaining_spec (d := Stream.disp { s with parser := (s.parser.parse w.env chunk true).1 }) hD hfl
      simp only [hfl, DRes.ofExcept, DRes.bind] at h ⊢
      cases he : (w.ctl.handleEnd d.ctl).2 with
      | error e => simp [he] at h
      | ok cs =>
        have := hobs.handleEnd_empty _ _ he
        simp only [he]
        simp only [sinkBytes_append, sinkBytes_chunks, sinkBytes_chunk, this, List.append_nil, f1, List.take_length, hp]
        rfl

end LolHtml.Model
