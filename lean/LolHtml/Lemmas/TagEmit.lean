import LolHtml.Lemmas.TagRun
/-!
What `emit_tag` (lexer/actions.rs:76) does with a start-tag token: either the tree-builder simulator
refuses the tag (ambiguity error in strict mode, or one of its debug assertions) and the sink is not
called, or the sink's `handle_tag` is called exactly once with the lexeme whose raw range is
`[lexeme_start, pos + 1)` and whose outline is the current tag token stamped with the simulator's
namespace.
-/
namespace LolHtml.Model.TagStates
open LolHtml LolHtml.Model

variable {κ : Type}

/-- `handle_tree_builder_feedback` only touches `last_text_type` / `cdata_allowed` -/
theorem lexHandleFeedback_frame {inp : Bytes} {c : Common} {sim : Sim} {f : Feedback} {o : TagOutline}
    {cs : Common × Sim} (h : lexHandleFeedback inp c sim f o = .ok cs) :
    cs.1.nextPos = c.nextPos ∧ cs.1.isLast = c.isLast ∧ cs.1.state = c.state ∧ cs.1.entered = c.entered ∧
    cs.1.lastStartTagNameHash = c.lastStartTagNameHash ∧ cs.1.closingQuote = c.closingQuote := by
  have simple : ∀ (c0 : Common) (sim0 : Sim) (f0 : Feedback) (r : Common × Sim),
      (match f0 with
        | .switchTextType t => (Except.ok ({ c0 with lastTextType := t }, sim0) : Except Err (Common × Sim))
        | .setAllowCdata b => .ok ({ c0 with cdataAllowed := b }, sim0)
        | .none => .ok (c0, sim0)
        | .requestLexeme _ => .error (.panic "nested RequestLexeme")) = .ok r →
      r.1.nextPos = c0.nextPos ∧ r.1.isLast = c0.isLast ∧ r.1.state = c0.state ∧ r.1.entered = c0.entered ∧
      r.1.lastStartTagNameHash = c0.lastStartTagNameHash ∧ r.1.closingQuote = c0.closingQuote := by
    intro c0 sim0 f0 r hr
    cases f0 <;> simp only [Except.ok.injEq, reduceCtorEq] at hr <;> subst hr <;> simp
  unfold lexHandleFeedback at h
  cases f with
  | requestLexeme k =>
    simp only at h
    split at h
    · simp at h
    · split at h
      · simp at h
      · exact simple _ _ _ _ h
  | switchTextType t => exact simple c sim (.switchTextType t) cs h
  | setAllowCdata b => exact simple c sim (.setAllowCdata b) cs h
  | none => exact simple c sim .none cs h

/-- The two outcomes of `emit_tag` on a start-tag token. -/
theorem lexEmitTag_startTag (env : Env κ) (inp : Bytes) (c : Common) (l : LexRegs) (x : Ctx κ)
    {n : Range} {h : Nat} {ns0 : Ns} {as : List AttrOutline} {sc : Bool}
    (hct : l.curTag = some (.startTag n h ns0 as sc)) :
    (∃ e m, lexEmitTag env inp c l x = (m, some (.err e)) ∧ m.x.sink = x.sink) ∨
    (∃ c' sim', c'.nextPos = c.nextPos ∧ c'.isLast = c.isLast ∧ c'.state = c.state ∧ c'.entered = c.entered ∧
        c'.closingQuote = c.closingQuote ∧ c'.lastStartTagNameHash = h ∧
        lexEmitTag env inp c l x =
          lexEmitTagLexeme env inp c' { l with curTag := none, fd := .none } x sim'
            (.startTag n h sim'.currentNs as sc) (c.pos + 1)) := by
  unfold lexEmitTag
  rw [hct]
  simp only
  cases hfb : lexGetFeedback env.cfg x.sim l.fd (.startTag n h ns0 as sc) with
  | error e => exact Or.inl ⟨e, _, rfl, rfl⟩
  | ok sf =>
    simp only
    cases hsf : sf.2 with
    | none =>
      simp only
      refine Or.inr ⟨{ { c with lastTextType := .data } with lastStartTagNameHash := h }, sf.1, rfl, rfl, rfl, rfl, rfl, rfl, ?_⟩
      simp [lexStampTag, Common.pos]
    | some f =>
      simp only
      cases happ : lexHandleFeedback inp { c with lastTextType := .data } sf.1 f (.startTag n h ns0 as sc) with
      | error e => exact Or.inl ⟨e, _, rfl, rfl⟩
      | ok cs =>
        simp only
        obtain ⟨f1, f2, f3, f4, f5, f6⟩ := lexHandleFeedback_frame happ
        refine Or.inr ⟨{ cs.1 with lastStartTagNameHash := h }, cs.2, f1, f2, f3, f4, f6, rfl, ?_⟩
        simp [lexStampTag, Common.pos]

end LolHtml.Model.TagStates
