import LolHtml.Lemmas.LinRun
/-!
# Linear work: one whole `Parser::parse` call, all lexer ⇄ scanner switches included

Potential argument. Lexer runs tile the slice (each starts at or after the end of the previous one).
Scanner runs tile it too, because the lexer restarted at a tag start cannot hand back before it has
passed a `>`, and the scanner's tag head `<`[`/`]name contains none: the next scanner run starts after
the point the previous one had reached. Hence `parseSteps ≤ 8·n + 8·n + 8·(#runs) ≤ 32·(n+1)`.
-/
namespace LolHtml.Model

variable {κ : Type}

/-- the scanner, when it is the machine to run, satisfies the head invariant of C09 -/
def PHead (t : Table) (L : Labels) (inp : Bytes) (p : Parser κ) : Prop :=
  p.directive = .scan → HInv t L inp (⟨p.scanC, .scanner p.scanR, p.x⟩ : M κ)

/-- the lexer, when it is the machine to run, starts in a `>`-free zone reaching up to `h` -/
def PZone (inp : Bytes) (p : Parser κ) (h : Nat) : Prop :=
  p.directive = .lex → ∀ j, p.lexC.nextPos ≤ j → j < h → inp[j]? ≠ some 62

/-- the potential -/
def Parser.phi (L : Nat) (p : Parser κ) (h : Nat) : Nat :=
  match p.directive with
  | .lex => 8 * (L - p.lexC.nextPos) + 8 * (L - max h p.lexC.nextPos) + 8 * (p.nu L + 1)
  | .scan => 8 * (L - p.posOf) + 8 * (L - p.scanC.nextPos) + 8 * (p.nu L + 1)

section
variable {env : Env κ} {inp : Bytes} {W : κ → Nat} {L : Labels}

theorem mu_le' (t : Table) (hw : Wf t) (m : M κ) (n : Nat) : mu t n m + 1 ≤ 8 * (n - m.c.nextPos) + 8 := by
  unfold mu
  have := hw.rank_le m.c.state
  simp only [maxRank] at *
  omega

theorem parseLoopSteps_le {cert : Cert} (hchk : checkCert env.tbl cert = true) (hs : SinkSafe env.ops W inp U1)
    (hs2 : SinkSafe2 env.ops inp) (hw : Wf env.tbl) (hgt : EmitTagGt env.tbl = true)
    (hhead : HeadOk env.tbl L = true) (last : Bool) (n : Nat) (p : Parser κ) (h : Nat)
    (hp : PInv env.tbl inp.length W p) (htp : PTok env.tbl cert p) (hph : PHead env.tbl L inp p)
    (hz : PZone inp p h) (hn : p.nu inp.length < n) :
    Parser.parseLoopSteps env inp last n p ≤ p.phi inp.length h := by
  induction n generalizing p h with
  | zero => omega
  | succ n ih =>
    obtain ⟨hB, hT⟩ := machine_invs (cert := cert) last p hp htp
    have hpos := posOf_le p hp
    have hhm : (p.machine last).isScanner = true → HInv env.tbl L inp (p.machine last) := by
      intro hsc
      cases hd : p.directive with
      | lex => simp [Parser.machine, hd, M.isScanner] at hsc
      | scan =>
        have := hph hd
        simp only [Parser.machine, hd]
        exact LolHtml.Thm.C09.HInv.congr this rfl rfl rfl
    obtain ⟨Nl, a1, a2, a3, a4⟩ := run_account hs hw hgt hhead (defaultFuel inp) (p.machine last) hB hhm
      (mu_lt_defaultFuel _ hw _)
    have hmu := mu_le' env.tbl hw (p.machine last) inp.length
    have hphiL : p.directive = .lex → (p.machine last).c.nextPos = p.lexC.nextPos ∧
        p.phi inp.length h = 8 * (inp.length - p.lexC.nextPos) + 8 * (inp.length - max h p.lexC.nextPos) + 8 * (p.nu inp.length + 1) := by
      intro hd; simp [Parser.machine, Parser.phi, hd]
    have hphiS : p.directive = .scan → (p.machine last).c.nextPos = p.scanC.nextPos ∧
        p.phi inp.length h = 8 * (inp.length - p.posOf) + 8 * (inp.length - p.scanC.nextPos) + 8 * (p.nu inp.length + 1) := by
      intro hd; simp [Parser.machine, Parser.phi, hd]
    simp only [Parser.parseLoopSteps]
    cases hsig : (runLoop env inp (defaultFuel inp) (p.machine last)).2 with
    | err e =>
      dsimp only
      cases hd : p.directive with
      | lex => obtain ⟨e1, e2⟩ := hphiL hd; rw [e2]; rw [e1] at a1 hmu; omega
      | scan => obtain ⟨e1, e2⟩ := hphiS hd; rw [e2]; rw [e1] at a1 hmu; omega
    | endOfInput k =>
      dsimp only
      cases hd : p.directive with
      | lex => obtain ⟨e1, e2⟩ := hphiL hd; rw [e2]; rw [e1] at a1 hmu; omega
      | scan => obtain ⟨e1, e2⟩ := hphiS hd; rw [e2]; rw [e1] at a1 hmu; omega
    | directive d bm =>
      dsimp only
      obtain ⟨q1, q2, q3⟩ := directive_step hchk hs hs2 hw last p hp htp hsig
      rw [hsig] at a4
      cases hd : p.directive with
      | lex =>
        obtain ⟨l, hl, _, hsg⟩ := lexRun_post hs hw last p hp hd
        rw [hsig] at hsg
        obtain ⟨s1, s2, s3⟩ := hsg
        rw [hl] at s3
        obtain ⟨s3a, s3b⟩ := s3
        subst s3a
        obtain ⟨ht1, ht2⟩ := hp.2 hd
        have hlex : (p.machine last).r.isLex = true := by simp [Parser.machine, hd, Regs.isLex]
        simp only [RunEnd, hlex, if_true] at a4
        rw [store_lex p _ hl] at q1 q2 q3 ⊢
        -- the new scanner state
        have e1 : (loadBookmark env Directive.scan bm
            { p with lexC := (runLoop env inp (defaultFuel inp) (p.machine last)).1.c, lexR := l,
                     x := (runLoop env inp (defaultFuel inp) (p.machine last)).1.x }).directive = .scan := rfl
        have hph' : PHead env.tbl L inp (loadBookmark env Directive.scan bm
            { p with lexC := (runLoop env inp (defaultFuel inp) (p.machine last)).1.c, lexR := l,
                     x := (runLoop env inp (defaultFuel inp) (p.machine last)).1.x }) := by
          intro _
          apply HInv.of_none
          · rfl
          · simpa [loadBookmark, M.cs] using ht2
          · simpa [loadBookmark, M.ts] using ht1
        have hz' : PZone inp (loadBookmark env Directive.scan bm
            { p with lexC := (runLoop env inp (defaultFuel inp) (p.machine last)).1.c, lexR := l,
                     x := (runLoop env inp (defaultFuel inp) (p.machine last)).1.x }) 0 := by
          intro hc; simp [loadBookmark] at hc
        have hi := ih _ 0 q1 q2 hph' hz' (by omega)
        have hphi : (loadBookmark env Directive.scan bm
            { p with lexC := (runLoop env inp (defaultFuel inp) (p.machine last)).1.c, lexR := l,
                     x := (runLoop env inp (defaultFuel inp) (p.machine last)).1.x }).phi inp.length 0
            = 8 * (inp.length - bm.pos) + 8 * (inp.length - bm.pos) + 8 * ((loadBookmark env Directive.scan bm
            { p with lexC := (runLoop env inp (defaultFuel inp) (p.machine last)).1.c, lexR := l,
                     x := (runLoop env inp (defaultFuel inp) (p.machine last)).1.x }).nu inp.length + 1) := by
          simp only [Parser.phi, Parser.posOf, loadBookmark, ht1, Option.getD_none]
        rw [hphi] at hi
        -- the lexer stopped right after a `>` outside the zone
        have hzone : max h p.lexC.nextPos ≤ bm.pos := by
          have hz0 := hz hd (bm.pos - 1)
          rw [(hphiL hd).1] at a1
          rcases Nat.lt_or_ge (bm.pos - 1) h with hlt | hge
          · exact absurd a4.2 (hz0 (by omega) hlt)
          · omega
        obtain ⟨e1', e2'⟩ := hphiL hd
        rw [e2']
        rw [e1'] at a1 hmu
        omega
      | scan =>
        obtain ⟨s, hsr, _, hsg⟩ := scanRun_post hs hw last p hp hd
        rw [hsig] at hsg
        obtain ⟨s1, s2, s3⟩ := hsg
        rw [hsr] at s3
        obtain ⟨s3a, s3b, s3c, s3d⟩ := s3
        subst s3a
        have hlex : (p.machine last).r.isLex = false := by simp [Parser.machine, hd, Regs.isLex]
        simp only [RunEnd, hlex, Bool.false_eq_true, if_false] at a4
        rw [store_scan p _ hsr] at q1 q2 q3 ⊢
        have hph' : PHead env.tbl L inp (loadBookmark env Directive.lex bm
            { p with scanC := (runLoop env inp (defaultFuel inp) (p.machine last)).1.c, scanR := s,
                     x := (runLoop env inp (defaultFuel inp) (p.machine last)).1.x }) := by
          intro hc; simp [loadBookmark] at hc
        have hz' : PZone inp (loadBookmark env Directive.lex bm
            { p with scanC := (runLoop env inp (defaultFuel inp) (p.machine last)).1.c, scanR := s,
                     x := (runLoop env inp (defaultFuel inp) (p.machine last)).1.x }) Nl := by
          intro _ j hj1 hj2
          exact a4 j (by simpa [loadBookmark] using hj1) hj2
        have hi := ih _ Nl q1 q2 hph' hz' (by omega)
        have hphi : (loadBookmark env Directive.lex bm
            { p with scanC := (runLoop env inp (defaultFuel inp) (p.machine last)).1.c, scanR := s,
                     x := (runLoop env inp (defaultFuel inp) (p.machine last)).1.x }).phi inp.length Nl
            = 8 * (inp.length - bm.pos) + 8 * (inp.length - max Nl bm.pos) + 8 * ((loadBookmark env Directive.lex bm
            { p with scanC := (runLoop env inp (defaultFuel inp) (p.machine last)).1.c, scanR := s,
                     x := (runLoop env inp (defaultFuel inp) (p.machine last)).1.x }).nu inp.length + 1) := by
          simp only [Parser.phi, loadBookmark]
        rw [hphi] at hi
        obtain ⟨e1', e2'⟩ := hphiS hd
        rw [e2']
        rw [e1'] at a1 hmu
        omega

/-- **One whole `parse` call is linear.** -/
theorem parseSteps_le {cert : Cert} (hchk : checkCert env.tbl cert = true) (hs : SinkSafe env.ops W inp U1)
    (hs2 : SinkSafe2 env.ops inp) (hw : Wf env.tbl) (hgt : EmitTagGt env.tbl = true)
    (hhead : HeadOk env.tbl L = true) (last : Bool) (p : Parser κ)
    (hp : PInv env.tbl inp.length W p) (htp : PTok env.tbl cert p) (hph : PHead env.tbl L inp p) :
    Parser.parseSteps env inp last p ≤ 32 * (inp.length + 1) := by
  have h1 := parseLoopSteps_le hchk hs hs2 hw hgt hhead last (2 * inp.length + 8) p 0 hp htp hph
    (fun _ j _ hj => by omega) (nu_lt p hp)
  have hnu := nu_lt p hp
  have hpos := posOf_le p hp
  unfold Parser.parseSteps
  unfold Parser.phi at h1
  have hnu2 : p.nu inp.length ≤ 2 * inp.length + 1 := by
    unfold Parser.nu
    split <;> omega
  cases hd : p.directive with
  | lex => simp only [hd] at h1; omega
  | scan => simp only [hd] at h1; omega

end
end LolHtml.Model
