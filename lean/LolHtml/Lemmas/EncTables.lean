/-
Single-byte index tables: a decidable well-formedness condition (`TableOk`) and what it implies for
`singleByte t` — encode is the inverse of decode on mapped scalars.
-/
import LolHtml.Model.Codecs
import LolHtml.Model.TextEncoder

namespace LolHtml.Enc

/-- a non-ASCII Unicode scalar value -/
def scalarOk (n : Nat) : Bool := (0x80 ≤ n && n < 0xD800) || (0xE000 ≤ n && n < 0x110000)

/-- the non-zero entries are pairwise distinct -/
def nodupNZ : List Nat → Bool
  | [] => true
  | x :: xs => (x == 0 || !xs.contains x) && nodupNZ xs

/-- THE TABLE CONDITION (decidable): 128 entries, each 0 (unmapped) or a non-ASCII scalar value, no
scalar twice. -/
def TableOk (t : List Nat) : Bool :=
  t.length == 128 && t.all (fun n => n == 0 || scalarOk n) && nodupNZ t

theorem toNat_ofNat_of_scalarOk (n : Nat) (h : scalarOk n = true) : (Char.ofNat n).toNat = n := by
  have hv : n.isValidChar := by
    simp only [scalarOk, Bool.or_eq_true, Bool.and_eq_true, decide_eq_true_eq] at h
    unfold Nat.isValidChar
    omega
  simp [Char.ofNat, hv, Char.ofNatAux, Char.toNat]

theorem nodupNZ_get : ∀ (l : List Nat), nodupNZ l = true →
    ∀ (i j : Nat) (hij : i < j) (hj : j < l.length), l[i]'(by omega) ≠ 0 → l[i]'(by omega) ≠ l[j] := by
  intro l
  induction l with
  | nil => intro _ i j _ hj; simp at hj
  | cons x xs ih =>
    intro h i j hij hj hnz
    simp only [nodupNZ, Bool.and_eq_true, Bool.or_eq_true, beq_iff_eq, Bool.not_eq_true',
      List.contains_eq_mem, decide_eq_false_iff_not] at h
    cases j with
    | zero => omega
    | succ j =>
      cases i with
      | zero =>
        simp only [List.getElem_cons_zero, List.getElem_cons_succ] at hnz ⊢
        rcases h.1 with h0 | hnm
        · exact absurd h0 hnz
        · intro heq; apply hnm; rw [heq]; exact List.getElem_mem _
      | succ i =>
        simp only [List.getElem_cons_succ] at hnz ⊢
        exact ih h.2 i j (by omega) (by simpa using hj) hnz

/-- in a good table the first index of a mapped scalar is its only index -/
theorem idxOf_of_get (t : List Nat) (h : nodupNZ t = true) (i : Nat) (hi : i < t.length)
    (hnz : t[i] ≠ 0) : t.idxOf? t[i] = some i := by
  rw [List.idxOf?_eq_some_iff]
  refine ⟨hi, rfl, ?_⟩
  intro j hj heq
  have := nodupNZ_get t h j i hj hi (by rw [heq]; exact hnz)
  exact this heq

section
variable {t : List Nat} (ht : TableOk t = true)
include ht

theorem TableOk.length : t.length = 128 := by
  simp only [TableOk, Bool.and_eq_true, beq_iff_eq] at ht; exact ht.1.1

theorem TableOk.entry (i : Nat) (hi : i < t.length) : t[i] = 0 ∨ scalarOk t[i] = true := by
  simp only [TableOk, Bool.and_eq_true, List.all_eq_true, Bool.or_eq_true, beq_iff_eq] at ht
  exact ht.1.2 _ (List.getElem_mem hi)

theorem TableOk.nodup : nodupNZ t = true := by
  simp only [TableOk, Bool.and_eq_true] at ht; exact ht.2

/-- decode then encode: a byte that decodes to a scalar is what that scalar encodes to -/
theorem singleByte_decode_encode (b : UInt8) (hb : 128 ≤ b.toNat) (ch : Char)
    (h : tblLookup t b = some ch) : (singleByte t).encChar ch = some [b] := by
  have hlen := TableOk.length ht
  have hi : b.toNat - 128 < t.length := by have := b.toNat_lt; omega
  simp only [tblLookup, List.getElem?_eq_getElem hi] at h
  have hnz : t[b.toNat - 128] ≠ 0 := by
    intro h0; simp [h0] at h
  have hch : ch = Char.ofNat t[b.toNat - 128] := by
    generalize t[b.toNat - 128] = n at h hnz
    cases n with
    | zero => exact absurd rfl hnz
    | succ m => simp only [Option.some.injEq] at h; exact h.symm
  have hs : scalarOk t[b.toNat - 128] = true := by
    rcases TableOk.entry ht _ hi with h0 | h1
    · exact absurd h0 hnz
    · exact h1
  have htn : ch.toNat = t[b.toNat - 128] := by rw [hch]; exact toNat_ofNat_of_scalarOk _ hs
  have hge : ¬ ch.toNat < 128 := by
    rw [htn]
    simp only [scalarOk, Bool.or_eq_true, Bool.and_eq_true, decide_eq_true_eq] at hs; omega
  have hge' : ¬ t[b.toNat - 128] < 128 := by rw [← htn]; exact hge
  simp only [singleByte, htn, hge', if_false, tblFind, idxOf_of_get t (TableOk.nodup ht) _ hi hnz]
  have hbb : 128 + (b.toNat - 128) = b.toNat := by omega
  rw [hbb, UInt8.ofNat_toNat]

/-- encode then decode: what a non-ASCII scalar encodes to is one byte ≥ 0x80 that decodes to it -/
theorem singleByte_encode_decode (ch : Char) (hch : 128 ≤ ch.toNat) (bs : Bytes)
    (h : (singleByte t).encChar ch = some bs) :
    ∃ b : UInt8, bs = [b] ∧ 128 ≤ b.toNat ∧ tblLookup t b = some ch := by
  have hlen := TableOk.length ht
  simp only [singleByte, show ¬ ch.toNat < 128 by omega, if_false, tblFind] at h
  split at h
  · rename_i i hi
    simp only [Option.some.injEq] at h
    obtain ⟨hlt, hget, _⟩ := List.idxOf?_eq_some_iff.mp hi
    refine ⟨UInt8.ofNat (128 + i), h.symm, ?_, ?_⟩
    · rw [UInt8.toNat_ofNat']; omega
    · have hb : (UInt8.ofNat (128 + i)).toNat - 128 = i := by rw [UInt8.toNat_ofNat']; omega
      simp only [tblLookup, hb, List.getElem?_eq_getElem hlt, hget]
      generalize hn : ch.toNat = n at hch
      cases n with
      | zero => omega
      | succ m =>
        have e : Char.ofNat (m + 1) = ch := by rw [← hn, Char.ofNat_toNat]
        simp only [e]
  · cases h

omit ht in
/-- a scalar the table does not contain becomes a numeric character reference -/
theorem singleByte_unmapped_ncr (ch : Char) (h : (singleByte t).encChar ch = none) :
    encUnit (singleByte t) ch = ncr ch := by
  simp [encUnit, h]

end

end LolHtml.Enc
