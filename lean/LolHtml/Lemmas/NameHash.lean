import LolHtml.Model.NameHash
/-!
Helper lemmas about `LocalNameHash` (Model/NameHash.lean): the hash of a name is the base-32 value
of its digit string as long as nothing overflows, and the base-32 digit string of a name starting
with a letter is uniquely decodable.
-/
namespace LolHtml.Lemmas.NameHash
open LolHtml LolHtml.Model

/-- Bytes of the hash alphabet `[A-Za-z1-6]`. -/
def validCh (c : UInt8) : Bool := isAsciiAlpha c || (49 ≤ c && c ≤ 54)

/-- Base-32 digit of an alphabet byte: letters ↦ 6..31 (case-insensitively), `1`..`6` ↦ 0..5. -/
def D (c : UInt8) : Nat :=
  if isAsciiAlpha c then (c.toNat &&& 0x1F) + 5 else (c.toNat &&& 0x0F) - 1

/-- Inverse of `D` on lower-case names (the same arithmetic as `impl Debug for LocalNameHash`). -/
def chr (d : Nat) : UInt8 := if 6 ≤ d then UInt8.ofNat (d + 91) else UInt8.ofNat (d + 49)

/-- Unbounded base-32 value of a byte string on top of `h`. -/
def V (h : Nat) (cs : Bytes) : Nat := cs.foldl (fun h c => h * 32 + D c) h

/-- Base-32 decoding of a number (no leading zero digit). -/
def decode (H : Nat) : Bytes :=
  if _h : H = 0 then [] else decode (H / 32) ++ [chr (H % 32)]
decreasing_by omega

/-- Everything we need to know about single bytes, checked over all 256 of them. -/
theorem byte_facts_nat : ∀ n, n < 256 →
    let c := UInt8.ofNat n
    (isAsciiAlpha c = true → 6 ≤ D c ∧ D c ≤ 31 ∧ chr (D c) = asciiLower c ∧
        isAsciiAlpha (asciiLower c) = true ∧ D (asciiLower c) = D c) ∧
    (isAsciiAlpha c = false → asciiLower c = c) ∧
    (isAsciiAlpha c = false → (49 ≤ c && c ≤ 54) = true → D c ≤ 5 ∧ chr (D c) = asciiLower c) := by
  decide +kernel

theorem byte_facts (c : UInt8) :
    (isAsciiAlpha c = true → 6 ≤ D c ∧ D c ≤ 31 ∧ chr (D c) = asciiLower c ∧
        isAsciiAlpha (asciiLower c) = true ∧ D (asciiLower c) = D c) ∧
    (isAsciiAlpha c = false → asciiLower c = c) ∧
    (isAsciiAlpha c = false → (49 ≤ c && c ≤ 54) = true → D c ≤ 5 ∧ chr (D c) = asciiLower c) := by
  have h := byte_facts_nat c.toNat (UInt8.toNat_lt c)
  simpa using h


theorem validCh_cases (c : UInt8) (hv : validCh c = true) :
    isAsciiAlpha c = true ∨ (isAsciiAlpha c = false ∧ (49 ≤ c && c ≤ 54) = true) := by
  unfold validCh at hv
  cases ha : isAsciiAlpha c <;> simp_all

theorem D_lt (c : UInt8) (hv : validCh c = true) : D c < 32 := by
  rcases validCh_cases c hv with h | ⟨h1, h2⟩
  · have := ((byte_facts c).1 h).2.1; omega
  · have := ((byte_facts c).2.2 h1 h2).1; omega

theorem chr_D (c : UInt8) (hv : validCh c = true) : chr (D c) = asciiLower c := by
  rcases validCh_cases c hv with h | ⟨h1, h2⟩
  · exact ((byte_facts c).1 h).2.2.1
  · exact ((byte_facts c).2.2 h1 h2).2

theorem emptyHash_val : emptyHash = 18446744073709551615 := by decide

/-! ### one step of `update` -/

theorem update_valid (h : Nat) (c : UInt8) (hh : h < 2 ^ 59) (hv : validCh c = true) :
    NameHash.update h c = h * 32 + D c := by
  have hd : h / 2 ^ 59 = 0 := Nat.div_eq_of_lt hh
  have hlt := D_lt c hv
  have hor : h * 32 ||| D c = h * 32 + D c := by
    have := Nat.two_pow_add_eq_or_of_lt (i := 5) (b := D c) (by simpa using hlt) h
    rw [Nat.mul_comm]; exact this.symm
  rcases validCh_cases c hv with ha | ⟨ha, hdg⟩
  · unfold NameHash.update
    simp only [hd, ha, if_true, beq_self_eq_true]
    simpa [D, ha] using hor
  · unfold NameHash.update
    simp only [hd, ha, hdg, if_true, beq_self_eq_true]
    simpa [D, ha] using hor

theorem update_invalid (h : Nat) (c : UInt8) (hv : validCh c = false) :
    NameHash.update h c = emptyHash := by
  unfold validCh at hv
  have ha : isAsciiAlpha c = false := by cases h : isAsciiAlpha c <;> simp_all
  have hdg : (49 ≤ c && c ≤ 54) = false := by simp_all
  unfold NameHash.update
  simp only [ha, hdg]
  split <;> simp

theorem update_big (h : Nat) (c : UInt8) (hh : 2 ^ 59 ≤ h) : NameHash.update h c = emptyHash := by
  have hd : ¬ (h / 2 ^ 59 = 0) := by
    intro h0
    have := (Nat.div_eq_zero_iff.mp h0)
    omega
  unfold NameHash.update
  simp [hd]

theorem update_empty (c : UInt8) : NameHash.update emptyHash c = emptyHash :=
  update_big _ c (by rw [emptyHash_val]; decide)

theorem fold_empty (cs : Bytes) : cs.foldl NameHash.update emptyHash = emptyHash := by
  induction cs with
  | nil => rfl
  | cons c cs ih => simp [List.foldl_cons, update_empty, ih]

/-- One step either computes the next base-32 value or invalidates the hash. -/
theorem update_cases (h : Nat) (c : UInt8) :
    (h < 2 ^ 59 ∧ validCh c = true ∧ NameHash.update h c = h * 32 + D c) ∨
    NameHash.update h c = emptyHash := by
  by_cases hh : h < 2 ^ 59
  · cases hv : validCh c
    · exact .inr (update_invalid h c hv)
    · exact .inl ⟨hh, rfl, update_valid h c hh hv⟩
  · exact .inr (update_big h c (by omega))

theorem fold_lt (cs : Bytes) : ∀ h, h < 2 ^ 64 → cs.foldl NameHash.update h < 2 ^ 64 := by
  induction cs with
  | nil => intro h hh; simpa using hh
  | cons c cs ih =>
    intro h hh
    rw [List.foldl_cons]
    apply ih
    rcases update_cases h c with ⟨h1, hv, he⟩ | he
    · rw [he]; have := D_lt c hv; omega
    · rw [he, emptyHash_val]; decide

/-- A hash that is not the sentinel was computed without any invalidation: every byte is in the
alphabet and the hash is the plain base-32 value. -/
theorem fold_ne_empty (cs : Bytes) : ∀ h, cs.foldl NameHash.update h ≠ emptyHash →
    (∀ c ∈ cs, validCh c = true) ∧ cs.foldl NameHash.update h = V h cs := by
  induction cs with
  | nil => intro h _; simp [V]
  | cons c cs ih =>
    intro h hne
    rw [List.foldl_cons] at hne ⊢
    rcases update_cases h c with ⟨_, hv, he⟩ | he
    · rw [he] at hne ⊢
      have := ih _ hne
      refine ⟨?_, ?_⟩
      · intro x hx
        rcases List.mem_cons.mp hx with rfl | hx
        · exact hv
        · exact this.1 x hx
      · simpa [V] using this.2
    · rw [he, fold_empty] at hne; exact absurd rfl hne

/-! ### unique decodability -/

theorem decode_zero : decode 0 = [] := by unfold decode; simp

theorem decode_step (h d : Nat) (hd : d < 32) (hpos : h * 32 + d ≠ 0) :
    decode (h * 32 + d) = decode h ++ [chr d] := by
  rw [decode]
  simp only [hpos, dite_false]
  have h1 : (h * 32 + d) / 32 = h := by omega
  have h2 : (h * 32 + d) % 32 = d := by omega
  rw [h1, h2]

/-- Decoding the base-32 value of an alphabet string gives back the lower-cased string, provided
the string does not start with a zero digit (i.e. `h ≠ 0` or the first byte is a letter). -/
theorem decode_V (cs : Bytes) : ∀ h, (∀ c ∈ cs, validCh c = true) →
    (h = 0 → ∀ c, cs.head? = some c → isAsciiAlpha c = true) →
    decode (V h cs) = decode h ++ asciiLowerBytes cs := by
  induction cs with
  | nil => intro h _ _; simp [V, asciiLowerBytes]
  | cons c cs ih =>
    intro h hall hhead
    have hv : validCh c = true := hall c (by simp)
    have hpos : h * 32 + D c ≠ 0 := by
      by_cases h0 : h = 0
      · have ha := hhead h0 c (by simp)
        have := ((byte_facts c).1 ha).1
        omega
      · omega
    have hV : V h (c :: cs) = V (h * 32 + D c) cs := by simp [V]
    rw [hV, ih (h * 32 + D c) (fun x hx => hall x (by simp [hx])) (fun h0 => absurd h0 hpos),
      decode_step h (D c) (D_lt c hv) hpos, chr_D c hv]
    simp [asciiLowerBytes]


/-! ### case-insensitivity -/

theorem update_lower (h : Nat) (c : UInt8) : NameHash.update h (asciiLower c) = NameHash.update h c := by
  cases ha : isAsciiAlpha c
  · rw [(byte_facts c).2.1 ha]
  · obtain ⟨_, _, _, ha', hD⟩ := (byte_facts c).1 ha
    by_cases hh : h < 2 ^ 59
    · rw [update_valid h _ hh (by simp [validCh, ha']), update_valid h _ hh (by simp [validCh, ha]), hD]
    · rw [update_big h _ (by omega), update_big h _ (by omega)]

theorem fold_lower (cs : Bytes) : ∀ h,
    (asciiLowerBytes cs).foldl NameHash.update h = cs.foldl NameHash.update h := by
  induction cs with
  | nil => intro h; rfl
  | cons c cs ih => intro h; simp only [asciiLowerBytes, List.map_cons, List.foldl_cons, update_lower] ; exact ih _

/-! ### size bounds -/

theorem V_lower (cs : Bytes) : ∀ h, h * 32 ^ cs.length ≤ V h cs := by
  induction cs with
  | nil => intro h; simp [V]
  | cons c cs ih =>
    intro h
    have hV : V h (c :: cs) = V (h * 32 + D c) cs := by simp [V]
    rw [hV, List.length_cons, Nat.pow_succ]
    refine Nat.le_trans ?_ (ih _)
    rw [Nat.mul_comm (32 ^ cs.length) 32, ← Nat.mul_assoc]
    exact Nat.mul_le_mul_right _ (by omega)

/-- If even the largest continuation fits into 64 bits, nothing is invalidated. -/
theorem fold_success (cs : Bytes) : ∀ h, (∀ c ∈ cs, validCh c = true) →
    (h + 1) * 32 ^ cs.length ≤ 2 ^ 64 → cs.foldl NameHash.update h = V h cs := by
  induction cs with
  | nil => intro h _ _; simp [V]
  | cons c cs ih =>
    intro h hall hb
    have hv : validCh c = true := hall c (by simp)
    have hpos : 1 ≤ 32 ^ cs.length := Nat.one_le_two_pow (n := 5 * cs.length) |> fun h => by
      rwa [Nat.pow_mul] at h
    rw [List.length_cons, Nat.pow_succ, Nat.mul_comm (32 ^ cs.length) 32, ← Nat.mul_assoc] at hb
    have hh : h < 2 ^ 59 := by
      have : (h + 1) * 32 * 1 ≤ (h + 1) * 32 * 32 ^ cs.length := Nat.mul_le_mul_left _ hpos
      omega
    have hV : V h (c :: cs) = V (h * 32 + D c) cs := by simp [V]
    rw [List.foldl_cons, update_valid h c hh hv, hV]
    apply ih _ (fun x hx => hall x (by simp [hx]))
    have hd := D_lt c hv
    exact Nat.le_trans (Nat.mul_le_mul_right _ (by omega)) hb

/-- If even the smallest continuation overflows 64 bits, the hash is invalidated. -/
theorem fold_overflow (cs : Bytes) (h : Nat) (hh : h < 2 ^ 64) (hb : 2 ^ 64 ≤ h * 32 ^ cs.length) :
    cs.foldl NameHash.update h = emptyHash := by
  apply Classical.byContradiction
  intro hne
  have h1 := (fold_ne_empty cs h hne).2
  have h2 := V_lower cs h
  have h3 := fold_lt cs h hh
  omega

end LolHtml.Lemmas.NameHash
