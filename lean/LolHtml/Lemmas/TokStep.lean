import LolHtml.Lemmas.TokAct
import LolHtml.Lemmas.InvStep
/-!
# C15 — token-part ranges: the certificate is an invariant of the interpreter

`TokB t cert m`: between two state functions the registers of `m` are described by an abstract value
accounted for by the certificate at the current state. One state-function invocation of a table whose
certificate passes `checkCert` preserves it and signals no error at a `T2` site (`stateFn_tok`).
-/
namespace LolHtml.Model

open LolHtml.Lemmas.Sim (Inv)

variable {κ : Type}

/-! ### reading the checker -/

theorem cert_arms {t : Table} {c : Cert} (h : checkCert t c = true) {i : StateId} {sd : StateDef}
    (hs : t.state? i = some sd) {a : Abs} (ha : a ∈ c.at i) :
    ∃ succs, armsSucc t i a sd.arms = some succs ∧ ∀ x ∈ succs, succCovered t c x = true := by
  unfold checkCert at h
  simp only [Bool.and_eq_true] at h
  have h2 := Table.allStates_spec h.2 hs
  simp only [List.all_eq_true] at h2
  have h3 := h2 a ha
  split at h3
  · cases h3
  · rename_i succs hsucc
    simp only [List.all_eq_true] at h3
    exact ⟨succs, hsucc, h3⟩

theorem cert_text {t : Table} {c : Cert} (h : checkCert t c = true) (tt : TextType) :
    textCovered t c (t.textState tt) = true := by
  unfold checkCert at h
  simp only [Bool.and_eq_true] at h
  obtain ⟨⟨⟨⟨⟨⟨⟨_, h1⟩, h2⟩, h3⟩, h4⟩, h5⟩, h6⟩, _⟩ := h
  cases tt <;> simp only [Table.textState] <;> assumption

theorem armsSucc_mem {t : Table} {i : StateId} {a : Abs} {arms : List Arm} {succs : List Succ}
    (h : armsSucc t i a arms = some succs) {arm : Arm} (harm : arm ∈ arms) :
    ∃ l1, bodySucc t i arm.pat.hasByte (arm.pat == .eof) arm.body a = some l1 ∧ ∀ x ∈ l1, x ∈ succs := by
  induction arms generalizing succs with
  | nil => cases harm
  | cons x rest ih =>
    simp only [armsSucc] at h
    split at h
    · rename_i l1 l2 h1 h2
      simp only [Option.some.injEq] at h
      subst h
      simp only [List.mem_cons] at harm
      rcases harm with rfl | harm
      · exact ⟨l1, h1, fun y hy => List.mem_append_left _ hy⟩
      · obtain ⟨l, e1, e2⟩ := ih h2 harm
        exact ⟨l, e1, fun y hy => List.mem_append_right _ (e2 y hy)⟩
    · cases h

theorem absStep_flag {hb : Bool} {act : ActName} {f f' : Bool} {a a' : Abs}
    (h : absStep hb act (f, a) = some (f', a')) : flagStep hb act f = some f' := by
  unfold absStep at h
  dsimp only at h
  split at h
  · rename_i f1 l1 s1 hf _ _
    simp only [Option.some.injEq, Prod.mk.injEq] at h
    rw [hf, h.1]
  · cases h

theorem absCalls_flag {hb : Bool} (cs : List Call) {f f' : Bool} {a a' : Abs}
    (h : absCalls hb cs (f, a) = some (f', a')) : flagCalls hb cs f = some f' := by
  induction cs generalizing f a with
  | nil => simp only [absCalls, Option.some.injEq, Prod.mk.injEq] at h; simp only [flagCalls, h.1]
  | cons c cs ih =>
    simp only [absCalls] at h
    split at h
    · cases h
    · rename_i fa' hstep
      obtain ⟨f1, a1⟩ := fa'
      simp only [flagCalls, absStep_flag hstep]
      exact ih h

/-! ### the invariant between state functions -/

def enterPending (sd : StateDef) (c : Common) : Bool := !sd.enter.isEmpty && !c.entered

def TokB (t : Table) (cert : Cert) (m : M κ) : Prop :=
  ∃ a sd, t.state? m.c.state = some sd ∧ TokM a m.c.nextPos m ∧
    (if enterPending sd m.c then succCovered t cert ⟨m.c.state, true, a⟩ = true
     else covered (cert.at m.c.state) a = true)

/-- token-part specification of one state-function invocation -/
def TokStep (t : Table) (cert : Cert) (r : M κ × Option Signal) : Prop :=
  Inv r.1.x.sim ∧
  match r.2 with
  | none => TokB t cert r.1
  | some (.err e) => ErrNot T2 e
  | some (.endOfInput _) => r.1.c.isLast = false → TokB t cert r.1
  | some (.directive _ _) => True

/-- a covered transition target establishes `TokB` once the machine has moved there -/
theorem TokB_of_succ {t : Table} {cert : Cert} {m : M κ} {a : Abs} (ht : TokM a m.c.nextPos m)
    (hent : m.c.entered = false) (hcov : succCovered t cert ⟨m.c.state, true, a⟩ = true) : TokB t cert m := by
  have hcov' := hcov
  unfold succCovered at hcov
  simp only [if_true] at hcov
  split at hcov
  · cases hcov
  · rename_i sd hsd
    refine ⟨a, sd, hsd, ht, ?_⟩
    split
    · exact hcov'
    · rename_i hp
      simp only [enterPending, hent, Bool.not_false, Bool.and_true, Bool.not_eq_true', Bool.not_eq_false] at hp
      have : sd.enter = [] := by
        cases he : sd.enter with
        | nil => rfl
        | cons x xs => rw [he] at hp; simp at hp
      split at hcov
      · cases hcov
      · rename_i a0 ha0
        simp only [enterAbs, this, absCalls, Option.map_some, Option.some.injEq] at ha0
        subst ha0
        exact hcov

section
variable {env : Env κ} {inp : Bytes} {W : κ → Nat} {lo : Nat}

/-! ### action lists -/

theorem runCalls_tok (hs : SinkSafe env.ops W inp U1) (hs2 : SinkSafe2 env.ops inp) {hb : Bool} (cs : List Call)
    {f f' : Bool} {a a' : Abs} (m : M κ) (hm : MInvA W inp.length lo hb f m) {pos : Nat}
    (hpos : pos = m.c.nextPos - 1) (ht : TokM a pos m) (hc : absCalls hb cs (f, a) = some (f', a')) :
    ((runCalls env inp cs m).2 = none → TokM a' pos (runCalls env inp cs m).1) ∧
    Inv (runCalls env inp cs m).1.x.sim ∧
    ∀ e, (runCalls env inp cs m).2 = some (.err e) → ErrNot T2 e := by
  induction cs generalizing m f a with
  | nil =>
    simp only [absCalls, Option.some.injEq, Prod.mk.injEq] at hc
    obtain ⟨_, rfl⟩ := hc
    simp only [runCalls]
    exact ⟨fun _ => ht, ht.2, fun e h => by cases h⟩
  | cons cl cs ih =>
    simp only [absCalls] at hc
    split at hc
    · cases hc
    · rename_i fa' hstep
      obtain ⟨f1, a1⟩ := fa'
      have h1 := act_post hs cl.act m hm (absStep_flag hstep)
      have t1 := act_tok hs2 cl.act m hm (by rw [← hpos]; exact ht) hstep
      rw [← hpos] at t1
      have ih' := ih (act env cl.act inp m).1 h1.2.1 (by rw [h1.1.1]; exact hpos) t1.1 hc
      simp only [runCalls]
      split
      · rename_i s hsig
        split
        · refine ⟨fun h => (by cases h), t1.1.2, fun e h => ?_⟩
          simp only [Option.some.injEq] at h
          subst h
          exact t1.2 e hsig
        · exact ih'
      · exact ih'


/-! ### `entered` is not touched by actions -/

theorem lexHandleFeedback_entered {c : Common} {sim : Sim} {f : Feedback} {o : TagOutline}
    {cs : Common × Sim} (h : lexHandleFeedback inp c sim f o = .ok cs) : cs.1.entered = c.entered := by
  unfold lexHandleFeedback at h
  dsimp only at h
  (repeat' split at h) <;> first | (cases h; done) | (simp only [Except.ok.injEq] at h; subst h; rfl)

theorem lexEmitTag_entered (c : Common) (l : LexRegs) (x : Ctx κ) :
    (lexEmitTag env inp c l x).1.c.entered = c.entered := by
  unfold lexEmitTag
  split
  · rfl
  · rename_i tok _
    dsimp only
    split
    · rfl
    · rename_i sf _
      split
      · rfl
      · rename_i cs hcs
        have hfr : cs.1.entered = c.entered := by
          split at hcs
          · exact lexHandleFeedback_entered (c := { c with lastTextType := .data }) hcs
          · simp only [Except.ok.injEq] at hcs; subst hcs; rfl
        rw [(lexEmitTagLexeme_keep _ _ _ _ _ _).1]
        unfold lexStampTag
        split <;> exact hfr

theorem lexAct_entered (a : ActName) (c : Common) (l : LexRegs) (x : Ctx κ) :
    (lexAct env a inp c l x).1.c.entered = c.entered := by
  cases a <;> simp only [lexAct]
  case emitText => rw [(lexEmitText_keep c l x).1]
  case emitTextAndEof =>
    rw [(andThen_keep _ (lexEmitEof env inp) c (lexEmitText_keep c l x) lexEmitEof_keep).1]
  case emitCurrentToken => rw [(lexEmitNonTag_keep _ _ _ _ _).1]
  case emitCurrentTokenAndEof =>
    rw [(andThen_keep _ (lexEmitEof env inp) c (lexEmitNonTag_keep c { l with curNonTag := none } x l.curNonTag c.pos) lexEmitEof_keep).1]
  case emitRawWithoutToken => rw [(lexEmitNonTag_keep _ _ _ _ _).1]
  case emitRawWithoutTokenAndEof =>
    rw [(andThen_keep _ (lexEmitEof env inp) c (lexEmitNonTag_keep c l x none c.pos) lexEmitEof_keep).1]
  case emitTag => exact lexEmitTag_entered c l x
  all_goals (repeat' split) <;> rfl

theorem scanAct_entered (a : ActName) (c : Common) (s : ScanRegs) (x : Ctx κ) :
    (scanAct env a inp c s x).1.c.entered = c.entered := by
  cases a <;> simp only [scanAct]
  case finishTagName =>
    unfold scanFinishTagName
    split
    · rfl
    · dsimp only
      split
      · rfl
      · rename_i sf _
        have hf : (scanApplyFeedback c { s with tagStart := none } sf.2).1.entered = c.entered := by
          cases sf.2 <;> rfl
        split
        · exact hf
        · unfold scanEmitHint
          split
          · exact hf
          · dsimp only
            split <;> (dsimp only; split <;> exact hf)
  all_goals (repeat' split) <;> rfl

theorem act_entered (a : ActName) (m : M κ) : (act env a inp m).1.c.entered = m.c.entered := by
  unfold act
  cases m with
  | mk c r x =>
    cases r with
    | lexer l => exact lexAct_entered a c l x
    | scanner s => exact scanAct_entered a c s x

theorem runCalls_entered (cs : List Call) (m : M κ) : (runCalls env inp cs m).1.c.entered = m.c.entered := by
  induction cs generalizing m with
  | nil => rfl
  | cons cl cs ih =>
    simp only [runCalls]
    have h1 := act_entered (env := env) (inp := inp) cl.act m
    split
    · split
      · exact h1
      · rw [ih, h1]
    · rw [ih, h1]

/-! ### arm bodies -/

/-- token-part result of an action list with its transition -/
def SeqTok (t : Table) (cert : Cert) (hb isEof : Bool) (st : StateId) (pos : Nat)
    (r : M κ × Option Signal × SeqEnd) : Prop :=
  (∀ e, r.2.1 = some (.err e) → ErrNot T2 e) ∧ Inv r.1.x.sim ∧
  (r.2.1 = none → r.2.2 = .transitioned → TokB t cert r.1) ∧
  (r.2.1 = none → r.2.2 = .fell → ∃ a', TokM a' pos r.1 ∧
    (if hb then covered (cert.at st) a'.bump = true else (isEof = false → covered (cert.at st) a' = true)))

theorem TokM_regs {a : Abs} {hi : Nat} {m m' : M κ} (h : TokM a hi m) (hr : m'.r = m.r) (hx : m'.x.sim = m.x.sim) :
    TokM a hi m' := by
  unfold TokM at *
  rw [hr, hx]
  exact h

theorem runSeq_tok {cert : Cert} (hs : SinkSafe env.ops W inp U1) (hs2 : SinkSafe2 env.ops inp) {hb isEof : Bool}
    (s : ActSeq) (m : M κ) (hm : MInvA W inp.length lo hb true m) {pos : Nat} (hpos : pos = m.c.nextPos - 1)
    {a : Abs} (ht : TokM a pos m) {succs : List Succ}
    (hsucc : seqSucc env.tbl m.c.state hb isEof s a = some succs)
    (hcov : ∀ x ∈ succs, succCovered env.tbl cert x = true) :
    SeqTok env.tbl cert hb isEof m.c.state pos (runSeq env inp s m) := by
  unfold seqSucc at hsucc
  split at hsucc
  · cases hsucc
  · rename_i f' a' hcalls
    have rc := runCalls_tok hs hs2 s.calls m hm hpos ht hcalls
    have h1 := runCalls_post hs s.calls m hm (absCalls_flag s.calls hcalls)
    unfold runSeq
    dsimp only
    split
    · rename_i sig hsig
      refine ⟨fun e h => ?_, rc.2.1, fun h => by simp at h, fun h => by simp at h⟩
      have : sig = .err e := by simpa using h
      subst this
      exact rc.2.2 e hsig
    · rename_i hnone
      have hA := h1.2.1 hnone
      have tk := rc.1 hnone
      obtain ⟨fN, fS, fL⟩ := h1.1
      obtain ⟨a1, a2, a3, a4, a5⟩ := hA
      have hNpos : (runCalls env inp s.calls m).1.c.nextPos = pos + 1 := by rw [fN, hpos]; omega
      split
      · -- no transition
        rename_i htr
        rw [htr] at hsucc
        refine ⟨fun e h => by simp at h, rc.2.1, fun _ h => by simp at h, fun _ _ => ⟨a', tk, ?_⟩⟩
        cases hb
        · simp only [Bool.false_eq_true, if_false] at hsucc ⊢
          cases isEof
          · simp only [Bool.false_eq_true, if_false, Option.some.injEq] at hsucc
            subst hsucc
            intro _
            have := hcov ⟨m.c.state, false, a'⟩ (by simp)
            simpa [succCovered] using this
          · intro h; cases h
        · simp only [if_true, Option.some.injEq] at hsucc ⊢
          subst hsucc
          have := hcov ⟨m.c.state, false, a'.bump⟩ (by simp)
          simpa [succCovered] using this
      · rename_i tr htr
        rw [htr] at hsucc
        cases tr with
        | goto x =>
          simp only [Option.some.injEq] at hsucc
          subst hsucc
          simp only [applyTrans]
          refine ⟨fun e h => by simp at h, rc.2.1, fun _ _ => ?_, fun _ h => by simp at h⟩
          apply TokB_of_succ (a := a'.bump)
          · dsimp only
            rw [hNpos]
            exact TokM_regs ⟨TokR.bump tk.1, tk.2⟩ rfl rfl
          · rfl
          · exact hcov _ (by simp)
        | gotoDyn =>
          simp only [Option.some.injEq] at hsucc
          subst hsucc
          simp only [applyTrans]
          refine ⟨fun e h => by simp at h, rc.2.1, fun _ _ => ?_, fun _ h => by simp at h⟩
          apply TokB_of_succ (a := a'.bump)
          · dsimp only
            rw [hNpos]
            exact TokM_regs ⟨TokR.bump tk.1, tk.2⟩ rfl rfl
          · rfl
          · dsimp only
            cases (runCalls env inp s.calls m).1.c.lastTextType <;> simp only [Table.textState] <;>
              exact hcov _ (by simp)
        | reconsume x =>
          simp only [Option.some.injEq] at hsucc
          subst hsucc
          simp only [applyTrans]
          rw [if_neg (by omega)]
          refine ⟨fun e h => by simp at h, rc.2.1, fun _ _ => ?_, fun _ h => by simp at h⟩
          apply TokB_of_succ (a := a')
          · dsimp only
            rw [hNpos, Nat.add_sub_cancel]
            exact TokM_regs tk rfl rfl
          · rfl
          · exact hcov _ (by simp)

theorem cond_isSome {a : Abs} {hi : Nat} (cnd : Cond) (m : M κ) (ht : TokM a hi m) (hc : condOK cnd a = true) :
    ∃ b, cond cnd m = some b := by
  cases cnd with
  | cdataAllowed => exact ⟨_, rfl⟩
  | isAppropriateEndTag =>
    cases hr : m.r with
    | scanner s => simp only [cond, hr]; exact ⟨_, rfl⟩
    | lexer l =>
      simp only [condOK, beq_iff_eq] at hc
      have h1 := ht.1
      rw [hr] at h1
      have h2 := h1.1
      rw [hc] at h2
      obtain ⟨o, e1, e2, _⟩ := h2
      cases o with
      | startTag n hsh ns as sc => cases e2
      | endTag n hsh => simp only [cond, hr, e1]; exact ⟨_, rfl⟩

theorem runBody_tok {cert : Cert} (hs : SinkSafe env.ops W inp U1) (hs2 : SinkSafe2 env.ops inp) {hb isEof : Bool}
    (b : Body) (m : M κ) (hm : MInvA W inp.length lo hb true m) {pos : Nat} (hpos : pos = m.c.nextPos - 1)
    {a : Abs} (ht : TokM a pos m) {succs : List Succ}
    (hsucc : bodySucc env.tbl m.c.state hb isEof b a = some succs)
    (hcov : ∀ x ∈ succs, succCovered env.tbl cert x = true) :
    SeqTok env.tbl cert hb isEof m.c.state pos (runBody env inp b m) := by
  cases b with
  | seq s => exact runSeq_tok hs hs2 s m hm hpos ht hsucc hcov
  | ite cnd x y =>
    simp only [bodySucc] at hsucc
    split at hsucc
    · rename_i hc
      split at hsucc
      · rename_i l1 l2 h1 h2
        simp only [Option.some.injEq] at hsucc
        subst hsucc
        obtain ⟨bv, hbv⟩ := cond_isSome cnd m ht hc
        simp only [runBody, hbv]
        cases bv
        · exact runSeq_tok hs hs2 y m hm hpos ht h2 (fun z hz => hcov z (List.mem_append_right _ hz))
        · exact runSeq_tok hs hs2 x m hm hpos ht h1 (fun z hz => hcov z (List.mem_append_left _ hz))
      · cases hsucc
    · cases hsucc

end
end LolHtml.Model
