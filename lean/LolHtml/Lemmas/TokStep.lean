import LolHtml.Lemmas.TokAct
import LolHtml.Lemmas.InvStep
/-!
# C15 — token-part ranges: the certificate is an invariant of the interpreter

`TokB t cert m`: between two state functions the registers of `m` are described by an abstract value
accounted for by the certificate at the current state. One state-function invocation of a table whose
certificate passes `checkCert` preserves it and signals no error at a `T2` site (`stateFn_tok`).
-/
namespace LolHtml.Model

open LolHtml.Lemmas.Sim (Inv)

variable {κ : Type}

/-! ### reading the checker -/

theorem cert_arms {t : Table} {c : Cert} (h : checkCert t c = true) {i : StateId} {sd : StateDef}
    (hs : t.state? i = some sd) {a : Abs} (ha : a ∈ c.at i) :
    ∃ succs, armsSucc t i a sd.arms = some succs ∧ ∀ x ∈ succs, succCovered t c x = true := by
  unfold checkCert at h
  simp only [Bool.and_eq_true] at h
  have h2 := Table.allStates_spec h.2 hs
  simp only [List.all_eq_true] at h2
  have h3 := h2 a ha
  split at h3
  · cases h3
  · rename_i succs hsucc
    simp only [List.all_eq_true] at h3
    exact ⟨succs, hsucc, h3⟩

theorem cert_text {t : Table} {c : Cert} (h : checkCert t c = true) (tt : TextType) :
    textCovered t c (t.textState tt) = true := by
  unfold checkCert at h
  simp only [Bool.and_eq_true] at h
  obtain ⟨⟨⟨⟨⟨⟨⟨_, h1⟩, h2⟩, h3⟩, h4⟩, h5⟩, h6⟩, _⟩ := h
  cases tt <;> simp only [Table.textState] <;> assumption

theorem armsSucc_mem {t : Table} {i : StateId} {a : Abs} {arms : List Arm} {succs : List Succ}
    (h : armsSucc t i a arms = some succs) {arm : Arm} (harm : arm ∈ arms) :
    ∃ l1, bodySucc t i arm.pat.hasByte (arm.pat == .eof) arm.body a = some l1 ∧ ∀ x ∈ l1, x ∈ succs := by
  induction arms generalizing succs with
  | nil => cases harm
  | cons x rest ih =>
    simp only [armsSucc] at h
    split at h
    · rename_i l1 l2 h1 h2
      simp only [Option.some.injEq] at h
      subst h
      simp only [List.mem_cons] at harm
      rcases harm with rfl | harm
      · exact ⟨l1, h1, fun y hy => List.mem_append_left _ hy⟩
      · obtain ⟨l, e1, e2⟩ := ih h2 harm
        exact ⟨l, e1, fun y hy => List.mem_append_right _ (e2 y hy)⟩
    · cases h

theorem absStep_flag {hb : Bool} {act : ActName} {f f' : Bool} {a a' : Abs}
    (h : absStep hb act (f, a) = some (f', a')) : flagStep hb act f = some f' := by
  unfold absStep at h
  dsimp only at h
  split at h
  · rename_i f1 l1 s1 hf _ _
    simp only [Option.some.injEq, Prod.mk.injEq] at h
    rw [hf, h.1]
  · cases h

theorem absCalls_flag {hb : Bool} (cs : List Call) {f f' : Bool} {a a' : Abs}
    (h : absCalls hb cs (f, a) = some (f', a')) : flagCalls hb cs f = some f' := by
  induction cs generalizing f a with
  | nil => simp only [absCalls, Option.some.injEq, Prod.mk.injEq] at h; simp only [flagCalls, h.1]
  | cons c cs ih =>
    simp only [absCalls] at h
    split at h
    · cases h
    · rename_i fa' hstep
      obtain ⟨f1, a1⟩ := fa'
      simp only [flagCalls, absStep_flag hstep]
      exact ih h

/-! ### the invariant between state functions -/

def enterPending (sd : StateDef) (c : Common) : Bool := !sd.enter.isEmpty && !c.entered

def TokB (t : Table) (cert : Cert) (m : M κ) : Prop :=
  ∃ a sd, t.state? m.c.state = some sd ∧ TokM a m.c.nextPos m ∧
    (if enterPending sd m.c then succCovered t cert ⟨m.c.state, true, a⟩ = true
     else covered (cert.at m.c.state) a = true)

/-- token-part specification of one state-function invocation -/
def TokStep (t : Table) (cert : Cert) (r : M κ × Option Signal) : Prop :=
  Inv r.1.x.sim ∧
  match r.2 with
  | none => TokB t cert r.1
  | some (.err e) => ErrNot T2 e
  | some (.endOfInput _) => r.1.c.isLast = false → TokB t cert r.1
  | some (.directive _ _) => True

/-- a covered transition target establishes `TokB` once the machine has moved there -/
theorem TokB_of_succ {t : Table} {cert : Cert} {m : M κ} {a : Abs} (ht : TokM a m.c.nextPos m)
    (hent : m.c.entered = false) (hcov : succCovered t cert ⟨m.c.state, true, a⟩ = true) : TokB t cert m := by
  have hcov' := hcov
  unfold succCovered at hcov
  simp only [if_true] at hcov
  split at hcov
  · cases hcov
  · rename_i sd hsd
    refine ⟨a, sd, hsd, ht, ?_⟩
    split
    · exact hcov'
    · rename_i hp
      simp only [enterPending, hent, Bool.not_false, Bool.and_true, Bool.not_eq_true', Bool.not_eq_false] at hp
      have : sd.enter = [] := by
        cases he : sd.enter with
        | nil => rfl
        | cons x xs => rw [he] at hp; simp at hp
      split at hcov
      · cases hcov
      · rename_i a0 ha0
        simp only [enterAbs, this, absCalls, Option.map_some, Option.some.injEq] at ha0
        subst ha0
        exact hcov

section
variable {env : Env κ} {inp : Bytes} {W : κ → Nat} {lo : Nat}

/-! ### action lists -/

theorem runCalls_tok (hs : SinkSafe env.ops W inp U1) (hs2 : SinkSafe2 env.ops inp) {hb : Bool} (cs : List Call)
    {f f' : Bool} {a a' : Abs} (m : M κ) (hm : MInvA W inp.length lo hb f m) {pos : Nat}
    (hpos : pos = m.c.nextPos - 1) (ht : TokM a pos m) (hc : absCalls hb cs (f, a) = some (f', a')) :
    ((runCalls env inp cs m).2 = none → TokM a' pos (runCalls env inp cs m).1) ∧
    Inv (runCalls env inp cs m).1.x.sim ∧
    ∀ e, (runCalls env inp cs m).2 = some (.err e) → ErrNot T2 e := by
  induction cs generalizing m f a with
  | nil =>
    simp only [absCalls, Option.some.injEq, Prod.mk.injEq] at hc
    obtain ⟨_, rfl⟩ := hc
    simp only [runCalls]
    exact ⟨fun _ => ht, ht.2, fun e h => by cases h⟩
  | cons cl cs ih =>
    simp only [absCalls] at hc
    split at hc
    · cases hc
    · rename_i fa' hstep
      obtain ⟨f1, a1⟩ := fa'
      have h1 := act_post hs cl.act m hm (absStep_flag hstep)
      have t1 := act_tok hs2 cl.act m hm (by rw [← hpos]; exact ht) hstep
      rw [← hpos] at t1
      have ih' := ih (act env cl.act inp m).1 h1.2.1 (by rw [h1.1.1]; exact hpos) t1.1 hc
      simp only [runCalls]
      split
      · rename_i s hsig
        split
        · refine ⟨fun h => (by cases h), t1.1.2, fun e h => ?_⟩
          simp only [Option.some.injEq] at h
          subst h
          exact t1.2 e hsig
        · exact ih'
      · exact ih'


/-! ### `entered` is not touched by actions -/

theorem lexHandleFeedback_entered {c : Common} {sim : Sim} {f : Feedback} {o : TagOutline}
    {cs : Common × Sim} (h : lexHandleFeedback inp c sim f o = .ok cs) : cs.1.entered = c.entered := by
  unfold lexHandleFeedback at h
  dsimp only at h
  (repeat' split at h) <;> first | (cases h; done) | (simp only [Except.ok.injEq] at h; subst h; rfl)

theorem lexEmitTag_entered (c : Common) (l : LexRegs) (x : Ctx κ) :
    (lexEmitTag env inp c l x).1.c.entered = c.entered := by
  unfold lexEmitTag
  split
  · rfl
  · rename_i tok _
    dsimp only
    split
    · rfl
    · rename_i sf _
      split
      · rfl
      · rename_i cs hcs
        have hfr : cs.1.entered = c.entered := by
          split at hcs
          · exact lexHandleFeedback_entered (c := { c with lastTextType := .data }) hcs
          · simp only [Except.ok.injEq] at hcs; subst hcs; rfl
        rw [(lexEmitTagLexeme_keep _ _ _ _ _ _).1]
        unfold lexStampTag
        split <;> exact hfr

theorem lexAct_entered (a : ActName) (c : Common) (l : LexRegs) (x : Ctx κ) :
    (lexAct env a inp c l x).1.c.entered = c.entered := by
  cases a <;> simp only [lexAct]
  case emitText => rw [(lexEmitText_keep c l x).1]
  case emitTextAndEof =>
    rw [(andThen_keep _ (lexEmitEof env inp) c (lexEmitText_keep c l x) lexEmitEof_keep).1]
  case emitCurrentToken => rw [(lexEmitNonTag_keep _ _ _ _ _).1]
  case emitCurrentTokenAndEof =>
    rw [(andThen_keep _ (lexEmitEof env inp) c (lexEmitNonTag_keep c { l with curNonTag := none } x l.curNonTag c.pos) lexEmitEof_keep).1]
  case emitRawWithoutToken => rw [(lexEmitNonTag_keep _ _ _ _ _).1]
  case emitRawWithoutTokenAndEof =>
    rw [(andThen_keep _ (lexEmitEof env inp) c (lexEmitNonTag_keep c l x none c.pos) lexEmitEof_keep).1]
  case emitTag => exact lexEmitTag_entered c l x
  all_goals (repeat' split) <;> rfl

theorem scanAct_entered (a : ActName) (c : Common) (s : ScanRegs) (x : Ctx κ) :
    (scanAct env a inp c s x).1.c.entered = c.entered := by
  cases a <;> simp only [scanAct]
  case finishTagName =>
    unfold scanFinishTagName
    split
    · rfl
    · dsimp only
      split
      · rfl
      · rename_i sf _
        have hf : (scanApplyFeedback c { s with tagStart := none } sf.2).1.entered = c.entered := by
          cases sf.2 <;> rfl
        split
        · exact hf
        · unfold scanEmitHint
          split
          · exact hf
          · dsimp only
            split <;> (dsimp only; split <;> exact hf)
  all_goals (repeat' split) <;> rfl

theorem act_entered (a : ActName) (m : M κ) : (act env a inp m).1.c.entered = m.c.entered := by
  unfold act
  cases m with
  | mk c r x =>
    cases r with
    | lexer l => exact lexAct_entered a c l x
    | scanner s => exact scanAct_entered a c s x

theorem runCalls_entered (cs : List Call) (m : M κ) : (runCalls env inp cs m).1.c.entered = m.c.entered := by
  induction cs generalizing m with
  | nil => rfl
  | cons cl cs ih =>
    simp only [runCalls]
    have h1 := act_entered (env := env) (inp := inp) cl.act m
    split
    · split
      · exact h1
      · rw [ih, h1]
    · rw [ih, h1]

/-! ### arm bodies -/

/-- token-part result of an action list with its transition -/
def SeqTok (t : Table) (cert : Cert) (hb isEof : Bool) (st : StateId) (pos : Nat)
    (r : M κ × Option Signal × SeqEnd) : Prop :=
  (∀ e, r.2.1 = some (.err e) → ErrNot T2 e) ∧ Inv r.1.x.sim ∧
  (r.2.1 = none → r.2.2 = .transitioned → TokB t cert r.1) ∧
  (r.2.1 = none → r.2.2 = .fell → ∃ a', TokM a' pos r.1 ∧
    (if hb then covered (cert.at st) a'.bump = true else (isEof = false → covered (cert.at st) a' = true)))

theorem TokM_regs {a : Abs} {hi : Nat} {m m' : M κ} (h : TokM a hi m) (hr : m'.r = m.r) (hx : m'.x.sim = m.x.sim) :
    TokM a hi m' := by
  unfold TokM at *
  rw [hr, hx]
  exact h

theorem runSeq_tok {cert : Cert} (hs : SinkSafe env.ops W inp U1) (hs2 : SinkSafe2 env.ops inp) {hb isEof : Bool}
    (s : ActSeq) (m : M κ) (hm : MInvA W inp.length lo hb true m) {pos : Nat} (hpos : pos = m.c.nextPos - 1)
    {a : Abs} (ht : TokM a pos m) {succs : List Succ}
    (hsucc : seqSucc env.tbl m.c.state hb isEof s a = some succs)
    (hcov : ∀ x ∈ succs, succCovered env.tbl cert x = true) :
    SeqTok env.tbl cert hb isEof m.c.state pos (runSeq env inp s m) := by
  unfold seqSucc at hsucc
  split at hsucc
  · cases hsucc
  · rename_i f' a' hcalls
    have rc := runCalls_tok hs hs2 s.calls m hm hpos ht hcalls
    have h1 := runCalls_post hs s.calls m hm (absCalls_flag s.calls hcalls)
    unfold runSeq
    dsimp only
    split
    · rename_i sig hsig
      refine ⟨fun e h => ?_, rc.2.1, fun h => by simp at h, fun h => by simp at h⟩
      have : sig = .err e := by simpa using h
      subst this
      exact rc.2.2 e hsig
    · rename_i hnone
      have hA := h1.2.1 hnone
      have tk := rc.1 hnone
      obtain ⟨fN, fS, fL⟩ := h1.1
      obtain ⟨a1, a2, a3, a4, a5⟩ := hA
      have hNpos : (runCalls env inp s.calls m).1.c.nextPos = pos + 1 := by rw [fN, hpos]; omega
      split
      · -- no transition
        rename_i htr
        rw [htr] at hsucc
        refine ⟨fun e h => by simp at h, rc.2.1, fun _ h => by simp at h, fun _ _ => ⟨a', tk, ?_⟩⟩
        cases hb
        · simp only [Bool.false_eq_true, if_false] at hsucc ⊢
          cases isEof
          · simp only [Bool.false_eq_true, if_false, Option.some.injEq] at hsucc
            subst hsucc
            intro _
            have := hcov ⟨m.c.state, false, a'⟩ (by simp)
            simpa [succCovered] using this
          · intro h; cases h
        · simp only [if_true, Option.some.injEq] at hsucc ⊢
          subst hsucc
          have := hcov ⟨m.c.state, false, a'.bump⟩ (by simp)
          simpa [succCovered] using this
      · rename_i tr htr
        rw [htr] at hsucc
        cases tr with
        | goto x =>
          simp only [Option.some.injEq] at hsucc
          subst hsucc
          simp only [applyTrans]
          refine ⟨fun e h => by simp at h, rc.2.1, fun _ _ => ?_, fun _ h => by simp at h⟩
          apply TokB_of_succ (a := a'.bump)
          · dsimp only
            rw [hNpos]
            exact TokM_regs ⟨TokR.bump tk.1, tk.2⟩ rfl rfl
          · rfl
          · exact hcov _ (by simp)
        | gotoDyn =>
          simp only [Option.some.injEq] at hsucc
          subst hsucc
          simp only [applyTrans]
          refine ⟨fun e h => by simp at h, rc.2.1, fun _ _ => ?_, fun _ h => by simp at h⟩
          apply TokB_of_succ (a := a'.bump)
          · dsimp only
            rw [hNpos]
            exact TokM_regs ⟨TokR.bump tk.1, tk.2⟩ rfl rfl
          · rfl
          · dsimp only
            cases (runCalls env inp s.calls m).1.c.lastTextType <;> simp only [Table.textState] <;>
              exact hcov _ (by simp)
        | reconsume x =>
          simp only [Option.some.injEq] at hsucc
          subst hsucc
          simp only [applyTrans]
          rw [if_neg (by omega)]
          refine ⟨fun e h => by simp at h, rc.2.1, fun _ _ => ?_, fun _ h => by simp at h⟩
          apply TokB_of_succ (a := a')
          · dsimp only
            rw [hNpos, Nat.add_sub_cancel]
            exact TokM_regs tk rfl rfl
          · rfl
          · exact hcov _ (by simp)

theorem cond_isSome {a : Abs} {hi : Nat} (cnd : Cond) (m : M κ) (ht : TokM a hi m) (hc : condOK cnd a = true) :
    ∃ b, cond cnd m = some b := by
  cases cnd with
  | cdataAllowed => exact ⟨_, rfl⟩
  | isAppropriateEndTag =>
    cases hr : m.r with
    | scanner s => simp only [cond, hr]; exact ⟨_, rfl⟩
    | lexer l =>
      simp only [condOK, beq_iff_eq] at hc
      have h1 := ht.1
      rw [hr] at h1
      have h2 := h1.1
      rw [hc] at h2
      obtain ⟨o, e1, e2, _⟩ := h2
      cases o with
      | startTag n hsh ns as sc => cases e2
      | endTag n hsh => simp only [cond, hr, e1]; exact ⟨_, rfl⟩

theorem runBody_tok {cert : Cert} (hs : SinkSafe env.ops W inp U1) (hs2 : SinkSafe2 env.ops inp) {hb isEof : Bool}
    (b : Body) (m : M κ) (hm : MInvA W inp.length lo hb true m) {pos : Nat} (hpos : pos = m.c.nextPos - 1)
    {a : Abs} (ht : TokM a pos m) {succs : List Succ}
    (hsucc : bodySucc env.tbl m.c.state hb isEof b a = some succs)
    (hcov : ∀ x ∈ succs, succCovered env.tbl cert x = true) :
    SeqTok env.tbl cert hb isEof m.c.state pos (runBody env inp b m) := by
  cases b with
  | seq s => exact runSeq_tok hs hs2 s m hm hpos ht hsucc hcov
  | ite cnd x y =>
    simp only [bodySucc] at hsucc
    split at hsucc
    · rename_i hc
      split at hsucc
      · rename_i l1 l2 h1 h2
        simp only [Option.some.injEq] at hsucc
        subst hsucc
        obtain ⟨bv, hbv⟩ := cond_isSome cnd m ht hc
        simp only [runBody, hbv]
        cases bv
        · exact runSeq_tok hs hs2 y m hm hpos ht h2 (fun z hz => hcov z (List.mem_append_right _ hz))
        · exact runSeq_tok hs hs2 x m hm hpos ht h1 (fun z hz => hcov z (List.mem_append_left _ hz))
      · cases hsucc
    · cases hsucc


/-! ### re-basing at a break -/

theorem RangeOK.rebase {ls hi : Nat} {r : Range} (h : RangeOK ls hi 0 r) : RangeOK 0 (hi - ls) 0 (r.align ls) := by
  obtain ⟨h1, h2, h3⟩ := h
  refine ⟨?_, ?_, Or.inl (Nat.zero_le _)⟩ <;> (simp only [Range.align, alignNat]; (repeat' split) <;> omega)

theorem RangeM.rebase {ls hi k : Nat} {r : Range} (h : RangeM ls hi k r) : RangeM 0 (hi - ls) k (r.align ls) := by
  obtain ⟨h1, h2, h3⟩ := h
  refine ⟨?_, ?_, Nat.zero_le _⟩ <;> (simp only [Range.align, alignNat]; (repeat' split) <;> omega)

theorem AttrOK.rebase {ls hi : Nat} {x : AttrOutline} (h : AttrOK ls hi x) : AttrOK 0 (hi - ls) (x.align ls) :=
  ⟨h.1.rebase, h.2.rebase⟩

theorem TagOK.rebase {ls hi : Nat} {o : TagOutline} (h : TagOK ls hi o) : TagOK 0 (hi - ls) (o.align ls) := by
  cases o with
  | startTag n hsh ns as sc =>
    refine ⟨h.1.rebase, fun y hy => ?_⟩
    simp only [List.mem_map] at hy
    obtain ⟨y0, hy0, rfl⟩ := hy
    exact (h.2 y0 hy0).rebase
  | endTag n hsh => exact RangeOK.rebase h

theorem TagOutline.align_isStart (o : TagOutline) (k : Nat) : (o.align k).isStart = o.isStart := by
  cases o <;> rfl

theorem TokL.rebase {a : AbsL} {ls hi : Nat} {l : LexRegs} (h : TokL a ls hi l) (hl : ls ≤ hi) :
    TokL a 0 (hi - ls)
      { l with tokenPartStart := alignNat l.tokenPartStart ls, curTag := l.curTag.map (·.align ls),
               curNonTag := l.curNonTag.map (·.align ls), curAttr := l.curAttr.map (·.align ls), lexemeStart := 0 } := by
  obtain ⟨h1, h2, h3, h4⟩ := h
  refine ⟨?_, ?_, ?_, ?_⟩
  · cases ha : a.tag <;> simp only [ha, TokTag] at h1 ⊢
    · rw [h1]; rfl
    · obtain ⟨o, e1, e2, e3⟩ := h1
      exact ⟨o.align ls, by rw [e1]; rfl, by rw [TagOutline.align_isStart]; exact e2, e3.rebase⟩
    · obtain ⟨o, e1, e2, e3⟩ := h1
      exact ⟨o.align ls, by rw [e1]; rfl, by rw [TagOutline.align_isStart]; exact e2, e3.rebase⟩
  · cases ha : a.attr <;> simp only [ha, TokAttr] at h2 ⊢
    · rw [h2]; rfl
    · intro y hy
      cases hc : l.curAttr with
      | none => rw [hc] at hy; cases hy
      | some y0 =>
        rw [hc] at hy
        simp only [Option.map_some, Option.some.injEq] at hy
        subst hy
        exact (h2 y0 hc).rebase
  · cases ha : a.nt <;> simp only [ha, TokNT] at h3 ⊢
    · rw [h3]; rfl
    · intro r hr
      cases hc : l.curNonTag with
      | none => rw [hc] at hr; cases hr
      | some o =>
        rw [hc] at hr
        cases o <;> simp only [Option.map_some, NonTagOutline.align, Option.some.injEq] at hr <;> try cases hr
        rename_i r0
        exact (h3 r0 hc).rebase
    · intro r hr
      cases hc : l.curNonTag with
      | none => rw [hc] at hr; cases hr
      | some o =>
        rw [hc] at hr
        cases o <;> simp only [Option.map_some, NonTagOutline.align, Option.some.injEq] at hr <;> try cases hr
        rename_i r0
        exact (h3 r0 hc).rebase
  · intro ht
    have := h4 ht
    dsimp only
    simp only [alignNat]
    split <;> omega

theorem break_tok {t : Table} (m : M κ) (hp : BreakPre t W inp.length m) {a : Abs}
    (ht : TokM a (m.c.nextPos - 1) m) :
    Inv (breakOnEndOfInput inp m).1.x.sim ∧ (breakOnEndOfInput inp m).1.c.state = m.c.state ∧
    (breakOnEndOfInput inp m).1.c.entered = m.c.entered ∧
    ((breakOnEndOfInput inp m).1.c.isLast = false →
      TokM a (breakOnEndOfInput inp m).1.c.nextPos (breakOnEndOfInput inp m).1) := by
  obtain ⟨b1, b2, sd, hsd, b3⟩ := hp
  obtain ⟨htr, hinv⟩ := ht
  cases m with
  | mk c r x =>
  cases r with
  | lexer l =>
    dsimp only at b1 b2 b3 hsd htr hinv
    simp only [breakOnEndOfInput, consumedByteCount]
    cases hl : c.isLast
    · simp only [Bool.false_eq_true, if_false, adjustForNextInput]
      rw [if_neg (by omega)]
      refine ⟨hinv, rfl, rfl, fun _ => ⟨?_, hinv⟩⟩
      exact TokL.rebase htr b3.2
    · simp only [if_true]
      rw [if_neg (by omega)]
      exact ⟨hinv, rfl, rfl, fun h => by rw [hl] at h; cases h⟩
  | scanner s =>
    dsimp only at b1 b2 b3 hsd htr hinv
    obtain ⟨c1, c2, c3⟩ := b3
    cases hts : s.tagStart with
    | none =>
      have hcons : ∀ k, ¬ (c.nextPos = 0 ∨ c.nextPos - 1 < k) → True := fun _ _ => trivial
      have hany : ∀ hi, TokS a.s hi s := by
        intro hi
        cases ha : a.s with
        | none => exact hts
        | top => trivial
        | some live =>
          have := htr
          simp only [TokR, ha, TokS] at this
          obtain ⟨p, hp, _⟩ := this
          rw [hts] at hp; cases hp
      rcases c3 with ⟨hcs, hres⟩ | ⟨hcs, hlen⟩
      · simp only [breakOnEndOfInput, consumedByteCount, hts, hcs]
        cases hl : c.isLast
        · simp only [Bool.false_eq_true, if_false, adjustForNextInput, hts]
          rw [if_neg (by omega)]
          exact ⟨hinv, rfl, rfl, fun _ => ⟨hany _, hinv⟩⟩
        · simp only [if_true]
          rw [if_neg (by omega)]
          exact ⟨hinv, rfl, rfl, fun h => by rw [hl] at h; cases h⟩
      · simp only [breakOnEndOfInput, consumedByteCount, hts, hcs]
        cases hl : c.isLast
        · simp only [Bool.false_eq_true, if_false, adjustForNextInput, hts]
          rw [if_neg (by omega)]
          exact ⟨hinv, rfl, rfl, fun _ => ⟨hany _, hinv⟩⟩
        · simp only [if_true]
          rw [if_neg (by omega)]
          exact ⟨hinv, rfl, rfl, fun h => by rw [hl] at h; cases h⟩
    | some p =>
      have hp := c2 p hts
      have hcons : consumedByteCount inp (⟨c, .scanner s, x⟩ : M κ) = p := by
        simp only [consumedByteCount, hts]
        rcases c3 with ⟨hcs, _⟩ | ⟨hcs, _⟩
        · simp only [hcs]; omega
        · simp only [hcs]
      simp only [breakOnEndOfInput, hcons]
      cases hl : c.isLast
      · simp only [Bool.false_eq_true, if_false, adjustForNextInput, hts]
        rw [if_neg (by omega)]
        refine ⟨hinv, rfl, rfl, fun _ => ⟨?_, hinv⟩⟩
        dsimp only [TokR]
        cases ha : a.s with
        | none => have := htr; simp only [TokR, ha, TokS] at this; rw [hts] at this; cases this
        | top => trivial
        | some live =>
          have := htr
          simp only [TokR, ha, TokS] at this
          obtain ⟨q, hq, hlive⟩ := this
          rw [hts] at hq
          simp only [Option.some.injEq] at hq
          subst hq
          refine ⟨0, rfl, fun h => ?_⟩
          have := hlive h
          dsimp only
          simp only [alignNat]
          split <;> omega
      · simp only [if_true]
        rw [if_neg (by omega)]
        exact ⟨hinv, rfl, rfl, fun h => by rw [hl] at h; cases h⟩

/-- a break keeps `TokB` when the abstract value is covered at the (unchanged) state -/
theorem break_tokstep {t : Table} {cert : Cert} (m : M κ) (hp : BreakPre t W inp.length m) {a : Abs}
    (ht : TokM a (m.c.nextPos - 1) m) {sd : StateDef} (hst : t.state? m.c.state = some sd)
    (hent : (sd.enter.isEmpty || m.c.entered) = true)
    (hcov : (breakOnEndOfInput inp m).1.c.isLast = false → covered (cert.at m.c.state) a = true) :
    TokStep t cert (breakOnEndOfInput inp m) := by
  obtain ⟨consumed, h1, _⟩ := breakOnEndOfInput_post (lo := 0) m hp
  obtain ⟨b1, b2, b3, b4⟩ := break_tok m hp ht
  unfold TokStep
  rw [h1]
  refine ⟨b1, fun hl => ⟨a, sd, by rw [b2]; exact hst, b4 hl, ?_⟩⟩
  have : enterPending sd (breakOnEndOfInput inp m).1.c = false := by
    simp only [enterPending, b3]
    cases he : sd.enter.isEmpty <;> simp_all
  rw [this, b2]
  simp only [Bool.false_eq_true, if_false]
  exact hcov hl

theorem runSeq_fell_entered (s : ActSeq) (m : M κ) (h1 : (runSeq env inp s m).2.1 = none)
    (h2 : (runSeq env inp s m).2.2 = .fell) : (runSeq env inp s m).1.c.entered = m.c.entered := by
  unfold runSeq at h1 h2 ⊢
  cases hc : (runCalls env inp s.calls m).2 with
  | some sig => simp only [hc] at h1; cases h1
  | none =>
    simp only [hc] at h1 h2 ⊢
    cases ht : s.trans with
    | none => simp only [ht]; exact runCalls_entered _ _
    | some t => simp only [ht] at h2; cases h2

theorem runBody_fell_entered (b : Body) (m : M κ) (h1 : (runBody env inp b m).2.1 = none)
    (h2 : (runBody env inp b m).2.2 = .fell) : (runBody env inp b m).1.c.entered = m.c.entered := by
  cases b with
  | seq s => exact runSeq_fell_entered s m h1 h2
  | ite cnd x y =>
    simp only [runBody] at *
    split at h1
    · cases h1
    · rename_i hc
      simp only [hc] at h2 ⊢
      exact runSeq_fell_entered x m h1 h2
    · rename_i hc
      simp only [hc] at h2 ⊢
      exact runSeq_fell_entered y m h1 h2

/-- an arm that consumed a byte: from `SeqTok` to `TokStep` -/
theorem armBody_tokstep {cert : Cert} (hs : SinkSafe env.ops W inp U1) (hw : Wf env.tbl) {isEof : Bool}
    (b : Body) (m : M κ) {sd : StateDef} (hst : env.tbl.state? m.c.state = some sd)
    (hent : (sd.enter.isEmpty || m.c.entered) = true) (hm : MInvA W inp.length lo true true m)
    (hok : ∀ s ∈ b.seqs, seqOK true s = true ∧ s.targetOK env.tbl.states.length = true ∧
      ∀ x, s.trans = some (.reconsume x) → env.tbl.rank x < env.tbl.rank m.c.state)
    (htok : SeqTok env.tbl cert true isEof m.c.state (m.c.nextPos - 1) (runBody env inp b m)) :
    TokStep env.tbl cert ((runBody env inp b m).1, (runBody env inp b m).2.1) := by
  obtain ⟨p1, p2, p3⟩ := runBody_post (n0 := 0) hs hw b m hm hok (Nat.zero_le _)
  obtain ⟨q1, q2, q3, q4⟩ := htok
  unfold TokStep
  refine ⟨q2, ?_⟩
  (try dsimp only)
  cases hsig : (runBody env inp b m).2.1 with
  | some sig =>
    (try dsimp only)
    cases sig with
    | err e => exact q1 e hsig
    | directive d bm => trivial
    | endOfInput k => exact absurd (p1 _ hsig) (by simp [ActSigOK])
  | none =>
    (try dsimp only)
    cases hend : (runBody env inp b m).2.2 with
    | transitioned => exact q3 hsig hend
    | fell =>
      obtain ⟨a', ta, hc⟩ := q4 hsig hend
      simp only [if_true] at hc
      obtain ⟨hfr, _⟩ := p3 hsig hend
      have hE := runBody_fell_entered b m hsig hend
      obtain ⟨a1, _⟩ := hm
      refine ⟨a'.bump, sd, by rw [hfr.2.1]; exact hst, ?_, ?_⟩
      · rw [hfr.1]
        have : m.c.nextPos = m.c.nextPos - 1 + 1 := by omega
        rw [this]
        exact ⟨TokR.bump ta.1, ta.2⟩
      · have : enterPending sd (runBody env inp b m).1.c = false := by
          simp only [enterPending, hE]
          cases he : sd.enter.isEmpty <;> simp_all
        rw [this, hfr.2.1]
        simp only [Bool.false_eq_true, if_false]
        exact hc


/-! ### sequence arms, ordinary arms -/

theorem ATag.le_refl (a : ATag) : a.le a = true := by cases a <;> rfl
theorem AAttr.le_refl (a : AAttr) : a.le a = true := by cases a <;> rfl
theorem ANT.le_refl (a : ANT) : a.le a = true := by cases a <;> simp [ANT.le]
theorem AbsS.le_refl (a : AbsS) : a.le a = true := by
  cases a with
  | some l => cases l <;> simp [AbsS.le]
  | _ => simp [AbsS.le]

theorem Abs.le_refl (a : Abs) : a.le a = true := by
  simp only [Abs.le, AbsL.le, ATag.le_refl, AAttr.le_refl, ANT.le_refl, AbsS.le_refl, Bool.and_true, Bool.true_and]
  cases a.l.tps <;> rfl

theorem covered_of_mem {l : List Abs} {a : Abs} (h : a ∈ l) : covered l a = true := by
  unfold covered
  rw [List.any_eq_true]
  exact ⟨a, h, Abs.le_refl a⟩

theorem covered_elim {l : List Abs} {a : Abs} (h : covered l a = true) : ∃ y ∈ l, a.le y = true := by
  unfold covered at h
  rw [List.any_eq_true] at h
  exact h

theorem TokM_enterSeq {a : Abs} {hi : Nat} (m : M κ) (h : TokM a hi m) : TokM a hi (enterSeq m) := by
  cases m with
  | mk c r x =>
    cases r with
    | lexer l => exact h
    | scanner s =>
      obtain ⟨h1, h2⟩ := h
      refine ⟨?_, h2⟩
      simp only [enterSeq, TokR] at h1 ⊢
      cases ha : a.s <;> simp only [ha, TokS] at h1 ⊢ <;> exact h1

theorem TokM_leaveSeq {a : Abs} {hi : Nat} (m : M κ) (h : TokM a hi m) : TokM a hi (leaveSeq m) := by
  cases m with
  | mk c r x =>
    cases r with
    | lexer l => exact h
    | scanner s =>
      obtain ⟨h1, h2⟩ := h
      refine ⟨?_, h2⟩
      simp only [leaveSeq, TokR] at h1 ⊢
      cases ha : a.s <;> simp only [ha, TokS] at h1 ⊢ <;> exact h1

/-- the certificate's successors of an arm of the current state -/
theorem cert_body {cert : Cert} (hchk : checkCert env.tbl cert = true) {st : StateId} {sd : StateDef}
    (hst : env.tbl.state? st = some sd) {a : Abs} (ha : a ∈ cert.at st) {arm : Arm} (harm : arm ∈ sd.arms) :
    ∃ l1, bodySucc env.tbl st arm.pat.hasByte (arm.pat == .eof) arm.body a = some l1 ∧
      ∀ x ∈ l1, succCovered env.tbl cert x = true := by
  obtain ⟨succs, h1, h2⟩ := cert_arms hchk hst ha
  obtain ⟨l1, e1, e2⟩ := armsSucc_mem h1 harm
  exact ⟨l1, e1, fun x hx => h2 x (e2 x hx)⟩

def SeqArmsTok (t : Table) (cert : Cert) (a : Abs) (pos : Nat) : (M κ × Option Signal) ⊕ M κ → Prop
  | .inl r => TokStep t cert r
  | .inr m' => TokM a pos m'

theorem runSeqArms_tok {cert : Cert} (hchk : checkCert env.tbl cert = true) (hs : SinkSafe env.ops W inp U1)
    (hs2 : SinkSafe2 env.ops inp) (hw : Wf env.tbl) {sd : StateDef} {n0 : Nat} (ch : Option UInt8)
    (arms : List Arm) (m : M κ) (hst : env.tbl.state? m.c.state = some sd) (hsub : ∀ a ∈ arms, a ∈ sd.arms)
    (hent : (sd.enter.isEmpty || m.c.entered) = true) (hm : MInvC W inp.length lo n0 ch (hasSeqArm arms) m)
    {a : Abs} (ha : a ∈ cert.at m.c.state) (ht : TokM a (m.c.nextPos - 1) m) :
    SeqArmsTok env.tbl cert a (m.c.nextPos - 1) (runSeqArms env inp ch arms m) := by
  induction arms generalizing m with
  | nil => simp only [runSeqArms, SeqArmsTok]; exact ht
  | cons arm rest ih =>
    have harm : arm ∈ sd.arms := hsub arm (by simp)
    have hsub' : ∀ a ∈ rest, a ∈ sd.arms := fun a ha => hsub a (by simp [ha])
    simp only [runSeqArms]
    split
    · rename_i bytes ic hpat
      have hseqarm : hasSeqArm sd.arms = true := hasSeqArm_of_mem harm (by rw [hpat]; rfl)
      have hc : (leaveSeq (enterSeq m)).c = m.c := by rw [(leaveSeq_c _).1, (enterSeq_c _).1]
      have hcont : SeqArmsTok env.tbl cert a (m.c.nextPos - 1)
          (runSeqArms env inp ch rest (leaveSeq (enterSeq m))) := by
        have := ih (leaveSeq (enterSeq m)) (by rw [hc]; exact hst) hsub' (by rw [hc]; exact hent)
          (leave_enter_MInvC m hm) (by rw [hc]; exact ha)
          (by rw [hc]; exact TokM_leaveSeq _ (TokM_enterSeq _ ht))
        rw [hc] at this
        exact this
      split
      · exact hcont
      · rename_i e0 es
        split
        · -- need more input
          simp only [SeqArmsTok]
          have hce := (enterSeq_c m).1
          obtain ⟨a1, a2, a3, a4, a5, a6, a7⟩ := hm
          have hbp : BreakPre env.tbl W inp.length (enterSeq m) := by
            cases m with
            | mk c r x =>
            cases r with
            | lexer l => exact ⟨a1, a4, sd, hst, a7⟩
            | scanner s =>
              refine ⟨a1, a4, sd, hst, ?_⟩
              simp only [RegsC, enterSeq] at a7 ⊢
              refine ⟨a7.1, fun p hp => ⟨(a7.2.1 p hp).1, (a7.2.1 p hp).2.2⟩, Or.inl ⟨rfl, ?_⟩⟩
              simp only [seqResume, Bool.and_eq_true]
              exact ⟨hseqarm, hent⟩
          exact break_tokstep (enterSeq m) hbp (by rw [hce]; exact TokM_enterSeq _ ht) (by rw [hce]; exact hst)
            (by rw [hce]; exact hent) (fun _ => by rw [hce]; exact covered_of_mem ha)
        · exact hcont
        · -- matched
          rename_i hfirst
          simp only [SeqArmsTok]
          obtain ⟨a1, a2, a3, a4, a5, a6, a7⟩ := hm
          have hmatch : ch.isSome = true ∧ (es ≠ [] → (enterSeq m).c.nextPos + es.length - 1 < inp.length) := by
            cases ch with
            | none => dsimp only at hfirst; split at hfirst <;> cases hfirst
            | some c0 =>
              refine ⟨rfl, fun hne => ?_⟩
              dsimp only at hfirst
              split at hfirst
              · have := matchSeqFrom_matched es 1 hfirst hne
                omega
              · cases hfirst
          have hpos := a5 hmatch.1
          have hc' := (enterSeq_c m).1
          have hx := (enterSeq_c m).2
          have hbody := hw.body_ok hst harm
          rw [hpat] at hbody
          have hN : (leaveSeq { enterSeq m with c := { (enterSeq m).c with nextPos := (enterSeq m).c.nextPos + es.length } }).c.nextPos
              = m.c.nextPos + es.length := by rw [(leaveSeq_c _).1, hc']
          have hX : (leaveSeq { enterSeq m with c := { (enterSeq m).c with nextPos := (enterSeq m).c.nextPos + es.length } }).x = m.x := by
            rw [(leaveSeq_c _).2, hx]
          have hA : MInvA W inp.length lo true true
              (leaveSeq { enterSeq m with c := { (enterSeq m).c with nextPos := (enterSeq m).c.nextPos + es.length } }) := by
            have hlt : m.c.nextPos + es.length - 1 < inp.length := by
              cases es with
              | nil => simpa using hpos
              | cons e' es' => have := hmatch.2 (by simp); rw [hc'] at this; exact this
            refine ⟨by rw [hN]; omega, by rw [hN]; omega, by rw [hN]; omega, fun _ => by rw [hN]; exact hlt, ?_⟩
            rw [hN, hX]
            cases m with
            | mk c r x =>
            cases r with
            | lexer l =>
              simp only [RegsC, RegsA, enterSeq, leaveSeq] at a7 ⊢
              dsimp only at a1 a2
              refine ⟨a7.1, by omega, fun _ => by omega⟩
            | scanner s =>
              simp only [RegsC, RegsA, enterSeq, leaveSeq] at a7 ⊢
              dsimp only at a1 a2
              refine ⟨by omega, fun p hp => ?_, trivial⟩
              have := a7.2.1 p hp
              omega
          have hstate : (leaveSeq { enterSeq m with c := { (enterSeq m).c with nextPos := (enterSeq m).c.nextPos + es.length } }).c.state
              = m.c.state := by rw [(leaveSeq_c _).1, hc']
          have hentd : (leaveSeq { enterSeq m with c := { (enterSeq m).c with nextPos := (enterSeq m).c.nextPos + es.length } }).c.entered
              = m.c.entered := by rw [(leaveSeq_c _).1, hc']
          have htm : TokM a (m.c.nextPos + es.length - 1)
              (leaveSeq { enterSeq m with c := { (enterSeq m).c with nextPos := (enterSeq m).c.nextPos + es.length } }) := by
            apply TokM_leaveSeq
            have h0 := TokM_enterSeq m ht
            exact TokM_regs ⟨TokR.mono h0.1 (by omega), h0.2⟩ rfl rfl
          obtain ⟨l1, hl1, hcov⟩ := cert_body hchk hst ha harm
          rw [hpat] at hl1
          have hseq := runBody_tok (cert := cert) (isEof := false) hs hs2 arm.body _ hA (by rw [hN]) htm
            (by rw [hstate]; exact hl1) hcov
          have := armBody_tokstep (cert := cert) (isEof := false) hs hw arm.body _ (by rw [hstate]; exact hst)
            (by rw [hentd]; exact hent) hA (by rw [hstate]; exact hbody) (by rw [hN]; exact hseq)
          exact this
    · rename_i hnot
      apply ih m hst hsub' hent _ ha ht
      have : hasSeqArm (arm :: rest) = hasSeqArm rest := by
        simp only [hasSeqArm, List.any_cons]
        have : arm.pat.isChSeq = false := by
          cases hp : arm.pat <;> first | rfl | exact absurd hp (hnot _ _)
        rw [this, Bool.false_or]
      rw [this] at hm
      exact hm

/-- an arm that consumed no byte: signal, `reconsume`, or break -/
theorem armBody_break_tok {cert : Cert} (hs : SinkSafe env.ops W inp U1) (hw : Wf env.tbl) {isEof : Bool}
    (b : Body) (m : M κ) {sd : StateDef} (hst : env.tbl.state? m.c.state = some sd)
    (hent : (sd.enter.isEmpty || m.c.entered) = true) (hm : MInvA W inp.length lo false true m)
    (hlen : m.c.nextPos - 1 = inp.length)
    (hok : ∀ s ∈ b.seqs, seqOK false s = true ∧ s.targetOK env.tbl.states.length = true ∧
      ∀ x, s.trans = some (.reconsume x) → env.tbl.rank x < env.tbl.rank m.c.state)
    (heof : isEof = false ∨ m.c.isLast = true)
    (htok : SeqTok env.tbl cert false isEof m.c.state (m.c.nextPos - 1) (runBody env inp b m)) :
    TokStep env.tbl cert
      (match (runBody env inp b m).2.1, (runBody env inp b m).2.2 with
       | some sig, _ => ((runBody env inp b m).1, some sig)
       | none, .transitioned => ((runBody env inp b m).1, none)
       | none, .fell => breakOnEndOfInput inp (runBody env inp b m).1) := by
  obtain ⟨p1, p2, p3⟩ := runBody_post (n0 := 0) hs hw b m hm hok (Nat.zero_le _)
  obtain ⟨q1, q2, q3, q4⟩ := htok
  cases hsig : (runBody env inp b m).2.1 with
  | some sig =>
    (try dsimp only)
    unfold TokStep
    refine ⟨q2, ?_⟩
    (try dsimp only)
    cases sig with
    | err e => exact q1 e hsig
    | directive d bm => trivial
    | endOfInput k => exact absurd (p1 _ hsig) (by simp [ActSigOK])
  | none =>
    cases hend : (runBody env inp b m).2.2 with
    | transitioned =>
      (try dsimp only)
      unfold TokStep
      exact ⟨q2, q3 hsig hend⟩
    | fell =>
      (try dsimp only)
      obtain ⟨hfr, f', hA, hf'⟩ := p3 hsig hend
      have hf'' : f' = true := by
        rcases hf' with h | h
        · cases h
        · exact h
      subst hf''
      obtain ⟨a', ta, hc⟩ := q4 hsig hend
      simp only [Bool.false_eq_true, if_false] at hc
      have hE := runBody_fell_entered b m hsig hend
      obtain ⟨a1, a2, a3, a4, a5⟩ := hA
      have hbp : BreakPre env.tbl W inp.length (runBody env inp b m).1 := by
        refine ⟨a1, a3, sd, by rw [hfr.2.1]; exact hst, ?_⟩
        have hN := hfr.1
        cases hr : (runBody env inp b m).1.r with
        | lexer l =>
          rw [hr] at a5
          simp only [RegsA] at a5
          exact ⟨a5.1, a5.2.2 trivial⟩
        | scanner s =>
          rw [hr] at a5
          simp only [RegsA] at a5
          exact ⟨a5.1, fun p hp => ⟨(a5.2.1 p hp).1, (a5.2.1 p hp).2.2⟩, Or.inr ⟨a5.2.2, by rw [hN]; exact hlen⟩⟩
      apply break_tokstep _ hbp (a := a') (by rw [hfr.1]; exact ta) (by rw [hfr.2.1]; exact hst)
        (by rw [hE]; exact hent)
      intro hl
      rw [hfr.2.1]
      rcases heof with h | h
      · exact hc h
      · have hk := (runBody_keep (env := env) (inp := inp) b m).trans (breakOnEndOfInput_keep (inp := inp) _)
        rw [hk.1, h] at hl
        cases hl

theorem dispatch_tok {cert : Cert} (hchk : checkCert env.tbl cert = true) (hs : SinkSafe env.ops W inp U1)
    (hs2 : SinkSafe2 env.ops inp) (hw : Wf env.tbl) {sd : StateDef} {n0 : Nat} (ch : Option UInt8) (m : M κ)
    (hst : env.tbl.state? m.c.state = some sd) (hent : (sd.enter.isEmpty || m.c.entered) = true)
    (hm : MInvC W inp.length lo n0 ch (hasSeqArm sd.arms) m) {a0 : Abs}
    (hcov0 : covered (cert.at m.c.state) a0 = true) (ht0 : TokM a0 (m.c.nextPos - 1) m) :
    TokStep env.tbl cert (dispatch env inp ch sd.arms m) := by
  obtain ⟨a, ha, hle⟩ := covered_elim hcov0
  have ht : TokM a (m.c.nextPos - 1) m := ⟨TokR.le ht0.1 hle, ht0.2⟩
  have h1 := runSeqArms_post hs hw ch sd.arms m hst (fun _ h => h) hent hm
  have t1 := runSeqArms_tok hchk hs hs2 hw ch sd.arms m hst (fun _ h => h) hent hm ha ht
  unfold dispatch
  split
  · rename_i r hr
    rw [hr] at t1
    exact t1
  · rename_i m' hr
    rw [hr] at h1 t1
    obtain ⟨hC, hc⟩ := h1
    simp only [SeqArmsTok] at t1
    have hst' : env.tbl.state? m'.c.state = some sd := by rw [hc]; exact hst
    have hent' : (sd.enter.isEmpty || m'.c.entered) = true := by rw [hc]; exact hent
    have ha' : a ∈ cert.at m'.c.state := by rw [hc]; exact ha
    have ht' : TokM a (m'.c.nextPos - 1) m' := by rw [hc]; exact t1
    split
    · rename_i hnone
      exact absurd hnone (findArm_exhaustive (hw.state_exhaustive hst))
    · rename_i arm hfind
      obtain ⟨harm, hpm⟩ := findArm_some hfind
      have hbody := hw.body_ok hst' harm
      obtain ⟨l1, hl1, hcov⟩ := cert_body hchk hst' ha' harm
      split
      · -- eoc
        rename_i hpat
        rw [hpat] at hpm hbody hl1
        have hch := patMatches_none hpm rfl
        subst hch
        have hA := MInvA_of_C (hb := false) m' hC (fun h => by cases h)
        have hseq := runBody_tok (cert := cert) hs hs2 arm.body m' hA rfl ht' hl1 hcov
        exact armBody_break_tok hs hw arm.body m' hst' hent' hA (hC.2.2.2.2.2.1 rfl) hbody (Or.inl rfl) hseq
      · -- eof
        rename_i hpat
        rw [hpat] at hpm hbody hl1
        have hch := patMatches_none hpm rfl
        subst hch
        have hA := MInvA_of_C (hb := false) m' hC (fun h => by cases h)
        split
        · rename_i hlast
          have hseq := runBody_tok (cert := cert) hs hs2 arm.body m' hA rfl ht' hl1 hcov
          exact armBody_break_tok hs hw arm.body m' hst' hent' hA (hC.2.2.2.2.2.1 rfl) hbody (Or.inr hlast) hseq
        · exact break_tokstep m' (BreakPre_of_C m' hst' hC) ht' hst' hent' (fun _ => covered_of_mem ha')
      · rename_i hne1 hne2
        have hhb : arm.pat.hasByte = true := by
          cases hp : arm.pat <;> first | rfl | exact absurd hp hne1 | exact absurd hp hne2
        rw [hhb] at hbody hl1
        have hsome := patMatches_some hpm hhb
        have hA := MInvA_of_C (hb := true) m' hC (fun _ => hsome)
        have hseq := runBody_tok (cert := cert) hs hs2 arm.body m' hA rfl ht' hl1 hcov
        exact armBody_tokstep hs hw arm.body m' hst' hent' hA hbody hseq

end
end LolHtml.Model
