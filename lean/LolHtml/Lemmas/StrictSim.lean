import LolHtml.Model.SM
import LolHtml.Lemmas.Sim
import LolHtml.Lemmas.PreserveOk
import LolHtml.Lemmas.Congr
/-!
Strict vs non-strict at the interpreter level: a two-machine congruence in the style of
`Lemmas/Preserve.lean`. `eraseM m` is the machine `m` with the guard state and the `strict` flag of
its simulator forgotten (= the machine of the non-strict run). Every layer of the interpreter
commutes with `eraseM` — same signal, erased result — unless the strict machine's step ends in an
ambiguity error (`Amb`), which is what the guard produces when it refuses a tag.
-/
namespace LolHtml.Model
open LolHtml.Lemmas.Sim (erase eraseR)

variable {κ : Type}

def eraseX (x : Ctx κ) : Ctx κ := { x with sim := erase x.sim }
def eraseM (m : M κ) : M κ := { m with x := eraseX m.x }

/-- the step ended in a `ParsingAmbiguityError` -/
def Amb (s : Option Signal) : Prop := ∃ h, s = some (.err (.ambiguity h))

/-- `r'` (non-strict machine) mirrors `r` (strict machine), unless `r` is an ambiguity error -/
def Mirror (r r' : M κ × Option Signal) : Prop := Amb r.2 ∨ r' = (eraseM r.1, r.2)

theorem Mirror.of_eq {r r' : M κ × Option Signal} (h : r' = (eraseM r.1, r.2)) : Mirror r r' := .inr h

/-! ### simulator -/

theorem erase_guard (s : Sim) (g : GuardState) : erase { s with guard := g } = erase s := rfl

/-- the guard of the strict simulator `sim` refuses the start tag `h` -/
def Refusal (cfg : TagCfg) (sim : Sim) (h : Nat) : Prop :=
  sim.strict = true ∧ Guard.trackStartTag cfg sim.guard h = .error (.ambiguity h)

theorem start_erase (cfg : TagCfg) (s : Sim) (t : Nat) :
    (s.feedbackForStartTag cfg t = .error (.ambiguity t) ∧ Refusal cfg s t) ∨
    (erase s).feedbackForStartTag cfg t = (s.feedbackForStartTag cfg t).map eraseR := by
  rw [Lemmas.Sim.start_eq cfg (erase s)]
  have hg : Lemmas.Sim.guardStart cfg (erase s) t = .ok (erase s) := by simp [Lemmas.Sim.guardStart, erase]
  rw [hg]
  dsimp only
  rw [Lemmas.Sim.start_eq cfg s]
  rcases Lemmas.Sim.guardStart_cases cfg s t with ⟨g, hg'⟩ | ⟨hst, hg'⟩
  · right
    rw [hg']
    dsimp only
    rw [← erase_guard s g, Lemmas.Sim.startCore_erase]
  · left
    refine ⟨by rw [hg'], hst, ?_⟩
    unfold Lemmas.Sim.guardStart at hg'
    simp only [hst, if_true] at hg'
    cases hgt : Guard.trackStartTag cfg s.guard t with
    | ok g => rw [hgt] at hg'; cases hg'
    | error e => rw [hgt] at hg'; injection hg' with hg'; rw [hg']

theorem end_erase (cfg : TagCfg) (s : Sim) (t : Nat) :
    (erase s).feedbackForEndTag cfg t = (s.feedbackForEndTag cfg t).map eraseR := by
  rw [Lemmas.Sim.end_eq cfg (erase s), Lemmas.Sim.end_eq cfg s]
  have hg : Lemmas.Sim.guardEnd cfg (erase s) t = erase s := by simp [Lemmas.Sim.guardEnd, erase]
  obtain ⟨g, hg'⟩ := Lemmas.Sim.guardEnd_eq cfg s t
  rw [hg, hg', ← erase_guard s g, Lemmas.Sim.endCore_erase]
  cases Lemmas.Sim.endCore cfg { s with guard := g } t <;> rfl


/-! ### lexer pieces -/

/-- a result of the strict machine produced by a guard refusal -/
def StopS (cfg : TagCfg) (r : M κ × Option Signal) : Prop :=
  ∃ h, r.2 = some (.err (.ambiguity h)) ∧ Refusal cfg r.1.x.sim h

/-- the non-strict machine mirrors the strict one -/
def Mirr (f : M κ → M κ × Option Signal) (m : M κ) : Prop :=
  f (eraseM m) = (eraseM (f m).1, (f m).2)

theorem getFeedback_erase (cfg : TagCfg) (sim : Sim) (fd : FeedbackDirective) (token : TagOutline) :
    (∃ h, lexGetFeedback cfg sim fd token = .error (.ambiguity h) ∧ Refusal cfg sim h) ∨
    lexGetFeedback cfg (erase sim) fd token =
      (lexGetFeedback cfg sim fd token).map (fun r => (erase r.1, r.2)) := by
  cases fd with
  | applyUnhandled f => right; rfl
  | skip => right; rfl
  | none =>
    cases token with
    | startTag n h ns as sc =>
      simp only [lexGetFeedback]
      rcases start_erase cfg sim h with ⟨he, hr⟩ | he
      · left; exact ⟨h, by rw [he]; rfl, hr⟩
      · right
        rw [he]
        cases sim.feedbackForStartTag cfg h <;> rfl
    | endTag n h =>
      right
      simp only [lexGetFeedback]
      rw [end_erase]
      cases sim.feedbackForEndTag cfg h <;> rfl

theorem handleFeedback_erase (inp : Bytes) (c : Common) (sim : Sim) (f : Feedback) (o : TagOutline) :
    lexHandleFeedback inp c (erase sim) f o =
      (lexHandleFeedback inp c sim f o).map (fun r => (r.1, erase r.2)) := by
  cases f with
  | switchTextType t => rfl
  | setAllowCdata b => rfl
  | none => rfl
  | requestLexeme k =>
    simp only [lexHandleFeedback]
    cases tagViewFor k inp o with
    | none => rfl
    | some v =>
      simp only
      rw [Lemmas.Sim.callback_erase]
      cases sim.runCallback k v with
      | none => rfl
      | some r =>
        obtain ⟨s', f'⟩ := r
        cases f' <;> rfl

theorem stamp_erase (c : Common) (sim : Sim) (token : TagOutline) :
    lexStampTag c (erase sim) token = lexStampTag c sim token := by
  cases token <;> rfl

theorem emitTagLexeme_erase (env : Env κ) (inp : Bytes) (c : Common) (l : LexRegs) (x : Ctx κ) (sim : Sim)
    (token : TagOutline) (e : Nat) :
    lexEmitTagLexeme env inp c l (eraseX x) (erase sim) token e =
      (eraseM (lexEmitTagLexeme env inp c l x sim token e).1, (lexEmitTagLexeme env inp c l x sim token e).2) := by
  unfold lexEmitTagLexeme
  dsimp only [eraseX]
  cases (env.ops.handleTag inp ⟨x.prevConsumed, ⟨l.lexemeStart, e⟩, token⟩ x.sink).2 with
  | error e => rfl
  | ok d => cases d <;> rfl

theorem emitNonTag_erase (env : Env κ) (inp : Bytes) (c : Common) (l : LexRegs) (x : Ctx κ)
    (o : Option NonTagOutline) (e : Nat) :
    lexEmitNonTag env inp c l (eraseX x) o e =
      (eraseM (lexEmitNonTag env inp c l x o e).1, (lexEmitNonTag env inp c l x o e).2) := by
  unfold lexEmitNonTag
  dsimp only [eraseX]
  cases (env.ops.handleNonTag inp ⟨x.prevConsumed, ⟨l.lexemeStart, e⟩, o⟩ x.sink).2 with
  | error e => rfl
  | ok d => rfl

theorem emitText_erase (env : Env κ) (inp : Bytes) (c : Common) (l : LexRegs) (x : Ctx κ) :
    lexEmitText env inp c l (eraseX x) =
      (eraseM (lexEmitText env inp c l x).1, (lexEmitText env inp c l x).2) := by
  unfold lexEmitText
  split
  · exact emitNonTag_erase env inp c l x _ _
  · rfl

theorem emitEof_erase (env : Env κ) (inp : Bytes) (m : M κ) :
    lexEmitEof env inp (eraseM m) = (eraseM (lexEmitEof env inp m).1, (lexEmitEof env inp m).2) := by
  obtain ⟨c, r, x⟩ := m
  cases r with
  | lexer l => exact emitNonTag_erase env inp c l x _ _
  | scanner s => rfl

theorem andThen_erase (r : M κ × Option Signal) (g : M κ → M κ × Option Signal)
    (hg : ∀ m, g (eraseM m) = (eraseM (g m).1, (g m).2)) :
    andThen (eraseM r.1, r.2) g = (eraseM (andThen r g).1, (andThen r g).2) := by
  obtain ⟨m, s⟩ := r
  unfold andThen
  cases s with
  | some sig => rfl
  | none => exact hg m


theorem emitTag_erase (env : Env κ) (inp : Bytes) (c : Common) (l : LexRegs) (x : Ctx κ) :
    StopS env.cfg (lexEmitTag env inp c l x) ∨
    lexEmitTag env inp c l (eraseX x) =
      (eraseM (lexEmitTag env inp c l x).1, (lexEmitTag env inp c l x).2) := by
  unfold lexEmitTag
  cases hct : l.curTag with
  | none => right; rfl
  | some token =>
    dsimp only
    have hsim : (eraseX x).sim = erase x.sim := rfl
    rw [hsim]
    rcases getFeedback_erase env.cfg x.sim l.fd token with ⟨h, he, hr⟩ | he
    · left
      rw [he]
      exact ⟨h, rfl, hr⟩
    · rw [he]
      cases hgf : lexGetFeedback env.cfg x.sim l.fd token with
      | error e => right; rfl
      | ok sf =>
        right
        simp only [Except.map]
        cases hf : sf.2 with
        | none =>
          simp only
          rw [stamp_erase]
          exact emitTagLexeme_erase env inp _ _ x sf.1 _ _
        | some f =>
          simp only
          rw [handleFeedback_erase]
          cases lexHandleFeedback inp { c with lastTextType := .data } sf.1 f token with
          | error e => rfl
          | ok cs =>
            simp only [Except.map]
            rw [stamp_erase]
            exact emitTagLexeme_erase env inp _ _ x cs.2 _ _

theorem lexAct_erase (env : Env κ) (a : ActName) (inp : Bytes) (c : Common) (l : LexRegs) (x : Ctx κ) :
    StopS env.cfg (lexAct env a inp c l x) ∨
    lexAct env a inp c l (eraseX x) = (eraseM (lexAct env a inp c l x).1, (lexAct env a inp c l x).2) := by
  cases a <;> simp only [lexAct]
  case emitTag => exact emitTag_erase env inp c l x
  all_goals right
  case emitText => exact emitText_erase env inp c l x
  case emitTextAndEof =>
    rw [emitText_erase]; exact andThen_erase _ _ (emitEof_erase env inp)
  case emitCurrentToken => exact emitNonTag_erase env inp c _ x _ _
  case emitCurrentTokenAndEof =>
    rw [emitNonTag_erase]; exact andThen_erase _ _ (emitEof_erase env inp)
  case emitRawWithoutToken => exact emitNonTag_erase env inp c _ x _ _
  case emitRawWithoutTokenAndEof =>
    rw [emitNonTag_erase]; exact andThen_erase _ _ (emitEof_erase env inp)
  all_goals first | rfl | ((repeat' split) <;> rfl)

/-! ### scanner pieces -/

theorem emitHint_erase (env : Env κ) (inp : Bytes) (c : Common) (s : ScanRegs) (x : Ctx κ) (ts : Nat)
    (ie : Bool) :
    scanEmitHint env inp c s (eraseX x) ts ie =
      (eraseM (scanEmitHint env inp c s x ts ie).1, (scanEmitHint env inp c s x ts ie).2) := by
  unfold scanEmitHint
  cases LocalName.new inp ⟨s.tagNameStart, c.pos⟩ s.tagNameHash with
  | none => rfl
  | some name =>
    dsimp only [eraseX]
    have hns : (erase x.sim).currentNs = x.sim.currentNs := rfl
    rw [hns]
    cases (if ie = true then env.ops.endTagHint name x.sink
        else env.ops.startTagHint name x.sim.currentNs x.sink).2 with
    | error e => rfl
    | ok d => cases d <;> rfl

theorem finishTagName_erase (env : Env κ) (inp : Bytes) (c : Common) (s : ScanRegs) (x : Ctx κ) :
    StopS env.cfg (scanFinishTagName env inp c s x) ∨
    scanFinishTagName env inp c s (eraseX x) =
      (eraseM (scanFinishTagName env inp c s x).1, (scanFinishTagName env inp c s x).2) := by
  unfold scanFinishTagName
  cases s.tagStart with
  | none => right; rfl
  | some tagStart =>
    dsimp only
    have hsim : (eraseX x).sim = erase x.sim := rfl
    rw [hsim]
    by_cases hie : s.isInEndTag = true
    · right
      simp only [hie, if_true]
      rw [end_erase]
      cases x.sim.feedbackForEndTag env.cfg s.tagNameHash with
      | error e => rfl
      | ok sf =>
        obtain ⟨s', fb⟩ := sf
        simp only [Except.map, eraseR]
        cases fb <;> simp only [scanApplyFeedback]
        all_goals first | rfl | exact emitHint_erase env inp _ _ { x with sim := s' } _ _
    · simp only [hie, Bool.false_eq_true, if_false]
      rcases start_erase env.cfg x.sim s.tagNameHash with ⟨he, hr⟩ | he
      · left
        rw [he]
        exact ⟨_, rfl, hr⟩
      · right
        rw [he]
        cases x.sim.feedbackForStartTag env.cfg s.tagNameHash with
        | error e => rfl
        | ok sf =>
          obtain ⟨s', fb⟩ := sf
          simp only [Except.map, eraseR]
          cases fb <;> simp only [scanApplyFeedback]
          all_goals first | rfl | exact emitHint_erase env inp _ _ { x with sim := s' } _ _

theorem scanAct_erase (env : Env κ) (a : ActName) (inp : Bytes) (c : Common) (s : ScanRegs) (x : Ctx κ) :
    StopS env.cfg (scanAct env a inp c s x) ∨
    scanAct env a inp c s (eraseX x) = (eraseM (scanAct env a inp c s x).1, (scanAct env a inp c s x).2) := by
  cases a <;> simp only [scanAct]
  case finishTagName => exact finishTagName_erase env inp c s x
  all_goals right
  all_goals first | rfl | ((repeat' split) <;> rfl)

theorem act_erase (env : Env κ) (a : ActName) (inp : Bytes) (m : M κ) :
    StopS env.cfg (act env a inp m) ∨
    act env a inp (eraseM m) = (eraseM (act env a inp m).1, (act env a inp m).2) := by
  obtain ⟨c, r, x⟩ := m
  cases r with
  | lexer l => exact lexAct_erase env a inp c l x
  | scanner s => exact scanAct_erase env a inp c s x

end LolHtml.Model
