import LolHtml.Model.SM
import LolHtml.Lemmas.Sim
import LolHtml.Lemmas.PreserveOk
/-!
Strict vs non-strict at the interpreter level: a two-machine congruence in the style of
`Lemmas/Preserve.lean`. `eraseM m` is the machine `m` with the guard state and the `strict` flag of
its simulator forgotten (= the machine of the non-strict run). Every layer of the interpreter
commutes with `eraseM` — same signal, erased result — unless the strict machine's step ends in an
ambiguity error (`Amb`), which is what the guard produces when it refuses a tag.
-/
namespace LolHtml.Model
open LolHtml.Lemmas.Sim (erase eraseR)

variable {κ : Type}

def eraseX (x : Ctx κ) : Ctx κ := { x with sim := erase x.sim }
def eraseM (m : M κ) : M κ := { m with x := eraseX m.x }

/-- the step ended in a `ParsingAmbiguityError` -/
def Amb (s : Option Signal) : Prop := ∃ h, s = some (.err (.ambiguity h))

/-- `r'` (non-strict machine) mirrors `r` (strict machine), unless `r` is an ambiguity error -/
def Mirror (r r' : M κ × Option Signal) : Prop := Amb r.2 ∨ r' = (eraseM r.1, r.2)

theorem Mirror.of_eq {r r' : M κ × Option Signal} (h : r' = (eraseM r.1, r.2)) : Mirror r r' := .inr h

/-! ### simulator -/

theorem erase_guard (s : Sim) (g : GuardState) : erase { s with guard := g } = erase s := rfl

theorem start_erase (cfg : TagCfg) (s : Sim) (t : Nat) :
    s.feedbackForStartTag cfg t = .error (.ambiguity t) ∨
    (erase s).feedbackForStartTag cfg t = (s.feedbackForStartTag cfg t).map eraseR := by
  rw [Lemmas.Sim.start_eq cfg (erase s)]
  have hg : Lemmas.Sim.guardStart cfg (erase s) t = .ok (erase s) := by simp [Lemmas.Sim.guardStart, erase]
  rw [hg]
  dsimp only
  rw [Lemmas.Sim.start_eq cfg s]
  rcases Lemmas.Sim.guardStart_cases cfg s t with ⟨g, hg'⟩ | ⟨-, hg'⟩
  · right
    rw [hg']
    dsimp only
    rw [← erase_guard s g, Lemmas.Sim.startCore_erase]
  · left; rw [hg']

theorem end_erase (cfg : TagCfg) (s : Sim) (t : Nat) :
    (erase s).feedbackForEndTag cfg t = (s.feedbackForEndTag cfg t).map eraseR := by
  rw [Lemmas.Sim.end_eq cfg (erase s), Lemmas.Sim.end_eq cfg s]
  have hg : Lemmas.Sim.guardEnd cfg (erase s) t = erase s := by simp [Lemmas.Sim.guardEnd, erase]
  obtain ⟨g, hg'⟩ := Lemmas.Sim.guardEnd_eq cfg s t
  rw [hg, hg', ← erase_guard s g, Lemmas.Sim.endCore_erase]
  cases Lemmas.Sim.endCore cfg { s with guard := g } t <;> rfl

end LolHtml.Model
