/-
Refinement of the document-level specification `Spec.EditDoc` by the dispatcher model
`EditModel.EditDoc` (for `C07_output_eq_edit_spec_partial`).
-/
import LolHtml.Lemmas.Edit
import LolHtml.Lemmas.EditElementOps
import LolHtml.Lemmas.EditDoc
import LolHtml.Spec.EditDoc

namespace LolHtml.Lemmas.EditRefine
open LolHtml LolHtml.EditModel LolHtml.Spec.Edit LolHtml.Spec.EditDoc LolHtml.Lemmas.Edit
  LolHtml.Lemmas.EditElementOps LolHtml.Lemmas.EditDoc

/-! ### A. Running the active handlers = applying the collected calls -/

theorem forEachActiveAux_collect {τ α : Type} (pick : Script → Option (Nat → τ → τ))
    (sc : Script → Option (Nat → List α)) (app : τ → List α → τ)
    (happ : ∀ t a b, app t (a ++ b) = app (app t a) b) (hnil : ∀ t, app t [] = t)
    (hpick : ∀ s, pick s = (sc s).map (fun f n t => app t (f n)))
    (act : Nat → Bool) (hs : List Handler) (i : Nat) (inv : Nat → Nat) (t : τ) :
    forEachActiveAux pick act hs i inv t
      = ((collectAux sc act hs i inv).1, app t (collectAux sc act hs i inv).2) := by
  induction hs generalizing i inv t with
  | nil => simp [forEachActiveAux, collectAux, hnil]
  | cons h hs ih =>
    simp only [forEachActiveAux, collectAux, hpick]
    cases hsc : sc h.script with
    | none => simp only [Option.map_none]; exact ih _ _ _
    | some f =>
      simp only [Option.map_some]
      by_cases ha : act i = true
      · simp only [ha, if_true]
        rw [ih, happ]
      · simp only [ha, Bool.false_eq_true, if_false]
        exact ih _ _ _

theorem applyOps_append_comment (t : Comment) (a b : List CommentOp) :
    t.applyOps (a ++ b) = (t.applyOps a).applyOps b := by simp [Comment.applyOps, List.foldl_append]
theorem applyOps_append_text (t : TextChunk) (a b : List TextOp) :
    t.applyOps (a ++ b) = (t.applyOps a).applyOps b := by simp [TextChunk.applyOps, List.foldl_append]
theorem applyOps_append_doctype (t : Doctype) (a b : List DoctypeOp) :
    t.applyOps (a ++ b) = (t.applyOps a).applyOps b := by simp [Doctype.applyOps, List.foldl_append]
theorem applyOps_append_element (t : Element) (a b : List ElementOp) :
    t.applyOps (a ++ b) = (t.applyOps a).applyOps b := by simp [Element.applyOps, List.foldl_append]

theorem forEachActive_comment (H : List Handler) (act : Nat → Bool) (s : St) (c : Comment) :
    forEachActive H pickComment act s c
      = ({ s with inv := (collectAux scriptComment act H 0 s.inv).1 },
         c.applyOps (collectAux scriptComment act H 0 s.inv).2) := by
  unfold forEachActive
  rw [forEachActiveAux_collect pickComment scriptComment Comment.applyOps applyOps_append_comment
    (fun _ => rfl) (by intro s; cases s <;> rfl)]

theorem forEachActive_text (H : List Handler) (act : Nat → Bool) (s : St) (c : TextChunk) :
    forEachActive H pickText act s c
      = ({ s with inv := (collectAux scriptText act H 0 s.inv).1 },
         c.applyOps (collectAux scriptText act H 0 s.inv).2) := by
  unfold forEachActive
  rw [forEachActiveAux_collect pickText scriptText TextChunk.applyOps applyOps_append_text
    (fun _ => rfl) (by intro s; cases s <;> rfl)]

theorem forEachActive_doctype (H : List Handler) (act : Nat → Bool) (s : St) (c : Doctype) :
    forEachActive H pickDoctype act s c
      = ({ s with inv := (collectAux scriptDoctype act H 0 s.inv).1 },
         c.applyOps (collectAux scriptDoctype act H 0 s.inv).2) := by
  unfold forEachActive
  rw [forEachActiveAux_collect pickDoctype scriptDoctype Doctype.applyOps applyOps_append_doctype
    (fun _ => rfl) (by intro s; cases s <;> rfl)]

theorem forEachActive_element (H : List Handler) (act : Nat → Bool) (s : St) (c : Element) :
    forEachActive H pickElement act s c
      = ({ s with inv := (collectAux scriptElement act H 0 s.inv).1 },
         c.applyOps (collectAux scriptElement act H 0 s.inv).2) := by
  unfold forEachActive
  rw [forEachActiveAux_collect pickElement scriptElement Element.applyOps applyOps_append_element
    (fun _ => rfl) (by intro s; cases s <;> rfl)]

/-! ### B. User counts = number of open elements that matched -/

/-- `user_count` a handler starts with (document handlers are always active). -/
def base (H : List Handler) (i : Nat) : Nat := (St.init H).counts i

/-- Number of open elements that keep content handler `i` active. -/
def occ (H : List Handler) (i : Nat) (stack : List StackItem) : Nat :=
  (stack.filter fun it => isContentHandler H i && it.data.matched.contains i).length

theorem matchedIdsAux_ge (lname : Bytes) (hs : List Handler) (i : Nat) :
    ∀ j ∈ matchedIdsAux lname hs i, i ≤ j := by
  induction hs generalizing i with
  | nil => intro j hj; simp [matchedIdsAux] at hj
  | cons h hs ih =>
    intro j hj
    simp only [matchedIdsAux] at hj
    split at hj
    · split at hj
      · rcases List.mem_cons.mp hj with rfl | hj
        · exact Nat.le_refl _
        · exact Nat.le_of_succ_le (ih _ j hj)
      · exact Nat.le_of_succ_le (ih _ j hj)
    · exact Nat.le_of_succ_le (ih _ j hj)

theorem matchedIdsAux_nodup (lname : Bytes) (hs : List Handler) (i : Nat) :
    (matchedIdsAux lname hs i).Nodup := by
  induction hs generalizing i with
  | nil => simp [matchedIdsAux]
  | cons h hs ih =>
    simp only [matchedIdsAux]
    split
    · split
      · refine List.nodup_cons.mpr ⟨?_, ih _⟩
        intro hmem
        have := matchedIdsAux_ge lname hs (i + 1) i hmem
        omega
      · exact ih _
    · exact ih _

theorem matchedIds_nodup (H : List Handler) (lname : Bytes) : (matchedIds H lname).Nodup :=
  matchedIdsAux_nodup lname H 0

/-- `start_matching` adds exactly one user to every matched content handler. -/
theorem startMatching_spec (H : List Handler) (ids : List Nat) (hn : ids.Nodup) (wc : Bool)
    (counts : Nat → Nat) (i : Nat) :
    startMatching H ids wc counts i
      = counts i + (if wc && isContentHandler H i && ids.contains i then 1 else 0) := by
  unfold startMatching
  cases wc with
  | false => simp
  | true =>
    simp only [if_true, Bool.true_and]
    induction ids generalizing counts with
    | nil => simp
    | cons j js ih =>
      rw [List.foldl_cons, ih (List.nodup_cons.mp hn).2]
      have hj : ¬ j ∈ js := (List.nodup_cons.mp hn).1
      by_cases hij : i = j
      · subst hij
        have : js.contains i = false := by simpa using hj
        cases hc : isContentHandler H i <;> simp [hc, upd, this, hj]
      · have hji : ¬ j = i := fun e => hij e.symm
        cases hc : isContentHandler H j <;> simp [hc, upd, hij, hji, List.contains_cons] <;>
          (cases hc' : isContentHandler H i <;> simp [hc', hij, beq_iff_eq])


/-- `stop_matching`'s decrements: exactly one user less for every matched content handler, and no
underflow if every such handler has a user. -/
theorem decCounts_spec (H : List Handler) (s : St) (ids : List Nat) (hn : ids.Nodup)
    (hpos : ∀ i ∈ ids, isContentHandler H i = true → 1 ≤ s.counts i) :
    decCounts H s ids
      = { s with counts := fun i =>
            s.counts i - (if isContentHandler H i && ids.contains i then 1 else 0) } := by
  unfold decCounts
  induction ids generalizing s with
  | nil => simp
  | cons j js ih =>
    have hj : ¬ j ∈ js := (List.nodup_cons.mp hn).1
    rw [List.foldl_cons]
    by_cases hc : isContentHandler H j = true
    · have h1 : 1 ≤ s.counts j := hpos j List.mem_cons_self hc
      have hne : ¬ s.counts j = 0 := by omega
      simp only [hc, if_true, hne, if_false]
      rw [ih _ (List.nodup_cons.mp hn).2]
      · obtain ⟨st, cn, iv, eh, rc, em, tp, f1, f2⟩ := s
        simp only [St.mk.injEq, true_and, and_true]
        funext i
        by_cases hij : i = j
        · subst hij
          have : js.contains i = false := by simpa using hj
          simp [upd, hc, this, hj]
        · have hji : ¬ j = i := fun e => hij e.symm
          simp [upd, hij, List.contains_cons, beq_iff_eq, hji]
      · intro i hi hci
        have hij : i ≠ j := fun e => hj (e ▸ hi)
        simp only [upd, hij, if_false]
        exact hpos i (List.mem_cons_of_mem _ hi) hci
    · simp only [hc, Bool.false_eq_true, if_false]
      rw [ih _ (List.nodup_cons.mp hn).2 (fun i hi hci => hpos i (List.mem_cons_of_mem _ hi) hci)]
      obtain ⟨st, cn, iv, eh, rc, em, tp, f1, f2⟩ := s
      simp only [St.mk.injEq, true_and, and_true]
      funext i
      by_cases hij : i = j
      · subst hij
        simp [hc]
      · have hji : ¬ j = i := fun e => hij e.symm
        simp [hij]


/-! ### C. The simulation relation -/

/-- The (optional) deferred end-tag handler of an element does what the element's region edits say. -/
def Implements (enc : Enc) (oh : Option EndTagHandler) (E : ElemEdit) : Prop :=
  ∀ name raw : Bytes,
    (match oh with
     | some h => h.run { name := name, raw := raw }
     | none => ({ name := name, raw := raw } : EndTag)).intoBytes enc
      = edit enc (endTagOwn raw E.endTagScript) (endMutOps E.endTagScript)

/-- A deferred handler without any visible effect: no rename, no call by a user handler, and the
mutations it installs (if any) encode to nothing and remove nothing. -/
def Invisible (enc : Enc) (h : EndTagHandler) : Prop :=
  h.modifiedName = none ∧ (∀ l ∈ h.user, l = []) ∧
    (∀ m, h.mutations = some m →
      encodeDyn enc m.mutate.contentBefore = [] ∧ encodeDyn enc m.mutate.contentAfter = []
        ∧ m.mutate.removed = false ∧ m.mutate.replacement = [])

def EditRel (enc : Enc) (d : ElementDescriptor) (oh : Option EndTagHandler) : Option ElemEdit → Prop
  | none => d.removeContent = false ∧ oh = none
  | some E => d.removeContent = E.innerRemoved ∧ Implements enc oh E
      ∧ (hasEndEdits enc E = false → ∀ h, oh = some h → Invisible enc h)

/-- Model stack ~ specification's open elements ~ the dispatcher's end-tag handler vector: the vector
holds exactly the deferred handlers of the open elements, outermost first, none of them active. -/
inductive Rel (enc : Enc) : List StackItem → List OpenEl → List EndTagHandlerItem → Prop
  | nil : Rel enc [] [] []
  | consNone {mi : StackItem} {so : OpenEl} {rest : List StackItem} {ro : List OpenEl}
      {hs : List EndTagHandlerItem} :
      Rel enc rest ro hs → mi.localName = so.lname → mi.data.matched = so.matched →
      mi.data.endTagHandlerIdx = none → EditRel enc mi.data none so.edit →
      Rel enc (mi :: rest) (so :: ro) hs
  | consSome {mi : StackItem} {so : OpenEl} {rest : List StackItem} {ro : List OpenEl}
      {hs : List EndTagHandlerItem} {h : EndTagHandler} :
      Rel enc rest ro hs → mi.localName = so.lname → mi.data.matched = so.matched →
      mi.data.endTagHandlerIdx = some hs.length → EditRel enc mi.data (some h) so.edit →
      Rel enc (mi :: rest) (so :: ro) (hs ++ [{ handler := h, userCount := 0 }])

theorem Rel.allZero {enc : Enc} {st : List StackItem} {os : List OpenEl} {hs : List EndTagHandlerItem}
    (r : Rel enc st os hs) : ∀ it ∈ hs, it.userCount = 0 := by
  induction r with
  | nil => intro it h; cases h
  | consNone _ _ _ _ _ ih => exact ih
  | consSome _ _ _ _ _ ih =>
    intro it hit
    rcases List.mem_append.mp hit with h | h
    · exact ih it h
    · simp at h; subst h; rfl

theorem Rel.any_matched {enc : Enc} {st : List StackItem} {os : List OpenEl} {hs : List EndTagHandlerItem}
    (r : Rel enc st os hs) (i : Nat) :
    (st.any fun it => it.data.matched.contains i) = (os.any fun o => o.matched.contains i) := by
  induction r with
  | nil => rfl
  | consNone _ _ hm _ _ ih => simp only [List.any_cons, ih, hm]
  | consSome _ _ hm _ _ ih => simp only [List.any_cons, ih, hm]

theorem Rel.findIdx {enc : Enc} {st : List StackItem} {os : List OpenEl} {hs : List EndTagHandlerItem}
    (r : Rel enc st os hs) (lname : Bytes) :
    (st.findIdx? fun it => it.localName == lname) = (os.findIdx? fun o => o.lname == lname) := by
  induction r with
  | nil => rfl
  | consNone _ hn _ _ _ ih => simp only [List.findIdx?_cons, ih, hn]
  | consSome _ hn _ _ _ ih => simp only [List.findIdx?_cons, ih, hn]

theorem Rel.suppressed {enc : Enc} {st : List StackItem} {os : List OpenEl} {hs : List EndTagHandlerItem}
    (r : Rel enc st os hs) :
    os.any elRemoved = (st.any fun it => it.data.removeContent) := by
  induction r with
  | nil => rfl
  | @consNone mi so _ _ _ _ _ _ _ he ih =>
    simp only [List.any_cons, ih]
    cases hed : so.edit with
    | none => rw [hed] at he; simp [elRemoved, hed, he.1]
    | some E => rw [hed] at he; simp [elRemoved, hed, he.1]
  | @consSome mi so _ _ _ _ _ _ _ _ he ih =>
    simp only [List.any_cons, ih]
    cases hed : so.edit with
    | none => rw [hed] at he; simp [elRemoved, hed, he.1]
    | some E => rw [hed] at he; simp [elRemoved, hed, he.1]

/-- The simulation invariant between the dispatcher state and the specification state. -/
structure Sim (H : List Handler) (enc : Enc) (ms : St) (ss : SpecSt) : Prop where
  inv : ms.inv = ss.inv
  tp : ms.textPending = ss.textPending
  rel : Rel enc ms.stack ss.openEls ms.endTagHandlers
  cinv : ∀ i, ms.counts i = base H i + occ H i ms.stack
  rinv : RInv ms
  nofault : ms.fault = false
  nodup : ∀ it ∈ ms.stack, it.data.matched.Nodup

theorem countRemoved_pos_iff_any (st : List StackItem) :
    (countRemoved st == 0) = !(st.any fun it => it.data.removeContent) := by
  induction st with
  | nil => rfl
  | cons it rest ih =>
    cases h : it.data.removeContent
    · simp only [countRemoved, List.filter_cons, h, List.any_cons, Bool.false_or] at ih ⊢
      exact ih
    · simp [countRemoved, List.filter_cons, h]

theorem Sim.emission {H : List Handler} {enc : Enc} {ms : St} {ss : SpecSt} (h : Sim H enc ms ss) :
    ms.emission = !suppressed ss := by
  rw [h.rinv.emission, h.rinv.count, countRemoved_pos_iff_any, suppressed, h.rel.suppressed]

theorem Sim.emit {H : List Handler} {enc : Enc} {ms : St} {ss : SpecSt} (h : Sim H enc ms ss)
    (b : Bytes) : (if ms.emission then b else []) = emit ss b := by
  rw [h.emission, Spec.EditDoc.emit]
  cases suppressed ss <;> rfl

theorem occ_pos_iff (H : List Handler) (i : Nat) (st : List StackItem) :
    decide (occ H i st > 0) = (isContentHandler H i && st.any fun it => it.data.matched.contains i) := by
  induction st with
  | nil => simp [occ]
  | cons it rest ih =>
    simp only [occ, List.filter_cons, List.any_cons] at ih ⊢
    cases hc : isContentHandler H i <;> cases hm : it.data.matched.contains i <;>
      simp_all

/-- The dispatcher's "has users" = the specification's "is active". -/
theorem Sim.active {H : List Handler} {enc : Enc} {ms : St} {ss : SpecSt} (h : Sim H enc ms ss) :
    (fun i => decide (ms.counts i > 0)) = isActive H ss := by
  funext i
  rw [h.cinv i, isActive]
  cases hh : H[i]? with
  | none =>
    have hb : base H i = 0 := by simp [base, St.init, hh]
    have hc : isContentHandler H i = false := by simp [isContentHandler, isKind, hh]
    have ho : occ H i ms.stack = 0 := by simp [occ, hc]
    simp [hb, ho]
  | some hd =>
    cases hs : hd.sel with
    | none =>
      have hb : base H i = 1 := by simp [base, St.init, hh, hs]
      simp [hb, hs]; omega
    | some sel =>
      have hb : base H i = 0 := by simp [base, St.init, hh, hs]
      simp only [hb, Nat.zero_add, hs, Option.isNone_some, Bool.false_or]
      rw [occ_pos_iff, h.rel.any_matched]

theorem Sim.anyActive {H : List Handler} {enc : Enc} {ms : St} {ss : SpecSt} (h : Sim H enc ms ss)
    (kind : Script → Bool) : anyActive H kind ms.counts = anyOfKind H ss kind := by
  unfold EditModel.anyActive anyOfKind
  congr 1
  funext i
  cases hh : H[i]? with
  | none => rfl
  | some hd =>
    have := congrFun h.active i
    simp only at this ⊢
    rw [this]


/-! ### D. Steps that do not touch the element stack -/

theorem text_intoBytes (enc : Enc) (text : Bytes) (last : Bool) (ops : List TextOp) :
    (({ text := text, lastInTextNode := last } : TextChunk).applyOps ops).intoBytes enc
      = edit enc (textOwn enc text ops) (textMutOps ops) := by
  unfold TextChunk.intoBytes
  rw [text_mutations, text_serializeSelf, serialize_foldl_apply]

theorem comment_intoBytes (enc : Enc) (text raw : Bytes) (ops : List CommentOp) :
    (({ text := text, raw := raw } : Comment).applyOps ops).intoBytes enc
      = edit enc (commentOwn raw ops) (commentMutOps ops) := by
  unfold Comment.intoBytes
  rw [comment_mutations, comment_serializeSelf, serialize_foldl_apply]
  rfl

theorem endTag_intoBytes (enc : Enc) (name raw : Bytes) (ops : List EndTagOp) :
    (({ name := name, raw := raw } : EndTag).applyOps ops).intoBytes enc
      = edit enc (endTagOwn raw ops) (endMutOps ops) := by
  unfold EndTag.intoBytes
  rw [endTag_mutations, endTag_serializeSelf, serialize_foldl_apply]
  rfl

theorem doctype_intoBytes (raw : Bytes) (ops : List DoctypeOp) :
    (({ raw := raw } : Doctype).applyOps ops).intoBytes = if ops.isEmpty then raw else [] := by
  have h : ∀ (d : Doctype), (d.applyOps ops).removed = (d.removed || !ops.isEmpty) ∧ (d.applyOps ops).raw = d.raw := by
    induction ops with
    | nil => intro d; simp [Doctype.applyOps]
    | cons op ops ih =>
      intro d
      have := ih (d.apply op)
      simp only [Doctype.applyOps, List.foldl_cons] at this ⊢
      cases op
      simp only [Doctype.apply] at this ⊢
      simp [this]
  have h' := h { raw := raw }
  unfold Doctype.intoBytes
  rw [h'.1, h'.2]
  cases ops <;> simp

/-- Changing only the invocation counters / the pending-text flag keeps the simulation. -/
theorem Sim.with_inv_tp {H : List Handler} {enc : Enc} {ms : St} {ss : SpecSt} (h : Sim H enc ms ss)
    (inv : Nat → Nat) (tp : Bool) :
    Sim H enc { ms with inv := inv, textPending := tp } { ss with inv := inv, textPending := tp } :=
  ⟨rfl, rfl, h.rel, h.cinv, ⟨h.rinv.count, h.rinv.emission, h.rinv.noUnderflow⟩, h.nofault, h.nodup⟩

theorem textTokenProduced_sim {H : List Handler} {enc : Enc} {ms : St} {ss : SpecSt}
    (h : Sim H enc ms ss) (text : Bytes) (last : Bool) :
    Sim H enc (textTokenProduced H enc ms { text := text, lastInTextNode := last }).1
        (textChunk H enc ss text).1
      ∧ (textTokenProduced H enc ms { text := text, lastInTextNode := last }).2
        = (textChunk H enc ss text).2 := by
  unfold textTokenProduced textChunk
  rw [forEachActive_text, h.active, h.inv]
  simp only
  refine ⟨?_, ?_⟩
  · exact ⟨rfl, h.tp, h.rel, h.cinv, ⟨h.rinv.count, h.rinv.emission, h.rinv.noUnderflow⟩, h.nofault, h.nodup⟩
  · rw [text_intoBytes]
    exact h.emit _

theorem flush_sim {H : List Handler} {enc : Enc} {ms : St} {ss : SpecSt} (h : Sim H enc ms ss) :
    Sim H enc (flushPendingText H enc ms).1 (flushText H enc ss).1
      ∧ (flushPendingText H enc ms).2 = (flushText H enc ss).2
      ∧ (flushPendingText H enc ms).1.stack = ms.stack
      ∧ (flushText H enc ss).1.openEls = ss.openEls := by
  unfold flushPendingText flushText
  rw [h.tp]
  by_cases htp : ss.textPending = true
  · rw [if_pos htp, if_pos htp]
    have h' : Sim H enc { ms with textPending := false } { ss with textPending := false } :=
      ⟨h.inv, rfl, h.rel, h.cinv, ⟨h.rinv.count, h.rinv.emission, h.rinv.noUnderflow⟩, h.nofault, h.nodup⟩
    have := textTokenProduced_sim h' [] true
    exact ⟨this.1, this.2, rfl, rfl⟩
  · rw [if_neg htp, if_neg htp]
    exact ⟨h, rfl, rfl, rfl⟩


theorem step_text_sim {H : List Handler} {enc : Enc} {ms : St} {ss : SpecSt} (h : Sim H enc ms ss)
    (raw : Bytes) :
    Sim H enc (EditModel.step H enc ms (.text raw)).1 (Spec.EditDoc.step H enc ss (.text raw)).1
      ∧ (EditModel.step H enc ms (.text raw)).2 = (Spec.EditDoc.step H enc ss (.text raw)).2 := by
  simp only [EditModel.step, Spec.EditDoc.step]
  rw [h.anyActive]
  by_cases ha : anyOfKind H ss Script.isText = true
  · rw [if_pos ha, if_pos ha]
    have h' : Sim H enc { ms with textPending := true } { ss with textPending := true } :=
      ⟨h.inv, rfl, h.rel, h.cinv, ⟨h.rinv.count, h.rinv.emission, h.rinv.noUnderflow⟩, h.nofault, h.nodup⟩
    exact textTokenProduced_sim h' raw false
  · rw [if_neg ha, if_neg ha]
    exact ⟨h, h.emit raw⟩

theorem step_comment_sim {H : List Handler} {enc : Enc} {ms : St} {ss : SpecSt} (h : Sim H enc ms ss)
    (text raw : Bytes) :
    Sim H enc (EditModel.step H enc ms (.comment text raw)).1 (Spec.EditDoc.step H enc ss (.comment text raw)).1
      ∧ (EditModel.step H enc ms (.comment text raw)).2 = (Spec.EditDoc.step H enc ss (.comment text raw)).2 := by
  simp only [EditModel.step, Spec.EditDoc.step]
  obtain ⟨hf, hfo, _, _⟩ := flush_sim h
  generalize flushPendingText H enc ms = fm at hf hfo
  generalize flushText H enc ss = fs at hf hfo
  obtain ⟨ms1, o1⟩ := fm
  obtain ⟨ss1, o2⟩ := fs
  simp only at hf hfo ⊢
  subst hfo
  rw [hf.anyActive]
  by_cases ha : anyOfKind H ss1 Script.isComment = true
  · rw [if_pos ha, if_pos ha, forEachActive_comment, hf.active, hf.inv]
    simp only
    refine ⟨⟨rfl, hf.tp, hf.rel, hf.cinv, ⟨hf.rinv.count, hf.rinv.emission, hf.rinv.noUnderflow⟩,
      hf.nofault, hf.nodup⟩, ?_⟩
    rw [comment_intoBytes]
    congr 1
    exact hf.emit _
  · rw [if_neg ha, if_neg ha]
    exact ⟨hf, by rw [hf.emit raw]⟩

theorem step_doctype_sim {H : List Handler} {enc : Enc} {ms : St} {ss : SpecSt} (h : Sim H enc ms ss)
    (raw : Bytes) :
    Sim H enc (EditModel.step H enc ms (.doctype raw)).1 (Spec.EditDoc.step H enc ss (.doctype raw)).1
      ∧ (EditModel.step H enc ms (.doctype raw)).2 = (Spec.EditDoc.step H enc ss (.doctype raw)).2 := by
  simp only [EditModel.step, Spec.EditDoc.step]
  obtain ⟨hf, hfo, _, _⟩ := flush_sim h
  generalize flushPendingText H enc ms = fm at hf hfo
  generalize flushText H enc ss = fs at hf hfo
  obtain ⟨ms1, o1⟩ := fm
  obtain ⟨ss1, o2⟩ := fs
  simp only at hf hfo ⊢
  subst hfo
  rw [hf.anyActive]
  by_cases ha : anyOfKind H ss1 Script.isDoctype = true
  · rw [if_pos ha, if_pos ha, forEachActive_doctype, hf.active, hf.inv]
    simp only
    refine ⟨⟨rfl, hf.tp, hf.rel, hf.cinv, ⟨hf.rinv.count, hf.rinv.emission, hf.rinv.noUnderflow⟩,
      hf.nofault, hf.nodup⟩, ?_⟩
    rw [doctype_intoBytes]
    congr 1
    exact hf.emit _
  · rw [if_neg ha, if_neg ha]
    exact ⟨hf, by rw [hf.emit raw]⟩


/-! ### E. Facts about the element the handlers produce -/

/-- The regions of an element that live at its end. -/
def endPart (e : ElemEdit) :
    Bool × List StringChunk × Bool × Option Bytes × List (List EndTagOp) × List StringChunk :=
  (e.innerRemoved, e.append, e.endDropped, e.endName, e.endHandlers, e.after)

/-- For an element with content, what a method does to the end regions does not depend on the start
regions. -/
theorem endPart_apply (E1 E2 : ElemEdit) (h : endPart E1 = endPart E2) (op : ElementOp) :
    endPart (E1.apply true op) = endPart (E2.apply true op) := by
  obtain ⟨b1, sd1, sr1, p1, ir1, a1, ed1, af1, en1, eh1⟩ := E1
  obtain ⟨b2, sd2, sr2, p2, ir2, a2, ed2, af2, en2, eh2⟩ := E2
  simp only [endPart, Prod.mk.injEq] at h
  obtain ⟨rfl, rfl, rfl, rfl, rfl, rfl⟩ := h
  cases op with
  | setTagName n =>
    simp only [ElemEdit.apply]
    cases tagNameBytesFromStr n <;> simp [endPart]
  | startTag sop =>
    cases sop with
    | «mut» mo => cases mo <;> simp [ElemEdit.apply, endPart]
    | _ => simp [ElemEdit.apply, endPart]
  | _ => simp [ElemEdit.apply, endPart, ElemEdit.clearInner]

theorem endPart_applyOps (E1 E2 : ElemEdit) (h : endPart E1 = endPart E2) (ops : List ElementOp) :
    endPart (E1.applyOps true ops) = endPart (E2.applyOps true ops) := by
  induction ops generalizing E1 E2 with
  | nil => exact h
  | cons op ops ih =>
    simp only [ElemEdit.applyOps, List.foldl_cons] at ih ⊢
    exact ih _ _ (endPart_apply E1 E2 h op)

theorem endTagScript_of_endPart (E1 E2 : ElemEdit) (h : endPart E1 = endPart E2) :
    E1.endTagScript = E2.endTagScript := by
  simp only [endPart, Prod.mk.injEq] at h
  obtain ⟨_, h2, h3, h4, h5, h6⟩ := h
  simp [ElemEdit.endTagScript, h2, h3, h4, h5, h6]

/-- Whatever mutations the start tag carries when the handlers start (the dispatcher pre-removes it
inside removed content), an element with content ends up with the documented end regions. -/
theorem element_end_facts (enc : Enc) (st : StartTag) (ops : List ElementOp) :
    let el := (Element.new st true).applyOps ops
    let E := ElemEdit.applyOps true {} ops
    el.shouldRemoveContent = E.innerRemoved ∧ Implements enc el.intoEndTagHandler E
      ∧ (hasEndEdits enc E = false → ∀ h, el.intoEndTagHandler = some h → Invisible enc h) := by
  intro el E
  have hchc : el.canHaveContent = true := applyOps_canHaveContent _ _
  have hinv : EInv el := EInv_applyOps _ _ (EInv_new st true)
  have h0 : endPart (absEl (Element.new st true)) = endPart ({} : ElemEdit) := by
    simp [endPart, absEl, Element.new, Element.endTagMutationsMut]
  have hep : endPart (absEl el) = endPart E := by
    show endPart (absEl ((Element.new st true).applyOps ops)) = _
    rw [absEl_applyOps]
    exact endPart_applyOps _ _ h0 ops
  refine ⟨?_, ?_, ?_⟩
  · have : (absEl el).innerRemoved = E.innerRemoved := by
      simp only [endPart, Prod.mk.injEq] at hep; exact hep.1
    rw [← this]; rfl
  · intro name raw
    have := endTag_region enc el hinv hchc name raw
    rw [endTagScript_of_endPart _ _ hep, endTag_intoBytes] at this
    rw [← this]
    unfold endTagAfter
    cases el.intoEndTagHandler <;> rfl
  · intro hne h hh
    simp only [endPart, Prod.mk.injEq] at hep
    obtain ⟨_, hap, hed, hen, heh, haf⟩ := hep
    simp only [hasEndEdits, Bool.or_eq_false_iff, Bool.not_eq_false', List.isEmpty_iff,
      Option.isSome_eq_false_iff, Option.isNone_iff_eq_none, List.any_eq_false, Bool.not_eq_true'] at hne
    obtain ⟨⟨⟨⟨ha, hb⟩, hc⟩, hd⟩, he⟩ := hne
    unfold Element.intoEndTagHandler at hh
    split at hh
    · cases hh
      refine ⟨?_, ?_, ?_⟩
      · show el.modifiedEndTagName = none
        have : (absEl el).endName = E.endName := hen
        rw [hd] at this; exact this
      · intro l hl
        have : (absEl el).endHandlers = E.endHandlers := heh
        have hl' : l ∈ E.endHandlers := by rw [← this]; exact hl
        have := he l hl'
        simpa using this
      · intro m hm
        have hmm : m.mutate = el.endTagMutationsMut := by
          simp only [Element.endTagMutationsMut]
          have : el.endTagMutations = some m := hm
          rw [this]
        have h1 : (absEl el).append = E.append := hap
        have h2 : (absEl el).after = E.after := haf
        have h3 : (absEl el).endDropped = E.endDropped := hed
        simp only [absEl, hchc, if_true] at h1 h2 h3
        rw [hmm, h1, h2, h3]
        exact ⟨ha, hb, hc, hinv.noRepl⟩
    · cases hh

/-- The start region, for a fresh start tag. -/
theorem element_start_region (enc : Enc) (st : StartTag) (hfresh : st.mutations = {}) (chc : Bool)
    (ops : List ElementOp) :
    ((Element.new st chc).applyOps ops).startTag.intoBytes enc
      = (ElemEdit.applyOps chc {} ops).startRegion enc chc
          ({ st.applyOps (startTagOwnOps ops) with
              selfClosing := st.selfClosing && !selfClosingCleared chc ops } : StartTag).serializeSelf := by
  have hchc : ((Element.new st chc).applyOps ops).canHaveContent = chc := applyOps_canHaveContent _ _
  have habs : absEl ((Element.new st chc).applyOps ops) = ElemEdit.applyOps chc {} ops := by
    rw [absEl_applyOps, absEl_new st chc hfresh]; rfl
  have hown := element_startTag_own (Element.new st chc) ops
  rw [startTag_intoBytes_region, habs, hchc]
  congr 1
  exact serializeSelf_of_ownPart _ _ hown.1 hown.2

/-- An element without content never asks for content removal. -/
theorem void_no_remove (st : StartTag) (ops : List ElementOp) :
    ((Element.new st false).applyOps ops).shouldRemoveContent = false := by
  have : ∀ e : Element, e.canHaveContent = false → e.shouldRemoveContent = false →
      ∀ op, (e.apply op).shouldRemoveContent = false := by
    intro e hc hs op
    cases op <;> simp [Element.apply, hc, hs, Element.setStartTagMutations]
    · split <;> simp [hs]
  have h2 : ∀ (ops : List ElementOp) (e : Element), e.canHaveContent = false → e.shouldRemoveContent = false →
      (e.applyOps ops).shouldRemoveContent = false := by
    intro ops
    induction ops with
    | nil => intro e _ hs; exact hs
    | cons op ops ih =>
      intro e hc hs
      simp only [Element.applyOps, List.foldl_cons] at ih ⊢
      exact ih _ (by rw [apply_canHaveContent]; exact hc) (this e hc hs op)
  exact h2 ops _ rfl rfl


/-! ### F. Start tags -/

theorem occ_cons (H : List Handler) (i : Nat) (it : StackItem) (st : List StackItem) :
    occ H i (it :: st)
      = (if isContentHandler H i && it.data.matched.contains i then 1 else 0) + occ H i st := by
  simp only [occ, List.filter_cons]
  split <;> simp <;> omega

theorem occ_top_congr (H : List Handler) (i : Nat) (it it' : StackItem) (st : List StackItem)
    (h : it'.data.matched = it.data.matched) : occ H i (it' :: st) = occ H i (it :: st) := by
  rw [occ_cons, occ_cons, h]

/-- `counts` after `start_matching` + push. -/
theorem cinv_push {H : List Handler} {ms : St} (hc : ∀ i, ms.counts i = base H i + occ H i ms.stack)
    (ids : List Nat) (hn : ids.Nodup) (it : StackItem) (hit : it.data.matched = ids) (i : Nat) :
    startMatching H ids true ms.counts i = base H i + occ H i (it :: ms.stack) := by
  rw [startMatching_spec H ids hn, hc i, occ_cons, hit]
  simp only [Bool.true_and]
  omega

theorem Sim.removedCount_zero {H : List Handler} {enc : Enc} {ms : St} {ss : SpecSt}
    (h : Sim H enc ms ss) (he : ms.emission = true) : ms.removedCount = 0 := by
  have := h.rinv.emission
  rw [he] at this
  simpa using this.symm

/-- Registering the element the handlers produced, on top of the freshly pushed stack item. -/
theorem register_sim {H : List Handler} {enc : Enc} {ms1 : St} {ss1 : SpecSt} (hf : Sim H enc ms1 ss1)
    (lname : Bytes) (ids : List Nat) (hn : ids.Nodup) (inv' : Nat → Nat) (el : Element) (E : ElemEdit)
    (hE1 : el.shouldRemoveContent = E.innerRemoved) (hE2 : Implements enc el.intoEndTagHandler E)
    (hE3 : hasEndEdits enc E = false → ∀ h, el.intoEndTagHandler = some h → Invisible enc h) :
    let P : St := { ms1 with
      stack := { localName := lname, data := { matched := ids } } :: ms1.stack,
      counts := startMatching H ids true ms1.counts, inv := inv' }
    let R := registerElement P el
    Sim H enc { R with emission := R.removedCount == 0 }
        { openEls := { lname := lname, matched := ids, edit := some E } :: ss1.openEls, inv := inv',
          textPending := ss1.textPending }
      ∧ R.emission = ms1.emission := by
  intro P R
  have hspec := registerElement_spec P el { localName := lname, data := { matched := ids } } ms1.stack rfl rfl
    (by show ms1.removedCount = countRemoved (_ :: ms1.stack); rw [hf.rinv.count]; simp [countRemoved])
  have hR : R = registerElement P el := rfl
  obtain ⟨hs1', hs2', hs3', _⟩ := hspec
  have hs1 : R.removedCount = countRemoved R.stack := hs1'
  have hs2 : R.emission = ms1.emission := hs2'
  have hs3 : R.faultRemoved = ms1.faultRemoved := hs3'
  clear hs1' hs2' hs3' hR
  have hcinv : ∀ (it : StackItem), it.data.matched = ids →
      ∀ i, startMatching H ids true ms1.counts i = base H i + occ H i (it :: ms1.stack) :=
    fun it hit i => cinv_push hf.cinv ids hn it hit i
  have hnd : ∀ (it : StackItem), it.data.matched = ids →
      ∀ x ∈ it :: ms1.stack, x.data.matched.Nodup := by
    intro it hit x hx
    rcases List.mem_cons.mp hx with rfl | hx
    · rw [hit]; exact hn
    · exact hf.nodup x hx
  cases hsr : el.shouldRemoveContent <;> cases hh : el.intoEndTagHandler
  · -- content kept, nothing deferred
    rw [hh] at hE2 hE3; rw [hsr] at hE1
    have e : R = P := by simp only [R, registerElement, hsr, hh]; rfl
    rw [e] at hs1 hs2 hs3 ⊢
    exact ⟨⟨rfl, hf.tp, Rel.consNone hf.rel rfl rfl rfl ⟨hE1, hE2, hE3⟩, hcinv _ rfl, ⟨hs1, rfl, hf.rinv.noUnderflow⟩,
      hf.nofault, hnd _ rfl⟩, rfl⟩
  · -- content kept, a handler deferred
    rename_i hd
    rw [hh] at hE2 hE3; rw [hsr] at hE1
    have e : R = { P with
        stack := { localName := lname, data := { matched := ids, endTagHandlerIdx := some ms1.endTagHandlers.length } } :: ms1.stack,
        endTagHandlers := ms1.endTagHandlers ++ [{ handler := hd, userCount := 0 }] } := by
      simp only [R, registerElement, hsr, hh, P, modifyTop]; rfl
    rw [e] at hs1 hs2 hs3 ⊢
    exact ⟨⟨rfl, hf.tp, Rel.consSome hf.rel rfl rfl rfl ⟨hE1, hE2, hE3⟩, hcinv _ rfl, ⟨hs1, rfl, hf.rinv.noUnderflow⟩,
      hf.nofault, hnd _ rfl⟩, rfl⟩
  · -- content removed, nothing deferred
    rw [hh] at hE2 hE3; rw [hsr] at hE1
    have e : R = { P with
        stack := { localName := lname, data := { matched := ids, removeContent := true } } :: ms1.stack,
        removedCount := ms1.removedCount + 1 } := by
      simp only [R, registerElement, hsr, hh, P, modifyTop]; rfl
    rw [e] at hs1 hs2 hs3 ⊢
    exact ⟨⟨rfl, hf.tp, Rel.consNone hf.rel rfl rfl rfl ⟨hE1, hE2, hE3⟩, hcinv _ rfl, ⟨hs1, rfl, hf.rinv.noUnderflow⟩,
      hf.nofault, hnd _ rfl⟩, rfl⟩
  · -- content removed, a handler deferred
    rename_i hd
    rw [hh] at hE2 hE3; rw [hsr] at hE1
    have e : R = { P with
        stack := { localName := lname, data := { matched := ids, endTagHandlerIdx := some ms1.endTagHandlers.length,
                                                 removeContent := true } } :: ms1.stack,
        removedCount := ms1.removedCount + 1,
        endTagHandlers := ms1.endTagHandlers ++ [{ handler := hd, userCount := 0 }] } := by
      simp only [R, registerElement, hsr, hh, P, modifyTop]; rfl
    rw [e] at hs1 hs2 hs3 ⊢
    exact ⟨⟨rfl, hf.tp, Rel.consSome hf.rel rfl rfl rfl ⟨hE1, hE2, hE3⟩, hcinv _ rfl, ⟨hs1, rfl, hf.rinv.noUnderflow⟩,
      hf.nofault, hnd _ rfl⟩, rfl⟩

theorem stepStartTag_sim {H : List Handler} {enc : Enc} {ms : St} {ss : SpecSt} (h : Sim H enc ms ss)
    (name : Bytes) (attrs : List Attribute) (sc : Bool) (ns : Ns) (raw : Bytes) :
    Sim H enc (EditModel.step H enc ms (.startTag name attrs sc ns raw)).1
        (Spec.EditDoc.step H enc ss (.startTag name attrs sc ns raw)).1
      ∧ (EditModel.step H enc ms (.startTag name attrs sc ns raw)).2
        = (Spec.EditDoc.step H enc ss (.startTag name attrs sc ns raw)).2 := by
  simp only [EditModel.step, Spec.EditDoc.step]
  unfold stepStartTag
  simp only
  obtain ⟨hf, hfo, _, _⟩ := flush_sim h
  generalize flushPendingText H enc ms = fm at hf hfo
  generalize flushText H enc ss = fs at hf hfo
  obtain ⟨ms1, o1⟩ := fm
  obtain ⟨ss1, o2⟩ := fs
  simp only at hf hfo ⊢
  subst hfo
  have hn : (matchedIds H (asciiLowerBytes name)).Nodup := matchedIds_nodup H _
  generalize matchedIds H (asciiLowerBytes name) = ids at hn
  generalize hwc : withContent ns (asciiLowerBytes name) sc = wc
  by_cases hel : (ids.filter (isKind H Script.isElement)).isEmpty = true
  · -- no element handler: the tag passes
    rw [if_pos hel, if_pos hel]
    cases wc with
    | false =>
      simp only [Bool.false_eq_true, if_false]
      refine ⟨⟨hf.inv, hf.tp, hf.rel, ?_, ⟨hf.rinv.count, rfl, hf.rinv.noUnderflow⟩, hf.nofault, hf.nodup⟩, ?_⟩
      · intro i; simp only [startMatching]; exact hf.cinv i
      · congr 1; exact hf.emit raw
    | true =>
      simp only [if_true]
      refine ⟨⟨hf.inv, hf.tp, ?_, ?_, ⟨?_, rfl, hf.rinv.noUnderflow⟩, hf.nofault, ?_⟩, ?_⟩
      · exact Rel.consNone hf.rel rfl rfl rfl ⟨rfl, rfl⟩
      · intro i; exact cinv_push hf.cinv ids hn _ rfl i
      · show ms1.removedCount = countRemoved (_ :: ms1.stack)
        rw [hf.rinv.count]; simp [countRemoved]
      · intro it hit
        rcases List.mem_cons.mp hit with rfl | hit
        · exact hn
        · exact hf.nodup it hit
      · congr 1; exact hf.emit raw
  · -- element handlers run
    rw [if_neg hel, if_neg hel]
    rw [forEachActive_element]
    simp only
    cases wc with
    | false =>
      simp only [Bool.false_eq_true, if_false]
      rw [← hf.inv]
      refine ⟨⟨rfl, hf.tp, hf.rel, ?_, ⟨hf.rinv.count, rfl, hf.rinv.noUnderflow⟩, hf.nofault, hf.nodup⟩, ?_⟩
      · intro i; simp only [startMatching]; exact hf.cinv i
      · congr 1
        by_cases hem : ms1.emission = true
        · have hz := hf.removedCount_zero hem
          simp only [hz, Nat.lt_irrefl, gt_iff_lt, if_false, hem, if_true]
          rw [element_start_region enc _ rfl false]
          have := hf.emit ((ElemEdit.applyOps false {} (collectAux scriptElement
            (fun i => (ids.filter (isKind H Script.isElement)).contains i) H 0 ms1.inv).2).startRegion enc false
              ({ (({ name := name, attributes := attrs, ns := ns, selfClosing := sc, raw := raw } : StartTag).applyOps
                  (startTagOwnOps (collectAux scriptElement
                    (fun i => (ids.filter (isKind H Script.isElement)).contains i) H 0 ms1.inv).2)) with
                  selfClosing := sc && !selfClosingCleared false (collectAux scriptElement
                    (fun i => (ids.filter (isKind H Script.isElement)).contains i) H 0 ms1.inv).2 } : StartTag).serializeSelf)
          rw [hem] at this
          exact this
        · have hem' : ms1.emission = false := by simpa using hem
          simp only [hem', Bool.false_eq_true, if_false]
          have := hf.emit ([] : Bytes)
          rw [hf.emission] at hem'
          simp only [Bool.not_eq_false'] at hem'
          simp [Spec.EditDoc.emit, hem']
    | true =>
      simp only [if_true]
      rw [← hf.inv]
      generalize hops : collectAux scriptElement
        (fun i => (ids.filter (isKind H Script.isElement)).contains i) H 0 ms1.inv = c
      generalize hst : (if ms1.removedCount > 0 then
          ({ name := name, attributes := attrs, ns := ns, selfClosing := sc, raw := raw } : StartTag).apply
            (StartTagOp.mut MutOp.remove)
          else { name := name, attributes := attrs, ns := ns, selfClosing := sc, raw := raw }) = st
      have hE := element_end_facts enc st c.2
      have hreg := register_sim hf (asciiLowerBytes name) ids hn c.1 _ _ hE.1 hE.2.1 hE.2.2
      refine ⟨hreg.1, ?_⟩
      congr 1
      rw [hreg.2]
      by_cases hem : ms1.emission = true
      · have hz := hf.removedCount_zero hem
        have hst' : st = { name := name, attributes := attrs, ns := ns, selfClosing := sc, raw := raw } := by
          rw [← hst]; simp [hz]
        rw [if_pos hem, hst', element_start_region enc _ rfl true]
        have := hf.emit ((ElemEdit.applyOps true {} c.2).startRegion enc true
              ({ (({ name := name, attributes := attrs, ns := ns, selfClosing := sc, raw := raw } : StartTag).applyOps
                  (startTagOwnOps c.2)) with
                  selfClosing := sc && !selfClosingCleared true c.2 } : StartTag).serializeSelf)
        rw [hem] at this
        exact this
      · have hem' : ms1.emission = false := by simpa using hem
        rw [if_neg hem]
        rw [hf.emission] at hem'
        simp only [Bool.not_eq_false'] at hem'
        simp [Spec.EditDoc.emit, hem']


/-! ### G. End tags (well-nested: the end tag closes the innermost open element, or nothing) -/

theorem findIdx?_none_of_allZero (hs : List EndTagHandlerItem) (h : ∀ it ∈ hs, it.userCount = 0) :
    hs.findIdx? (fun it => decide (it.userCount > 0)) = none := by
  rw [List.findIdx?_eq_none_iff]
  intro it hit
  simp [h it hit]

theorem any_active_false_of_allZero (hs : List EndTagHandlerItem) (h : ∀ it ∈ hs, it.userCount = 0) :
    hs.any (fun it => decide (it.userCount > 0)) = false := by
  rw [List.any_eq_false]
  intro it hit
  simp [h it hit]

theorem runEndTagHandlers_allZero (hs : List EndTagHandlerItem) (h : ∀ it ∈ hs, it.userCount = 0)
    (t : EndTag) : runEndTagHandlers hs t = (hs, t) := by
  unfold runEndTagHandlers
  rw [findIdx?_none_of_allZero hs h]

theorem runEndTagHandlers_last (hs : List EndTagHandlerItem) (h : ∀ it ∈ hs, it.userCount = 0)
    (hd : EndTagHandler) (t : EndTag) :
    runEndTagHandlers (hs ++ [{ handler := hd, userCount := 1 }]) t = (hs, hd.run t) := by
  unfold runEndTagHandlers
  have : (hs ++ [({ handler := hd, userCount := 1 } : EndTagHandlerItem)]).findIdx?
      (fun it => decide (it.userCount > 0)) = some hs.length := by
    rw [List.findIdx?_append, findIdx?_none_of_allZero hs h]
    simp
  rw [this]
  simp

theorem modify_last (hs : List EndTagHandlerItem) (x : EndTagHandlerItem)
    (f : EndTagHandlerItem → EndTagHandlerItem) :
    (hs ++ [x]).modify hs.length f = hs ++ [f x] := by
  induction hs with
  | nil => simp [List.modify]
  | cons a hs ih => simp [ih]


/-- `stop_matching` for an element without a deferred handler, in closed form. -/
theorem stopMatching_none (H : List Handler) (s : St) (d : ElementDescriptor) (hn : d.matched.Nodup)
    (hpos : ∀ i ∈ d.matched, isContentHandler H i = true → 1 ≤ s.counts i)
    (hidx : d.endTagHandlerIdx = none) (hrc : d.removeContent = true → s.removedCount ≠ 0) :
    stopMatching H s d = { s with
      counts := fun i => s.counts i - (if isContentHandler H i && d.matched.contains i then 1 else 0),
      removedCount := s.removedCount - (if d.removeContent then 1 else 0) } := by
  unfold stopMatching
  rw [decCounts_spec H s d.matched hn hpos, hidx]
  simp only [activateEndTagHandler, decRemoved]
  cases hr : d.removeContent
  · simp
  · have := hrc hr
    simp [this]

/-- `stop_matching` for an element whose deferred handler is the last of the vector. -/
theorem stopMatching_some (H : List Handler) (s : St) (d : ElementDescriptor) (hn : d.matched.Nodup)
    (hpos : ∀ i ∈ d.matched, isContentHandler H i = true → 1 ≤ s.counts i)
    (hs : List EndTagHandlerItem) (hd : EndTagHandler)
    (hvec : s.endTagHandlers = hs ++ [{ handler := hd, userCount := 0 }])
    (hidx : d.endTagHandlerIdx = some hs.length) (hrc : d.removeContent = true → s.removedCount ≠ 0) :
    stopMatching H s d = { s with
      counts := fun i => s.counts i - (if isContentHandler H i && d.matched.contains i then 1 else 0),
      endTagHandlers := hs ++ [{ handler := hd, userCount := 1 }],
      removedCount := s.removedCount - (if d.removeContent then 1 else 0) } := by
  unfold stopMatching
  rw [decCounts_spec H s d.matched hn hpos, hidx]
  simp only [activateEndTagHandler, decRemoved, hvec, List.length_append, List.length_singleton,
    Nat.lt_add_one, if_true, modify_last]
  cases hr : d.removeContent
  · simp
  · have := hrc hr
    simp [this]


theorem fresh_endTag_intoBytes (enc : Enc) (name raw : Bytes) :
    ({ name := name, raw := raw } : EndTag).intoBytes enc = raw := by
  simp [EndTag.intoBytes, Mutations.serialize, EndTag.serializeSelf]

/-- After the pop, no deferred handler active. -/
theorem emitEndTag_none (enc : Enc) (S : St) (name raw : Bytes)
    (hz : ∀ it ∈ S.endTagHandlers, it.userCount = 0)
    (hE : S.emission = true → S.removedCount = 0) :
    emitEndTag enc S name raw
      = ({ S with emission := S.removedCount == 0 }, if S.removedCount == 0 then raw else []) := by
  unfold emitEndTag
  simp only [any_active_false_of_allZero _ hz, Bool.false_or]
  cases hem : S.emission
  · cases hrc : (S.removedCount == 0)
    · have hne : ¬ S.removedCount = 0 := by simpa using hrc
      simp [hem, hne]
    · have he : S.removedCount = 0 := by simpa using hrc
      simp [runEndTagHandlers_allZero _ hz, fresh_endTag_intoBytes, he]
  · have := hE hem
    simp [this, hem]

/-- After the pop, exactly the last deferred handler is active. -/
theorem emitEndTag_some (enc : Enc) (S : St) (name raw : Bytes) (hs : List EndTagHandlerItem)
    (hd : EndTagHandler) (hvec : S.endTagHandlers = hs ++ [{ handler := hd, userCount := 1 }])
    (hz : ∀ it ∈ hs, it.userCount = 0)
    (hE : S.emission = true → S.removedCount = 0) :
    emitEndTag enc S name raw
      = ({ S with endTagHandlers := hs, emission := S.removedCount == 0 },
         if S.removedCount == 0 then (hd.run { name := name, raw := raw }).intoBytes enc else []) := by
  unfold emitEndTag
  have hany : S.endTagHandlers.any (fun it => decide (it.userCount > 0)) = true := by
    rw [hvec]; simp
  simp only [hany, Bool.true_or, if_true]
  cases hem : S.emission
  · cases hrc : (S.removedCount == 0)
    · have hne : ¬ S.removedCount = 0 := by simpa using hrc
      simp [hvec, runEndTagHandlers_last _ hz, hem, hne]
    · have he : S.removedCount = 0 := by simpa using hrc
      simp [hvec, runEndTagHandlers_last _ hz, he]
  · have := hE hem
    simp [this, hvec, runEndTagHandlers_last _ hz, hem]

/-- Number of descriptors in `ds` that keep content handler `i` active. -/
def sumInd (H : List Handler) (ds : List ElementDescriptor) (i : Nat) : Nat :=
  (ds.filter fun d => isContentHandler H i && d.matched.contains i).length

theorem sumInd_cons (H : List Handler) (d : ElementDescriptor) (ds : List ElementDescriptor) (i : Nat) :
    sumInd H (d :: ds) i
      = (if isContentHandler H i && d.matched.contains i then 1 else 0) + sumInd H ds i := by
  simp only [sumInd, List.filter_cons]
  split <;> simp <;> omega

theorem occ_eq_sumInd (H : List Handler) (i : Nat) (st : List StackItem) :
    occ H i st = sumInd H (st.map StackItem.data) i := by
  induction st with
  | nil => rfl
  | cons it st ih => rw [occ_cons, List.map_cons, sumInd_cons, ih]

theorem sumInd_append (H : List Handler) (a b : List ElementDescriptor) (i : Nat) :
    sumInd H (a ++ b) i = sumInd H a i + sumInd H b i := by
  simp [sumInd, List.filter_append]

theorem sumInd_reverse (H : List Handler) (a : List ElementDescriptor) (i : Nat) :
    sumInd H a.reverse i = sumInd H a i := by
  simp [sumInd, List.filter_reverse]

/-- Popping elements that deferred nothing and keep their content: only the user counts move. -/
theorem foldl_stopMatching_untouched (H : List Handler) (ds : List ElementDescriptor) (S : St)
    (hd : ∀ d ∈ ds, d.matched.Nodup ∧ d.endTagHandlerIdx = none ∧ d.removeContent = false)
    (hc : ∀ i, sumInd H ds i ≤ S.counts i) :
    ds.foldl (stopMatching H) S = { S with counts := fun i => S.counts i - sumInd H ds i } := by
  induction ds generalizing S with
  | nil => simp [sumInd]
  | cons d ds ih =>
    have hd0 := hd d List.mem_cons_self
    have hpos : ∀ i ∈ d.matched, isContentHandler H i = true → 1 ≤ S.counts i := by
      intro i hi hci
      have := hc i
      rw [sumInd_cons] at this
      have hcont : d.matched.contains i = true := by simpa using hi
      rw [hci, hcont] at this
      simp only [Bool.and_self, if_true] at this
      omega
    rw [List.foldl_cons, stopMatching_none H S d hd0.1 hpos hd0.2.1 (by simp [hd0.2.2])]
    rw [ih _ (fun d' hd' => hd d' (List.mem_cons_of_mem _ hd'))]
    · obtain ⟨st, cn, iv, eh, rc, em, tp, f1, f2⟩ := S
      simp only [hd0.2.2, Bool.false_eq_true, if_false, Nat.sub_zero, St.mk.injEq, true_and, and_true]
      funext i
      rw [sumInd_cons]
      omega
    · intro i
      have := hc i
      rw [sumInd_cons] at this
      simp only
      omega

theorem modify_at_length {α : Type} (P : List α) (x : α) (b : List α) (f : α → α) :
    (P ++ x :: b).modify P.length f = P ++ f x :: b := by
  induction P with
  | nil => simp [List.modify]
  | cons a P ih => simp [ih]

/-- `stop_matching` for an element whose deferred handler sits at position `P.length` of the vector. -/
theorem stopMatching_at (H : List Handler) (s : St) (d : ElementDescriptor) (hn : d.matched.Nodup)
    (hpos : ∀ i ∈ d.matched, isContentHandler H i = true → 1 ≤ s.counts i)
    (P b : List EndTagHandlerItem) (x : EndTagHandlerItem)
    (hvec : s.endTagHandlers = P ++ x :: b)
    (hidx : d.endTagHandlerIdx = some P.length) (hrc : d.removeContent = true → s.removedCount ≠ 0) :
    stopMatching H s d = { s with
      counts := fun i => s.counts i - (if isContentHandler H i && d.matched.contains i then 1 else 0),
      endTagHandlers := P ++ { x with userCount := x.userCount + 1 } :: b,
      removedCount := s.removedCount - (if d.removeContent then 1 else 0) } := by
  unfold stopMatching
  rw [decCounts_spec H s d.matched hn hpos, hidx]
  have hlt : P.length < (P ++ x :: b).length := by simp
  simp only [activateEndTagHandler, decRemoved, hvec, hlt, if_true, modify_at_length]
  cases hr : d.removeContent
  · simp
  · have := hrc hr
    simp [this]

/-- Layout of the deferred handlers of a list of popped elements (in popping order, outermost
first) inside the handler vector, starting at position `n`; none of them active. -/
inductive VR : Nat → List ElementDescriptor → List EndTagHandlerItem → Prop
  | nil (n : Nat) : VR n [] []
  | skip {n : Nat} {d : ElementDescriptor} {ds : List ElementDescriptor} {hs : List EndTagHandlerItem} :
      d.endTagHandlerIdx = none → VR n ds hs → VR n (d :: ds) hs
  | keep {n : Nat} {d : ElementDescriptor} {ds : List ElementDescriptor} {hs : List EndTagHandlerItem}
      {h : EndTagHandler} :
      d.endTagHandlerIdx = some n → VR (n + 1) ds hs → VR n (d :: ds) ({ handler := h, userCount := 0 } :: hs)

def activate (it : EndTagHandlerItem) : EndTagHandlerItem := { it with userCount := it.userCount + 1 }

theorem countRemovedD_le_cons (d : ElementDescriptor) (ds : List ElementDescriptor) :
    countRemovedD ds ≤ countRemovedD (d :: ds) := by
  rw [countRemovedD_cons]; omega

/-- Popping any list of elements whose deferred handlers are the tail of the vector. -/
theorem foldl_stopMatching_VR (H : List Handler) (ds : List ElementDescriptor)
    (Q : List EndTagHandlerItem) (n : Nat) (hv : VR n ds Q) (S : St) (P : List EndTagHandlerItem)
    (hP : P.length = n) (hvec : S.endTagHandlers = P ++ Q)
    (hnd : ∀ d ∈ ds, d.matched.Nodup) (hc : ∀ i, sumInd H ds i ≤ S.counts i)
    (hr : countRemovedD ds ≤ S.removedCount) :
    ds.foldl (stopMatching H) S = { S with
      counts := fun i => S.counts i - sumInd H ds i,
      endTagHandlers := P ++ Q.map activate,
      removedCount := S.removedCount - countRemovedD ds } := by
  induction hv generalizing S P with
  | nil n =>
    obtain ⟨st, cn, iv, eh, rc, em, tp, f1, f2⟩ := S
    simp only at hvec
    simp [sumInd, countRemovedD, hvec]
  | @skip n d ds hs hidx hv ih =>
    have hpos : ∀ i ∈ d.matched, isContentHandler H i = true → 1 ≤ S.counts i := by
      intro i hi hci
      have := hc i
      rw [sumInd_cons] at this
      have hcont : d.matched.contains i = true := by simpa using hi
      rw [hci, hcont] at this
      simp only [Bool.and_self, if_true] at this
      omega
    have hrc : d.removeContent = true → S.removedCount ≠ 0 := by
      intro hr'; rw [countRemovedD_cons, hr'] at hr; simp at hr; omega
    rw [List.foldl_cons, stopMatching_none H S d (hnd d List.mem_cons_self) hpos hidx hrc]
    rw [ih _ P hP (by simpa using hvec) (fun d' hd' => hnd d' (List.mem_cons_of_mem _ hd'))]
    · obtain ⟨st, cn, iv, eh, rc, em, tp, f1, f2⟩ := S
      simp only [St.mk.injEq, true_and, and_true]
      refine ⟨?_, ?_⟩
      · funext i; rw [sumInd_cons]; omega
      · rw [countRemovedD_cons]; cases d.removeContent <;> simp <;> omega
    · intro i
      have := hc i
      rw [sumInd_cons] at this
      simp only
      omega
    · simp only
      rw [countRemovedD_cons] at hr
      omega
  | @keep n d ds hs h hidx hv ih =>
    have hpos : ∀ i ∈ d.matched, isContentHandler H i = true → 1 ≤ S.counts i := by
      intro i hi hci
      have := hc i
      rw [sumInd_cons] at this
      have hcont : d.matched.contains i = true := by simpa using hi
      rw [hci, hcont] at this
      simp only [Bool.and_self, if_true] at this
      omega
    have hrc : d.removeContent = true → S.removedCount ≠ 0 := by
      intro hr'; rw [countRemovedD_cons, hr'] at hr; simp at hr; omega
    rw [List.foldl_cons, stopMatching_at H S d (hnd d List.mem_cons_self) hpos P hs _ hvec (by rw [hP]; exact hidx) hrc]
    rw [ih _ (P ++ [{ handler := h, userCount := 0 + 1 }]) (by simp [hP]) (by simp)
      (fun d' hd' => hnd d' (List.mem_cons_of_mem _ hd'))]
    · obtain ⟨st, cn, iv, eh, rc, em, tp, f1, f2⟩ := S
      simp only [St.mk.injEq, true_and, and_true]
      refine ⟨?_, ?_, ?_⟩
      · funext i; rw [sumInd_cons]; omega
      · simp [activate]
      · rw [countRemovedD_cons]; cases d.removeContent <;> simp <;> omega
    · intro i
      have := hc i
      rw [sumInd_cons] at this
      simp only
      omega
    · simp only
      rw [countRemovedD_cons] at hr
      omega

theorem occ_ge_of_mem (H : List Handler) (i : Nat) (it : StackItem) (st : List StackItem)
    (hc : isContentHandler H i = true) (hm : i ∈ it.data.matched) : 1 ≤ occ H i (it :: st) := by
  rw [occ_cons]
  have : it.data.matched.contains i = true := by simpa using hm
  simp [hc, hm]

theorem take_len_succ {α : Type} (a : List α) (x : α) (b : List α) :
    List.take (a.length + 1) (a ++ x :: b) = a ++ [x] := by
  induction a with
  | nil => simp
  | cons y a ih => simp [ih]

theorem drop_len_succ {α : Type} (a : List α) (x : α) (b : List α) :
    List.drop (a.length + 1) (a ++ x :: b) = b := by
  induction a with
  | nil => simp
  | cons y a ih => simp [ih]

theorem take_len {α : Type} (a b : List α) : List.take a.length (a ++ b) = a := by
  induction a with
  | nil => simp
  | cons y a ih => simp [ih]

theorem get_len {α : Type} (a : List α) (x : α) (b : List α) : (a ++ x :: b)[a.length]? = some x := by
  induction a with
  | nil => simp
  | cons y a ih => simp [ih]

theorem occ_append (H : List Handler) (i : Nat) (a b : List StackItem) :
    occ H i (a ++ b) = occ H i a + occ H i b := by
  simp [occ, List.filter_append]

theorem Rel.split {enc : Enc} {st : List StackItem} {os : List OpenEl} {hs : List EndTagHandlerItem}
    (r : Rel enc st os hs) (p : OpenEl → Bool) (idx : Nat) (hfi : os.findIdx? p = some idx)
    (hun : ∀ o ∈ os.take idx, o.edit = none) :
    ∃ imps target rest impsO targetO restO,
      st = imps ++ target :: rest ∧ os = impsO ++ targetO :: restO ∧ imps.length = idx
        ∧ impsO.length = idx
        ∧ (∀ it ∈ imps, it.data.endTagHandlerIdx = none ∧ it.data.removeContent = false)
        ∧ (∀ o ∈ impsO, o.edit = none)
        ∧ Rel enc (target :: rest) (targetO :: restO) hs := by
  induction r generalizing idx with
  | nil => simp at hfi
  | @consNone mi so rest ro hs r hn hm hi he ih =>
    rw [List.findIdx?_cons] at hfi
    by_cases hp : p so = true
    · simp only [hp, if_true, Option.some.injEq] at hfi
      subst hfi
      exact ⟨[], mi, rest, [], so, ro, rfl, rfl, rfl, rfl, by simp, by simp, Rel.consNone r hn hm hi he⟩
    · simp only [hp, Bool.false_eq_true, if_false] at hfi
      cases hfr : ro.findIdx? p with
      | none => simp [hfr] at hfi
      | some idx' =>
        simp only [hfr, Option.map_some, Option.some.injEq] at hfi
        subst hfi
        have hso : so.edit = none := hun so (by simp)
        obtain ⟨imps, target, rest', impsO, targetO, restO, h1, h2, h3, h4, h5, h6, h7⟩ :=
          ih idx' hfr (fun o ho => hun o (by simp [List.take_succ_cons, ho]))
        rw [hso] at he
        refine ⟨mi :: imps, target, rest', so :: impsO, targetO, restO, by rw [h1]; rfl, by rw [h2]; rfl,
          by simp [h3], by simp [h4], ?_, ?_, h7⟩
        · intro it hit
          rcases List.mem_cons.mp hit with rfl | hit
          · exact ⟨hi, he.1⟩
          · exact h5 it hit
        · intro o ho
          rcases List.mem_cons.mp ho with rfl | ho
          · exact hso
          · exact h6 o ho
  | @consSome mi so rest ro hs hd r hn hm hi he ih =>
    rw [List.findIdx?_cons] at hfi
    by_cases hp : p so = true
    · simp only [hp, if_true, Option.some.injEq] at hfi
      subst hfi
      exact ⟨[], mi, rest, [], so, ro, rfl, rfl, rfl, rfl, by simp, by simp, Rel.consSome r hn hm hi he⟩
    · simp only [hp, Bool.false_eq_true, if_false] at hfi
      cases hfr : ro.findIdx? p with
      | none => simp [hfr] at hfi
      | some idx' =>
        simp only [hfr, Option.map_some, Option.some.injEq] at hfi
        subst hfi
        have hso : so.edit = none := hun so (by simp)
        rw [hso] at he
        exact absurd he.2 (by simp)

theorem VR.snoc_none {n : Nat} {ds : List ElementDescriptor} {Q : List EndTagHandlerItem}
    (hv : VR n ds Q) (d : ElementDescriptor) (hd : d.endTagHandlerIdx = none) : VR n (ds ++ [d]) Q := by
  induction hv with
  | nil n => exact VR.skip hd (VR.nil n)
  | skip hi _ ih => exact VR.skip hi ih
  | keep hi _ ih => exact VR.keep hi ih

theorem VR.snoc_some {n : Nat} {ds : List ElementDescriptor} {Q : List EndTagHandlerItem}
    (hv : VR n ds Q) (d : ElementDescriptor) (h : EndTagHandler) :
    d.endTagHandlerIdx = some (n + Q.length) →
      VR n (ds ++ [d]) (Q ++ [{ handler := h, userCount := 0 }]) := by
  induction hv with
  | nil n => intro hd; exact VR.keep (by simpa using hd) (VR.nil _)
  | skip hi _ ih => intro hd; exact VR.skip hi (ih hd)
  | @keep n d' ds hs h' hi _ ih =>
    intro hd
    refine VR.keep hi (ih ?_)
    rw [hd]; simp only [List.length_cons]; congr 1; omega

/-- What the end tag closes, read off the simulation relation: the implicitly closed elements `imps`
(innermost first), the target, the rest; the handler vector is `Vrest ++ QT ++ Qimps` with the
target's deferred handler (if any) in `QT` and the implicit elements' handlers — all invisible if
those elements have no end-region edits — in `Qimps`. -/
theorem Rel.decompose {enc : Enc} {st : List StackItem} {os : List OpenEl} {hs : List EndTagHandlerItem}
    (r : Rel enc st os hs) (p : OpenEl → Bool) (idx : Nat) (hfi : os.findIdx? p = some idx)
    (hun : ∀ o ∈ os.take idx, elHasEndEdits enc o = false) :
    ∃ imps target rest impsO targetO restO Vrest QT Qimps,
      st = imps ++ target :: rest ∧ os = impsO ++ targetO :: restO ∧ imps.length = idx
        ∧ impsO.length = idx
        ∧ hs = Vrest ++ (QT ++ Qimps)
        ∧ Rel enc rest restO Vrest
        ∧ VR Vrest.length (target.data :: imps.reverse.map StackItem.data) (QT ++ Qimps)
        ∧ (∀ x ∈ Qimps, x.userCount = 0 ∧ Invisible enc x.handler)
        ∧ (∀ o ∈ impsO, elHasEndEdits enc o = false)
        ∧ ((QT = [] ∧ EditRel enc target.data none targetO.edit)
            ∨ (∃ h, QT = [{ handler := h, userCount := 0 }] ∧ EditRel enc target.data (some h) targetO.edit)) := by
  induction r generalizing idx with
  | nil => simp at hfi
  | @consNone mi so rest ro hs r hn hm hi he ih =>
    rw [List.findIdx?_cons] at hfi
    by_cases hp : p so = true
    · simp only [hp, if_true, Option.some.injEq] at hfi
      subst hfi
      exact ⟨[], mi, rest, [], so, ro, hs, [], [], rfl, rfl, rfl, rfl, by simp, r,
        VR.skip hi (VR.nil _), by simp, by simp, Or.inl ⟨rfl, he⟩⟩
    · simp only [hp, Bool.false_eq_true, if_false] at hfi
      cases hfr : ro.findIdx? p with
      | none => simp [hfr] at hfi
      | some idx' =>
        simp only [hfr, Option.map_some, Option.some.injEq] at hfi
        subst hfi
        have hso : elHasEndEdits enc so = false := hun so (by simp)
        obtain ⟨imps, target, rest', impsO, targetO, restO, Vrest, QT, Qimps, h1, h2, h3, h4, h5, h6, h7, h8, h9, h10⟩ :=
          ih idx' hfr (fun o ho => hun o (by simp [List.take_succ_cons, ho]))
        refine ⟨mi :: imps, target, rest', so :: impsO, targetO, restO, Vrest, QT, Qimps,
          by rw [h1]; rfl, by rw [h2]; rfl, by simp [h3], by simp [h4], h5, h6, ?_, h8, ?_, h10⟩
        · have := VR.snoc_none h7 mi.data hi
          simpa [List.reverse_cons, List.map_append] using this
        · intro o ho
          rcases List.mem_cons.mp ho with rfl | ho
          · exact hso
          · exact h9 o ho
  | @consSome mi so rest ro hs hd r hn hm hi he ih =>
    rw [List.findIdx?_cons] at hfi
    by_cases hp : p so = true
    · simp only [hp, if_true, Option.some.injEq] at hfi
      subst hfi
      exact ⟨[], mi, rest, [], so, ro, hs, [{ handler := hd, userCount := 0 }], [], rfl, rfl, rfl, rfl,
        by simp, r, VR.keep hi (VR.nil _), by simp, by simp, Or.inr ⟨hd, rfl, he⟩⟩
    · simp only [hp, Bool.false_eq_true, if_false] at hfi
      cases hfr : ro.findIdx? p with
      | none => simp [hfr] at hfi
      | some idx' =>
        simp only [hfr, Option.map_some, Option.some.injEq] at hfi
        subst hfi
        have hso : elHasEndEdits enc so = false := hun so (by simp)
        obtain ⟨imps, target, rest', impsO, targetO, restO, Vrest, QT, Qimps, h1, h2, h3, h4, h5, h6, h7, h8, h9, h10⟩ :=
          ih idx' hfr (fun o ho => hun o (by simp [List.take_succ_cons, ho]))
        have hinvis : Invisible enc hd := by
          cases hed : so.edit with
          | none => rw [hed] at he; exact absurd he.2 (by simp)
          | some E =>
            rw [hed] at he
            have : hasEndEdits enc E = false := by simpa [elHasEndEdits, hed] using hso
            exact he.2.2 this hd rfl
        refine ⟨mi :: imps, target, rest', so :: impsO, targetO, restO, Vrest, QT,
          Qimps ++ [{ handler := hd, userCount := 0 }],
          by rw [h1]; rfl, by rw [h2]; rfl, by simp [h3], by simp [h4], ?_, h6, ?_, ?_, ?_, h10⟩
        · rw [h5]; simp [List.append_assoc]
        · have := VR.snoc_some h7 mi.data hd (by rw [hi, h5]; simp [List.length_append])
          simpa [List.reverse_cons, List.map_append, List.append_assoc] using this
        · intro x hx
          rcases List.mem_append.mp hx with hx | hx
          · exact h8 x hx
          · simp at hx; subst hx; exact ⟨rfl, hinvis⟩
        · intro o ho
          rcases List.mem_cons.mp ho with rfl | ho
          · exact hso
          · exact h9 o ho

/-! Running several activated handlers on one end tag -/

/-- A tag that still serialises like the fresh tag `{name, raw}`. -/
def InvisTag (enc : Enc) (name raw : Bytes) (t : EndTag) : Prop :=
  t.name = name ∧ t.raw = raw ∧ t.modified = false
    ∧ encodeDyn enc t.mutations.mutate.contentBefore = []
    ∧ encodeDyn enc t.mutations.mutate.contentAfter = []
    ∧ t.mutations.mutate.removed = false ∧ t.mutations.mutate.replacement = []

theorem InvisTag_fresh (enc : Enc) (name raw : Bytes) : InvisTag enc name raw { name := name, raw := raw } :=
  ⟨rfl, rfl, rfl, rfl, rfl, rfl, rfl⟩

theorem foldl_applyOps_nils (t : EndTag) (ls : List (List EndTagOp)) (h : ∀ l ∈ ls, l = []) :
    ls.foldl EndTag.applyOps t = t := by
  induction ls generalizing t with
  | nil => rfl
  | cons l ls ih =>
    rw [List.foldl_cons, h l List.mem_cons_self]
    exact ih _ (fun l' hl' => h l' (List.mem_cons_of_mem _ hl'))

theorem invisible_run {enc : Enc} {name raw : Bytes} {t : EndTag} {h : EndTagHandler}
    (hi : Invisible enc h) (ht : InvisTag enc name raw t) : InvisTag enc name raw (h.run t) := by
  obtain ⟨h1, h2, h3⟩ := hi
  unfold EndTagHandler.run
  rw [h1]
  simp only
  rw [foldl_applyOps_nils _ _ h2]
  cases hm : h.mutations with
  | none => exact ht
  | some m =>
    obtain ⟨a, b, c, d⟩ := h3 m hm
    exact ⟨ht.1, ht.2.1, ht.2.2.1, a, b, c, d⟩

theorem invis_intoBytes {enc : Enc} {name raw : Bytes} {t : EndTag} (ht : InvisTag enc name raw t) :
    t.intoBytes enc = raw := by
  obtain ⟨_, h2, h3, h4, h5, h6, _⟩ := ht
  unfold EndTag.intoBytes
  rw [serialize_mutate]
  simp [Mutations.serialize, h4, h5, h6, EndTag.serializeSelf, h3, h2]

/-- Any deferred handler gives the same bytes on a tag that is still invisible as on the fresh tag. -/
theorem run_on_invis {enc : Enc} {name raw : Bytes} {t : EndTag} (ht : InvisTag enc name raw t)
    (h : EndTagHandler) :
    (h.run t).intoBytes enc = (h.run { name := name, raw := raw }).intoBytes enc := by
  obtain ⟨h1, h2, h3, h4, h5, h6, h7⟩ := ht
  obtain ⟨tn, tr, tm, tmu⟩ := t
  simp only at h1 h2 h3 h4 h5 h6 h7
  subst h1 h2 h3
  unfold EndTagHandler.run
  simp only [foldl_applyOps_flatten]
  unfold EndTag.intoBytes
  rw [endTag_mutations, endTag_serializeSelf', foldl_apply_serialize,
    endTag_mutations, endTag_serializeSelf', foldl_apply_serialize]
  have hdef : ({} : Mutations).mutate = ({} : MutationsInner) := rfl
  cases hn : h.modifiedName <;> cases hm : h.mutations
  · -- no rename, no deferred mutations: the invisible mutations stay
    simp only [EndTag.serializeSelf, Mutations.serialize, innerAfter, encodeDyn_append, h4, h5, h6, h7, hdef,
      List.nil_append, List.append_nil, Bool.false_or]
  · simp only [EndTag.serializeSelf]
  · simp only [EndTag.setNameRaw, EndTag.serializeSelf, Mutations.serialize, innerAfter, encodeDyn_append,
      h4, h5, h6, h7, hdef, List.nil_append, List.append_nil, Bool.false_or]
    rfl
  · simp only [EndTag.setNameRaw, EndTag.serializeSelf]
    rfl

theorem foldl_invisible {enc : Enc} {name raw : Bytes} (hs : List EndTagHandlerItem)
    (hi : ∀ x ∈ hs, Invisible enc x.handler) (t : EndTag) (ht : InvisTag enc name raw t) :
    InvisTag enc name raw (hs.foldl (fun t it => it.handler.run t) t) := by
  induction hs generalizing t with
  | nil => exact ht
  | cons x hs ih =>
    rw [List.foldl_cons]
    exact ih (fun y hy => hi y (List.mem_cons_of_mem _ hy)) _ (invisible_run (hi x List.mem_cons_self) ht)

theorem runEndTagHandlers_active (V A : List EndTagHandlerItem) (hz : ∀ it ∈ V, it.userCount = 0)
    (ha : ∀ it ∈ A, it.userCount > 0) (t : EndTag) :
    runEndTagHandlers (V ++ A) t = (V, A.reverse.foldl (fun t it => it.handler.run t) t) := by
  cases A with
  | nil => simp [runEndTagHandlers_allZero V hz]
  | cons x A =>
    unfold runEndTagHandlers
    have hx : x.userCount > 0 := ha x List.mem_cons_self
    have : (V ++ x :: A).findIdx? (fun it => decide (it.userCount > 0)) = some V.length := by
      rw [List.findIdx?_append, findIdx?_none_of_allZero V hz]
      simp [List.findIdx?_cons, hx]
    rw [this]
    simp only [List.take_left', List.drop_left']
    congr 1
    -- all drained handlers are active
    have hall : ∀ (l : List EndTagHandlerItem), (∀ it ∈ l, it.userCount > 0) → ∀ t : EndTag,
        l.foldl (fun t it => if it.userCount > 0 then it.handler.run t else t) t
          = l.foldl (fun t it => it.handler.run t) t := by
      intro l
      induction l with
      | nil => intro _ t; rfl
      | cons y l ih =>
        intro hl t
        simp only [List.foldl_cons, hl y List.mem_cons_self, if_true]
        exact ih (fun z hz => hl z (List.mem_cons_of_mem _ hz)) _
    exact hall _ (fun it hit => ha it (List.mem_reverse.mp hit)) t

/-- After the pop: the activated handlers `A` are the tail of the vector. -/
theorem emitEndTag_active (enc : Enc) (S : St) (name raw : Bytes) (V A : List EndTagHandlerItem)
    (hvec : S.endTagHandlers = V ++ A) (hz : ∀ it ∈ V, it.userCount = 0)
    (ha : ∀ it ∈ A, it.userCount > 0) (hE : S.emission = true → S.removedCount = 0) :
    emitEndTag enc S name raw
      = ({ S with endTagHandlers := V, emission := S.removedCount == 0 },
         if S.removedCount == 0 then
           (A.reverse.foldl (fun (t : EndTag) (it : EndTagHandlerItem) => it.handler.run t)
              { name := name, raw := raw }).intoBytes enc
         else []) := by
  cases A with
  | nil =>
    have hv : S.endTagHandlers = V := by simpa using hvec
    rw [emitEndTag_none enc S name raw (by rw [hv]; exact hz) hE]
    obtain ⟨st, cn, iv, eh, rc, em, tp, f1, f2⟩ := S
    simp only at hv
    subst hv
    simp [fresh_endTag_intoBytes]
  | cons x A =>
    unfold emitEndTag
    have hany : S.endTagHandlers.any (fun it => decide (it.userCount > 0)) = true := by
      rw [hvec]; simp [ha x List.mem_cons_self]
    simp only [hany, Bool.true_or, if_true]
    cases hem : S.emission
    · cases hrc : (S.removedCount == 0)
      · have hne : ¬ S.removedCount = 0 := by simpa using hrc
        simp [hvec, runEndTagHandlers_active V _ hz ha, hem, hne]
      · have he : S.removedCount = 0 := by simpa using hrc
        simp [hvec, runEndTagHandlers_active V _ hz ha, he]
    · have := hE hem
      simp [this, hvec, runEndTagHandlers_active V _ hz ha, hem]

theorem closeAllImplicit_nil_of_clean (enc : Enc) (s : SpecSt) (els below : List OpenEl)
    (h : els.any (elHasEndEdits enc) = false) : closeAllImplicit enc s els below = [] := by
  induction els generalizing below with
  | nil => rfl
  | cons o os ih =>
    simp only [List.any_cons, Bool.or_eq_false_iff] at h
    simp only [closeAllImplicit, ih _ h.2, List.append_nil, closeImplicit]
    cases hed : o.edit with
    | none => rfl
    | some e =>
      have h1 := h.1
      simp only [elHasEndEdits, hed, hasEndEdits, Bool.or_eq_false_iff, Bool.not_eq_false',
        List.isEmpty_iff] at h1
      simp [Spec.EditDoc.emit, h1.1.1.1.1, h1.1.1.1.2]

theorem closeAllImplicit_untouched (enc : Enc) (s : SpecSt) (els below : List OpenEl)
    (h : ∀ o ∈ els, o.edit = none) : closeAllImplicit enc s els below = [] := by
  induction els generalizing below with
  | nil => rfl
  | cons o os ih =>
    simp only [closeAllImplicit, closeImplicit, h o List.mem_cons_self,
      ih _ (fun o' ho' => h o' (List.mem_cons_of_mem _ ho')), List.append_nil]

theorem countRemoved_untouched (imps tail : List StackItem)
    (h : ∀ it ∈ imps, it.data.removeContent = false) :
    countRemoved (imps ++ tail) = countRemoved tail := by
  induction imps with
  | nil => rfl
  | cons it imps ih =>
    have := ih (fun x hx => h x (List.mem_cons_of_mem _ hx))
    simp only [countRemoved, List.cons_append, List.filter_cons, h it List.mem_cons_self] at this ⊢
    simpa using this

theorem stepEndTag_sim {H : List Handler} {enc : Enc} {ms : St} {ss : SpecSt} (h : Sim H enc ms ss)
    (name raw : Bytes)
    (hunt : ∀ idx, ss.openEls.findIdx? (fun o => o.lname == asciiLowerBytes name) = some idx →
      ∀ o ∈ ss.openEls.take idx, elHasEndEdits enc o = false) :
    Sim H enc (EditModel.step H enc ms (.endTag name raw)).1 (Spec.EditDoc.step H enc ss (.endTag name raw)).1
      ∧ (EditModel.step H enc ms (.endTag name raw)).2 = (Spec.EditDoc.step H enc ss (.endTag name raw)).2 := by
  have hrinvFinal := (stepEndTag_spec H enc ms name raw h.rinv).1
  simp only [EditModel.step, Spec.EditDoc.step] at hrinvFinal ⊢
  unfold stepEndTag at hrinvFinal ⊢
  simp only at hrinvFinal ⊢
  obtain ⟨hf, hfo, _, hopen⟩ := flush_sim h
  rw [← hopen] at hunt
  generalize flushPendingText H enc ms = fm at hf hfo hrinvFinal
  generalize flushText H enc ss = fs at hf hfo hunt
  obtain ⟨ms1, o1⟩ := fm
  obtain ⟨ss1, o2⟩ := fs
  simp only at hf hfo hunt hrinvFinal ⊢
  subst hfo
  unfold popForEndTag popUpTo at hrinvFinal ⊢
  rw [hf.rel.findIdx] at hrinvFinal ⊢
  have hall := hf.rel.allZero
  have hemrc : ms1.emission = (ms1.removedCount == 0) := hf.rinv.emission
  cases hfi : ss1.openEls.findIdx? (fun o => o.lname == asciiLowerBytes name) with
  | none =>
    -- stray end tag
    simp only [hfi] at hrinvFinal ⊢
    rw [emitEndTag_none enc ms1 name raw hall (fun he => hf.removedCount_zero he)]
    refine ⟨⟨hf.inv, hf.tp, hf.rel, hf.cinv, ⟨hf.rinv.count, rfl, hf.rinv.noUnderflow⟩, hf.nofault, hf.nodup⟩, ?_⟩
    congr 1
    rw [← hemrc]
    exact hf.emit raw
  | some idx =>
    simp only [hfi] at hrinvFinal ⊢
    obtain ⟨stack, counts, inv, eh, rc, em, tp, f1, f2⟩ := ms1
    obtain ⟨os, sinv, stp⟩ := ss1
    have hrel := hf.rel
    have hcinv := hf.cinv
    have hcount := hf.rinv.count
    have hinv := hf.inv
    have htp := hf.tp
    have hnd := hf.nodup
    have hnf := hf.nofault
    have hnu := hf.rinv.noUnderflow
    simp only at hrel hcinv hcount hinv htp hnd hnf hnu hemrc hall hfi hrinvFinal hunt ⊢
    obtain ⟨imps, target, rest, impsO, targetO, restO, Vrest, QT, Qimps, hst, hos, hl1, hl2, hvec, hrelR, hVR,
        hQimps, himpsO, hT⟩ := hrel.decompose _ idx hfi (hunt idx hfi)
    subst hst hos
    have htake : List.take (idx + 1) (imps ++ target :: rest) = imps ++ [target] := by
      rw [← hl1]; exact take_len_succ _ _ _
    have hdrop : List.drop (idx + 1) (imps ++ target :: rest) = rest := by
      rw [← hl1]; exact drop_len_succ _ _ _
    have htakeO : List.take idx (impsO ++ targetO :: restO) = impsO := by
      rw [← hl2]; exact take_len _ _
    have hdropO : List.drop (idx + 1) (impsO ++ targetO :: restO) = restO := by
      rw [← hl2]; exact drop_len_succ _ _ _
    have hgetO : (impsO ++ targetO :: restO)[idx]? = some targetO := by
      rw [← hl2]; exact get_len _ _ _
    have hclose : closeAllImplicit enc { openEls := impsO ++ targetO :: restO, inv := sinv, textPending := stp }
        impsO (targetO :: restO) = [] :=
      closeAllImplicit_nil_of_clean enc _ impsO _ (by
        rw [List.any_eq_false]; intro o ho; simp [himpsO o ho])
    simp only [htake, hdrop, htakeO, hdropO, hgetO, List.reverse_append, List.reverse_cons, List.reverse_nil,
      List.nil_append, List.singleton_append, List.map_cons, hclose, List.append_nil] at hrinvFinal ⊢
    -- the popped descriptors, outermost first
    have hnds : ∀ d ∈ target.data :: imps.reverse.map StackItem.data, d.matched.Nodup := by
      intro d hd
      rcases List.mem_cons.mp hd with rfl | hd
      · exact hnd target (by simp)
      · obtain ⟨it, hit, rfl⟩ := List.mem_map.mp hd
        exact hnd it (by simp [List.mem_reverse.mp hit])
    have hsumds : ∀ i, sumInd H (target.data :: imps.reverse.map StackItem.data) i
        = sumInd H (imps.map StackItem.data) i
          + (if isContentHandler H i && target.data.matched.contains i then 1 else 0) := by
      intro i; rw [sumInd_cons, List.map_reverse, sumInd_reverse]; omega
    have hcinv' : ∀ i, counts i = base H i
        + (sumInd H (imps.map StackItem.data) i
          + ((if isContentHandler H i && target.data.matched.contains i then 1 else 0) + occ H i rest)) := by
      intro i; rw [hcinv i, occ_append, occ_cons, occ_eq_sumInd]
    have hc : ∀ i, sumInd H (target.data :: imps.reverse.map StackItem.data) i ≤ counts i := by
      intro i; rw [hsumds i, hcinv' i]; omega
    have hremds : countRemovedD (target.data :: imps.reverse.map StackItem.data)
        = countRemoved imps + (if target.data.removeContent then 1 else 0) := by
      rw [countRemovedD_cons, countRemovedD_reverse_map]; omega
    have hcountT : rc = countRemoved imps + ((if target.data.removeContent then 1 else 0) + countRemoved rest) := by
      rw [hcount, countRemoved_append]
      congr 1
      cases hr : target.data.removeContent <;> simp [countRemoved, hr] <;> omega
    have hr : countRemovedD (target.data :: imps.reverse.map StackItem.data) ≤ rc := by
      rw [hremds, hcountT]; omega
    rw [foldl_stopMatching_VR H _ (QT ++ Qimps) Vrest.length hVR _ Vrest rfl hvec hnds hc hr] at hrinvFinal ⊢
    have hrc' : rc - countRemovedD (target.data :: imps.reverse.map StackItem.data) = countRemoved rest := by
      rw [hremds, hcountT]; omega
    have hE : em = true → rc - countRemovedD (target.data :: imps.reverse.map StackItem.data) = 0 := by
      intro he'; have : rc = 0 := by rw [hemrc] at he'; simpa using he'
      omega
    have hact : ∀ it ∈ (QT ++ Qimps).map activate, it.userCount > 0 := by
      intro it hit
      obtain ⟨x, _, rfl⟩ := List.mem_map.mp hit
      simp [activate]
    rw [emitEndTag_active enc _ name raw Vrest _ rfl hrelR.allZero hact hE] at hrinvFinal ⊢
    have hsup : suppressed { openEls := restO, inv := sinv, textPending := stp } = !(countRemoved rest == 0) := by
      rw [countRemoved_pos_iff_any, suppressed, hrelR.suppressed]; simp
    have hemit : ∀ b : Bytes, Spec.EditDoc.emit { openEls := restO, inv := sinv, textPending := stp } b
        = if (countRemoved rest == 0) = true then b else [] := by
      intro b; rw [Spec.EditDoc.emit, hsup]; cases (countRemoved rest == 0) <;> rfl
    refine ⟨⟨hinv, htp, hrelR, ?_, hrinvFinal, hnf, fun it hit => hnd it (by simp [hit])⟩, ?_⟩
    · intro i
      show counts i - _ = base H i + occ H i rest
      rw [hsumds i, hcinv' i]; omega
    · simp only
      congr 1
      rw [hrc']
      -- the tag after the implicit elements' invisible handlers
      have hinvT : InvisTag enc name raw
          ((Qimps.map activate).reverse.foldl (fun (t : EndTag) (it : EndTagHandlerItem) => it.handler.run t)
            { name := name, raw := raw }) := by
        apply foldl_invisible _ _ _ (InvisTag_fresh enc name raw)
        intro x hx
        obtain ⟨y, hy, rfl⟩ := List.mem_map.mp (List.mem_reverse.mp hx)
        exact (hQimps y hy).2
      rw [List.map_append, List.reverse_append, List.foldl_append]
      rcases hT with ⟨hQT, he⟩ | ⟨hd, hQT, he⟩
      · subst hQT
        simp only [List.map_nil, List.reverse_nil, List.foldl_nil]
        rw [invis_intoBytes hinvT]
        cases hed : targetO.edit with
        | none => simp only; rw [hemit]
        | some E =>
          simp only
          rw [hed] at he
          have := he.2.1 name raw
          simp only at this
          rw [fresh_endTag_intoBytes] at this
          rw [← this, hemit]
      · subst hQT
        simp only [List.map_cons, List.map_nil, List.reverse_cons, List.reverse_nil, List.nil_append,
          List.foldl_cons, List.foldl_nil, activate]
        rw [run_on_invis hinvT]
        cases hed : targetO.edit with
        | none => rw [hed] at he; exact absurd he.2 (by simp)
        | some E =>
          simp only
          rw [hed] at he
          have := he.2.1 name raw
          simp only at this
          rw [← this, hemit]

/-! ### H. Whole runs -/

theorem step_sim {H : List Handler} {enc : Enc} {ms : St} {ss : SpecSt} (h : Sim H enc ms ss)
    (tok : SrcToken) (hn : (!implicitHere enc ss tok) = true) :
    Sim H enc (EditModel.step H enc ms tok).1 (Spec.EditDoc.step H enc ss tok).1
      ∧ (EditModel.step H enc ms tok).2 = (Spec.EditDoc.step H enc ss tok).2 := by
  cases tok with
  | text raw => exact step_text_sim h raw
  | comment t raw => exact step_comment_sim h t raw
  | doctype raw => exact step_doctype_sim h raw
  | startTag n a sc ns raw => exact stepStartTag_sim h n a sc ns raw
  | endTag n raw =>
    apply stepEndTag_sim h n raw
    intro idx hidx o ho
    simp only [implicitHere, hidx, Bool.not_eq_true', List.any_eq_false] at hn
    simpa using hn o ho

theorem steps_sim {H : List Handler} {enc : Enc} (toks : List SrcToken) {ms : St} {ss : SpecSt}
    (h : Sim H enc ms ss) (hn : cleanRun H enc ss toks = true) :
    Sim H enc (EditModel.steps H enc ms toks).1 (Spec.EditDoc.steps H enc ss toks).1
      ∧ (EditModel.steps H enc ms toks).2.flatten = (Spec.EditDoc.steps H enc ss toks).2
      ∧ (Spec.EditDoc.steps H enc ss toks).1.openEls.any (elHasEndEdits enc) = false := by
  induction toks generalizing ms ss with
  | nil =>
    simp only [cleanRun, Bool.not_eq_true'] at hn
    exact ⟨h, rfl, hn⟩
  | cons t ts ih =>
    simp only [cleanRun, Bool.and_eq_true] at hn
    have h1 := step_sim h t hn.1
    have h2 := ih h1.1 hn.2
    simp only [EditModel.steps, Spec.EditDoc.steps, List.flatten_cons]
    exact ⟨h2.1, by rw [h1.2, h2.2.1], h2.2.2⟩

theorem Sim_init (H : List Handler) (enc : Enc) : Sim H enc (St.init H) {} :=
  ⟨rfl, rfl, Rel.nil, fun i => by simp [base, occ, St.init], RInv_init H, rfl,
   fun it hit => by simp [St.init] at hit⟩

/-- **Refinement**: on well-nested runs the dispatcher model produces the documented edit. -/
theorem rewrite_refines (H : List Handler) (enc : Enc) (toks : List SrcToken)
    (hn : cleanRun H enc {} toks = true) :
    (EditModel.rewrite H enc toks).2 = Spec.EditDoc.rewrite H enc toks
      ∧ (EditModel.rewrite H enc toks).1.fault = false ∧ (EditModel.rewrite H enc toks).1.faultRemoved = false := by
  obtain ⟨hs, ho, hclean⟩ := steps_sim toks (Sim_init H enc) hn
  obtain ⟨hf, hfo, _, hopen⟩ := flush_sim hs
  unfold EditModel.rewrite Spec.EditDoc.rewrite EditModel.finish
  simp only
  rw [ho, hfo, hf.inv, closeAllImplicit_nil_of_clean enc _ _ [] (by rw [hopen]; exact hclean)]
  refine ⟨by simp [List.append_assoc], hf.nofault, hf.rinv.noUnderflow⟩

end LolHtml.Lemmas.EditRefine
