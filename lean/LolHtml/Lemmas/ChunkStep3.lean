import LolHtml.Lemmas.ChunkStep2
/-!
Sequence arms and `dispatch` in the two runs.
-/
namespace LolHtml.Model.Chunk
open LolHtml LolHtml.Model

variable {κ : Type}

/-- what `breakOut_of_split` needs to know about the whole machine `mw0` before the step -/
structure BrkParams (inpW : Bytes) (sd : StateDef) (δ : Nat) (ms mw mw0 : M κ) (npw0 : Nat) : Prop where
  np : npw0 ≤ ms.c.nextPos - 1 + δ
  skip : 0 < ms.c.nextPos - 1 + δ - npw0 →
    ∃ nd, sd.memchr = some nd ∧ SkipOk nd inpW npw0 (ms.c.nextPos - 1 + δ - npw0)
  c0 : mw0.c = { mw.c with nextPos := npw0 }
  x0 : mw0.x = mw.x
  r0 : (leaveSeq mw0).r = (leaveSeq mw).r
  q0 : hasSeq sd = false → chSeqOf mw0.r = none

theorem BrkParams.congr {inpW : Bytes} {sd : StateDef} {δ : Nat} {ms mw mw0 ms' mw' : M κ} {npw0 : Nat}
    (h : BrkParams inpW sd δ ms mw mw0 npw0) (h1 : ms'.c = ms.c) (h2 : mw'.c = mw.c) (h3 : mw'.x = mw.x)
    (h4 : (leaveSeq mw').r = (leaveSeq mw).r) : BrkParams inpW sd δ ms' mw' mw0 npw0 :=
  ⟨by rw [h1]; exact h.np, by rw [h1]; exact h.skip, by rw [h2]; exact h.c0, by rw [h3]; exact h.x0, by rw [h4]; exact h.r0, h.q0⟩

section
variable {env : Env κ} {inpS inpW : Bytes} {δ : Nat} {K : Nat → κ → κ → Prop} {Loc : κ → Nat → Nat → TextType → Prop}

/-- a common break as a step outcome -/
theorem lock_of_break_both (F : Frame inpS inpW δ) (hcl : Closed inpS inpW δ) {fs : FlagMap} {st : StateId} {sd : StateDef}
    {d : Nat} {ab : Ab} {sm : SeqMode} {ms mw : M κ} (cx : StepCtx env.tbl fs st sd ms.c)
    (h : MRel δ d 0 ab sm ms mw) (hP : ab.P = true)
    (hfl : ms.c.isLast = false → (fs st).2.le ab.boundary = true ∧ (ab.Sn = true → ab.St = true))
    (hsm : sm = .none ∨ (sm = .inSeq ∧ hasSeq sd = true))
    (hdebt : 0 < d → hasEoc sd = true) (hK : K d ms.x.sink mw.x.sink) (hd0 : d = 0)
    (hloc : 0 < d → Loc ms.x.sink ms.x.prevConsumed (lexStart ms.r) ms.c.lastTextType) :
    LockOut env.tbl fs inpW δ K Loc true (breakOnEndOfInput inpS ms) (breakOnEndOfInput inpW mw) := by
  have hsm' : sm ≠ .stale := by
    rcases hsm with h | ⟨h, _⟩ <;> rw [h] <;> intro hh <;> cases hh
  rcases break_both F hcl h hP (fun hl => (hfl hl).2) hsm' hK with hp | ⟨c, c', h1, h2, h3, h4, h5, h6, h7, h8, h9⟩
  · exact Or.inl hp
  · right
    rw [h1, h2]
    have hil := breakOnEndOfInput_isLast inpS ms
    have hlocOut : 0 < d → Loc (breakOnEndOfInput inpS ms).1.x.sink (breakOnEndOfInput inpS ms).1.x.prevConsumed c
        (breakOnEndOfInput inpS ms).1.c.lastTextType := by
      intro hd
      cases hlast : ms.c.isLast with
      | true => omega
      | false =>
        obtain ⟨bf1, _, bf3⟩ := break_facts inpS ms hlast h1
        rw [h5, bf1, bf3, consumed_lexStart h hd]
        exact hloc hd
    refine ⟨rfl, d, h3, h4, by rw [h5, h6]; exact h.sim, by rw [h5, h6]; exact h.pc, fun hl => ?_,
      hd0, hlocOut, fun hl => (break_facts inpS ms (by rw [← hil]; exact hl) h1).2.1⟩
    have hl' : ms.c.isLast = false := by
      have := breakOnEndOfInput_isLast inpS ms
      rw [← this]; exact hl
    have hbr := h9 hl'
    refine ⟨_, by
      rw [cx.flagsOf h7 h8]
      exact ⟨hbr.c, hbr.r.weaken (hfl hl').1, hbr.sim⟩, ?_⟩
    intro sd' hlook
    rw [h7, cx.st_eq, cx.look] at hlook
    cases hlook
    refine ⟨?_, hdebt, fun hpos => absurd hpos (Nat.lt_irrefl 0)⟩
    rcases hsm with h' | ⟨h', hs⟩
    · left; rw [h']; rfl
    · right; rw [h']; exact ⟨by simp, hs, by rw [h8]; exact cx.ent⟩

/-- the arm patterns that are not sequences are skipped by `runSeqArms` -/
theorem armOk_seq {tbl : Table} {fs : FlagMap} {st : StateId} {ab : Ab} {arm : Arm} {bs : List UInt8} {ic : Bool}
    (hp : arm.pat = .chSeq bs ic) (h : armOk tbl fs st ab arm = true) : bodyOk tbl fs st ab true arm.body = true := by
  unfold armOk at h
  rw [hp] at h
  exact h

/-- **Sequence arms**, the two runs reading the same consumed byte. -/
theorem runSeqArms_lock (F : Frame inpS inpW δ) (hops : OpsSim env.ops inpS inpW δ K Loc) {fs : FlagMap} {st : StateId}
    {sd : StateDef} (ch : Option UInt8) (eoi : Bool) :
    ∀ (arms : List Arm), (∀ a ∈ arms, a ∈ sd.arms) → ∀ {sm : SeqMode} {ms mw mw0 : M κ} {npw0 : Nat},
    StepCtx env.tbl fs st sd ms.c → MRel δ 0 0 (fs st).2.inStep sm ms mw → K 0 ms.x.sink mw.x.sink →
    (sm = .none ∨ (sm = .stale ∧ (arms.any fun a => isSeqPat a.pat) = true)) →
    (ch.isSome = true → ms.c.nextPos ≤ inpS.length) → (ms.c.isLast = true → Closed inpS inpW δ) →
    (eoi = false → ms.c.isLast = false) →
    BrkParams inpW sd δ ms mw mw0 npw0 →
    match runSeqArms env inpS ch arms ms with
    | .inr ms2 => ∃ mw2, runSeqArms env inpW ch arms mw = .inr mw2 ∧ MRel δ 0 0 (fs st).2.inStep .none ms2 mw2 ∧
        ms2.c = ms.c ∧ ms2.x = ms.x ∧ mw2.c = mw.c ∧ mw2.x = mw.x ∧ (leaveSeq mw2).r = (leaveSeq mw).r
    | .inl rs => (∃ rw, runSeqArms env inpW ch arms mw = .inl rw ∧ LockOut env.tbl fs inpW δ K Loc eoi rs rw) ∨
        ((eoi = true → ¬ Closed inpS inpW δ) ∧ BreakOut env.tbl fs env.ops Loc inpS inpW δ 0 ms.x mw0 rs) := by
  intro arms
  induction arms with
  | nil =>
    intro _ sm ms mw mw0 npw0 cx hrel hK hsm _ _ _ _
    rcases hsm with hsm | ⟨_, hh⟩
    · subst hsm
      exact ⟨mw, rfl, hrel, rfl, rfl, rfl, rfl, rfl⟩
    · simp at hh
  | cons arm rest ih =>
    intro hsub sm ms mw mw0 npw0 cx hrel hK hsm hchin hil heoi hbp
    have hsubr : ∀ a ∈ rest, a ∈ sd.arms := fun a ha => hsub a (List.mem_cons_of_mem _ ha)
    cases hseq : isSeqPat arm.pat with
    | false =>
      rw [runSeqArms_skip inpS ch arm rest ms hseq, runSeqArms_skip inpW ch arm rest mw hseq]
      refine ih hsubr cx hrel hK ?_ hchin hil heoi hbp
      rcases hsm with h | ⟨h1, h2⟩
      · exact Or.inl h
      · simp only [List.any_cons, hseq, Bool.false_or] at h2
        exact Or.inr ⟨h1, h2⟩
    | true =>
      have hP : (fs st).2.inStep.P = true := rfl
      obtain ⟨he, hcs, hxs, hcw, hxw⟩ := enterSeq_sim hrel hP
      obtain ⟨hlv, hlcs, hlxs, hlcw, hlxw⟩ := leaveSeq_sim he
      have hrecur : ∀ (_ : True),
          match runSeqArms env inpS ch rest (leaveSeq (enterSeq ms)) with
          | .inr ms2 => ∃ mw2, runSeqArms env inpW ch rest (leaveSeq (enterSeq mw)) = .inr mw2 ∧
              MRel δ 0 0 (fs st).2.inStep .none ms2 mw2 ∧
              ms2.c = ms.c ∧ ms2.x = ms.x ∧ mw2.c = mw.c ∧ mw2.x = mw.x ∧ (leaveSeq mw2).r = (leaveSeq mw).r
          | .inl rs => (∃ rw, runSeqArms env inpW ch rest (leaveSeq (enterSeq mw)) = .inl rw ∧ LockOut env.tbl fs inpW δ K Loc eoi rs rw) ∨
              ((eoi = true → ¬ Closed inpS inpW δ) ∧ BreakOut env.tbl fs env.ops Loc inpS inpW δ 0 ms.x mw0 rs) := by
        intro _
        have hcs' : (leaveSeq (enterSeq ms)).c = ms.c := hlcs.trans hcs
        have hxs' : (leaveSeq (enterSeq ms)).x = ms.x := hlxs.trans hxs
        have hcw' : (leaveSeq (enterSeq mw)).c = mw.c := hlcw.trans hcw
        have hxw' : (leaveSeq (enterSeq mw)).x = mw.x := hlxw.trans hxw
        have hrw' : (leaveSeq (leaveSeq (enterSeq mw))).r = (leaveSeq mw).r := by
          rw [leaveSeq_idem, leaveSeq_enterSeq_r]
        have := ih hsubr (sm := .none) (ms := leaveSeq (enterSeq ms)) (mw := leaveSeq (enterSeq mw)) (mw0 := mw0) (npw0 := npw0)
          (by rw [hcs']; exact cx) hlv (by rw [hxs', hxw']; exact hK) (Or.inl rfl) (by rw [hcs']; exact hchin)
          (by rw [hcs']; exact hil) (by rw [hcs']; exact heoi) (hbp.congr hcs' hcw' hxw' hrw')
        revert this
        cases runSeqArms env inpS ch rest (leaveSeq (enterSeq ms)) with
        | inr ms2 =>
          rintro ⟨mw2, e1, e2, e3, e4, e5, e6, e7⟩
          exact ⟨mw2, e1, e2, e3.trans hcs', e4.trans hxs', e5.trans hcw', e6.trans hxw', e7.trans hrw'⟩
        | inl rs =>
          intro h
          rw [hxs'] at h
          exact h
      -- the pattern is a sequence
      cases hpat : arm.pat with
      | chSeq bytes ic =>
        cases bytes with
        | nil =>
          rw [runSeqArms_seq_nil inpS ch arm rest ms ic hpat, runSeqArms_seq_nil inpW ch arm rest mw ic hpat]
          exact hrecur trivial
        | cons e0 es =>
          rw [runSeqArms_seq inpS ch arm rest ms e0 es ic hpat, runSeqArms_seq inpW ch arm rest mw e0 es ic hpat]
          have hnpw : (enterSeq mw).c.nextPos = (enterSeq ms).c.nextPos + δ := by
            have := he.c.nextPos; omega
          have hfw : firstOf inpW ch e0 es ic (enterSeq mw).c.isLast (enterSeq mw).c.nextPos
              = firstOf inpW ch e0 es ic (enterSeq ms).c.isLast ((enterSeq ms).c.nextPos + δ) := by
            rw [hnpw, he.c.isLast]
          rw [hfw]
          have hfirst := first_sim F ch e0 es ic (enterSeq ms).c.isLast (enterSeq ms).c.nextPos
            (by rw [hcs]; exact hchin) (by rw [hcs]; exact hil)
          have hinSeq : hasSeq sd = true := by
            unfold hasSeq
            rw [List.any_eq_true]
            exact ⟨arm, hsub arm List.mem_cons_self, hseq⟩
          -- the split run needs more input
          have hbreak : ms.c.isLast = false →
              BreakOut env.tbl fs env.ops Loc inpS inpW δ 0 ms.x mw0 (breakOnEndOfInput inpS (enterSeq ms)) := by
            intro hl
            have hbp' := hbp.congr (ms' := enterSeq ms) (mw' := enterSeq mw) hcs hcw hxw (by rw [leaveSeq_enterSeq_r])
            exact breakOut_of_split (by rw [hcs]; exact cx) he (by rw [hcs]; exact hl) (Or.inr ⟨rfl, hinSeq⟩)
              (fun h => absurd h (Nat.lt_irrefl 0)) npw0 hbp'.np hbp'.skip hbp'.c0 hbp'.x0 hbp'.r0 hbp'.q0 ms.x
              (by rw [hxs]) (by rw [hxs]) (Or.inl ⟨rfl, by rw [hxs], fun h => absurd h (Nat.lt_irrefl 0)⟩)
          rcases hfirst with ⟨hsame, hbound⟩ | ⟨hneed, hncl, hnl⟩
          · rw [hsame]
            cases hf : firstOf inpS ch e0 es ic (enterSeq ms).c.isLast (enterSeq ms).c.nextPos with
            | mismatch => exact hrecur trivial
            | needMore =>
              simp only
              by_cases hcl : eoi = true ∧ Closed inpS inpW δ
              · left
                obtain ⟨he1, he2⟩ := hcl
                subst he1
                exact ⟨_, rfl, lock_of_break_both F he2 (by rw [hcs]; exact cx) he rfl
                  (fun _ => ⟨by rw [Ab.inStep_boundary cx.ok.p2]; rw [Ab.le_iff]; simp, fun g => cx.ok.sn2 g⟩)
                  (Or.inr ⟨rfl, hinSeq⟩)
                  (fun h => absurd h (Nat.lt_irrefl 0)) (by rw [hxs, hxw]; exact hK) rfl
                  (fun h => absurd h (Nat.lt_irrefl 0))⟩
              · right
                have hl : ms.c.isLast = false := by
                  cases hh : ms.c.isLast with
                  | false => rfl
                  | true =>
                    cases he1 : eoi with
                    | false => rw [heoi he1] at hh; cases hh
                    | true => exact absurd ⟨he1, hil hh⟩ hcl
                exact ⟨fun he1 hc => hcl ⟨he1, hc⟩, hbreak hl⟩
            | matched =>
              simp only
              left
              refine ⟨_, rfl, ?_⟩
              have hb := hbound hf
              have hadv := advLeave_sim he es.length
              have hok := armOk_seq hpat (cx.ok.arms arm (hsub arm List.mem_cons_self))
              have hcadv : (leaveSeq { enterSeq ms with c := { (enterSeq ms).c with nextPos := (enterSeq ms).c.nextPos + es.length } }).c
                  = { (enterSeq ms).c with nextPos := (enterSeq ms).c.nextPos + es.length } := leaveSeq_c _
              have hxadv : (leaveSeq { enterSeq ms with c := { (enterSeq ms).c with nextPos := (enterSeq ms).c.nextPos + es.length } }).x
                  = ms.x := (leaveSeq_x _).trans hxs
              have hxadvw : (leaveSeq { enterSeq mw with c := { (enterSeq mw).c with nextPos := (enterSeq mw).c.nextPos + es.length } }).x
                  = mw.x := (leaveSeq_x _).trans hxw
              have hcx2 : StepCtx env.tbl fs st sd
                  (leaveSeq { enterSeq ms with c := { (enterSeq ms).c with nextPos := (enterSeq ms).c.nextPos + es.length } }).c := by
                rw [hcadv]
                exact ⟨cx.look, cx.ok, cx.wf, by show (enterSeq ms).c.state = st; rw [hcs]; exact cx.st_eq,
                  by show _ ∨ (enterSeq ms).c.entered = true; rw [hcs]; exact cx.ent⟩
              have hbody := runBody_sim F hops fs st true arm.body hok hadv (by rw [hxadv, hxadvw]; exact hK)
                (fun hh => absurd hh (Nat.lt_irrefl 0)) (Or.inl rfl)
                (by
                  intro s _ cl _ _
                  left
                  rw [hcadv]
                  exact hb)
              exact body_to_lock hcx2 hbody
          · rw [hneed]
            simp only
            right
            have hl : ms.c.isLast = false := by rw [← hcs]; exact hnl
            exact ⟨fun _ => hncl, hbreak hl⟩
      | byte b => rw [hpat] at hseq; cases hseq
      | alpha => rw [hpat] at hseq; cases hseq
      | whitespace => rw [hpat] at hseq; cases hseq
      | closingQuote => rw [hpat] at hseq; cases hseq
      | eoc => rw [hpat] at hseq; cases hseq
      | eof => rw [hpat] at hseq; cases hseq
      | any => rw [hpat] at hseq; cases hseq

/-- **Sequence arms when the split input has ended** (and the whole input has not): the first
sequence arm breaks. -/
theorem runSeqArms_end {fs : FlagMap} {st : StateId} {sd : StateDef} :
    ∀ (arms : List Arm), (∀ a ∈ arms, a ∈ sd.arms) → ∀ {d : Nat} {sm : SeqMode} {ms mw mw0 : M κ} {npw0 : Nat},
    StepCtx env.tbl fs st sd ms.c → MRel δ d 0 (fs st).2.inStep sm ms mw →
    (sm = .none ∨ (sm = .stale ∧ (arms.any fun a => isSeqPat a.pat) = true)) →
    ms.c.isLast = false → (0 < d → hasEoc sd = true) →
    BrkParams inpW sd δ ms mw mw0 npw0 →
    match runSeqArms env inpS none arms ms with
    | .inr ms2 => ∃ mw2, MRel δ d 0 (fs st).2.inStep .none ms2 mw2 ∧
        ms2.c = ms.c ∧ ms2.x = ms.x ∧ mw2.c = mw.c ∧ mw2.x = mw.x ∧ (leaveSeq mw2).r = (leaveSeq mw).r
    | .inl rs => BreakOut env.tbl fs env.ops Loc inpS inpW δ d ms.x mw0 rs := by
  intro arms
  induction arms with
  | nil =>
    intro _ d sm ms mw mw0 npw0 cx hrel hsm _ _ _
    rcases hsm with hsm | ⟨_, hh⟩
    · subst hsm
      exact ⟨mw, hrel, rfl, rfl, rfl, rfl, rfl⟩
    · simp at hh
  | cons arm rest ih =>
    intro hsub d sm ms mw mw0 npw0 cx hrel hsm hl hdebt hbp
    have hsubr : ∀ a ∈ rest, a ∈ sd.arms := fun a ha => hsub a (List.mem_cons_of_mem _ ha)
    cases hseq : isSeqPat arm.pat with
    | false =>
      rw [runSeqArms_skip inpS none arm rest ms hseq]
      refine ih hsubr cx hrel ?_ hl hdebt hbp
      rcases hsm with h | ⟨h1, h2⟩
      · exact Or.inl h
      · simp only [List.any_cons, hseq, Bool.false_or] at h2
        exact Or.inr ⟨h1, h2⟩
    | true =>
      have hP : (fs st).2.inStep.P = true := rfl
      obtain ⟨he, hcs, hxs, hcw, hxw⟩ := enterSeq_sim hrel hP
      obtain ⟨hlv, hlcs, hlxs, hlcw, hlxw⟩ := leaveSeq_sim he
      have hinSeq : hasSeq sd = true := by
        unfold hasSeq
        rw [List.any_eq_true]
        exact ⟨arm, hsub arm List.mem_cons_self, hseq⟩
      cases hpat : arm.pat with
      | chSeq bytes ic =>
        cases bytes with
        | nil =>
          rw [runSeqArms_seq_nil inpS none arm rest ms ic hpat]
          have hcs' : (leaveSeq (enterSeq ms)).c = ms.c := hlcs.trans hcs
          have hxs' : (leaveSeq (enterSeq ms)).x = ms.x := hlxs.trans hxs
          have hcw' : (leaveSeq (enterSeq mw)).c = mw.c := hlcw.trans hcw
          have hxw' : (leaveSeq (enterSeq mw)).x = mw.x := hlxw.trans hxw
          have hrw' : (leaveSeq (leaveSeq (enterSeq mw))).r = (leaveSeq mw).r := by
            rw [leaveSeq_idem, leaveSeq_enterSeq_r]
          have := ih hsubr (sm := .none) (ms := leaveSeq (enterSeq ms)) (mw := leaveSeq (enterSeq mw)) (mw0 := mw0) (npw0 := npw0)
            (by rw [hcs']; exact cx) hlv (Or.inl rfl) (by rw [hcs']; exact hl) hdebt (hbp.congr hcs' hcw' hxw' hrw')
          revert this
          cases runSeqArms env inpS none rest (leaveSeq (enterSeq ms)) with
          | inr ms2 =>
            rintro ⟨mw2, e2, e3, e4, e5, e6, e7⟩
            exact ⟨mw2, e2, e3.trans hcs', e4.trans hxs', e5.trans hcw', e6.trans hxw', e7.trans hrw'⟩
          | inl rs =>
            intro h
            rw [hxs'] at h
            exact h
        | cons e0 es =>
          rw [runSeqArms_seq inpS none arm rest ms e0 es ic hpat]
          have hf : firstOf inpS none e0 es ic (enterSeq ms).c.isLast (enterSeq ms).c.nextPos = .needMore := by
            unfold firstOf
            rw [hcs, hl]; rfl
          rw [hf]
          simp only
          have hbp' := hbp.congr (ms' := enterSeq ms) (mw' := enterSeq mw) hcs hcw hxw (by rw [leaveSeq_enterSeq_r])
          exact breakOut_of_split (by rw [hcs]; exact cx) he (by rw [hcs]; exact hl) (Or.inr ⟨rfl, hinSeq⟩)
            hdebt npw0 hbp'.np hbp'.skip hbp'.c0 hbp'.x0 hbp'.r0 hbp'.q0 ms.x
            (by rw [hxs]) (by rw [hxs]) (Or.inl ⟨rfl, by rw [hxs], fun hd => by
              have := (cx.ok.debt (hdebt hd)).2.2.2.1
              rw [hinSeq] at this; cases this⟩)
      | byte b => rw [hpat] at hseq; cases hseq
      | alpha => rw [hpat] at hseq; cases hseq
      | whitespace => rw [hpat] at hseq; cases hseq
      | closingQuote => rw [hpat] at hseq; cases hseq
      | eoc => rw [hpat] at hseq; cases hseq
      | eof => rw [hpat] at hseq; cases hseq
      | any => rw [hpat] at hseq; cases hseq

end
end LolHtml.Model.Chunk
