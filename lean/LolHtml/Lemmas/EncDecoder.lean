/-
Lemmas about `Model.TextDecoder`: progress / termination of the `feed_text` loop and its soundness
with respect to the unbounded decoder.
-/
import LolHtml.Lemmas.EncCodec
import LolHtml.Spec.Enc

namespace LolHtml.Enc

/-! ### range / flag predicates -/

theorem rangesOrdered_mono {lo lo' : Nat} {cs : List Chunk} {hi hi' : Nat}
    (h : rangesOrdered lo cs hi) (h1 : lo' ≤ lo) (h2 : hi ≤ hi') : rangesOrdered lo' cs hi' := by
  induction cs generalizing lo lo' with
  | nil => simp only [rangesOrdered] at *; omega
  | cons c cs ih =>
    simp only [rangesOrdered] at *
    exact ⟨by omega, h.2.1, ih h.2.2 (Nat.le_refl _)⟩

theorem rangesOrdered_append {lo mid hi : Nat} {a b : List Chunk}
    (ha : rangesOrdered lo a mid) (hb : rangesOrdered mid b hi) : rangesOrdered lo (a ++ b) hi := by
  induction a generalizing lo with
  | nil => simp only [rangesOrdered, List.nil_append] at *; exact rangesOrdered_mono hb ha (Nat.le_refl _)
  | cons c cs ih =>
    simp only [rangesOrdered, List.cons_append] at *
    exact ⟨ha.1, ha.2.1, ih ha.2.2⟩

theorem rangesOrdered_le {lo hi : Nat} {cs : List Chunk} (h : rangesOrdered lo cs hi) : lo ≤ hi := by
  induction cs generalizing lo with
  | nil => exact h
  | cons c cs ih => simp only [rangesOrdered] at h; have := ih h.2.2; omega

theorem rangesContiguous_append {lo mid hi : Nat} {a b : List Chunk}
    (ha : rangesContiguous lo a mid) (hb : rangesContiguous mid b hi) :
    rangesContiguous lo (a ++ b) hi := by
  induction a generalizing lo with
  | nil => simp only [rangesContiguous, List.nil_append] at *; subst ha; exact hb
  | cons c cs ih =>
    simp only [rangesContiguous, List.cons_append] at *
    exact ⟨ha.1, ha.2.1, ih ha.2.2⟩

/-- contiguous ranges are in particular ordered and non-overlapping -/
theorem rangesContiguous_ordered {lo hi : Nat} {cs : List Chunk} (h : rangesContiguous lo cs hi) :
    rangesOrdered lo cs hi := by
  induction cs generalizing lo with
  | nil => simp only [rangesContiguous, rangesOrdered] at *; omega
  | cons c cs ih =>
    simp only [rangesContiguous, rangesOrdered] at *
    exact ⟨by omega, h.2.1, ih h.2.2⟩

theorem noneLast_nil : noneLast [] := by intro x hx; cases hx

theorem noneLast_append {a b : List Chunk} (ha : noneLast a) (hb : noneLast b) :
    noneLast (a ++ b) := by
  intro x hx
  rcases List.mem_append.mp hx with h | h
  · exact ha x h
  · exact hb x h

theorem oneLastAtEnd_prepend {a b : List Chunk} {hi : Nat} (ha : noneLast a)
    (hb : oneLastAtEnd b hi) : oneLastAtEnd (a ++ b) hi := by
  obtain ⟨init, c, rfl, h1, h2, h3⟩ := hb
  refine ⟨a ++ init, c, by simp, h1, h2, ?_⟩
  intro x hx
  rcases List.mem_append.mp hx with h | h
  · exact ha x h
  · exact h3 x h

theorem chunksText_append (a b : List Chunk) : chunksText (a ++ b) = chunksText a ++ chunksText b := by
  simp [chunksText]

/-! ### progress of one `decode_to_str` call on a fresh buffer -/

/-- termination measure of the `feed_text` loop -/
def mu (c : Codec) (s : c.σ) : Bytes → Nat
  | [] => 0
  | b :: rest => 2 * (rest.length + 1) + (if (c.decStep s b).consumed then 0 else 1)

theorem mu_le (c : Codec) (s : c.σ) (l : Bytes) : mu c s l ≤ 2 * l.length + 1 := by
  cases l with
  | nil => simp [mu]
  | cons b rest => simp only [mu, List.length_cons]; split <;> omega

theorem status_cases (r : CoderResult) : r = .inputEmpty ∨ r = .outputFull := by
  cases r <;> simp

section
variable {c : Codec} (pol : Policy c)

theorem mustStop_false_of_room (p : pol.P) (s : c.σ) (free : Nat) (o : List Char) (rest : Bytes)
    (h4 : 4 ≤ free) (ho : utf8Len o ≤ 4) : mustStop pol p s free o rest = false := by
  simp only [mustStop, Bool.or_eq_false_iff, decide_eq_false_iff_not, Bool.and_eq_false_imp,
    decide_eq_true_eq]
  constructor
  · omega
  · intro h; omega

/-- With a buffer of at least 4 bytes every call that ends in `OutputFull` made progress. -/
theorem decodeToStr_progress (L : c.Lawful) (cap : Nat) (hcap : 4 ≤ cap) (s : c.σ) (raw : Bytes)
    (last : Bool) (h : (decodeToStr c pol s raw cap last).status = .outputFull) :
    mu c (decodeToStr c pol s raw cap last).st (raw.drop (decodeToStr c pol s raw cap last).read)
      < mu c s raw := by
  unfold decodeToStr at *
  cases raw with
  | nil =>
    exfalso
    simp only [decodeAux] at h
    rw [mustStop_false_of_room pol _ _ _ _ _ hcap (L.flush_small s)] at h
    cases last <;> simp at h
  | cons b rest =>
    simp only [decodeAux] at h ⊢
    rw [mustStop_false_of_room pol _ _ _ _ _ hcap (L.step_small s b)] at h ⊢
    simp only [Bool.false_eq_true, if_false] at h ⊢
    by_cases hc : (c.decStep s b).consumed = true
    · simp only [hc, if_true, push_read, push_st] at h ⊢
      rw [Nat.add_comm 1, List.drop_succ_cons]
      have hr := decodeAux_read_le pol last rest (pol.next pol.start s cap (b :: rest) (c.decStep s b))
        (c.decStep s b).st (cap - utf8Len (c.decStep s b).out)
      have := mu_le c (decodeAux c pol last (pol.next pol.start s cap (b :: rest) (c.decStep s b))
        (c.decStep s b).st rest (cap - utf8Len (c.decStep s b).out)).st
        (List.drop (decodeAux c pol last (pol.next pol.start s cap (b :: rest) (c.decStep s b))
        (c.decStep s b).st rest (cap - utf8Len (c.decStep s b).out)).read rest)
      simp only [mu, hc, if_true, List.length_drop] at this ⊢
      omega
    · have hc' : (c.decStep s b).consumed = false := by simpa using hc
      have hi := L.unread_once s b hc'
      simp only [hc', Bool.false_eq_true, if_false] at h ⊢
      split
      · -- stopped between the two micro-steps
        simp only [List.drop_zero, mu, hc', Bool.false_eq_true, if_false, hi,
          if_true]
        omega
      · rename_i hs2
        simp only [hs2, Bool.false_eq_true, if_false, push_read, push_st] at h ⊢
        rw [Nat.add_comm 1, List.drop_succ_cons]
        generalize hX : decodeAux c pol last _ _ rest _ = X
        have hr : X.read ≤ rest.length := by rw [← hX]; exact decodeAux_read_le pol last rest _ _ _
        have := mu_le c X.st (List.drop X.read rest)
        simp only [mu, hc', Bool.false_eq_true, if_false, List.length_drop] at this ⊢
        omega

/-! ### the `feed_text` loop -/

theorem feedLoop_total (L : c.Lawful) (cap : Nat) (hcap : 4 ≤ cap) (last : Bool) :
    ∀ (fuel : Nat) (s : c.σ) (raw : Bytes) (pos unrep : Nat), mu c s raw < fuel →
      (feedLoop c pol cap last fuel s raw pos unrep).isSome = true := by
  intro fuel
  induction fuel with
  | zero => intro s raw pos unrep h; omega
  | succ fuel ih =>
    intro s raw pos unrep h
    simp only [feedLoop]
    split
    · rfl
    · rename_i hf
      have hof : (decodeToStr c pol s raw cap last).status = .outputFull := by
        rcases status_cases (decodeToStr c pol s raw cap last).status with h1 | h1
        · exact absurd h1 hf
        · exact h1
      have hp := decodeToStr_progress pol L cap hcap s raw last hof
      have := ih (decodeToStr c pol s raw cap last).st
        (raw.drop (decodeToStr c pol s raw cap last).read) (pos + (decodeToStr c pol s raw cap last).read)
        (if (!(decodeToStr c pol s raw cap last).out.isEmpty || last) = true
          then pos + (decodeToStr c pol s raw cap last).read else unrep)
        (by omega)
      revert this
      cases feedLoop c pol cap last fuel (decodeToStr c pol s raw cap last).st
        (raw.drop (decodeToStr c pol s raw cap last).read) (pos + (decodeToStr c pol s raw cap last).read)
        (if (!(decodeToStr c pol s raw cap last).out.isEmpty || last) = true
          then pos + (decodeToStr c pol s raw cap last).read else unrep) with
      | none => simp
      | some v => simp

/-- What the loop delivers: the text of its chunks, followed by what the returned decoder state still
owes, is the unbounded decode; the chunk ranges are contiguous from `unrep` (the first byte not yet
reported) to the returned `unreported_bytes_start`, which is the end of the input after a `last` call;
`last` only on the final chunk of a `last` call. -/
theorem feedLoop_sound (L : c.Lawful) (cap : Nat) (last : Bool) (more : Bytes)
    (hm : last = true → more = []) :
    ∀ (fuel : Nat) (s : c.σ) (raw : Bytes) (pos unrep : Nat) (s' : c.σ) (e u : Nat) (cs : List Chunk),
      unrep ≤ pos →
      feedLoop c pol cap last fuel s raw pos unrep = some (s', e, u, cs) →
      c.tail s (raw ++ more) = chunksText cs ++ (if last = true then [] else c.tail s' more)
      ∧ e = pos + raw.length
      ∧ rangesContiguous unrep cs u
      ∧ u ≤ e
      ∧ (if last = true then oneLastAtEnd cs e ∧ u = e else noneLast cs) := by
  intro fuel
  induction fuel with
  | zero => intro s raw pos unrep s' e u cs _ h; simp [feedLoop] at h
  | succ fuel ih =>
    intro s raw pos unrep s' e u cs hup h
    simp only [feedLoop] at h
    have hsound := decodeAux_sound pol L last more hm raw pol.start s cap
    have hrle := decodeAux_read_le pol last raw pol.start s cap
    change c.tail s (raw ++ more) = (decodeToStr c pol s raw cap last).out ++
      remTail c last (decodeToStr c pol s raw cap last) raw more at hsound
    change (decodeToStr c pol s raw cap last).read ≤ raw.length at hrle
    generalize hr : decodeToStr c pol s raw cap last = r at h hsound hrle
    -- the chunk of this iteration
    have hemitText : ∀ (fl : Bool), chunksText
        (if (!r.out.isEmpty || last) = true then
          [({ text := r.out, last := fl, start := unrep, stop := unrep + (pos + r.read - unrep) } : Chunk)]
         else []) = r.out := by
      intro fl
      by_cases he : r.out.isEmpty = true
      · have : r.out = [] := List.isEmpty_iff.mp he
        cases last <;> simp [this, chunksText]
      · simp [he, chunksText]
    have hemitRange : ∀ (fl : Bool), rangesContiguous unrep
        (if (!r.out.isEmpty || last) = true then
          [({ text := r.out, last := fl, start := unrep, stop := unrep + (pos + r.read - unrep) } : Chunk)]
         else [])
        (if (!r.out.isEmpty || last) = true then pos + r.read else unrep) := by
      intro fl
      split
      · simp only [rangesContiguous]
        exact ⟨trivial, Nat.le_add_right _ _, by omega⟩
      · simp only [rangesContiguous]
    by_cases hf : r.status = .inputEmpty
    · -- finished
      have hread : r.read = raw.length := by
        have := decodeAux_inputEmpty_read pol last raw pol.start s cap
        change (decodeToStr c pol s raw cap last).status = .inputEmpty →
          (decodeToStr c pol s raw cap last).read = raw.length at this
        rw [hr] at this; exact this hf
      simp only [hf, if_true, Option.some.injEq, Prod.mk.injEq, decide_true, Bool.and_true] at h
      obtain ⟨rfl, rfl, rfl, rfl⟩ := h
      refine ⟨?_, by omega, hemitRange last, ?_, ?_⟩
      · rw [hsound, hemitText]
        cases last with
        | true => simp [remTail, hf]
        | false => simp [remTail, hread]
      · split <;> omega
      · cases last with
        | true =>
          simp only [Bool.or_true, if_true]
          exact ⟨⟨[], _, rfl, rfl, by show unrep + (pos + r.read - unrep) = pos + r.read; omega,
            by intro x hx; cases hx⟩, trivial⟩
        | false =>
          simp only [Bool.false_eq_true, if_false, Bool.or_false]
          split
          · intro x hx; simp at hx; subst hx; rfl
          · exact noneLast_nil
    · -- OutputFull: loop again on the rest
      simp only [hf, if_false] at h
      cases hrec : feedLoop c pol cap last fuel r.st (raw.drop r.read) (pos + r.read)
          (if (!r.out.isEmpty || last) = true then pos + r.read else unrep) with
      | none => rw [hrec] at h; simp at h
      | some v =>
        obtain ⟨s2, e2, u2, cs2⟩ := v
        rw [hrec] at h
        simp only [Option.some.injEq, Prod.mk.injEq] at h
        obtain ⟨rfl, rfl, rfl, rfl⟩ := h
        obtain ⟨i1, i2, i3, i4, i5⟩ := ih _ _ _ _ _ _ _ _ (by split <;> omega) hrec
        have hrem : remTail c last r raw more = c.tail r.st (raw.drop r.read ++ more) := by
          simp [remTail, hf]
        refine ⟨?_, ?_, ?_, i4, ?_⟩
        · rw [hsound, hrem, i1, chunksText_append, hemitText, List.append_assoc]
        · rw [i2, List.length_drop]; omega
        · exact rangesContiguous_append (hemitRange _) i3
        · have hn : noneLast
              (if (!r.out.isEmpty || last) = true then
                [({ text := r.out, last := last && decide False, start := unrep,
                    stop := unrep + (pos + r.read - unrep) } : Chunk)]
               else []) := by
            split
            · intro x hx; simp at hx; subst hx; simp
            · exact noneLast_nil
          cases last with
          | true =>
            simp only [if_true] at i5 ⊢
            exact ⟨oneLastAtEnd_prepend hn i5.1, i5.2⟩
          | false =>
            simp only [Bool.false_eq_true, if_false] at i5 ⊢
            exact noneLast_append hn i5

end

end LolHtml.Enc
