import LolHtml.Lemmas.ScanBoundDefs
import LolHtml.Lemmas.ScanLexDefs
/-!
C06 / C15: re-lexing of a hinted tag — definitions.

When the tag scanner hands over to the lexer at `finish_tag_name`, the lexer restarts at `<` in the
text state of the bookmark's text type. That it re-lexes *the same tag* rests on three decidable
facts about the table, all checked on the generated table:

* `TextTypeOk t TT`   — a labelling "in this state `last_text_type = tt`" is invariant (`emit_tag` makes
                        it unknown, `--> dyn` re-establishes it); so the state in which the scanner marked
                        the tag start and the text state the lexer restarts in belong together;
* `RelexOk t L TT sh` — every `TagHead` state `s` has a *shadow* `sh s` (itself, except for the
                        script-data-escaped states whose shadows are the script-data ones) whose arms do
                        the same to the tag head, byte by byte;
* `PhaseOk t P`       — (package scan, C06) between `finish_tag_name` and `emit_tag` nothing touches the tag.
-/
namespace LolHtml.Model

/-! ### text-type labelling -/

abbrev TLabels := List (Option TextType)

def TLabels.at (T : TLabels) (i : StateId) : Option TextType := match T[i]? with | some v => v | none => none

def ttAct : ActName → Option TextType → Option TextType
  | .emitTag, _ => none
  | .enterCdata, _ => some .cdataSection
  | .leaveCdata, _ => some .data
  | _, v => v

def ttCalls : List Call → Option TextType → Option TextType
  | [], v => v
  | c :: cs, v => ttCalls cs (ttAct c.act v)

/-- the value `v` known at the source justifies the target's claim -/
def ttFlows (v tgt : Option TextType) : Bool := tgt.isNone || v == tgt

def allTextTypes : List TextType := [.plainText, .rcData, .rawText, .scriptData, .data, .cdataSection]

def ttTransOk (t : Table) (T : TLabels) (self : StateId) (v : Option TextType) : Option Trans → Bool
  | none => ttFlows v (T.at self)
  | some (.goto j) => ttFlows v (T.at j)
  | some (.reconsume j) => ttFlows v (T.at j)
  | some .gotoDyn =>
    match v with
    | some tt => ttFlows (some tt) (T.at (t.textState tt))
    | none => allTextTypes.all fun tt => ttFlows (some tt) (T.at (t.textState tt))

def ttStateOk (t : Table) (T : TLabels) (i : StateId) (sd : StateDef) : Bool :=
  ttFlows (ttCalls sd.enter (T.at i)) (T.at i) &&
  sd.arms.all fun a => a.body.seqs.all fun q => ttTransOk t T i (ttCalls q.calls (T.at i)) q.trans

/-- **`TextTypeOk`**: wherever the labelling claims a text type, `last_text_type` has that value;
in particular every text state is labelled with its own type or not at all. -/
def TextTypeOk (t : Table) (T : TLabels) : Bool :=
  allIdx (ttStateOk t T) t.states 0 &&
  allTextTypes.all fun tt => ttFlows (some tt) (T.at (t.textState tt))

def textTypeWitnessFrom (t : Table) (T : TLabels) : List StateDef → StateId → List (StateId × Nat)
  | [], _ => []
  | sd :: rest, i =>
    (if ttFlows (ttCalls sd.enter (T.at i)) (T.at i) then [] else [(i, 1000)]) ++
    ((List.range sd.arms.length).filter fun k =>
      match sd.arms[k]? with
      | some a => !(a.body.seqs.all fun q => ttTransOk t T i (ttCalls q.calls (T.at i)) q.trans)
      | none => false).map (fun k => (i, k)) ++
    textTypeWitnessFrom t T rest (i + 1)

/-! computing the labelling: `none` = not reached yet, `some none` = unknown, `some (some tt)` = known -/

abbrev TLat := List (Option (Option TextType))

def TLat.at (T : TLat) (i : StateId) : Option (Option TextType) := match T[i]? with | some v => v | none => none

def tlJoin (a : Option (Option TextType)) (v : Option TextType) : Option (Option TextType) :=
  match a with
  | none => some v
  | some w => if w == v then some w else some none

def TLat.flow (T : TLat) (j : StateId) (v : Option TextType) : TLat := T.set j (tlJoin (T.at j) v)

def tlTrans (t : Table) (T : TLat) (self : StateId) (v : Option TextType) : Option Trans → TLat
  | none => T.flow self v
  | some (.goto j) => T.flow j v
  | some (.reconsume j) => T.flow j v
  | some .gotoDyn =>
    match v with
    | some tt => T.flow (t.textState tt) (some tt)
    | none => allTextTypes.foldl (fun T tt => T.flow (t.textState tt) (some tt)) T

def tlState (t : Table) (T : TLat) (sd : StateDef) (i : StateId) : TLat :=
  match T.at i with
  | none => T
  | some v => sd.arms.foldl (fun T a => a.body.seqs.foldl (fun T q => tlTrans t T i (ttCalls q.calls v) q.trans) T) T

def tlFrom (t : Table) : TLat → List StateDef → StateId → TLat
  | T, [], _ => T
  | T, sd :: rest, i => tlFrom t (tlState t T sd i) rest (i + 1)

def textTypeLabels (t : Table) : TLabels :=
  ((List.range 10).foldl (fun T _ => tlFrom t T t.states 0)
    ((List.replicate t.states.length none).set t.dataState (some (some TextType.data)))).map
    fun | some v => v | none => none

/-! ### the tag head on the lexer's side, and shadows -/

abbrev SLabels := List StateId
def SLabels.at (S : SLabels) (i : StateId) : StateId := match S[i]? with | some j => j | none => i

/-- the arm a byte selects in a state without `closing_quote` patterns -/
def selArm (t : Table) (s : StateId) (b : UInt8) : Option Arm :=
  match t.state? s with
  | some sd => findArm t c0 (some b) sd.arms
  | none => none

def silentMarkCalls (cs : List Call) : Bool := cs.all fun c => c.act == .emitText || c.act == .markTagStart

/-- where `<` leads from a text state (the arm must mark the tag start and do nothing else but `emit_text`) -/
def ltOf (t : Table) (T0 : StateId) : Option StateId :=
  match t.state? T0 with
  | none => none
  | some sd =>
    if sd.enter.isEmpty && !hasSeq sd.arms && (sd.memchr.isNone || sd.memchr == some 60) &&
        sd.arms.all (fun a => a.pat != .closingQuote) then
      match findArm t c0 (some 60) sd.arms with
      | some ⟨_, .seq q⟩ =>
        if tsCalls q.calls == .mark && silentMarkCalls q.calls then
          (match q.trans with | some (.goto j) => some j | _ => none)
        else none
      | _ => none
    else none

/-- the actions allowed in an arm that stays inside the tag head -/
def headAct : ActName → Bool
  | .createStartTag | .createEndTag | .startTokenPart | .updateTagNameHash => true
  | _ => false

def hasAct (a : ActName) (cs : List Call) : Bool := cs.any fun c => c.act == a

/-- actions that touch neither the tag being named nor the text type (allowed in the `eof` / sequence
arms of a `TagHead` state) -/
def quietAct : ActName → Bool
  | .createStartTag | .createEndTag | .updateTagNameHash | .finishTagName | .emitTag
  | .enterCdata | .leaveCdata => false
  | _ => true

def Pat.isSpecial' : Pat → Bool
  | .chSeq .. => true
  | .eoc => true
  | .eof => true
  | _ => false

def actsOf (cs : List Call) : List ActName := cs.map (·.act)

/-- a keep list is one of the canonical ones: nothing; `update_tag_name_hash`; or
`create_*_tag; start_token_part; update_tag_name_hash` (start tag after `<`, end tag after `</`) -/
def keepCallsOk (ph : Phase) (cs : List Call) : Bool :=
  cs.all (fun c => headAct c.act) &&
  (match ph with
   | .lt => actsOf cs == [] || actsOf cs == [.createStartTag, .startTokenPart, .updateTagNameHash]
   | .slash => actsOf cs == [] || actsOf cs == [.createEndTag, .startTokenPart, .updateTagNameHash]
   | .name => actsOf cs == [.updateTagNameHash])

def finishCalls (cs : List Call) : Bool :=
  cs == [⟨.finishTagName, true⟩] || cs == [⟨.finishTagName, true⟩, ⟨.emitTag, true⟩]

def seqPair (S : SLabels) (L : Labels) (ph : Phase) (inIte : Bool) (q q' : ActSeq) : Bool :=
  match tsCalls q.calls with
  | .keep =>
    !inIte && q'.calls == q.calls && keepCallsOk ph q.calls &&
    (match q.trans, q'.trans with
     | none, none => true
     | some (.goto j), some (.goto j') => S.at j == j' && (match L.at j with
        | some ph' => (ph' == .name) == (hasAct .createStartTag q.calls || hasAct .createEndTag q.calls || ph == .name)
        | none => false)
     | _, _ => false)
  | .mark => false
  | .clear =>
    if hasAct .finishTagName q.calls then ph == .name && finishCalls q.calls && q'.calls == q.calls && q'.trans == q.trans
    else true

def armPair (S : SLabels) (L : Labels) (ph : Phase) (a : Arm) (a' : Option Arm) : Bool :=
  if a.body.seqs.all (fun q => tsCalls q.calls == .clear && !hasAct .finishTagName q.calls) then true
  else
    match a' with
    | none => false
    | some a' =>
      match a.body, a'.body with
      | .seq q, .seq q' => seqPair S L ph false q q'
      | .ite c x y, .ite c' x' y' => c == .isAppropriateEndTag && c' == .isAppropriateEndTag && seqPair S L ph true x x' && seqPair S L ph true y y'
      | _, _ => false

def headPairOk (t : Table) (S : SLabels) (L : Labels) (s : StateId) (sd : StateDef) (ph : Phase) : Bool :=
  sd.enter.isEmpty &&
  sd.arms.all (fun a => !a.pat.isSpecial' || a.body.seqs.all (fun q => q.calls.all (fun c => quietAct c.act))) &&
  (match t.state? (S.at s) with
   | none => false
   | some sd' =>
     sd'.enter.isEmpty && sd'.memchr.isNone && !hasSeq sd'.arms && sd'.arms.all (fun a => a.pat != .closingQuote) &&
     L.at (S.at s) == some ph && S.at (S.at s) == S.at s &&
     (List.range 256).all fun n =>
       match findArm t c0 (some (UInt8.ofNat n)) sd.arms with
       | none => true
       | some a => armPair S L ph a (findArm t c0 (some (UInt8.ofNat n)) sd'.arms))

def markStateOk (t : Table) (S : SLabels) (T : TLabels) (i : StateId) (sd : StateDef) : Bool :=
  !hasAct .finishTagName sd.enter &&
  sd.arms.all fun a => a.body.seqs.all fun q =>
    !hasAct .finishTagName q.calls &&
    (tsCalls q.calls != .mark ||
    (match a.body, q.trans, T.at i with
     | .seq _, some (.goto j), some tt => ltOf t (t.textState tt) == some (S.at j) && ttCalls q.calls (some tt) == some tt
     | _, _, _ => false))

def relexStateOk (t : Table) (S : SLabels) (L : Labels) (T : TLabels) (i : StateId) (sd : StateDef) : Bool :=
  match L.at i with
  | some ph => headPairOk t S L i sd ph
  | none => markStateOk t S T i sd

/-- **`RelexOk`** -/
def RelexOk (t : Table) (L : Labels) (T : TLabels) (S : SLabels) : Bool :=
  decide (L.length ≤ t.states.length) && allIdx (relexStateOk t S L T) t.states 0

def relexWitnessFrom (t : Table) (L : Labels) (T : TLabels) (S : SLabels) : List StateDef → StateId → List StateId
  | [], _ => []
  | sd :: rest, i => (if relexStateOk t S L T i sd then [] else [i]) ++ relexWitnessFrom t L T S rest (i + 1)

/-- computing shadows: follow the scanner's and the lexer's head paths in parallel -/
def shadowStep (t : Table) (L : Labels) (S : List (Option StateId)) (sd : StateDef) (i : StateId) : List (Option StateId) :=
  match (match S[i]? with | some v => v | none => none), L.at i with
  | some i', some _ =>
    match t.state? i' with
    | none => S
    | some sd' =>
      (List.range 256).foldl (fun S n =>
        match findArm t c0 (some (UInt8.ofNat n)) sd.arms, findArm t c0 (some (UInt8.ofNat n)) sd'.arms with
        | some ⟨_, .seq q⟩, some ⟨_, .seq q'⟩ =>
          (match tsCalls q.calls, q.trans, q'.trans with
           | .keep, some (.goto j), some (.goto j') => S.set j (some j')
           | _, _, _ => S)
        | _, _ => S) S
  | _, _ => S

def shadowFrom (t : Table) (L : Labels) : List (Option StateId) → List StateDef → StateId → List (Option StateId)
  | S, [], _ => S
  | S, sd :: rest, i => shadowFrom t L (shadowStep t L S sd i) rest (i + 1)

def shadowInit (t : Table) (T : TLabels) : List (Option StateId) :=
  let rec go : List (Option StateId) → List StateDef → StateId → List (Option StateId)
    | S, [], _ => S
    | S, sd :: rest, i =>
      let S := sd.arms.foldl (fun S a => a.body.seqs.foldl (fun S q =>
        if tsCalls q.calls == .mark then
          match q.trans, T.at i with
          | some (.goto j), some tt => (match ltOf t (t.textState tt) with | some j' => S.set j (some j') | none => S)
          | _, _ => S
        else S) S) S
      go S rest (i + 1)
  go (List.replicate t.states.length none) t.states 0

def shadowLabels (t : Table) (L : Labels) (T : TLabels) : SLabels :=
  (((List.range 4).foldl (fun S _ => shadowFrom t L S t.states 0) (shadowInit t T)).zipIdx).map
    fun (v, i) => match v with | some j => j | none => i

end LolHtml.Model
