import LolHtml.Lemmas.Congr
/-!
Step-level congruence: `Lemmas/Congr.lean` up to `stateFn` / `runLoop`, with the hypotheses `OkS` = `Ok`
minus the two `continue_from_bookmark` clauses (`jr_load_lex`, `jr_load_scan`). Needed when the register
invariant `Jr` says "tag scanner" and the machines may nevertheless signal a hand-over to the lexer
(`ApplyUnhandled(RequestLexeme)`): the step-level lifting does not look at what happens after the signal.
(A verbatim copy of the proofs of `Lemmas/Congr.lean`, `Ok` replaced by `OkS`; `Ok.toOkS` below.)
-/
namespace LolHtml.Model

variable {κ₁ κ₂ : Type}

namespace Cong
variable (C : Cong κ₁ κ₂)


/-- hypotheses of the lifting theorem -/
structure OkS (env₁ : Env κ₁) (env₂ : Env κ₂) (inp : Bytes) : Prop where
  tbl : env₁.tbl = env₂.tbl
  stop_err : ∀ r, C.Stop r → ∃ e, r.2 = some (.err e)
  good_none : C.Good none
  good_panic : ∀ s, C.Good (some (.err (.panic s)))
  good_eoi : ∀ n, C.Good (some (.endOfInput n))
  act : ∀ a m₁ m₂, C.MR m₁ m₂ → C.Out (Model.act env₁ a inp m₁) (Model.act env₂ a inp m₂)
  silent : ∀ a m₁, a.callsSink = false → ¬ C.Stop (Model.act env₁ a inp m₁)
  pc : ∀ x₁ x₂ n, C.Rx x₁ x₂ →
    C.Rx { x₁ with prevConsumed := x₁.prevConsumed + n } { x₂ with prevConsumed := x₂.prevConsumed + n }
  jr_enter : ∀ c r, C.Jr r → C.Jr (enterSeqR c r)
  jr_leave : ∀ r, C.Jr r → C.Jr (leaveSeqR r)
  jr_adjust : ∀ r, C.Jr r → C.Jr (adjustR r)

section
variable {C} {env₁ : Env κ₁} {env₂ : Env κ₂} {inp : Bytes}

/-- related machines are the same machine up to the context -/
theorem MR.casesS {m₁ : M κ₁} {m₂ : M κ₂} (h : C.MR m₁ m₂) :
    ∃ c r x₁ x₂, m₁ = ⟨c, r, x₁⟩ ∧ m₂ = ⟨c, r, x₂⟩ ∧ C.Jr r ∧ C.Rx x₁ x₂ := by
  obtain ⟨c₁, r₁, x₁⟩ := m₁
  obtain ⟨c₂, r₂, x₂⟩ := m₂
  obtain ⟨h1, h2, hj, h3⟩ := h
  simp only at h1 h2 h3 hj
  subst h1 h2
  exact ⟨_, _, _, _, rfl, rfl, hj, h3⟩

theorem OkS.jr_break (h : C.OkS env₁ env₂ inp) (c : Common) {r : Regs} (hj : C.Jr r) :
    C.Jr (breakCR inp c r).2.1 := by
  unfold breakCR
  dsimp only
  split <;> (split <;> first | exact hj | exact h.jr_adjust _ hj)

theorem OkS.stop_some (h : C.OkS env₁ env₂ inp) (m : M κ₁) : ¬ C.Stop (m, none) := by
  intro hs
  obtain ⟨e, he⟩ := h.stop_err _ hs
  cases he

/-- a stopping result carries a signal -/
theorem OkS.stop_sig (h : C.OkS env₁ env₂ inp) {r : M κ₁ × Option Signal} (hs : C.Stop r) :
    ∃ s, r.2 = some s := by
  cases h2 : r.2 with
  | some s => exact ⟨s, rfl⟩
  | none =>
    exfalso
    apply h.stop_some r.1
    have : r = (r.1, none) := by rw [← h2]
    rw [← this]; exact hs

theorem OkS.good_plumb (h : C.OkS env₁ env₂ inp) {s : Option Signal} (hp : PlumbSig s) : C.Good s := by
  rcases hp with rfl | ⟨p, rfl⟩ | ⟨n, rfl⟩
  · exact h.good_none
  · exact h.good_panic p
  · exact h.good_eoi n

theorem runCalls_congS (h : C.OkS env₁ env₂ inp) (cs : List Call) (hc : cs.all Call.checked = true)
    (m₁ : M κ₁) (m₂ : M κ₂) (hm : C.MR m₁ m₂) :
    C.Out (runCalls env₁ inp cs m₁) (runCalls env₂ inp cs m₂) := by
  induction cs generalizing m₁ m₂ with
  | nil => exact .inr ⟨hm, rfl, h.good_none⟩
  | cons cl cs ih =>
    simp only [List.all_cons, Bool.and_eq_true] at hc
    simp only [runCalls]
    rcases h.act cl.act m₁ m₂ hm with hs | ⟨hmr, hsig, hg⟩
    · -- the first machine stops
      cases h2 : (Model.act env₁ cl.act inp m₁).2 with
      | none =>
        exfalso
        apply h.stop_some (Model.act env₁ cl.act inp m₁).1
        have : Model.act env₁ cl.act inp m₁ = ((Model.act env₁ cl.act inp m₁).1, none) := by
          rw [← h2]
        rw [← this]; exact hs
      | some s =>
        have hq : cl.q = true := by
          cases hq : cl.q
          · exfalso
            have hck := hc.1
            unfold Call.checked at hck
            simp only [hq, Bool.or_false, Bool.not_eq_true'] at hck
            exact h.silent cl.act m₁ hck hs
          · rfl
        simp only [hq, if_true]
        left
        have : Model.act env₁ cl.act inp m₁ = ((Model.act env₁ cl.act inp m₁).1, some s) := by
          rw [← h2]
        rw [← this]; exact hs
    · rw [← hsig]
      cases h2 : (Model.act env₁ cl.act inp m₁).2 with
      | none => exact ih hc.2 _ _ hmr
      | some s =>
        simp only
        by_cases hq : cl.q = true
        · simp only [hq, if_true]
          exact .inr ⟨hmr, rfl, by rw [← h2]; exact hg⟩
        · simp only [hq, Bool.false_eq_true, if_false]
          exact ih hc.2 _ _ hmr

theorem runSeq_congS (h : C.OkS env₁ env₂ inp) (s : ActSeq) (hc : s.calls.all Call.checked = true)
    (m₁ : M κ₁) (m₂ : M κ₂) (hm : C.MR m₁ m₂) :
    C.Out3 (runSeq env₁ inp s m₁) (runSeq env₂ inp s m₂) := by
  unfold runSeq
  dsimp only
  rcases runCalls_congS h s.calls hc m₁ m₂ hm with hs | ⟨hmr, hsig, hg⟩
  · obtain ⟨sig, h2⟩ := h.stop_sig hs
    left
    simp only [h2]
    have : runCalls env₁ inp s.calls m₁ = ((runCalls env₁ inp s.calls m₁).1, some sig) := by rw [← h2]
    rw [← this]; exact hs
  · rw [← hsig]
    cases h2 : (runCalls env₁ inp s.calls m₁).2 with
    | some sig =>
      try simp only [h2] at hg ⊢
      exact .inr ⟨hmr, rfl, hg⟩
    | none =>
      try simp only [h2] at hg ⊢
      cases s.trans with
      | none => exact .inr ⟨hmr, rfl, h.good_none⟩
      | some t =>
        simp only
        obtain ⟨c, r, x₁, x₂, e1, e2, hj, hx⟩ := hmr.cases
        rw [e1, e2, applyTrans_eq, applyTrans_eq, h.tbl]
        exact .inr ⟨⟨rfl, rfl, hj, hx⟩, rfl, h.good_plumb (transC_sig _ _ _)⟩

theorem cond_congS {c : Common} {r : Regs} {x₁ : Ctx κ₁} {x₂ : Ctx κ₂} (cnd : Cond) :
    cond cnd (⟨c, r, x₁⟩ : M κ₁) = cond cnd (⟨c, r, x₂⟩ : M κ₂) := by
  cases cnd <;> cases r <;> rfl

theorem runBody_congS (h : C.OkS env₁ env₂ inp) (b : Body)
    (hc : ∀ s ∈ b.seqs, s.calls.all Call.checked = true)
    (m₁ : M κ₁) (m₂ : M κ₂) (hm : C.MR m₁ m₂) :
    C.Out3 (runBody env₁ inp b m₁) (runBody env₂ inp b m₂) := by
  cases b with
  | seq s => exact runSeq_congS h s (hc s (by simp [Body.seqs])) m₁ m₂ hm
  | ite cnd t e =>
    obtain ⟨c, r, x₁, x₂, rfl, rfl, hj, hx⟩ := hm.cases
    simp only [runBody]
    rw [cond_congS (x₁ := x₁) (x₂ := x₂) cnd]
    cases cond cnd (⟨c, r, x₂⟩ : M κ₂) with
    | none => exact .inr ⟨⟨rfl, rfl, hj, hx⟩, rfl, h.good_panic _⟩
    | some b =>
      cases b
      · exact runSeq_congS h e (hc e (by simp [Body.seqs])) _ _ ⟨rfl, rfl, hj, hx⟩
      · exact runSeq_congS h t (hc t (by simp [Body.seqs])) _ _ ⟨rfl, rfl, hj, hx⟩

theorem seqs_checkedS {a : Arm} (h : (callsOfArm a).all Call.checked = true) :
    ∀ s ∈ a.body.seqs, s.calls.all Call.checked = true := by
  intro s hs
  unfold callsOfArm at h
  rw [List.all_eq_true] at h ⊢
  intro cl hcl
  exact h cl (List.mem_flatMap.mpr ⟨s, hs, hcl⟩)

theorem runSeqArms_congS (h : C.OkS env₁ env₂ inp) (ch : Option UInt8) (arms : List Arm)
    (ha : ArmsChecked arms) (c : Common) (r : Regs) (x₁ : Ctx κ₁) (x₂ : Ctx κ₂) (hj : C.Jr r)
    (hx : C.Rx x₁ x₂) :
    C.OutSum (runSeqArms env₁ inp ch arms ⟨c, r, x₁⟩) (runSeqArms env₂ inp ch arms ⟨c, r, x₂⟩) := by
  induction arms generalizing r with
  | nil => exact ⟨rfl, rfl, hj, hx⟩
  | cons arm rest ih =>
    have ha' : ArmsChecked rest := fun a h' => ha a (List.mem_cons_of_mem _ h')
    have hb := seqs_checkedS (ha arm (by simp))
    have hje : C.Jr (enterSeqR c r) := h.jr_enter c r hj
    have hjl : C.Jr (leaveSeqR (enterSeqR c r)) := h.jr_leave _ hje
    cases hp : arm.pat with
    | chSeq bytes ic =>
      simp only [runSeqArms, hp, enterSeq_eq, leaveSeq_eq]
      cases bytes with
      | nil => exact ih ha' _ hjl
      | cons e0 es =>
        simp only
        split
        · simp only [break_eq]
          exact .inr ⟨⟨rfl, rfl, h.jr_break _ hje, hx⟩, rfl, h.good_plumb (breakCR_sig _ _ _)⟩
        · exact ih ha' _ hjl
        · have := runBody_congS h arm.body hb
            ⟨{ c with nextPos := c.nextPos + es.length }, leaveSeqR (enterSeqR c r), x₁⟩
            ⟨{ c with nextPos := c.nextPos + es.length }, leaveSeqR (enterSeqR c r), x₂⟩ ⟨rfl, rfl, hjl, hx⟩
          rcases this with hs | ⟨a, b, g⟩
          · exact .inl hs
          · exact .inr ⟨a, by rw [b], g⟩
    | _ => simp only [runSeqArms, hp]; exact ih ha' _ hj

/-- the tail of an `eoc`/`eof` arm: propagate a signal, stop after a transition, else break -/
theorem finishArm_congS (h : C.OkS env₁ env₂ inp) (t₁ : M κ₁ × Option Signal × SeqEnd)
    (t₂ : M κ₂ × Option Signal × SeqEnd) (ht : C.Out3 t₁ t₂) :
    C.Out
      (match t₁.2.1, t₁.2.2 with
        | some sig, _ => (t₁.1, some sig)
        | none, .transitioned => (t₁.1, none)
        | none, .fell => breakOnEndOfInput inp t₁.1)
      (match t₂.2.1, t₂.2.2 with
        | some sig, _ => (t₂.1, some sig)
        | none, .transitioned => (t₂.1, none)
        | none, .fell => breakOnEndOfInput inp t₂.1) := by
  obtain ⟨m₁, s₁, e₁⟩ := t₁
  obtain ⟨m₂, s₂, e₂⟩ := t₂
  rcases ht with hs | ⟨hmr, heq, hg⟩
  · obtain ⟨sig, h2⟩ := h.stop_sig hs
    simp only at h2
    subst h2
    exact .inl hs
  · simp only [Prod.mk.injEq] at heq
    obtain ⟨rfl, rfl⟩ := heq
    cases s₁ with
    | some sig => exact .inr ⟨hmr, rfl, hg⟩
    | none =>
      cases e₁ with
      | transitioned => exact .inr ⟨hmr, rfl, h.good_none⟩
      | fell =>
        obtain ⟨c, r, x₁, x₂, rfl, rfl, hj, hx⟩ := hmr.cases
        simp only [break_eq]
        exact .inr ⟨⟨rfl, rfl, h.jr_break _ hj, hx⟩, rfl, h.good_plumb (breakCR_sig _ _ _)⟩

theorem dispatch_congS (h : C.OkS env₁ env₂ inp) (ch : Option UInt8) (arms : List Arm)
    (ha : ArmsChecked arms) (m₁ : M κ₁) (m₂ : M κ₂) (hm : C.MR m₁ m₂) :
    C.Out (dispatch env₁ inp ch arms m₁) (dispatch env₂ inp ch arms m₂) := by
  obtain ⟨c, r, x₁, x₂, rfl, rfl, hj, hx⟩ := hm.cases
  unfold dispatch
  have hsa := runSeqArms_congS h ch arms ha c r x₁ x₂ hj hx
  cases h1 : runSeqArms env₁ inp ch arms ⟨c, r, x₁⟩ with
  | inl r₁ =>
    cases h2 : runSeqArms env₂ inp ch arms ⟨c, r, x₂⟩ with
    | inl r₂ => rw [h1, h2] at hsa; exact hsa
    | inr _ => rw [h1, h2] at hsa; exact hsa.elim
  | inr m₁' =>
    cases h2 : runSeqArms env₂ inp ch arms ⟨c, r, x₂⟩ with
    | inl _ => rw [h1, h2] at hsa; exact hsa.elim
    | inr m₂' =>
      rw [h1, h2] at hsa
      obtain ⟨c', r', y₁, y₂, rfl, rfl, hj', hy⟩ := Cong.MR.casesS hsa
      simp only [h.tbl]
      cases hf : findArm env₂.tbl c' ch arms with
      | none => exact .inr ⟨⟨rfl, rfl, hj', hy⟩, rfl, h.good_panic _⟩
      | some arm =>
        have hb := seqs_checkedS (ha arm (findArm_mem hf))
        have hbody := runBody_congS h arm.body hb ⟨c', r', y₁⟩ ⟨c', r', y₂⟩ ⟨rfl, rfl, hj', hy⟩
        simp only
        cases hp : arm.pat with
        | eoc => simp only; exact finishArm_congS h _ _ hbody
        | eof =>
          simp only
          by_cases hl : c'.isLast = true
          · simp only [hl, if_true]; exact finishArm_congS h _ _ hbody
          · simp only [hl, Bool.false_eq_true, if_false, break_eq]
            exact .inr ⟨⟨rfl, rfl, h.jr_break _ hj', hy⟩, rfl, h.good_plumb (breakCR_sig _ _ _)⟩
        | _ =>
          simp only
          rcases hbody with hs | ⟨a, b, g⟩
          · exact .inl hs
          · exact .inr ⟨a, by rw [b], g⟩

theorem sfPre_congS (h : C.OkS env₁ env₂ inp) (sd : StateDef) (hc : sd.enter.all Call.checked = true)
    (m₁ : M κ₁) (m₂ : M κ₂) (hm : C.MR m₁ m₂) :
    C.Out (sfPreC env₁ inp sd m₁) (sfPreC env₂ inp sd m₂) := by
  obtain ⟨c, r, x₁, x₂, rfl, rfl, hj, hx⟩ := hm.cases
  unfold sfPreC
  dsimp only
  by_cases hcond : (!sd.enter.isEmpty && !c.entered) = true
  · simp only [hcond, if_true]
    rcases runCalls_congS h sd.enter hc ⟨{ c with nextPos := c.nextPos + 1 }, r, x₁⟩
        ⟨{ c with nextPos := c.nextPos + 1 }, r, x₂⟩ ⟨rfl, rfl, hj, hx⟩ with hs | ⟨hmr, hsig, hg⟩
    · obtain ⟨sig, h2⟩ := h.stop_sig hs
      left
      simp only [h2]
      have : runCalls env₁ inp sd.enter ⟨{ c with nextPos := c.nextPos + 1 }, r, x₁⟩ =
          ((runCalls env₁ inp sd.enter ⟨{ c with nextPos := c.nextPos + 1 }, r, x₁⟩).1, some sig) := by
        rw [← h2]
      rw [← this]; exact hs
    · rw [← hsig]
      cases h2 : (runCalls env₁ inp sd.enter ⟨{ c with nextPos := c.nextPos + 1 }, r, x₁⟩).2 with
      | some sig =>
        try simp only [h2] at hg ⊢
        exact .inr ⟨hmr, by first | rfl | trivial, hg⟩
      | none =>
        try simp only [h2] at hg ⊢
        obtain ⟨h1, h2', hj', h3⟩ := hmr
        exact .inr ⟨⟨by simp only [h1], h2', hj', h3⟩, by first | rfl | trivial, h.good_none⟩
  · simp only [hcond, Bool.false_eq_true, if_false]
    exact .inr ⟨⟨rfl, rfl, hj, hx⟩, rfl, h.good_none⟩

theorem sfRest_congS (h : C.OkS env₁ env₂ inp) (sd : StateDef) (ha : ArmsChecked sd.arms)
    (p₁ : StepRes κ₁) (p₂ : StepRes κ₂) (hp : C.Out p₁ p₂) :
    C.Out (sfRest env₁ inp sd p₁) (sfRest env₂ inp sd p₂) := by
  obtain ⟨m₁, s₁⟩ := p₁
  obtain ⟨m₂, s₂⟩ := p₂
  unfold sfRest
  rcases hp with hs | ⟨hmr, heq, hg⟩
  · obtain ⟨sig, h2⟩ := h.stop_sig hs
    simp only at h2
    subst h2
    exact .inl hs
  · simp only at heq
    subst heq
    cases s₁ with
    | some sig => exact .inr ⟨hmr, rfl, hg⟩
    | none =>
      obtain ⟨c, r, x₁, x₂, rfl, rfl, hj, hx⟩ := Cong.MR.casesS hmr
      dsimp only
      cases sd.memchr with
      | none => exact dispatch_congS h _ _ ha _ _ ⟨rfl, rfl, hj, hx⟩
      | some needle =>
        dsimp only
        cases findByte needle (List.drop c.nextPos inp) with
        | none => exact dispatch_congS h _ _ ha _ _ ⟨rfl, rfl, hj, hx⟩
        | some p => exact dispatch_congS h _ _ ha _ _ ⟨rfl, rfl, hj, hx⟩

theorem stateFn_congS (h : C.OkS env₁ env₂ inp) (ht : EmitsChecked env₁.tbl = true)
    (m₁ : M κ₁) (m₂ : M κ₂) (hm : C.MR m₁ m₂) :
    C.Out (stateFn env₁ inp m₁) (stateFn env₂ inp m₂) := by
  rw [stateFn_split, stateFn_split, ← h.tbl, ← hm.1]
  cases hsd : env₁.tbl.state? m₁.c.state with
  | none => exact .inr ⟨hm, rfl, h.good_panic _⟩
  | some sd =>
    obtain ⟨he, ha⟩ := state_checked ht hsd
    exact sfRest_congS h sd ha _ _ (sfPre_congS h sd he m₁ m₂ hm)

theorem runLoop_congS (h : C.OkS env₁ env₂ inp) (ht : EmitsChecked env₁.tbl = true) (n : Nat)
    (m₁ : M κ₁) (m₂ : M κ₂) (hm : C.MR m₁ m₂) :
    C.Stop ((runLoop env₁ inp n m₁).1, some (runLoop env₁ inp n m₁).2) ∨
    (C.MR (runLoop env₁ inp n m₁).1 (runLoop env₂ inp n m₂).1 ∧
      (runLoop env₁ inp n m₁).2 = (runLoop env₂ inp n m₂).2 ∧ C.Good (some (runLoop env₁ inp n m₁).2)) := by
  induction n generalizing m₁ m₂ with
  | zero => exact .inr ⟨hm, rfl, h.good_panic _⟩
  | succ n ih =>
    simp only [runLoop]
    rcases stateFn_congS h ht m₁ m₂ hm with hs | ⟨hmr, hsig, hg⟩
    · obtain ⟨sig, h2⟩ := h.stop_sig hs
      left
      simp only [h2]
      have : stateFn env₁ inp m₁ = ((stateFn env₁ inp m₁).1, some sig) := by rw [← h2]
      rw [← this]; exact hs
    · rw [← hsig]
      cases h2 : (stateFn env₁ inp m₁).2 with
      | some sig =>
        try simp only [h2] at hg ⊢
        exact .inr ⟨hmr, by first | rfl | trivial, hg⟩
      | none =>
        try simp only [h2] at hg ⊢
        exact ih _ _ hmr

theorem Ok.toOkS (h : C.Ok env₁ env₂ inp) : C.OkS env₁ env₂ inp :=
  ⟨h.tbl, h.stop_err, h.good_none, h.good_panic, h.good_eoi, h.act, h.silent, h.pc, h.jr_enter, h.jr_leave, h.jr_adjust⟩

end
end Cong
end LolHtml.Model
