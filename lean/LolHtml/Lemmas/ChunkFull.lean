import LolHtml.Lemmas.ChunkMainR
import LolHtml.Model.FullCtl
/-!
The real transform controller (`fullCtl cfg`, package full) is in the class `TextBlindR`, on the states in
which no text handler is registered (`TF`): what the class needs from the glued selector VM / handler
dispatcher / edit model.
-/
namespace LolHtml.Model.Chunk.R
open LolHtml LolHtml.Model LolHtml.Model.Chunk LolHtml.Model.Full LolHtml.Model.Handlers LolHtml.EditModel

/-! ### no text handler registered: an invariant of the handler dispatcher -/

/-- no text handler is registered: the text vector is empty and no selector entry points into it -/
def TF (d : Dispatcher) : Prop := d.text.items = [] ∧ ∀ loc ∈ d.locators, loc.text = none

/-- the two fields `TF` speaks about -/
def tl (d : Dispatcher) : HandlerVec HId × List SelectorHandlersLocator := (d.text, d.locators)

theorem TF.of_tl {d d' : Dispatcher} (h : TF d) (e : tl d' = tl d) : TF d' := by
  simp only [tl, Prod.mk.injEq] at e
  unfold TF
  rw [e.1, e.2]
  exact h

theorem startMatching_tl {d d' : Dispatcher} {m : Nat} {wc : Bool} (h : TF d)
    (hr : d.startMatching m wc = .ok d') : tl d' = tl d := by
  unfold Dispatcher.startMatching at hr
  split at hr
  · simp at hr
  · rename_i loc hloc
    have hmem : loc ∈ d.locators := List.mem_of_getElem? hloc
    have ht : loc.text = none := h.2 loc hmem
    rw [ht] at hr
    split at hr
    · simp at hr
    · split at hr
      · simp at hr
      · rename_i tx htx
        have : tx = d.text := by
          cases wc <;> simp [HandlerVec.incOptional] at htx <;> exact htx.symm
        split at hr
        · simp at hr
        · simp only [Except.ok.injEq] at hr
          subst hr
          simp only [tl, this]

theorem startMatchingInfos_tl {d d' : Dispatcher} (ms : List SelVM.MatchInfo) (h : TF d)
    (hr : startMatchingInfos d ms = .ok d') : tl d' = tl d := by
  induction ms generalizing d with
  | nil => simp only [startMatchingInfos, Except.ok.injEq] at hr; subst hr; rfl
  | cons m ms ih =>
    unfold startMatchingInfos at hr
    split at hr
    · simp at hr
    · rename_i d1 h1
      have e1 := startMatching_tl h h1
      rw [ih (h.of_tl e1) hr, e1]

theorem stopMatchingId_tl {d d' : Dispatcher} {m : Nat} (h : TF d) (hr : d.stopMatchingId m = .ok d') : tl d' = tl d := by
  unfold Dispatcher.stopMatchingId at hr
  split at hr
  · simp at hr
  · rename_i loc hloc
    have ht : loc.text = none := h.2 loc (List.mem_of_getElem? hloc)
    rw [ht] at hr
    split at hr
    · simp at hr
    · simp only [HandlerVec.decOptional, Except.ok.injEq] at hr
      subst hr
      rfl

theorem stopMatchingIds_tl {d d' : Dispatcher} (ms : List Nat) (h : TF d) (hr : d.stopMatchingIds ms = .ok d') :
    tl d' = tl d := by
  induction ms generalizing d with
  | nil => simp only [Dispatcher.stopMatchingIds, Except.ok.injEq] at hr; subst hr; rfl
  | cons m ms ih =>
    unfold Dispatcher.stopMatchingIds at hr
    split at hr
    · simp at hr
    · rename_i d1 h1
      have e1 := stopMatchingId_tl h h1
      rw [ih (h.of_tl e1) hr, e1]

theorem stopMatching_tl {d d' : Dispatcher} {desc : ElementDescriptor} (h : TF d) (hr : d.stopMatching desc = .ok d') :
    tl d' = tl d := by
  unfold Dispatcher.stopMatching at hr
  split at hr
  · simp at hr
  · rename_i d1 h1
    have e1 := stopMatchingIds_tl _ h h1
    split at hr
    · simp at hr
    · split at hr
      · split at hr
        · simp at hr
        · simp only [Except.ok.injEq] at hr; subst hr; exact e1
      · simp only [Except.ok.injEq] at hr; subst hr; exact e1

theorem stopMatchingPopped_tl {d d' : Dispatcher} (its : List SelVM.StackItem) (des : List Desc) (h : TF d)
    (hr : stopMatchingPopped d its des = .ok d') : tl d' = tl d := by
  induction its generalizing d des with
  | nil => simp only [stopMatchingPopped, Except.ok.injEq] at hr; subst hr; rfl
  | cons it its ih =>
    cases des with
    | nil => simp only [stopMatchingPopped, Except.ok.injEq] at hr; subst hr; rfl
    | cons de des =>
      simp only [stopMatchingPopped] at hr
      split at hr
      · simp at hr
      · rename_i d1 h1
        have e1 := stopMatching_tl h h1
        rw [ih des (h.of_tl e1) hr, e1]

theorem handleStartTag_tl {d d' : Dispatcher} (script : ElemScript) (ord : Nat) (cur : Option ElementDescriptor)
    {desc : Option ElementDescriptor} {inv : List Invocation}
    (hr : d.handleStartTag script ord cur = .ok (d', desc, inv)) : tl d' = tl d := by
  unfold Dispatcher.handleStartTag at hr
  split at hr
  · simp at hr
  · simp only at hr
    split at hr
    · split at hr
      · split at hr
        · simp only [Except.ok.injEq, Prod.mk.injEq] at hr; rw [← hr.1]; rfl
        · simp only [Except.ok.injEq, Prod.mk.injEq] at hr; rw [← hr.1]; rfl
      · simp only [Except.ok.injEq, Prod.mk.injEq] at hr; rw [← hr.1]; rfl
    · simp only [Except.ok.injEq, Prod.mk.injEq] at hr; rw [← hr.1]; rfl

/-! ### the controller callbacks keep the domain -/

/-- the states the class speaks about: no text handler registered -/
structure Dom (s : St) : Prop where
  tf : TF s.disp

theorem runClosures_fault {τ ω : Type} (scripts : HId → Scripts ω) (kind : Nat) (who : HId → Who)
    (see : τ → Seen) (apply : τ → List ω → τ) (src : Range) (hs : List HId) (s : St) (u : τ) :
    (runClosures scripts kind who see apply src hs s u).1.fault = s.fault := by
  induction hs generalizing s u with
  | nil => simp [runClosures]
  | cons h hs ih =>
    simp only [runClosures]
    split
    · simp
    · have := ih { s with inv := invBump s.inv (kind, h), log := ⟨who h, src, see u⟩ :: s.log }
        (apply u (cyc (scripts h) (invGet s.inv (kind, h))).1)
      simpa using this

theorem runEndTagUser_fault (src : Range) (subs : List (HId × Nat)) (user : List (List EndTagOp)) (s : St) (t : EndTag) :
    (runEndTagUser src subs user s t).1.fault = s.fault := by
  induction user generalizing subs s t with
  | nil => cases subs <;> simp [runEndTagUser]
  | cons ops user ih =>
    cases subs with
    | nil => simpa [runEndTagUser] using ih [] s (t.applyOps ops)
    | cons sub subs =>
      simp only [runEndTagUser]
      have := ih subs { s with log := ⟨.endTag sub.1 sub.2, src, seeEndTag t⟩ :: s.log } (t.applyOps ops)
      simpa using this

theorem runEndTagHandlers_fault (src : Range) (hs : List EndTagH) (s s' : St) (t t' : EndTag)
    (hr : runEndTagHandlers src hs s t = some (s', t')) : s'.fault = s.fault := by
  induction hs generalizing s t with
  | nil => simp only [runEndTagHandlers, Option.some.injEq, Prod.mk.injEq] at hr; rw [← hr.1]
  | cons h hs ih =>
    simp only [runEndTagHandlers] at hr
    split at hr
    · simp at hr
    · rename_i p _
      have a := ih _ _ hr
      simp only [runEndTagHandler] at a
      exact a.trans (runEndTagUser_fault _ _ _ _ _)

theorem runEndClosures_fault (cfg : Cfg) (hs : List HId) (s : St) (out : List Bytes) :
    (runEndClosures cfg hs s out).1.fault = s.fault := by
  induction hs generalizing s out with
  | nil => simp [runEndClosures]
  | cons h hs ih =>
    simp only [runEndClosures]
    split
    · simp
    · have := ih { s with inv := invBump s.inv (kEnd, h), log := ⟨.end_ h, ⟨0, 0⟩, .docEnd⟩ :: s.log }
        (out ++ ((cyc (cfg.endScripts h) (invGet s.inv (kEnd, h))).1.map fun c => encUtf8 c.2 c.1).filter fun b => !b.isEmpty)
      simpa using this

theorem Dom.of_eq {s s' : St} (h : Dom s) (hd : tl s'.disp = tl s.disp) : Dom s' :=
  ⟨h.tf.of_tl hd⟩

theorem afterVm_dom {s : St} (h : Dom s) (n : Nat) (vm' : SelVM.Vm) (infos : List SelVM.MatchInfo) :
    Dom (s.afterVm n vm' infos).1 := by
  unfold St.afterVm
  split
  · exact h
  · rename_i d hd
    exact h.of_eq (startMatchingInfos_tl infos h.tf hd)

theorem startTagCore_dom {s : St} (h : Dom s) (name : LocalName) (ns : Model.Ns) : Dom (startTagCore s name ns).1 := by
  unfold startTagCore
  split
  · exact h
  · split
    · exact h
    · simp only
      split <;> exact afterVm_dom h _ _ _
    · exact h.of_eq rfl

theorem startTag_dom {s : St} (h : Dom s) (name : LocalName) (ns : Model.Ns) : Dom (startTag s name ns).1 := by
  unfold startTag
  split
  · exact h
  · exact startTagCore_dom (s := { s with ord := s.ord + 1 }) ⟨h.tf⟩ name ns

theorem auxInfo_dom {s : St} (h : Dom s) (info : AuxInfo) : Dom (auxInfo s info).1 := by
  unfold auxInfo
  split
  · split
    · exact h
    · split
      · exact h
      · exact afterVm_dom h _ _ _
  · exact h

theorem endTag_dom {s : St} (h : Dom s) (name : LocalName) : Dom (endTag s name).1 := by
  unfold endTag
  split
  · exact h
  · split
    · exact ⟨h.tf⟩
    · split
      · simp only
        split
        · exact ⟨h.tf⟩
        · rename_i d hd
          exact h.of_eq (stopMatchingPopped_tl _ _ h.tf hd)
      · exact ⟨h.tf⟩

/-- `handle_token` touches neither the text handlers nor the fault -/
theorem token_frame (cfg : Cfg) (s : St) (t : Model.Token) :
    tl (token cfg s t).1.disp = tl s.disp ∧ (token cfg s t).1.fault = s.fault := by
  unfold token
  split
  · exact ⟨rfl, rfl⟩
  · split
    · -- start tag
      rename_i name attrs ns sc raw src base
      unfold tokStartTag
      split
      · split
        · exact ⟨rfl, rfl⟩
        · rename_i as _
          simp only
          generalize (if 0 < s.disp.removedContent then
              ({ name := name, attributes := as, ns := nsEdit ns, selfClosing := sc, raw := raw } : StartTag).apply (.mut .remove)
              else { name := name, attributes := as, ns := nsEdit ns, selfClosing := sc, raw := raw }) = st
          obtain ⟨f1, _, _, _, _⟩ := runClosures_frame cfg.elementScripts kElement Who.element (seeElement ns) Element.applyOps src
            s.disp.element.forEachActive s (Element.new st s.disp.nextElementCanHaveContent)
          have f2 := runClosures_fault cfg.elementScripts kElement Who.element (seeElement ns) Element.applyOps src
            s.disp.element.forEachActive s (Element.new st s.disp.nextElementCanHaveContent)
          split
          · exact ⟨by rw [f1], f2⟩
          · split
            · exact ⟨by rw [f1], f2⟩
            · rename_i d desc inv hd
              refine ⟨?_, f2⟩
              simp only
              rw [handleStartTag_tl _ _ _ hd, f1]
      · exact ⟨rfl, rfl⟩
    · -- end tag
      unfold tokEndTag
      split
      · exact ⟨rfl, rfl⟩
      · simp only
        split
        · exact ⟨rfl, rfl⟩
        · rename_i s' t' hr
          obtain ⟨a, _⟩ := runEndTagHandlers_frame _ _ _ _ _ _ hr
          have b := runEndTagHandlers_fault _ _ _ _ _ _ hr
          simp only
          exact ⟨by rw [a]; rfl, by rw [b]⟩
    · unfold tokComment
      simp only
      exact ⟨by rw [(runClosures_frame ..).1], runClosures_fault ..⟩
    · unfold tokDoctype
      simp only
      exact ⟨by rw [(runClosures_frame ..).1], runClosures_fault ..⟩
    · unfold tokText
      simp only
      exact ⟨by rw [(runClosures_frame ..).1], runClosures_fault ..⟩

theorem token_dom {cfg : Cfg} {s : St} (t : Model.Token) : Dom (token cfg s t).1 ↔ Dom s := by
  obtain ⟨a, b⟩ := token_frame cfg s t
  exact ⟨fun h => h.of_eq a.symm, fun h => h.of_eq a⟩

theorem handleEnd_dom {cfg : Cfg} {s : St} (h : Dom s) : Dom (handleEnd cfg s).1 := by
  unfold handleEnd
  split
  · exact h
  · split
    · exact h
    · rename_i en hs _
      simp only
      obtain ⟨a, _⟩ := runEndClosures_frame cfg hs { s with disp := { s.disp with end_ := en } } []
      exact h.of_eq (by rw [a]; rfl)

/-! ### `should_emit_content()` -/

theorem startMatchingInfos_removed {d d' : Dispatcher} (ms : List SelVM.MatchInfo)
    (hr : startMatchingInfos d ms = .ok d') : d'.removedContent = d.removedContent := by
  induction ms generalizing d with
  | nil => simp only [startMatchingInfos, Except.ok.injEq] at hr; subst hr; rfl
  | cons m ms ih =>
    unfold startMatchingInfos at hr
    split at hr
    · simp at hr
    · rename_i d1 h1
      rw [ih hr, startMatching_removed h1]

theorem afterVm_removed (s : St) (n : Nat) (vm' : SelVM.Vm) (infos : List SelVM.MatchInfo) :
    (s.afterVm n vm' infos).1.disp.removedContent = s.disp.removedContent := by
  unfold St.afterVm
  split
  · rfl
  · rename_i d hd
    exact startMatchingInfos_removed infos hd

theorem startTagCore_removed (s : St) (name : LocalName) (ns : Model.Ns) :
    (startTagCore s name ns).1.disp.removedContent = s.disp.removedContent := by
  unfold startTagCore
  split
  · rfl
  · split
    · rfl
    · simp only
      split <;> exact afterVm_removed _ _ _ _
    · rfl

theorem startTag_removed (s : St) (name : LocalName) (ns : Model.Ns) :
    (startTag s name ns).1.disp.removedContent = s.disp.removedContent := by
  unfold startTag
  split
  · rfl
  · exact startTagCore_removed { s with ord := s.ord + 1 } name ns

theorem auxInfo_removed (s : St) (info : AuxInfo) :
    (auxInfo s info).1.disp.removedContent = s.disp.removedContent := by
  unfold auxInfo
  split
  · split
    · rfl
    · split
      · rfl
      · exact afterVm_removed _ _ _ _
  · rfl

theorem stopMatchingPopped_removed0 {d d' : Dispatcher} (its : List SelVM.StackItem) (des : List Desc)
    (hr : stopMatchingPopped d its des = .ok d') (h0 : d.removedContent = 0) : d'.removedContent = 0 := by
  induction its generalizing d des with
  | nil => simp only [stopMatchingPopped, Except.ok.injEq] at hr; subst hr; exact h0
  | cons it its ih =>
    cases des with
    | nil => simp only [stopMatchingPopped, Except.ok.injEq] at hr; subst hr; exact h0
    | cons de des =>
      simp only [stopMatchingPopped] at hr
      split at hr
      · simp at hr
      · rename_i d1 h1
        exact ih des hr (stopMatching_removed0 h1 h0)

theorem endTag_removed0 (s : St) (name : LocalName) (h0 : s.disp.removedContent = 0) :
    (endTag s name).1.disp.removedContent = 0 := by
  unfold endTag
  split
  · exact h0
  · split
    · exact h0
    · split
      · simp only
        split
        · exact h0
        · rename_i d hd
          exact stopMatchingPopped_removed0 _ _ hd h0
      · exact h0

theorem shouldEmit_iff (s : St) : shouldEmit s = true ↔ s.disp.removedContent = 0 := by
  unfold shouldEmit
  simp

theorem shouldEmit_congr {s s' : St} (h : s'.disp.removedContent = s.disp.removedContent) : shouldEmit s' = shouldEmit s := by
  unfold shouldEmit; rw [h]

/-! ### text chunks when no text handler is registered -/

theorem freshText_bytes (b : Bytes) (l : Bool) : ({ text := b, lastInTextNode := l } : TextChunk).intoBytes encUtf8 = b := by
  unfold TextChunk.intoBytes Mutations.serialize TextChunk.serializeSelf
  simp only
  cases b with
  | nil => rfl
  | cons x xs => rfl

theorem token_text {cfg : Cfg} {s : St} (h : TF s.disp) (b : Bytes) (tt : TextType) (l : Bool) (src : Range) :
    token cfg s (.text b tt l src) =
      match s.fault with
      | some m => (s, { chunks := [], err := some (.panic m) })
      | none => (s, { chunks := [b] }) := by
  unfold token
  split
  · rename_i e he; rw [he]
  · rename_i he
    unfold tokText
    have hfa : s.disp.text.forEachActive = [] := by
      unfold HandlerVec.forEachActive; rw [h.1]; rfl
    simp only [hfa, runClosures, outOf, Bool.false_eq_true, if_false, freshText_bytes, he]

/-! ### tokens are observed through their absolute form -/

theorem attrConv_norm (raw : Bytes) (base ss : Nat) (hb : base ≤ ss) (a : Bytes × Bytes × AttrOutline) :
    attrConv raw (ss - base) a = attrConv raw ss (a.1, a.2.1, shA base a.2.2) := by
  unfold attrConv
  have e1 : a.2.2.raw.start + base - ss = a.2.2.raw.start - (ss - base) := by omega
  have e2 : a.2.2.raw.end + base - ss = a.2.2.raw.end - (ss - base) := by omega
  show _ = (if ss ≤ a.2.2.raw.start + base ∧ a.2.2.raw.start + base ≤ a.2.2.raw.end + base ∧
      a.2.2.raw.end + base - ss ≤ raw.length then
    some ({ name := a.1, value := a.2.1, raw := some (slice raw (a.2.2.raw.start + base - ss) (a.2.2.raw.end + base - ss)) } : Attribute)
    else none)
  by_cases hc : ss - base ≤ a.2.2.raw.start ∧ a.2.2.raw.start ≤ a.2.2.raw.end ∧ a.2.2.raw.end - (ss - base) ≤ raw.length
  · rw [if_pos hc, if_pos ⟨by omega, by omega, by omega⟩, e1, e2]
  · rw [if_neg hc, if_neg (fun h => hc ⟨by omega, by omega, by omega⟩)]

theorem mapM_attrConv_norm (raw : Bytes) (base ss : Nat) (hb : base ≤ ss) (as : List (Bytes × Bytes × AttrOutline)) :
    as.mapM (attrConv raw (ss - base)) = (as.map fun a => (a.1, a.2.1, shA base a.2.2)).mapM (attrConv raw ss) := by
  induction as with
  | nil => rfl
  | cons a as ih =>
    simp only [List.mapM_cons, List.map_cons, ih, attrConv_norm raw base ss hb a]

theorem token_normed (cfg : Cfg) (s : St) (t : Model.Token) (hw : TokWf t) : token cfg s t = token cfg s (normToken t) := by
  cases t with
  | startTag name attrs ns sc raw src base =>
    have hb : base ≤ src.start := hw
    unfold token
    split
    · rfl
    · simp only [normToken]
      unfold tokStartTag
      rw [if_pos hb, if_pos (Nat.zero_le _), Nat.sub_zero, mapM_attrConv_norm raw base src.start hb attrs]
  | _ => rfl

theorem rawCtl_token_norm (cfg : Cfg) (s : St) (t t' : Model.Token) (h : normToken t = normToken t') (hw : TokWf t)
    (hw' : TokWf t') : token cfg s t = token cfg s t' := by
  rw [token_normed cfg s t hw, token_normed cfg s t' hw', h]

/-! ### the attribute buffer of an aux-info request -/

theorem attrsOf_refines : ∀ (as as' : List AttrOutline) (inp inp' : Bytes) (l : List (Bytes × Bytes × AttrOutline)),
    as'.length = as.length →
    (∀ (k : Nat) (a a' : AttrOutline), as[k]? = some a → as'[k]? = some a' →
      (∀ b, checkedSlice inp a.name = some b → checkedSlice inp' a'.name = some b) ∧
      (∀ b, checkedSlice inp a.value = some b → checkedSlice inp' a'.value = some b)) →
    attrsOf inp as = some l →
    ∃ l', attrsOf inp' as' = some l' ∧ l'.map (fun a => (a.1, a.2.1)) = l.map (fun a => (a.1, a.2.1)) := by
  intro as
  induction as with
  | nil =>
    intro as' inp inp' l hlen _ h
    cases as' with
    | nil =>
      simp only [attrsOf, List.mapM_nil, Option.pure_def, Option.some.injEq] at h
      subst h
      exact ⟨[], rfl, rfl⟩
    | cons a' as' => simp at hlen
  | cons a as ih =>
    intro as' inp inp' l hlen hat h
    cases as' with
    | nil => simp at hlen
    | cons a' as' =>
      unfold attrsOf at h ⊢
      simp only [List.mapM_cons, Option.bind_eq_bind, Option.bind_eq_some_iff, Option.pure_def, Option.some.injEq] at h
      obtain ⟨b, hb, bs, hbs, rfl⟩ := h
      obtain ⟨h0n, h0v⟩ := hat 0 a a' rfl rfl
      obtain ⟨bs', hbs', hmap⟩ := ih as' inp inp' bs (by simpa using hlen)
        (fun k x x' hx hx' => hat (k + 1) x x' (by simpa using hx) (by simpa using hx')) (by unfold attrsOf; exact hbs)
      unfold attrsOf at hbs'
      simp only [List.mapM_cons, Option.bind_eq_bind, Option.pure_def, hbs']
      split at hb
      · rename_i n v hn hv
        simp only [Option.some.injEq] at hb
        subst hb
        rw [h0n n hn, h0v v hv]
        exact ⟨_, rfl, by simp [hmap]⟩
      · cases hb

theorem auxConv_refines {i i' : AuxInfo} (h : AuxRefines i i') {aux : SelVM.AuxStartTagInfo} (ha : auxConv i = some aux) :
    auxConv i' = some aux := by
  unfold auxConv at ha ⊢
  cases hl : attrsOf i.input i.attrs with
  | none => rw [hl] at ha; cases ha
  | some l =>
    rw [hl] at ha
    simp only [Option.map_some, Option.some.injEq] at ha
    obtain ⟨l', hl', hmap⟩ := attrsOf_refines i.attrs i'.attrs i.input i'.input l h.len h.attr hl
    rw [hl']
    simp only [Option.map_some, Option.some.injEq]
    rw [← ha, h.sc]
    congr 1
    have : ∀ (x y : List (Bytes × Bytes × AttrOutline)), x.map (fun a => (a.1, a.2.1)) = y.map (fun a => (a.1, a.2.1)) →
        x.map (fun a => (⟨a.1, a.2.1⟩ : LolHtml.Sel.Attr)) = y.map (fun a => (⟨a.1, a.2.1⟩ : LolHtml.Sel.Attr)) := by
      intro x y hxy
      have := congrArg (List.map fun (p : Bytes × Bytes) => (⟨p.1, p.2⟩ : LolHtml.Sel.Attr)) hxy
      rw [List.map_map, List.map_map] at this
      exact this
    exact this _ _ hmap

theorem rawCtl_aux_norm (s : St) (i i' : AuxInfo) (h : AuxRefines i i') :
    EPanic (auxInfo s i).2 ∨ auxInfo s i = auxInfo s i' := by
  unfold auxInfo
  split
  · cases ha : auxConv i with
    | none => left; simp only; trivial
    | some aux =>
      right
      rw [auxConv_refines h ha]
  · right; rfl

/-! ### the instance -/

theorem token_removed_nonTag (cfg : Cfg) (s : St) (t : Model.Token) (ht : tokIsTag t = false) :
    (token cfg s t).1.disp.removedContent = s.disp.removedContent := by
  unfold token
  split
  · rfl
  · cases t with
    | startTag => cases ht
    | endTag => cases ht
    | comment text raw src =>
      simp only [tokComment]
      rw [(runClosures_frame ..).1]
    | doctype name publicId systemId fq raw src =>
      simp only [tokDoctype]
      rw [(runClosures_frame ..).1]
    | text bytes tt last src =>
      simp only [tokText]
      rw [(runClosures_frame ..).1]

theorem token_text_state {cfg : Cfg} {s : St} (h : TF s.disp) (b : Bytes) (tt : TextType) (l : Bool) (src : Range) :
    (token cfg s (.text b tt l src)).1 = s := by
  rw [token_text h]
  cases s.fault <;> rfl

theorem pair_congr {cfg : Cfg} {β : Type} (x y : St × β) (hx : Valid cfg x.1) (hy : Valid cfg y.1) (h : x = y) :
    ((⟨x.1, hx⟩ : FullSt cfg), x.2) = (⟨y.1, hy⟩, y.2) := by
  subst h; rfl

/-- the domain of the instance: the underlying state is in `Dom` -/
def FullE (cfg : Cfg) (a b : FullSt cfg) : Prop := a = b ∧ Dom a.1

theorem fullCtl_textDead {cfg : Cfg} {g : FullSt cfg} (h : Dom g.1) {m : String} (he : g.1.fault = some m) :
    TextDead (fullCtl cfg) g := by
  intro b tt l src
  refine ⟨m, ?_⟩
  show (token cfg g.1 (.text b tt l src)).2.err = _
  rw [token_text h.tf, he]

/-- **The real controller is in the class** on the states without text handlers whose recorded fault (if
any) is panic-class. -/
theorem fullCtl_textBlindR (cfg : Cfg) : TextBlindR (fullCtl cfg) (FullE cfg) where
  dom := fun g g' h => by obtain ⟨rfl, hd⟩ := h; exact ⟨⟨rfl, hd⟩, ⟨rfl, hd⟩⟩
  dom_tok := fun g t h => ⟨rfl, (token_dom (cfg := cfg) t).1 h.2⟩
  trans := fun g1 g2 g3 h1 h2 => ⟨h1.1.trans h2.1, h1.2⟩
  token_norm := fun g t t' hn hw hw' => pair_congr _ _ _ _ (rawCtl_token_norm cfg g.1 t t' hn hw hw')
  aux_norm := fun g i i' h => by
    rcases rawCtl_aux_norm g.1 i i' h with h | h
    · exact Or.inl h
    · exact Or.inr (pair_congr _ _ _ _ h)
  start := fun g g' n ns h => by obtain ⟨rfl, hd⟩ := h; exact ⟨rfl, rfl, startTag_dom hd n ns⟩
  endT := fun g g' n h => by obtain ⟨rfl, hd⟩ := h; exact ⟨rfl, rfl, endTag_dom hd n⟩
  aux := fun g g' i h => by obtain ⟨rfl, hd⟩ := h; exact ⟨rfl, rfl, auxInfo_dom hd i⟩
  emit := fun g g' h => by obtain ⟨rfl, _⟩ := h; rfl
  emit_start := fun g n ns => shouldEmit_congr (startTag_removed g.1 n ns)
  emit_aux := fun g i => shouldEmit_congr (auxInfo_removed g.1 i)
  emit_end := fun g n h => (shouldEmit_iff _).2 (endTag_removed0 g.1 n ((shouldEmit_iff _).1 h))
  emit_tok := fun g t ht => shouldEmit_congr (token_removed_nonTag cfg g.1 t ht)
  flags := fun g g' h => by obtain ⟨rfl, _⟩ := h; rfl
  tok := fun g g' t h _ => by obtain ⟨rfl, hd⟩ := h; exact ⟨rfl, rfl, rfl, rfl, (token_dom (cfg := cfg) t).2 hd⟩
  text_ok := fun g b tt l src h => by
    cases hf : g.1.fault with
    | none =>
      left
      show (token cfg g.1 (.text b tt l src)).2.err = none ∧ (token cfg g.1 (.text b tt l src)).2.nextEncoding = none ∧
        (token cfg g.1 (.text b tt l src)).2.chunks.flatten = b
      rw [token_text h.2.tf, hf]
      exact ⟨rfl, rfl, by simp⟩
    | some e => exact Or.inr (fullCtl_textDead h.2 hf)
  dead_E := fun g g' h hd => by obtain ⟨rfl, _⟩ := h; exact hd
  dead_tok := fun g b tt l src h hd => by
    have : ((fullCtl cfg).token g (.text b tt l src)).1 = g := Subtype.ext (token_text_state h.2.tf b tt l src)
    rw [this]; exact hd
  text_cong := fun g g' b tt l src h => by
    obtain ⟨rfl, hd⟩ := h; exact ⟨rfl, (token_dom (cfg := cfg) _).2 hd⟩
  text_split := fun g b1 b2 tt l src h => by
    have e1 : ((fullCtl cfg).token g (.text b1 tt false ⟨src, src + b1.length⟩)).1 = g :=
      Subtype.ext (token_text_state h.2.tf _ _ _ _)
    rw [e1]
    have e2 : ((fullCtl cfg).token g (.text b2 tt l ⟨src + b1.length, src + b1.length + b2.length⟩)).1 = g :=
      Subtype.ext (token_text_state h.2.tf _ _ _ _)
    have e3 : ((fullCtl cfg).token g (.text (b1 ++ b2) tt l ⟨src, src + b1.length + b2.length⟩)).1 = g :=
      Subtype.ext (token_text_state h.2.tf _ _ _ _)
    rw [e2, e3]; exact h
  handleEnd := fun g g' h => by obtain ⟨rfl, hd⟩ := h; exact ⟨rfl, rfl, handleEnd_dom hd⟩

/-! ### configurations without text handlers -/

/-- no `text!` / `doc_text!` handler is registered -/
def noText (cfg : Cfg) : Bool :=
  cfg.sels.all (fun e => e.2.text.isNone) && cfg.docs.all (fun d => d.text.isNone)

theorem addSel_TF {d : Dispatcher} (h : TF d) (r : SelReg) (hr : r.text = false) :
    TF (d.addSelectorAssociatedHandlers r) := by
  unfold Dispatcher.addSelectorAssociatedHandlers
  simp only [hr, Bool.false_eq_true, if_false]
  refine ⟨h.1, ?_⟩
  intro loc hl
  simp only [List.mem_append, List.mem_singleton] at hl
  rcases hl with hl | rfl
  · exact h.2 loc hl
  · rfl

theorem foldSel_TF : ∀ (rs : List SelReg) (d : Dispatcher), TF d → (∀ r ∈ rs, r.text = false) →
    TF (rs.foldl Dispatcher.addSelectorAssociatedHandlers d) := by
  intro rs
  induction rs with
  | nil => intro d h _; exact h
  | cons r rs ih =>
    intro d h hr
    simp only [List.foldl_cons]
    exact ih _ (addSel_TF h r (hr r (List.mem_cons_self ..))) (fun x hx => hr x (List.mem_cons_of_mem _ hx))

theorem addDoc_tl (d : Dispatcher) (id : HId) (r : DocReg) (hr : r.text = false) :
    tl (d.addDocumentContentHandlers id r) = tl d := by
  unfold Dispatcher.addDocumentContentHandlers
  simp only [hr, Bool.false_eq_true, if_false]
  cases r.doctype <;> cases r.comments <;> cases r.end_ <;> rfl

theorem addDocs_TF : ∀ (rs : List DocReg) (d : Dispatcher) (base : Nat), TF d → (∀ r ∈ rs, r.text = false) →
    TF (d.addDocs base rs) := by
  intro rs
  induction rs with
  | nil => intro d _ h _; exact h
  | cons r rs ih =>
    intro d base h hr
    simp only [Dispatcher.addDocs]
    exact ih _ _ (h.of_tl (addDoc_tl d base r (hr r (List.mem_cons_self ..)))) (fun x hx => hr x (List.mem_cons_of_mem _ hx))

/-- the initial state of a rewriter without text handlers is in the domain of the instance -/
theorem init_dom (cfg : Cfg) (h : noText cfg = true) : Dom (FullSt.init cfg).1 := by
  unfold noText at h
  simp only [Bool.and_eq_true, List.all_eq_true] at h
  refine ⟨?_⟩
  show TF (Dispatcher.fromSettings cfg.selRegs cfg.docRegs)
  unfold Dispatcher.fromSettings
  refine addDocs_TF _ _ _ (foldSel_TF _ _ ⟨rfl, fun _ hl => by cases hl⟩ ?_) ?_
  · intro r hr
    unfold Cfg.selRegs at hr
    obtain ⟨e, he, rfl⟩ := List.mem_map.1 hr
    have := h.1 e he
    unfold SelHandlers.reg
    simp only
    cases ht : e.2.text with
    | none => rfl
    | some x => rw [ht] at this; cases this
  · intro r hr
    unfold Cfg.docRegs at hr
    obtain ⟨e, he, rfl⟩ := List.mem_map.1 hr
    have := h.2 e he
    unfold DocHandlers.reg
    simp only
    cases ht : e.text with
    | none => rfl
    | some x => rw [ht] at this; cases this

theorem init_E (cfg : Cfg) (h : noText cfg = true) : FullE cfg (FullSt.init cfg) (FullSt.init cfg) := ⟨rfl, init_dom cfg h⟩

theorem foldSel_removed : ∀ (rs : List SelReg) (d : Dispatcher),
    (rs.foldl Dispatcher.addSelectorAssociatedHandlers d).removedContent = d.removedContent := by
  intro rs
  induction rs with
  | nil => intro d; rfl
  | cons r rs ih =>
    intro d
    simp only [List.foldl_cons]
    rw [ih]
    unfold Dispatcher.addSelectorAssociatedHandlers
    cases r.element <;> cases r.comments <;> cases r.text <;> rfl

theorem addDocs_removed : ∀ (rs : List DocReg) (d : Dispatcher) (base : Nat),
    (d.addDocs base rs).removedContent = d.removedContent := by
  intro rs
  induction rs with
  | nil => intro d _; rfl
  | cons r rs ih =>
    intro d base
    simp only [Dispatcher.addDocs]
    rw [ih]
    unfold Dispatcher.addDocumentContentHandlers
    cases r.doctype <;> cases r.comments <;> cases r.text <;> cases r.end_ <;> rfl

/-- a fresh rewriter emits content -/
theorem init_shouldEmit (cfg : Cfg) : (fullCtl cfg).shouldEmit (FullSt.init cfg) = true := by
  show shouldEmit (St.init cfg) = true
  rw [shouldEmit_iff]
  show (Dispatcher.fromSettings cfg.selRegs cfg.docRegs).removedContent = 0
  unfold Dispatcher.fromSettings
  rw [addDocs_removed, foldSel_removed]
  rfl

end LolHtml.Model.Chunk.R
