/-
The tag events of the refinement: `handle_end_tag` (+ the one-shot end-tag token) and
`handle_start_tag` (+ the one-shot start-tag token).
-/
import LolHtml.Lemmas.ScopeRefine

namespace LolHtml.Lemmas.Scope
open LolHtml.Model.Handlers LolHtml.Model.Controller LolHtml.Spec.Scope

theorem matched_nil_of_no_sels (sels : List SelReg) (sp : List OpenElem) (hs : sels = [])
    (wf : ∀ e ∈ sp, ∀ m ∈ e.matched, m < sels.length) : ∀ e ∈ sp, e.matched = [] := by
  intro e he
  apply List.eq_nil_iff_forall_not_mem.2
  intro m hm
  have := wf e he m hm
  simp [hs] at this

theorem openCount_zero (sp : List OpenElem) (h : ∀ e ∈ sp, e.matched = []) :
    openCount sp = fun _ => 0 := by
  funext x
  induction sp with
  | nil => rfl
  | cons e sp ih =>
    simp [h e (by simp), ih (fun e' he' => h e' (by simp [he']))]

theorem flatMap_subs_nil (l : List OpenElem) (ord : Nat) (h : ∀ e ∈ l, e.subs = []) :
    (l.flatMap fun e => e.subs.map fun (p : HId × Nat) => Invocation.endTag p.1 p.2 e.ord ord) =
      [] := by
  induction l with
  | nil => rfl
  | cons e l ih =>
    simp [h e (by simp), ih (fun e' he' => h e' (by simp [he']))]

theorem countP_zero (l : List OpenElem) (h : ∀ e ∈ l, e.removed = false) :
    l.countP (·.removed) = 0 := by
  rw [List.countP_eq_zero]
  intro e he
  simp [h e he]

theorem hasActive_zero {α : Type} (items : List (Item α)) (h : ∀ it ∈ items, it.userCount = 0) :
    (mk items).hasActive = false := (hasActive_false_iff items).2 h

theorem ex_ok {σ ε β : Type} {P : σ → Prop} {s0 : σ} {L E : β} (hL : L = E) (hI : P s0) :
    ∃ s', (Except.ok (s0, L) : Except ε (σ × β)) = .ok (s', E) ∧ P s' :=
  ⟨s0, by rw [hL], hI⟩

/-! ### End tags -/

theorem step_endTag (script : ElemScript) (sels : List SelReg) (docs : List DocReg)
    (sp : List OpenElem) (s : State) (ord : Nat) (name : Name) (inv : Inv sels docs sp s) :
    ∃ s', step script s ord (.endTag name) = .ok (s', expected sels docs sp ord (.endTag name)) ∧
      Inv sels docs (openStep script sels sp ord (.endTag name)) s' := by
  obtain ⟨⟨d, vm⟩, flags⟩ := s
  have hvm := inv.vm
  cases vm with
  | none =>
    simp only at hvm
    obtain ⟨hs, hE⟩ := hvm
    have hm := matched_nil_of_no_sels sels sp hs inv.wf
    have hact : d.endTag.hasActive = false := by rw [hE]; exact hasActive_zero [] (by simp)
    refine ⟨{ ctrl := { disp := d, vm := none }, flags := d.getTokenCaptureFlags }, ?_, ?_⟩
    · simp only [step, Controller.handleEndTag, Dispatcher.getTokenCaptureFlags, hact,
        Bool.false_eq_true, if_false, expected]
      congr 2
      cases hsl : splitLast (fun e => decide (e.name = name)) sp with
      | none => rfl
      | some r =>
        obtain ⟨k2, p2⟩ := r
        have happ := splitLast_append _ _ _ _ hsl
        simp only
        symm
        apply flatMap_subs_nil
        intro e he
        exact (inv.triv hs e (by rw [happ]; simp at he ⊢; exact Or.inr he)).1
    · have hsub : ∀ e ∈ openStep script sels sp ord (.endTag name), e ∈ sp := by
        intro e he
        simp only [openStep] at he
        cases hsl : splitLast (fun e => decide (e.name = name)) sp with
        | none => rw [hsl] at he; exact he
        | some r =>
          obtain ⟨k2, p2⟩ := r
          rw [hsl] at he
          rw [splitLast_append _ _ _ _ hsl]; simp [he]
      have z1 := openCount_zero sp hm
      have z2 := openCount_zero (openStep script sels sp ord (.endTag name))
        (fun e he => hm e (hsub e he))
      have r1 := countP_zero sp (fun e he => (inv.triv hs e he).2)
      have r2 := countP_zero (openStep script sels sp ord (.endTag name))
        (fun e he => (inv.triv hs e (hsub e he)).2)
      refine { text := ?_, comment := ?_, element := inv.element, doctype := inv.doctype,
               end_ := inv.end_, reg := inv.reg, removed := ?_, vm := ⟨hs, hE⟩, flags := rfl,
               wf := fun e he => inv.wf e (hsub e he), triv := fun h e he => inv.triv h e (hsub e he) }
      · rw [z2, ← z1]; exact inv.text
      · rw [z2, ← z1]; exact inv.comment
      · rw [r2, ← r1]; exact inv.removed
  | some st =>
    simp only at hvm
    obtain ⟨hne, items, hE, hrel⟩ := hvm
    rcases hrel.split_last name with ⟨h1, h2⟩ | ⟨k1, p1, k2, p2, A, B, h1, h2, h3, h4, h5⟩
    · -- stray end tag
      have hact : d.endTag.hasActive = false := by
        rw [hE]; exact hasActive_zero items hrel.counts_zero
      refine ⟨{ ctrl := { disp := d, vm := some st }, flags := d.getTokenCaptureFlags }, ?_, ?_⟩
      · simp only [step, Controller.handleEndTag, h1, Dispatcher.getTokenCaptureFlags, hact,
          Bool.false_eq_true, if_false, expected, h2]
      · simp only [openStep, h2]
        exact { text := inv.text, comment := inv.comment, element := inv.element,
                doctype := inv.doctype, end_ := inv.end_, reg := inv.reg, removed := inv.removed,
                vm := ⟨hne, items, hE, hrel⟩, flags := rfl, wf := inv.wf, triv := inv.triv }
    · have happ := splitLast_append _ _ _ _ h2
      have ht : d.text = mk (addBy id (fun h => openCount k2 h + openCount p2 h)
          (regItems sels.length (textIds sels docs))) := by
        have := inv.text
        simp only [happ] at this
        rw [this]; congr 2; funext h; simp
      have hc : d.comment = mk (addBy id (fun h => openCount k2 h + openCount p2 h)
          (regItems sels.length (commentIds sels docs))) := by
        have := inv.comment
        simp only [happ] at this
        rw [this]; congr 2; funext h; simp
      have hstop := stopMatchingAll_spec h5 d sels.length
        (regItems sels.length (textIds sels docs)) (regItems sels.length (commentIds sels docs))
        (elementIds sels) (openCount k2) A (k2.countP (·.removed))
        (fun e he => inv.wf e (by rw [happ]; simp [he])) ht hc (by simpa using inv.reg)
        (by rw [hE, h3]) (by simp)
        (by have := inv.removed; simp only [happ, List.countP_append] at this; exact this)
      have hAz : ∀ it ∈ A, it.userCount = 0 := h4.counts_zero
      have wf' : ∀ e ∈ k2, ∀ m ∈ e.matched, m < sels.length :=
        fun e he => inv.wf e (by rw [happ]; simp [he])
      cases hact : (mk (A ++ B.map fun x => { x with userCount := x.userCount + 1 })).hasActive with
      | false =>
        have hz := (hasActive_false_iff _).1 hact
        have hB : B = [] := by
          cases B with
          | nil => rfl
          | cons b bs =>
            have := hz { b with userCount := b.userCount + 1 } (by simp)
            simp at this
        subst hB
        simp only [step, Controller.handleEndTag, h1, hstop, Dispatcher.getTokenCaptureFlags,
          hact, Bool.false_eq_true, if_false, expected, h2, openStep]
        apply ex_ok
        · symm
          apply flatMap_subs_nil
          intro e he
          exact h5.nil_items_subs rfl e (by simpa using he)
        · exact { text := rfl, comment := rfl, element := inv.element, doctype := inv.doctype,
                  end_ := inv.end_, reg := inv.reg, removed := rfl,
                  vm := ⟨hne, A, by simp, h4⟩,
                  flags := by simp [Dispatcher.getTokenCaptureFlags, hasActive_zero A hAz], wf := wf',
                  triv := fun h => absurd h hne }
      | true =>
        have hsplit := removeTail_split A (B.map fun x => { x with userCount := x.userCount + 1 })
          hAz (by
            intro it hit
            obtain ⟨y, _, rfl⟩ := List.mem_map.1 hit
            simp)
        simp only [step, Controller.handleEndTag, h1, hstop, Dispatcher.getTokenCaptureFlags,
          hact, if_true, Dispatcher.handleEndTagToken, hsplit, expected, h2, openStep]
        apply ex_ok
        · rw [← h5.subs_flat ord]
          simp [List.map_reverse, List.map_map, Function.comp_def]
        · exact { text := rfl, comment := rfl, element := inv.element, doctype := inv.doctype,
                  end_ := inv.end_, reg := inv.reg, removed := rfl,
                  vm := ⟨hne, A, rfl, h4⟩,
                  flags := by
                    simp [Dispatcher.getTokenCaptureFlags, hasActive_zero A hAz],
                  wf := wf', triv := fun h => absurd h hne }

end LolHtml.Lemmas.Scope
