import LolHtml.Lemmas.TagStates
import LolHtml.Lemmas.TagRun
import LolHtml.Thm.C16_Attrs
/-!
The comment states of the tokenizer table as a decidable side-condition on the table
(`CommentStatesOk`, evaluated on `Gen.Syntax.table`), and one symbolic-evaluation lemma per
(state, byte class) for the LEXER machine with the recording sink: what one invocation of `stateFn`
does. Same method as package attrs' `Lemmas/TagStates.lean` for the tag states.
-/
namespace LolHtml.Model.CommentStates
open LolHtml LolHtml.Model LolHtml.Model.TagStates
open LolHtml.Thm.C16 (Lexeme recOps)

/-- markup_declaration_open_state (syntax/tag/mod.rs) -/
def exp30 : Key := ([⟨.startTokenPart, false⟩], none, [
  ⟨.chSeq [45, 45] false, .seq ⟨[], some (.goto 41)⟩⟩,
  ⟨.chSeq [68, 79, 67, 84, 89, 80, 69] true, .seq ⟨[], some (.goto 51)⟩⟩,
  ⟨.chSeq [91, 67, 68, 65, 84, 65, 91] false, .ite .cdataAllowed ⟨[⟨.emitRawWithoutToken, true⟩, ⟨.enterCdata, false⟩], some (.goto 0)⟩ ⟨[⟨.createComment, false⟩], some (.goto 40)⟩⟩,
  ⟨.eof, .seq ⟨[⟨.createComment, false⟩], some (.reconsume 40)⟩⟩,
  ⟨.any, .seq ⟨[⟨.createComment, false⟩], some (.reconsume 40)⟩⟩])

/-- comment_start_state (syntax/comment.rs) -/
def exp41 : Key := ([⟨.createComment, false⟩, ⟨.startTokenPart, false⟩], none, [
  ⟨.byte 45, .seq ⟨[⟨.markCommentTextEnd, false⟩], some (.goto 43)⟩⟩,
  ⟨.byte 62, .seq ⟨[⟨.markCommentTextEnd, false⟩, ⟨.emitCurrentToken, true⟩], some (.goto 2)⟩⟩,
  ⟨.eof, .seq ⟨[], some (.reconsume 42)⟩⟩,
  ⟨.any, .seq ⟨[], some (.reconsume 42)⟩⟩])

/-- comment_state -/
def exp42 : Key := ([], none, [
  ⟨.byte 45, .seq ⟨[⟨.markCommentTextEnd, false⟩], some (.goto 44)⟩⟩,
  ⟨.byte 60, .seq ⟨[], some (.goto 46)⟩⟩,
  ⟨.eof, .seq ⟨[⟨.markCommentTextEnd, false⟩, ⟨.emitCurrentTokenAndEof, true⟩], none⟩⟩,
  ⟨.any, .seq ⟨[⟨.markCommentTextEnd, false⟩], none⟩⟩])

/-- comment_start_dash_state -/
def exp43 : Key := ([], none, [
  ⟨.byte 45, .seq ⟨[], some (.goto 45)⟩⟩,
  ⟨.byte 62, .seq ⟨[⟨.emitCurrentToken, true⟩], some (.goto 2)⟩⟩,
  ⟨.eof, .seq ⟨[⟨.emitCurrentTokenAndEof, true⟩], none⟩⟩,
  ⟨.any, .seq ⟨[], some (.reconsume 42)⟩⟩])

/-- comment_end_dash_state -/
def exp44 : Key := ([], none, [
  ⟨.byte 45, .seq ⟨[], some (.goto 45)⟩⟩,
  ⟨.eof, .seq ⟨[⟨.emitCurrentTokenAndEof, true⟩], none⟩⟩,
  ⟨.any, .seq ⟨[], some (.reconsume 42)⟩⟩])

/-- comment_end_state -/
def exp45 : Key := ([], none, [
  ⟨.byte 62, .seq ⟨[⟨.emitCurrentToken, true⟩], some (.goto 2)⟩⟩,
  ⟨.byte 33, .seq ⟨[], some (.goto 50)⟩⟩,
  ⟨.byte 45, .seq ⟨[⟨.shiftCommentTextEndBy 1, false⟩], none⟩⟩,
  ⟨.eof, .seq ⟨[⟨.emitCurrentTokenAndEof, true⟩], none⟩⟩,
  ⟨.any, .seq ⟨[⟨.shiftCommentTextEndBy 2, false⟩], some (.reconsume 42)⟩⟩])

/-- comment_less_than_sign_state -/
def exp46 : Key := ([], none, [
  ⟨.byte 33, .seq ⟨[⟨.markCommentTextEnd, false⟩], some (.goto 47)⟩⟩,
  ⟨.byte 60, .seq ⟨[⟨.markCommentTextEnd, false⟩], none⟩⟩,
  ⟨.eof, .seq ⟨[⟨.markCommentTextEnd, false⟩], some (.reconsume 42)⟩⟩,
  ⟨.any, .seq ⟨[⟨.markCommentTextEnd, false⟩], some (.reconsume 42)⟩⟩])

/-- comment_less_than_sign_bang_state -/
def exp47 : Key := ([], none, [
  ⟨.byte 45, .seq ⟨[⟨.markCommentTextEnd, false⟩], some (.goto 48)⟩⟩,
  ⟨.eof, .seq ⟨[⟨.markCommentTextEnd, false⟩], some (.reconsume 42)⟩⟩,
  ⟨.any, .seq ⟨[⟨.markCommentTextEnd, false⟩], some (.reconsume 42)⟩⟩])

/-- comment_less_than_sign_bang_dash_state -/
def exp48 : Key := ([], none, [
  ⟨.byte 45, .seq ⟨[], some (.goto 49)⟩⟩,
  ⟨.eof, .seq ⟨[], some (.reconsume 44)⟩⟩,
  ⟨.any, .seq ⟨[], some (.reconsume 44)⟩⟩])

/-- comment_less_than_sign_bang_dash_dash_state -/
def exp49 : Key := ([], none, [
  ⟨.eof, .seq ⟨[], some (.reconsume 45)⟩⟩,
  ⟨.any, .seq ⟨[], some (.reconsume 45)⟩⟩])

/-- comment_end_bang_state -/
def exp50 : Key := ([], none, [
  ⟨.byte 45, .seq ⟨[⟨.shiftCommentTextEndBy 3, false⟩], some (.goto 44)⟩⟩,
  ⟨.byte 62, .seq ⟨[⟨.emitCurrentToken, true⟩], some (.goto 2)⟩⟩,
  ⟨.eof, .seq ⟨[⟨.emitCurrentTokenAndEof, true⟩], none⟩⟩,
  ⟨.any, .seq ⟨[⟨.shiftCommentTextEndBy 3, false⟩], some (.reconsume 42)⟩⟩])

def cexpected : List (Nat × Key) :=
  [(30, exp30), (41, exp41), (42, exp42), (43, exp43), (44, exp44), (45, exp45), (46, exp46), (47, exp47),
   (48, exp48), (49, exp49), (50, exp50)]

/-- the side-condition: the markup-declaration-open state and the ten comment states resolve like the expected
ones (`stateMatches`, `Lemmas/ArmResolve.lean`: same enter actions, needle and sequence arms, and for every input class
the first matching arm has the same kind and body — the order of arms with disjoint patterns does not matter), and the
data / tag-open states and byte classes are those of `TagStatesOk` -/
def CommentStatesOk (t : Table) : Bool :=
  cexpected.all (stateMatches t) && TagStatesOk t

/-- diagnostics: (state name, code) as for `tagStatesWitness`: 1000 = enter/memchr, 2000 = missing, 3000 = sequence
arms, otherwise the first input class that resolves differently -/
def commentStatesWitness (t : Table) : List (String × Nat) :=
  cexpected.filterMap (stateWitness t)

theorem cstate_of_ok {t : Table} (h : CommentStatesOk t = true) {s : Nat} {k : Key} (hm : (s, k) ∈ cexpected) :
    ∃ sd, t.state? s = some sd ∧ sd.enter = k.1 ∧ sd.memchr = k.2.1 ∧
      (∀ {κ : Type} (env : Env κ), env.tbl = t → ∀ (inp : Bytes) (ch : Option UInt8) (m : M κ),
        dispatch env inp ch sd.arms m = dispatch env inp ch k.2.2 m) := by
  unfold CommentStatesOk at h
  simp only [Bool.and_eq_true, List.all_eq_true] at h
  exact state_of_matches (h.1 _ hm)

theorem tagOk_of_ok {t : Table} (h : CommentStatesOk t = true) : TagStatesOk t = true := by
  unfold CommentStatesOk at h
  simp only [Bool.and_eq_true] at h
  exact h.2

end LolHtml.Model.CommentStates
