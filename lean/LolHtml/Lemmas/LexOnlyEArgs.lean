import LolHtml.Lemmas.LexOnlyE
import LolHtml.Lemmas.ArgsStream
/-!
# Pure lexer mode until the first error, side by side with a second sink — for VALID lexemes only

`Lemmas/LexOnlyE.lean` lifts a per-operation comparison of two sinks (`OpsLexE`: on every lexeme the first sink
behaves like the second, or fails with an error of a class `G`) to `Parser.parse`, `write`, `end` and whole
runs. Here the per-operation hypothesis is only asked for lexemes that are VALID (`OpsLexEV`: `TagArgsOK` /
`NTLexValid`); that the parser only hands over valid lexemes is `parse_args_valid` (any sink). The conclusions are
those of `Lemmas/LexOnlyE.lean`, with the argument-validity invariant (`PArgs`, `SArgs`) carried along.
-/
set_option linter.unusedSimpArgs false
set_option linter.unusedVariables false
namespace LolHtml.Model.LexE
open LolHtml LolHtml.Model
open LolHtml.Lemmas.Sim (Inv inv_new)

variable {κ : Type}

/-- `OpsLexE`, asked for valid lexemes only -/
structure OpsLexEV (ops₁ ops₂ : SinkOps κ) (inp : Bytes) (J : κ → Prop) (G : Err → Prop) : Prop where
  handleTag : ∀ lx k, J k → TagArgsOK inp lx →
    (ops₁.handleTag inp lx k = ops₂.handleTag inp lx k ∧
      ∀ a, (ops₁.handleTag inp lx k).2 = .ok a → J (ops₁.handleTag inp lx k).1 ∧ a = .lex) ∨
    ∃ e, G e ∧ (ops₁.handleTag inp lx k).2 = .error e
  handleNonTag : ∀ lx k, J k → NTLexValid inp lx →
    (ops₁.handleNonTag inp lx k = ops₂.handleNonTag inp lx k ∧
      ((ops₁.handleNonTag inp lx k).2 = .ok () → J (ops₁.handleNonTag inp lx k).1)) ∨
    ∃ e, G e ∧ (ops₁.handleNonTag inp lx k).2 = .error e

theorem OpsLexE.toV {ops₁ ops₂ : SinkOps κ} {inp : Bytes} {J : κ → Prop} {G : Err → Prop}
    (h : OpsLexE ops₁ ops₂ inp J G) : OpsLexEV ops₁ ops₂ inp J G :=
  ⟨fun lx k hk _ => h.handleTag lx k hk, fun lx k hk _ => h.handleNonTag lx k hk⟩

section
variable {tbl : Table} {cfg : TagCfg} {ops₁ ops₂ : SinkOps κ} {inp : Bytes} {J : κ → Prop} {G : Err → Prop}

/-- the guarded first sink satisfies the unrestricted hypothesis, for the class enlarged by the guard's errors -/
theorem OpsLexEV.guard (h : OpsLexEV ops₁ ops₂ inp J G) (s : String) :
    OpsLexE (guardArgs (argGuard s) ops₁) ops₂ inp J (fun e => G e ∨ (argGuard s).Fires inp e) where
  handleTag := fun lx k hk => by
    cases hg : (argGuard s).tag inp lx with
    | some e =>
      right
      refine ⟨e, Or.inr (Or.inl ⟨lx, hg⟩), ?_⟩
      simp only [guardArgs, hg]
    | none =>
      have heq : (guardArgs (argGuard s) ops₁).handleTag inp lx k = ops₁.handleTag inp lx k := by
        simp only [guardArgs, hg]
      rw [heq]
      rcases h.handleTag lx k hk (argGuard_tag_none hg) with hl | ⟨e, hG, he⟩
      · exact Or.inl hl
      · exact Or.inr ⟨e, Or.inl hG, he⟩
  handleNonTag := fun lx k hk => by
    cases hg : (argGuard s).nonTag inp lx with
    | some e =>
      right
      refine ⟨e, Or.inr (Or.inr ⟨lx, hg⟩), ?_⟩
      simp only [guardArgs, hg]
    | none =>
      have heq : (guardArgs (argGuard s) ops₁).handleNonTag inp lx k = ops₁.handleNonTag inp lx k := by
        simp only [guardArgs, hg]
      rw [heq]
      rcases h.handleNonTag lx k hk (argGuard_nonTag_none hg) with hl | ⟨e, hG, he⟩
      · exact Or.inl hl
      · exact Or.inr ⟨e, Or.inl hG, he⟩

/-- **`Parser::parse` in pure lexer mode, until the first error, side by side with a second sink, the
per-operation comparison being known for valid lexemes only.** -/
theorem parse_lexE_args {cert : Cert} {rcert : RCert} {s : String} {Dk : κ → Prop} (h : OpsLexEV ops₁ ops₂ inp J G)
    (ht : ArgsTable tbl cert rcert) (hs : T2 s) (hne : s ≠ rawSite) (hf : ArgsFresh s ops₁ inp Dk) (last : Bool)
    (p : Parser κ) (hp : PLex J p) (hpa : PArgs tbl cert rcert inp.length p) (hDk : Dk p.x.sink) :
    (Parser.parse ⟨tbl, cfg, ops₁⟩ inp last p = Parser.parse ⟨tbl, cfg, ops₂⟩ inp last p ∧
      (∀ k, (Parser.parse ⟨tbl, cfg, ops₁⟩ inp last p).2 = .ok k →
        PLex J (Parser.parse ⟨tbl, cfg, ops₁⟩ inp last p).1 ∧ k ≤ inp.length ∧
        Dk (Parser.parse ⟨tbl, cfg, ops₁⟩ inp last p).1.x.sink ∧
        (last = false → PArgs tbl cert rcert (inp.length - k) (Parser.parse ⟨tbl, cfg, ops₁⟩ inp last p).1))) ∨
    ∃ e, G e ∧ (Parser.parse ⟨tbl, cfg, ops₁⟩ inp last p).2 = .error (RelE.parseErr e) := by
  obtain ⟨g1, g2, g3, g4⟩ := parse_args_valid (cfg := cfg) ht.wf ht.cert ht.rcert ht.emits hs hne hf last p hpa hDk
  rcases parse_lexE (tbl := tbl) (cfg := cfg) (h.guard s) ht.emits last p hp with ⟨he, hpl⟩ | ⟨e, hGe, he⟩
  · rw [g1] at he hpl
    exact Or.inl ⟨he, fun k hk => ⟨hpl k hk, (g4 k hk).1, (g4 k hk).2.1, (g4 k hk).2.2⟩⟩
  · rw [g1] at he
    rcases hGe with hG | hF
    · exact Or.inr ⟨e, hG, he⟩
    · exfalso
      rcases argGuard_fires hF with rfl | rfl
      · exact g2 he
      · exact g3 he

end

/-! ## stream and rewriter over two controllers -/

section
variable {γ : Type} {w : World γ} {c2 : Controller γ} {J : Disp γ → Prop} {G : Err → Prop}
  {cert : Cert} {rcert : RCert} {s0 : String} {Dk : Disp γ → Prop}

local notation "w2" => Chunk.R.World.withCtl w c2

/-- `CtlLexE` with the per-operation comparison asked for valid lexemes only -/
structure CtlLexEV (w : World γ) (c2 : Controller γ) (J : Disp γ → Prop) (G : Err → Prop) : Prop where
  ops : ∀ inp, OpsLexEV (dispOps w.ctl) (dispOps c2) inp J G
  bail : w.ctl.bailOut = c2.bailOut
  flush : ∀ d d' inp k, d.flushRemaining inp k = .ok d' → J d → J d'
  handleEnd : ∀ d, J d → w.ctl.handleEnd d.ctl = c2.handleEnd d.ctl ∨ ∃ e, G e ∧ (w.ctl.handleEnd d.ctl).2.2 = some e
  initial : ∀ g, w.ctl.initialFlags g = c2.initialFlags g

/-- lexer mode with the sink invariant, and the argument-validity invariant -/
def SLexEA (w : World γ) (cert : Cert) (rcert : RCert) (J Dk : Disp γ → Prop) (s : Stream γ) : Prop :=
  PLex J s.parser ∧ SArgs w cert rcert Dk s

variable (h : CtlLexEV w c2 J G) (ht : ArgsTable w.tbl cert rcert) (hs0 : T2 s0) (hne : s0 ≠ rawSite)
  (hf : ArgsCtl w s0 Dk)
include h

theorem bail_eqV : Stream.bail w = Stream.bail (w2) := by
  funext s e sl
  unfold Stream.bail Disp.runBailOut
  show (if s.shouldBailOutFor e = true then _ else _) = (if s.shouldBailOutFor e = true then _ else _)
  rw [show (w2).ctl.bailOut = w.ctl.bailOut from h.bail.symm]

theorem chunkFor_eqV : Stream.chunkFor w = Stream.chunkFor (w2) := by
  funext s data
  unfold Stream.chunkFor
  rw [bail_eqV h]

theorem keepTail_eqV : Stream.keepTail w = Stream.keepTail (w2) := by
  funext s data chunk consumed
  unfold Stream.keepTail
  rw [bail_eqV h]

include ht hs0 hne hf

/-- **`TransformStream::write`** -/
theorem write_lexEA (s : Stream γ) (data : Bytes) (hs : SLexEA w cert rcert J Dk s) :
    (s.write w data = s.write (w2) data ∧ ((s.write w data).2 = .ok () → SLexEA w cert rcert J Dk (s.write w data).1)) ∨
    ∃ e, G e ∧ (s.write w data).2 = .error (RelE.parseErr e) := by
  obtain ⟨hpl0, hsa⟩ := hs
  obtain ⟨wa1, wa2⟩ := Stream.write_sargs ht hs0 hne hf s data hsa
  revert wa2
  unfold Stream.write
  rw [← chunkFor_eqV h, ← keepTail_eqV h, ← bail_eqV h]
  cases hcf : s.chunkFor w data with
  | inl s' => intro _; exact Or.inl ⟨rfl, fun hh => by cases hh⟩
  | inr sc =>
    obtain ⟨s1, chunk⟩ := sc
    obtain ⟨_, c2', _, _, _⟩ := Stream.chunkFor_inr hcf
    obtain ⟨hpa, hdk, _⟩ := wa1 s1 chunk hcf
    dsimp only
    intro wa2
    rcases parse_lexE_args (tbl := w.tbl) (cfg := w.tags) (h.ops chunk) ht hs0 hne (hf.fresh chunk) false s1.parser
        (by rw [c2']; exact hpl0) hpa hdk with ⟨he, hpl⟩ | ⟨e, hG, he⟩
    · have he' : s1.parser.parse w.env chunk false = s1.parser.parse (w2).env chunk false := he
      rw [← he']
      refine Or.inl ⟨rfl, ?_⟩
      cases hpr : (s1.parser.parse w.env chunk false).2 with
      | error e => intro hh; cases hh
      | ok consumed =>
        dsimp only
        cases hfl : Disp.flushRemaining (Stream.disp { s1 with parser := (s1.parser.parse w.env chunk false).1 }) chunk consumed with
        | error e => intro hh; cases hh
        | ok d =>
          dsimp only
          intro hk
          refine ⟨?_, ?_⟩
          · obtain ⟨k1, k2⟩ := Stream.keepTail_lex (w := w)
              (Stream.setDisp { s1 with parser := (s1.parser.parse w.env chunk false).1 } d) data chunk consumed
            rw [k2 hk]
            obtain ⟨⟨u1, u2, u3, u4⟩, _⟩ := hpl consumed hpr
            exact ⟨u1, u2, h.flush _ _ _ _ hfl u3, u4⟩
          · have := wa2
            rw [hpr] at this
            dsimp only at this
            rw [hfl] at this
            exact this hk
    · right
      refine ⟨e, hG, ?_⟩
      have he' : (s1.parser.parse w.env chunk false).2 = .error (RelE.parseErr e) := he
      rw [he']

/-- **`TransformStream::end`** -/
theorem end_lexEA (s : Stream γ) (hs : SLexEA w cert rcert J Dk s) :
    s.end w = s.end (w2) ∨ ∃ e', GE G e' ∧ (s.end w).2 = .error e' := by
  obtain ⟨hpl0, hsa⟩ := hs
  obtain ⟨hpa, hdk, _⟩ := Stream.end_sargs ht hs0 hne hf s hsa
  unfold Stream.end
  rw [← bail_eqV h]
  dsimp only
  rcases parse_lexE_args (tbl := w.tbl) (cfg := w.tags) (h.ops (if s.hasBuffered then s.buf.data else [])) ht hs0 hne (hf.fresh _)
      true s.parser hpl0 hpa hdk with ⟨he, hpl⟩ | ⟨e, hG, he⟩
  · have he' : s.parser.parse w.env (if s.hasBuffered then s.buf.data else []) true =
        s.parser.parse (w2).env (if s.hasBuffered then s.buf.data else []) true := he
    rw [← he']
    cases hpr : (s.parser.parse w.env (if s.hasBuffered then s.buf.data else []) true).2 with
    | error e => exact Or.inl rfl
    | ok consumed =>
      dsimp only
      obtain ⟨⟨u1, u2, u3, u4⟩, _⟩ := hpl consumed hpr
      unfold Disp.finish
      cases hfl : (Stream.disp { s with parser := (s.parser.parse w.env (if s.hasBuffered then s.buf.data else []) true).1 }).flushRemaining
          (if s.hasBuffered then s.buf.data else []) (if s.hasBuffered then s.buf.data else []).length with
      | error e => exact Or.inl rfl
      | ok d =>
        simp only [DRes.ofExcept, DRes.bind]
        rcases h.handleEnd d (h.flush _ _ _ _ hfl u3) with heq | ⟨e, hG, hee⟩
        · have heq' : w.ctl.handleEnd d.ctl = (w2).ctl.handleEnd d.ctl := heq
          rw [← heq']
          exact Or.inl rfl
        · right
          rw [hee]
          exact ⟨e, ⟨e, hG, Or.inl rfl⟩, rfl⟩
  · right
    have he' : (s.parser.parse w.env (if s.hasBuffered then s.buf.data else []) true).2 = .error (RelE.parseErr e) := he
    rw [he']
    exact ⟨_, ⟨e, hG, Or.inr rfl⟩, rfl⟩

/-- poisoned, or in lexer mode with both invariants -/
def RLexEA (w : World γ) (cert : Cert) (rcert : RCert) (J Dk : Disp γ → Prop) (r : Rewriter γ) : Prop :=
  r.poisoned = true ∨ SLexEA w cert rcert J Dk r.stream

/-- **`HtmlRewriter::write`** -/
theorem rewriter_write_lexEA (r : Rewriter γ) (data : Bytes) (hr : RLexEA w cert rcert J Dk r) :
    (r.write w data = r.write (w2) data ∧ RLexEA w cert rcert J Dk (r.write w data).1) ∨
    ((r.write w data).1.poisoned = true ∧ ∃ e', GE G e' ∧ (r.write w data).2 = .err e') := by
  unfold Rewriter.write
  by_cases hp : r.poisoned = true
  · rw [if_pos hp, if_pos hp]
    exact Or.inl ⟨rfl, Or.inl hp⟩
  · rw [if_neg hp, if_neg hp]
    have hs : SLexEA w cert rcert J Dk r.stream := hr.resolve_left hp
    rcases write_lexEA h ht hs0 hne hf r.stream data hs with ⟨he, hok⟩ | ⟨e, hG, he⟩
    · rw [← he]
      refine Or.inl ⟨rfl, ?_⟩
      dsimp only
      cases hres : (r.stream.write w data).2 with
      | ok u => exact Or.inr (hok hres)
      | error e => exact Or.inl rfl
    · right
      dsimp only
      rw [he]
      exact ⟨rfl, _, ⟨e, hG, Or.inr rfl⟩, rfl⟩

/-- **`write*`** -/
theorem writeAll_lexEA (cs : List Bytes) (r : Rewriter γ) (hr : RLexEA w cert rcert J Dk r) :
    ((Thm.C01.writeAll w r cs = Thm.C01.writeAll (w2) r cs ∧ RLexEA w cert rcert J Dk (Thm.C01.writeAll w r cs).1) ∨
      (Thm.C01.writeAll w r cs).1.poisoned = true) ∧
    ∀ x ∈ (Thm.C01.writeAll w r cs).2, CallE G (Thm.C01.writeAll (w2) r cs).2 x := by
  induction cs generalizing r with
  | nil => exact ⟨Or.inl ⟨rfl, hr⟩, fun x hx => by cases hx⟩
  | cons c cs ih =>
    simp only [Thm.C01.writeAll]
    rcases rewriter_write_lexEA h ht hs0 hne hf r c hr with ⟨he, hr'⟩ | ⟨hp, e', hGE, he⟩
    · rw [← he]
      obtain ⟨i1, i2⟩ := ih _ hr'
      refine ⟨?_, fun x hx => ?_⟩
      · rcases i1 with ⟨j1, j2⟩ | j
        · exact Or.inl ⟨by rw [j1], j2⟩
        · exact Or.inr j
      · rcases List.mem_cons.mp hx with rfl | hx
        · exact Or.inl List.mem_cons_self
        · rcases i2 x hx with k | k | k
          · exact Or.inl (List.mem_cons_of_mem _ k)
          · exact Or.inr (Or.inl k)
          · exact Or.inr (Or.inr k)
    · obtain ⟨i1, i2⟩ := writeAll_poisoned_res (w := w) cs _ hp
      refine ⟨Or.inr i1, fun x hx => ?_⟩
      rcases List.mem_cons.mp hx with rfl | hx
      · exact Or.inr (Or.inr ⟨e', hGE, he⟩)
      · exact Or.inr (Or.inl (i2 x hx))

/-- **`HtmlRewriter::end`** -/
theorem rewriter_end_lexEA (r : Rewriter γ) (hr : RLexEA w cert rcert J Dk r) :
    (r.end w).2 = (r.end (w2)).2 ∨ (r.end w).2 = .panicUseAfterError ∨ ∃ e', GE G e' ∧ (r.end w).2 = .err e' := by
  unfold Rewriter.end
  by_cases hp : r.poisoned = true
  · rw [if_pos hp, if_pos hp]
    exact Or.inl rfl
  · rw [if_neg hp, if_neg hp]
    dsimp only
    rcases end_lexEA h ht hs0 hne hf r.stream (hr.resolve_left hp) with he | ⟨e', hGE, he⟩
    · rw [← he]
      exact Or.inl rfl
    · rw [he]
      exact Or.inr (Or.inr ⟨e', hGE, rfl⟩)

/-- **`write* ; end`**: every call of the first run answers like the same call of the second run, or with
the documented panic after an error, or with an error of the class — the per-operation comparison of the two
dispatchers being known for valid lexemes only. -/
theorem run_lexEA (cs : List Bytes) (r : Rewriter γ) (hr : RLexEA w cert rcert J Dk r) :
    ∀ x ∈ (Thm.C01.run w r cs).2, CallE G (Thm.C01.run (w2) r cs).2 x := by
  obtain ⟨i1, i2⟩ := writeAll_lexEA h ht hs0 hne hf cs r hr
  intro x hx
  unfold CallE
  simp only [Thm.C01.run, List.mem_append, List.mem_singleton] at hx ⊢
  rcases hx with hx | hx
  · rcases i2 x hx with k | k | k
    · exact Or.inl (Or.inl k)
    · exact Or.inr (Or.inl k)
    · exact Or.inr (Or.inr k)
  · subst hx
    rcases i1 with ⟨j1, j2⟩ | j
    · rw [← j1]
      rcases rewriter_end_lexEA h ht hs0 hne hf _ j2 with k | k | k
      · exact Or.inl (Or.inr k)
      · exact Or.inr (Or.inl k)
      · exact Or.inr (Or.inr k)
    · right; left
      unfold Rewriter.end
      rw [if_pos j]

omit hs0 hne hf in
/-- a fresh rewriter is the same over both controllers, and has both invariants if the initial flags are
sticky and the fresh dispatcher has the sink invariant -/
theorem new_lexEA (g : γ) (cfg : Settings) (hst : (w.ctl.initialFlags g).Sticky = true)
    (hJ : J (Disp.new w.ctl g cfg.encoding)) (hD : Dk (Disp.new w.ctl g cfg.encoding)) :
    Thm.C01.Rewriter.new w g cfg = Thm.C01.Rewriter.new (w2) g cfg ∧ RLexEA w cert rcert J Dk (Thm.C01.Rewriter.new w g cfg) := by
  constructor
  · unfold Thm.C01.Rewriter.new Stream.new Disp.new
    show _ = ({ stream := _ } : Rewriter γ)
    simp only [Chunk.R.World.withCtl]
    rw [h.initial g]
    rfl
  · right
    refine ⟨?_, Stream.new_sargs ht g cfg hD⟩
    unfold Thm.C01.Rewriter.new PLex Stream.new
    dsimp only
    rw [Flags.Sticky.notEmpty hst]
    exact ⟨rfl, rfl, hJ, inv_new _⟩

end

end LolHtml.Model.LexE
