import LolHtml.Spec.Esc

namespace LolHtml.Lemmas.Esc
open LolHtml LolHtml.Model.Esc LolHtml.Spec.Esc

/-! ## memchr / the escaping loop computes `escapeSpec` -/

theorem memchrIn_none {ns : List UInt8} : ∀ {s : Bytes}, memchrIn ns s = none →
    ∀ b ∈ s, ns.contains b = false
  | [], _, b, hb => by cases hb
  | x :: rest, h, b, hb => by
    unfold memchrIn at h
    split at h
    · cases h
    · rename_i hx
      have hr : memchrIn ns rest = none := by
        cases hm : memchrIn ns rest with
        | none => rfl
        | some v => rw [hm] at h; cases h
      cases hb with
      | head => simpa using hx
      | tail _ hb' => exact memchrIn_none hr b hb'

theorem memchrIn_some {ns : List UInt8} : ∀ {s : Bytes} {p : Nat}, memchrIn ns s = some p →
    ∃ pre m post, s = pre ++ m :: post ∧ pre.length = p ∧ (∀ b ∈ pre, ns.contains b = false) ∧
      ns.contains m = true
  | [], p, h => by cases h
  | x :: rest, p, h => by
    unfold memchrIn at h
    split at h
    · rename_i hx
      cases h
      exact ⟨[], x, rest, rfl, rfl, (fun b hb => by cases hb), hx⟩
    · rename_i hx
      cases hm : memchrIn ns rest with
      | none => rw [hm] at h; cases h
      | some q =>
        rw [hm] at h
        simp only [Option.map_some, Option.some.injEq] at h
        obtain ⟨pre, m, post, hs, hl, hpre, hm'⟩ := memchrIn_some hm
        refine ⟨x :: pre, m, post, by rw [hs]; rfl, by simp [hl, h], ?_, hm'⟩
        intro b hb
        cases hb with
        | head => simpa using hx
        | tail _ hb' => exact hpre b hb'

theorem escapeSpec_nil (t : EscTable) : escapeSpec t [] = [] := rfl

theorem escapeSpec_cons (t : EscTable) (b : UInt8) (s : Bytes) :
    escapeSpec t (b :: s) = (if t.triggers.contains b then t.repl b else [b]) ++ escapeSpec t s := by
  simp [escapeSpec]

theorem escapeSpec_append (t : EscTable) (a b : Bytes) :
    escapeSpec t (a ++ b) = escapeSpec t a ++ escapeSpec t b := by
  simp [escapeSpec]

theorem escapeSpec_of_no_trigger (t : EscTable) : ∀ (s : Bytes),
    (∀ b ∈ s, t.triggers.contains b = false) → escapeSpec t s = s
  | [], _ => rfl
  | x :: rest, h => by
    rw [escapeSpec_cons, h x (by simp), escapeSpec_of_no_trigger t rest (fun b hb => h b (by simp [hb]))]
    rfl

/-- The transcribed loop never fails when given `content.length + 1` fuel, its chunks concatenate
to `escapeSpec`, and no chunk is empty when no replacement is empty. -/
theorem escapeLoop_spec (t : EscTable) : ∀ (fuel : Nat) (content : Bytes) (out : List Bytes),
    content.length < fuel →
    ∃ chunks, escapeLoop t fuel content out = .ok (out ++ chunks) ∧
      chunks.flatten = escapeSpec t content ∧
      ((∀ b, t.repl b ≠ []) → ∀ c ∈ chunks, c ≠ [])
  | 0, _, _, h => by omega
  | fuel + 1, content, out, h => by
    unfold escapeLoop
    cases hm : memchrIn t.triggers content with
    | none =>
      refine ⟨if content.isEmpty then [] else [content], ?_, ?_, ?_⟩
      · cases content <;> simp
      · rw [escapeSpec_of_no_trigger t content (memchrIn_none hm)]
        cases content <;> simp
      · intro _ c hc
        cases content with
        | nil => simp at hc
        | cons x r => simp at hc; simp [hc]
    | some pos =>
      obtain ⟨pre, m, post, hs, hl, hpre, hmt⟩ := memchrIn_some hm
      have h1 : splitAtChecked content pos = some (pre, m :: post) := by
        unfold splitAtChecked
        subst hs; subst hl
        simp
      have h2 : splitAtChecked (m :: post) 1 = some ([m], post) := by
        simp [splitAtChecked]
      simp only [h1, h2]
      have hlen : post.length < fuel := by
        subst hs; simp at h; omega
      obtain ⟨chunks, hc1, hc2, hc3⟩ := escapeLoop_spec t fuel post
        ((if pre.isEmpty then out else out ++ [pre]) ++ [t.repl m]) hlen
      refine ⟨(if pre.isEmpty then [] else [pre]) ++ [t.repl m] ++ chunks, ?_, ?_, ?_⟩
      · rw [hc1]; cases pre <;> simp
      · subst hs
        rw [escapeSpec_append, escapeSpec_cons, hmt, escapeSpec_of_no_trigger t pre hpre, ← hc2]
        cases pre <;> simp
      · intro hne c hc
        simp only [List.append_assoc, List.mem_append, List.mem_cons, List.not_mem_nil, or_false] at hc
        rcases hc with hc | hc | hc
        · cases pre with
          | nil => simp at hc
          | cons x r => simp at hc; simp [hc]
        · rw [hc]; exact hne m
        · exact hc3 hne c hc

theorem escapeWith_eq_spec (t : EscTable) (s : Bytes) : escapeWith t s = some (escapeSpec t s) := by
  obtain ⟨chunks, h1, h2, _⟩ := escapeLoop_spec t (s.length + 1) s [] (by omega)
  simp [escapeWith, escapeChunksWith, h1, h2]


/-! ## Decidable side-conditions on an escape table, and what they give -/

/-- `x` is a trigger and no replacement contains it. -/
def avoids (t : EscTable) (x : UInt8) : Bool :=
  t.triggers.contains x && t.triggers.all fun b => !(t.repl b).contains x

/-- `amp` is itself escaped, and every replacement is `amp` followed by bytes other than `amp`. -/
def selfDelimiting (t : EscTable) (amp : UInt8) : Bool :=
  t.triggers.contains amp && t.triggers.all fun b =>
    match t.repl b with
    | x :: tail => x == amp && !tail.contains amp
    | [] => false

/-- No replacement is a prefix of the replacement of another trigger. -/
def prefixFree (t : EscTable) : Bool :=
  t.triggers.all fun b => t.triggers.all fun b' => !(t.repl b).isPrefixOf (t.repl b') || b == b'

/-- No replacement is empty. -/
def replNonempty (t : EscTable) : Bool :=
  !t.dflt.isEmpty && t.arms.all fun a => !a.2.isEmpty

theorem mem_of_lookup_eq_some {α β} [BEq α] [LawfulBEq α] {a : α} {b : β} :
    ∀ {l : List (α × β)}, l.lookup a = some b → (a, b) ∈ l
  | [], h => by cases h
  | (k, v) :: rest, h => by
    simp only [List.lookup] at h
    split at h
    · rename_i heq
      have : a = k := by simpa using heq
      cases h; subst this; simp
    · exact List.mem_cons_of_mem _ (mem_of_lookup_eq_some h)

theorem repl_ne_nil_of_replNonempty {t : EscTable} (h : replNonempty t = true) (b : UInt8) :
    t.repl b ≠ [] := by
  simp only [replNonempty, Bool.and_eq_true, Bool.not_eq_true', List.all_eq_true] at h
  unfold EscTable.repl
  split
  · rename_i r hr
    have := h.2 (b, r) (mem_of_lookup_eq_some hr)
    intro hn; simp [hn] at this
  · intro hn; simp [hn] at h

theorem not_mem_escapeSpec {t : EscTable} {x : UInt8} (h : avoids t x = true) (s : Bytes) :
    x ∉ escapeSpec t s := by
  simp only [avoids, Bool.and_eq_true, List.all_eq_true, Bool.not_eq_true'] at h
  obtain ⟨hx, hr⟩ := h
  intro hm
  simp only [escapeSpec, List.mem_flatMap] at hm
  obtain ⟨b, _, hb⟩ := hm
  by_cases hc : t.triggers.contains b = true
  · rw [if_pos hc] at hb
    have := hr b (by simpa using hc)
    simp [hb] at this
  · rw [if_neg hc] at hb
    simp only [List.mem_singleton] at hb
    subst hb
    exact hc hx

theorem repl_shape {t : EscTable} {amp : UInt8} (h : selfDelimiting t amp = true) {b : UInt8}
    (hb : t.triggers.contains b = true) : ∃ tail, t.repl b = amp :: tail ∧ amp ∉ tail := by
  simp only [selfDelimiting, Bool.and_eq_true, List.all_eq_true] at h
  have := h.2 b (by simpa using hb)
  split at this
  · rename_i x tail heq
    simp only [Bool.and_eq_true, beq_iff_eq, Bool.not_eq_true', List.contains_eq_mem,
      decide_eq_false_iff_not] at this
    exact ⟨tail, by rw [heq, this.1], this.2⟩
  · cases this

/-- Every `amp` byte of the output is the first byte of an entity of the table that is spelled out
in full at that position. -/
theorem amp_starts_entity {t : EscTable} {amp : UInt8} (h : selfDelimiting t amp = true) :
    ∀ (s a c : Bytes), escapeSpec t s = a ++ amp :: c →
      ∃ e ∈ EscTable.entities t, e.1 <+: amp :: c
  | [], a, c, heq => by
    rw [escapeSpec_nil] at heq
    cases a <;> cases heq
  | b :: rest, a, c, heq => by
    have hamp : t.triggers.contains amp = true := by
      simp only [selfDelimiting, Bool.and_eq_true] at h; exact h.1
    rw [escapeSpec_cons] at heq
    rcases List.append_eq_append_iff.mp heq with ⟨as, ha, hrest⟩ | ⟨bs, hpiece, hc⟩
    · -- the `amp` lies in the image of `rest`
      exact amp_starts_entity h rest as c hrest
    · cases bs with
      | nil =>
        -- boundary case: the `amp` is the first byte of the image of `rest`
        simp only [List.nil_append] at hc
        exact amp_starts_entity h rest [] c (by simpa using hc.symm)
      | cons y ys =>
        -- the `amp` lies in the piece produced for `b`: piece = a ++ amp :: ys
        simp only [List.cons_append, List.cons.injEq] at hc
        obtain ⟨hy, hc⟩ := hc
        subst hy
        by_cases hb : t.triggers.contains b = true
        · rw [if_pos hb] at hpiece
          obtain ⟨tail, hshape, hnot⟩ := repl_shape h hb
          rw [hshape] at hpiece
          cases a with
          | nil =>
            simp only [List.nil_append, List.cons.injEq, true_and] at hpiece
            refine ⟨(t.repl b, b), ?_, ?_⟩
            · simp only [EscTable.entities, List.mem_map]
              exact ⟨b, by simpa using hb, rfl⟩
            · rw [hshape, hc, hpiece]
              exact List.prefix_append _ _
          | cons x xs =>
            exfalso
            simp only [List.cons_append, List.cons.injEq] at hpiece
            apply hnot
            rw [hpiece.2]
            simp
        · rw [if_neg hb] at hpiece
          exfalso
          cases a with
          | nil =>
            simp only [List.nil_append, List.cons.injEq] at hpiece
            apply hb
            rw [hpiece.1]; exact hamp
          | cons x xs =>
            simp only [List.cons_append, List.cons.injEq] at hpiece
            have := hpiece.2
            cases xs <;> simp at this

/-! ## Round trip -/

theorem unescapeAux_zero_cons (ents : List (Bytes × UInt8)) (b : UInt8) (rest : Bytes) :
    unescapeAux ents 0 (b :: rest) =
      match ents.find? (fun e => e.1.isPrefixOf (b :: rest)) with
      | some e => e.2 :: unescapeAux ents (e.1.length - 1) rest
      | none => b :: unescapeAux ents 0 rest := by
  rw [unescapeAux]; rfl

theorem unescapeAux_skip (ents : List (Bytes × UInt8)) : ∀ (p X : Bytes),
    unescapeAux ents p.length (p ++ X) = unescapeAux ents 0 X
  | [], X => rfl
  | x :: p, X => by
    simp only [List.length_cons, List.cons_append]
    cases hpX : p ++ X with
    | nil => 
      have : p = [] ∧ X = [] := by simpa using hpX
      rw [this.1, this.2]; rfl
    | cons y ys =>
      rw [← hpX]
      show unescapeAux ents p.length (p ++ X) = _
      exact unescapeAux_skip ents p X

theorem unescapeAux_entity {t : EscTable} (hpf : prefixFree t = true) {b : UInt8}
    (hb : t.triggers.contains b = true) {x : UInt8} {tail : Bytes} (hr : t.repl b = x :: tail)
    (X : Bytes) :
    unescapeAux (EscTable.entities t) 0 (t.repl b ++ X) = b :: unescapeAux (EscTable.entities t) 0 X := by
  have hmem : (t.repl b, b) ∈ EscTable.entities t := by
    simp only [EscTable.entities, List.mem_map]
    exact ⟨b, by simpa using hb, rfl⟩
  have hpred : (t.repl b).isPrefixOf (t.repl b ++ X) = true :=
    List.isPrefixOf_iff_prefix.mpr (List.prefix_append _ _)
  cases hf : (EscTable.entities t).find? (fun e => e.1.isPrefixOf (t.repl b ++ X)) with
  | none =>
    have := List.find?_eq_none.mp hf _ hmem
    exact absurd hpred this
  | some e =>
    have he_mem := List.mem_of_find?_eq_some hf
    have he_pred := List.find?_some hf
    simp only [EscTable.entities, List.mem_map] at he_mem
    obtain ⟨b', hb', hee⟩ := he_mem
    have hpre : t.repl b' <+: t.repl b ++ X := by
      rw [← hee] at he_pred
      exact List.isPrefixOf_iff_prefix.mp he_pred
    simp only [prefixFree, List.all_eq_true, Bool.or_eq_true, Bool.not_eq_true', beq_iff_eq] at hpf
    have hbm : b ∈ t.triggers := by simpa using hb
    have hbb : b' = b := by
      rcases List.prefix_or_prefix_of_prefix hpre (List.prefix_append (t.repl b) X) with h1 | h1
      · rcases hpf b' hb' b hbm with h2 | h2
        · rw [List.isPrefixOf_iff_prefix.mpr h1] at h2; cases h2
        · exact h2
      · rcases hpf b hbm b' hb' with h2 | h2
        · rw [List.isPrefixOf_iff_prefix.mpr h1] at h2; cases h2
        · exact h2.symm
    subst hbb
    subst hee
    rw [hr] at hf ⊢
    simp only [List.cons_append] at hf ⊢
    rw [unescapeAux_zero_cons, hf]
    simp only [List.length_cons, Nat.add_sub_cancel]
    rw [unescapeAux_skip]

/-- Decoding the table's own entities undoes the escaping, for every input. -/
theorem unescape_escapeSpec {t : EscTable} {amp : UInt8} (hsd : selfDelimiting t amp = true)
    (hpf : prefixFree t = true) : ∀ (s : Bytes),
    unescapeWith (EscTable.entities t) (escapeSpec t s) = s
  | [] => rfl
  | b :: rest => by
    have ih := unescape_escapeSpec hsd hpf rest
    unfold unescapeWith at ih ⊢
    rw [escapeSpec_cons]
    by_cases hb : t.triggers.contains b = true
    · rw [if_pos hb]
      obtain ⟨tail, hshape, _⟩ := repl_shape hsd hb
      rw [unescapeAux_entity hpf hb hshape, ih]
    · rw [if_neg hb]
      simp only [List.cons_append, List.nil_append]
      have hnone : (EscTable.entities t).find? (fun e => e.1.isPrefixOf (b :: escapeSpec t rest)) = none := by
        rw [List.find?_eq_none]
        intro e he hp
        simp only [EscTable.entities, List.mem_map] at he
        obtain ⟨b', hb', hee⟩ := he
        obtain ⟨tail, hshape, _⟩ := repl_shape hsd (b := b') (by simpa using hb')
        rw [← hee] at hp
        simp only [hshape] at hp
        have := List.isPrefixOf_iff_prefix.mp hp
        rw [List.cons_prefix_cons] at this
        have hamp : t.triggers.contains amp = true := by
          simp only [selfDelimiting, Bool.and_eq_true] at hsd; exact hsd.1
        apply hb
        rw [← this.1]; exact hamp
      rw [unescapeAux_zero_cons, hnone]
      simp only
      rw [ih]

end LolHtml.Lemmas.Esc
