import LolHtml.Model.SM
/-!
Frame lemmas for the tag scanner's action set: which registers `scanAct` (and the interpreter layers
above it) can change, and the effect of an action list on `tag_start` as a three-valued summary
(`keep` / `clear` / `mark`). Used by the C09 bound and the C06 simulation.
-/
namespace LolHtml.Model

variable {κ : Type}

/-! ### projections of a machine -/

def M.isScanner (m : M κ) : Bool := match m.r with | .scanner _ => true | .lexer _ => false
/-- `tag_start` of a scanner machine -/
def M.ts (m : M κ) : Option Nat := match m.r with | .scanner s => s.tagStart | .lexer _ => none
/-- `ch_sequence_matching_start` of a scanner machine -/
def M.cs (m : M κ) : Option Nat := match m.r with | .scanner s => s.chSeqStart | .lexer _ => none

/-- effect of an action (list) on `tag_start` -/
inductive TSK | keep | clear | mark
  deriving DecidableEq, Repr

def tsAct : ActName → TSK
  | .markTagStart => .mark
  | .unmarkTagStart => .clear
  | .finishTagName => .clear
  | _ => .keep

def TSK.andThen (k1 k2 : TSK) : TSK := match k2 with | .keep => k1 | k => k

def tsCalls : List Call → TSK
  | [] => .keep
  | c :: cs => (tsAct c.act).andThen (tsCalls cs)

def TSK.apply (k : TSK) (pos : Nat) (ts : Option Nat) : Option Nat :=
  match k with | .keep => ts | .clear => none | .mark => some pos

theorem TSK.apply_andThen (k1 k2 : TSK) (pos : Nat) (ts : Option Nat) :
    (k1.andThen k2).apply pos ts = k2.apply pos (k1.apply pos ts) := by
  cases k1 <;> cases k2 <;> rfl

/-- registers no scanner action touches -/
structure ScanFrame (m m' : M κ) : Prop where
  scan : m'.isScanner = true
  state : m'.c.state = m.c.state
  nextPos : m'.c.nextPos = m.c.nextPos
  entered : m'.c.entered = m.c.entered
  isLast : m'.c.isLast = m.c.isLast
  cs : m'.cs = m.cs

theorem ScanFrame.refl {m : M κ} (h : m.isScanner = true) : ScanFrame m m := ⟨h, rfl, rfl, rfl, rfl, rfl⟩

theorem ScanFrame.trans {a b c : M κ} (h1 : ScanFrame a b) (h2 : ScanFrame b c) : ScanFrame a c :=
  ⟨h2.scan, h2.state.trans h1.state, h2.nextPos.trans h1.nextPos, h2.entered.trans h1.entered,
   h2.isLast.trans h1.isLast, h2.cs.trans h1.cs⟩

theorem ScanFrame.pos {m m' : M κ} (h : ScanFrame m m') : m'.c.pos = m.c.pos := by
  simp [Common.pos, h.nextPos]

section
variable {env : Env κ} {inp : Bytes}

theorem scanEmitHint_frame (c : Common) (s : ScanRegs) (x : Ctx κ) (t : Nat) (ie : Bool) :
    ScanFrame ⟨c, .scanner s, x⟩ (scanEmitHint env inp c s x t ie).1 ∧
    (scanEmitHint env inp c s x t ie).1.ts = s.tagStart := by
  unfold scanEmitHint
  split
  · exact ⟨ScanFrame.refl rfl, rfl⟩
  · dsimp only
    split <;> (refine ⟨⟨rfl, ?_, ?_, ?_, ?_, rfl⟩, rfl⟩ <;> (dsimp only; split <;> rfl))

theorem scanFinishTagName_frame (c : Common) (s : ScanRegs) (x : Ctx κ) :
    ScanFrame ⟨c, .scanner s, x⟩ (scanFinishTagName env inp c s x).1 ∧
    (scanFinishTagName env inp c s x).1.ts = none := by
  unfold scanFinishTagName
  split
  · rename_i h
    exact ⟨ScanFrame.refl rfl, by simpa [M.ts] using h⟩
  · dsimp only
    split
    · exact ⟨⟨rfl, rfl, rfl, rfl, rfl, rfl⟩, rfl⟩
    · rename_i sf _
      split
      · refine ⟨⟨rfl, ?_, ?_, ?_, ?_, ?_⟩, ?_⟩ <;>
          (cases sf.2 <;> simp [scanApplyFeedback, M.cs, M.ts])
      · rename_i hnone
        have h := scanEmitHint_frame (env := env) (inp := inp)
          (scanApplyFeedback c { s with tagStart := none } sf.2).1
          { (scanApplyFeedback c { s with tagStart := none } sf.2).2.1 with isInEndTag := false }
          { x with sim := sf.1 } ‹Nat› s.isInEndTag
        obtain ⟨hf, ht⟩ := h
        refine ⟨⟨hf.scan, ?_, ?_, ?_, ?_, ?_⟩, ?_⟩
        · rw [hf.state]; cases sf.2 <;> rfl
        · rw [hf.nextPos]; cases sf.2 <;> rfl
        · rw [hf.entered]; cases sf.2 <;> rfl
        · rw [hf.isLast]; cases sf.2 <;> rfl
        · rw [hf.cs]; cases sf.2 <;> rfl
        · rw [ht]; cases sf.2 <;> rfl

theorem scanAct_frame (a : ActName) (c : Common) (s : ScanRegs) (x : Ctx κ) :
    ScanFrame ⟨c, .scanner s, x⟩ (scanAct env a inp c s x).1 ∧
    (scanAct env a inp c s x).1.ts = (tsAct a).apply c.pos s.tagStart := by
  cases a <;> simp only [scanAct, tsAct, TSK.apply]
  case finishTagName => exact scanFinishTagName_frame c s x
  all_goals (first
    | exact ⟨⟨rfl, rfl, rfl, rfl, rfl, rfl⟩, rfl⟩
    | (split <;> exact ⟨⟨rfl, rfl, rfl, rfl, rfl, rfl⟩, rfl⟩))

theorem act_frame (a : ActName) (m : M κ) (h : m.isScanner = true) :
    ScanFrame m (act env a inp m).1 ∧ (act env a inp m).1.ts = (tsAct a).apply m.c.pos m.ts := by
  obtain ⟨c, r, x⟩ := m
  cases r with
  | lexer l => simp [M.isScanner] at h
  | scanner s => exact scanAct_frame a c s x

theorem runCalls_frame (cs : List Call) (m : M κ) (h : m.isScanner = true) :
    ScanFrame m (runCalls env inp cs m).1 ∧
    ((runCalls env inp cs m).2 = none → (runCalls env inp cs m).1.ts = (tsCalls cs).apply m.c.pos m.ts) := by
  induction cs generalizing m with
  | nil => exact ⟨ScanFrame.refl h, fun _ => rfl⟩
  | cons cl cs ih =>
    obtain ⟨hf, ht⟩ := act_frame (env := env) (inp := inp) cl.act m h
    obtain ⟨hf2, ht2⟩ := ih (act env cl.act inp m).1 hf.scan
    have key : (tsCalls cs).apply (act env cl.act inp m).1.c.pos (act env cl.act inp m).1.ts
        = (tsCalls (cl :: cs)).apply m.c.pos m.ts := by
      rw [hf.pos, ht, tsCalls, TSK.apply_andThen]
    simp only [runCalls]
    split
    · split
      · exact ⟨hf, fun hn => by simp at hn⟩
      · exact ⟨hf.trans hf2, fun hn => (ht2 hn).trans key⟩
    · exact ⟨hf.trans hf2, fun hn => (ht2 hn).trans key⟩

end
end LolHtml.Model
