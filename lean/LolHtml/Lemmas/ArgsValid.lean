import LolHtml.Lemmas.ArgGuard
import LolHtml.Lemmas.TokParse
/-!
# The lexemes handed to the sink are valid — for ARBITRARY sinks (token-part ranges)

`tokGuard s`: refuse (with `.panic s`) a tag lexeme whose raw range, tag-name range or an attribute
name / value range is not a slice of the input, and a non-tag lexeme whose raw range or comment-text
range is not. For every table with `WfTable`, the token-part certificate and `EmitsChecked`, EVERY sink
(nothing is assumed about its answers, except that it does not itself report `.panic s` on a lexeme
the guard lets through) and every parser state with the C15 invariants: `Parser.parse` over the guarded
sink IS `Parser.parse` over the real sink — the guard never fires.

Proof: the guarded-and-cleaned sink never fails at a panic site except `s`, which is a site the
token-part analysis excludes (`T2 s`); so C15 (`parse_post2`) applies to it; `guardArgs_parse_eq`.
-/
set_option linter.unusedSimpArgs false
set_option linter.unusedVariables false
namespace LolHtml.Model

variable {κ : Type}

instance (L : Nat) (r : Range) : Decidable (RangeIn L r) := by unfold RangeIn; infer_instance

instance (L : Nat) (t : TagOutline) : Decidable (TagValid L t) := by
  cases t <;> unfold TagValid <;> infer_instance

instance (L : Nat) (o : Option NonTagOutline) : Decidable (NTValid L o) := by
  unfold NTValid
  split <;> infer_instance

/-- a tag lexeme all of whose ranges are slices of the input -/
def TagLexValid (inp : Bytes) (lx : TagLexeme) : Prop := RangeIn inp.length lx.raw ∧ TagValid inp.length lx.outline
def NTLexValid (inp : Bytes) (lx : NonTagLexeme) : Prop := RangeIn inp.length lx.raw ∧ NTValid inp.length lx.outline

instance (inp : Bytes) (lx : TagLexeme) : Decidable (TagLexValid inp lx) := by unfold TagLexValid; infer_instance
instance (inp : Bytes) (lx : NonTagLexeme) : Decidable (NTLexValid inp lx) := by unfold NTLexValid; infer_instance

def tokGuard (s : String) : ArgGuard where
  tag := fun inp lx => if TagLexValid inp lx then none else some (.panic s)
  nonTag := fun inp lx => if NTLexValid inp lx then none else some (.panic s)

theorem tokGuard_fires {s : String} {inp : Bytes} {e : Err} (h : (tokGuard s).Fires inp e) : e = .panic s := by
  rcases h with ⟨lx, h⟩ | ⟨lx, h⟩ <;> simp only [tokGuard] at h <;> split at h <;>
    first | (cases h; done) | (simp only [Option.some.injEq] at h; exact h.symm)

theorem T2_U1 {s : String} (h : T2 s) : U1 s := by
  unfold T2 at h
  unfold U1
  rcases h with h | h | h | h | h | h | h | h | h | h <;> subst h <;> simp

theorem T2_not_U2 {s : String} (h : T2 s) : ¬ U2 s := by
  unfold T2 at h
  unfold U2
  rcases h with h | h | h | h | h | h | h | h | h | h <;> subst h <;> decide

section
variable {ops : SinkOps κ} {inp : Bytes} {s : String}

theorem tokGuard_tag_some {s : String} {inp : Bytes} {lx : TagLexeme} {e : Err} (h : (tokGuard s).tag inp lx = some e) :
    e = .panic s ∧ ¬ TagLexValid inp lx := by
  simp only [tokGuard] at h
  split at h
  · cases h
  · simp only [Option.some.injEq] at h; exact ⟨h.symm, ‹_›⟩

theorem tokGuard_tag_none {s : String} {inp : Bytes} {lx : TagLexeme} (h : (tokGuard s).tag inp lx = none) :
    TagLexValid inp lx := by
  simp only [tokGuard] at h
  split at h
  · assumption
  · cases h

theorem tokGuard_nonTag_some {s : String} {inp : Bytes} {lx : NonTagLexeme} {e : Err}
    (h : (tokGuard s).nonTag inp lx = some e) : e = .panic s ∧ ¬ NTLexValid inp lx := by
  simp only [tokGuard] at h
  split at h
  · cases h
  · simp only [Option.some.injEq] at h; exact ⟨h.symm, ‹_›⟩

theorem tokGuard_nonTag_none {s : String} {inp : Bytes} {lx : NonTagLexeme} (h : (tokGuard s).nonTag inp lx = none) :
    NTLexValid inp lx := by
  simp only [tokGuard] at h
  split at h
  · assumption
  · cases h

theorem tokGuard_safe (hs : T2 s) : SinkSafe (guardArgs (tokGuard s) (cleanOps ops)) (fun _ => 0) inp U1 where
  handleTag := fun lx k _ _ _ => by
    refine ⟨Nat.zero_le _, fun e he => ?_⟩
    rcases guardArgs_tag_err he with hg | ⟨_, he'⟩
    · rw [(tokGuard_tag_some hg).1]; exact T2_U1 hs
    · have := cleanRes_err _ he'; subst this; trivial
  handleNonTag := fun lx k _ _ _ => by
    refine ⟨Nat.zero_le _, fun e he => ?_⟩
    rcases guardArgs_nonTag_err he with hg | ⟨_, he'⟩
    · rw [(tokGuard_nonTag_some hg).1]; exact T2_U1 hs
    · have := cleanRes_err _ he'; subst this; trivial
  startTagHint := fun n ns k => ⟨Nat.le_refl _, fun e he => by
    have := cleanRes_err _ he; subst this; trivial⟩
  endTagHint := fun n k => ⟨Nat.le_refl _, fun e he => by
    have := cleanRes_err _ he; subst this; trivial⟩

theorem tokGuard_safe2 : SinkSafe2 (guardArgs (tokGuard s) (cleanOps ops)) inp where
  handleTag := fun lx k h1 h2 e he => by
    rcases guardArgs_tag_err he with hg | ⟨_, he'⟩
    · exact absurd ⟨h1, h2⟩ (tokGuard_tag_some hg).2
    · have := cleanRes_err _ he'; subst this; trivial
  handleNonTag := fun lx k h1 h2 e he => by
    rcases guardArgs_nonTag_err he with hg | ⟨_, he'⟩
    · exact absurd ⟨h1, h2⟩ (tokGuard_nonTag_some hg).2
    · have := cleanRes_err _ he'; subst this; trivial
  startTagHint := fun n ns k e he => by have := cleanRes_err _ he; subst this; trivial
  endTagHint := fun n k e he => by have := cleanRes_err _ he; subst this; trivial

/-- on sink states with `Dk` (kept by successful operations): the real sink does not itself report `.panic s`
on a valid lexeme -/
structure TokFresh (s : String) (ops : SinkOps κ) (inp : Bytes) (Dk : κ → Prop) : Prop where
  handleTag : ∀ lx k, Dk k → TagLexValid inp lx →
    (ops.handleTag inp lx k).2 ≠ .error (.panic s) ∧ (∀ a, (ops.handleTag inp lx k).2 = .ok a → Dk (ops.handleTag inp lx k).1)
  handleNonTag : ∀ lx k, Dk k → NTLexValid inp lx →
    (ops.handleNonTag inp lx k).2 ≠ .error (.panic s) ∧
    (∀ a, (ops.handleNonTag inp lx k).2 = .ok a → Dk (ops.handleNonTag inp lx k).1)
  startTagHint : ∀ n ns k, Dk k →
    (ops.startTagHint n ns k).2 ≠ .error (.panic s) ∧ (∀ a, (ops.startTagHint n ns k).2 = .ok a → Dk (ops.startTagHint n ns k).1)
  endTagHint : ∀ n k, Dk k →
    (ops.endTagHint n k).2 ≠ .error (.panic s) ∧ (∀ a, (ops.endTagHint n k).2 = .ok a → Dk (ops.endTagHint n k).1)

variable {Dk : κ → Prop}

theorem TokFresh.argFresh (h : TokFresh s ops inp Dk) : ArgFresh (tokGuard s) ops inp Dk where
  handleTag := fun lx k hD hg =>
    ⟨fun e hF => by rw [tokGuard_fires hF]; exact (h.handleTag lx k hD (tokGuard_tag_none hg)).1,
     (h.handleTag lx k hD (tokGuard_tag_none hg)).2⟩
  handleNonTag := fun lx k hD hg =>
    ⟨fun e hF => by rw [tokGuard_fires hF]; exact (h.handleNonTag lx k hD (tokGuard_nonTag_none hg)).1,
     (h.handleNonTag lx k hD (tokGuard_nonTag_none hg)).2⟩
  startTagHint := fun n ns k hD =>
    ⟨fun e hF => by rw [tokGuard_fires hF]; exact (h.startTagHint n ns k hD).1, (h.startTagHint n ns k hD).2⟩
  endTagHint := fun n k hD =>
    ⟨fun e hF => by rw [tokGuard_fires hF]; exact (h.endTagHint n k hD).1, (h.endTagHint n k hD).2⟩

/-- the guard refuses the lexeme with raw range `1..0` -/
theorem tokGuard_fires_s (s : String) (inp : Bytes) : (tokGuard s).Fires inp (.panic s) := by
  refine Or.inl ⟨⟨0, ⟨1, 0⟩, .endTag ⟨0, 0⟩ 0⟩, ?_⟩
  simp only [tokGuard]
  rw [if_neg]
  intro hv
  have := hv.1.1
  simp at this

variable {tbl : Table} {cfg : TagCfg}

/-- **`parse_args_valid_tok` (token-part ranges only; `Lemmas/ArgsValidRaw.lean` adds the attribute raw ranges).**
Every table with `WfTable`, certificate and `EmitsChecked`; EVERY sink `ops` (no hypothesis on its answers beyond
`TokFresh`: on states with `Dk` it does not itself report the guard's error on a valid lexeme); every input, `last`
flag and parser state with the C15 invariants (`PInv` at the trivial watermark, `PTok`) and `Dk` of its sink:
`Parser.parse` over the sink guarded by `tokGuard s` IS `Parser.parse` over `ops` — every lexeme handed to
`handle_tag` / `handle_non_tag_content` during the call has its raw range, tag-name range, attribute name / value
ranges, comment-text range inside the input; the call does not return `.panic s`; and if it succeeds the
invariants hold again for what is retained. -/
theorem parse_args_valid_tok {cert : Cert} (hw : Wf tbl) (hchk : checkCert tbl cert = true) (ht : EmitsChecked tbl = true)
    (hs : T2 s) (hf : TokFresh s ops inp Dk) (last : Bool) (p : Parser κ)
    (hp : PInv tbl inp.length (fun _ => 0) p) (htp : PTok tbl cert p) (hDk : Dk p.x.sink) :
    Parser.parse ⟨tbl, cfg, guardArgs (tokGuard s) ops⟩ inp last p = Parser.parse ⟨tbl, cfg, ops⟩ inp last p ∧
    (Parser.parse ⟨tbl, cfg, ops⟩ inp last p).2 ≠ .error (.panic s) ∧
    (∀ k, (Parser.parse ⟨tbl, cfg, ops⟩ inp last p).2 = .ok k →
      k ≤ inp.length ∧ Dk (Parser.parse ⟨tbl, cfg, ops⟩ inp last p).1.x.sink ∧
      (last = false → PInv tbl (inp.length - k) (fun _ => 0) (Parser.parse ⟨tbl, cfg, ops⟩ inp last p).1 ∧
        PTok tbl cert (Parser.parse ⟨tbl, cfg, ops⟩ inp last p).1)) := by
  have hsafe := tokGuard_safe (ops := ops) (inp := inp) hs
  have hsafe2 := tokGuard_safe2 (ops := ops) (inp := inp) (s := s)
  have hpost := parse_post (env := ⟨tbl, cfg, guardArgs (tokGuard s) (cleanOps ops)⟩) (inp := inp) hsafe hw last p hp
  obtain ⟨q1, q2⟩ := parse_post2 (env := ⟨tbl, cfg, guardArgs (tokGuard s) (cleanOps ops)⟩) (inp := inp) hchk hsafe hsafe2 hw last p hp htp
  obtain ⟨g1, g2, g3⟩ := guardArgs_parse_eq (tbl := tbl) (cfg := cfg) ht hf.argFresh
    (fun e hF => ⟨s, tokGuard_fires hF⟩) last p hDk
    (fun e hF he => by
      rw [tokGuard_fires hF] at he
      exact T2_not_U2 hs (q1 _ he))
  refine ⟨g1, g2 _ (tokGuard_fires_s s inp), fun k hk => ?_⟩
  obtain ⟨g3a, g3b⟩ := g3 k hk
  have hk' := hk
  rw [g3a] at hk'
  unfold ParsePost at hpost
  rw [hk'] at hpost
  obtain ⟨_, p2, p3⟩ := hpost
  refine ⟨p2, g3b, fun hl => ?_⟩
  rw [g3a]
  exact ⟨p3 hl, q2 k hk' hl⟩

end
end LolHtml.Model
