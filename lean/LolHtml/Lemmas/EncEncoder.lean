/-
Lemmas about `Model.TextEncoder`: the `encode` loop emits exactly the NCR-fallback encoding of its
input, whatever the buffer sizes and wherever the encoder reports `OutputFull`.
-/
import LolHtml.Model.TextEncoder
import LolHtml.Lemmas.EncCodec

namespace LolHtml.Enc

theorem dec7_length (n : Nat) : 1 ≤ (dec7 n).length ∧ (dec7 n).length ≤ 7 := by
  simp only [dec7, List.length_map, List.length_append, List.length_cons, List.length_nil]
  have := (List.dropWhile_sublist (· == 0)
    (l := [n / 1000000 % 10, n / 100000 % 10, n / 10000 % 10, n / 1000 % 10, n / 100 % 10, n / 10 % 10])).length_le
  simp only [List.length_cons, List.length_nil] at this
  omega

theorem ncr_length (ch : Char) : 4 ≤ (ncr ch).length ∧ (ncr ch).length ≤ 10 := by
  have := dec7_length ch.toNat
  simp only [ncr, List.length_append, List.length_cons, List.length_nil]
  omega

theorem encUnit_length {c : Codec} (L : c.Lawful) (ch : Char) :
    1 ≤ (encUnit c ch).length ∧ (encUnit c ch).length ≤ 10 := by
  unfold encUnit
  cases h : c.encChar ch with
  | none => have := ncr_length ch; simp only []; omega
  | some bs => have := L.enc_size ch bs h; simp only []; omega

theorem encodeAll_append (c : Codec) (a b : List Char) :
    encodeAll c (a ++ b) = encodeAll c a ++ encodeAll c b := by
  simp [encodeAll]

theorem encodeAll_cons (c : Codec) (ch : Char) (s : List Char) :
    encodeAll c (ch :: s) = encUnit c ch ++ encodeAll c s := by
  simp [encodeAll]

/-! ### `encode_from_utf8` -/

theorem encodeAux_sound (c : Codec) (pol : EncPolicy) (bufLen : Nat) :
    ∀ (content : List Char) (free : Nat),
      (encodeAux c pol bufLen content free).out
          = encodeAll c (content.take (encodeAux c pol bufLen content free).read)
      ∧ (encodeAux c pol bufLen content free).read ≤ content.length
      ∧ ((encodeAux c pol bufLen content free).status = .inputEmpty →
          (encodeAux c pol bufLen content free).read = content.length)
      ∧ (encodeAux c pol bufLen content free).out.length ≤ free := by
  intro content
  induction content with
  | nil => intro free; simp [encodeAux, encodeAll]
  | cons ch rest ih =>
    intro free
    simp only [encodeAux]
    split
    · simp [encodeAll]
    · rename_i h
      simp only [Bool.or_eq_true, decide_eq_true_eq, not_or] at h
      obtain ⟨i1, i2, i3, i4⟩ := ih (free - (encUnit c ch).length)
      simp only [EncodeRes.push, List.take_succ_cons, encodeAll_cons, List.length_cons,
        List.length_append]
      refine ⟨by rw [i1], by omega, ?_, by omega⟩
      intro hs; have := i3 hs; omega

theorem encodeAux_progress {c : Codec} (L : c.Lawful) (pol : EncPolicy) (bufLen : Nat)
    (ch : Char) (rest : List Char) (free : Nat) (hfree : 14 ≤ free) :
    1 ≤ (encodeAux c pol bufLen (ch :: rest) free).read ∧
    1 ≤ (encodeAux c pol bufLen (ch :: rest) free).out.length := by
  have hu := encUnit_length L ch
  simp only [encodeAux]
  have h1 : ¬ free < (encUnit c ch).length := by omega
  have h2 : ¬ free < 14 := by omega
  simp only [h1, h2, decide_false, Bool.false_and, Bool.or_false, Bool.false_eq_true, if_false,
    EncodeRes.push, List.length_append]
  omega

theorem encodeFromUtf8_sound (c : Codec) (pol : EncPolicy) (bufLen : Nat) (content : List Char) :
    (encodeFromUtf8 c pol bufLen content).out
        = encodeAll c (content.take (encodeFromUtf8 c pol bufLen content).read)
    ∧ (encodeFromUtf8 c pol bufLen content).read ≤ content.length
    ∧ ((encodeFromUtf8 c pol bufLen content).status = .inputEmpty →
        (encodeFromUtf8 c pol bufLen content).read = content.length)
    ∧ (encodeFromUtf8 c pol bufLen content).out.length ≤ bufLen :=
  encodeAux_sound c pol bufLen content bufLen

theorem encodeFromUtf8_progress {c : Codec} (L : c.Lawful) (pol : EncPolicy) (bufLen : Nat)
    (ch : Char) (rest : List Char) (h : 14 ≤ bufLen) :
    1 ≤ (encodeFromUtf8 c pol bufLen (ch :: rest)).read ∧
    1 ≤ (encodeFromUtf8 c pol bufLen (ch :: rest)).out.length :=
  encodeAux_progress L pol bufLen ch rest bufLen h

/-! ### the ASCII fast path -/

theorem asciiPrefixLen_le (s : List Char) : asciiPrefixLen s ≤ s.length := by
  induction s with
  | nil => simp [asciiPrefixLen]
  | cons ch rest ih => simp only [asciiPrefixLen]; split <;> simp <;> omega

theorem asciiBytes_eq {c : Codec} (L : c.Lawful) (s : List Char) :
    asciiBytes (s.take (asciiPrefixLen s)) = encodeAll c (s.take (asciiPrefixLen s)) := by
  induction s with
  | nil => simp [asciiPrefixLen, asciiBytes, encodeAll]
  | cons ch rest ih =>
    simp only [asciiPrefixLen]
    split
    · rename_i h
      rw [Nat.add_comm, List.take_succ_cons, encodeAll_cons]
      simp only [asciiBytes, List.map_cons] at ih ⊢
      rw [ih]
      simp [encUnit, L.enc_ascii ch h]
    · simp [asciiBytes, encodeAll]

theorem drop_asciiPrefixLen_head (s : List Char) (ch : Char) (rest : List Char)
    (h : s.drop (asciiPrefixLen s) = ch :: rest) : ¬ ch.toNat < 128 := by
  induction s with
  | nil => simp [asciiPrefixLen] at h
  | cons x xs ih =>
    simp only [asciiPrefixLen] at h
    split at h
    · rw [Nat.add_comm, List.drop_succ_cons] at h; exact ih h
    · rename_i hx
      simp only [List.drop_zero, List.cons.injEq] at h
      rw [← h.1]; exact hx

/-! ### `TextEncoder::encode` -/

/-- sizes under which `encode_from_utf8` is guaranteed to make progress -/
structure BufCfg.Ok (cfg : BufCfg) : Prop where
  stack : 14 ≤ cfg.stack
  heap : 14 ≤ cfg.heap

theorem BufCfg.real_ok : BufCfg.real.Ok := ⟨by decide, by decide⟩

theorem encodeLoop_ok {c : Codec} (L : c.Lawful) (pol : EncPolicy) (cfg : BufCfg) (hcfg : cfg.Ok) :
    ∀ (fuel : Nat) (heap : Bool) (content : List Char), content.length < fuel →
      ∃ heap' calls, encodeLoop c pol cfg fuel heap content = some ⟨heap', calls, []⟩ ∧
        calls.flatten = encodeAll c content ∧ ∀ x ∈ calls, x ≠ [] := by
  intro fuel
  induction fuel with
  | zero => intro heap content h; omega
  | succ fuel ih =>
    intro heap content hlen
    have hsplit : content = content.take (asciiPrefixLen content) ++ content.drop (asciiPrefixLen content) :=
      (List.take_append_drop _ _).symm
    have hasc := asciiBytes_eq L content
    -- the first output-handler call
    have ho1 : ∀ (o1 : List Bytes),
        o1 = (if (content.take (asciiPrefixLen content)).isEmpty then []
              else [asciiBytes (content.take (asciiPrefixLen content))]) →
        o1.flatten = encodeAll c (content.take (asciiPrefixLen content)) ∧ ∀ x ∈ o1, x ≠ [] := by
      intro o1 ho
      subst ho
      split
      · rename_i he
        rw [List.isEmpty_iff] at he
        simp [he, encodeAll]
      · rename_i he
        refine ⟨by simp [hasc], ?_⟩
        intro x hx
        simp only [List.mem_singleton] at hx
        subst hx
        intro hnil
        apply he
        simp only [asciiBytes, List.map_eq_nil_iff] at hnil
        simp [hnil]
    obtain ⟨ho1a, ho1b⟩ := ho1 _ rfl
    simp only [encodeLoop]
    cases hrem : content.drop (asciiPrefixLen content) with
    | nil =>
      simp only [List.isEmpty_nil, if_true]
      refine ⟨heap, _, rfl, ?_, ho1b⟩
      rw [ho1a]
      conv => rhs; rw [hsplit, hrem, List.append_nil]
    | cons ch rest =>
      simp only [List.isEmpty_cons, Bool.false_eq_true, if_false]
      generalize hheap1 : (heap || decide (cfg.longEnough ≤ (Utf8.encode (ch :: rest)).length)) = heap1
      generalize hbl : (if heap1 = true then cfg.heap else cfg.stack) = bufLen
      have hbl14 : 14 ≤ bufLen := by
        rw [← hbl]; split
        · exact hcfg.heap
        · exact hcfg.stack
      obtain ⟨s1, s2, s3, s4⟩ := encodeFromUtf8_sound c pol bufLen (ch :: rest)
      obtain ⟨p1, p2⟩ := encodeFromUtf8_progress L pol bufLen ch rest hbl14
      generalize encodeFromUtf8 c pol bufLen (ch :: rest) = r at s1 s2 s3 s4 p1 p2
      have ho2 : (if (decide (0 < r.out.length) && decide (r.out.length ≤ bufLen)) = true then [r.out] else [])
          = [r.out] := by
        have a : 0 < r.out.length := by omega
        simp [a, s4]
      rw [ho2]
      have hrne : r.out ≠ [] := by intro h; rw [h] at p2; simp at p2
      have hcalls : ∀ x ∈ (if (content.take (asciiPrefixLen content)).isEmpty then []
              else [asciiBytes (content.take (asciiPrefixLen content))]) ++ [r.out], x ≠ [] := by
        intro x hx
        rcases List.mem_append.mp hx with h | h
        · exact ho1b x h
        · simp only [List.mem_singleton] at h; subst h; exact hrne
      have hall : encodeAll c content
          = encodeAll c (content.take (asciiPrefixLen content)) ++
            (encodeAll c ((ch :: rest).take r.read) ++ encodeAll c ((ch :: rest).drop r.read)) := by
        rw [← encodeAll_append, List.take_append_drop, ← hrem, ← encodeAll_append, List.take_append_drop]
      cases hrest : (ch :: rest).drop r.read with
      | nil =>
        simp only [List.isEmpty_nil, if_true]
        refine ⟨heap1, _, rfl, ?_, hcalls⟩
        rw [List.flatten_append, ho1a, hall, hrest, ← s1]
        simp [encodeAll]
      | cons ch2 rest2 =>
        simp only [List.isEmpty_cons, Bool.false_eq_true, if_false]
        have hst : r.status = .outputFull := by
          cases hs : r.status with
          | outputFull => rfl
          | inputEmpty =>
            have := s3 hs
            rw [this, List.drop_length] at hrest
            cases hrest
        have hout : 0 < r.out.length := by omega
        simp only [hst, hout, if_true]
        have hlt : (ch2 :: rest2).length < fuel := by
          have h1 : (ch2 :: rest2).length = (ch :: rest).length - r.read := by
            rw [← hrest, List.length_drop]
          have h2 : (ch :: rest).length ≤ content.length := by
            rw [← hrem, List.length_drop]; omega
          omega
        obtain ⟨heap', calls', e1, e2, e3⟩ := ih heap1 (ch2 :: rest2) hlt
        rw [e1]
        refine ⟨heap', _, rfl, ?_, ?_⟩
        · rw [List.flatten_append, List.flatten_append, ho1a, e2, hall, hrest, ← s1]
          simp
        · intro x hx
          rcases List.mem_append.mp hx with h | h
          · exact hcalls x h
          · exact e3 x h

end LolHtml.Enc
