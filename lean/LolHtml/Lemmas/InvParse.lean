import LolHtml.Lemmas.InvStep
import LolHtml.Lemmas.InvKeep
/-!
# C15 — `Parser::parse` keeps the invariant and never exhausts the switch budget

`PInv` is the invariant of the parser between two `parse` calls (and between two iterations of its
loop). `parse_post`: from `PInv`, `Parser.parse` returns either `ok consumed` with
`watermark ≤ consumed ≤ length` and (unless this was the last input) `PInv` re-based by `consumed`,
or an error that is not a covered panic — in particular never "out of fuel".
-/
namespace LolHtml.Model

variable {κ : Type}

theorem MInvB_congr {t : Table} {L w lo : Nat} {m m' : M κ} (h : MInvB t L w lo m)
    (hN : m'.c.nextPos = m.c.nextPos) (hS : m'.c.state = m.c.state) (hE : m'.c.entered = m.c.entered)
    (hr : m'.r = m.r) : MInvB t L w lo m' := by
  obtain ⟨a1, a2, sd, hsd, a3⟩ := h
  refine ⟨by rw [hN]; exact a1, by rw [hN]; exact a2, sd, by rw [hS]; exact hsd, ?_⟩
  have : seqResume sd m'.c = seqResume sd m.c := by simp only [seqResume, hE]
  rw [hN, hr, this]
  exact a3

/-- invariant of the parser between `parse` calls / loop iterations, for an input slice of length `L` -/
def PInv (t : Table) (L : Nat) (W : κ → Nat) (p : Parser κ) : Prop :=
  MInvB t L (W p.x.sink) 0 (p.machine false) ∧
  (p.directive = .lex → p.scanR.tagStart = none ∧ p.scanR.chSeqStart = none)

/-- where the current machine stands (the tag start, if the scanner has marked one) -/
def Parser.posOf (p : Parser κ) : Nat :=
  match p.directive with
  | .lex => p.lexC.nextPos
  | .scan => p.scanR.tagStart.getD p.scanC.nextPos

/-- measure for the lexer ⇄ scanner switches -/
def Parser.nu (L : Nat) (p : Parser κ) : Nat :=
  2 * (L - p.posOf) + (match p.directive with | .lex => 0 | .scan => 1)

/-- what `Parser::parse` guarantees -/
def ParsePost (t : Table) (W : κ → Nat) (L : Nat) (last : Bool) (r : Parser κ × Except Err Nat) : Prop :=
  match r.2 with
  | .ok consumed =>
      W r.1.x.sink ≤ consumed ∧ consumed ≤ L ∧ (last = false → PInv t (L - consumed) (fun _ => 0) r.1)
  | .error e => ErrOK U1 e

section
variable {env : Env κ} {inp : Bytes} {W : κ → Nat}

theorem store_lex (p : Parser κ) (m : M κ) {l : LexRegs} (h : m.r = .lexer l) :
    p.store m = { p with lexC := m.c, lexR := l, x := m.x } := by
  unfold Parser.store; rw [h]

theorem store_scan (p : Parser κ) (m : M κ) {s : ScanRegs} (h : m.r = .scanner s) :
    p.store m = { p with scanC := m.c, scanR := s, x := m.x } := by
  unfold Parser.store; rw [h]

/-- one run of the lexer inside `parse` -/
theorem lexRun_post (hs : SinkSafe env.ops W inp U1) (hw : Wf env.tbl) (last : Bool) (p : Parser κ)
    (hp : PInv env.tbl inp.length W p) (hd : p.directive = .lex) :
    ∃ l, (runLoop env inp (defaultFuel inp) (p.machine last)).1.r = .lexer l ∧
      (runLoop env inp (defaultFuel inp) (p.machine last)).1.c.isLast = last ∧
      SigOK U1 env.tbl W inp.length p.lexC.nextPos (runLoop env inp (defaultFuel inp) (p.machine last)).1
        (runLoop env inp (defaultFuel inp) (p.machine last)).2 := by
  have hk := runLoop_keep (env := env) (inp := inp) (defaultFuel inp) (p.machine last)
  have hm0 : MInvB env.tbl inp.length (W (p.machine last).x.sink) p.lexC.nextPos (p.machine last) := by
    obtain ⟨⟨a1, a2, sd, hsd, a3⟩, _⟩ := hp
    simp only [Parser.machine, hd] at a1 a2 hsd a3 ⊢
    exact ⟨Nat.le_refl _, a2, sd, hsd, a3⟩
  have hsig := runLoop_post hs hw (defaultFuel inp) (p.machine last) hm0 (mu_lt_defaultFuel _ hw _)
  have hlex : (p.machine last).r.isLex = true := by simp only [Parser.machine, hd, Regs.isLex]
  have hlast : (p.machine last).c.isLast = last := by simp only [Parser.machine, hd]
  cases hr : (runLoop env inp (defaultFuel inp) (p.machine last)).1.r with
  | lexer l => exact ⟨l, rfl, by rw [hk.1, hlast], hsig⟩
  | scanner s =>
    have := hk.2
    rw [hr, hlex] at this
    cases this

/-- one run of the tag scanner inside `parse` -/
theorem scanRun_post (hs : SinkSafe env.ops W inp U1) (hw : Wf env.tbl) (last : Bool) (p : Parser κ)
    (hp : PInv env.tbl inp.length W p) (hd : p.directive = .scan) :
    ∃ s, (runLoop env inp (defaultFuel inp) (p.machine last)).1.r = .scanner s ∧
      (runLoop env inp (defaultFuel inp) (p.machine last)).1.c.isLast = last ∧
      SigOK U1 env.tbl W inp.length p.posOf (runLoop env inp (defaultFuel inp) (p.machine last)).1
        (runLoop env inp (defaultFuel inp) (p.machine last)).2 := by
  have hk := runLoop_keep (env := env) (inp := inp) (defaultFuel inp) (p.machine last)
  have hm0 : MInvB env.tbl inp.length (W (p.machine last).x.sink) p.posOf (p.machine last) := by
    obtain ⟨⟨a1, a2, sd, hsd, a3⟩, _⟩ := hp
    simp only [Parser.machine, hd, RegsB] at a1 a2 hsd a3 ⊢
    simp only [Parser.posOf, hd]
    cases hts : p.scanR.tagStart with
    | none =>
      refine ⟨Nat.le_refl _, a2, sd, hsd, a3.1, fun q hq => ?_, a3.2.2⟩
      rw [hts] at hq; cases hq
    | some q0 =>
      have h0 := a3.2.1 q0 hts
      refine ⟨h0.2.2, a2, sd, hsd, a3.1, fun q hq => ?_, a3.2.2⟩
      rw [hts] at hq
      have : q0 = q := by simpa using hq
      subst this
      exact ⟨h0.1, Nat.le_refl _, h0.2.2⟩
  have hsig := runLoop_post hs hw (defaultFuel inp) (p.machine last) hm0 (mu_lt_defaultFuel _ hw _)
  have hlex : (p.machine last).r.isLex = false := by simp only [Parser.machine, hd, Regs.isLex]
  have hlast : (p.machine last).c.isLast = last := by simp only [Parser.machine, hd]
  cases hr : (runLoop env inp (defaultFuel inp) (p.machine last)).1.r with
  | scanner s => exact ⟨s, rfl, by rw [hk.1, hlast], hsig⟩
  | lexer l =>
    have := hk.2
    rw [hr, hlex] at this
    cases this

theorem posOf_le (p : Parser κ) {t : Table} {L : Nat} (hp : PInv t L W p) : p.posOf ≤ L := by
  obtain ⟨⟨a1, a2, sd, hsd, a3⟩, _⟩ := hp
  unfold Parser.posOf
  cases hd : p.directive with
  | lex => simp only [Parser.machine, hd] at a2 ⊢; exact a2
  | scan =>
    simp only [Parser.machine, hd, RegsB] at a2 a3 ⊢
    cases hts : p.scanR.tagStart with
    | none => simpa using a2
    | some q => have := a3.2.1 q hts; simp only [Option.getD_some]; omega

/-- **The loop of `Parser::parse`**: with a budget above the measure it never runs out. -/
theorem parseLoop_post (hs : SinkSafe env.ops W inp U1) (hw : Wf env.tbl) (last : Bool) (n : Nat) (p : Parser κ)
    (hp : PInv env.tbl inp.length W p) (hn : p.nu inp.length < n) :
    ParsePost env.tbl W inp.length last (Parser.parseLoop env inp last n p) := by
  induction n generalizing p with
  | zero => omega
  | succ n ih =>
    have hpos := posOf_le p hp
    cases hd : p.directive with
    | lex =>
      obtain ⟨l, hl, hlast, hsig⟩ := lexRun_post hs hw last p hp hd
      have hnu : p.nu inp.length = 2 * (inp.length - p.lexC.nextPos) := by
        simp only [Parser.nu, Parser.posOf, hd, Nat.add_zero]
      have hst := store_lex p _ hl
      simp only [Parser.parseLoop]
      split
      · -- end of input
        rename_i consumed hres
        rw [hres] at hsig
        obtain ⟨s1, s2, s3⟩ := hsig
        rw [hst]
        simp only [ParsePost]
        refine ⟨s1, s2, fun hlf => ?_⟩
        subst hlf
        refine ⟨?_, fun _ => hp.2 hd⟩
        have := s3 hlast
        simp only [Parser.machine, hd] at this hl ⊢
        exact MInvB_congr this rfl rfl rfl hl.symm
      · -- directive change: the lexer only hands over to the tag scanner
        rename_i d bm hres
        rw [hres] at hsig
        obtain ⟨s1, s2, s3⟩ := hsig
        rw [hl] at s3
        obtain ⟨s3a, s3b⟩ := s3
        subst s3a
        rw [hst]
        obtain ⟨sd, hsd⟩ := Table.state?_isSome (hw.textState bm.textType)
        obtain ⟨ht1, ht2⟩ := hp.2 hd
        apply ih
        · refine ⟨?_, fun h => by simp [loadBookmark] at h⟩
          simp only [loadBookmark, Parser.machine]
          refine ⟨Nat.zero_le _, s2, sd, hsd, ?_⟩
          simp only [RegsB]
          refine ⟨s1, fun q hq => ?_, Or.inl ht2⟩
          rw [ht1] at hq; cases hq
        · have : (loadBookmark env Directive.scan bm
              { p with lexC := (runLoop env inp (defaultFuel inp) (p.machine last)).1.c, lexR := l,
                       x := (runLoop env inp (defaultFuel inp) (p.machine last)).1.x }).nu inp.length
              = 2 * (inp.length - bm.pos) + 1 := by
            simp only [Parser.nu, Parser.posOf, loadBookmark, ht1, Option.getD_none]
          rw [this]
          omega
      · -- internal error (reported as a handler error in release builds)
        simp only [ParsePost, ErrOK]
      · rename_i e hne hres
        rw [hres] at hsig
        simp only [ParsePost]
        exact hsig
    | scan =>
      obtain ⟨s, hsr, hlast, hsig⟩ := scanRun_post hs hw last p hp hd
      have hnu : p.nu inp.length = 2 * (inp.length - p.posOf) + 1 := by
        simp only [Parser.nu, hd]
      have hst := store_scan p _ hsr
      simp only [Parser.parseLoop]
      split
      · rename_i consumed hres
        rw [hres] at hsig
        obtain ⟨s1, s2, s3⟩ := hsig
        rw [hst]
        simp only [ParsePost]
        refine ⟨s1, s2, fun hlf => ?_⟩
        subst hlf
        refine ⟨?_, fun h => by simp [hd] at h⟩
        have := s3 hlast
        simp only [Parser.machine, hd] at this hsr ⊢
        exact MInvB_congr this rfl rfl rfl hsr.symm
      · rename_i d bm hres
        rw [hres] at hsig
        obtain ⟨s1, s2, s3⟩ := hsig
        rw [hsr] at s3
        obtain ⟨s3a, s3b, s3c, s3d⟩ := s3
        subst s3a
        rw [hst]
        obtain ⟨sd, hsd⟩ := Table.state?_isSome (hw.textState bm.textType)
        apply ih
        · refine ⟨?_, fun _ => ⟨s3c, s3d⟩⟩
          simp only [loadBookmark, Parser.machine]
          refine ⟨Nat.zero_le _, s2, sd, hsd, ?_⟩
          simp only [RegsB]
          exact ⟨s1, Nat.le_refl _⟩
        · have : (loadBookmark env Directive.lex bm
              { p with scanC := (runLoop env inp (defaultFuel inp) (p.machine last)).1.c, scanR := s,
                       x := (runLoop env inp (defaultFuel inp) (p.machine last)).1.x }).nu inp.length
              = 2 * (inp.length - bm.pos) := by
            simp only [Parser.nu, Parser.posOf, loadBookmark, Nat.add_zero]
          rw [this]
          omega
      · simp only [ParsePost, ErrOK]
      · rename_i e hne hres
        rw [hres] at hsig
        simp only [ParsePost]
        exact hsig

/-- **`Parser::parse`.** -/
theorem parse_post (hs : SinkSafe env.ops W inp U1) (hw : Wf env.tbl) (last : Bool) (p : Parser κ)
    (hp : PInv env.tbl inp.length W p) :
    ParsePost env.tbl W inp.length last (Parser.parse env inp last p) := by
  unfold Parser.parse
  apply parseLoop_post hs hw last _ p hp
  have := posOf_le p hp
  unfold Parser.nu
  split <;> omega

/-- the invariant only needs a lower bound on the slice length -/
theorem PInv_mono {t : Table} {L L' : Nat} {p : Parser κ} (h : PInv t L W p) (hL : L ≤ L') : PInv t L' W p := by
  obtain ⟨⟨a1, a2, a3⟩, b⟩ := h
  exact ⟨⟨a1, by omega, a3⟩, b⟩

theorem PInv_new (t : Table) (hw : Wf t) (sink : κ) (d : Directive) (strict : Bool) (L : Nat) (hW : W sink = 0) :
    PInv t L W (Parser.new t sink d strict) := by
  obtain ⟨sd, hsd⟩ := Table.state?_isSome (hw.textState .data)
  simp only [Table.textState] at hsd
  refine ⟨?_, fun _ => ⟨rfl, rfl⟩⟩
  cases d
  · simp only [Parser.new, Parser.machine]
    refine ⟨Nat.zero_le _, Nat.zero_le _, sd, hsd, ?_⟩
    simp only [RegsB]
    exact ⟨by rw [hW]; exact Nat.zero_le _, fun q hq => (by cases hq), Or.inl (by first | rfl | trivial)⟩
  · simp only [Parser.new, Parser.machine]
    refine ⟨Nat.zero_le _, Nat.zero_le _, sd, hsd, ?_⟩
    simp only [RegsB]
    exact ⟨by rw [hW]; exact Nat.zero_le _, Nat.le_refl _⟩

end
end LolHtml.Model
