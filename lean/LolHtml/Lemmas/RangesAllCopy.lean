import LolHtml.Lemmas.StreamLocationsAll
import LolHtml.Thm.C15_Core
import LolHtml.Thm.C01
/-!
# `C14_ranges_all_controllers` and the logging wrapper, importable next to package `full`

`Thm/C14_Locations.lean` imports `Lemmas/StreamTextContig.lean` → `Lemmas/TextContig.lean`, whose `LolHtml.Model.TInv` clashes
with the `LolHtml.Model.TInv` of `Lemmas/Total.lean` (imported by package `full` through `Lemmas/LexOnly.lean`): the two
modules cannot be imported together. The statement needed for the real controller, `C14_ranges_all_controllers`, depends on
`Lemmas/StreamLocationsAll.lean` only. This file is a VERBATIM COPY (namespace `LolHtml.Thm.C14R` instead of
`LolHtml.Thm.C14`) of `RInv2` … `C14_ranges_all_controllers` and of `withLog`, `withLog_logging`, `withLog_clean` from
`Thm/C14_Locations.lean`. (Integrator: renaming one of the two `TInv` makes this file unnecessary.)
-/
namespace LolHtml.Thm.C14R
open LolHtml LolHtml.Model LolHtml.Thm.C01

variable {γ : Type}

/-- invariant of the public object, with `inv`'s stream invariant -/
def RInv2 (w : World γ) (log : γ → List Token) (r : Rewriter γ) : Prop :=
  Ordered (log r.stream.disp.ctl) ∧ (r.poisoned = false → r.stream.LocInv2 w log)

theorem new_RInv2 (w : World γ) (hw : Wf w.tbl) (log : γ → List Token) (g : γ) (cfg : Settings) (hg : log g = []) :
    RInv2 w log (Rewriter.new w g cfg) := by
  have ho : Ordered (log g) := by rw [hg]; exact ⟨by simp, List.Pairwise.nil⟩
  refine ⟨ho, fun _ => ⟨Stream.new_SInv hw g cfg, ho, ?_, ?_⟩⟩
  · intro a ha
    simp only [Rewriter.new, Stream.new, Stream.disp, Parser.new, Disp.new] at ha
    rw [hg] at ha; simp at ha
  · intro hp
    simp [Rewriter.new, Stream.new, Stream.disp, Parser.new, Disp.new] at hp

theorem write_RInv2 {w : World γ} {log : γ → List Token} (hlog : Logging w.ctl log) (hc : CtlClean w.ctl)
    (hw : Wf w.tbl) (ht : EmitsChecked w.tbl = true) (r : Rewriter γ) (data : Bytes) (h : RInv2 w log r) :
    RInv2 w log (r.write w data).1 := by
  unfold Model.Rewriter.write
  split
  · exact h
  · rename_i hp
    have hp' : r.poisoned = false := by simpa using hp
    obtain ⟨ho, hok⟩ := Stream.write_LocInv2 hlog hc hw ht r.stream data (h.2 hp')
    dsimp only
    split
    · rename_i hres
      exact ⟨ho, fun _ => hok hres⟩
    · exact ⟨ho, fun hcc => by simp at hcc⟩

theorem writeAll_RInv2 {w : World γ} {log : γ → List Token} (hlog : Logging w.ctl log) (hc : CtlClean w.ctl)
    (hw : Wf w.tbl) (ht : EmitsChecked w.tbl = true) (chunks : List Bytes) (r : Rewriter γ) (h : RInv2 w log r) :
    RInv2 w log (writeAll w r chunks).1 := by
  induction chunks generalizing r with
  | nil => exact h
  | cons c cs ih => exact ih _ (write_RInv2 hlog hc hw ht r c h)

/-- **C14_ranges_all_controllers.** For every table satisfying the decidable side-conditions `WfTable` (package `inv`)
and `EmitsChecked`, every tag configuration, settings record, history `write* ; end` (any chunking, failing calls
included) and EVERY controller — handlers may rewrite tokens, remove element content (switch emission off and on
again) and fail at any point; the only assumption, `CtlClean`, is that an error returned by a handler is a handler-class
error and not one of the model's markers for a Rust panic —: the source ranges of the tokens handed to the controller,
in the order they were handed over, are well-formed, ordered and pairwise disjoint, within a `write` and across
`write`s. (`Disp.resumeEmission` re-positions `remaining_content_start` at the end tag of a removed element without a
bounds check; it never moves backwards because `remaining_content_start ≤ lexeme_start`, `inv`'s register invariant.) -/
theorem C14_ranges_all_controllers (w : World γ) (log : γ → List Token) (hlog : Logging w.ctl log) (hc : CtlClean w.ctl)
    (hwf : WfTable w.tbl = true) (ht : EmitsChecked w.tbl = true) (g : γ) (hg : log g = []) (cfg : Settings)
    (chunks : List Bytes) :
    Ordered (log (run w (Rewriter.new w g cfg) chunks).1.stream.disp.ctl) := by
  have hw := WfTable.wf hwf
  unfold run
  have h := writeAll_RInv2 hlog hc hw ht chunks _ (new_RInv2 w hw log g cfg hg)
  dsimp only
  unfold Model.Rewriter.end
  split
  · exact h.1
  · rename_i hp
    have hp' : (writeAll w (Rewriter.new w g cfg) chunks).1.poisoned = false := by simpa using hp
    have := Stream.end_ordered2 hlog hc hw ht _ (h.2 hp')
    dsimp only
    split <;> exact this

/-- record every token handed to `ctl` -/
def withLog (ctl : Controller γ) : Controller (γ × List Token) :=
  { initialFlags := fun g => ctl.initialFlags g.1
    startTag := fun g n ns => (((ctl.startTag g.1 n ns).1, g.2), (ctl.startTag g.1 n ns).2)
    auxInfo := fun g i => (((ctl.auxInfo g.1 i).1, g.2), (ctl.auxInfo g.1 i).2)
    endTag := fun g n => (((ctl.endTag g.1 n).1, g.2), (ctl.endTag g.1 n).2)
    token := fun g t => (((ctl.token g.1 t).1, g.2 ++ [t]), (ctl.token g.1 t).2)
    shouldEmit := fun g => ctl.shouldEmit g.1
    handleEnd := fun g => (((ctl.handleEnd g.1).1, g.2), (ctl.handleEnd g.1).2)
    bailOut := fun g e => (((ctl.bailOut g.1 e).1, g.2), (ctl.bailOut g.1 e).2) }

theorem withLog_logging (ctl : Controller γ) : Logging (withLog ctl) (·.2) where
  token := fun _ _ => rfl
  startTag := fun _ _ _ => rfl
  auxInfo := fun _ _ => rfl
  endTag := fun _ _ => rfl
  handleEnd := fun _ => rfl
  bailOut := fun _ _ => rfl


theorem withLog_clean (ctl : Controller γ) (h : CtlClean ctl) : CtlClean (withLog ctl) where
  token := fun g t e he => h.token g.1 t e he
  startTag := fun g n ns e he => h.startTag g.1 n ns e he
  auxInfo := fun g i e he => h.auxInfo g.1 i e he
  handleEnd := fun g e he => h.handleEnd g.1 e he

end LolHtml.Thm.C14R
