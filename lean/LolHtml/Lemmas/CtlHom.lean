import LolHtml.Lemmas.ParseRelE
import LolHtml.Thm.C01
/-!
# Controller homomorphisms: a ghost in the controller state is free

`CtlHom c' c f`: `f : γ' → γ` maps the states of the controller `c'` onto those of `c` and commutes with every
callback (same answers). Then the dispatcher, the parser, the transform stream and the rewriter over `c'` are, under
`f`, those over `c`: every call of every run returns the same result (`run_hom`). Use: adding ghost components to the
state of a controller (e.g. the kind of the outstanding tag hint) changes nothing observable, so statements about
runs may be proved in the world with the ghost.
-/
set_option linter.unusedSimpArgs false
set_option linter.unusedVariables false
namespace LolHtml.Model.Hom
open LolHtml LolHtml.Model

variable {γ' γ : Type}

structure CtlHom (c' : Controller γ') (c : Controller γ) (f : γ' → γ) : Prop where
  initialFlags : ∀ g, c'.initialFlags g = c.initialFlags (f g)
  startTag : ∀ g n ns, f (c'.startTag g n ns).1 = (c.startTag (f g) n ns).1 ∧ (c'.startTag g n ns).2 = (c.startTag (f g) n ns).2
  auxInfo : ∀ g i, f (c'.auxInfo g i).1 = (c.auxInfo (f g) i).1 ∧ (c'.auxInfo g i).2 = (c.auxInfo (f g) i).2
  endTag : ∀ g n, f (c'.endTag g n).1 = (c.endTag (f g) n).1 ∧ (c'.endTag g n).2 = (c.endTag (f g) n).2
  token : ∀ g t, f (c'.token g t).1 = (c.token (f g) t).1 ∧ (c'.token g t).2 = (c.token (f g) t).2
  shouldEmit : ∀ g, c'.shouldEmit g = c.shouldEmit (f g)
  handleEnd : ∀ g, f (c'.handleEnd g).1 = (c.handleEnd (f g)).1 ∧ (c'.handleEnd g).2 = (c.handleEnd (f g)).2
  bailOut : ∀ g e, f (c'.bailOut g e).1 = (c.bailOut (f g) e).1 ∧ (c'.bailOut g e).2 = (c.bailOut (f g) e).2

/-- the dispatcher with its controller state mapped -/
def mapD (f : γ' → γ) (d : Disp γ') : Disp γ :=
  { ctl := f d.ctl, sink := d.sink, rcs := d.rcs, flags := d.flags, emissionEnabled := d.emissionEnabled,
    lastTextType := d.lastTextType, gotFlagsFromHint := d.gotFlagsFromHint, pendingAux := d.pendingAux,
    textPending := d.textPending, textPendingStart := d.textPendingStart, encoding := d.encoding,
    nextEncoding := d.nextEncoding }

def mapR (f : γ' → γ) {α : Type} (r : DRes γ' α) : DRes γ α := (mapD f r.1, r.2)

section
variable {c' : Controller γ'} {c : Controller γ} {f : γ' → γ}

theorem mapR_bind {α β : Type} (r : DRes γ' α) (g' : Disp γ' → α → DRes γ' β) (g : Disp γ → α → DRes γ β)
    (hg : ∀ d a, mapR f (g' d a) = g (mapD f d) a) : mapR f (DRes.bind r g') = DRes.bind (mapR f r) g := by
  unfold DRes.bind mapR
  cases hr : r.2 with
  | error e => simp only [hr]
  | ok a => simp only [hr]; exact hg _ _

theorem mapR_bind' {α β : Type} {r : DRes γ' α} {r0 : DRes γ α} {g' : Disp γ' → α → DRes γ' β} {g : Disp γ → α → DRes γ β}
    (hr : mapR f r = r0) (hg : ∀ d a, mapR f (g' d a) = g (mapD f d) a) :
    mapR f (DRes.bind r g') = DRes.bind r0 g := by
  subst hr
  exact mapR_bind r g' g hg

theorem mapR_ofExcept (d : Disp γ') (r' : Except Err (Disp γ')) (r : Except Err (Disp γ))
    (h : r'.map (mapD f) = r) : mapR f (DRes.ofExcept d r') = DRes.ofExcept (mapD f d) r := by
  subst h
  cases r' <;> rfl

variable (h : CtlHom c' c f)
include h

theorem hom_tokenProduced (d : Disp γ') (t : Token) :
    mapR f (Disp.tokenProduced c' d t) = Disp.tokenProduced c (mapD f d) t := by
  unfold Disp.tokenProduced mapR
  have h1 := (h.token d.ctl t).1
  have h2 := (h.token d.ctl t).2
  simp only [mapD] at *
  rw [← h2]
  unfold Disp.pushChunks Disp.noteNextEncoding
  cases (c'.token d.ctl t).2.err <;> cases (c'.token d.ctl t).2.nextEncoding <;> simp only [mapD, ← h1] <;>
    (repeat' split) <;> rfl

theorem hom_flushPendingText (d : Disp γ') :
    mapR f (d.flushPendingText c') = (mapD f d).flushPendingText c := by
  unfold Disp.flushPendingText
  show mapR f (if d.textPending = true then _ else _) = (if d.textPending = true then _ else _)
  split
  · exact hom_tokenProduced h _ _
  · rfl

omit h in
theorem hom_emitChunkBefore (d : Disp γ') (inp : Bytes) (raw : Range) :
    (d.emitChunkBefore inp raw).map (mapD f) = (mapD f d).emitChunkBefore inp raw := by
  unfold Disp.emitChunkBefore
  simp only [mapD, Disp.push]
  cases checkedSlice inp ⟨d.rcs, raw.start⟩ with
  | none => rfl
  | some chunk =>
    cases hc : (d.emissionEnabled && !List.isEmpty chunk) <;> simp only [hc, Except.map] <;> rfl

omit h in
theorem hom_flushEncodingChange (d : Disp γ') : mapD f d.flushEncodingChange = (mapD f d).flushEncodingChange := by
  cases d with
  | mk ctl sink rcs flags ee ltt gf pa tp tps enc ne =>
    cases ne with
    | none => rfl
    | some e =>
      by_cases hc : (e != enc) = true
      · simp only [Disp.flushEncodingChange, mapD, hc, if_true]
      · simp only [Disp.flushEncodingChange, mapD, hc, if_false, Bool.false_eq_true]

theorem hom_emitToken (d : Disp γ') (inp : Bytes) (raw : Range) (tok : Token) :
    mapR f (d.emitToken c' inp raw tok) = (mapD f d).emitToken c inp raw tok := by
  unfold Disp.emitToken
  refine mapR_bind' (mapR_ofExcept d _ _ (hom_emitChunkBefore d inp raw)) (fun d1 _ => ?_)
  refine mapR_bind' (hom_tokenProduced h _ _) (fun d2 _ => ?_)
  show (mapD f ({ d2 with rcs := raw.end }).flushEncodingChange, _) = _
  rw [hom_flushEncodingChange]; rfl

theorem hom_produceTag (d : Disp γ') (inp : Bytes) (lx : TagLexeme) :
    mapR f (d.produceTag c' inp lx) = (mapD f d).produceTag c inp lx := by
  unfold Disp.produceTag
  have hfl : (mapD f d).flags = d.flags := rfl
  rw [hfl]
  cases tagToToken d.flags inp lx with
  | none => rfl
  | some ft =>
    dsimp only
    cases ft.2 with
    | none => rfl
    | some tok => exact hom_emitToken h _ _ _ _

theorem hom_produceText (d : Disp γ') (inp : Bytes) (lx : NonTagLexeme) (tt : TextType) :
    mapR f (d.produceText c' inp lx tt) = (mapD f d).produceText c inp lx tt := by
  unfold Disp.produceText
  cases checkedSlice inp lx.raw with
  | none => rfl
  | some raw =>
    dsimp only
    refine mapR_bind' (mapR_ofExcept d _ _ (hom_emitChunkBefore d inp lx.raw)) (fun d1 _ => ?_)
    refine mapR_bind' (hom_tokenProduced h _ _) (fun d2 _ => rfl)

theorem hom_produceNonTag (d : Disp γ') (inp : Bytes) (lx : NonTagLexeme) :
    mapR f (d.produceNonTag c' inp lx) = (mapD f d).produceNonTag c inp lx := by
  unfold Disp.produceNonTag
  have hfl : (mapD f d).flags = d.flags := rfl
  rw [hfl]
  split
  · split
    · exact hom_produceText h _ _ _ _
    · rfl
  · cases nonTagToToken d.flags inp lx with
    | none => rfl
    | some o =>
      cases o with
      | none => rfl
      | some tok => exact hom_emitToken h _ _ _ _

theorem hom_answerAux (d : Disp γ') (info : AuxInfo) :
    mapR f (d.answerAux c' info) = (mapD f d).answerAux c info := by
  unfold Disp.answerAux mapR
  have h1 := (h.auxInfo d.ctl info).1
  have h2 := (h.auxInfo d.ctl info).2
  simp only [mapD] at *
  rw [← h2]
  cases (c'.auxInfo d.ctl info).2 <;> simp only [mapD, ← h1]

theorem hom_adjustFlagsForTag (d : Disp γ') (inp : Bytes) (lx : TagLexeme) :
    mapR f (d.adjustFlagsForTag c' inp lx) = (mapD f d).adjustFlagsForTag c inp lx := by
  unfold Disp.adjustFlagsForTag
  show mapR f (if d.pendingAux = true then _ else _) = (if d.pendingAux = true then _ else _)
  split
  · cases lx.outline with
    | startTag n hsh ns as sc => exact hom_answerAux h _ _
    | endTag n hsh => rfl
  · cases lx.outline with
    | startTag n hsh ns as sc =>
      dsimp only
      cases LocalName.new inp n hsh with
      | none => rfl
      | some ln =>
        dsimp only
        have h1 := (h.startTag d.ctl ln ns).1
        have h2 := (h.startTag d.ctl ln ns).2
        simp only [mapD] at *
        rw [← h2]
        cases (c'.startTag d.ctl ln ns).2 with
        | flags fl => simp only [mapR, mapD, ← h1]
        | infoRequest =>
          dsimp only
          rw [hom_answerAux h]
          simp only [mapD, ← h1]
        | err e => simp only [mapR, mapD, ← h1]
    | endTag n hsh =>
      dsimp only
      cases LocalName.new inp n hsh with
      | none => rfl
      | some ln =>
        dsimp only
        have h1 := (h.endTag d.ctl ln).1
        have h2 := (h.endTag d.ctl ln).2
        simp only [mapR, mapD, ← h1, ← h2]

theorem hom_resumeEmission (d : Disp γ') (lx : TagLexeme) :
    mapD f (d.resumeEmission c' lx) = (mapD f d).resumeEmission c lx := by
  unfold Disp.resumeEmission Disp.shouldStopRemoving
  have := h.shouldEmit d.ctl
  simp only [mapD, ← this]
  split <;> rfl

omit h in
theorem hom_nextDirective (d : Disp γ') : (mapD f d).nextDirective = d.nextDirective := rfl

theorem hom_handleTag (inp : Bytes) (lx : TagLexeme) (d : Disp γ') :
    mapR f (Disp.handleTag c' inp lx d) = Disp.handleTag c inp lx (mapD f d) := by
  unfold Disp.handleTag
  refine mapR_bind' (hom_flushPendingText h d) (fun d1 _ => ?_)
  refine mapR_bind' ?_ (fun d2 _ => ?_)
  · show mapR f (if d1.gotFlagsFromHint = true then _ else _) = (if d1.gotFlagsFromHint = true then _ else _)
    split
    · rfl
    · exact hom_adjustFlagsForTag h _ _ _
  · refine mapR_bind' ?_ (fun d3 _ => ?_)
    · rw [← hom_resumeEmission h]; exact hom_produceTag h _ _ _
    · have := h.shouldEmit d3.ctl
      simp only [mapR, mapD, ← this]
      rfl

theorem hom_handleNonTag (inp : Bytes) (lx : NonTagLexeme) (d : Disp γ') :
    mapR f (Disp.handleNonTag c' inp lx d) = Disp.handleNonTag c inp lx (mapD f d) := by
  unfold Disp.handleNonTag
  refine mapR_bind' ?_ (fun d1 _ => hom_produceNonTag h _ _ _)
  split
  · rfl
  · exact hom_flushPendingText h d

omit h in
theorem hom_applyHintFlags (d : Disp γ') (fl : Flags) : mapR f (d.applyHintFlags fl) = (mapD f d).applyHintFlags fl := rfl

theorem hom_startTagHint (n : LocalName) (ns : Ns) (d : Disp γ') :
    mapR f (Disp.startTagHint c' n ns d) = Disp.startTagHint c n ns (mapD f d) := by
  have hr : c.startTag (f d.ctl) n ns = (f (c'.startTag d.ctl n ns).1, (c'.startTag d.ctl n ns).2) :=
    Prod.ext (h.startTag d.ctl n ns).1.symm (h.startTag d.ctl n ns).2.symm
  unfold Disp.startTagHint
  simp only [mapR, mapD, hr]
  generalize c'.startTag d.ctl n ns = r
  obtain ⟨g1, a⟩ := r
  cases a <;> simp only [Disp.applyHintFlags, Disp.nextDirective]

theorem hom_endTagHint (n : LocalName) (d : Disp γ') :
    mapR f (Disp.endTagHint c' n d) = Disp.endTagHint c n (mapD f d) := by
  unfold Disp.endTagHint
  refine mapR_bind' (hom_flushPendingText h d) (fun d1 _ => ?_)
  have hr : c.endTag (f d1.ctl) n = (f (c'.endTag d1.ctl n).1, (c'.endTag d1.ctl n).2) :=
    Prod.ext (h.endTag d1.ctl n).1.symm (h.endTag d1.ctl n).2.symm
  have h3 := h.shouldEmit (c'.endTag d1.ctl n).1
  simp only [mapR, mapD, hr, Disp.applyHintFlags, Disp.shouldStopRemoving, Disp.nextDirective]
  rw [← h3]
  rfl

/-- **the dispatcher over `c'` is, under `f`, the dispatcher over `c`** -/
theorem dispOps_hom (inp : Bytes) :
    RelE.OpsRelE (dispOps c') (dispOps c) inp (fun d' d => mapD f d' = d) (fun _ => False) where
  handleTag := fun lx k₁ k₂ hk => by
    subst hk
    have := hom_handleTag h inp lx k₁
    exact Or.inl ⟨congrArg Prod.fst this, congrArg Prod.snd this⟩
  handleNonTag := fun lx k₁ k₂ hk => by
    subst hk
    have := hom_handleNonTag h inp lx k₁
    exact Or.inl ⟨congrArg Prod.fst this, congrArg Prod.snd this⟩
  startTagHint := fun n ns k₁ k₂ hk => by
    subst hk
    have := hom_startTagHint h n ns k₁
    exact Or.inl ⟨congrArg Prod.fst this, congrArg Prod.snd this⟩
  endTagHint := fun n k₁ k₂ hk => by
    subst hk
    have := hom_endTagHint h n k₁
    exact Or.inl ⟨congrArg Prod.fst this, congrArg Prod.snd this⟩

end

/-! ### parser, stream, rewriter -/

section
variable {w : World γ} {c' : Controller γ'} {f : γ' → γ}

/-- the world over `c'` -/
def worldOf (w : World γ) (c' : Controller γ') : World γ' := ⟨w.tbl, w.tags, c'⟩

local notation "w'" => worldOf w c'

/-- related dispatchers -/
def HR (f : γ' → γ) (d' : Disp γ') (d : Disp γ) : Prop := mapD f d' = d

/-- related transform streams -/
def SRh (f : γ' → γ) (s' : Stream γ') (s : Stream γ) : Prop :=
  PR (HR f) s'.parser s.parser ∧ s'.buf = s.buf ∧ s'.hasBuffered = s.hasBuffered ∧ s'.cfg = s.cfg ∧
  s'.bailOutRuns = s.bailOutRuns

theorem SRh.disp {s' : Stream γ'} {s : Stream γ} (h : SRh f s' s) : HR f s'.disp s.disp := h.1.2.2.2.2.2.1

theorem SRh.setDisp {s' : Stream γ'} {s : Stream γ} (h : SRh f s' s) {d' : Disp γ'} {d : Disp γ} (hd : HR f d' d) :
    SRh f (s'.setDisp d') (s.setDisp d) := by
  obtain ⟨⟨a, b, c, d0, e, _, g, i⟩, h2, h3, h4, h5⟩ := h
  exact ⟨⟨a, b, c, d0, e, hd, g, i⟩, h2, h3, h4, h5⟩

theorem SRh.mk' {p' : Parser (Disp γ')} {p : Parser (Disp γ)} (hp : PR (HR f) p' p) (b : Buf) (hb : Bool) (c : Settings) (n : Nat) :
    SRh f ⟨p', b, hb, c, n⟩ ⟨p, b, hb, c, n⟩ := ⟨hp, rfl, rfl, rfl, rfl⟩

theorem hr_flushForBailOut {d' : Disp γ'} {d : Disp γ} (sl : Bytes) (h : HR f d' d) :
    HR f (match d'.flushForBailOut sl with | .ok d => d | .error _ => d')
         (match d.flushForBailOut sl with | .ok d => d | .error _ => d) := by
  unfold HR at *
  subst h
  cases d' with
  | mk ctl sink rcs flags ee ltt gf pa tp tps enc ne =>
    simp only [Disp.flushForBailOut, mapD]
    cases checkedSlice sl ⟨rcs, sl.length⟩ with
    | none => rfl
    | some out =>
      by_cases ho : out.isEmpty = true
      · simp only [ho, if_true, mapD]
      · simp only [ho, if_false, Bool.false_eq_true, mapD, Disp.push]

theorem hr_flushRemaining {d' : Disp γ'} {d : Disp γ} (inp : Bytes) (consumed : Nat) (h : HR f d' d) :
    (∃ e, d'.flushRemaining inp consumed = .error e ∧ d.flushRemaining inp consumed = .error e) ∨
    (∃ a b, d'.flushRemaining inp consumed = .ok a ∧ d.flushRemaining inp consumed = .ok b ∧ HR f a b) := by
  unfold HR at *
  subst h
  cases d' with
  | mk ctl sink rcs flags ee ltt gf pa tp tps enc ne =>
    simp only [Disp.flushRemaining, mapD]
    cases ee with
    | false => exact Or.inr ⟨_, _, rfl, rfl, rfl⟩
    | true =>
      simp only [if_true]
      cases checkedSlice inp ⟨rcs, consumed⟩ with
      | none => exact Or.inl ⟨_, rfl, rfl⟩
      | some out =>
        refine Or.inr ⟨_, _, rfl, rfl, ?_⟩
        by_cases ho : out.isEmpty = true
        · simp only [ho, if_true, mapD]
        · simp only [ho, if_false, Bool.false_eq_true, mapD, Disp.push]

variable (h : CtlHom c' w.ctl f)
include h

theorem hr_runBailOut {d' : Disp γ'} {d : Disp γ} (e : Err) (hd : HR f d' d) :
    HR f (d'.runBailOut c' e) (d.runBailOut w.ctl e) := by
  unfold HR at *
  subst hd
  have h1 := (h.bailOut d'.ctl e).1
  have h2 := (h.bailOut d'.ctl e).2
  simp only [Disp.runBailOut, mapD, ← h1, ← h2]

theorem bail_hr {s' : Stream γ'} {s : Stream γ} (e : Err) (sl : List Bytes) (hs : SRh f s' s) :
    SRh f (s'.bail w' e sl) (s.bail w e sl) := by
  unfold Stream.bail Stream.shouldBailOutFor
  rw [hs.2.2.2.1]
  split
  · have hfold : ∀ (sl : List Bytes) (d' : Disp γ') (d : Disp γ), HR f d' d →
        HR f (sl.foldl (fun d sl => match d.flushForBailOut sl with | .ok d => d | .error _ => d) d')
             (sl.foldl (fun d sl => match d.flushForBailOut sl with | .ok d => d | .error _ => d) d) := by
      intro sl
      induction sl with
      | nil => intro d' d hd; exact hd
      | cons a as ih => intro d' d hd; exact ih _ _ (hr_flushForBailOut a hd)
    have := hs.setDisp (hfold sl _ _ (hr_runBailOut (w := w) h e hs.disp))
    obtain ⟨a, b, c, d, e'⟩ := this
    exact ⟨a, b, c, d, congrArg (· + 1) hs.2.2.2.2⟩
  · exact hs

theorem keepTail_hr {s' : Stream γ'} {s : Stream γ} (data chunk : Bytes) (consumed : Nat) (hs : SRh f s' s) :
    SRh f (s'.keepTail w' data chunk consumed).1 (s.keepTail w data chunk consumed).1 ∧
    (s'.keepTail w' data chunk consumed).2 = (s.keepTail w data chunk consumed).2 := by
  obtain ⟨hp, hb, hh, hc, hn⟩ := hs
  obtain ⟨p₁, buf₁, hb₁, cfg₁, n₁⟩ := s'
  obtain ⟨p₂, buf₂, hb₂, cfg₂, n₂⟩ := s
  simp only at hp hb hh hc hn
  subst hb hh hc hn
  unfold Stream.keepTail
  simp only
  by_cases hlt : consumed < chunk.length
  · simp only [hlt, if_true]
    cases hb₁ with
    | true =>
      simp only [if_true]
      cases buf₁.shift consumed with
      | some b => exact ⟨SRh.mk' hp _ _ _ _, by first | rfl | trivial⟩
      | none => exact ⟨SRh.mk' hp _ _ _ _, by first | rfl | trivial⟩
    | false =>
      simp only [Bool.false_eq_true, if_false]
      by_cases hi : (buf₁.initWith (List.drop consumed data)).2 = true
      · simp only [hi, if_true]
        exact ⟨SRh.mk' hp _ _ _ _, by first | rfl | trivial⟩
      · simp only [hi, if_false]
        exact ⟨bail_hr h _ _ (SRh.mk' hp _ _ _ _), by first | rfl | trivial⟩
  · simp only [hlt, if_false]
    exact ⟨SRh.mk' hp _ _ _ _, by first | rfl | trivial⟩

variable (ht : EmitsChecked w.tbl = true)
include ht

/-- `Parser::parse` -/
theorem parse_hr (inp : Bytes) (last : Bool) (p' : Parser (Disp γ')) (p : Parser (Disp γ)) (hp : PR (HR f) p' p) :
    PR (HR f) (Parser.parse (w').env inp last p').1 (Parser.parse w.env inp last p).1 ∧
    (Parser.parse (w').env inp last p').2 = (Parser.parse w.env inp last p).2 := by
  rcases RelE.parse_relE (tbl := w.tbl) (cfg := w.tags) (inp := inp) (dispOps_hom h inp) ht last p' p hp with h1 | ⟨e, he, _⟩
  · exact h1
  · exact he.elim

theorem write_tail_hr {s' : Stream γ'} {s : Stream γ} (data chunk : Bytes) (hs : SRh f s' s) :
    SRh f (match (s'.parser.parse (w').env chunk false).2 with
          | .error e => (({ s' with parser := (s'.parser.parse (w').env chunk false).1 } : Stream γ').bail w' e [chunk], Except.error e)
          | .ok consumed =>
            match ({ s' with parser := (s'.parser.parse (w').env chunk false).1 } : Stream γ').disp.flushRemaining chunk consumed with
            | .error e => (({ s' with parser := (s'.parser.parse (w').env chunk false).1 } : Stream γ'), Except.error e)
            | .ok d => (({ s' with parser := (s'.parser.parse (w').env chunk false).1 } : Stream γ').setDisp d).keepTail w' data chunk consumed).1
       (match (s.parser.parse w.env chunk false).2 with
          | .error e => (({ s with parser := (s.parser.parse w.env chunk false).1 } : Stream γ).bail w e [chunk], Except.error e)
          | .ok consumed =>
            match ({ s with parser := (s.parser.parse w.env chunk false).1 } : Stream γ).disp.flushRemaining chunk consumed with
            | .error e => (({ s with parser := (s.parser.parse w.env chunk false).1 } : Stream γ), Except.error e)
            | .ok d => (({ s with parser := (s.parser.parse w.env chunk false).1 } : Stream γ).setDisp d).keepTail w data chunk consumed).1 ∧
    (match (s'.parser.parse (w').env chunk false).2 with
          | .error e => (({ s' with parser := (s'.parser.parse (w').env chunk false).1 } : Stream γ').bail w' e [chunk], Except.error e)
          | .ok consumed =>
            match ({ s' with parser := (s'.parser.parse (w').env chunk false).1 } : Stream γ').disp.flushRemaining chunk consumed with
            | .error e => (({ s' with parser := (s'.parser.parse (w').env chunk false).1 } : Stream γ'), Except.error e)
            | .ok d => (({ s' with parser := (s'.parser.parse (w').env chunk false).1 } : Stream γ').setDisp d).keepTail w' data chunk consumed).2 =
       (match (s.parser.parse w.env chunk false).2 with
          | .error e => (({ s with parser := (s.parser.parse w.env chunk false).1 } : Stream γ).bail w e [chunk], Except.error e)
          | .ok consumed =>
            match ({ s with parser := (s.parser.parse w.env chunk false).1 } : Stream γ).disp.flushRemaining chunk consumed with
            | .error e => (({ s with parser := (s.parser.parse w.env chunk false).1 } : Stream γ), Except.error e)
            | .ok d => (({ s with parser := (s.parser.parse w.env chunk false).1 } : Stream γ).setDisp d).keepTail w data chunk consumed).2 := by
  obtain ⟨hp, hb, hh, hc, hn⟩ := hs
  obtain ⟨p₁, buf₁, hb₁, cfg₁, n₁⟩ := s'
  obtain ⟨p₂, buf₂, hb₂, cfg₂, n₂⟩ := s
  simp only at hp hb hh hc hn
  subst hb hh hc hn
  obtain ⟨hpr, hres⟩ := parse_hr h ht chunk false p₁ p₂ hp
  simp only
  rw [hres]
  cases (Parser.parse w.env chunk false p₂).2 with
  | error e => exact ⟨bail_hr h _ _ (SRh.mk' hpr _ _ _ _), by first | rfl | trivial⟩
  | ok consumed =>
    simp only
    rcases hr_flushRemaining chunk consumed hpr.2.2.2.2.2.1 with ⟨e, e1, e2⟩ | ⟨a, b, e1, e2, hab⟩
    · simp only [Stream.disp, e1, e2]
      exact ⟨SRh.mk' hpr _ _ _ _, by first | rfl | trivial⟩
    · simp only [Stream.disp, e1, e2]
      exact keepTail_hr h _ _ _ ((SRh.mk' hpr _ _ _ _).setDisp hab)

/-- **`TransformStream::write`** -/
theorem write_hr {s' : Stream γ'} {s : Stream γ} (data : Bytes) (hs : SRh f s' s) :
    SRh f (s'.write w' data).1 (s.write w data).1 ∧ (s'.write w' data).2 = (s.write w data).2 := by
  obtain ⟨hp, hb, hh, hc, hn⟩ := hs
  obtain ⟨p₁, buf₁, hb₁, cfg₁, n₁⟩ := s'
  obtain ⟨p₂, buf₂, hb₂, cfg₂, n₂⟩ := s
  simp only at hp hb hh hc hn
  subst hb hh hc hn
  unfold Stream.write Stream.chunkFor
  cases hb₁ with
  | true =>
    simp only [if_true]
    by_cases ha : (buf₁.append data).2 = true
    · simp only [ha, if_true]
      exact write_tail_hr h ht data _ (SRh.mk' hp _ _ _ _)
    · simp only [ha, if_false]
      exact ⟨bail_hr h _ _ (SRh.mk' hp _ _ _ _), by first | rfl | trivial⟩
  | false =>
    simp only [Bool.false_eq_true, if_false]
    exact write_tail_hr h ht data _ (SRh.mk' hp _ _ _ _)

/-- **`TransformStream::end`** -/
theorem end_hr {s' : Stream γ'} {s : Stream γ} (hs : SRh f s' s) :
    SRh f (s'.end w').1 (s.end w).1 ∧ (s'.end w').2 = (s.end w).2 := by
  obtain ⟨hp, hb, hh, hc, hn⟩ := hs
  obtain ⟨p₁, buf₁, hb₁, cfg₁, n₁⟩ := s'
  obtain ⟨p₂, buf₂, hb₂, cfg₂, n₂⟩ := s
  simp only at hp hb hh hc hn
  subst hb hh hc hn
  unfold Stream.end
  simp only
  generalize (if hb₁ = true then buf₁.data else []) = chunk
  obtain ⟨hpr, hres⟩ := parse_hr h ht chunk true p₁ p₂ hp
  rw [hres]
  cases (Parser.parse w.env chunk true p₂).2 with
  | error e => exact ⟨bail_hr h _ _ (SRh.mk' hpr _ _ _ _), by first | rfl | trivial⟩
  | ok consumed =>
    simp only
    unfold Disp.finish
    rcases hr_flushRemaining chunk chunk.length hpr.2.2.2.2.2.1 with ⟨e, e1, e2⟩ | ⟨a, b, e1, e2, hab⟩
    · simp only [Stream.disp, e1, e2, DRes.ofExcept, DRes.bind]
      exact ⟨(SRh.mk' hpr _ _ _ _).setDisp hpr.2.2.2.2.2.1, by first | rfl | trivial⟩
    · simp only [Stream.disp, e1, e2, DRes.ofExcept, DRes.bind]
      unfold HR at hab
      subst hab
      have h1 := (h.handleEnd a.ctl).1
      have h2 := (h.handleEnd a.ctl).2
      have hc : (mapD f a).ctl = f a.ctl := rfl
      simp only [worldOf, hc, ← h2]
      cases (c'.handleEnd a.ctl).2.2 with
      | some err => exact ⟨(SRh.mk' hpr _ _ _ _).setDisp (by unfold HR; simp only [mapD, ← h1]), by first | rfl | trivial⟩
      | none => exact ⟨(SRh.mk' hpr _ _ _ _).setDisp (by unfold HR; simp only [mapD, ← h1]), by first | rfl | trivial⟩

/-! ### rewriter, whole runs -/

open LolHtml.Thm.C01 (writeAll run Rewriter.new)

/-- related rewriters -/
def RRh (f : γ' → γ) (r' : Rewriter γ') (r : Rewriter γ) : Prop :=
  SRh f r'.stream r.stream ∧ r'.poisoned = r.poisoned ∧ r'.ended = r.ended

theorem rewriter_write_hr {r' : Rewriter γ'} {r : Rewriter γ} (data : Bytes) (hr : RRh f r' r) :
    RRh f (r'.write w' data).1 (r.write w data).1 ∧ (r'.write w' data).2 = (r.write w data).2 := by
  obtain ⟨hs, hp, he⟩ := hr
  unfold Rewriter.write
  rw [hp]
  by_cases hpp : r.poisoned = true
  · rw [if_pos hpp, if_pos hpp]
    exact ⟨⟨hs, hp, he⟩, rfl⟩
  · rw [if_neg hpp, if_neg hpp]
    obtain ⟨w1, w2⟩ := write_hr h ht data hs
    dsimp only
    rw [w2]
    cases (r.stream.write w data).2 with
    | ok u => exact ⟨⟨w1, rfl, he⟩, rfl⟩
    | error e => exact ⟨⟨w1, rfl, he⟩, rfl⟩

theorem rewriter_end_hr {r' : Rewriter γ'} {r : Rewriter γ} (hr : RRh f r' r) :
    (r'.end w').2 = (r.end w).2 := by
  obtain ⟨hs, hp, he⟩ := hr
  unfold Rewriter.end
  rw [hp]
  by_cases hpp : r.poisoned = true
  · rw [if_pos hpp, if_pos hpp]
  · rw [if_neg hpp, if_neg hpp]
    obtain ⟨_, w2⟩ := end_hr h ht hs
    dsimp only
    rw [w2]
    cases (r.stream.end w).2 <;> rfl

theorem writeAll_hr (cs : List Bytes) {r' : Rewriter γ'} {r : Rewriter γ} (hr : RRh f r' r) :
    RRh f (writeAll w' r' cs).1 (writeAll w r cs).1 ∧ (writeAll w' r' cs).2 = (writeAll w r cs).2 := by
  induction cs generalizing r' r with
  | nil => exact ⟨hr, rfl⟩
  | cons c cs ih =>
    simp only [writeAll]
    obtain ⟨a1, a2⟩ := rewriter_write_hr h ht c hr
    obtain ⟨b1, b2⟩ := ih a1
    exact ⟨b1, by rw [a2, b2]⟩

/-- **Runs over `c'` are, under `f`, the runs over `w.ctl`**: every call returns the same result. -/
theorem run_hom (g' : γ') (cfg : Settings) (cs : List Bytes) :
    (run w' (Rewriter.new w' g' cfg) cs).2 = (run w (Rewriter.new w (f g') cfg) cs).2 := by
  have hnew : RRh f (Rewriter.new w' g' cfg) (Rewriter.new w (f g') cfg) := by
    refine ⟨⟨?_, rfl, rfl, rfl, rfl⟩, rfl, rfl⟩
    simp only [Rewriter.new, Stream.new, worldOf, h.initialFlags g']
    refine ⟨rfl, rfl, rfl, rfl, rfl, ?_, rfl, rfl⟩
    show mapD f _ = _
    simp only [Parser.new, Disp.new, mapD, h.initialFlags g']
  obtain ⟨a1, a2⟩ := writeAll_hr h ht cs hnew
  simp only [run]
  rw [a2, rewriter_end_hr h ht a1]

end
end LolHtml.Model.Hom
