import LolHtml.Lemmas.RelexLaws
import LolHtml.Lemmas.ScanLab
/-!
A generic walk through the interpreter for a phase-indexed invariant `I : Ab → M κ → Prop` (indexed by
the `PhaseOk` label of the current state) that does not read the cursor / state registers: if every
action keeps it (following `phAct`) and signals only non-`U2` errors, so does every state-function
call. Used for the scanner (`Good sink ∧ Inv sim ∧ ¬Pend`) and for the lexer ("normal, or inside the
re-lexed tag").
-/
set_option linter.unusedSimpArgs false
set_option linter.unusedVariables false

namespace LolHtml.Model

variable {κ : Type}

section
variable {env : Env κ} {inp : Bytes}

/-! ### actions never touch the state register -/

theorem lexHandleFeedback_state {c : Common} {sim : Sim} {f : Feedback} {o : TagOutline} {c' : Common} {s' : Sim}
    (h : lexHandleFeedback inp c sim f o = .ok (c', s')) : c'.state = c.state := by
  have hsimple : ∀ (c : Common) (sim : Sim) (f : Feedback) (c' : Common) (s' : Sim),
      (match f with
        | .switchTextType t => (.ok ({ c with lastTextType := t }, sim) : Except Err (Common × Sim))
        | .setAllowCdata b => .ok ({ c with cdataAllowed := b }, sim)
        | .none => .ok (c, sim)
        | .requestLexeme _ => .error (.panic "nested RequestLexeme")) = .ok (c', s') → c'.state = c.state := by
    intro c sim f c' s' h
    cases f <;> simp only [Except.ok.injEq, Prod.mk.injEq] at h
    all_goals first | (obtain ⟨rfl, _⟩ := h; rfl) | (cases h)
  unfold lexHandleFeedback at h
  dsimp only at h
  cases f with
  | requestLexeme k =>
    dsimp only at h
    split at h
    · cases h
    · split at h
      · cases h
      · exact hsimple _ _ _ _ _ h
  | switchTextType t => simp only [Except.ok.injEq, Prod.mk.injEq] at h; obtain ⟨rfl, _⟩ := h; rfl
  | setAllowCdata b => simp only [Except.ok.injEq, Prod.mk.injEq] at h; obtain ⟨rfl, _⟩ := h; rfl
  | none => simp only [Except.ok.injEq, Prod.mk.injEq] at h; obtain ⟨rfl, _⟩ := h; rfl

theorem lexEmitNonTag_c (c : Common) (l : LexRegs) (x : Ctx κ) (o : Option NonTagOutline) (e : Nat) :
    (lexEmitNonTag env inp c l x o e).1.c = c := by
  unfold lexEmitNonTag
  dsimp only
  split <;> rfl

theorem lexEmitText_c (c : Common) (l : LexRegs) (x : Ctx κ) : (lexEmitText env inp c l x).1.c = c := by
  unfold lexEmitText
  split
  · exact lexEmitNonTag_c _ _ _ _ _
  · rfl

theorem lexEmitEof_c (m : M κ) : (lexEmitEof env inp m).1.c = m.c := by
  unfold lexEmitEof
  split
  · exact lexEmitNonTag_c _ _ _ _ _
  · rfl

theorem andThen_eof_c (r : M κ × Option Signal) : (andThen r (lexEmitEof env inp)).1.c = r.1.c := by
  unfold andThen
  split
  · rfl
  · exact lexEmitEof_c _

theorem lexEmitTagLexeme_c (c : Common) (l : LexRegs) (x : Ctx κ) (sim : Sim) (tok : TagOutline) (e : Nat) :
    (lexEmitTagLexeme env inp c l x sim tok e).1.c = c := by
  unfold lexEmitTagLexeme
  dsimp only
  split <;> rfl

theorem lexStampTag_state (c : Common) (sim : Sim) (tok : TagOutline) : (lexStampTag c sim tok).1.state = c.state := by
  cases tok <;> rfl

theorem lexEmitTag_cstate (c : Common) (l : LexRegs) (x : Ctx κ) : (lexEmitTag env inp c l x).1.c.state = c.state := by
  unfold lexEmitTag
  split
  · rfl
  · dsimp only
    split
    · rfl
    · rename_i sf _
      cases hf : sf.2 with
      | none =>
        dsimp only
        rw [lexEmitTagLexeme_c, lexStampTag_state]
      | some f =>
        dsimp only
        cases hh : lexHandleFeedback inp { c with lastTextType := .data } sf.1 f _ with
        | error e => rfl
        | ok cs =>
          dsimp only
          rw [lexEmitTagLexeme_c, lexStampTag_state]
          exact lexHandleFeedback_state (c := { c with lastTextType := .data }) (c' := cs.1) (s' := cs.2) hh

theorem lexAct_cstate (a : ActName) (c : Common) (l : LexRegs) (x : Ctx κ) :
    (lexAct env a inp c l x).1.c.state = c.state := by
  cases a <;> simp only [lexAct]
  case emitText => rw [lexEmitText_c]
  case emitTextAndEof => rw [andThen_eof_c, lexEmitText_c]
  case emitCurrentToken => rw [lexEmitNonTag_c]
  case emitCurrentTokenAndEof => rw [andThen_eof_c, lexEmitNonTag_c]
  case emitRawWithoutToken => rw [lexEmitNonTag_c]
  case emitRawWithoutTokenAndEof => rw [andThen_eof_c, lexEmitNonTag_c]
  case emitTag => exact lexEmitTag_cstate c l x
  all_goals (first
    | rfl
    | (split <;> rfl)
    | (split <;> (try split) <;> rfl))

theorem act_state (a : ActName) (m : M κ) : (act env a inp m).1.c.state = m.c.state := by
  obtain ⟨c, r, x⟩ := m
  cases r with
  | lexer l => exact lexAct_cstate a c l x
  | scanner s => exact (scanAct_frame a c s x).1.state

theorem runCalls_state (cs : List Call) (m : M κ) : (runCalls env inp cs m).1.c.state = m.c.state := by
  induction cs generalizing m with
  | nil => rfl
  | cons cl cs ih =>
    simp only [runCalls]
    split
    · split
      · exact act_state _ _
      · rw [ih, act_state]
    · rw [ih, act_state]


/-! ### the interface -/

/-- interface of a phase-indexed invariant `I` (hand-over postcondition `J`) -/
structure PhInv (env : Env κ) (inp : Bytes) (Uerr : Err → Prop) (I : Ab → M κ → Prop) (J : Directive → Bookmark → M κ → Prop) : Prop where
  sub : ∀ e, Uerr e → U3err e
  frame : ∀ ab (m : M κ) (c' : Common), I ab m → I ab { m with c := c' }
  adjust : ∀ ab m, I ab m → I ab (adjustForNextInput m)
  enter : ∀ ab m, I ab m → I ab (enterSeq m)
  leave : ∀ ab m, I ab m → I ab (leaveSeq m)
  le : ∀ ab ab' m, Ab.le ab ab' = true → I ab m → I ab' m
  act : ∀ a ab ab' m, I ab m → phAct a ab = some ab' →
    match (act env a inp m).2 with
    | none => I ab' (act env a inp m).1
    | some (.err e) => ¬ Uerr e ∧ (silentAct a = true → I ab' (act env a inp m).1)
    | some (.directive d bm) => silentAct a = false ∧ J d bm (act env a inp m).1
    | some (.endOfInput _) => False

/-- postcondition of a state-function call -/
def WalkPost (Uerr : Err → Prop) (P : PLabels) (I : Ab → M κ → Prop) (J : Directive → Bookmark → M κ → Prop) (r : StepRes κ) : Prop :=
  match r.2 with
  | none => I (P.at r.1.c.state) r.1
  | some (.endOfInput _) => I (P.at r.1.c.state) r.1
  | some (.err e) => ¬ Uerr e
  | some (.directive d bm) => J d bm r.1

variable {Uerr : Err → Prop} {I : Ab → M κ → Prop} {J : Directive → Bookmark → M κ → Prop} {P : PLabels}

theorem runCalls_walk (h : PhInv env inp Uerr I J) (cs : List Call) (ab ab' : Ab) (habs : phCalls cs ab = some ab')
    (hq : callsOk cs = true) (m : M κ) (hm : I ab m) :
    match (runCalls env inp cs m).2 with
    | none => I ab' (runCalls env inp cs m).1
    | some (.err e) => ¬ Uerr e
    | some (.directive d bm) => J d bm (runCalls env inp cs m).1
    | some (.endOfInput _) => False := by
  induction cs generalizing ab m with
  | nil =>
    simp only [phCalls, Option.some.injEq] at habs
    subst habs
    simp only [runCalls]
    exact hm
  | cons cl rest ih =>
    simp only [phCalls] at habs
    cases hp : phAct cl.act ab with
    | none => simp [hp] at habs
    | some ab1 =>
      simp only [hp] at habs
      simp only [callsOk, List.all_cons, Bool.and_eq_true] at hq
      have hact := h.act cl.act ab ab1 m hm hp
      cases hqq : cl.q with
      | true =>
        rw [runCalls_cons_q _ _ _ hqq]
        cases hs : (act env cl.act inp m).2 with
        | none =>
          simp only [hs] at hact ⊢
          exact ih ab1 habs hq.2 _ hact
        | some sig =>
          cases sig with
          | err e => simp only [hs] at hact ⊢; exact hact.1
          | directive d bm => simp only [hs] at hact ⊢; exact hact.2
          | endOfInput k => simp only [hs] at hact
      | false =>
        have hsil : silentAct cl.act = true := by simpa [hqq] using hq.1
        rw [runCalls_cons_nq _ _ _ hqq]
        have hI : I ab1 (act env cl.act inp m).1 := by
          cases hs : (act env cl.act inp m).2 with
          | none => simp only [hs] at hact; exact hact
          | some sig =>
            cases sig with
            | err e => simp only [hs] at hact; exact hact.2 hsil
            | directive d bm => simp only [hs] at hact; rw [hsil] at hact; cases hact.1
            | endOfInput k => simp only [hs] at hact
        exact ih ab1 habs hq.2 _ hI

/-- an action list started in phase `ab0` (not necessarily the label of the state: the tail of a list) -/
theorem runSeq_walk' (h : PhInv env inp Uerr I J) (q : ActSeq) (self : StateId) (ab0 ab' : Ab)
    (hq : callsOk q.calls = true) (habs : phCalls q.calls ab0 = some ab') (hp : transOk env.tbl P self ab' q.trans = true)
    (m : M κ) (hm : I ab0 m) (hst : m.c.state = self) :
    WalkPost Uerr P I J ((runSeq env inp q m).1, (runSeq env inp q m).2.1) ∧
    ((runSeq env inp q m).2.1 = none → (runSeq env inp q m).2.2 = .fell → (runSeq env inp q m).1.c.state = self) := by
  have hc := runCalls_walk h q.calls _ _ habs hq m hm
  have hstate := runCalls_state (env := env) (inp := inp) q.calls m
  unfold runSeq
  dsimp only
  cases hrs : (runCalls env inp q.calls m).2 with
  | some sig =>
    simp only [hrs] at hc ⊢
    refine ⟨?_, fun hn => by cases hn⟩
    unfold WalkPost
    cases sig with
    | err e => exact hc
    | directive d bm => exact hc
    | endOfInput k => exact hc.elim
  | none =>
    simp only [hrs] at hc ⊢
    cases htr : q.trans with
    | none =>
      simp only [htr, transOk] at hp ⊢
      refine ⟨?_, fun _ _ => by rw [hstate, hst]⟩
      simp only [WalkPost]
      rw [hstate, hst]
      exact h.le _ _ _ hp hc
    | some t =>
      simp only [htr] at hp ⊢
      cases t with
      | goto j =>
        simp only [transOk] at hp
        simp only [applyTrans]
        refine ⟨?_, fun _ hf => by cases hf⟩
        simp only [WalkPost]
        exact h.le _ _ _ hp (h.frame _ _ _ hc)
      | reconsume j =>
        simp only [transOk] at hp
        simp only [applyTrans]
        split
        · refine ⟨?_, fun hn => by cases hn⟩
          exact fun hu => absurd (h.sub _ hu) (by simp [U3err, U2err, U2, guardSite])
        · refine ⟨?_, fun _ hf => by cases hf⟩
          simp only [WalkPost]
          exact h.le _ _ _ hp (h.frame _ _ _ hc)
      | gotoDyn =>
        simp only [transOk, List.all_eq_true] at hp
        simp only [applyTrans]
        refine ⟨?_, fun _ hf => by cases hf⟩
        simp only [WalkPost]
        exact h.le _ _ _ (hp _ (textState_mem _ _)) (h.frame _ _ _ hc)

theorem runSeq_walk (h : PhInv env inp Uerr I J) (q : ActSeq) (self : StateId) (hp : seqOkP env.tbl P self q = true)
    (m : M κ) (hm : I (P.at self) m) (hst : m.c.state = self) :
    WalkPost Uerr P I J ((runSeq env inp q m).1, (runSeq env inp q m).2.1) ∧
    ((runSeq env inp q m).2.1 = none → (runSeq env inp q m).2.2 = .fell → (runSeq env inp q m).1.c.state = self) := by
  simp only [seqOkP, Bool.and_eq_true] at hp
  obtain ⟨hq, hp⟩ := hp
  cases habs : phCalls q.calls (P.at self) with
  | none => simp [habs] at hp
  | some ab' =>
    simp only [habs] at hp
    exact runSeq_walk' h q self _ _ hq habs hp m hm hst

theorem runBody_walk (h : PhInv env inp Uerr I J) (b : Body) (self : StateId) (hp : bodyOkP env.tbl P self b = true)
    (m : M κ) (hm : I (P.at self) m) (hst : m.c.state = self) :
    WalkPost Uerr P I J ((runBody env inp b m).1, (runBody env inp b m).2.1) ∧
    ((runBody env inp b m).2.1 = none → (runBody env inp b m).2.2 = .fell → (runBody env inp b m).1.c.state = self) := by
  cases b with
  | seq q => exact runSeq_walk h q self hp m hm hst
  | ite cnd x y =>
    simp only [bodyOkP, Bool.and_eq_true] at hp
    simp only [runBody]
    split
    · refine ⟨?_, fun hn => by cases hn⟩
      exact fun hu => absurd (h.sub _ hu) (by simp [U3err, U2err, U2, guardSite])
    · exact runSeq_walk h x self hp.1.2 m hm hst
    · exact runSeq_walk h y self hp.2 m hm hst

theorem adjustForNextInput_c (m : M κ) : (adjustForNextInput m).c = m.c := by
  unfold adjustForNextInput
  split
  · rfl
  · split <;> rfl

theorem break_walk (h : PhInv env inp Uerr I J) (m : M κ) (hm : I (P.at m.c.state) m) :
    WalkPost Uerr P I J (breakOnEndOfInput inp m) := by
  unfold breakOnEndOfInput
  dsimp only
  have key : ∀ m' : M κ, I (P.at m'.c.state) m' →
      WalkPost Uerr P I J (if m'.c.nextPos = 0 ∨ m'.c.nextPos - 1 < consumedByteCount inp m then
        (m', some (.err (.panic "break_on_end_of_input: pos - consumed_byte_count underflow")))
      else ({ m' with c := { m'.c with nextPos := m'.c.nextPos - 1 - consumedByteCount inp m } },
        some (.endOfInput (consumedByteCount inp m)))) := by
    intro m' hm'
    split
    · exact fun hu => absurd (h.sub _ hu) (by simp [U3err, U2err, U2, guardSite])
    · simp only [WalkPost]
      exact h.frame _ _ _ hm'
  split
  · exact key _ hm
  · apply key
    rw [adjustForNextInput_c]
    exact h.adjust _ _ hm

theorem finishArm_walk (h : PhInv env inp Uerr I J) (r : M κ × Option Signal × SeqEnd)
    (hr : WalkPost Uerr P I J (r.1, r.2.1)) : WalkPost Uerr P I J (finishArm inp r) := by
  unfold finishArm
  split
  · rename_i sig _ hs
    simp only [WalkPost, hs] at hr ⊢
    exact hr
  · rename_i hs _
    simp only [WalkPost, hs] at hr ⊢
    exact hr
  · rename_i hs _
    simp only [WalkPost, hs] at hr
    exact break_walk h _ hr

theorem runSeqArms_walk (h : PhInv env inp Uerr I J) (self : StateId) (ch : Option UInt8) (arms : List Arm)
    (hsub : ∀ a ∈ arms, bodyOkP env.tbl P self a.body = true) (m : M κ) (hm : I (P.at self) m) (hst : m.c.state = self) :
    match runSeqArms env inp ch arms m with
    | .inl r => WalkPost Uerr P I J r
    | .inr m' => I (P.at self) m' ∧ m'.c.state = self := by
  induction arms generalizing m with
  | nil => simp only [runSeqArms]; exact ⟨hm, hst⟩
  | cons arm rest ih =>
    have hrest : ∀ a ∈ rest, bodyOkP env.tbl P self a.body = true := fun a ha => hsub a (by simp [ha])
    have harm := hsub arm (by simp)
    have e2 : (enterSeq m).c = m.c := (seqMark_labcore m).1.2.1
    have l2 : ∀ m0 : M κ, (leaveSeq m0).c = m0.c := fun m0 => (seqMark_labcore m0).2.2.1
    have hskip := ih hrest (leaveSeq (enterSeq m)) (h.leave _ _ (h.enter _ _ hm)) (by rw [l2, e2]; exact hst)
    by_cases hseq : ∃ bytes ic, arm.pat = .chSeq bytes ic
    · obtain ⟨bytes, ic, hpat⟩ := hseq
      cases bytes with
      | nil => rw [runSeqArms_cons_nil ch arm rest m ic hpat]; exact hskip
      | cons e0 es =>
        rw [runSeqArms_cons_cons ch arm rest m ic e0 es hpat]
        cases firstMatch inp (enterSeq m) ch e0 es ic with
        | needMore =>
          dsimp only
          apply break_walk h
          rw [e2, hst]
          exact h.enter _ _ hm
        | mismatch => exact hskip
        | matched =>
          dsimp only
          have hm2 : I (P.at self)
              (leaveSeq { enterSeq m with c := { (enterSeq m).c with nextPos := (enterSeq m).c.nextPos + es.length } }) :=
            h.leave _ _ (h.frame _ _ _ (h.enter _ _ hm))
          have hst2 : (leaveSeq { enterSeq m with c := { (enterSeq m).c with nextPos := (enterSeq m).c.nextPos + es.length } }).c.state = self := by
            rw [l2]; simp only; rw [e2]; exact hst
          exact (runBody_walk h arm.body self harm _ hm2 hst2).1
    · have hnp : ∀ b ic, arm.pat ≠ .chSeq b ic := fun b ic hp => hseq ⟨b, ic, hp⟩
      rw [runSeqArms_cons_other ch arm rest m hnp]
      exact ih hrest m hm hst

theorem afterSeq_walk (h : PhInv env inp Uerr I J) (self : StateId) (ch : Option UInt8) (arms : List Arm)
    (hsub : ∀ a ∈ arms, bodyOkP env.tbl P self a.body = true) (m : M κ) (hm : I (P.at self) m) (hst : m.c.state = self) :
    WalkPost Uerr P I J (afterSeq env inp ch arms m) := by
  unfold afterSeq
  cases hf : findArm env.tbl m.c ch arms with
  | none => exact fun hu => absurd (h.sub _ hu) (by simp [U3err, U2err, U2, guardSite])
  | some arm =>
    have harm := hsub arm (findArm_sel hf).1
    dsimp only
    split
    · exact finishArm_walk h _ (runBody_walk h arm.body self harm m hm hst).1
    · split
      · exact finishArm_walk h _ (runBody_walk h arm.body self harm m hm hst).1
      · apply break_walk h; rw [hst]; exact hm
    · exact (runBody_walk h arm.body self harm m hm hst).1

theorem dispatch_walk (h : PhInv env inp Uerr I J) (self : StateId) (ch : Option UInt8) (arms : List Arm)
    (hsub : ∀ a ∈ arms, bodyOkP env.tbl P self a.body = true) (m : M κ) (hm : I (P.at self) m) (hst : m.c.state = self) :
    WalkPost Uerr P I J (dispatch env inp ch arms m) := by
  rw [dispatch_eq]
  have := runSeqArms_walk (inp := inp) h self ch arms hsub m hm hst
  cases hs : runSeqArms env inp ch arms m with
  | inl r => rw [hs] at this; exact this
  | inr m' => rw [hs] at this; exact afterSeq_walk h self ch arms hsub m' this.1 this.2

/-- **the generic walk**: a state-function call keeps a phase-indexed invariant -/
theorem stateFn_walk (h : PhInv env inp Uerr I J) (hph : PhaseOk env.tbl P = true) (m : M κ) (hm : I (P.at m.c.state) m) :
    WalkPost Uerr P I J (stateFn env inp m) := by
  rw [stateFn_preConsume]
  cases hsd : env.tbl.state? m.c.state with
  | none => exact fun hu => absurd (h.sub _ hu) (by simp [U3err, U2err, U2, guardSite])
  | some sd =>
    have hP := PhaseOk_state hph hsd
    simp only [stateOkP, Bool.and_eq_true, beq_iff_eq, List.all_eq_true] at hP
    obtain ⟨⟨⟨_, hq⟩, habs⟩, harms⟩ := hP
    dsimp only
    have hpre : ((preStep env inp sd m).2 = none →
          I (P.at m.c.state) (preStep env inp sd m).1 ∧ (preStep env inp sd m).1.c.state = m.c.state) ∧
        (∀ sig, (preStep env inp sd m).2 = some sig → WalkPost Uerr P I J ((preStep env inp sd m).1, some sig)) := by
      by_cases hen : (!sd.enter.isEmpty && !m.c.entered) = true
      · have h1 : I (P.at m.c.state) ({ m with c := { m.c with nextPos := m.c.nextPos + 1 } } : M κ) := h.frame _ _ _ hm
        have hc := runCalls_walk h sd.enter _ _ habs hq _ h1
        have hstate := runCalls_state (env := env) (inp := inp) sd.enter ({ m with c := { m.c with nextPos := m.c.nextPos + 1 } } : M κ)
        cases hrs : (runCalls env inp sd.enter { m with c := { m.c with nextPos := m.c.nextPos + 1 } }).2 with
        | some sig =>
          have e : preStep env inp sd m =
              ((runCalls env inp sd.enter { m with c := { m.c with nextPos := m.c.nextPos + 1 } }).1, some sig) := by
            simp only [preStep, hen, if_true, hrs]
          rw [e]
          refine ⟨fun hn => (by cases hn), fun sig' hs' => ?_⟩
          simp only [Option.some.injEq] at hs'
          subst hs'
          simp only [hrs] at hc
          unfold WalkPost
          cases sig with
          | err e => exact hc
          | directive d bm => exact hc
          | endOfInput k => exact hc.elim
        | none =>
          have e : preStep env inp sd m =
              ({ (runCalls env inp sd.enter { m with c := { m.c with nextPos := m.c.nextPos + 1 } }).1 with
                  c := { (runCalls env inp sd.enter { m with c := { m.c with nextPos := m.c.nextPos + 1 } }).1.c with
                    nextPos := (runCalls env inp sd.enter { m with c := { m.c with nextPos := m.c.nextPos + 1 } }).1.c.nextPos - 1,
                    entered := true } }, none) := by
            simp only [preStep, hen, if_true, hrs]
          rw [e]
          simp only [hrs] at hc
          exact ⟨fun _ => ⟨h.frame _ _ _ hc, hstate⟩, fun sig' hs' => by cases hs'⟩
      · have e : preStep env inp sd m = (m, none) := by simp only [preStep, hen]; rfl
        rw [e]
        exact ⟨fun _ => ⟨hm, rfl⟩, fun sig' hs' => by cases hs'⟩
    cases hps : (preStep env inp sd m).2 with
    | some sig => exact hpre.2 sig hps
    | none =>
      obtain ⟨hmid, hstate⟩ := hpre.1 hps
      dsimp only
      unfold consumeStep
      have key : ∀ k : Nat, I (P.at m.c.state)
          ({ (preStep env inp sd m).1 with c := { (preStep env inp sd m).1.c with nextPos := k } } : M κ) :=
        fun k => h.frame _ _ _ hmid
      split
      · dsimp only
        split
        · exact dispatch_walk h _ _ sd.arms harms _ (key _) hstate
        · exact dispatch_walk h _ _ sd.arms harms _ (key _) hstate
      · exact dispatch_walk h _ _ sd.arms harms _ (key _) hstate

/-- postcondition of a run of the parsing loop -/
def LoopPost (Uerr : Err → Prop) (P : PLabels) (I : Ab → M κ → Prop) (J : Directive → Bookmark → M κ → Prop) (r : M κ × Signal) : Prop :=
  match r.2 with
  | .endOfInput _ => I (P.at r.1.c.state) r.1
  | .err e => ¬ Uerr e
  | .directive d bm => J d bm r.1

theorem runLoop_walk (h : PhInv env inp Uerr I J) (hph : PhaseOk env.tbl P = true) (n : Nat) (m : M κ)
    (hm : I (P.at m.c.state) m) : LoopPost Uerr P I J (runLoop env inp n m) := by
  induction n generalizing m with
  | zero => exact fun hu => absurd (h.sub _ hu) (by simp [U3err, U2err, U2, guardSite])
  | succ n ih =>
    have h1 := stateFn_walk h hph m hm
    simp only [runLoop]
    cases hs : (stateFn env inp m).2 with
    | none =>
      dsimp only
      simp only [WalkPost, hs] at h1
      exact ih _ h1
    | some sig =>
      dsimp only
      simp only [WalkPost, hs] at h1
      cases sig with
      | err e => exact h1
      | endOfInput k => exact h1
      | directive d bm => exact h1

/-- the loop after a first step whose outcome is known -/
theorem runLoop_after (h : PhInv env inp Uerr I J) (hph : PhaseOk env.tbl P = true) (n : Nat) (m : M κ)
    (h1 : WalkPost Uerr P I J (stateFn env inp m)) : LoopPost Uerr P I J (runLoop env inp (n + 1) m) := by
  simp only [runLoop]
  cases hs : (stateFn env inp m).2 with
  | none =>
    dsimp only
    simp only [WalkPost, hs] at h1
    exact runLoop_walk h hph n _ h1
  | some sig =>
    dsimp only
    simp only [WalkPost, hs] at h1
    cases sig with
    | err e => exact h1
    | endOfInput k => exact h1
    | directive d bm => exact h1

end
end LolHtml.Model
