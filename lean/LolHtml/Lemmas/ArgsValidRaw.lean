import LolHtml.Lemmas.ArgsValid
import LolHtml.Lemmas.RawParse
/-!
# The lexemes handed to the sink are valid — for ARBITRARY sinks (all ranges)

`argGuard s` refuses
* with `.panic s` a tag lexeme whose raw range, tag-name range or an attribute name / value range is not a
  slice of the input, and a non-tag lexeme whose raw range or comment-text range is not (`tokGuard`);
* with `.panic rawSite` a tag lexeme one of whose attribute RAW ranges does not lie inside the lexeme's raw
  range (`AttrsRawOK`).

`parse_args_valid`: for every table with `WfTable`, both certificates (`checkCert`, `checkRaw`) and
`EmitsChecked`, EVERY sink, every parser state with the invariants `PInv` / `PTok` / `PRaw`:
`Parser.parse` over the guarded sink IS `Parser.parse` over the real sink.
-/
set_option linter.unusedSimpArgs false
set_option linter.unusedVariables false
namespace LolHtml.Model

variable {κ : Type}

/-- a tag lexeme all of whose ranges are where they should be -/
def TagArgsOK (inp : Bytes) (lx : TagLexeme) : Prop := TagLexValid inp lx ∧ AttrsRawOK lx

instance (inp : Bytes) (lx : TagLexeme) : Decidable (TagArgsOK inp lx) := by unfold TagArgsOK; infer_instance

def argGuard (s : String) : ArgGuard where
  tag := fun inp lx =>
    if TagLexValid inp lx then (if AttrsRawOK lx then none else some (.panic rawSite)) else some (.panic s)
  nonTag := fun inp lx => if NTLexValid inp lx then none else some (.panic s)

theorem argGuard_tag_none {s : String} {inp : Bytes} {lx : TagLexeme} (h : (argGuard s).tag inp lx = none) :
    TagArgsOK inp lx := by
  simp only [argGuard] at h
  split at h
  · split at h
    · exact ⟨‹_›, ‹_›⟩
    · cases h
  · cases h

theorem argGuard_tag_some {s : String} {inp : Bytes} {lx : TagLexeme} {e : Err} (h : (argGuard s).tag inp lx = some e) :
    (e = .panic s ∧ ¬ TagLexValid inp lx) ∨ (e = .panic rawSite ∧ TagLexValid inp lx ∧ ¬ AttrsRawOK lx) := by
  simp only [argGuard] at h
  split at h
  · split at h
    · cases h
    · simp only [Option.some.injEq] at h; exact Or.inr ⟨h.symm, ‹_›, ‹_›⟩
  · simp only [Option.some.injEq] at h; exact Or.inl ⟨h.symm, ‹_›⟩

theorem argGuard_nonTag_none {s : String} {inp : Bytes} {lx : NonTagLexeme} (h : (argGuard s).nonTag inp lx = none) :
    NTLexValid inp lx := by
  simp only [argGuard] at h
  split at h
  · assumption
  · cases h

theorem argGuard_nonTag_some {s : String} {inp : Bytes} {lx : NonTagLexeme} {e : Err}
    (h : (argGuard s).nonTag inp lx = some e) : e = .panic s ∧ ¬ NTLexValid inp lx := by
  simp only [argGuard] at h
  split at h
  · cases h
  · simp only [Option.some.injEq] at h; exact ⟨h.symm, ‹_›⟩

theorem argGuard_fires {s : String} {inp : Bytes} {e : Err} (h : (argGuard s).Fires inp e) :
    e = .panic s ∨ e = .panic rawSite := by
  rcases h with ⟨lx, h⟩ | ⟨lx, h⟩
  · rcases argGuard_tag_some h with h | h
    · exact Or.inl h.1
    · exact Or.inr h.1
  · exact Or.inl (argGuard_nonTag_some h).1

/-- the guard refuses the lexeme with raw range `1..0` -/
theorem argGuard_fires_s (s : String) (inp : Bytes) : (argGuard s).Fires inp (.panic s) := by
  refine Or.inl ⟨⟨0, ⟨1, 0⟩, .endTag ⟨0, 0⟩ 0⟩, ?_⟩
  simp only [argGuard]
  rw [if_neg]
  intro hv
  have := hv.1.1
  simp at this

/-- … and a start tag `0..0` with an attribute whose raw range is `1..0` -/
theorem argGuard_fires_raw (s : String) (inp : Bytes) : (argGuard s).Fires inp (.panic rawSite) := by
  refine Or.inl ⟨⟨0, ⟨0, 0⟩, .startTag ⟨0, 0⟩ 0 .html [⟨⟨0, 0⟩, ⟨0, 0⟩, ⟨1, 0⟩⟩] false⟩, ?_⟩
  simp only [argGuard]
  rw [if_pos, if_neg]
  · intro hv
    have := hv ⟨⟨0, 0⟩, ⟨0, 0⟩, ⟨1, 0⟩⟩ (by simp)
    simp at this
  · refine ⟨⟨Nat.le_refl _, Nat.zero_le _⟩, ⟨Nat.le_refl _, Nat.zero_le _⟩, fun a ha => ?_⟩
    simp only [List.mem_singleton] at ha
    subst ha
    exact ⟨⟨Nat.le_refl _, Nat.zero_le _⟩, ⟨Nat.le_refl _, Nat.zero_le _⟩⟩

theorem T2_not_rawSite {s : String} (h : T2 s) : s ≠ rawSite := by
  unfold T2 at h
  rcases h with h | h | h | h | h | h | h | h | h | h <;> subst h <;> decide

theorem rawSite_U1 : U1 rawSite := by unfold U1 rawSite; simp
theorem rawSite_not_T2 : ¬ T2 rawSite := by unfold T2 rawSite; decide

section
variable {ops : SinkOps κ} {inp : Bytes} {s : String}

theorem argGuard_safe (hs : T2 s) : SinkSafe (guardArgs (argGuard s) (cleanOps ops)) (fun _ => 0) inp U1 where
  handleTag := fun lx k _ _ _ => by
    refine ⟨Nat.zero_le _, fun e he => ?_⟩
    rcases guardArgs_tag_err he with hg | ⟨_, he'⟩
    · rcases argGuard_tag_some hg with h | h
      · rw [h.1]; exact T2_U1 hs
      · rw [h.1]; exact rawSite_U1
    · have := cleanRes_err _ he'; subst this; trivial
  handleNonTag := fun lx k _ _ _ => by
    refine ⟨Nat.zero_le _, fun e he => ?_⟩
    rcases guardArgs_nonTag_err he with hg | ⟨_, he'⟩
    · rw [(argGuard_nonTag_some hg).1]; exact T2_U1 hs
    · have := cleanRes_err _ he'; subst this; trivial
  startTagHint := fun n ns k => ⟨Nat.le_refl _, fun e he => by
    have := cleanRes_err _ he; subst this; trivial⟩
  endTagHint := fun n k => ⟨Nat.le_refl _, fun e he => by
    have := cleanRes_err _ he; subst this; trivial⟩

theorem argGuard_safe2 : SinkSafe2 (guardArgs (argGuard s) (cleanOps ops)) inp where
  handleTag := fun lx k h1 h2 e he => by
    rcases guardArgs_tag_err he with hg | ⟨_, he'⟩
    · rcases argGuard_tag_some hg with h | h
      · exact absurd ⟨h1, h2⟩ h.2
      · rw [h.1]; exact rawSite_not_T2
    · have := cleanRes_err _ he'; subst this; trivial
  handleNonTag := fun lx k h1 h2 e he => by
    rcases guardArgs_nonTag_err he with hg | ⟨_, he'⟩
    · exact absurd ⟨h1, h2⟩ (argGuard_nonTag_some hg).2
    · have := cleanRes_err _ he'; subst this; trivial
  startTagHint := fun n ns k e he => by have := cleanRes_err _ he; subst this; trivial
  endTagHint := fun n k e he => by have := cleanRes_err _ he; subst this; trivial

theorem argGuard_safe3 (hs : T2 s) : SinkSafe3 (guardArgs (argGuard s) (cleanOps ops)) inp where
  handleTag := fun lx k h1 e he => by
    rcases guardArgs_tag_err he with hg | ⟨_, he'⟩
    · rcases argGuard_tag_some hg with h | h
      · rw [h.1]; exact T2_not_rawSite hs
      · exact absurd h1 h.2.2
    · have := cleanRes_err _ he'; subst this; trivial
  handleNonTag := fun lx k e he => by
    rcases guardArgs_nonTag_err he with hg | ⟨_, he'⟩
    · rw [(argGuard_nonTag_some hg).1]; exact T2_not_rawSite hs
    · have := cleanRes_err _ he'; subst this; trivial
  startTagHint := fun n ns k e he => by have := cleanRes_err _ he; subst this; trivial
  endTagHint := fun n k e he => by have := cleanRes_err _ he; subst this; trivial

/-- the real sink does not itself report one of the guard's two errors on a lexeme the guard lets through -/
structure ArgsFresh (s : String) (ops : SinkOps κ) (inp : Bytes) : Prop where
  handleTag : ∀ lx k, TagArgsOK inp lx →
    (ops.handleTag inp lx k).2 ≠ .error (.panic s) ∧ (ops.handleTag inp lx k).2 ≠ .error (.panic rawSite)
  handleNonTag : ∀ lx k, NTLexValid inp lx →
    (ops.handleNonTag inp lx k).2 ≠ .error (.panic s) ∧ (ops.handleNonTag inp lx k).2 ≠ .error (.panic rawSite)
  startTagHint : ∀ n ns k,
    (ops.startTagHint n ns k).2 ≠ .error (.panic s) ∧ (ops.startTagHint n ns k).2 ≠ .error (.panic rawSite)
  endTagHint : ∀ n k,
    (ops.endTagHint n k).2 ≠ .error (.panic s) ∧ (ops.endTagHint n k).2 ≠ .error (.panic rawSite)

theorem ArgsFresh.argFresh (h : ArgsFresh s ops inp) : ArgFresh (argGuard s) ops inp where
  handleTag := fun lx k e hg hF => by
    have := h.handleTag lx k (argGuard_tag_none hg)
    rcases argGuard_fires hF with rfl | rfl
    · exact this.1
    · exact this.2
  handleNonTag := fun lx k e hg hF => by
    have := h.handleNonTag lx k (argGuard_nonTag_none hg)
    rcases argGuard_fires hF with rfl | rfl
    · exact this.1
    · exact this.2
  startTagHint := fun n ns k e hF => by
    have := h.startTagHint n ns k
    rcases argGuard_fires hF with rfl | rfl
    · exact this.1
    · exact this.2
  endTagHint := fun n k e hF => by
    have := h.endTagHint n k
    rcases argGuard_fires hF with rfl | rfl
    · exact this.1
    · exact this.2

variable {tbl : Table} {cfg : TagCfg}

/-- the parser invariants of the argument-validity theorem, at the trivial watermark -/
def PArgs (tbl : Table) (cert : Cert) (rcert : RCert) (L : Nat) (p : Parser κ) : Prop :=
  PInv tbl L (fun _ => 0) p ∧ PTok tbl cert p ∧ PRaw tbl rcert p

/-- **`parse_args_valid`.** Every table with `WfTable`, the two certificates and `EmitsChecked`; EVERY sink `ops`
(no hypothesis on its answers beyond `ArgsFresh`: it does not itself report one of the guard's two errors on a
lexeme the guard lets through); every input, `last` flag and parser state with `PArgs`: `Parser.parse` over the
sink guarded by `argGuard s` IS `Parser.parse` over `ops`. So every tag lexeme handed to `handle_tag` during the
call satisfies `TagArgsOK` (raw range, tag-name range, attribute name / value ranges inside the input; attribute
raw ranges inside the lexeme's raw range) and every non-tag lexeme `NTLexValid`; the call returns neither of
the guard's errors; if it succeeds, the invariants hold again for what is retained. -/
theorem parse_args_valid {cert : Cert} {rcert : RCert} (hw : Wf tbl) (hchk : checkCert tbl cert = true)
    (hraw : checkRaw tbl rcert = true) (ht : EmitsChecked tbl = true)
    (hs : T2 s) (hf : ArgsFresh s ops inp) (last : Bool) (p : Parser κ) (hp : PArgs tbl cert rcert inp.length p) :
    Parser.parse ⟨tbl, cfg, guardArgs (argGuard s) ops⟩ inp last p = Parser.parse ⟨tbl, cfg, ops⟩ inp last p ∧
    (Parser.parse ⟨tbl, cfg, ops⟩ inp last p).2 ≠ .error (.panic s) ∧
    (Parser.parse ⟨tbl, cfg, ops⟩ inp last p).2 ≠ .error (.panic rawSite) ∧
    (∀ k, (Parser.parse ⟨tbl, cfg, ops⟩ inp last p).2 = .ok k →
      k ≤ inp.length ∧
      (last = false → PArgs tbl cert rcert (inp.length - k) (Parser.parse ⟨tbl, cfg, ops⟩ inp last p).1)) := by
  obtain ⟨hpi, htp, hrp⟩ := hp
  have hsafe := argGuard_safe (ops := ops) (inp := inp) hs
  have hsafe2 := argGuard_safe2 (ops := ops) (inp := inp) (s := s)
  have hsafe3 := argGuard_safe3 (ops := ops) (inp := inp) hs
  have hpost := parse_post (env := ⟨tbl, cfg, guardArgs (argGuard s) (cleanOps ops)⟩) (inp := inp) hsafe hw last p hpi
  obtain ⟨q1, q2⟩ := parse_post2 (env := ⟨tbl, cfg, guardArgs (argGuard s) (cleanOps ops)⟩) (inp := inp) hchk hsafe hsafe2 hw last p hpi htp
  obtain ⟨r1, r2⟩ := parse_raw (env := ⟨tbl, cfg, guardArgs (argGuard s) (cleanOps ops)⟩) (inp := inp) hraw hsafe hsafe3 hw last p hpi hrp
  obtain ⟨g1, g2, g3⟩ := guardArgs_parse_eq (tbl := tbl) (cfg := cfg) ht hf.argFresh
    (fun e hF => by rcases argGuard_fires hF with h | h <;> exact ⟨_, h⟩) last p
    (fun e hF he => by
      rcases argGuard_fires hF with h | h
      · rw [h] at he
        exact T2_not_U2 hs (q1 _ he)
      · rw [h] at he
        exact r1 _ he rfl)
  refine ⟨g1, g2 _ (argGuard_fires_s s inp), g2 _ (argGuard_fires_raw s inp), fun k hk => ?_⟩
  have hk' := hk
  rw [g3 k hk] at hk' ⊢
  unfold ParsePost at hpost
  rw [hk'] at hpost
  obtain ⟨_, p2, p3⟩ := hpost
  exact ⟨p2, fun hl => ⟨p3 hl, q2 k hk' hl, r2 k hk' hl⟩⟩

end
end LolHtml.Model
