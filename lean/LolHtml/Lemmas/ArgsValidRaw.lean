import LolHtml.Lemmas.ArgsValid
import LolHtml.Lemmas.RawParse
/-!
# The lexemes handed to the sink are valid — for ARBITRARY sinks (all ranges)

`argGuard s` refuses
* with `.panic s` a tag lexeme whose raw range, tag-name range or an attribute name / value range is not a
  slice of the input, and a non-tag lexeme whose raw range or comment-text range is not (`tokGuard`);
* with `.panic rawSite` a tag lexeme one of whose attribute RAW ranges does not lie inside the lexeme's raw
  range (`AttrsRawOK`).
(`s` is any token-part site other than `rawSite`; `rawSite` is the dispatcher's tag-name slice check.)

`parse_args_valid`: for every table with `WfTable`, both certificates (`checkCert`, `checkRaw`) and
`EmitsChecked`, EVERY sink, every parser state with the invariants `PInv` / `PTok` / `PRaw`:
`Parser.parse` over the guarded sink IS `Parser.parse` over the real sink.

Proof: the guarded-and-cleaned sink `D` never fails at a panic site except `s` and `rawSite`. The raw-range pass
(`parse_raw`) applies to `D` and excludes `rawSite`. Hence (pkg-attrs' `Parser.parse_rel`) the parse over `D` is the
parse over `D₁`, the sink guarded by the token-part check only and cleaned; to `D₁` the token-part pass
(`parse_post2`) applies and excludes `s`. `guardArgs_parse_eq`.
-/
set_option linter.unusedSimpArgs false
set_option linter.unusedVariables false
namespace LolHtml.Model

variable {κ : Type}

/-- a tag lexeme all of whose ranges are where they should be -/
def TagArgsOK (inp : Bytes) (lx : TagLexeme) : Prop := TagLexValid inp lx ∧ AttrsRawOK lx

instance (inp : Bytes) (lx : TagLexeme) : Decidable (TagArgsOK inp lx) := by unfold TagArgsOK; infer_instance

def argGuard (s : String) : ArgGuard where
  tag := fun inp lx =>
    if TagLexValid inp lx then (if AttrsRawOK lx then none else some (.panic rawSite)) else some (.panic s)
  nonTag := fun inp lx => if NTLexValid inp lx then none else some (.panic s)

theorem argGuard_tag_none {s : String} {inp : Bytes} {lx : TagLexeme} (h : (argGuard s).tag inp lx = none) :
    TagArgsOK inp lx := by
  simp only [argGuard] at h
  split at h
  · split at h
    · exact ⟨‹_›, ‹_›⟩
    · cases h
  · cases h

theorem argGuard_tag_some {s : String} {inp : Bytes} {lx : TagLexeme} {e : Err} (h : (argGuard s).tag inp lx = some e) :
    (e = .panic s ∧ ¬ TagLexValid inp lx) ∨ (e = .panic rawSite ∧ TagLexValid inp lx ∧ ¬ AttrsRawOK lx) := by
  simp only [argGuard] at h
  split at h
  · split at h
    · cases h
    · simp only [Option.some.injEq] at h; exact Or.inr ⟨h.symm, ‹_›, ‹_›⟩
  · simp only [Option.some.injEq] at h; exact Or.inl ⟨h.symm, ‹_›⟩

theorem argGuard_nonTag_none {s : String} {inp : Bytes} {lx : NonTagLexeme} (h : (argGuard s).nonTag inp lx = none) :
    NTLexValid inp lx := by
  simp only [argGuard] at h
  split at h
  · assumption
  · cases h

theorem argGuard_nonTag_some {s : String} {inp : Bytes} {lx : NonTagLexeme} {e : Err}
    (h : (argGuard s).nonTag inp lx = some e) : e = .panic s ∧ ¬ NTLexValid inp lx := by
  simp only [argGuard] at h
  split at h
  · cases h
  · simp only [Option.some.injEq] at h; exact ⟨h.symm, ‹_›⟩

theorem argGuard_fires {s : String} {inp : Bytes} {e : Err} (h : (argGuard s).Fires inp e) :
    e = .panic s ∨ e = .panic rawSite := by
  rcases h with ⟨lx, h⟩ | ⟨lx, h⟩
  · rcases argGuard_tag_some h with h | h
    · exact Or.inl h.1
    · exact Or.inr h.1
  · exact Or.inl (argGuard_nonTag_some h).1

/-- the guard refuses the lexeme with raw range `1..0` -/
theorem argGuard_fires_s (s : String) (inp : Bytes) : (argGuard s).Fires inp (.panic s) := by
  refine Or.inl ⟨⟨0, ⟨1, 0⟩, .endTag ⟨0, 0⟩ 0⟩, ?_⟩
  simp only [argGuard]
  rw [if_neg]
  intro hv
  have := hv.1.1
  simp at this

/-- … and a start tag `0..0` with an attribute whose raw range is `1..0` -/
theorem argGuard_fires_raw (s : String) (inp : Bytes) : (argGuard s).Fires inp (.panic rawSite) := by
  refine Or.inl ⟨⟨0, ⟨0, 0⟩, .startTag ⟨0, 0⟩ 0 .html [⟨⟨0, 0⟩, ⟨0, 0⟩, ⟨1, 0⟩⟩] false⟩, ?_⟩
  simp only [argGuard]
  rw [if_pos, if_neg]
  · intro hv
    have := hv ⟨⟨0, 0⟩, ⟨0, 0⟩, ⟨1, 0⟩⟩ (by simp)
    simp at this
  · refine ⟨⟨Nat.le_refl _, Nat.zero_le _⟩, ⟨Nat.le_refl _, Nat.zero_le _⟩, fun a ha => ?_⟩
    simp only [List.mem_singleton] at ha
    subst ha
    exact ⟨⟨Nat.le_refl _, Nat.zero_le _⟩, ⟨Nat.le_refl _, Nat.zero_le _⟩⟩

theorem rawSite_U1 : U1 rawSite := by unfold U1 rawSite; simp
theorem rawSite_T2 : T2 rawSite := by unfold T2 rawSite; simp

section
variable {ops : SinkOps κ} {inp : Bytes} {s : String}

theorem argGuard_safe (hs : T2 s) : SinkSafe (guardArgs (argGuard s) (cleanOps ops)) (fun _ => 0) inp U1 where
  handleTag := fun lx k _ _ _ => by
    refine ⟨Nat.zero_le _, fun e he => ?_⟩
    rcases guardArgs_tag_err he with hg | ⟨_, he'⟩
    · rcases argGuard_tag_some hg with h | h
      · rw [h.1]; exact T2_U1 hs
      · rw [h.1]; exact rawSite_U1
    · have := cleanRes_err _ he'; subst this; trivial
  handleNonTag := fun lx k _ _ _ => by
    refine ⟨Nat.zero_le _, fun e he => ?_⟩
    rcases guardArgs_nonTag_err he with hg | ⟨_, he'⟩
    · rw [(argGuard_nonTag_some hg).1]; exact T2_U1 hs
    · have := cleanRes_err _ he'; subst this; trivial
  startTagHint := fun n ns k => ⟨Nat.le_refl _, fun e he => by
    have := cleanRes_err _ he; subst this; trivial⟩
  endTagHint := fun n k => ⟨Nat.le_refl _, fun e he => by
    have := cleanRes_err _ he; subst this; trivial⟩

theorem argGuard_safe3 (hne : s ≠ rawSite) : SinkSafe3 (guardArgs (argGuard s) (cleanOps ops)) inp where
  handleTag := fun lx k h1 e he => by
    rcases guardArgs_tag_err he with hg | ⟨_, he'⟩
    · rcases argGuard_tag_some hg with h | h
      · rw [h.1]; exact hne
      · exact absurd h1 h.2.2
    · have := cleanRes_err _ he'; subst this; trivial
  handleNonTag := fun lx k e he => by
    rcases guardArgs_nonTag_err he with hg | ⟨_, he'⟩
    · rw [(argGuard_nonTag_some hg).1]; exact hne
    · have := cleanRes_err _ he'; subst this; trivial
  startTagHint := fun n ns k e he => by have := cleanRes_err _ he; subst this; trivial
  endTagHint := fun n k e he => by have := cleanRes_err _ he; subst this; trivial

/-- guarded-and-cleaned with both checks vs. with the token-part check only: equal, or the raw check fired -/
theorem argGuard_relTok : OpsRel (guardArgs (argGuard s) (cleanOps ops)) (guardArgs (tokGuard s) (cleanOps ops)) inp
    (fun a b : κ => a = b) (.panic rawSite) where
  handleTag := fun lx k₁ k₂ hk => by
    subst hk
    simp only [guardArgs, argGuard, tokGuard]
    by_cases h1 : TagLexValid inp lx
    · by_cases h2 : AttrsRawOK lx
      · simp only [h1, h2, if_true]; exact Or.inl ⟨by first | rfl | trivial, by first | rfl | trivial⟩
      · simp only [h1, h2, if_true, if_false]; exact Or.inr (by first | rfl | trivial)
    · simp only [h1, if_false]; exact Or.inl ⟨by first | rfl | trivial, by first | rfl | trivial⟩
  handleNonTag := fun lx k₁ k₂ hk => by
    subst hk
    simp only [guardArgs, argGuard, tokGuard]
    exact Or.inl ⟨by first | rfl | trivial, by first | rfl | trivial⟩
  startTagHint := fun n ns k₁ k₂ hk => by subst hk; exact Or.inl ⟨rfl, rfl⟩
  endTagHint := fun n k₁ k₂ hk => by subst hk; exact Or.inl ⟨rfl, rfl⟩

/-- on sink states with `Dk` (kept by successful operations) the real sink does not itself report one of the
guard's two errors on a lexeme the guard lets through -/
structure ArgsFresh (s : String) (ops : SinkOps κ) (inp : Bytes) (Dk : κ → Prop) : Prop where
  handleTag : ∀ lx k, Dk k → TagArgsOK inp lx →
    (ops.handleTag inp lx k).2 ≠ .error (.panic s) ∧ (ops.handleTag inp lx k).2 ≠ .error (.panic rawSite) ∧
    (∀ a, (ops.handleTag inp lx k).2 = .ok a → Dk (ops.handleTag inp lx k).1)
  handleNonTag : ∀ lx k, Dk k → NTLexValid inp lx →
    (ops.handleNonTag inp lx k).2 ≠ .error (.panic s) ∧ (ops.handleNonTag inp lx k).2 ≠ .error (.panic rawSite) ∧
    (∀ a, (ops.handleNonTag inp lx k).2 = .ok a → Dk (ops.handleNonTag inp lx k).1)
  startTagHint : ∀ n ns k, Dk k →
    (ops.startTagHint n ns k).2 ≠ .error (.panic s) ∧ (ops.startTagHint n ns k).2 ≠ .error (.panic rawSite) ∧
    (∀ a, (ops.startTagHint n ns k).2 = .ok a → Dk (ops.startTagHint n ns k).1)
  endTagHint : ∀ n k, Dk k →
    (ops.endTagHint n k).2 ≠ .error (.panic s) ∧ (ops.endTagHint n k).2 ≠ .error (.panic rawSite) ∧
    (∀ a, (ops.endTagHint n k).2 = .ok a → Dk (ops.endTagHint n k).1)

variable {Dk : κ → Prop}

theorem ArgsFresh.argFresh (h : ArgsFresh s ops inp Dk) : ArgFresh (argGuard s) ops inp Dk where
  handleTag := fun lx k hD hg => by
    have := h.handleTag lx k hD (argGuard_tag_none hg)
    refine ⟨fun e hF => ?_, this.2.2⟩
    rcases argGuard_fires hF with rfl | rfl
    · exact this.1
    · exact this.2.1
  handleNonTag := fun lx k hD hg => by
    have := h.handleNonTag lx k hD (argGuard_nonTag_none hg)
    refine ⟨fun e hF => ?_, this.2.2⟩
    rcases argGuard_fires hF with rfl | rfl
    · exact this.1
    · exact this.2.1
  startTagHint := fun n ns k hD => by
    have := h.startTagHint n ns k hD
    refine ⟨fun e hF => ?_, this.2.2⟩
    rcases argGuard_fires hF with rfl | rfl
    · exact this.1
    · exact this.2.1
  endTagHint := fun n k hD => by
    have := h.endTagHint n k hD
    refine ⟨fun e hF => ?_, this.2.2⟩
    rcases argGuard_fires hF with rfl | rfl
    · exact this.1
    · exact this.2.1

variable {tbl : Table} {cfg : TagCfg}

/-- the parser invariants of the argument-validity theorem, at the trivial watermark -/
def PArgs (tbl : Table) (cert : Cert) (rcert : RCert) (L : Nat) (p : Parser κ) : Prop :=
  PInv tbl L (fun _ => 0) p ∧ PTok tbl cert p ∧ PRaw tbl rcert p

/-- **`parse_args_valid`.** Every table with `WfTable`, the two certificates and `EmitsChecked`; EVERY sink `ops`
(no hypothesis on its answers beyond `ArgsFresh`: on sink states with `Dk` it does not itself report one of the
guard's two errors on a lexeme the guard lets through, and its successful operations keep `Dk`); every input, `last`
flag and parser state with `PArgs` and `Dk` of its sink: `Parser.parse` over the sink guarded by `argGuard s` IS
`Parser.parse` over `ops`. So every tag lexeme handed to `handle_tag` during the call satisfies `TagArgsOK` (raw
range, tag-name range, attribute name / value ranges inside the input; attribute raw ranges inside the lexeme's raw
range) and every non-tag lexeme `NTLexValid`; the call returns neither of the guard's errors; if it succeeds, the
invariants hold again for what is retained. -/
theorem parse_args_valid {cert : Cert} {rcert : RCert} (hw : Wf tbl) (hchk : checkCert tbl cert = true)
    (hraw : checkRaw tbl rcert = true) (ht : EmitsChecked tbl = true)
    (hs : T2 s) (hne : s ≠ rawSite) (hf : ArgsFresh s ops inp Dk) (last : Bool) (p : Parser κ)
    (hp : PArgs tbl cert rcert inp.length p) (hDk : Dk p.x.sink) :
    Parser.parse ⟨tbl, cfg, guardArgs (argGuard s) ops⟩ inp last p = Parser.parse ⟨tbl, cfg, ops⟩ inp last p ∧
    (Parser.parse ⟨tbl, cfg, ops⟩ inp last p).2 ≠ .error (.panic s) ∧
    (Parser.parse ⟨tbl, cfg, ops⟩ inp last p).2 ≠ .error (.panic rawSite) ∧
    (∀ k, (Parser.parse ⟨tbl, cfg, ops⟩ inp last p).2 = .ok k →
      k ≤ inp.length ∧ Dk (Parser.parse ⟨tbl, cfg, ops⟩ inp last p).1.x.sink ∧
      (last = false → PArgs tbl cert rcert (inp.length - k) (Parser.parse ⟨tbl, cfg, ops⟩ inp last p).1)) := by
  obtain ⟨hpi, htp, hrp⟩ := hp
  -- the probe sink with both checks: the raw-range pass applies
  have hsafe := argGuard_safe (ops := ops) (inp := inp) hs
  have hsafe3 := argGuard_safe3 (ops := ops) (inp := inp) hne
  obtain ⟨r1, r2⟩ := parse_raw (env := ⟨tbl, cfg, guardArgs (argGuard s) (cleanOps ops)⟩) (inp := inp) hraw hsafe hsafe3 hw last p hpi hrp
  -- hence it is the probe sink with the token-part check only: the token-part pass applies
  have hD1 : Parser.parse ⟨tbl, cfg, guardArgs (argGuard s) (cleanOps ops)⟩ inp last p =
      Parser.parse ⟨tbl, cfg, guardArgs (tokGuard s) (cleanOps ops)⟩ inp last p := by
    rcases Parser.parse_rel (tbl := tbl) (cfg := cfg) (inp := inp) (argGuard_relTok (s := s) (ops := ops)) ht
        (by intro s' hh; cases hh) last p p (PR_refl p) with ⟨hpr, hres⟩ | habort
    · exact Prod.ext (PR_eq' hpr) hres
    · exact absurd rfl (r1 _ habort)
  have hsafe1 := tokGuard_safe (ops := ops) (inp := inp) hs
  have hsafe2 := tokGuard_safe2 (ops := ops) (inp := inp) (s := s)
  have hpost := parse_post (env := ⟨tbl, cfg, guardArgs (tokGuard s) (cleanOps ops)⟩) (inp := inp) hsafe1 hw last p hpi
  obtain ⟨q1, q2⟩ := parse_post2 (env := ⟨tbl, cfg, guardArgs (tokGuard s) (cleanOps ops)⟩) (inp := inp) hchk hsafe1 hsafe2 hw last p hpi htp
  obtain ⟨g1, g2, g3⟩ := guardArgs_parse_eq (tbl := tbl) (cfg := cfg) ht hf.argFresh
    (fun e hF => by rcases argGuard_fires hF with h | h <;> exact ⟨_, h⟩) last p hDk
    (fun e hF he => by
      rcases argGuard_fires hF with h | h
      · rw [h, hD1] at he
        exact T2_not_U2 hs (q1 _ he)
      · rw [h] at he
        exact r1 _ he rfl)
  refine ⟨g1, g2 _ (argGuard_fires_s s inp), g2 _ (argGuard_fires_raw s inp), fun k hk => ?_⟩
  obtain ⟨g3a, g3b⟩ := g3 k hk
  have hk' := hk
  rw [g3a] at hk'
  have hk1 := hk'
  rw [hD1] at hk1
  unfold ParsePost at hpost
  rw [hk1] at hpost
  obtain ⟨_, p2, p3⟩ := hpost
  refine ⟨p2, g3b, fun hl => ?_⟩
  rw [g3a]
  refine ⟨?_, ?_, r2 k hk' hl⟩
  · rw [hD1]; exact p3 hl
  · rw [hD1]; exact q2 k hk1 hl

end
end LolHtml.Model
