import LolHtml.Lemmas.TbForeign
/-!
`Spec.TreeBuilder` over a `Spec.Island` derivation: after every tag the namespace that governs the next
start tag is the one the grammar expects, and the stack of open elements is restored atr the end.
-/
namespace LolHtml.Spec.TreeBuilder
open LolHtml LolHtml.Model LolHtml.Spec.Island

/-- the standard's token for a tag event of the simulator, under a classification of names and attribute
lists (`nm` : name bytes ↦ name of the enumeration, `atr` : attribute list ↦ modelled attributes) -/
def tokOf (nm : Bytes → Name) (atr : Spec.Island.Attrs → Attrs) (ev : TagEvent) : Token :=
  if ev.view.isStart then .start (nm ev.view.name) ev.view.selfClosing (atr ev.view.attrs) else .end (nm ev.view.name)

/-- from `s` the tree builder processes the tokens of `l` one after the other (no tokenizer switch, no
impossible token), the namespace governing the next start tag is the annotated one after each, and it
ends in `s'` -/
inductive SSteps (c : Cfg) : State → List (Token × Ns) → State → Prop
  | nil (s : State) : SSteps c s [] s
  | cons {s s2 : State} {t : Token} {ns : Ns} {l : List (Token × Ns)} :
      (step c s t).sw = .none → (step c s t).impossible = false → (step c s t).st.startTagNs = ns →
      SSteps c (step c s t).st l s2 → SSteps c s ((t, ns) :: l) s2

theorem SSteps.append {c : Cfg} {s s1 s2 : State} {l1 l2 : List (Token × Ns)}
    (h1 : SSteps c s l1 s1) (h2 : SSteps c s1 l2 s2) : SSteps c s (l1 ++ l2) s2 := by
  induction h1 with
  | nil s => exact h2
  | cons a b d _ ih => exact SSteps.cons a b d (ih h2)

/-- integration-point names of a foreign namespace, with the attribute class for `annotation-xml` -/
def IsIPName (ns : FNs) (n : Name) (a : Attrs) : Prop :=
  (ns = .svg ∧ n.isIn [.foreignobject, .desc, .title] = true) ∨
  (ns = .mathml ∧ (n.isIn [.mi, .mo, .mn, .ms, .mtext] = true ∨
    (n = .annotationXml ∧ (a.enc = .textHtml ∨ a.enc = .appXhtml))))

def rootName : FNs → Name
  | .svg => .svg
  | .mathml => .math

/-- names of foreign elements that are no integration points and that the rules for foreign content push
as they are (§13.2.6.5 "any other start tag"): not a breakout tag, not `font`, not `annotation-xml` (whose `svg`
children are dispatched to the HTML rules), not an integration point name of the namespace -/
def PlainF (ns : FNs) (n : Name) : Bool :=
  !n.isIn breakoutNames && n != .font && n != .annotationXml &&
  (match ns with
   | .svg => !n.isIn [.foreignobject, .desc, .title]
   | .mathml => !n.isIn [.mi, .mo, .mn, .ms, .mtext])

mutual
  /-- name-level side conditions of foreign content (the standard's view of the same derivation) -/
  def FSOk (nm : Bytes → Name) (atr : Spec.Island.Attrs → Attrs) (ns : FNs) : FSeq → Prop
    | .nil => True
    | .text r => FSOk nm atr ns r
    | .selfClosing n _ r => PlainF ns (nm n) = true ∧ FSOk nm atr ns r
    | .elem n _ c r => PlainF ns (nm n) = true ∧ FSOk nm atr ns c ∧ FSOk nm atr ns r
    | .ip n a b r => IsIPName ns (nm n) (atr a) ∧ HSOk nm atr b ∧ FSOk nm atr ns r
  /-- name-level side conditions of HTML content inside an integration point -/
  def HSOk (nm : Bytes → Name) (atr : Spec.Island.Attrs → Attrs) : HSeq → Prop
    | .nil => True
    | .text r => HSOk nm atr r
    | .void n _ _ r => (nm n).isIn voidLikeNames = true ∧ HSOk nm atr r
    | .elem n _ c r => (nm n).isOrd = true ∧ HSOk nm atr c ∧ HSOk nm atr r
    | .island ns n _ c r => nm n = rootName ns ∧ FSOk nm atr ns c ∧ HSOk nm atr r
end

/-- mode "in body", nothing to reconstruct -/
def Base (s : State) : Prop := s.mode = .inBody ∧ s.tree.afe = []

/-- the current node is a foreign element of namespace `ns` that is no integration point -/
def FTop (ns : FNs) (st : List El) : Prop :=
  ∃ e e' rest, st = e :: e' :: rest ∧ e.ns = ns.toNs ∧ e.isMathmlTextIP = false ∧ e.isHtmlIP = false ∧
    e.name ≠ .annotationXml

/-- the current node is an HTML element or an integration point -/
def HTop (st : List El) : Prop := ∃ e e' rest, st = e :: e' :: rest ∧ HtmlTop e

theorem toNs_ne_html (ns : FNs) : ns.toNs ≠ .html := by cases ns <;> simp [FNs.toNs]

theorem startTagNs_of (s : State) (e : El) (es : List El) (h : s.tree.stack = e :: es) :
    s.startTagNs = if e.isMathmlTextIP || e.isHtmlIP then .html else e.ns := by
  simp [State.startTagNs, State.stack, h]

theorem plainF_notIP (id : Nat) (ns : FNs) (n : Name) (a : Attrs) (hn : PlainF ns n = true) :
    (⟨id, ns.toNs, n, a⟩ : El).isMathmlTextIP = false ∧ (⟨id, ns.toNs, n, a⟩ : El).isHtmlIP = false ∧ n ≠ .annotationXml := by
  simp only [PlainF, Bool.and_eq_true, Bool.not_eq_true', bne_iff_ne, ne_eq] at hn
  obtain ⟨⟨⟨_, _⟩, h3⟩, h4⟩ := hn
  cases ns
  · simp only [Bool.not_eq_true'] at h4
    refine ⟨by simp [El.isMathmlTextIP, FNs.toNs], ?_, h3⟩
    simp [El.isHtmlIP, El.isSvgHtmlIP, FNs.toNs, h4]
  · simp only [Bool.not_eq_true'] at h4
    refine ⟨by simp [El.isMathmlTextIP, FNs.toNs, h4], ?_, h3⟩
    simp [El.isHtmlIP, El.isSvgHtmlIP, FNs.toNs, h3]

theorem plainF_plain (ns : FNs) (n : Name) (hn : PlainF ns n = true) :
    n.isIn breakoutNames = false ∧ n ≠ .font ∧ n.isIn [.br, .p] = false := by
  simp only [PlainF, Bool.and_eq_true, Bool.not_eq_true', bne_iff_ne, ne_eq] at hn
  obtain ⟨⟨⟨h1, h2⟩, _⟩, _⟩ := hn
  refine ⟨h1, h2, ?_⟩
  cases hq : n.isIn [.br, .p]
  · rfl
  · exfalso
    have : n = .br ∨ n = .p := by simpa [Name.isIn] using hq
    rcases this with rfl | rfl <;> simp [breakoutNames, Name.isIn] at h1

theorem ipName_plain (ns : FNs) (n : Name) (a : Attrs) (h : IsIPName ns n a) :
    n.isIn breakoutNames = false ∧ n ≠ .font ∧ n.isIn [.br, .p] = false ∧ n ≠ .svg := by
  rcases h with ⟨-, h⟩ | ⟨-, h | ⟨h, -⟩⟩
  · cases n <;> simp [Name.isIn] at h <;> decide
  · cases n <;> simp [Name.isIn] at h <;> decide
  · subst h; decide

theorem ipName_top (id : Nat) (ns : FNs) (n : Name) (a : Attrs) (h : IsIPName ns n a) :
    HtmlTop (⟨id, ns.toNs, n, a⟩ : El) := by
  rcases h with ⟨rfl, h⟩ | ⟨rfl, h | ⟨rfl, h⟩⟩
  · exact Or.inr (Or.inr (by simp [El.isHtmlIP, El.isSvgHtmlIP, FNs.toNs, h]))
  · exact Or.inr (Or.inl (by simp [El.isMathmlTextIP, FNs.toNs, h]))
  · refine Or.inr (Or.inr ?_)
    rcases h with h | h <;> simp [El.isHtmlIP, FNs.toNs, h]

theorem root_notIP (id : Nat) (ns : FNs) (a : Attrs) :
    (⟨id, ns.toNs, rootName ns, a⟩ : El).isMathmlTextIP = false ∧ (⟨id, ns.toNs, rootName ns, a⟩ : El).isHtmlIP = false ∧
      rootName ns ≠ .annotationXml := by
  cases ns <;> simp [El.isMathmlTextIP, El.isHtmlIP, El.isSvgHtmlIP, Name.isIn, rootName, FNs.toNs]

variable (c : Cfg) (nm : Bytes → Name) (atr : Spec.Island.Attrs → Attrs)

/-- one step of the run, from a `StepTo` fact -/
theorem SSteps.step {s s2 : State} {t : Token} {st : List El} {ns : Ns} {l : List (Token × Ns)}
    (h : StepTo c s t st) (hns : ∀ s' : State, s'.tree.stack = st → s'.startTagNs = ns)
    (hrest : SSteps c (step c s t).st l s2) : SSteps c s ((t, ns) :: l) s2 :=
  SSteps.cons h.1 h.2.1 (hns _ h.2.2.2.2) hrest

mutual
  theorem fseq_ssteps (ns : FNs) :
      (q : FSeq) → FSOk nm atr ns q → ∀ s : State, Base s → FTop ns s.tree.stack →
      ∃ s', SSteps c s ((q.flat ns).map (fun p => (tokOf nm atr p.1, p.2))) s' ∧ Base s' ∧ s'.tree.stack = s.tree.stack
    | .nil, _, s, hb, _ => ⟨s, by simpa [FSeq.flat] using SSteps.nil s, hb, rfl⟩
    | .text r, h, s, hb, ht => by
      simp only [FSOk] at h
      simpa [FSeq.flat] using fseq_ssteps ns r h s hb ht
    | .selfClosing n a r, h, s, hb, ht => by
      simp only [FSOk] at h
      obtain ⟨e, e', rest, hst, h1, h2, h3, h4⟩ := ht
      obtain ⟨p1, p2, -⟩ := plainF_plain ns _ h.1
      have hs := step_foreign_push c s e (e' :: rest) (nm n) true (atr a) hst (h1 ▸ toNs_ne_html ns) h2 h3
        (fun hx => absurd hx h4) p1 p2
      simp only [if_true] at hs
      obtain ⟨s', hr, hb', hst'⟩ := fseq_ssteps ns r h.2 (step c s (.start (nm n) true (atr a))).st
        ⟨hs.2.2.1.trans hb.1, hs.2.2.2.1.trans hb.2⟩ ⟨e, e', rest, hs.2.2.2.2, h1, h2, h3, h4⟩
      refine ⟨s', ?_, hb', hst'.trans (hs.2.2.2.2.trans hst.symm)⟩
      simp only [FSeq.flat, List.map_cons, tokOf, startEv, if_true]
      refine SSteps.step c hs (fun s'' h'' => ?_) hr
      rw [startTagNs_of s'' e _ h'']; simp only [h2, h3, Bool.or_false, Bool.false_eq_true, if_false]; exact h1
    | .elem n a q r, h, s, hb, ht => by
      simp only [FSOk] at h
      obtain ⟨ho, hq, hr⟩ := h
      obtain ⟨e, e', rest, hst, h1, h2, h3, h4⟩ := ht
      obtain ⟨p1, p2, p3⟩ := plainF_plain ns _ ho
      have hs := step_foreign_push c s e (e' :: rest) (nm n) false (atr a) hst (h1 ▸ toNs_ne_html ns) h2 h3
        (fun hx => absurd hx h4) p1 p2
      simp only [Bool.false_eq_true, if_false] at hs
      obtain ⟨q1, q2, q3⟩ : (⟨s.tree.nextId, e.ns, nm n, atr a⟩ : El).isMathmlTextIP = false ∧
          (⟨s.tree.nextId, e.ns, nm n, atr a⟩ : El).isHtmlIP = false ∧ nm n ≠ .annotationXml := by
        rw [h1]; exact plainF_notIP s.tree.nextId ns (nm n) (atr a) ho
      -- the children
      obtain ⟨s1, hr1, hb1, hst1⟩ := fseq_ssteps ns q hq (step c s (.start (nm n) false (atr a))).st
        ⟨hs.2.2.1.trans hb.1, hs.2.2.2.1.trans hb.2⟩ ⟨_, e, e' :: rest, hs.2.2.2.2, h1, q1, q2, q3⟩
      -- the end tag
      have hst1' : s1.tree.stack = ⟨s.tree.nextId, e.ns, nm n, atr a⟩ :: e :: e' :: rest := hst1.trans hs.2.2.2.2
      have he := step_foreign_end c s1 _ e (e' :: rest) (nm n) hst1' (by simpa using h1 ▸ toNs_ne_html ns) rfl p3
      -- the rest
      obtain ⟨s2, hr2, hb2, hst2⟩ := fseq_ssteps ns r hr (step c s1 (.end (nm n))).st
        ⟨he.2.2.1.trans hb1.1, he.2.2.2.1.trans hb1.2⟩ ⟨e, e', rest, he.2.2.2.2, h1, h2, h3, h4⟩
      refine ⟨s2, ?_, hb2, hst2.trans (he.2.2.2.2.trans hst.symm)⟩
      simp only [FSeq.flat, List.map_cons, List.map_append, tokOf, startEv, endEv, if_true, Bool.false_eq_true, if_false]
      refine SSteps.step c hs (fun s'' h'' => ?_) (SSteps.append hr1 (SSteps.step c he (fun s'' h'' => ?_) hr2))
      · rw [startTagNs_of s'' _ _ h'']; simp only [q1, q2, Bool.or_false, Bool.false_eq_true, if_false]; exact h1
      · rw [startTagNs_of s'' e _ h'']; simp only [h2, h3, Bool.or_false, Bool.false_eq_true, if_false]; exact h1
    | .ip n a b r, h, s, hb, ht => by
      simp only [FSOk] at h
      obtain ⟨hip, hq, hr⟩ := h
      obtain ⟨e, e', rest, hst, h1, h2, h3, h4⟩ := ht
      obtain ⟨p1, p2, p3, p4⟩ := ipName_plain ns _ _ hip
      have hs := step_foreign_push c s e (e' :: rest) (nm n) false (atr a) hst (h1 ▸ toNs_ne_html ns) h2 h3
        (fun _ => p4) p1 p2
      simp only [Bool.false_eq_true, if_false] at hs
      have htop : HtmlTop (⟨s.tree.nextId, e.ns, nm n, atr a⟩ : El) := h1 ▸ ipName_top _ ns _ _ hip
      -- the HTML content
      obtain ⟨s1, hr1, hb1, hst1⟩ := hseq_ssteps b hq (step c s (.start (nm n) false (atr a))).st
        ⟨hs.2.2.1.trans hb.1, hs.2.2.2.1.trans hb.2⟩ ⟨_, e, e' :: rest, hs.2.2.2.2, htop⟩
      have hst1' : s1.tree.stack = ⟨s.tree.nextId, e.ns, nm n, atr a⟩ :: e :: e' :: rest := hst1.trans hs.2.2.2.2
      have he := step_foreign_end c s1 _ e (e' :: rest) (nm n) hst1' (by simpa using h1 ▸ toNs_ne_html ns) rfl p3
      obtain ⟨s2, hr2, hb2, hst2⟩ := fseq_ssteps ns r hr (step c s1 (.end (nm n))).st
        ⟨he.2.2.1.trans hb1.1, he.2.2.2.1.trans hb1.2⟩ ⟨e, e', rest, he.2.2.2.2, h1, h2, h3, h4⟩
      refine ⟨s2, ?_, hb2, hst2.trans (he.2.2.2.2.trans hst.symm)⟩
      simp only [FSeq.flat, List.map_cons, List.map_append, tokOf, startEv, endEv, if_true, Bool.false_eq_true, if_false]
      refine SSteps.step c hs (fun s'' h'' => ?_) (SSteps.append hr1 (SSteps.step c he (fun s'' h'' => ?_) hr2))
      · rw [startTagNs_of s'' _ _ h'']
        rcases htop with hh | hh | hh
        · exact absurd hh (by simpa using h1 ▸ toNs_ne_html ns)
        · simp [hh]
        · simp [hh]
      · rw [startTagNs_of s'' e _ h'']; simp only [h2, h3, Bool.or_false, Bool.false_eq_true, if_false]; exact h1
  theorem hseq_ssteps :
      (q : HSeq) → HSOk nm atr q → ∀ s : State, Base s → HTop s.tree.stack →
      ∃ s', SSteps c s (q.flat.map (fun p => (tokOf nm atr p.1, p.2))) s' ∧ Base s' ∧ s'.tree.stack = s.tree.stack
    | .nil, _, s, hb, _ => ⟨s, by simpa [HSeq.flat] using SSteps.nil s, hb, rfl⟩
    | .text r, h, s, hb, ht => by
      simp only [HSOk] at h
      simpa [HSeq.flat] using hseq_ssteps r h s hb ht
    | .void n a sc r, h, s, hb, ht => by
      simp only [HSOk] at h
      obtain ⟨e, e', rest, hst, htop⟩ := ht
      have hs := step_html_voidLike c s e (e' :: rest) (nm n) sc (atr a) hst htop hb.1 hb.2 h.1
      obtain ⟨s', hr, hb', hst'⟩ := hseq_ssteps r h.2 (step c s (.start (nm n) sc (atr a))).st
        ⟨hs.2.2.1.trans hb.1, hs.2.2.2.1.trans hb.2⟩ ⟨e, e', rest, hs.2.2.2.2, htop⟩
      refine ⟨s', ?_, hb', hst'.trans (hs.2.2.2.2.trans hst.symm)⟩
      simp only [HSeq.flat, List.map_cons, tokOf, startEv, if_true]
      refine SSteps.step c hs (fun s'' h'' => ?_) hr
      rw [startTagNs_of s'' e _ h'']
      rcases htop with hh | hh | hh <;> simp [hh]
    | .elem n a q r, h, s, hb, ht => by
      simp only [HSOk] at h
      obtain ⟨ho, hq, hr⟩ := h
      obtain ⟨e, e', rest, hst, htop⟩ := ht
      have hs := step_html_start_ord c s e (e' :: rest) (nm n) false (atr a) ho hst htop hb.1 hb.2
      have htop1 : HtmlTop (⟨s.tree.nextId, .html, nm n, atr a⟩ : El) := Or.inl rfl
      obtain ⟨s1, hr1, hb1, hst1⟩ := hseq_ssteps q hq (step c s (.start (nm n) false (atr a))).st
        ⟨hs.2.2.1.trans hb.1, hs.2.2.2.1.trans hb.2⟩ ⟨_, e, e' :: rest, hs.2.2.2.2, htop1⟩
      have hst1' : s1.tree.stack = ⟨s.tree.nextId, .html, nm n, atr a⟩ :: e :: e' :: rest := hst1.trans hs.2.2.2.2
      have he := step_html_end_ord c s1 _ (e :: e' :: rest) (nm n) ho hst1' rfl rfl hb1.1
      obtain ⟨s2, hr2, hb2, hst2⟩ := hseq_ssteps r hr (step c s1 (.end (nm n))).st
        ⟨he.2.2.1.trans hb1.1, he.2.2.2.1.trans hb1.2⟩ ⟨e, e', rest, he.2.2.2.2, htop⟩
      refine ⟨s2, ?_, hb2, hst2.trans (he.2.2.2.2.trans hst.symm)⟩
      simp only [HSeq.flat, List.map_cons, List.map_append, tokOf, startEv, endEv, if_true, Bool.false_eq_true, if_false]
      refine SSteps.step c hs (fun s'' h'' => ?_) (SSteps.append hr1 (SSteps.step c he (fun s'' h'' => ?_) hr2))
      · rw [startTagNs_of s'' _ _ h'']; simp [El.isMathmlTextIP, El.isHtmlIP, El.isSvgHtmlIP]
      · rw [startTagNs_of s'' e _ h'']
        rcases htop with hh | hh | hh <;> simp [hh]
    | .island ns n a q r, h, s, hb, ht => by
      simp only [HSOk] at h
      obtain ⟨hn, hq, hr⟩ := h
      obtain ⟨e, e', rest, hst, htop⟩ := ht
      have hs := step_html_root c s e (e' :: rest) (nm n) ns.toNs (atr a) hst htop hb.1 hb.2
        (by rw [hn]; cases ns <;> simp [rootName, FNs.toNs])
      obtain ⟨q1, q2, q3⟩ := root_notIP s.tree.nextId ns (atr a)
      rw [← hn] at q1 q2 q3
      obtain ⟨s1, hr1, hb1, hst1⟩ := fseq_ssteps ns q hq (step c s (.start (nm n) false (atr a))).st
        ⟨hs.2.2.1.trans hb.1, hs.2.2.2.1.trans hb.2⟩ ⟨_, e, e' :: rest, hs.2.2.2.2, rfl, q1, q2, q3⟩
      have hst1' : s1.tree.stack = ⟨s.tree.nextId, ns.toNs, nm n, atr a⟩ :: e :: e' :: rest := hst1.trans hs.2.2.2.2
      have hbr : (nm n).isIn [.br, .p] = false := by rw [hn]; cases ns <;> decide
      have he := step_foreign_end c s1 _ e (e' :: rest) (nm n) hst1' (by simpa using toNs_ne_html ns) rfl hbr
      obtain ⟨s2, hr2, hb2, hst2⟩ := hseq_ssteps r hr (step c s1 (.end (nm n))).st
        ⟨he.2.2.1.trans hb1.1, he.2.2.2.1.trans hb1.2⟩ ⟨e, e', rest, he.2.2.2.2, htop⟩
      refine ⟨s2, ?_, hb2, hst2.trans (he.2.2.2.2.trans hst.symm)⟩
      simp only [HSeq.flat, List.map_cons, List.map_append, tokOf, startEv, endEv, if_true, Bool.false_eq_true, if_false]
      refine SSteps.step c hs (fun s'' h'' => ?_) (SSteps.append hr1 (SSteps.step c he (fun s'' h'' => ?_) hr2))
      · rw [startTagNs_of s'' _ _ h'']; simp only [q1, q2, Bool.or_false, Bool.false_eq_true, if_false]
      · rw [startTagNs_of s'' e _ h'']
        rcases htop with hh | hh | hh <;> simp [hh]
end

end LolHtml.Spec.TreeBuilder
