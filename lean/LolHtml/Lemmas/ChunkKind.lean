import LolHtml.Lemmas.ChunkRun
/-!
Frame lemma: a machine never changes its kind (lexer / tag scanner).
-/
namespace LolHtml.Model.Chunk
open LolHtml LolHtml.Model

variable {κ : Type} {env : Env κ} {inp : Bytes}

def isLex : Regs → Bool
  | .lexer _ => true
  | .scanner _ => false

theorem lexEmitNonTag_kind (c : Common) (l : LexRegs) (x : Ctx κ) (o : Option NonTagOutline) (e : Nat) :
    isLex (lexEmitNonTag env inp c l x o e).1.r = true := by
  rw [lexEmitNonTag_eq]; rfl

theorem lexEmitText_kind (c : Common) (l : LexRegs) (x : Ctx κ) : isLex (lexEmitText env inp c l x).1.r = true := by
  unfold lexEmitText; split
  · exact lexEmitNonTag_kind ..
  · rfl

theorem lexEmitEof_kind (m : M κ) : isLex (lexEmitEof env inp m).1.r = isLex m.r := by
  unfold lexEmitEof
  split
  · rename_i l h; rw [h]; exact lexEmitNonTag_kind ..
  · rfl

theorem andThen_kind (b : Bool) (r : M κ × Option Signal) (g : M κ → M κ × Option Signal)
    (hr : isLex r.1.r = b) (hg : ∀ m, isLex (g m).1.r = isLex m.r) : isLex (andThen r g).1.r = b := by
  unfold andThen; split
  · exact hr
  · rw [hg]; exact hr

theorem lexEmitTagLexeme_kind (c : Common) (l : LexRegs) (x : Ctx κ) (sim : Sim) (t : TagOutline) (e : Nat) :
    isLex (lexEmitTagLexeme env inp c l x sim t e).1.r = true := by
  unfold lexEmitTagLexeme; dsimp only; split <;> rfl

theorem lexEmitTag_kind (c : Common) (l : LexRegs) (x : Ctx κ) : isLex (lexEmitTag env inp c l x).1.r = true := by
  unfold lexEmitTag
  split
  · rfl
  · dsimp only
    split
    · rfl
    · split
      · rfl
      · exact lexEmitTagLexeme_kind ..

theorem lexAct_kind (a : ActName) (c : Common) (l : LexRegs) (x : Ctx κ) : isLex (lexAct env a inp c l x).1.r = true := by
  cases a <;> simp only [lexAct]
  case emitText => exact lexEmitText_kind ..
  case emitTextAndEof => exact andThen_kind true _ _ (lexEmitText_kind ..) (fun m => lexEmitEof_kind m)
  case emitCurrentToken => exact lexEmitNonTag_kind ..
  case emitCurrentTokenAndEof => exact andThen_kind true _ _ (lexEmitNonTag_kind ..) (fun m => lexEmitEof_kind m)
  case emitRawWithoutToken => exact lexEmitNonTag_kind ..
  case emitRawWithoutTokenAndEof => exact andThen_kind true _ _ (lexEmitNonTag_kind ..) (fun m => lexEmitEof_kind m)
  case emitTag => exact lexEmitTag_kind ..
  all_goals (repeat' split) <;> rfl

theorem scanEmitHint_kind (c : Common) (s : ScanRegs) (x : Ctx κ) (ts : Nat) (ie : Bool) :
    isLex (scanEmitHint env inp c s x ts ie).1.r = false := by
  unfold scanEmitHint
  split
  · rfl
  · dsimp only; split <;> rfl

theorem scanFinishTagName_kind (c : Common) (s : ScanRegs) (x : Ctx κ) :
    isLex (scanFinishTagName env inp c s x).1.r = false := by
  unfold scanFinishTagName
  split
  · rfl
  · dsimp only
    split
    · rfl
    · split
      · rfl
      · exact scanEmitHint_kind ..

theorem scanAct_kind (a : ActName) (c : Common) (s : ScanRegs) (x : Ctx κ) : isLex (scanAct env a inp c s x).1.r = false := by
  cases a <;> simp only [scanAct]
  case finishTagName => exact scanFinishTagName_kind ..
  all_goals (repeat' split) <;> rfl

theorem act_kind (a : ActName) (m : M κ) : isLex (act env a inp m).1.r = isLex m.r := by
  unfold act
  split
  · rename_i l h; rw [h]; exact lexAct_kind ..
  · rename_i s h; rw [h]; exact scanAct_kind ..

theorem runCalls_kind (cs : List Call) (m : M κ) : isLex (runCalls env inp cs m).1.r = isLex m.r := by
  induction cs generalizing m with
  | nil => rfl
  | cons cl cs ih =>
    simp only [runCalls]
    have h1 := act_kind (env := env) (inp := inp) cl.act m
    split
    · split
      · exact h1
      · rw [ih]; exact h1
    · rw [ih]; exact h1

theorem applyTrans_kind (t : Trans) (m : M κ) : isLex (applyTrans env t m).1.r = isLex m.r := by
  cases t <;> simp only [applyTrans]
  split <;> rfl

theorem runSeq_kind (s : ActSeq) (m : M κ) : isLex (runSeq env inp s m).1.r = isLex m.r := by
  unfold runSeq
  have h := runCalls_kind (env := env) (inp := inp) s.calls m
  dsimp only
  split
  · exact h
  · split
    · exact h
    · rw [applyTrans_kind]; exact h

theorem runBody_kind (b : Body) (m : M κ) : isLex (runBody env inp b m).1.r = isLex m.r := by
  cases b with
  | seq s => exact runSeq_kind s m
  | ite c t e =>
    simp only [runBody]
    split
    · rfl
    · exact runSeq_kind t m
    · exact runSeq_kind e m

theorem enterSeq_kind (m : M κ) : isLex (enterSeq m).r = isLex m.r := by
  obtain ⟨c, r, x⟩ := m; cases r <;> rfl

theorem leaveSeq_kind (m : M κ) : isLex (leaveSeq m).r = isLex m.r := by
  obtain ⟨c, r, x⟩ := m; cases r <;> rfl

theorem adjust_kind (m : M κ) : isLex (adjustForNextInput m).r = isLex m.r := by
  obtain ⟨c, r, x⟩ := m
  cases r with
  | lexer l => rfl
  | scanner s =>
    simp only [adjustForNextInput]
    split <;> rfl

theorem breakOnEndOfInput_kind (m : M κ) : isLex (breakOnEndOfInput inp m).1.r = isLex m.r := by
  unfold breakOnEndOfInput
  dsimp only
  have h : isLex (if m.c.isLast = true then m else adjustForNextInput m).r = isLex m.r := by
    split
    · rfl
    · exact adjust_kind m
  generalize (if m.c.isLast = true then m else adjustForNextInput m) = m2 at h ⊢
  split <;> exact h

theorem runSeqArms_kind (ch : Option UInt8) : ∀ (arms : List Arm) (m : M κ),
    match runSeqArms env inp ch arms m with
    | .inl r => isLex r.1.r = isLex m.r
    | .inr m' => isLex m'.r = isLex m.r := by
  intro arms
  induction arms with
  | nil => intro m; rfl
  | cons arm rest ih =>
    intro m
    cases hseq : isSeqPat arm.pat with
    | false => rw [runSeqArms_skip inp ch arm rest m hseq]; exact ih m
    | true =>
      cases hpat : arm.pat with
      | chSeq bytes ic =>
        have hrec : match runSeqArms env inp ch rest (leaveSeq (enterSeq m)) with
            | .inl r => isLex r.1.r = isLex m.r
            | .inr m' => isLex m'.r = isLex m.r := by
          have := ih (leaveSeq (enterSeq m))
          rw [leaveSeq_kind, enterSeq_kind] at this
          exact this
        cases bytes with
        | nil => rw [runSeqArms_seq_nil inp ch arm rest m ic hpat]; exact hrec
        | cons e0 es =>
          rw [runSeqArms_seq inp ch arm rest m e0 es ic hpat]
          cases firstOf inp ch e0 es ic (enterSeq m).c.isLast (enterSeq m).c.nextPos with
          | needMore => simp only; rw [breakOnEndOfInput_kind, enterSeq_kind]
          | mismatch => exact hrec
          | matched =>
            simp only
            rw [runBody_kind, leaveSeq_kind]
            show isLex (enterSeq m).r = _
            rw [enterSeq_kind]
      | byte b => rw [hpat] at hseq; cases hseq
      | alpha => rw [hpat] at hseq; cases hseq
      | whitespace => rw [hpat] at hseq; cases hseq
      | closingQuote => rw [hpat] at hseq; cases hseq
      | eoc => rw [hpat] at hseq; cases hseq
      | eof => rw [hpat] at hseq; cases hseq
      | any => rw [hpat] at hseq; cases hseq

theorem tailRun_kind (b : Body) (m : M κ) : isLex (tailRun env inp b m).1.r = isLex m.r := by
  unfold tailRun
  split
  · exact runBody_kind b m
  · exact runBody_kind b m
  · rw [breakOnEndOfInput_kind]; exact runBody_kind b m

theorem armRun_kind (arm : Arm) (m : M κ) : isLex (armRun env inp arm m).1.r = isLex m.r := by
  by_cases h1 : arm.pat = .eoc
  · rw [armRun_eoc _ _ _ _ h1]; exact tailRun_kind _ _
  · by_cases h2 : arm.pat = .eof
    · rw [armRun_eof _ _ _ _ h2]
      split
      · exact tailRun_kind _ _
      · exact breakOnEndOfInput_kind _
    · rw [armRun_other _ _ _ _ h1 h2]; exact runBody_kind _ _

theorem dispatch_kind (ch : Option UInt8) (arms : List Arm) (m : M κ) :
    isLex (dispatch env inp ch arms m).1.r = isLex m.r := by
  have h := runSeqArms_kind (env := env) (inp := inp) ch arms m
  cases hr : runSeqArms env inp ch arms m with
  | inl r => rw [hr] at h; rw [dispatch_inl hr]; exact h
  | inr m2 =>
    rw [hr] at h
    rw [dispatch_inr hr]
    cases findArm env.tbl m2.c ch arms with
    | none => exact h
    | some arm => simp only; rw [armRun_kind]; exact h

theorem preOf_kind (sd : StateDef) (m : M κ) : isLex (preOf env inp sd m).1.r = isLex m.r := by
  unfold preOf
  have h := runCalls_kind (env := env) (inp := inp) sd.enter { m with c := { m.c with nextPos := m.c.nextPos + 1 } }
  split
  · split
    · exact h
    · exact h
  · rfl

theorem consume_kind (sd : StateDef) (m : M κ) : isLex (consume env inp sd m).1.r = isLex m.r := by
  unfold consume
  split
  · split <;> rw [dispatch_kind]
  · rw [dispatch_kind]

theorem stateFn_kind (m : M κ) : isLex (stateFn env inp m).1.r = isLex m.r := by
  rw [stateFn_eq]
  split
  · rfl
  · split
    · exact preOf_kind _ _
    · rw [consume_kind]; exact preOf_kind _ _

/-- a run keeps the machine kind and `is_last` -/
theorem Runs.stable {m m' : M κ} {sig : Signal} (h : Runs env inp m m' sig) :
    isLex m'.r = isLex m.r ∧ m'.c.isLast = m.c.isLast := by
  induction h with
  | @done m0 m1 sg h =>
    have h1 := stateFn_kind (env := env) (inp := inp) m0
    have h2 := stateFn_isLast (env := env) (inp := inp) m0
    rw [h] at h1 h2
    exact ⟨h1, h2⟩
  | @step m0 m1 m2 sg h _ ih =>
    have h1 := stateFn_kind (env := env) (inp := inp) m0
    have h2 := stateFn_isLast (env := env) (inp := inp) m0
    rw [h] at h1 h2
    exact ⟨ih.1.trans h1, ih.2.trans h2⟩

end LolHtml.Model.Chunk
