import LolHtml.Lemmas.TbT3
/-!
No rule turns the frameset-ok flag back on (`FoPost`); a `frameset` start tag met with the flag off outside the
modes before the body is ignored and its reprocess chain stays outside those modes (`stepMode_fsT`).
-/
namespace LolHtml.Spec.TreeBuilder
open LolHtml.Model (Ns)

variable {c : Cfg} {s : State}

def FoPost (s : State) : Res → Prop
  | .done s' _ => s.framesetOk = false → s'.framesetOk = false
  | .reprocess s' _ => s.framesetOk = false → s'.framesetOk = false
  | .impossible _ => True

syntax "tfo_branch" : tactic
macro_rules
  | `(tactic| tfo_branch) => `(tactic| first
    | (intro h; exact h)
    | (simp_all [FoPost, State.resetMode]; done))

syntax "tfo_cases" ident "[" Lean.Parser.Tactic.simpLemma,* "]" "(" tactic ")" : tactic
macro_rules
  | `(tactic| tfo_cases $t:ident [$defs,*] ($alt:tactic)) => `(tactic|
    (cases $t:ident with
     | start n sc a =>
       cases n
       all_goals eval_rule' [$defs,*]
       all_goals (repeat' split)
       all_goals first | tfo_branch | ($alt:tactic)
     | «end» n =>
       cases n
       all_goals eval_rule' [$defs,*]
       all_goals (repeat' split)
       all_goals first | tfo_branch | ($alt:tactic)
     | char cc =>
       cases cc
       all_goals eval_rule' [$defs,*]
       all_goals (repeat' split)
       all_goals first | tfo_branch | ($alt:tactic)
     | comment =>
       eval_rule' [$defs,*]
       (repeat' split)
       all_goals first | tfo_branch | ($alt:tactic)
     | doctype d =>
       eval_rule' [$defs,*]
       (repeat' split)
       all_goals first | tfo_branch | ($alt:tactic)
     | eof =>
       eval_rule' [$defs,*]
       (repeat' split)
       all_goals first | tfo_branch | ($alt:tactic)))

theorem inBodyChar_fo (s : State) (cc : CharClass) (h : s.framesetOk = false) : (inBodyChar s cc).framesetOk = false := by
  cases cc <;> simp [inBodyChar, h]

theorem flushPending_fo (s : State) (h : s.framesetOk = false) : (flushPending s).framesetOk = false := by
  have hfold : ∀ (l : List CharClass) (s' : State), s'.framesetOk = false → (l.foldl inBodyChar s').framesetOk = false := by
    intro l
    induction l with
    | nil => intro s' h; exact h
    | cons x xs ih => intro s' h; exact ih _ (inBodyChar_fo s' x h)
  unfold flushPending
  simp only
  split
  · exact hfold _ _ h
  · exact h

set_option maxHeartbeats 32000000 in
theorem inHead_fo (t : Token) : FoPost s (inHead c s t) := by
  tfo_cases t [inHead, rawText] (skip)

set_option maxHeartbeats 32000000 in
theorem inBody_fo (t : Token) : FoPost s (inBody c s t) := by
  tfo_cases t [inBody, inBodyStart, inBodyEnd, inBodyChar, inTemplateEof, rawText] (first | exact inHead_fo _)

set_option maxHeartbeats 32000000 in
theorem inTable_fo (t : Token) : FoPost s (inTable c s t) := by
  tfo_cases t [inTable, inTableAnythingElse] (first | exact inHead_fo _ | exact inBody_fo _)

theorem inTableText_fo (t : Token) : FoPost s (inTableText c s t) := by
  have key : FoPost s (Res.again { flushPending s with mode := (flushPending s).origMode }) :=
    fun h => flushPending_fo s h
  cases t with
  | char cc => cases cc <;> simp [inTableText, FoPost, Res.ignore, Res.ok] <;> exact key
  | start n sc a => exact key
  | «end» n => exact key
  | comment => exact key
  | doctype d => exact key
  | eof => exact key

set_option maxHeartbeats 32000000 in
theorem inCaption_fo (t : Token) : FoPost s (inCaption c s t) := by
  tfo_cases t [inCaption] (first | exact inBody_fo _)

set_option maxHeartbeats 32000000 in
theorem inTableBody_fo (t : Token) : FoPost s (inTableBody c s t) := by
  tfo_cases t [inTableBody] (first | exact inTable_fo _)

set_option maxHeartbeats 32000000 in
theorem inRow_fo (t : Token) : FoPost s (inRow c s t) := by
  tfo_cases t [inRow] (first | exact inTable_fo _)

set_option maxHeartbeats 32000000 in
theorem inCell_fo (t : Token) : FoPost s (inCell c s t) := by
  tfo_cases t [inCell, State.closeCell] (first | exact inBody_fo _)

set_option maxHeartbeats 32000000 in
theorem inColumnGroup_fo (t : Token) : FoPost s (inColumnGroup c s t) := by
  tfo_cases t [inColumnGroup] (first | exact inHead_fo _ | exact inBody_fo _)

set_option maxHeartbeats 32000000 in
theorem inTemplate_fo (t : Token) : FoPost s (inTemplate c s t) := by
  tfo_cases t [inTemplate, inTemplateEof, headStartNames] (first | exact inHead_fo _ | exact inBody_fo _)

set_option maxHeartbeats 32000000 in
theorem afterBody_fo (t : Token) : FoPost s (afterBody c s t) := by
  tfo_cases t [afterBody] (first | exact inBody_fo _)

set_option maxHeartbeats 32000000 in
theorem afterAfterBody_fo (t : Token) : FoPost s (afterAfterBody c s t) := by
  tfo_cases t [afterAfterBody] (first | exact inBody_fo _)

set_option maxHeartbeats 32000000 in
theorem inFrameset_fo (t : Token) : FoPost s (inFrameset c s t) := by
  tfo_cases t [inFrameset] (first | exact inHead_fo _)

set_option maxHeartbeats 32000000 in
theorem afterFrameset_fo (t : Token) : FoPost s (afterFrameset c s t) := by
  tfo_cases t [afterFrameset] (first | exact inHead_fo _)

set_option maxHeartbeats 32000000 in
theorem afterAfterFrameset_fo (t : Token) : FoPost s (afterAfterFrameset c s t) := by
  tfo_cases t [afterAfterFrameset] (first | exact inHead_fo _ | exact inBody_fo _)

set_option maxHeartbeats 32000000 in
theorem initial_fo (t : Token) : FoPost s (initial c s t) := by
  tfo_cases t [initial] (skip)

set_option maxHeartbeats 32000000 in
theorem beforeHtml_fo (t : Token) : FoPost s (beforeHtml c s t) := by
  tfo_cases t [beforeHtml] (skip)

set_option maxHeartbeats 32000000 in
theorem beforeHead_fo (t : Token) : FoPost s (beforeHead c s t) := by
  tfo_cases t [beforeHead] (skip)

set_option maxHeartbeats 32000000 in
theorem inHeadNoscript_fo (t : Token) : FoPost s (inHeadNoscript c s t) := by
  tfo_cases t [inHeadNoscript] (first | exact inHead_fo _)

theorem FoPost.mapState {r : Res} {s0 : State} (f : State → State) (hf : ∀ x, (f x).framesetOk = x.framesetOk)
    (h : FoPost s0 r) : FoPost s0 (r.mapState f) := by
  cases r <;> simp_all [FoPost, Res.mapState]

set_option maxHeartbeats 32000000 in
theorem afterHead_fo (t : Token) : FoPost s (afterHead c s t) := by
  have push : ∀ (h : El), FoPost s ((inHead c (s.onTree (·.pushEl h)) t).mapState (·.removeFromStack h)) := by
    intro h
    refine FoPost.mapState (fun x => x.removeFromStack h) (fun x => rfl) ?_
    exact (inHead_fo (s := s.onTree (·.pushEl h)) t)
  tfo_cases t [afterHead] (first | exact inHead_fo _ | exact push _)

theorem text_fo (t : Token) : FoPost s (text c s t) := by
  cases t <;> simp [text, FoPost, Res.ok, Res.again]

/-- no rule turns the frameset-ok flag back on -/
theorem stepMode_fo (hsel : s.mode ≠ .inSelect ∧ s.mode ≠ .inSelectInTable) (t : Token) : FoPost s (stepMode c s t) := by
  unfold stepMode
  cases hmode : s.mode <;> simp only
  case initial => exact initial_fo t
  case beforeHtml => exact beforeHtml_fo t
  case beforeHead => exact beforeHead_fo t
  case inHead => exact inHead_fo t
  case inHeadNoscript => exact inHeadNoscript_fo t
  case afterHead => exact afterHead_fo t
  case inBody => exact inBody_fo t
  case text => exact text_fo t
  case inTable => exact inTable_fo t
  case inTableText => exact inTableText_fo t
  case inCaption => exact inCaption_fo t
  case inColumnGroup => exact inColumnGroup_fo t
  case inTableBody => exact inTableBody_fo t
  case inRow => exact inRow_fo t
  case inCell => exact inCell_fo t
  case inSelect => exact absurd hmode hsel.1
  case inSelectInTable => exact absurd hmode hsel.2
  case inTemplate => exact inTemplate_fo t
  case afterBody => exact afterBody_fo t
  case inFrameset => exact inFrameset_fo t
  case afterFrameset => exact afterFrameset_fo t
  case afterAfterBody => exact afterAfterBody_fo t
  case afterAfterFrameset => exact afterAfterFrameset_fo t

end LolHtml.Spec.TreeBuilder
