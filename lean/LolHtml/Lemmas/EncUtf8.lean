/-
The UTF-8 decoder state machine (`Model.Codecs.utf8Codec`, transcribed from encoding_rs) agrees with
`std::str::from_utf8` (`Model.Utf8.scan`) on well-formed input: it produces the same scalar values and
returns to the neutral state.  This is the law `Encoding.Lawful.utf8_valid` for `utf8`, i.e. what makes
the fast path of `feed_text` sound for UTF-8.
-/
import LolHtml.Lemmas.EncCodecs
import LolHtml.Lemmas.EncCodec

namespace LolHtml.Enc
open Utf8

macro "u8omega" : tactic =>
  `(tactic| (simp only [Utf8.inR, Utf8.isCont, Bool.and_eq_true, decide_eq_true_eq, Bool.not_eq_true',
      Bool.and_eq_false_iff, decide_eq_false_iff_not,
      UInt8.le_iff_toNat_le, UInt8.lt_iff_toNat_lt] at * <;> simp at * <;> omega))

theorem stepAscii (b0 : UInt8) (h : b0 < 0x80) :
    u8Step U8.init b0 = ⟨U8.init, [Char.ofNat b0.toNat], true⟩ := by
  simp [u8Step, U8.init, h]

theorem stepLead2 (b0 : UInt8) (h : inR 0xC2 0xDF b0 = true) :
    u8Step U8.init b0 = ⟨⟨1, 0, b0.toNat % 32, 0x80, 0xBF⟩, [], true⟩ := by
  have h1 : ¬ b0 < 0x80 := by u8omega
  have h2 : ¬ b0 < 0xC2 := by u8omega
  have h3 : b0 < 0xE0 := by u8omega
  simp [u8Step, U8.init, h1, h2, h3]

theorem stepLead3 (b0 : UInt8) (h : inR 0xE0 0xEF b0 = true) :
    u8Step U8.init b0 = ⟨⟨2, 0, b0.toNat % 16, lo3 b0, hi3 b0⟩, [], true⟩ := by
  have h1 : ¬ b0 < 0x80 := by u8omega
  have h2 : ¬ b0 < 0xC2 := by u8omega
  have h3 : ¬ b0 < 0xE0 := by u8omega
  have h4 : b0 < 0xF0 := by u8omega
  simp [u8Step, U8.init, h1, h2, h3, h4]

theorem stepLead4 (b0 : UInt8) (h : inR 0xF0 0xF4 b0 = true) :
    u8Step U8.init b0 = ⟨⟨3, 0, b0.toNat % 8, lo4 b0, hi4 b0⟩, [], true⟩ := by
  have h1 : ¬ b0 < 0x80 := by u8omega
  have h2 : ¬ b0 < 0xC2 := by u8omega
  have h3 : ¬ b0 < 0xE0 := by u8omega
  have h4 : ¬ b0 < 0xF0 := by u8omega
  have h5 : b0 < 0xF5 := by u8omega
  simp [u8Step, U8.init, h1, h2, h3, h4, h5]

theorem stepCont (s : U8) (b : UInt8) (hn : s.needed ≠ 0) (h : inR s.lo s.hi b = true) :
    u8Step s b =
      if s.seen + 1 = s.needed then ⟨U8.init, [Char.ofNat (s.cp * 64 + b.toNat % 64)], true⟩
      else ⟨⟨s.needed, s.seen + 1, s.cp * 64 + b.toNat % 64, 0x80, 0xBF⟩, [], true⟩ := by
  simp only [inR, Bool.and_eq_true, decide_eq_true_eq] at h
  simp [u8Step, hn, h.1, h.2]

theorem u8run_step (s : U8) (b : UInt8) (bs : Bytes) (r : Step U8) (h : u8Step s b = r)
    (hc : r.consumed = true) :
    utf8Codec.run s (b :: bs) = ((utf8Codec.run r.st bs).1, r.out ++ (utf8Codec.run r.st bs).2) := by
  subst h
  have h2 : utf8Codec.step2 s b = ((u8Step s b).st, (u8Step s b).out) := by
    simp only [Codec.step2, utf8Codec, hc, if_true]
  have := Codec.run_cons (c := utf8Codec) s b bs
  rw [h2] at this
  exact this

/-- The decoder on well-formed UTF-8. -/
theorem scan_run : ∀ (n : Nat) (p : Bytes), p.length = n → (Utf8.scan p).fin = .done →
    utf8Codec.run U8.init p = (U8.init, (Utf8.scan p).chars) := by
  intro n
  induction n using Nat.strongRecOn with
  | _ n ih =>
  intro p hlen hfin
  match p, hlen with
  | [], _ => simp only [Utf8.scan, Scan.stop]; rfl
  | b0 :: r0, hlen =>
    rw [Utf8.scan.eq_def] at hfin ⊢
    simp only at hfin ⊢
    by_cases hA : b0 < 0x80
    · simp only [hA, if_true, Scan.cons] at hfin ⊢
      have := ih r0.length (by simp at hlen; omega) r0 rfl hfin
      rw [u8run_step _ _ _ _ (stepAscii b0 hA) rfl]
      simp only []
      rw [this]; rfl
    · simp only [hA, if_false] at hfin ⊢
      by_cases hB : inR 0xC2 0xDF b0 = true
      · simp only [hB, if_true] at hfin ⊢
        match r0, hlen with
        | [], _ => simp [Scan.stop] at hfin
        | b1 :: r1, hlen =>
          simp only at hfin ⊢
          by_cases h1 : isCont b1 = true
          · simp only [h1, if_true, Scan.cons] at hfin ⊢
            have := ih r1.length (by simp at hlen; omega) r1 rfl hfin
            rw [u8run_step _ _ _ _ (stepLead2 b0 hB) rfl]
            simp only []
            rw [u8run_step _ _ _ _ (stepCont _ b1 (by simp) (by simpa [isCont] using h1)) (by simp)]
            simp only [Nat.zero_add, if_true]
            rw [this]; rfl
          · simp [h1, Scan.stop] at hfin
      · simp only [hB, Bool.false_eq_true, if_false] at hfin ⊢
        by_cases hC : inR 0xE0 0xEF b0 = true
        · simp only [hC, if_true] at hfin ⊢
          match r0, hlen with
          | [], _ => simp [Scan.stop] at hfin
          | b1 :: r1, hlen =>
            simp only at hfin ⊢
            by_cases h1 : inR (lo3 b0) (hi3 b0) b1 = true
            · simp only [h1, Bool.not_true, Bool.false_eq_true, if_false] at hfin ⊢
              match r1, hlen with
              | [], _ => simp [Scan.stop] at hfin
              | b2 :: r2, hlen =>
                simp only at hfin ⊢
                by_cases h2 : isCont b2 = true
                · simp only [h2, if_true, Scan.cons] at hfin ⊢
                  have := ih r2.length (by simp at hlen; omega) r2 rfl hfin
                  rw [u8run_step _ _ _ _ (stepLead3 b0 hC) rfl]
                  simp only []
                  rw [u8run_step _ _ _ _ (stepCont _ b1 (by simp) (by simpa using h1)) (by simp)]
                  simp only [Nat.zero_add, Nat.reduceEqDiff, if_false]
                  rw [u8run_step _ _ _ _ (stepCont _ b2 (by simp) (by simpa [isCont] using h2)) (by simp)]
                  simp only [Nat.reduceAdd, if_true]
                  rw [this]; rfl
                · simp [h2, Scan.stop] at hfin
            · simp [h1, Scan.stop] at hfin
        · simp only [hC, Bool.false_eq_true, if_false] at hfin ⊢
          by_cases hD : inR 0xF0 0xF4 b0 = true
          · simp only [hD, if_true] at hfin ⊢
            match r0, hlen with
            | [], _ => simp [Scan.stop] at hfin
            | b1 :: r1, hlen =>
              simp only at hfin ⊢
              by_cases h1 : inR (lo4 b0) (hi4 b0) b1 = true
              · simp only [h1, Bool.not_true, Bool.false_eq_true, if_false] at hfin ⊢
                match r1, hlen with
                | [], _ => simp [Scan.stop] at hfin
                | b2 :: r2, hlen =>
                  simp only at hfin ⊢
                  by_cases h2 : isCont b2 = true
                  · simp only [h2, Bool.not_true, Bool.false_eq_true, if_false] at hfin ⊢
                    match r2, hlen with
                    | [], _ => simp [Scan.stop] at hfin
                    | b3 :: r3, hlen =>
                      simp only at hfin ⊢
                      by_cases h3 : isCont b3 = true
                      · simp only [h3, if_true, Scan.cons] at hfin ⊢
                        have := ih r3.length (by simp at hlen; omega) r3 rfl hfin
                        rw [u8run_step _ _ _ _ (stepLead4 b0 hD) rfl]
                        simp only []
                        rw [u8run_step _ _ _ _ (stepCont _ b1 (by simp) (by simpa using h1)) (by simp)]
                        simp only [Nat.zero_add, Nat.reduceEqDiff, if_false]
                        rw [u8run_step _ _ _ _ (stepCont _ b2 (by simp) (by simpa [isCont] using h2)) (by simp)]
                        simp only [Nat.reduceAdd, Nat.reduceEqDiff, if_false]
                        rw [u8run_step _ _ _ _ (stepCont _ b3 (by simp) (by simpa [isCont] using h3)) (by simp)]
                        simp only [Nat.reduceAdd, if_true]
                        rw [this]; rfl
                      · simp [h3, Scan.stop] at hfin
                  · simp [h2, Scan.stop] at hfin
              · simp [h1, Scan.stop] at hfin
          · simp [hD, Scan.stop] at hfin

theorem utf8_lawful : utf8.Lawful where
  codec := utf8Codec_lawful
  utf8_valid := by
    intro _ p cs h
    simp only [Utf8.decodeValid] at h
    split at h
    · rename_i hd
      simp only [Option.some.injEq] at h
      subst h
      exact scan_run p.length p rfl hd
    · simp at h

end LolHtml.Enc
