import LolHtml.Lemmas.PreserveOk
import LolHtml.Lemmas.InvKeep
/-!
Joint invariants between the LEXER's `lexeme_start` and the sink, preserved until the first error; at the
first error a weaker predicate `Ve` on the sink is established.

`V ls? k` relates the sink state `k` to the position at which the next lexeme will start (`some
lexeme_start` while the lexer runs, `none` while the tag scanner runs). If the sink operations keep
`V` when handed the lexemes the lexer really builds — raw range `[lexeme_start, e)`, after which
`lexeme_start = e` — then `Parser::parse` keeps it, for tables with `EmitsChecked`.
-/
namespace LolHtml.Model

variable {κ : Type}

/-- the lexer's `lexeme_start`; `none` for the tag scanner -/
def lsOf : Regs → Option Nat
  | .lexer l => some l.lexemeStart
  | .scanner _ => none

/-- contracts of the sink operations for a joint invariant `V` (lexemes located by `pc`) -/
structure OpsView (ops : SinkOps κ) (inp : Bytes) (pc : Nat) (V : Option Nat → κ → Prop) (Ve : κ → Prop) : Prop where
  handleNonTag : ∀ ls e o k, V (some ls) k →
    (ops.handleNonTag inp ⟨pc, ⟨ls, e⟩, o⟩ k).2 = .ok () → V (some e) (ops.handleNonTag inp ⟨pc, ⟨ls, e⟩, o⟩ k).1
  handleTag : ∀ ls e t k, V (some ls) k →
    ((ops.handleTag inp ⟨pc, ⟨ls, e⟩, t⟩ k).2 = .ok .lex → V (some e) (ops.handleTag inp ⟨pc, ⟨ls, e⟩, t⟩ k).1) ∧
    ((ops.handleTag inp ⟨pc, ⟨ls, e⟩, t⟩ k).2 = .ok .scan → V none (ops.handleTag inp ⟨pc, ⟨ls, e⟩, t⟩ k).1)
  startTagHint : ∀ n ns k, V none k →
    ((ops.startTagHint n ns k).2 = .ok .scan → V none (ops.startTagHint n ns k).1) ∧
    ((ops.startTagHint n ns k).2 = .ok .lex → ∀ ls, V (some ls) (ops.startTagHint n ns k).1)
  endTagHint : ∀ n k, V none k →
    ((ops.endTagHint n k).2 = .ok .scan → V none (ops.endTagHint n k).1) ∧
    ((ops.endTagHint n k).2 = .ok .lex → ∀ ls, V (some ls) (ops.endTagHint n k).1)
  /-- the scanner may hand over to the lexer (at any position) without calling the sink -/
  toLex : ∀ k, V none k → ∀ ls, V (some ls) k
  /-- without a sink call, the error predicate follows from the invariant -/
  weaken : ∀ ls k, V ls k → Ve k
  handleNonTagE : ∀ ls e o k, V (some ls) k → ∀ er,
    (ops.handleNonTag inp ⟨pc, ⟨ls, e⟩, o⟩ k).2 = .error er → Ve (ops.handleNonTag inp ⟨pc, ⟨ls, e⟩, o⟩ k).1
  handleTagE : ∀ ls e t k, V (some ls) k → ∀ er,
    (ops.handleTag inp ⟨pc, ⟨ls, e⟩, t⟩ k).2 = .error er → Ve (ops.handleTag inp ⟨pc, ⟨ls, e⟩, t⟩ k).1
  startTagHintE : ∀ n ns k, V none k → ∀ er,
    (ops.startTagHint n ns k).2 = .error er → Ve (ops.startTagHint n ns k).1
  endTagHintE : ∀ n k, V none k → ∀ er,
    (ops.endTagHint n k).2 = .error er → Ve (ops.endTagHint n k).1

/-- the invariant on a machine -/
def VI (pc : Nat) (V : Option Nat → κ → Prop) (m : M κ) : Prop :=
  m.x.prevConsumed = pc ∧ V (lsOf m.r) m.x.sink

/-- what a step returns -/
def VRes (pc : Nat) (V : Option Nat → κ → Prop) (Ve : κ → Prop) (r : M κ × Option Signal) : Prop :=
  r.1.x.prevConsumed = pc ∧
  match r.2 with
  | none => V (lsOf r.1.r) r.1.x.sink
  | some (.err _) => Ve r.1.x.sink
  | some (.directive .scan _) => V none r.1.x.sink
  | some (.directive .lex _) => ∀ ls, V (some ls) r.1.x.sink
  | some (.endOfInput c) =>
    match r.1.r with
    | .lexer l => V (some c) r.1.x.sink ∧ (r.1.c.isLast = false → l.lexemeStart = 0)
    | .scanner _ => V none r.1.x.sink

section
variable {env : Env κ} {inp : Bytes} {pc : Nat} {V : Option Nat → κ → Prop} {Ve : κ → Prop}

theorem VRes.ofNone {m : M κ} (h : VI pc V m) : VRes pc V Ve (m, Option.none) := h

theorem VRes.err {m : M κ} {e : Err} (h : m.x.prevConsumed = pc) (hv : Ve m.x.sink) : VRes pc V Ve (m, some (.err e)) := ⟨h, hv⟩

theorem VRes.inv {r : M κ × Option Signal} (h : VRes pc V Ve r) (hn : r.2 = none) : VI pc V r.1 := by
  obtain ⟨h1, h2⟩ := h
  rw [hn] at h2
  exact ⟨h1, h2⟩

theorem VRes.split_some {r : M κ × Option Signal} (h : VRes pc V Ve r) {sig : Signal} (hs : r.2 = some sig) :
    VRes pc V Ve (r.1, some sig) := by
  obtain ⟨a, b⟩ := h
  rw [hs] at b
  exact ⟨a, b⟩

theorem vw_lexEmitNonTag (h : OpsView env.ops inp pc V Ve) (c : Common) (l : LexRegs) (x : Ctx κ)
    (o : Option NonTagOutline) (e : Nat) (hp : x.prevConsumed = pc) (hv : V (some l.lexemeStart) x.sink) :
    VRes pc V Ve (lexEmitNonTag env inp c l x o e) := by
  unfold lexEmitNonTag
  have h1 := h.handleNonTag l.lexemeStart e o x.sink hv
  dsimp only
  rw [hp]
  split
  · rename_i hr; exact ⟨by first | rfl | exact hp, h1 hr⟩
  · rename_i er hr; exact ⟨by first | rfl | exact hp, h.handleNonTagE l.lexemeStart e o x.sink hv er hr⟩

theorem vw_lexEmitText (h : OpsView env.ops inp pc V Ve) (c : Common) (l : LexRegs) (x : Ctx κ)
    (hp : x.prevConsumed = pc) (hv : V (some l.lexemeStart) x.sink) : VRes pc V Ve (lexEmitText env inp c l x) := by
  unfold lexEmitText
  split
  · exact vw_lexEmitNonTag h _ _ _ _ _ hp hv
  · exact ⟨hp, hv⟩

theorem vw_lexEmitEof (h : OpsView env.ops inp pc V Ve) (m : M κ) (hp : VI pc V m) : VRes pc V Ve (lexEmitEof env inp m) := by
  unfold lexEmitEof
  split
  · rename_i l hl
    obtain ⟨h1, h2⟩ := hp
    rw [hl] at h2
    exact vw_lexEmitNonTag h _ _ _ _ _ h1 h2
  · exact hp

theorem vw_andThen (r : M κ × Option Signal) (g : M κ → M κ × Option Signal)
    (hr : VRes pc V Ve r) (hg : ∀ m, VI pc V m → VRes pc V Ve (g m)) : VRes pc V Ve (andThen r g) := by
  unfold andThen
  split
  · rename_i s hs; exact hr.split_some hs
  · rename_i hs; exact hg _ (hr.inv hs)

theorem vw_lexEmitTagLexeme (h : OpsView env.ops inp pc V Ve) (c : Common) (l : LexRegs) (x : Ctx κ)
    (sim : Sim) (t : TagOutline) (e : Nat) (hp : x.prevConsumed = pc) (hv : V (some l.lexemeStart) x.sink) :
    VRes pc V Ve (lexEmitTagLexeme env inp c l x sim t e) := by
  unfold lexEmitTagLexeme
  obtain ⟨h1, h2⟩ := h.handleTag l.lexemeStart e t x.sink hv
  dsimp only
  rw [hp]
  split
  · rename_i er hr; exact ⟨by first | rfl | exact hp, h.handleTagE l.lexemeStart e t x.sink hv er hr⟩
  · rename_i hr; exact ⟨by first | rfl | exact hp, h1 hr⟩
  · rename_i hr; exact ⟨by first | rfl | exact hp, h2 hr⟩

theorem vw_lexEmitTag (h : OpsView env.ops inp pc V Ve) (c : Common) (l : LexRegs) (x : Ctx κ)
    (hp : x.prevConsumed = pc) (hv : V (some l.lexemeStart) x.sink) : VRes pc V Ve (lexEmitTag env inp c l x) := by
  unfold lexEmitTag
  split
  · exact ⟨hp, h.weaken _ _ hv⟩
  · dsimp only
    split
    · exact ⟨hp, h.weaken _ _ hv⟩
    · split
      · exact ⟨hp, h.weaken _ _ hv⟩
      · exact vw_lexEmitTagLexeme h _ _ _ _ _ _ hp hv

/-- the lexer's non-emitting actions touch neither `lexeme_start` nor the context -/
theorem lexAct_view (a : ActName) (ha : a.callsSink = false ∨ a = .finishTagName) (c : Common) (l : LexRegs) (x : Ctx κ) :
    lsOf (lexAct env a inp c l x).1.r = some l.lexemeStart ∧ (lexAct env a inp c l x).1.x = x := by
  rcases ha with ha | ha
  · cases a <;> simp only [ActName.callsSink, Bool.true_eq_false] at ha <;> simp only [lexAct] <;>
      (repeat' split) <;> (refine ⟨?_, ?_⟩ <;> first | rfl | trivial)
  · subst ha
    simp only [lexAct]
    split <;> (refine ⟨?_, ?_⟩ <;> first | rfl | trivial)

theorem vw_lexAct (h : OpsView env.ops inp pc V Ve) (a : ActName) (c : Common) (l : LexRegs) (x : Ctx κ)
    (hp : x.prevConsumed = pc) (hv : V (some l.lexemeStart) x.sink) : VRes pc V Ve (lexAct env a inp c l x) := by
  by_cases ha : a.callsSink = false ∨ a = .finishTagName
  · obtain ⟨h1, h2⟩ := lexAct_view (env := env) (inp := inp) a ha c l x
    refine ⟨by rw [h2]; exact hp, ?_⟩
    have hsig : (lexAct env a inp c l x).2 = none ∨ ∃ e, (lexAct env a inp c l x).2 = some (.err e) := by
      rcases ha with ha | ha
      · cases a <;> simp only [ActName.callsSink, Bool.true_eq_false] at ha <;> simp only [lexAct] <;>
          (repeat' split) <;> simp
      · subst ha
        simp only [lexAct]
        split <;> simp
    rcases hsig with hs | ⟨e, hs⟩
    · rw [hs]; simp only; rw [h1, h2]; exact hv
    · rw [hs]; simp only; rw [h2]; exact h.weaken _ _ hv
  · have ha' : a.callsSink = true ∧ a ≠ .finishTagName := by
      simp only [not_or, Bool.not_eq_false] at ha
      exact ha
    cases a <;> simp only [ActName.callsSink, Bool.false_eq_true, false_and, ne_eq, not_true_eq_false, and_false] at ha' <;>
      simp only [lexAct]
    case emitText => exact vw_lexEmitText h _ _ _ hp hv
    case emitTextAndEof => exact vw_andThen _ _ (vw_lexEmitText h _ _ _ hp hv) (fun m hm => vw_lexEmitEof h m hm)
    case emitCurrentToken => exact vw_lexEmitNonTag h _ { l with curNonTag := none } _ _ _ hp hv
    case emitCurrentTokenAndEof =>
      exact vw_andThen _ _ (vw_lexEmitNonTag h _ { l with curNonTag := none } _ _ _ hp hv) (fun m hm => vw_lexEmitEof h m hm)
    case emitRawWithoutToken => exact vw_lexEmitNonTag h _ _ _ _ _ hp hv
    case emitRawWithoutTokenAndEof =>
      exact vw_andThen _ _ (vw_lexEmitNonTag h _ _ _ _ _ hp hv) (fun m hm => vw_lexEmitEof h m hm)
    case emitTag => exact vw_lexEmitTag h _ _ _ hp hv

theorem vw_scanEmitHint (h : OpsView env.ops inp pc V Ve) (c : Common) (s : ScanRegs) (x : Ctx κ)
    (ts : Nat) (ie : Bool) (hp : x.prevConsumed = pc) (hv : V none x.sink) :
    VRes pc V Ve (scanEmitHint env inp c s x ts ie) := by
  unfold scanEmitHint
  split
  · exact ⟨hp, h.weaken _ _ hv⟩
  · rename_i name _
    dsimp only
    cases ie with
    | true =>
      simp only [if_true]
      obtain ⟨h1, h2⟩ := h.endTagHint name x.sink hv
      split
      · rename_i er hr; exact ⟨hp, h.endTagHintE name x.sink hv er hr⟩
      · rename_i hr; exact ⟨hp, h1 hr⟩
      · rename_i hr; exact ⟨hp, h2 hr⟩
    | false =>
      simp only [Bool.false_eq_true, if_false]
      obtain ⟨h1, h2⟩ := h.startTagHint name x.sim.currentNs x.sink hv
      split
      · rename_i er hr; exact ⟨hp, h.startTagHintE name x.sim.currentNs x.sink hv er hr⟩
      · rename_i hr; exact ⟨hp, h1 hr⟩
      · rename_i hr; exact ⟨hp, h2 hr⟩

theorem vw_scanFinishTagName (h : OpsView env.ops inp pc V Ve) (c : Common) (s : ScanRegs) (x : Ctx κ)
    (hp : x.prevConsumed = pc) (hv : V none x.sink) : VRes pc V Ve (scanFinishTagName env inp c s x) := by
  unfold scanFinishTagName
  split
  · exact ⟨hp, h.weaken _ _ hv⟩
  · dsimp only
    split
    · exact ⟨hp, h.weaken _ _ hv⟩
    · split
      · exact ⟨hp, h.toLex _ hv⟩
      · exact vw_scanEmitHint h _ _ _ _ _ hp hv

theorem scanAct_view (a : ActName) (ha : a.callsSink = false) (c : Common) (s : ScanRegs) (x : Ctx κ) :
    lsOf (scanAct env a inp c s x).1.r = none ∧ (scanAct env a inp c s x).1.x = x ∧ (scanAct env a inp c s x).2 = none := by
  cases a <;> simp only [ActName.callsSink, Bool.true_eq_false] at ha <;> simp only [scanAct] <;>
    (repeat' split) <;> (refine ⟨?_, ?_, ?_⟩ <;> first | rfl | trivial)

theorem vw_scanAct (h : OpsView env.ops inp pc V Ve) (a : ActName) (c : Common) (s : ScanRegs) (x : Ctx κ)
    (hp : x.prevConsumed = pc) (hv : V none x.sink) : VRes pc V Ve (scanAct env a inp c s x) := by
  by_cases ha : a.callsSink = false
  · obtain ⟨h1, h2, h3⟩ := scanAct_view (env := env) (inp := inp) a ha c s x
    refine ⟨by rw [h2]; exact hp, ?_⟩
    rw [h3]
    simp only
    rw [h1, h2]
    exact hv
  · cases a <;> simp only [ActName.callsSink, not_true_eq_false, not_false_eq_true] at ha <;> simp only [scanAct]
    case finishTagName => exact vw_scanFinishTagName h _ _ _ hp hv
    all_goals exact ⟨hp, hv⟩

theorem vw_act (h : OpsView env.ops inp pc V Ve) (a : ActName) (m : M κ) (hp : VI pc V m) : VRes pc V Ve (act env a inp m) := by
  obtain ⟨h1, h2⟩ := hp
  unfold act
  split
  · rename_i l hl; rw [hl] at h2; exact vw_lexAct h a _ l _ h1 h2
  · rename_i s hs; rw [hs] at h2; exact vw_scanAct h a _ s _ h1 h2

/-- a non-sink action leaves the view alone -/
theorem act_view (a : ActName) (ha : a.callsSink = false) (m : M κ) :
    lsOf (act env a inp m).1.r = lsOf m.r ∧ (act env a inp m).1.x = m.x := by
  unfold act
  split
  · rename_i l hl
    obtain ⟨h1, h2⟩ := lexAct_view (env := env) (inp := inp) a (Or.inl ha) m.c l m.x
    exact ⟨by rw [h1, hl]; rfl, h2⟩
  · rename_i s hs
    obtain ⟨h1, h2, _⟩ := scanAct_view (env := env) (inp := inp) a ha m.c s m.x
    exact ⟨by rw [h1, hs]; rfl, h2⟩

theorem vw_runCalls (h : OpsView env.ops inp pc V Ve) (cs : List Call) (hc : cs.all Call.checked = true)
    (m : M κ) (hp : VI pc V m) : VRes pc V Ve (runCalls env inp cs m) := by
  induction cs generalizing m with
  | nil => exact hp
  | cons cl cs ih =>
    simp only [List.all_cons, Bool.and_eq_true] at hc
    simp only [runCalls]
    have h1 := vw_act h cl.act m hp
    split
    · rename_i s hs
      split
      · exact h1.split_some hs
      · rename_i hq
        have hns : cl.act.callsSink = false := by
          have := hc.1
          simp only [Call.checked, Bool.or_eq_true, Bool.not_eq_true'] at this
          rcases this with h | h
          · exact h
          · exact absurd h hq
        obtain ⟨v1, v2⟩ := act_view (env := env) (inp := inp) cl.act hns m
        apply ih hc.2
        exact ⟨by rw [v2]; exact hp.1, by rw [v1, v2]; exact hp.2⟩
    · rename_i hs
      exact ih hc.2 _ (h1.inv hs)

theorem VI.setC {m : M κ} (h : VI pc V m) (f : Common → Common) : VI pc V { m with c := f m.c } := h

theorem VI.congr {m m' : M κ} (hr : m'.r = m.r) (hx : m'.x = m.x) (h : VI pc V m) : VI pc V m' :=
  ⟨by rw [hx]; exact h.1, by rw [hr, hx]; exact h.2⟩

theorem applyTrans_view (t : Trans) (m : M κ) :
    (applyTrans env t m).1.r = m.r ∧ (applyTrans env t m).1.x = m.x ∧
    ((applyTrans env t m).2 = none ∨ ∃ e, (applyTrans env t m).2 = some (.err e)) := by
  cases t <;> simp only [applyTrans]
  · refine ⟨?_, ?_, Or.inl ?_⟩ <;> first | rfl | trivial
  · refine ⟨?_, ?_, Or.inl ?_⟩ <;> first | rfl | trivial
  · split
    · exact ⟨rfl, rfl, Or.inr ⟨_, rfl⟩⟩
    · refine ⟨?_, ?_, Or.inl ?_⟩ <;> first | rfl | trivial

theorem vw_applyTrans (hw : ∀ ls k, V ls k → Ve k) (t : Trans) (m : M κ) (hp : VI pc V m) : VRes pc V Ve (applyTrans env t m) := by
  obtain ⟨a, b, c⟩ := applyTrans_view (env := env) t m
  refine ⟨by rw [b]; exact hp.1, ?_⟩
  rcases c with c | ⟨e, c⟩
  · rw [c]; simp only; rw [a, b]; exact hp.2
  · rw [c]; simp only; rw [b]; exact hw _ _ hp.2

theorem vw_runSeq (h : OpsView env.ops inp pc V Ve) (s : ActSeq) (hc : s.calls.all Call.checked = true)
    (m : M κ) (hp : VI pc V m) : VRes pc V Ve ((runSeq env inp s m).1, (runSeq env inp s m).2.1) := by
  unfold runSeq
  have h1 := vw_runCalls h s.calls hc m hp
  dsimp only
  split
  · rename_i sig hs; exact h1.split_some hs
  · rename_i hs
    have hi := h1.inv hs
    split
    · exact hi
    · exact vw_applyTrans h.weaken _ _ hi

theorem vw_runBody (h : OpsView env.ops inp pc V Ve) (b : Body)
    (hc : (b.seqs.flatMap (·.calls)).all Call.checked = true) (m : M κ) (hp : VI pc V m) :
    VRes pc V Ve ((runBody env inp b m).1, (runBody env inp b m).2.1) := by
  cases b with
  | seq s =>
    simp only [Body.seqs, List.flatMap_cons, List.flatMap_nil, List.append_nil] at hc
    exact vw_runSeq h s hc m hp
  | ite c t e =>
    simp only [Body.seqs, List.flatMap_cons, List.flatMap_nil, List.append_nil, List.all_append, Bool.and_eq_true] at hc
    simp only [runBody]
    split
    · exact ⟨hp.1, h.weaken _ _ hp.2⟩
    · exact vw_runSeq h _ hc.1 m hp
    · exact vw_runSeq h _ hc.2 m hp

theorem enterSeq_view (m : M κ) : lsOf (enterSeq m).r = lsOf m.r ∧ (enterSeq m).x = m.x := by
  unfold enterSeq; split <;> simp_all [lsOf]

theorem leaveSeq_view (m : M κ) : lsOf (leaveSeq m).r = lsOf m.r ∧ (leaveSeq m).x = m.x := by
  unfold leaveSeq; split <;> simp_all [lsOf]

theorem VI.enterSeq {m : M κ} (h : VI pc V m) : VI pc V (enterSeq m) := by
  obtain ⟨a, b⟩ := enterSeq_view m
  exact ⟨by rw [b]; exact h.1, by rw [a, b]; exact h.2⟩

theorem VI.leaveSeq {m : M κ} (h : VI pc V m) : VI pc V (leaveSeq m) := by
  obtain ⟨a, b⟩ := leaveSeq_view m
  exact ⟨by rw [b]; exact h.1, by rw [a, b]; exact h.2⟩

/-- `break_on_end_of_input` -/
theorem vw_break (hw : ∀ ls k, V ls k → Ve k) (m : M κ) (hp : VI pc V m) : VRes pc V Ve (breakOnEndOfInput inp m) := by
  obtain ⟨h1, h2⟩ := hp
  obtain ⟨c, r, x⟩ := m
  simp only at h1 h2
  cases r with
  | lexer l =>
    simp only [lsOf] at h2
    cases hl : c.isLast with
    | true =>
      simp only [breakOnEndOfInput, consumedByteCount, hl, if_true]
      by_cases hcnd : c.nextPos = 0 ∨ c.nextPos - 1 < l.lexemeStart
      · rw [if_pos hcnd]; exact ⟨h1, hw _ _ h2⟩
      · rw [if_neg hcnd]; exact ⟨h1, h2, fun hf => by simp [hl] at hf⟩
    | false =>
      simp only [breakOnEndOfInput, consumedByteCount, adjustForNextInput, hl, Bool.false_eq_true, if_false]
      by_cases hcnd : c.nextPos = 0 ∨ c.nextPos - 1 < l.lexemeStart
      · rw [if_pos hcnd]; exact ⟨h1, hw _ _ h2⟩
      · rw [if_neg hcnd]; exact ⟨h1, h2, fun _ => rfl⟩
  | scanner s =>
    simp only [lsOf] at h2
    have hx := breakOnEndOfInput_x (inp := inp) (⟨c, .scanner s, x⟩ : M κ)
    have hk := (breakOnEndOfInput_keep (inp := inp) (⟨c, .scanner s, x⟩ : M κ)).2
    refine ⟨by rw [hx]; exact h1, ?_⟩
    have hsig : (∃ e, (breakOnEndOfInput inp (⟨c, .scanner s, x⟩ : M κ)).2 = some (.err e)) ∨
        (∃ k, (breakOnEndOfInput inp (⟨c, .scanner s, x⟩ : M κ)).2 = some (.endOfInput k)) := by
      unfold breakOnEndOfInput
      dsimp only
      generalize (if c.isLast = true then (⟨c, .scanner s, x⟩ : M κ) else adjustForNextInput ⟨c, .scanner s, x⟩) = m'
      split
      · exact Or.inl ⟨_, rfl⟩
      · exact Or.inr ⟨_, rfl⟩
    rcases hsig with ⟨e, he⟩ | ⟨k, he⟩
    · rw [he]; simp only; rw [hx]; exact hw _ _ h2
    · rw [he]
      simp only
      cases hr : (breakOnEndOfInput inp (⟨c, .scanner s, x⟩ : M κ)).1.r with
      | lexer l => rw [hr] at hk; simp [Regs.isLex] at hk
      | scanner s' => simp only; rw [hx]; exact h2

def SumV (pc : Nat) (V : Option Nat → κ → Prop) (Ve : κ → Prop) : (M κ × Option Signal) ⊕ M κ → Prop
  | .inl r => VRes pc V Ve r
  | .inr m => VI pc V m

theorem vw_runSeqArms (h : OpsView env.ops inp pc V Ve) (ch : Option UInt8) (arms : List Arm)
    (hc : ArmsChecked arms) (m : M κ) (hp : VI pc V m) : SumV pc V Ve (runSeqArms env inp ch arms m) := by
  induction arms generalizing m with
  | nil => exact hp
  | cons arm rest ih =>
    have hrest : ArmsChecked rest := fun a ha => hc a (List.mem_cons_of_mem _ ha)
    simp only [runSeqArms]
    split
    · split
      · exact ih hrest _ hp.enterSeq.leaveSeq
      · split
        · exact vw_break h.weaken _ hp.enterSeq
        · exact ih hrest _ hp.enterSeq.leaveSeq
        · simp only [SumV]
          apply vw_runBody h _ (hc arm List.mem_cons_self)
          exact VI.leaveSeq (VI.congr (m := enterSeq m) rfl rfl hp.enterSeq)
    · exact ih hrest _ hp

theorem vw_dispatch (h : OpsView env.ops inp pc V Ve) (ch : Option UInt8) (arms : List Arm)
    (hc : ArmsChecked arms) (m : M κ) (hp : VI pc V m) : VRes pc V Ve (dispatch env inp ch arms m) := by
  unfold dispatch
  have h1 := vw_runSeqArms h ch arms hc m hp
  split
  · rename_i r heq
    rw [heq] at h1
    exact h1
  · rename_i m' heq
    rw [heq] at h1
    simp only [SumV] at h1
    split
    · exact ⟨h1.1, h.weaken _ _ h1.2⟩
    · rename_i arm harm
      have h2 := vw_runBody h arm.body (hc arm (findArm_mem harm)) m' h1
      have brk : ∀ (r : M κ × Option Signal × SeqEnd), VRes pc V Ve (r.1, r.2.1) →
          VRes pc V Ve (match r.2.1, r.2.2 with
            | some sig, _ => (r.1, some sig)
            | none, .transitioned => (r.1, none)
            | none, .fell => breakOnEndOfInput inp r.1) := by
        intro r hr
        split
        · rename_i sig _ hs
          exact hr.split_some hs
        · rename_i hs _
          exact hr.inv hs
        · rename_i hs _
          exact vw_break h.weaken _ (hr.inv hs)
      split
      · exact brk _ h2
      · split
        · exact brk _ h2
        · exact vw_break h.weaken _ h1
      · exact h2

theorem vw_stateFn (h : OpsView env.ops inp pc V Ve) (ht : EmitsChecked env.tbl = true) (m : M κ)
    (hp : VI pc V m) : VRes pc V Ve (stateFn env inp m) := by
  unfold stateFn
  split
  · exact ⟨hp.1, h.weaken _ _ hp.2⟩
  · rename_i sd hsd
    obtain ⟨he, ha⟩ := state_checked ht hsd
    dsimp only
    have hpre : VRes pc V Ve (if (!sd.enter.isEmpty && !m.c.entered) = true then
        (let m1 : M κ := { m with c := { m.c with nextPos := m.c.nextPos + 1 } }
         let r := runCalls env inp sd.enter m1
         match r.2 with
         | some sig => (r.1, some sig)
         | none =>
           let m2 := r.1
           (({ m2 with c := { m2.c with nextPos := m2.c.nextPos - 1, entered := true } } : M κ), (none : Option Signal)))
        else (m, none)) := by
      split
      · have h1 := vw_runCalls h sd.enter he { m with c := { m.c with nextPos := m.c.nextPos + 1 } } hp
        dsimp only
        split
        · rename_i sig hs
          exact h1.split_some hs
        · rename_i hs
          exact h1.inv hs
      · exact hp
    split
    · rename_i sig hs
      exact hpre.split_some hs
    · rename_i hs
      have hi := hpre.inv hs
      split
      · split <;> exact vw_dispatch h _ _ ha _ hi
      · exact vw_dispatch h _ _ ha _ hi

theorem vw_runLoop (h : OpsView env.ops inp pc V Ve) (ht : EmitsChecked env.tbl = true) (n : Nat) (m : M κ)
    (hp : VI pc V m) : VRes pc V Ve ((runLoop env inp n m).1, some (runLoop env inp n m).2) := by
  induction n generalizing m with
  | zero => exact ⟨hp.1, h.weaken _ _ hp.2⟩
  | succ n ih =>
    simp only [runLoop]
    have h1 := vw_stateFn h ht m hp
    split
    · rename_i sig hs
      exact h1.split_some hs
    · rename_i hs
      exact ih _ (h1.inv hs)

/-- the view of a parser: its current machine's -/
def Parser.ls (p : Parser κ) : Option Nat :=
  match p.directive with
  | .lex => some p.lexR.lexemeStart
  | .scan => none

/-- **Joint invariants through `Parser::parse`.** On success with `consumed` bytes: in lexer mode the invariant holds
for a lexeme start `consumed` (and the lexer's own `lexeme_start` has been re-based to 0 unless this was the last
slice); in scanner mode it holds as is. -/
theorem Parser.parseLoop_view (h : OpsView env.ops inp pc V Ve) (ht : EmitsChecked env.tbl = true) (last : Bool)
    (n : Nat) (p : Parser κ) (hp : p.x.prevConsumed = pc) (hv : V p.ls p.x.sink) :
    match (Parser.parseLoop env inp last n p).2 with
    | .ok c =>
      (Parser.parseLoop env inp last n p).1.x.prevConsumed = pc + c ∧
      (match (Parser.parseLoop env inp last n p).1.directive with
       | .lex => V (some c) (Parser.parseLoop env inp last n p).1.x.sink ∧
                 (last = false → (Parser.parseLoop env inp last n p).1.lexR.lexemeStart = 0)
       | .scan => V none (Parser.parseLoop env inp last n p).1.x.sink)
    | .error _ => Ve (Parser.parseLoop env inp last n p).1.x.sink := by
  induction n generalizing p with
  | zero => exact h.weaken _ _ hv
  | succ n ih =>
    simp only [Parser.parseLoop]
    have hm : VI pc V (p.machine last) := by
      unfold Parser.machine Parser.ls at *
      cases hd : p.directive <;> simp only [hd] at hv ⊢ <;> exact ⟨hp, hv⟩
    have hkeep := runLoop_keep (env := env) (inp := inp) (defaultFuel inp) (p.machine last)
    obtain ⟨a, b⟩ := vw_runLoop h ht (defaultFuel inp) (p.machine last) hm
    simp only at a b
    have hisLast : (p.machine last).c.isLast = last := by
      unfold Parser.machine; split <;> rfl
    cases hsig : (runLoop env inp (defaultFuel inp) (p.machine last)).2 with
    | endOfInput consumed =>
      simp only [hsig] at b ⊢
      cases hr : (runLoop env inp (defaultFuel inp) (p.machine last)).1.r with
      | lexer l =>
        rw [hr] at b
        simp only at b
        have hdir : p.directive = .lex := by
          have := hkeep.2
          rw [hr] at this
          unfold Parser.machine at this
          cases hd : p.directive
          · simp [hd, Regs.isLex] at this
          · rfl
        simp only [Parser.store, hr, hdir]
        refine ⟨by rw [a], b.1, fun hl => b.2 (by rw [hkeep.1, hisLast]; exact hl)⟩
      | scanner s =>
        rw [hr] at b
        simp only at b
        have hdir : p.directive = .scan := by
          have := hkeep.2
          rw [hr] at this
          unfold Parser.machine at this
          cases hd : p.directive
          · rfl
          · simp [hd, Regs.isLex] at this
        simp only [Parser.store, hr, hdir]
        exact ⟨by rw [a], b⟩
    | directive d bm =>
      simp only [hsig] at b ⊢
      apply ih
      · simpa [loadBookmark_x, Parser.store_x] using a
      · cases d with
        | lex =>
          simp only at b
          unfold loadBookmark Parser.ls
          simp only
          have := b bm.pos
          simpa [Parser.store_x] using this
        | scan =>
          simp only at b
          unfold loadBookmark Parser.ls
          simp only
          simpa [Parser.store_x] using b
    | err e =>
      simp only [hsig] at b ⊢
      cases e <;> simpa [Parser.store_x] using b

theorem Parser.parse_view (h : OpsView env.ops inp pc V Ve) (ht : EmitsChecked env.tbl = true) (last : Bool)
    (p : Parser κ) (hp : p.x.prevConsumed = pc) (hv : V p.ls p.x.sink) :
    match (Parser.parse env inp last p).2 with
    | .ok c =>
      (Parser.parse env inp last p).1.x.prevConsumed = pc + c ∧
      (match (Parser.parse env inp last p).1.directive with
       | .lex => V (some c) (Parser.parse env inp last p).1.x.sink ∧
                 (last = false → (Parser.parse env inp last p).1.lexR.lexemeStart = 0)
       | .scan => V none (Parser.parse env inp last p).1.x.sink)
    | .error _ => Ve (Parser.parse env inp last p).1.x.sink :=
  Parser.parseLoop_view h ht last _ p hp hv

end
end LolHtml.Model
