import LolHtml.Model.Stream
import LolHtml.Lemmas.StrictSim
/-!
Strict vs non-strict, lifted from the interpreter (`Lemmas/StrictSim.lean`, via the generic
congruence `Lemmas/Congr.lean`) to `Parser.parse`, `TransformStream::write/end` and the
`HtmlRewriter` wrapper.
-/
namespace LolHtml.Model
open LolHtml.Lemmas.Sim (erase)

variable {κ γ : Type}

/-- the congruence "equal up to the guard state and the strict flag" -/
def strictCong (cfg : TagCfg) : Cong κ κ :=
  { Rx := fun x₁ x₂ => x₂ = eraseX x₁, Jr := fun _ => True, Stop := StopS cfg, Good := fun _ => True }

/-- actions that do not call the sink never signal an ambiguity error -/
theorem act_silent (env : Env κ) (a : ActName) (ha : a.callsSink = false) (inp : Bytes) (m : M κ) (h : Nat) :
    (act env a inp m).2 ≠ some (.err (.ambiguity h)) := by
  obtain ⟨c, r, x⟩ := m
  cases r with
  | lexer l =>
    cases a <;> simp only [ActName.callsSink, Bool.true_eq_false] at ha <;> simp only [act, lexAct]
    all_goals (repeat' split)
    all_goals simp
  | scanner s =>
    cases a <;> simp only [ActName.callsSink, Bool.true_eq_false] at ha <;> simp only [act, scanAct]
    all_goals (repeat' split)
    all_goals simp

theorem strictCong_ok (env : Env κ) (inp : Bytes) : (strictCong (κ := κ) env.cfg).Ok env env inp where
  tbl := rfl
  stop_err := by
    rintro r ⟨h, hr, -⟩
    exact ⟨_, hr⟩
  good_none := trivial
  good_panic := fun _ => trivial
  good_eoi := fun _ => trivial
  act := by
    intro a m₁ m₂ hm
    obtain ⟨c, r, x₁, x₂, rfl, rfl, -, hx⟩ := Cong.MR.cases hm
    simp only [strictCong] at hx
    subst hx
    rcases act_erase env a inp ⟨c, r, x₁⟩ with hs | he
    · exact .inl hs
    · right
      have : (⟨c, r, eraseX x₁⟩ : M κ) = eraseM ⟨c, r, x₁⟩ := rfl
      rw [this, he]
      exact ⟨⟨rfl, rfl, trivial, rfl⟩, rfl, trivial⟩
  silent := by
    rintro a m₁ ha ⟨h, hr, -⟩
    exact act_silent env a ha inp m₁ h hr
  pc := by
    intro x₁ x₂ n hx
    simp only [strictCong] at hx ⊢
    subst hx
    rfl
  jr_enter := fun _ _ _ => trivial
  jr_leave := fun _ _ => trivial
  jr_adjust := fun _ _ => trivial
  jr_load_lex := fun _ _ _ => trivial
  jr_load_scan := fun _ _ _ => trivial

def eraseP (p : Parser κ) : Parser κ := { p with x := eraseX p.x }

theorem PR_iff (cfg : TagCfg) (p₁ p₂ : Parser κ) : (strictCong cfg).PR p₁ p₂ ↔ p₂ = eraseP p₁ := by
  obtain ⟨a1, b1, c1, d1, e1, x1⟩ := p₁
  obtain ⟨a2, b2, c2, d2, e2, x2⟩ := p₂
  simp only [Cong.PR, strictCong, eraseP, Parser.mk.injEq]
  constructor
  · rintro ⟨rfl, rfl, rfl, rfl, rfl, rfl, -⟩; exact ⟨rfl, rfl, rfl, rfl, rfl, rfl⟩
  · rintro ⟨rfl, rfl, rfl, rfl, rfl, rfl⟩; exact ⟨rfl, rfl, rfl, rfl, rfl, rfl, trivial⟩

/-- **`Parser.parse`: strict vs non-strict.** Either the strict parse fails with the ambiguity error
of a guard refusal (and the guard of the simulator it leaves behind refuses that very tag), or the
non-strict parse returns the same result and the same parser up to the guard. -/
theorem parse_erase (env : Env κ) (ht : EmitsChecked env.tbl = true) (inp : Bytes) (last : Bool)
    (p : Parser κ) :
    (∃ h, (Parser.parse env inp last p).2 = .error (.ambiguity h) ∧
        Refusal env.cfg (Parser.parse env inp last p).1.x.sim h) ∨
    (Parser.parse env inp last (eraseP p) =
        (eraseP (Parser.parse env inp last p).1, (Parser.parse env inp last p).2)) := by
  rcases Cong.parse_cong (strictCong_ok env inp) ht last p (eraseP p) ((PR_iff _ _ _).2 rfl) with
    ⟨m, e, ⟨h, hsig, href⟩, hx, hres⟩ | ⟨hpr, heq, -⟩
  · left
    simp only [Option.some.injEq, Signal.err.injEq] at hsig
    subst hsig
    exact ⟨h, hres, by rw [hx]; exact href⟩
  · right
    have := (PR_iff _ _ _).1 hpr
    rw [Prod.ext_iff]
    exact ⟨this, heq.symm⟩


/-! ### `TransformStream` -/

/-- the stream of the non-strict run -/
def eraseS (s : Stream γ) : Stream γ :=
  { s with parser := eraseP s.parser, cfg := { s.cfg with strict := false } }

theorem eraseS_disp (s : Stream γ) : (eraseS s).disp = s.disp := rfl
theorem eraseS_setDisp (s : Stream γ) (d : Disp γ) : (eraseS s).setDisp d = eraseS (s.setDisp d) := rfl

theorem bail_erase (w : World γ) (s : Stream γ) (e : Err) (sl : List Bytes) :
    (eraseS s).bail w e sl = eraseS (s.bail w e sl) := by
  unfold Stream.bail
  have : (eraseS s).shouldBailOutFor e = s.shouldBailOutFor e := by
    unfold Stream.shouldBailOutFor; cases e <;> rfl
  rw [this]
  split <;> rfl

/-- what the refusal disjunct says about a stream after a failed call -/
def RefusedS (w : World γ) (r : Stream γ × Except Err Unit) : Prop :=
  ∃ h, r.2 = .error (.ambiguity h) ∧ Refusal w.tags r.1.parser.x.sim h

theorem bail_sim (w : World γ) (s : Stream γ) (e : Err) (sl : List Bytes) :
    (s.bail w e sl).parser.x.sim = s.parser.x.sim := by
  unfold Stream.bail
  split <;> rfl

theorem chunkFor_erase (w : World γ) (s : Stream γ) (data : Bytes) :
    (eraseS s).chunkFor w data =
      match s.chunkFor w data with
      | .inl s' => .inl (eraseS s')
      | .inr sc => .inr (eraseS sc.1, sc.2) := by
  unfold Stream.chunkFor
  have hb' : (eraseS s).hasBuffered = s.hasBuffered := rfl
  have hbuf : (eraseS s).buf = s.buf := rfl
  rw [hb', hbuf]
  by_cases hb : s.hasBuffered = true
  · rw [if_pos hb, if_pos hb]
    by_cases ha : (s.buf.append data).2 = true
    · rw [if_pos ha, if_pos ha]; rfl
    · rw [if_neg ha, if_neg ha]
      exact congrArg Sum.inl (bail_erase w { s with buf := (s.buf.append data).1 } .mem [s.buf.data, data])
  · rw [if_neg hb, if_neg hb]

theorem keepTail_erase (w : World γ) (s : Stream γ) (data chunk : Bytes) (consumed : Nat) :
    (eraseS s).keepTail w data chunk consumed =
      (eraseS (s.keepTail w data chunk consumed).1, (s.keepTail w data chunk consumed).2) := by
  unfold Stream.keepTail
  have hb' : (eraseS s).hasBuffered = s.hasBuffered := rfl
  have hbuf : (eraseS s).buf = s.buf := rfl
  rw [hb', hbuf]
  by_cases hc : consumed < chunk.length
  · rw [if_pos hc, if_pos hc]
    by_cases hb : s.hasBuffered = true
    · rw [if_pos hb, if_pos hb]
      cases s.buf.shift consumed <;> rfl
    · rw [if_neg hb, if_neg hb]
      dsimp only
      by_cases hi : (s.buf.initWith (List.drop consumed data)).2 = true
      · rw [if_pos hi, if_pos hi]; rfl
      · rw [if_neg hi, if_neg hi]
        exact Prod.ext
          (bail_erase w { s with buf := (s.buf.initWith (List.drop consumed data)).1 } .mem [List.drop consumed data]) rfl
  · rw [if_neg hc, if_neg hc]; rfl

theorem write_erase (w : World γ) (ht : EmitsChecked w.tbl = true) (s : Stream γ) (data : Bytes) :
    RefusedS w (s.write w data) ∨
    (eraseS s).write w data = (eraseS (s.write w data).1, (s.write w data).2) := by
  unfold Stream.write
  rw [chunkFor_erase]
  cases s.chunkFor w data with
  | inl s' => right; rfl
  | inr sc =>
    obtain ⟨s1, chunk⟩ := sc
    dsimp only
    have hp : (eraseS s1).parser = eraseP s1.parser := rfl
    rw [hp]
    rcases parse_erase w.env ht chunk false s1.parser with ⟨h, he, hr⟩ | heq
    · left
      rw [he]
      exact ⟨h, rfl, by rw [bail_sim]; exact hr⟩
    · right
      rw [heq]
      cases (Parser.parse w.env chunk false s1.parser).2 with
      | error e =>
        exact Prod.ext (bail_erase w { s1 with parser := (Parser.parse w.env chunk false s1.parser).1 } e [chunk]) rfl
      | ok consumed =>
        dsimp only
        have hd : ({ eraseS s1 with parser := eraseP (Parser.parse w.env chunk false s1.parser).1 } : Stream γ).disp =
            ({ s1 with parser := (Parser.parse w.env chunk false s1.parser).1 } : Stream γ).disp := rfl
        rw [hd]
        cases ({ s1 with parser := (Parser.parse w.env chunk false s1.parser).1 } : Stream γ).disp.flushRemaining chunk consumed with
        | error e => rfl
        | ok d =>
          exact keepTail_erase w (({ s1 with parser := (Parser.parse w.env chunk false s1.parser).1 } : Stream γ).setDisp d)
            data chunk consumed

theorem end_erase_s (w : World γ) (ht : EmitsChecked w.tbl = true) (s : Stream γ) :
    RefusedS w (s.end w) ∨ (eraseS s).end w = (eraseS (s.end w).1, (s.end w).2) := by
  unfold Stream.end
  have hb : (eraseS s).hasBuffered = s.hasBuffered := rfl
  have hbuf : (eraseS s).buf = s.buf := rfl
  have hp : (eraseS s).parser = eraseP s.parser := rfl
  rw [hb, hbuf, hp]
  dsimp only
  rcases parse_erase w.env ht (if s.hasBuffered = true then s.buf.data else []) true s.parser with
    ⟨h, he, hr⟩ | heq
  · left
    rw [he]
    exact ⟨h, rfl, by rw [bail_sim]; exact hr⟩
  · right
    rw [heq]
    cases (Parser.parse w.env (if s.hasBuffered = true then s.buf.data else []) true s.parser).2 with
    | error e => exact Prod.ext (bail_erase w { s with parser := _ } e _) rfl
    | ok _ => rfl


/-! ### `HtmlRewriter` -/

def eraseRw (r : Rewriter γ) : Rewriter γ := { r with stream := eraseS r.stream }

/-- a call of the strict rewriter failed because the guard refused tag `h` -/
def RefusedR (w : World γ) (r : Rewriter γ × CallRes) : Prop :=
  ∃ h, r.2 = .err (.ambiguity h) ∧ Refusal w.tags r.1.stream.parser.x.sim h

theorem rw_write_erase (w : World γ) (ht : EmitsChecked w.tbl = true) (r : Rewriter γ) (data : Bytes) :
    RefusedR w (r.write w data) ∨
    (eraseRw r).write w data = (eraseRw (r.write w data).1, (r.write w data).2) := by
  unfold Rewriter.write
  have hp : (eraseRw r).poisoned = r.poisoned := rfl
  have hs : (eraseRw r).stream = eraseS r.stream := rfl
  rw [hp, hs]
  by_cases hpo : r.poisoned = true
  · rw [if_pos hpo, if_pos hpo]; right; rfl
  · rw [if_neg hpo, if_neg hpo]
    dsimp only
    rcases write_erase w ht r.stream data with ⟨h, he, hr⟩ | heq
    · left
      rw [he]
      exact ⟨h, rfl, hr⟩
    · right
      rw [heq]
      cases (r.stream.write w data).2 <;> rfl

theorem rw_end_erase (w : World γ) (ht : EmitsChecked w.tbl = true) (r : Rewriter γ) :
    RefusedR w (r.end w) ∨ (eraseRw r).end w = (eraseRw (r.end w).1, (r.end w).2) := by
  unfold Rewriter.end
  have hp : (eraseRw r).poisoned = r.poisoned := rfl
  have hs : (eraseRw r).stream = eraseS r.stream := rfl
  rw [hp, hs]
  by_cases hpo : r.poisoned = true
  · rw [if_pos hpo, if_pos hpo]; right; rfl
  · rw [if_neg hpo, if_neg hpo]
    dsimp only
    rcases end_erase_s w ht r.stream with ⟨h, he, hr⟩ | heq
    · left
      rw [he]
      exact ⟨h, rfl, hr⟩
    · right
      rw [heq]
      cases (r.stream.end w).2 <;> rfl

theorem new_erase (w : World γ) (g : γ) (cfg : Settings) (hs : cfg.strict = true) :
    Stream.new w g { cfg with strict := false } = eraseS (Stream.new w g cfg) := by
  unfold Stream.new eraseS eraseP eraseX Parser.new
  simp only [hs]
  rfl

end LolHtml.Model
