import LolHtml.Lemmas.EscRealCommentStates
/-!
One symbolic-evaluation lemma per (comment state, byte class): what one invocation of `stateFn` does
on the lexer machine with the recording sink, for every table with `CommentStatesOk`.
-/
namespace LolHtml.Model.CommentStates
open LolHtml LolHtml.Model LolHtml.Model.TagStates
open LolHtml.Thm.C16 (Lexeme recOps)

section
variable {tbl : Table} {cfg : TagCfg} (hok : CommentStatesOk tbl = true) {inp : Bytes} {b : UInt8}
  {p : Nat} {il en ca : Bool} {lsh : Nat} {cq : UInt8} {ltt : TextType}
  {ls tps : Nat} {ct : Option TagOutline} {cnt : Option NonTagOutline} {cattr : Option AttrOutline}
  {fd : FeedbackDirective} {x : Ctx (List Lexeme)} {r : Range}

set_option hygiene false in
macro "cprelude" s:num k:term : tactic => `(tactic| (
  obtain ⟨sd, hs, he, hm, ha⟩ := cstate_of_ok hok (s := $s) (k := $k) (by simp [cexpected])
  unfold stateFn
  dsimp only
  simp only [hs, he, hm, ha, exp30, exp41, exp42, exp43, exp44, exp45, exp46, exp47, exp48, exp49, exp50,
    List.isEmpty_nil, List.isEmpty_cons, Bool.not_true, Bool.not_false, Bool.false_and, Bool.true_and, Bool.false_eq_true, if_false]))

macro "ceval" : tactic => `(tactic| (
  simp [dispatch, runSeqArms, findArm, patMatches, runBody, runSeq, runCalls, act, lexAct, applyTrans, Common.pos,
    tokenPartRange, lexEmitNonTag, recOps, *]))

include hok

/-! ### tag open on `!`, markup declaration open on `--` -/

theorem step28_bang {l : LexRegs} (hb : inp[p]? = some 33) :
    stateFn ⟨tbl, cfg, recOps⟩ inp ⟨⟨p, il, 28, en, ca, lsh, cq, ltt⟩, .lexer l, x⟩
      = (⟨⟨p + 1, il, 30, false, ca, lsh, cq, ltt⟩, .lexer l, x⟩, none) := by
  have hok' := tagOk_of_ok hok
  obtain ⟨sd, hs, he, hm, ha⟩ := state_of_ok hok' (s := 28) (k := exp28) (by simp [expected])
  have hal := alpha_of_ok hok'
  unfold stateFn
  dsimp only
  simp only [hs, he, hm, ha, exp28, List.isEmpty_nil, Bool.not_true, Bool.false_and, Bool.false_eq_true, if_false]
  simp [dispatch, runSeqArms, findArm, patMatches, runBody, runSeq, runCalls, act, lexAct, applyTrans, hb, hal]

theorem step30_dashdash (hb : inp[p]? = some 45) (hb2 : inp[p + 1]? = some 45) :
    stateFn ⟨tbl, cfg, recOps⟩ inp ⟨⟨p, il, 30, false, ca, lsh, cq, ltt⟩, .lexer ⟨ls, tps, ct, cnt, cattr, fd⟩, x⟩
      = (⟨⟨p + 2, il, 41, false, ca, lsh, cq, ltt⟩, .lexer ⟨ls, p, ct, cnt, cattr, fd⟩, x⟩, none) := by
  cprelude 30 exp30
  simp [dispatch, runSeqArms, runBody, runSeq, runCalls, act, lexAct, applyTrans, Common.pos, enterSeq, leaveSeq,
    seqCmp, matchSeqFrom, hb, hb2]

/-! ### comment start (its enter actions run in the same call) -/

theorem step41_dash (hb : inp[p]? = some 45) :
    stateFn ⟨tbl, cfg, recOps⟩ inp ⟨⟨p, il, 41, false, ca, lsh, cq, ltt⟩, .lexer ⟨ls, tps, ct, cnt, cattr, fd⟩, x⟩
      = (⟨⟨p + 1, il, 43, false, ca, lsh, cq, ltt⟩, .lexer ⟨ls, p, ct, some (.comment ⟨p, p⟩), cattr, fd⟩, x⟩, none) := by
  cprelude 41 exp41
  ceval

theorem step41_gt (hb : inp[p]? = some 62) :
    stateFn ⟨tbl, cfg, recOps⟩ inp ⟨⟨p, il, 41, false, ca, lsh, cq, ltt⟩, .lexer ⟨ls, tps, ct, cnt, cattr, fd⟩, x⟩
      = (⟨⟨p + 1, il, 2, false, ca, lsh, cq, ltt⟩, .lexer ⟨p + 1, p, ct, none, cattr, fd⟩,
          { x with sink := x.sink ++ [.nonTag ⟨x.prevConsumed, ⟨ls, p + 1⟩, some (.comment ⟨p, p⟩)⟩] }⟩, none) := by
  cprelude 41 exp41
  ceval

theorem step41_other (hb : inp[p]? = some b) (h1 : ¬b = 45) (h2 : ¬b = 62) :
    stateFn ⟨tbl, cfg, recOps⟩ inp ⟨⟨p, il, 41, false, ca, lsh, cq, ltt⟩, .lexer ⟨ls, tps, ct, cnt, cattr, fd⟩, x⟩
      = (⟨⟨p, il, 42, false, ca, lsh, cq, ltt⟩, .lexer ⟨ls, p, ct, some (.comment .default), cattr, fd⟩, x⟩, none) := by
  cprelude 41 exp41
  ceval

/-! ### comment -/

theorem step42_dash (hb : inp[p]? = some 45) :
    stateFn ⟨tbl, cfg, recOps⟩ inp ⟨⟨p, il, 42, en, ca, lsh, cq, ltt⟩, .lexer ⟨ls, tps, ct, some (.comment r), cattr, fd⟩, x⟩
      = (⟨⟨p + 1, il, 44, false, ca, lsh, cq, ltt⟩, .lexer ⟨ls, tps, ct, some (.comment ⟨tps, p⟩), cattr, fd⟩, x⟩, none) := by
  cprelude 42 exp42
  ceval

theorem step42_lt (hb : inp[p]? = some 60) :
    stateFn ⟨tbl, cfg, recOps⟩ inp ⟨⟨p, il, 42, en, ca, lsh, cq, ltt⟩, .lexer ⟨ls, tps, ct, some (.comment r), cattr, fd⟩, x⟩
      = (⟨⟨p + 1, il, 46, false, ca, lsh, cq, ltt⟩, .lexer ⟨ls, tps, ct, some (.comment r), cattr, fd⟩, x⟩, none) := by
  cprelude 42 exp42
  ceval

theorem step42_other (hb : inp[p]? = some b) (h1 : ¬b = 45) (h2 : ¬b = 60) :
    stateFn ⟨tbl, cfg, recOps⟩ inp ⟨⟨p, il, 42, en, ca, lsh, cq, ltt⟩, .lexer ⟨ls, tps, ct, some (.comment r), cattr, fd⟩, x⟩
      = (⟨⟨p + 1, il, 42, en, ca, lsh, cq, ltt⟩, .lexer ⟨ls, tps, ct, some (.comment ⟨tps, p⟩), cattr, fd⟩, x⟩, none) := by
  cprelude 42 exp42
  ceval

/-! ### comment start dash -/

theorem step43_dash (hb : inp[p]? = some 45) :
    stateFn ⟨tbl, cfg, recOps⟩ inp ⟨⟨p, il, 43, en, ca, lsh, cq, ltt⟩, .lexer ⟨ls, tps, ct, cnt, cattr, fd⟩, x⟩
      = (⟨⟨p + 1, il, 45, false, ca, lsh, cq, ltt⟩, .lexer ⟨ls, tps, ct, cnt, cattr, fd⟩, x⟩, none) := by
  cprelude 43 exp43
  ceval

theorem step43_gt (hb : inp[p]? = some 62) :
    stateFn ⟨tbl, cfg, recOps⟩ inp ⟨⟨p, il, 43, en, ca, lsh, cq, ltt⟩, .lexer ⟨ls, tps, ct, cnt, cattr, fd⟩, x⟩
      = (⟨⟨p + 1, il, 2, false, ca, lsh, cq, ltt⟩, .lexer ⟨p + 1, tps, ct, none, cattr, fd⟩,
          { x with sink := x.sink ++ [.nonTag ⟨x.prevConsumed, ⟨ls, p + 1⟩, cnt⟩] }⟩, none) := by
  cprelude 43 exp43
  ceval

theorem step43_other (hb : inp[p]? = some b) (h1 : ¬b = 45) (h2 : ¬b = 62) :
    stateFn ⟨tbl, cfg, recOps⟩ inp ⟨⟨p, il, 43, en, ca, lsh, cq, ltt⟩, .lexer ⟨ls, tps, ct, cnt, cattr, fd⟩, x⟩
      = (⟨⟨p, il, 42, false, ca, lsh, cq, ltt⟩, .lexer ⟨ls, tps, ct, cnt, cattr, fd⟩, x⟩, none) := by
  cprelude 43 exp43
  ceval

/-! ### comment end dash -/

theorem step44_dash (hb : inp[p]? = some 45) :
    stateFn ⟨tbl, cfg, recOps⟩ inp ⟨⟨p, il, 44, en, ca, lsh, cq, ltt⟩, .lexer ⟨ls, tps, ct, cnt, cattr, fd⟩, x⟩
      = (⟨⟨p + 1, il, 45, false, ca, lsh, cq, ltt⟩, .lexer ⟨ls, tps, ct, cnt, cattr, fd⟩, x⟩, none) := by
  cprelude 44 exp44
  ceval

theorem step44_other (hb : inp[p]? = some b) (h1 : ¬b = 45) :
    stateFn ⟨tbl, cfg, recOps⟩ inp ⟨⟨p, il, 44, en, ca, lsh, cq, ltt⟩, .lexer ⟨ls, tps, ct, cnt, cattr, fd⟩, x⟩
      = (⟨⟨p, il, 42, false, ca, lsh, cq, ltt⟩, .lexer ⟨ls, tps, ct, cnt, cattr, fd⟩, x⟩, none) := by
  cprelude 44 exp44
  ceval

/-! ### comment end -/

theorem step45_gt (hb : inp[p]? = some 62) :
    stateFn ⟨tbl, cfg, recOps⟩ inp ⟨⟨p, il, 45, en, ca, lsh, cq, ltt⟩, .lexer ⟨ls, tps, ct, cnt, cattr, fd⟩, x⟩
      = (⟨⟨p + 1, il, 2, false, ca, lsh, cq, ltt⟩, .lexer ⟨p + 1, tps, ct, none, cattr, fd⟩,
          { x with sink := x.sink ++ [.nonTag ⟨x.prevConsumed, ⟨ls, p + 1⟩, cnt⟩] }⟩, none) := by
  cprelude 45 exp45
  ceval

theorem step45_bang (hb : inp[p]? = some 33) :
    stateFn ⟨tbl, cfg, recOps⟩ inp ⟨⟨p, il, 45, en, ca, lsh, cq, ltt⟩, .lexer ⟨ls, tps, ct, cnt, cattr, fd⟩, x⟩
      = (⟨⟨p + 1, il, 50, false, ca, lsh, cq, ltt⟩, .lexer ⟨ls, tps, ct, cnt, cattr, fd⟩, x⟩, none) := by
  cprelude 45 exp45
  ceval

theorem step45_dash (hb : inp[p]? = some 45) :
    stateFn ⟨tbl, cfg, recOps⟩ inp ⟨⟨p, il, 45, en, ca, lsh, cq, ltt⟩, .lexer ⟨ls, tps, ct, some (.comment r), cattr, fd⟩, x⟩
      = (⟨⟨p + 1, il, 45, en, ca, lsh, cq, ltt⟩, .lexer ⟨ls, tps, ct, some (.comment ⟨r.start, r.end + 1⟩), cattr, fd⟩, x⟩, none) := by
  cprelude 45 exp45
  ceval

theorem step45_other (hb : inp[p]? = some b) (h1 : ¬b = 62) (h2 : ¬b = 33) (h3 : ¬b = 45) :
    stateFn ⟨tbl, cfg, recOps⟩ inp ⟨⟨p, il, 45, en, ca, lsh, cq, ltt⟩, .lexer ⟨ls, tps, ct, some (.comment r), cattr, fd⟩, x⟩
      = (⟨⟨p, il, 42, false, ca, lsh, cq, ltt⟩, .lexer ⟨ls, tps, ct, some (.comment ⟨r.start, r.end + 2⟩), cattr, fd⟩, x⟩, none) := by
  cprelude 45 exp45
  ceval

/-! ### comment less-than sign (…bang, …bang dash, …bang dash dash) -/

theorem step46_bang (hb : inp[p]? = some 33) :
    stateFn ⟨tbl, cfg, recOps⟩ inp ⟨⟨p, il, 46, en, ca, lsh, cq, ltt⟩, .lexer ⟨ls, tps, ct, some (.comment r), cattr, fd⟩, x⟩
      = (⟨⟨p + 1, il, 47, false, ca, lsh, cq, ltt⟩, .lexer ⟨ls, tps, ct, some (.comment ⟨tps, p⟩), cattr, fd⟩, x⟩, none) := by
  cprelude 46 exp46
  ceval

theorem step46_lt (hb : inp[p]? = some 60) :
    stateFn ⟨tbl, cfg, recOps⟩ inp ⟨⟨p, il, 46, en, ca, lsh, cq, ltt⟩, .lexer ⟨ls, tps, ct, some (.comment r), cattr, fd⟩, x⟩
      = (⟨⟨p + 1, il, 46, en, ca, lsh, cq, ltt⟩, .lexer ⟨ls, tps, ct, some (.comment ⟨tps, p⟩), cattr, fd⟩, x⟩, none) := by
  cprelude 46 exp46
  ceval

theorem step46_other (hb : inp[p]? = some b) (h1 : ¬b = 33) (h2 : ¬b = 60) :
    stateFn ⟨tbl, cfg, recOps⟩ inp ⟨⟨p, il, 46, en, ca, lsh, cq, ltt⟩, .lexer ⟨ls, tps, ct, some (.comment r), cattr, fd⟩, x⟩
      = (⟨⟨p, il, 42, false, ca, lsh, cq, ltt⟩, .lexer ⟨ls, tps, ct, some (.comment ⟨tps, p⟩), cattr, fd⟩, x⟩, none) := by
  cprelude 46 exp46
  ceval

theorem step47_dash (hb : inp[p]? = some 45) :
    stateFn ⟨tbl, cfg, recOps⟩ inp ⟨⟨p, il, 47, en, ca, lsh, cq, ltt⟩, .lexer ⟨ls, tps, ct, some (.comment r), cattr, fd⟩, x⟩
      = (⟨⟨p + 1, il, 48, false, ca, lsh, cq, ltt⟩, .lexer ⟨ls, tps, ct, some (.comment ⟨tps, p⟩), cattr, fd⟩, x⟩, none) := by
  cprelude 47 exp47
  ceval

theorem step47_other (hb : inp[p]? = some b) (h1 : ¬b = 45) :
    stateFn ⟨tbl, cfg, recOps⟩ inp ⟨⟨p, il, 47, en, ca, lsh, cq, ltt⟩, .lexer ⟨ls, tps, ct, some (.comment r), cattr, fd⟩, x⟩
      = (⟨⟨p, il, 42, false, ca, lsh, cq, ltt⟩, .lexer ⟨ls, tps, ct, some (.comment ⟨tps, p⟩), cattr, fd⟩, x⟩, none) := by
  cprelude 47 exp47
  ceval

theorem step48_dash (hb : inp[p]? = some 45) :
    stateFn ⟨tbl, cfg, recOps⟩ inp ⟨⟨p, il, 48, en, ca, lsh, cq, ltt⟩, .lexer ⟨ls, tps, ct, cnt, cattr, fd⟩, x⟩
      = (⟨⟨p + 1, il, 49, false, ca, lsh, cq, ltt⟩, .lexer ⟨ls, tps, ct, cnt, cattr, fd⟩, x⟩, none) := by
  cprelude 48 exp48
  ceval

theorem step48_other (hb : inp[p]? = some b) (h1 : ¬b = 45) :
    stateFn ⟨tbl, cfg, recOps⟩ inp ⟨⟨p, il, 48, en, ca, lsh, cq, ltt⟩, .lexer ⟨ls, tps, ct, cnt, cattr, fd⟩, x⟩
      = (⟨⟨p, il, 44, false, ca, lsh, cq, ltt⟩, .lexer ⟨ls, tps, ct, cnt, cattr, fd⟩, x⟩, none) := by
  cprelude 48 exp48
  ceval

theorem step49_any (hb : inp[p]? = some b) :
    stateFn ⟨tbl, cfg, recOps⟩ inp ⟨⟨p, il, 49, en, ca, lsh, cq, ltt⟩, .lexer ⟨ls, tps, ct, cnt, cattr, fd⟩, x⟩
      = (⟨⟨p, il, 45, false, ca, lsh, cq, ltt⟩, .lexer ⟨ls, tps, ct, cnt, cattr, fd⟩, x⟩, none) := by
  cprelude 49 exp49
  ceval

/-! ### comment end bang -/

theorem step50_dash (hb : inp[p]? = some 45) :
    stateFn ⟨tbl, cfg, recOps⟩ inp ⟨⟨p, il, 50, en, ca, lsh, cq, ltt⟩, .lexer ⟨ls, tps, ct, some (.comment r), cattr, fd⟩, x⟩
      = (⟨⟨p + 1, il, 44, false, ca, lsh, cq, ltt⟩, .lexer ⟨ls, tps, ct, some (.comment ⟨r.start, r.end + 3⟩), cattr, fd⟩, x⟩, none) := by
  cprelude 50 exp50
  ceval

theorem step50_gt (hb : inp[p]? = some 62) :
    stateFn ⟨tbl, cfg, recOps⟩ inp ⟨⟨p, il, 50, en, ca, lsh, cq, ltt⟩, .lexer ⟨ls, tps, ct, cnt, cattr, fd⟩, x⟩
      = (⟨⟨p + 1, il, 2, false, ca, lsh, cq, ltt⟩, .lexer ⟨p + 1, tps, ct, none, cattr, fd⟩,
          { x with sink := x.sink ++ [.nonTag ⟨x.prevConsumed, ⟨ls, p + 1⟩, cnt⟩] }⟩, none) := by
  cprelude 50 exp50
  ceval

theorem step50_other (hb : inp[p]? = some b) (h1 : ¬b = 45) (h2 : ¬b = 62) :
    stateFn ⟨tbl, cfg, recOps⟩ inp ⟨⟨p, il, 50, en, ca, lsh, cq, ltt⟩, .lexer ⟨ls, tps, ct, some (.comment r), cattr, fd⟩, x⟩
      = (⟨⟨p, il, 42, false, ca, lsh, cq, ltt⟩, .lexer ⟨ls, tps, ct, some (.comment ⟨r.start, r.end + 3⟩), cattr, fd⟩, x⟩, none) := by
  cprelude 50 exp50
  ceval

end
end LolHtml.Model.CommentStates
