import LolHtml.Lemmas.TbT4
import LolHtml.Lemmas.TbBody0
import LolHtml.Lemmas.TbLoop2
/-!
A `frameset` start tag met with the frameset-ok flag off outside the modes before the body is ignored and its
reprocess chain stays outside those modes (`stepMode_fsT`); the token loop with templates (`loop_postT`).
-/
namespace LolHtml.Spec.TreeBuilder
open LolHtml.Model (Ns)

variable {c : Cfg} {s : State}

/-- a `frameset` start tag with the frameset-ok flag off, outside the modes before the body: it is ignored,
and a reprocess stays outside those modes -/
def FsPost : Res → Prop
  | .done _ _ => True
  | .reprocess s' _ => s'.mode ∉ preBody ∧ s'.mode ≠ .text
  | .impossible _ => True

set_option maxHeartbeats 4000000 in
theorem stepMode_fsT {b : Bool} (hI : TInv b s) (hpre : s.mode ∉ preBody) (h1 : s.mode ≠ .text) (sc : Bool) (a : Attrs) :
    FsPost (stepMode c s (.start .frameset sc a)) := by
  have hmf := hI.modes
  unfold stepMode
  cases hmode : s.mode <;> simp only
  case initial => exact absurd hpre (by simp [hmode, preBody])
  case beforeHtml => exact absurd hpre (by simp [hmode, preBody])
  case beforeHead => exact absurd hpre (by simp [hmode, preBody])
  case inHead => exact absurd hpre (by simp [hmode, preBody])
  case inHeadNoscript => exact absurd hpre (by simp [hmode, preBody])
  case afterHead => exact absurd hpre (by simp [hmode, preBody])
  case text => exact absurd hmode h1
  case inSelect => exact absurd hmode hmf.1.1
  case inSelectInTable => exact absurd hmode hmf.1.2.1
  case inTableText =>
    simp only [inTableText, Res.again, FsPost]
    rw [(flushPending_mode s).2]
    rcases hmf.2.1 hmode with e | e | e <;> simp [e, preBody]
  all_goals
    (eval_rule [inBody, inBodyStart, inTable, inTableAnythingElse, inCaption, tableSectionStartNames, inColumnGroup,
      inTableBody, inRow, inCell, inTemplate, headStartNames, afterBody, afterAfterBody, inFrameset, afterFrameset,
      afterAfterFrameset]
     (repeat' split)
     all_goals first | trivial | (simp [FsPost, preBody]; done))

variable {b : Bool}

theorem useHtmlRules_of_tinv (hI : TInv b s) (t : Token) : useHtmlRules s t = true := by
  unfold useHtmlRules
  cases hst : s.tree.stack with
  | nil => simp [State.stack, hst]
  | cons e es =>
    have : e.ns = .html := (hI.tree.stack e (by simp [hst])).1
    simp [State.stack, hst, this]

theorem frameset_of_tinv (hI : TInv b s) (hb : b = false) : isFramesetMode s.mode = false := by
  have := hI.modes.1.2.2 hb
  simp only [framesetModes, List.mem_cons, List.mem_nil_iff, or_false, not_or] at this
  cases hm : s.mode <;> simp_all [isFramesetMode]

/-- the tokens of the loop: HTML namespace; a `frameset` start tag either may act (`b`) or is met with the
frameset-ok flag off outside the modes before the body -/
def TokL (b : Bool) (s : State) (t : Token) : Prop :=
  TokH t ∧ ∀ sc a, t = .start .frameset sc a → b = true ∨ (s.framesetOk = false ∧ s.mode ∉ preBody)

/-- what processing token `t` from state `s` (with `fuel` reprocess steps) yields -/
structure LoopPostT (c : Cfg) (b : Bool) (t : Token) (s : State) (fuel : Nat) (o : Out) : Prop where
  inv : TInv b o.st
  ns : NsOk c s → NsOk c o.st
  possible : o.impossible = false
  swOther : (∀ n sc a, t ≠ .start n sc a) → o.sw = .none
  swStart : ∀ n sc a, t = .start n sc a → o.sw = .none ∨ o.sw = switchOf c n
  swAct : ∀ n sc a, t = .start n sc a → switchOf c n ≠ .none → (b = false ∨ n = .noframes) → ColOk s → rank s.mode ≤ fuel →
    o.sw = switchOf c n ∧ o.outOfFuel = false
  text : o.st.mode = .text ↔ (o.sw.isRaw = true ∨ (s.mode = .text ∧ ∃ cc, t = .char cc))
  fo : s.framesetOk = false → o.st.framesetOk = false

/-- the loop from a state that is not in "text" -/
theorem loop_postT (hleg : c.legacySelect = false) (t : Token) (f : Bool) :
    ∀ (fuel : Nat) (s : State), TInv b s → NsOk c s → s.mode ≠ .text → TokL b s t →
      LoopPostT c b t s fuel (loop c t f fuel s false) := by
  intro fuel
  induction fuel with
  | zero =>
    intro s hI hns h1 _
    refine ⟨hI, fun h => h, rfl, fun _ => rfl, fun _ _ _ _ => Or.inl rfl, ?_, ?_, fun h => h⟩
    · intro n sc a _ _ _ _ hr
      have := rank_pos s.mode
      omega
    · simp [loop, Switch.isRaw, h1]
  | succ fuel ih =>
    intro s hI hns h1 htok
    have hI' := stepMode_tinv (c := c) hleg hI t htok.1
      (fun sc a h => by
        rcases htok.2 sc a h with hb | ⟨h1', h2'⟩
        · exact Or.inl hb
        · exact Or.inr ⟨h1', fun hm => h2' (by simp [hm, preBody])⟩)
      (fun h => (h1 h).elim)
    have hS := stepMode_swT (c := c) hI hns h1 t
    have hF := stepMode_fo (c := c) (s := s) ⟨hI.modes.1.1, hI.modes.1.2.1⟩ t
    have hstep : stepOnce c s t false = stepMode c s t := by
      simp [stepOnce, useHtmlRules_of_tinv hI t]
    simp only [loop, hstep]
    cases hr : stepMode c s t with
    | done s' sw =>
      rw [hr] at hI' hS hF
      obtain ⟨hs0, hs1, hs2⟩ := hS
      refine ⟨hI', hs0, rfl, ?_, ?_, ?_, ?_, hF⟩
      · intro hne
        cases t with
        | start n sc a => exact (hne n sc a rfl).elim
        | _ => exact hs1
      · intro n sc a ht; subst ht; exact hs1.1
      · intro n sc a ht hsw hb hcol _
        subst ht
        refine ⟨hs1.2 ?_ hcol, rfl⟩
        rcases hb with hb | hb
        · exact Or.inl (frameset_of_tinv hI hb)
        · exact Or.inr hb
      · simp only [hs2, h1, false_and, or_false]
    | reprocess s' h =>
      rw [hr] at hI' hS hF
      obtain ⟨hG', hh⟩ := hI'
      obtain ⟨hs0, hs1, hs2⟩ := hS
      subst hh
      have htok' : TokL b s' t := by
        refine ⟨htok.1, fun sc a ht => ?_⟩
        rcases htok.2 sc a ht with hb | ⟨hfo, hpre⟩
        · exact Or.inl hb
        · subst ht
          have := stepMode_fsT (c := c) hI hpre h1 sc a
          rw [hr] at this
          exact Or.inr ⟨hF hfo, this.1⟩
      have := ih s' hG' (hs0 hns) hs1 htok'
      refine ⟨this.inv, fun h => this.ns (hs0 h), this.possible, this.swOther, this.swStart, ?_, ?_, fun h => this.fo (hF h)⟩
      · intro n sc a ht hsw hb _ hr
        subst ht
        obtain ⟨hlt, hnc⟩ := hs2 hsw
        exact this.swAct n sc a rfl hsw hb (fun h => absurd h hnc) (by omega)
      · rw [this.text]
        simp [hs1, h1]
    | impossible s' =>
      rw [hr] at hI'
      exact hI'.elim

theorem step_eq_loopT (hdev : c.dev.doctypeEarly = false) (hI : TInv b s) (t : Token) :
    step c s t = loop c t false (fuelFor s) s false := by
  simp [step, hdev, useHtmlRules_of_tinv hI t]

theorem rank_le_fuel (s : State) : rank s.mode ≤ fuelFor s := by
  have : rank s.mode ≤ 7 := by cases s.mode <;> simp [rank]
  unfold fuelFor; omega

/-- one token from any state with the invariant, "text" included -/
theorem step_postT (hleg : c.legacySelect = false) (hdev : c.dev.doctypeEarly = false) (hI : TInv b s) (hns : NsOk c s)
    (t : Token) (htok : TokL b s t) (htext : s.mode = .text → TextTok t) :
    LoopPostT c b t s (fuelFor s) (step c s t) := by
  rw [step_eq_loopT hdev hI t]
  by_cases h1 : s.mode = .text
  · have ho : s.origMode ≠ .text := (hI.modes.2.2 h1).1
    have hstep : stepOnce c s t false = text c s t := by
      simp [stepOnce, useHtmlRules_of_tinv hI t, stepMode, h1]
    have hpost := text_tinv (c := c) hI h1 t (by have := htext h1; cases t <;> simp_all [TextTok])
    have hns' : NsOk c s → NsOk c { s.pop with mode := s.origMode } := fun h hs => ⟨(h hs).2, (h hs).2⟩
    have ht := htext h1
    have hfuel : fuelFor s = (s.tmodes.length + 15) + 1 := by unfold fuelFor; omega
    rw [hfuel]
    cases t with
    | char cc =>
      simp only [loop, hstep, text, Res.ok]
      refine ⟨hI, fun h => h, rfl, fun _ => rfl, fun n sc a h => (by cases h), fun n sc a h => (by cases h), ?_, fun h => h⟩
      simp [h1, Switch.isRaw]
    | «end» n =>
      simp only [loop, hstep, text, Res.ok]
      simp only [text, Res.ok] at hpost
      refine ⟨hpost, hns', rfl, fun _ => rfl, fun n sc a h => (by cases h), fun n sc a h => (by cases h), ?_, fun h => h⟩
      simp [ho, Switch.isRaw]
    | eof =>
      simp only [text, Res.again] at hpost
      have hl := loop_postT (c := c) (b := b) hleg .eof false (s.tmodes.length + 15) { s.pop with mode := s.origMode }
        hpost.1 (hns' hns) ho ⟨trivial, fun sc a h => by cases h⟩
      have : loop c Token.eof false (s.tmodes.length + 15 + 1) s false =
          loop c Token.eof false (s.tmodes.length + 15) { s.pop with mode := s.origMode } false := by
        simp [loop, hstep, text, Res.again]
      rw [this]
      refine ⟨hl.inv, fun h => hl.ns (hns' h), hl.possible, hl.swOther, hl.swStart, fun n sc a h => (by cases h), ?_,
        fun h => hl.fo h⟩
      rw [hl.text]
      simp [ho]
    | start n sc a => exact ht.elim
    | comment => exact ht.elim
    | doctype d => exact ht.elim
  · exact loop_postT hleg t false (fuelFor s) s hI hns h1 htok

end LolHtml.Spec.TreeBuilder
