import LolHtml.Ref.Resolve
/-!
Soundness of the Boolean table comparison of `LolHtml.Ref.Resolve`: `tablesAgree g r = true` implies
that *every* state name resolves alike in both tables for *every* closing-quote register value,
last-chunk flag and input class, although `defAgrees` only evaluates 256 + 2 + 2 of the 1028
combinations per state.
-/
namespace LolHtml.Ref
open LolHtml.Model

theorem ResolvedArm.eq_of_eqb {x y : ResolvedArm} (h : x.eqb y = true) : x = y := by
  cases x; cases y
  simp only [ResolvedArm.eqb, Bool.and_eq_true, beq_iff_eq] at h
  obtain ⟨⟨⟨⟨h1, h2⟩, h3⟩, h4⟩, h5⟩ := h
  subst h1 h2 h3 h4 h5
  rfl

/-- a byte other than `"` and `'` cannot match `closing_quote`, whatever the register holds -/
theorem matchesByte_quote (t : Table) (x : UInt8) (h34 : x ≠ 34) (h39 : x ≠ 39) (p : Pat) :
    matchesByte t 39 x p = matchesByte t 34 x p := by
  cases p <;> simp only [matchesByte]
  have a : (x == 39) = false := by simpa using h39
  have b : (x == 34) = false := by simpa using h34
  rw [a, b]

theorem findByteArm_quote (t : Table) (x : UInt8) (h34 : x ≠ 34) (h39 : x ≠ 39) (arms : List Arm) :
    findByteArm t 39 x arms = findByteArm t 34 x arms := by
  induction arms with
  | nil => rfl
  | cons a rest ih => simp only [findByteArm, matchesByte_quote t x h34 h39, ih]

theorem resolveSome_quote (t : Table) (sd : StateDef) (x : UInt8) (h34 : x ≠ 34) (h39 : x ≠ 39) :
    resolveSome t sd 39 x = resolveSome t sd 34 x := by
  simp only [resolveSome, findByteArm_quote t x h34 h39]

theorem mem_allBytes (x : UInt8) : x ∈ allBytes := by
  unfold allBytes
  refine List.mem_map.2 ⟨x.toNat, ?_, ?_⟩
  · exact List.mem_range.2 x.toNat_lt
  · exact UInt8.ofNat_toNat

theorem defAgrees_sound {g r : Table} {sg sr : StateDef} (h : defAgrees g r sg sr = true)
    (q l : Bool) (c : Option UInt8) : resolveDef g sg q l c = resolveDef r sr q l c := by
  simp only [defAgrees, Bool.and_eq_true, List.all_eq_true] at h
  obtain ⟨⟨hb, hq⟩, hn⟩ := h
  cases c with
  | none =>
    simp only [resolveDef]
    exact ResolvedArm.eq_of_eqb (hn l (by cases l <;> simp [bools]))
  | some x =>
    simp only [resolveDef]
    cases q with
    | true => exact ResolvedArm.eq_of_eqb (hb x (mem_allBytes x))
    | false =>
      simp only [quoteOf, Bool.false_eq_true, if_false]
      by_cases h34 : x = 34
      · subst h34; exact ResolvedArm.eq_of_eqb (hq 34 (by simp))
      · by_cases h39 : x = 39
        · subst h39; exact ResolvedArm.eq_of_eqb (hq 39 (by simp))
        · rw [resolveSome_quote g sg x h34 h39, resolveSome_quote r sr x h34 h39]
          exact ResolvedArm.eq_of_eqb (hb x (mem_allBytes x))

theorem stateAgrees_sound {g r : Table} {name : String} (h : stateAgrees g r name = true)
    (q l : Bool) (c : Option UInt8) : resolveByName g name q l c = resolveByName r name q l c := by
  unfold stateAgrees at h
  unfold resolveByName
  split at h
  · next sg sr hg hr => rw [hg, hr]; exact defAgrees_sound h q l c
  · exact absurd h (by simp)

theorem findState_isSome_of_mem {name : String} {sds : List StateDef} (h : name ∈ sds.map (·.name)) :
    (findState name sds).isSome = true := by
  induction sds with
  | nil => simp at h
  | cons sd rest ih =>
    unfold findState
    by_cases hn : sd.name = name
    · simp [hn]
    · have : (sd.name == name) = false := by simp [hn]
      rw [this]
      simp only [Bool.false_eq_true, if_false]
      apply ih
      simp only [List.map_cons, List.mem_cons] at h
      rcases h with h | h
      · exact absurd h.symm hn
      · exact h

theorem mem_of_findState_eq_some {name : String} {sds : List StateDef} {sd : StateDef}
    (h : findState name sds = some sd) : name ∈ sds.map (·.name) := by
  induction sds with
  | nil => simp [findState] at h
  | cons sd' rest ih =>
    unfold findState at h
    by_cases hn : sd'.name = name
    · simp [hn]
    · have : (sd'.name == name) = false := by simp [hn]
      rw [this] at h
      simp only [Bool.false_eq_true, if_false] at h
      simp only [List.map_cons, List.mem_cons]
      exact Or.inr (ih h)

/-- The Boolean comparison is sound for **every** state name (a name unknown to both tables resolves
to `noState` in both), every register setting and every input class. -/
theorem tablesAgree_sound {g r : Table} (h : tablesAgree g r = true)
    (name : String) (q l : Bool) (c : Option UInt8) :
    resolveByName g name q l c = resolveByName r name q l c := by
  simp only [tablesAgree, Bool.and_eq_true, List.all_eq_true] at h
  obtain ⟨⟨hg, hr⟩, _⟩ := h
  by_cases hm : name ∈ namesOf g
  · exact stateAgrees_sound (hg name hm) q l c
  · -- unknown in `g`, hence unknown in `r`
    have h1 : findState name g.states = none := by
      cases hf : findState name g.states with
      | none => rfl
      | some sd => exact absurd (mem_of_findState_eq_some hf) hm
    have h2 : findState name r.states = none := by
      cases hf : findState name r.states with
      | none => rfl
      | some sd =>
        have := hr name (mem_of_findState_eq_some hf)
        exact absurd (by simpa using this) hm
    simp only [resolveByName, h1, h2]

theorem tablesAgree_dyn {g r : Table} (h : tablesAgree g r = true) :
    textStateNames g = textStateNames r := by
  simp only [tablesAgree, Bool.and_eq_true, beq_iff_eq] at h
  exact h.2

/-- splitting a `List.all` at `n` -/
theorem all_split {α : Type} (p : α → Bool) (n : Nat) (l : List α)
    (h1 : (l.take n).all p = true) (h2 : (l.drop n).all p = true) : l.all p = true := by
  rw [← List.take_append_drop n l, List.all_append, h1, h2]; rfl

/-- assembling `(namesOf g).all (stateAgrees g r)` from chunk checks -/
theorem statesAgree_step {g r : Table} (start len : Nat)
    (h1 : statesAgreeFrom g r start len = true)
    (h2 : ((namesOf g).drop (start + len)).all (stateAgrees g r) = true) :
    ((namesOf g).drop start).all (stateAgrees g r) = true := by
  apply all_split _ len _ h1
  rw [List.drop_drop]
  exact h2

theorem statesAgree_done {g r : Table} (start : Nat) (h : g.states.length ≤ start) :
    ((namesOf g).drop start).all (stateAgrees g r) = true := by
  have : (namesOf g).drop start = [] := by
    apply List.drop_eq_nil_of_le
    simpa [namesOf] using h
  rw [this]; rfl

end LolHtml.Ref

namespace LolHtml.Ref
open LolHtml.Model

/-- names occurring more than once (Bool-checker witness for `namesDistinct`) -/
def dupNames : List String → List String
  | [] => []
  | x :: xs => (if xs.contains x then [x] else []) ++ dupNames xs

/-- side-condition on a table: state names are pairwise distinct -/
def namesDistinct (t : Table) : Bool := (dupNames (namesOf t)).isEmpty

theorem findState_of_getElem? {sds : List StateDef} (hd : dupNames (sds.map (·.name)) = [])
    {s : Nat} {sd : StateDef} (hs : sds[s]? = some sd) : findState sd.name sds = some sd := by
  induction sds generalizing s with
  | nil => simp at hs
  | cons sd' rest ih =>
    simp only [List.map_cons, dupNames, List.append_eq_nil_iff] at hd
    cases s with
    | zero =>
      simp only [List.getElem?_cons_zero, Option.some.injEq] at hs
      subst hs
      simp [findState]
    | succ s =>
      simp only [List.getElem?_cons_succ] at hs
      have hmem : sd.name ∈ rest.map (·.name) :=
        List.mem_map.2 ⟨sd, List.mem_of_getElem? hs, rfl⟩
      have hne : sd'.name ≠ sd.name := by
        intro h
        have h1 := hd.1
        rw [h] at h1
        have : (rest.map (·.name)).contains sd.name = true := by simpa using hmem
        rw [this] at h1
        simp at h1
      unfold findState
      have : (sd'.name == sd.name) = false := by simp [hne]
      rw [this]
      simp only [Bool.false_eq_true, if_false]
      exact ih hd.2 hs

/-- with distinct names, resolving by state number is resolving by the name of that state -/
theorem resolve_eq_resolveByName {t : Table} (hd : namesDistinct t = true) {s : StateId} {sd : StateDef}
    (hs : t.states[s]? = some sd) (q l : Bool) (c : Option UInt8) :
    resolve t s q l c = resolveByName t sd.name q l c := by
  have hd' : dupNames (t.states.map (·.name)) = [] := by
    simpa [namesDistinct, namesOf] using hd
  simp only [resolve, resolveByName, hs, findState_of_getElem? hd' hs]

end LolHtml.Ref
