/-
The start-tag event of the refinement: `handle_start_tag` (VM match handler → `start_matching`,
push) followed by the one-shot start-tag token (`ContentHandlersDispatcher::handle_start_tag`).
-/
import LolHtml.Lemmas.ScopeStep

namespace LolHtml.Lemmas.Scope
open LolHtml.Model.Handlers LolHtml.Model.Controller LolHtml.Spec.Scope

theorem setTopDesc_snoc (st : List StackItem) (it : StackItem) (desc : ElementDescriptor) :
    setTopDesc (st ++ [it]) desc = st ++ [{ it with desc := desc }] := by
  simp [setTopDesc]

theorem setTopDesc_self (st : List StackItem) (top : StackItem) (h : st.getLast? = some top) :
    setTopDesc st top.desc = st := by
  simp only [setTopDesc, h]
  have : ({ top with desc := top.desc } : StackItem) = top := by cases top; rfl
  rw [this]
  have hne : st ≠ [] := by intro h0; simp [h0] at h
  have hl : st.getLast hne = top := by
    have := List.getLast?_eq_some_getLast hne
    rw [h] at this; exact (Option.some.inj this).symm
  rw [← hl]; exact List.dropLast_concat_getLast hne

/-- Write-back of an unchanged `current_element_data`. -/
theorem vm_writeback_self (st : List StackItem) :
    writeBack (some st) (st.getLast?.map (·.desc)) = some st := by
  cases h : st.getLast? with
  | none => rfl
  | some top => simp [writeBack, setTopDesc_self st top h]

theorem mkOpen_none (script : ElemScript) (sels : List SelReg) (name : Name) (matched : List Nat)
    (ord : Nat) (h : invokedOn sels matched = []) :
    (mkOpen script sels name matched ord).subs = [] ∧
    (mkOpen script sels name matched ord).removed = false := by
  simp [mkOpen, h, Dispatcher.endTagSubs]

theorem step_startTag (script : ElemScript) (sels : List SelReg) (docs : List DocReg)
    (sp : List OpenElem) (s : State) (ord : Nat) (name : Name) (dir : StackDirective)
    (sc : Bool) (matched : List Nat) (inv : Inv sels docs sp s)
    (hwf : ∀ m ∈ matched, m < sels.length) :
    ∃ s', step script s ord (.startTag name dir sc matched) =
        .ok (s', expected sels docs sp ord (.startTag name dir sc matched)) ∧
      Inv sels docs (openStep script sels sp ord (.startTag name dir sc matched)) s' := by
  obtain ⟨⟨d, vm⟩, flags⟩ := s
  have hvm := inv.vm
  have hEz : (mk (regItems sels.length (elementIds sels))).hasActive = false :=
    hasActive_zero _ (elem_items_zero sels)
  cases vm with
  | none =>
    simp only at hvm
    obtain ⟨hs, hE⟩ := hvm
    have hmn : matched = [] := by
      apply List.eq_nil_iff_forall_not_mem.2
      intro m hm
      have := hwf m hm
      simp [hs] at this
    have hinv : invokedOn sels matched = [] := by simp [invokedOn, elementIds, idsFrom, hs]
    have hel : d.element.hasActive = false := by rw [inv.element]; exact hEz
    simp only [step, Controller.handleStartTag, Dispatcher.getTokenCaptureFlags, hel,
      Bool.false_eq_true, if_false, expected, hinv, List.map_nil, openStep]
    apply ex_ok rfl
    obtain ⟨e1, e2⟩ := mkOpen_none script sels name matched ord hinv
    have em : (mkOpen script sels name matched ord).matched = [] := hmn
    cases withContentOf dir sc with
    | false =>
      exact { text := inv.text, comment := inv.comment, element := inv.element,
              doctype := inv.doctype, end_ := inv.end_, reg := inv.reg, removed := inv.removed,
              vm := ⟨hs, hE⟩, flags := by simp [Dispatcher.getTokenCaptureFlags, hel],
              wf := inv.wf, triv := inv.triv }
    | true =>
      have hoc : openCount (sp ++ [mkOpen script sels name matched ord]) = openCount sp := by
        funext h; simp [em]
      simp only [if_true]
      refine { text := ?_, comment := ?_, element := inv.element,
               doctype := inv.doctype, end_ := inv.end_, reg := inv.reg, removed := ?_,
               vm := ⟨hs, hE⟩, flags := by simp [Dispatcher.getTokenCaptureFlags, hel],
               wf := ?_, triv := ?_ }
      · rw [hoc]; exact inv.text
      · rw [hoc]; exact inv.comment
      · have := inv.removed
        simp only [List.countP_append, List.countP_cons, List.countP_nil, e2] at this ⊢
        simpa using this
      · intro e he m hm
        rcases List.mem_append.1 he with he | he
        · exact inv.wf e he m hm
        · simp at he; subst he; rw [em] at hm; simp at hm
      · intro h e he
        rcases List.mem_append.1 he with he | he
        · exact inv.triv h e he
        · simp at he; subst he; exact ⟨e1, e2⟩
  | some st =>
    simp only at hvm
    obtain ⟨hne, items, hE, hrel⟩ := hvm
    have hitz : ∀ it ∈ items, it.userCount = 0 := hrel.counts_zero
    have hstart := startMatchingAll_spec d sels.length
      (addBy id (openCount sp) (regItems sels.length (textIds sels docs)))
      (addBy id (openCount sp) (regItems sels.length (commentIds sels docs)))
      (regItems sels.length (elementIds sels)) matched (withContentOf dir sc) hwf
      inv.text inv.comment inv.element (by simpa using inv.reg)
    -- the element handlers that will run
    have hinvoked := active_elems sels matched
    cases hact : (mk (addBy id (fun h => matched.count h)
        (regItems sels.length (elementIds sels)))).hasActive with
    | false =>
      have hz := (hasActive_false_iff _).1 hact
      have hX : addBy id (fun h => matched.count h) (regItems sels.length (elementIds sels)) =
          regItems sels.length (elementIds sels) := by
        rw [← zero_map_self _ hz, zero_map_addBy, zero_map_self _ (elem_items_zero sels)]
      have hinv : invokedOn sels matched = [] := by
        rw [← hinvoked, hX]
        have : (regItems sels.length (elementIds sels)).filter
            (fun it => decide (0 < it.userCount)) = [] := by
          rw [List.filter_eq_nil_iff]
          intro it hit
          simp [elem_items_zero sels it hit]
        simp [this]
      obtain ⟨e1, e2⟩ := mkOpen_none script sels name matched ord hinv
      simp only [step, Controller.handleStartTag, hstart, Dispatcher.getTokenCaptureFlags, hact,
        Bool.false_eq_true, if_false, expected, hinv, List.map_nil, openStep]
      apply ex_ok rfl
      cases hwc : withContentOf dir sc with
      | false =>
        simp only [Bool.false_eq_true, if_false]
        exact { text := rfl, comment := rfl, element := by rw [hX],
                doctype := inv.doctype, end_ := inv.end_, reg := inv.reg, removed := inv.removed,
                vm := ⟨hne, items, hE, hrel⟩,
                flags := by simp [Dispatcher.getTokenCaptureFlags, hact],
                wf := inv.wf, triv := fun h => absurd h hne }
      | true =>
        simp only [if_true]
        refine { text := ?_, comment := ?_, element := by rw [hX],
                 doctype := inv.doctype, end_ := inv.end_, reg := inv.reg, removed := ?_,
                 vm := ⟨hne, items, hE, ?_⟩,
                 flags := by simp [Dispatcher.getTokenCaptureFlags, hact],
                 wf := ?_, triv := fun h => absurd h hne }
        · simp only [addBy_addBy]
          congr 2; funext h; simp [mkOpen]
        · simp only [addBy_addBy]
          congr 2; funext h; simp [mkOpen]
        · have := inv.removed
          simp only [List.countP_append, List.countP_cons, List.countP_nil, e2] at this ⊢
          simpa using this
        · exact hrel.snoc_skip _ _ ⟨rfl, rfl, rfl, by simp [ElementDescriptor.new, e2]⟩ rfl e1
        · intro e he m hm
          rcases List.mem_append.1 he with he | he
          · exact inv.wf e he m hm
          · simp at he; subst he; exact hwf m hm
    | true =>
      have hmne : matched ≠ [] := by
        intro h
        subst h
        have : addBy id (fun h => ([] : List Nat).count h) (regItems sels.length (elementIds sels)) =
            regItems sels.length (elementIds sels) := by
          simp [addBy_zero]
        rw [this, hEz] at hact
        cases hact
      have hdeact := deactivate_mk
        (addBy id (fun h => matched.count h) (regItems sels.length (elementIds sels)))
      rw [hinvoked, zero_map_addBy, zero_map_self _ (elem_items_zero sels)] at hdeact
      cases hwc : withContentOf dir sc with
      | false =>
        rw [hwc] at hstart
        simp only [step, Controller.handleStartTag, hstart, Dispatcher.getTokenCaptureFlags, hact,
          if_true, Dispatcher.handleStartTag, hdeact, hmne, if_false, Bool.false_eq_true,
          Controller.currentElementData, vm_writeback_self, expected, openStep, hwc]
        apply ex_ok rfl
        exact { text := rfl, comment := rfl, element := rfl,
                doctype := inv.doctype, end_ := inv.end_, reg := inv.reg, removed := inv.removed,
                vm := ⟨hne, items, hE, hrel⟩,
                flags := by simp [Dispatcher.getTokenCaptureFlags, hEz],
                wf := inv.wf, triv := fun h => absurd h hne }
      | true =>
        rw [hwc] at hstart
        have hpush : (mk items).push
            (⟨ord, Dispatcher.endTagSubs script ord (invokedOn sels matched)⟩ : EndTagH) false =
            (mk (items ++
              [(⟨⟨ord, Dispatcher.endTagSubs script ord (invokedOn sels matched)⟩, 0⟩ : Item EndTagH)]),
             some ⟨items.length⟩) := by
          simpa using push_mk items
            (⟨ord, Dispatcher.endTagSubs script ord (invokedOn sels matched)⟩ : EndTagH) false
        have hx0 : (mk (items ++
            [(⟨⟨ord, Dispatcher.endTagSubs script ord (invokedOn sels matched)⟩, 0⟩ : Item EndTagH)])).hasActive
            = false := by
          apply hasActive_zero
          intro it hit
          rcases List.mem_append.1 hit with h | h
          · exact hitz it h
          · simp at h; subst h; rfl
        have hwf' : ∀ e ∈ sp ++ [mkOpen script sels name matched ord], ∀ m ∈ e.matched,
            m < sels.length := by
          intro e he m hm
          rcases List.mem_append.1 he with he | he
          · exact inv.wf e he m hm
          · simp at he; subst he; exact hwf m hm
        have htext : mk (addBy id (fun h => matched.count h)
              (addBy id (openCount sp) (regItems sels.length (textIds sels docs)))) =
            mk (addBy id (openCount (sp ++ [mkOpen script sels name matched ord]))
              (regItems sels.length (textIds sels docs))) := by
          simp only [addBy_addBy]
          congr 2; funext h; simp [mkOpen]
        have hcomm : mk (addBy id (fun h => matched.count h)
              (addBy id (openCount sp) (regItems sels.length (commentIds sels docs)))) =
            mk (addBy id (openCount (sp ++ [mkOpen script sels name matched ord]))
              (regItems sels.length (commentIds sels docs))) := by
          simp only [addBy_addBy]
          congr 2; funext h; simp [mkOpen]
        have hrm : ∀ b : Bool, (mkOpen script sels name matched ord).removed = b →
            (if b = true then d.removedContent + 1 else d.removedContent) =
              (sp ++ [mkOpen script sels name matched ord]).countP (·.removed) := by
          intro b hb
          have := inv.removed
          simp only at this
          simp only [List.countP_append, List.countP_cons, List.countP_nil, hb, this]
          cases b <;> simp
        cases hsr : (invokedOn sels matched).any (fun h => (script h ord).removeContent) with
        | false =>
          have er : (mkOpen script sels name matched ord).removed = false := hsr
          cases hh : ((invokedOn sels matched).any (fun h => (script h ord).endTagMutation) ||
              !(Dispatcher.endTagSubs script ord (invokedOn sels matched)).isEmpty) with
          | false =>
            have es : (mkOpen script sels name matched ord).subs = [] := by
              have : (Dispatcher.endTagSubs script ord (invokedOn sels matched)).isEmpty = true := by
                cases h1 : (Dispatcher.endTagSubs script ord (invokedOn sels matched)).isEmpty
                · rw [h1] at hh; simp at hh
                · rfl
              exact List.isEmpty_iff.1 this
            simp only [step, Controller.handleStartTag, hstart, Dispatcher.getTokenCaptureFlags,
              hact, if_true, Dispatcher.handleStartTag, hdeact, hmne, if_false, hE,
              Controller.currentElementData, expected, openStep, hwc, List.getLast?_concat,
              Option.map_some, hsr, hh, Bool.false_eq_true, writeBack, setTopDesc_snoc]
            apply ex_ok rfl
            exact { text := htext, comment := hcomm, element := rfl,
                    doctype := inv.doctype, end_ := inv.end_, reg := inv.reg,
                    removed := by simpa using hrm false er,
                    vm := ⟨hne, items, rfl,
                      hrel.snoc_skip _ _ ⟨rfl, rfl, rfl, by simp [ElementDescriptor.new, er]⟩
                        rfl es⟩,
                    flags := by simp [Dispatcher.getTokenCaptureFlags, hEz],
                    wf := hwf', triv := fun h => absurd h hne }
          | true =>
            simp only [step, Controller.handleStartTag, hstart, Dispatcher.getTokenCaptureFlags,
              hact, if_true, Dispatcher.handleStartTag, hdeact, hmne, if_false, hE, hpush,
              Controller.currentElementData, expected, openStep, hwc, List.getLast?_concat,
              Option.map_some, hsr, hh, Bool.false_eq_true, writeBack, setTopDesc_snoc]
            apply ex_ok rfl
            exact { text := htext, comment := hcomm, element := rfl,
                    doctype := inv.doctype, end_ := inv.end_, reg := inv.reg,
                    removed := by simpa using hrm false er,
                    vm := ⟨hne, _, rfl,
                      hrel.snoc_take _ (mkOpen script sels name matched ord)
                        ⟨rfl, rfl, rfl, by simp [ElementDescriptor.new, er]⟩ (by simp)⟩,
                    flags := by
                      simp [Dispatcher.getTokenCaptureFlags, hEz, hasActive_zero items hitz, hx0],
                    wf := hwf', triv := fun h => absurd h hne }
        | true =>
          have er : (mkOpen script sels name matched ord).removed = true := hsr
          cases hh : ((invokedOn sels matched).any (fun h => (script h ord).endTagMutation) ||
              !(Dispatcher.endTagSubs script ord (invokedOn sels matched)).isEmpty) with
          | false =>
            have es : (mkOpen script sels name matched ord).subs = [] := by
              have : (Dispatcher.endTagSubs script ord (invokedOn sels matched)).isEmpty = true := by
                cases h1 : (Dispatcher.endTagSubs script ord (invokedOn sels matched)).isEmpty
                · rw [h1] at hh; simp at hh
                · rfl
              exact List.isEmpty_iff.1 this
            simp only [step, Controller.handleStartTag, hstart, Dispatcher.getTokenCaptureFlags,
              hact, if_true, Dispatcher.handleStartTag, hdeact, hmne, if_false, hE,
              Controller.currentElementData, expected, openStep, hwc, List.getLast?_concat,
              Option.map_some, hsr, hh, Bool.false_eq_true, writeBack, setTopDesc_snoc]
            apply ex_ok rfl
            exact { text := htext, comment := hcomm, element := rfl,
                    doctype := inv.doctype, end_ := inv.end_, reg := inv.reg,
                    removed := by simpa using hrm true er,
                    vm := ⟨hne, items, rfl,
                      hrel.snoc_skip _ _ ⟨rfl, rfl, rfl, by simp [er]⟩
                        rfl es⟩,
                    flags := by simp [Dispatcher.getTokenCaptureFlags, hEz],
                    wf := hwf', triv := fun h => absurd h hne }
          | true =>
            simp only [step, Controller.handleStartTag, hstart, Dispatcher.getTokenCaptureFlags,
              hact, if_true, Dispatcher.handleStartTag, hdeact, hmne, if_false, hE, hpush,
              Controller.currentElementData, expected, openStep, hwc, List.getLast?_concat,
              Option.map_some, hsr, hh, Bool.false_eq_true, writeBack, setTopDesc_snoc]
            apply ex_ok rfl
            exact { text := htext, comment := hcomm, element := rfl,
                    doctype := inv.doctype, end_ := inv.end_, reg := inv.reg,
                    removed := by simpa using hrm true er,
                    vm := ⟨hne, _, rfl,
                      hrel.snoc_take _ (mkOpen script sels name matched ord)
                        ⟨rfl, rfl, rfl, by simp [er]⟩ (by simp)⟩,
                    flags := by
                      simp [Dispatcher.getTokenCaptureFlags, hEz, hasActive_zero items hitz, hx0],
                    wf := hwf', triv := fun h => absurd h hne }

end LolHtml.Lemmas.Scope
