import LolHtml.Lemmas.ChunkStreamR
import LolHtml.Lemmas.ChunkMain
/-!
Any chunking against the single `write`, for the CHECKED rewriter and controllers that may remove content.
-/
namespace LolHtml.Model.Chunk.R
open LolHtml LolHtml.Model LolHtml.Model.Chunk LolHtml.Thm

section
variable {γ : Type} {w : World γ} {E : γ → γ → Prop} {fs : FlagMap}

/-- `HtmlRewriter::write` over the checked stream -/
def _root_.LolHtml.Model.Rewriter.writeG (w : World γ) (r : Rewriter γ) (data : Bytes) : Rewriter γ × CallRes :=
  if r.poisoned then (r, .panicUseAfterError)
  else
    let res := r.stream.writeG w data
    match res.2 with
    | .ok () => ({ r with stream := res.1 }, .ok)
    | .error e => ({ r with stream := res.1, poisoned := true }, .err e)

def _root_.LolHtml.Model.Rewriter.endG (w : World γ) (r : Rewriter γ) : Rewriter γ × CallRes :=
  if r.poisoned then (r, .panicUseAfterError)
  else
    let res := r.stream.endG w
    match res.2 with
    | .ok () => ({ r with stream := res.1, ended := true }, .ok)
    | .error e => ({ r with stream := res.1, poisoned := true, ended := true }, .err e)

def writeAllG (w : World γ) : Rewriter γ → List Bytes → Rewriter γ × List CallRes
  | r, [] => (r, [])
  | r, c :: cs =>
    let r1 := r.writeG w c
    let rest := writeAllG w r1.1 cs
    (rest.1, r1.2 :: rest.2)

/-- `write* ; end` of the checked rewriter -/
def runG (w : World γ) (r : Rewriter γ) (chunks : List Bytes) : Rewriter γ × List CallRes :=
  let r1 := writeAllG w r chunks
  let r2 := r1.1.endG w
  (r2.1, r1.2 ++ [r2.2])

theorem write_res (R : Rewriter γ) (hp : R.poisoned = false) (c : Bytes) :
    (R.writeG w c).2 = callRes (R.stream.writeG w c).2 ∧
    ((R.stream.writeG w c).2 = .ok () → (R.writeG w c).1 = { R with stream := (R.stream.writeG w c).1 }) ∧
    (∀ e, (R.stream.writeG w c).2 = .error e → (R.writeG w c).1.poisoned = true) := by
  unfold Rewriter.writeG
  rw [hp]
  simp only [Bool.false_eq_true, if_false]
  cases h : (R.stream.writeG w c).2 with
  | ok u => cases u; exact ⟨rfl, fun _ => rfl, (fun e he => by cases he)⟩
  | error e => exact ⟨rfl, (fun he => by cases he), fun _ _ => rfl⟩

theorem end_res (R : Rewriter γ) (hp : R.poisoned = false) :
    (R.endG w).2 = callRes (R.stream.endG w).2 ∧ (R.endG w).1.stream = (R.stream.endG w).1 := by
  unfold Rewriter.endG
  rw [hp]
  simp only [Bool.false_eq_true, if_false]
  cases h : (R.stream.endG w).2 with
  | ok u => cases u; exact ⟨rfl, rfl⟩
  | error e => exact ⟨rfl, rfl⟩

theorem run_cons (R : Rewriter γ) (c : Bytes) (cs : List Bytes) :
    runG w R (c :: cs) = ((runG w (R.writeG w c).1 cs).1, (R.writeG w c).2 :: (runG w (R.writeG w c).1 cs).2) := by
  simp [runG, writeAllG]

theorem run_nil (R : Rewriter γ) : runG w R [] = ((R.endG w).1, [(R.endG w).2]) := by
  simp [runG, writeAllG]

/-- the whole run's `write`, given the result of its parse: an error -/
theorem whole_err (W0 : Stream γ) (hW0 : W0.pending = []) (inpW : Bytes) (RW : Rewriter γ) (hRW : RW.stream = W0)
    (hp : RW.poisoned = false) {pwF : Parser (Disp γ)} {e : Err}
    (hpr : PRunsM (guardEnv w) inpW false W0.parser (W0.parser.machine false) pwF (.error e)) :
    UncleanL (runG w RW [inpW]).2 ∨ outcome (runG w RW [inpW]).2 = .err e := by
  obtain ⟨r1, _, _⟩ := write_res (w := w) RW hp inpW
  rw [run_cons, r1, hRW]
  rcases write_cases (w := w) W0 inpW with hun | ⟨ps', rs, hpr', hcase⟩
  · exact Or.inl (uncleanL_of_unclean hun List.mem_cons_self)
  rw [hW0, List.nil_append] at hpr' hcase
  obtain ⟨_, e2⟩ := hpr'.det hpr
  subst e2
  rcases hcase with ⟨e', he', hres⟩ | ⟨c0, hc0, _⟩
  · cases he'
    right
    rw [hres]
    rfl
  · cases hc0

/-- the whole run's `write`, given the result of its parse: success -/
theorem whole_ok (W0 : Stream γ) (hW0 : W0.pending = []) (inpW : Bytes) {pwF : Parser (Disp γ)} {c' : Nat}
    (hpr : PRunsM (guardEnv w) inpW false W0.parser (W0.parser.machine false) pwF (.ok c'))
 :
    Unclean (W0.writeG w inpW).2 ∨
    ∃ dw', flushC pwF.x.sink inpW c' = .ok dw' ∧ (W0.writeG w inpW).2 = .ok () ∧
      (W0.writeG w inpW).1.pending = inpW.drop c' ∧ (W0.writeG w inpW).1.parser = Parser.setSink pwF dw' := by
  rcases write_cases (w := w) W0 inpW with hun | ⟨ps', rs, hpr', hcase⟩
  · exact Or.inl hun
  rw [hW0, List.nil_append] at hpr' hcase
  obtain ⟨e1, e2⟩ := hpr'.det hpr
  subst e1 e2
  rcases hcase with ⟨e', he', _⟩ | ⟨c0, hc0, hrest⟩
  · cases he'
  · cases hc0
    exact hrest

/-- **Any chunking against the single `write`.** `R`: the split rewriter after the chunks `written`; the whole
rewriter `RW` is fresh (nothing buffered); its parse starts from `W0.parser`. -/
theorem split_vs_whole (hcl : TextBlindR w.ctl E) (hwf : WfChunkWith w.tbl fs = true) (W0 : Stream γ) (hW0 : W0.pending = [])
    (inpW : Bytes) (RW : Rewriter γ) (hRW : RW.stream = W0) (hpW : RW.poisoned = false) :
    ∀ (cs : List Bytes) (c : Bytes) (R : Rewriter γ) (written : Bytes), R.poisoned = false →
      Inv w E fs inpW W0.parser (W0.parser.machine false) R.stream written → inpW = written ++ (c :: cs).flatten →
      UncleanL (runG w R (c :: cs)).2 ∨ UncleanL (runG w RW [inpW]).2 ∨
        Agree E (runG w R (c :: cs)) (runG w RW [inpW]) := by
  intro cs
  induction cs with
  | nil =>
    intro c R written hp hinv hdoc
    have hdoc' : inpW = written ++ c := by rw [hdoc]; simp
    obtain ⟨r1, r2, r3⟩ := write_res (w := w) R hp c
    rcases write_last hcl hwf hinv hdoc' with hun | ⟨pwF, rwF, hprF, hcase⟩
    · left
      rw [run_cons, r1]
      exact uncleanL_of_unclean hun List.mem_cons_self
    rcases hcase with ⟨e, he, hres⟩ | ⟨c', d', mid, he, hok, _, hdrop, hmid, hle, hprel, hK, hr, hloc⟩
    · subst he
      rcases whole_err W0 hW0 inpW RW hRW hpW hprF with hun | hout
      · exact Or.inr (Or.inl hun)
      · refine Or.inr (Or.inr ⟨?_, fun h => ?_⟩)
        · rw [hout, run_cons, r1, hres]; rfl
        · rw [run_cons, r1, hres] at h; cases h
    · subst he
      obtain ⟨w1, w2, w3⟩ := write_res (w := w) RW hpW inpW
      rw [hRW] at w1 w2 w3
      rcases whole_ok W0 hW0 inpW hprF with hun | ⟨dw', hfl, hokW, hpendW, hparsW⟩
      · right; left
        rw [run_cons, w1]
        exact uncleanL_of_unclean hun List.mem_cons_self
      obtain ⟨hKf, _, _, _⟩ := DK.flushW hK hr rfl hfl
      have hdispW : (W0.writeG w inpW).1.disp = dw' := by
        show (W0.writeG w inpW).1.parser.x.sink = dw'
        rw [hparsW]; rfl
      have hes := end_sim hcl hwf (X := inpW) (S := (R.stream.writeG w c).1) (W := (W0.writeG w inpW).1) (mid := mid)
        (by rw [hpendW, hdrop]) hmid
        (by rw [hparsW, setSink_machine]; exact hprel.setSinkW dw')
        (by rw [hpendW, hdispW]; exact hKf) hr hloc
      -- the two runs, spelled out
      have hR1 := r2 hok
      have hW1 := w2 hokW
      have hp1 : (R.writeG w c).1.poisoned = false := by rw [hR1]; exact hp
      have hpW1 : (RW.writeG w inpW).1.poisoned = false := by rw [hW1]; exact hpW
      obtain ⟨s1, s2⟩ := end_res (w := w) (R.writeG w c).1 hp1
      obtain ⟨t1, t2⟩ := end_res (w := w) (RW.writeG w inpW).1 hpW1
      have hs1 : ((R.writeG w c).1.stream) = (R.stream.writeG w c).1 := by rw [hR1]
      have ht1 : ((RW.writeG w inpW).1.stream) = (W0.writeG w inpW).1 := by rw [hW1]
      rw [hs1] at s1 s2
      rw [ht1] at t1 t2
      rw [run_cons, run_nil, r1, hok, run_cons (w := w) RW, run_nil, w1, hokW, s1, t1]
      rcases hes with hun | hun | ⟨heq, hbytes⟩
      · left; exact uncleanL_of_unclean hun (List.mem_cons_of_mem _ List.mem_cons_self)
      · right; left; exact uncleanL_of_unclean hun (List.mem_cons_of_mem _ List.mem_cons_self)
      · right; right
        refine ⟨?_, fun h => ?_⟩
        · show outcome [callRes _] = outcome [callRes _]
          rw [heq]
        · have h' : outcome [callRes ((R.stream.writeG w c).1.endG w).2] = .ok := h
          rw [outcome_single] at h'
          have := hbytes (callRes_ok h')
          show sinkBytes (Rewriter.sink (Rewriter.endG w (R.writeG w c).1).1) = sinkBytes (Rewriter.sink (Rewriter.endG w (RW.writeG w inpW).1).1) ∧ _
          unfold Rewriter.sink
          rw [s2, t2]
          exact ⟨this.1.symm, this.2⟩
  | cons c2 cs' ih =>
    intro c R written hp hinv hdoc
    have hdoc' : inpW = written ++ c ++ (c2 :: cs').flatten := by rw [hdoc]; simp
    obtain ⟨r1, r2, r3⟩ := write_res (w := w) R hp c
    rcases write_open hcl hwf hinv hdoc' with hun | ⟨hok, hinv'⟩ | ⟨e, pw', hres, hprW⟩
    · left
      rw [run_cons, r1]
      exact uncleanL_of_unclean hun List.mem_cons_self
    · have hR1 := r2 hok
      have := ih c2 (R.writeG w c).1 (written ++ c) (by rw [hR1]; exact hp) (by rw [hR1]; exact hinv') hdoc'
      rw [run_cons, r1, hok]
      rcases this with ⟨r, hr, hr'⟩ | hun | hag
      · exact Or.inl ⟨r, List.mem_cons_of_mem _ hr, hr'⟩
      · exact Or.inr (Or.inl hun)
      · exact Or.inr (Or.inr hag)
    · rcases whole_err W0 hW0 inpW RW hRW hpW hprW with hun | hout
      · exact Or.inr (Or.inl hun)
      · refine Or.inr (Or.inr ⟨?_, fun h => ?_⟩)
        · rw [hout, run_cons, r1, hres]; rfl
        · rw [run_cons, r1, hres] at h; cases h

theorem writeAll_cons (R : Rewriter γ) (c : Bytes) (cs : List Bytes) :
    writeAllG w R (c :: cs) =
      ((writeAllG w (R.writeG w c).1 cs).1, (R.writeG w c).2 :: (writeAllG w (R.writeG w c).1 cs).2) := rfl

/-- **Successful writes against the single `write` of their concatenation** (no `end`): the sink has received
the same bytes. -/
theorem writes_vs_whole (hcl : TextBlindR w.ctl E) (hwf : WfChunkWith w.tbl fs = true) (W0 : Stream γ) (hW0 : W0.pending = [])
    (inpW : Bytes) (RW : Rewriter γ) (hRW : RW.stream = W0) (hpW : RW.poisoned = false) :
    ∀ (cs : List Bytes) (c : Bytes) (R : Rewriter γ) (written : Bytes), R.poisoned = false →
      Inv w E fs inpW W0.parser (W0.parser.machine false) R.stream written → inpW = written ++ (c :: cs).flatten →
      (∀ r ∈ (writeAllG w R (c :: cs)).2, r = .ok) →
      Unclean (W0.writeG w inpW).2 ∨
      ((RW.writeG w inpW).2 = .ok ∧ sinkBytes (writeAllG w R (c :: cs)).1.sink = sinkBytes (RW.writeG w inpW).1.sink ∧
        E (writeAllG w R (c :: cs)).1.stream.disp.ctl (RW.writeG w inpW).1.stream.disp.ctl) := by
  intro cs
  induction cs with
  | nil =>
    intro c R written hp hinv hdoc hall
    have hdoc' : inpW = written ++ c := by rw [hdoc]; simp
    obtain ⟨r1, r2, r3⟩ := write_res (w := w) R hp c
    have hok1 : (R.writeG w c).2 = .ok := hall _ (by rw [writeAll_cons]; exact List.mem_cons_self)
    rw [r1] at hok1
    have hokS := callRes_ok hok1
    rcases write_last hcl hwf hinv hdoc' with hun | ⟨pwF, rwF, hprF, hcase⟩
    · rcases hun with ⟨m, hm⟩ | hm <;> rw [hm] at hokS <;> cases hokS
    rcases hcase with ⟨e, he, hres⟩ | ⟨c', d', mid, he, hok, hd0, hdrop, hmid, hle, hprel, hK, hr, hloc⟩
    · rw [hres] at hokS; cases hokS
    subst he hd0
    obtain ⟨w1, w2, w3⟩ := write_res (w := w) RW hpW inpW
    rw [hRW] at w1 w2 w3
    rcases whole_ok W0 hW0 inpW hprF with hun | ⟨dw', hfl, hokW, hpendW, hparsW⟩
    · exact Or.inl hun
    obtain ⟨hKf, _, hrw, _⟩ := DK.flushW hK hr rfl hfl
    have hk0 := (DK_zero.1 hKf).2
    right
    have hW1 := w2 hokW
    have hR1 := r2 hok
    refine ⟨by rw [w1, hokW]; rfl, ?_, ?_⟩
    · show sinkBytes (R.writeG w c).1.stream.disp.sink = sinkBytes (RW.writeG w inpW).1.stream.disp.sink
      rw [hW1, hR1]
      have hdispW : (W0.writeG w inpW).1.disp = dw' := by
        show (W0.writeG w inpW).1.parser.x.sink = dw'
        rw [hparsW]; rfl
      show sinkBytes (R.stream.writeG w c).1.disp.sink = sinkBytes (W0.writeG w inpW).1.disp.sink
      rw [hdispW, hk0.bytes.bytes, hr, hrw, Nat.zero_add, slice_self]
      split <;> simp
    · show E (R.writeG w c).1.stream.disp.ctl (RW.writeG w inpW).1.stream.disp.ctl
      rw [hW1, hR1]
      have hdispW : (W0.writeG w inpW).1.disp = dw' := by
        show (W0.writeG w inpW).1.parser.x.sink = dw'
        rw [hparsW]; rfl
      show E (R.stream.writeG w c).1.disp.ctl (W0.writeG w inpW).1.disp.ctl
      rw [hdispW]
      exact hk0.ctl
  | cons c2 cs' ih =>
    intro c R written hp hinv hdoc hall
    have hdoc' : inpW = written ++ c ++ (c2 :: cs').flatten := by rw [hdoc]; simp
    obtain ⟨r1, r2, r3⟩ := write_res (w := w) R hp c
    have hok1 : (R.writeG w c).2 = .ok := hall _ (by rw [writeAll_cons]; exact List.mem_cons_self)
    rw [r1] at hok1
    have hokS := callRes_ok hok1
    rcases write_open hcl hwf hinv hdoc' with hun | ⟨hok, hinv'⟩ | ⟨e, pw', hres, hprW⟩
    · rcases hun with ⟨m, hm⟩ | hm <;> rw [hm] at hokS <;> cases hokS
    · have hR1 := r2 hok
      rw [writeAll_cons]
      exact ih c2 (R.writeG w c).1 (written ++ c) (by rw [hR1]; exact hp) (by rw [hR1]; exact hinv') hdoc'
        (fun r hr => hall r (by rw [writeAll_cons]; exact List.mem_cons_of_mem _ hr))
    · rw [hres] at hokS; cases hokS

/-- a fresh stream is related to itself -/
theorem inv_init (hwf : WfChunkWith w.tbl fs = true) (g : γ) (hg : E g g) (hse : w.ctl.shouldEmit g = true) (cfg : Settings) (inpW : Bytes) :
    Inv w E fs inpW (Stream.new w g cfg).parser ((Stream.new w g cfg).parser.machine false) (Stream.new w g cfg) [] := by
  refine ⟨0, 0, 0, _, _, [], rfl, rfl, fun _ _ h => h, PRelM.init hwf inpW _ _ _, ?_, rfl, fun h => absurd h (Nat.lt_irrefl 0)⟩
  rw [machine_x]
  refine DK_zero.2 ⟨fun _ => hse, hg, ⟨rfl, rfl, rfl, rfl, rfl, rfl⟩, ⟨rfl, rfl, rfl⟩, ⟨Nat.le_refl _, ?_⟩⟩
  show sinkBytes (Stream.new w g cfg).disp.sink = sinkBytes (Stream.new w g cfg).disp.sink ++
    (if true = true then LolHtml.slice inpW 0 (0 + 0) else [])
  simp only [if_true]
  rw [slice_self, List.append_nil]

/-- **Every chunking agrees with the single `write`.** -/
theorem chunking_vs_single (hcl : TextBlindR w.ctl E) (hwf : WfChunkWith w.tbl fs = true) (g : γ) (hg : E g g) (hse : w.ctl.shouldEmit g = true) (cfg : Settings)
    (cs : List Bytes) (hne : cs ≠ []) :
    UncleanL (runG w (C01.Rewriter.new w g cfg) cs).2 ∨
    UncleanL (runG w (C01.Rewriter.new w g cfg) [cs.flatten]).2 ∨
    Agree E (runG w (C01.Rewriter.new w g cfg) cs) (runG w (C01.Rewriter.new w g cfg) [cs.flatten]) := by
  cases cs with
  | nil => exact absurd rfl hne
  | cons c cs =>
    exact split_vs_whole hcl hwf (Stream.new w g cfg) rfl (c :: cs).flatten (C01.Rewriter.new w g cfg) rfl rfl cs c
      (C01.Rewriter.new w g cfg) [] rfl (inv_init hwf g hg hse cfg _) (by simp)

/-- **Successful writes against one write of the same bytes.** -/
theorem writes_vs_single (hcl : TextBlindR w.ctl E) (hwf : WfChunkWith w.tbl fs = true) (g : γ) (hg : E g g) (hse : w.ctl.shouldEmit g = true) (cfg : Settings)
    (cs : List Bytes) (hne : cs ≠ []) (hall : ∀ r ∈ (writeAllG w (C01.Rewriter.new w g cfg) cs).2, r = .ok) :
    Unclean ((Stream.new w g cfg).writeG w cs.flatten).2 ∨
    (((C01.Rewriter.new w g cfg).writeG w cs.flatten).2 = .ok ∧
      sinkBytes (writeAllG w (C01.Rewriter.new w g cfg) cs).1.sink =
        sinkBytes ((C01.Rewriter.new w g cfg).writeG w cs.flatten).1.sink ∧
      E (writeAllG w (C01.Rewriter.new w g cfg) cs).1.stream.disp.ctl
        ((C01.Rewriter.new w g cfg).writeG w cs.flatten).1.stream.disp.ctl) := by
  cases cs with
  | nil => exact absurd rfl hne
  | cons c cs =>
    exact writes_vs_whole hcl hwf (Stream.new w g cfg) rfl (c :: cs).flatten (C01.Rewriter.new w g cfg) rfl rfl cs c
      (C01.Rewriter.new w g cfg) [] rfl (inv_init hwf g hg hse cfg _) (by simp) hall

end

end LolHtml.Model.Chunk.R
