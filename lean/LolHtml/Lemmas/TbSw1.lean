import LolHtml.Lemmas.TbFrame
/-!
What a rule of `Spec.TreeBuilder` answers to the tokenizer (`SwPost`): the switch is `none` or the switch
of the start tag's name; outside the frameset modes (or for `noframes`) a rule that consumes a
text-switching start tag does switch; the new mode is "text" exactly when a raw-text switch was made;
a "reprocess" never leaves the parser in "text" and, for text-switching start tags, decreases `rank`.
-/
namespace LolHtml.Spec.TreeBuilder
open LolHtml.Model (Ns)

/-- bound on the reprocess chain of a text-switching start tag -/
def rank : Mode → Nat
  | .initial => 7 | .beforeHtml => 6 | .beforeHead => 5 | .inHeadNoscript => 5 | .inHead => 4 | .afterHead => 3
  | .inTableText => 3 | .inColumnGroup => 2 | .inTemplate => 2 | .afterBody => 2 | .afterAfterBody => 2 | _ => 1

def isFramesetMode : Mode → Bool
  | .inFrameset | .afterFrameset | .afterAfterFrameset => true
  | _ => false

def Switch.isRaw : Switch → Bool
  | .rcdata | .rawtext | .scriptData => true
  | _ => false

/-- with the scripting flag enabled "in head noscript" is not entered -/
def NsOk (c : Cfg) (s : State) : Prop := c.scripting = true → s.mode ≠ .inHeadNoscript ∧ s.origMode ≠ .inHeadNoscript

def SwPost (c : Cfg) (t : Token) (s : State) : Res → Prop
  | .done s' sw =>
      (NsOk c s → NsOk c s') ∧
      (match t with
        | .start n _ _ => (sw = .none ∨ sw = switchOf c n) ∧ ((isFramesetMode s.mode = false ∨ n = .noframes) → sw = switchOf c n)
        | _ => sw = .none) ∧
      (s'.mode = .text ↔ sw.isRaw = true)
  | .reprocess s' _ =>
      (NsOk c s → NsOk c s') ∧
      s'.mode ≠ .text ∧
      (match t with
        | .start n _ _ => switchOf c n ≠ .none → rank s'.mode < rank s.mode
        | _ => True)
  | .impossible _ => False

theorem resetSelect_ne_text (st : List El) : resetSelect st ≠ .text := by
  induction st with
  | nil => simp [resetSelect]
  | cons e es ih =>
    unfold resetSelect
    split
    · simp
    · split
      · simp
      · exact ih

theorem ite_ne {α : Sort _} {p : Prop} [Decidable p] {a b x : α} (ha : a ≠ x) (hb : b ≠ x) :
    (if p then a else b) ≠ x := by
  by_cases h : p
  · rw [if_pos h]; exact ha
  · rw [if_neg h]; exact hb

theorem resetLoop_ne_text (c : Cfg) (hn : Bool) (st : List El) : resetLoop c [] hn st ≠ .text := by
  induction st with
  | nil => simp [resetLoop]
  | cons e es ih =>
    unfold resetLoop
    simp only [List.headD_nil]
    repeat' apply ite_ne
    all_goals first
      | exact ih
      | exact resetSelect_ne_text _
      | (intro h; cases h)

theorem resetSelect_ne_noscript (st : List El) : resetSelect st ≠ .inHeadNoscript := by
  induction st with
  | nil => simp [resetSelect]
  | cons e es ih =>
    unfold resetSelect
    repeat' apply ite_ne
    all_goals first
      | exact ih
      | (intro h; cases h)

theorem resetLoop_ne_noscript (c : Cfg) (hn : Bool) (st : List El) : resetLoop c [] hn st ≠ .inHeadNoscript := by
  induction st with
  | nil => simp [resetLoop]
  | cons e es ih =>
    unfold resetLoop
    simp only [List.headD_nil]
    repeat' apply ite_ne
    all_goals first
      | exact ih
      | exact resetSelect_ne_noscript _
      | (intro h; cases h)

@[simp] theorem resetMode_mode_ne_noscript (c : Cfg) (s : State) (h : s.tmodes = []) :
    ((s.resetMode c).mode = .inHeadNoscript) = False := by
  simp only [State.resetMode, h, eq_iff_iff, iff_false]
  exact resetLoop_ne_noscript c _ _

@[simp] theorem resetMode_origMode (c : Cfg) (s : State) : (s.resetMode c).origMode = s.origMode := rfl

@[simp] theorem resetMode_mode_ne_text (c : Cfg) (s : State) (h : s.tmodes = []) : ((s.resetMode c).mode = .text) = False := by
  simp only [State.resetMode, h, eq_iff_iff, iff_false]
  exact resetLoop_ne_text c _ _

/-! ### evaluating the name tests of a rule for an unknown name (`Name.other k`) -/

def Name.isOther : Name → Bool | .other _ => true | _ => false

theorem other_isIn (k : Nat) (l : List Name) (h : l.all (fun x => !x.isOther) = true) : (Name.other k).isIn l = false := by
  induction l with
  | nil => rfl
  | cons x xs ih =>
    simp only [List.all_cons, Bool.and_eq_true, Bool.not_eq_true'] at h
    simp only [Name.isIn, List.contains_cons, Bool.or_eq_false_iff]
    refine ⟨?_, ih h.2⟩
    cases x <;> simp_all [Name.isOther]

theorem other_beq (k : Nat) (n : Name) (h : n.isOther = false) : (Name.other k == n) = false := by
  cases n <;> simp_all [Name.isOther]

end LolHtml.Spec.TreeBuilder
