import LolHtml.Lemmas.CtlSim
/-!
`ResumeAtEndTag` without `CtlClean`.

`Lemmas/ChunkResume.lean` shows that the assertions of the checked rewriter never fire for controllers that
never return a panic-class error in ANY state (`CtlClean`) — the hypothesis of pkg scan's `C06_relex_end_tag`
(through `dispOps_clean_guard`) and of pkg inv's `parse_post`. The real controller is not `CtlClean`, and
cannot be made so by a state invariant (`Full_ctlClean_unattainable`). Here the same conclusion is obtained
for every controller with `PanicLaws ctl D` — on a callback-closed set `D` of states the callbacks never
return `.panic guardSite`: until the rewriter is poisoned by a failing call, its run is, call by call, the run
of `cleanCtl ctl` (panic- and internal-class errors of the callbacks replaced by the handler error), which IS
`CtlClean`; `Lemmas/CtlSim.lean` transports

* "the guarded parse is the real parse" (`C06_relex_end_tag` for `cleanCtl ctl`): if the guarded parse of
  `ctl` returned `.panic guardSite`, then either it agrees with the guarded parse of `cleanCtl ctl`, which is
  its real parse, which never returns that error (`parse_post`), or a callback of `ctl` has failed with a
  panic — which is not `guardSite` on `D`;
* the watermark bound `remaining_content_start ≤ consumed ≤ len` after a successful parse (`parse_post` for
  `cleanCtl ctl`): a successful parse of `ctl` is the parse of `cleanCtl ctl`.

No statement of packages scan / inv is changed or generalised; `NoGuardPanic ctl` for ALL states is false for
the real controller (its `fault` field is an arbitrary string in states no run reaches), which is why the
invariant `D` is carried by the simulation instead.
-/
set_option linter.unusedSimpArgs false
set_option linter.unusedVariables false

namespace LolHtml.Model.Chunk.R
open LolHtml LolHtml.Model LolHtml.Model.Chunk LolHtml.Thm

variable {γ : Type}

/-! ### the cleaned controller -/

def cleanErr : Err → Err
  | .panic _ => .handler
  | .internal _ => .handler
  | e => e

theorem cleanErr_clean (e : Err) : (cleanErr e).Clean := by
  cases e <;> simp [cleanErr, Err.Clean]

/-- the controller whose callbacks report panic- and internal-class errors as handler errors -/
def cleanCtl (ctl : Controller γ) : Controller γ :=
  { initialFlags := ctl.initialFlags
    startTag := fun g n ns =>
      ((ctl.startTag g n ns).1, match (ctl.startTag g n ns).2 with | .err e => .err (cleanErr e) | x => x)
    auxInfo := fun g i =>
      ((ctl.auxInfo g i).1, match (ctl.auxInfo g i).2 with | .error e => .error (cleanErr e) | x => x)
    endTag := ctl.endTag
    token := fun g t => ((ctl.token g t).1, { (ctl.token g t).2 with err := (ctl.token g t).2.err.map cleanErr })
    shouldEmit := ctl.shouldEmit
    handleEnd := fun g => ((ctl.handleEnd g).1, (ctl.handleEnd g).2.1, (ctl.handleEnd g).2.2.map cleanErr)
    bailOut := ctl.bailOut }

theorem cleanCtl_clean (ctl : Controller γ) : CtlClean (cleanCtl ctl) where
  token := fun g t e h => by
    simp only [cleanCtl] at h
    cases he : (ctl.token g t).2.err with
    | none => rw [he] at h; cases h
    | some e' =>
      rw [he] at h
      simp only [Option.map_some, Option.some.injEq] at h
      subst h
      exact cleanErr_clean e'
  startTag := fun g n ns e h => by
    simp only [cleanCtl] at h
    split at h
    · simp only [StartTagRes.err.injEq] at h; subst h; exact cleanErr_clean _
    · rename_i hne
      exact absurd h (hne e)
  auxInfo := fun g i e h => by
    simp only [cleanCtl] at h
    split at h
    · simp only [Except.error.injEq] at h; subst h; exact cleanErr_clean _
    · rename_i hne
      exact absurd h (hne e)
  handleEnd := fun g e h => by
    simp only [cleanCtl] at h
    cases he : (ctl.handleEnd g).2.2 with
    | none => rw [he] at h; cases h
    | some e' =>
      rw [he] at h
      simp only [Option.map_some, Option.some.injEq] at h
      subst h
      exact cleanErr_clean e'

theorem cleanCtl_resumeLaws {ctl : Controller γ} (h : ResumeLaws ctl) : ResumeLaws (cleanCtl ctl) :=
  ⟨h.emit_start, h.emit_tok⟩

/-- an error a callback may return on `D`: not the guard's -/
def OkErr (e : Err) : Prop := e ≠ .panic guardSite

/-- **What the transport needs from the controller**: a set `D` of states closed under the callbacks, on
which the callbacks never return `.panic guardSite`. -/
structure PanicLaws (ctl : Controller γ) (D : γ → Prop) : Prop where
  startTag_D : ∀ g n ns, D g → D (ctl.startTag g n ns).1
  auxInfo_D : ∀ g i, D g → D (ctl.auxInfo g i).1
  endTag_D : ∀ g n, D g → D (ctl.endTag g n).1
  token_D : ∀ g t, D g → D (ctl.token g t).1
  handleEnd_D : ∀ g, D g → D (ctl.handleEnd g).1
  startTag_err : ∀ g n ns e, D g → (ctl.startTag g n ns).2 = .err e → OkErr e
  auxInfo_err : ∀ g i e, D g → (ctl.auxInfo g i).2 = .error e → OkErr e
  token_err : ∀ g t e, D g → (ctl.token g t).2.err = some e → OkErr e
  handleEnd_err : ∀ g e, D g → (ctl.handleEnd g).2.2 = some e → OkErr e

/-- a `CtlClean` controller has the laws on all states -/
theorem PanicLaws.of_clean {ctl : Controller γ} (hc : CtlClean ctl) : PanicLaws ctl (fun _ => True) := by
  have ok : ∀ e : Err, e.Clean → OkErr e := fun e he => fun hs => by subst hs; exact he
  exact ⟨fun _ _ _ _ => trivial, fun _ _ _ => trivial, fun _ _ _ => trivial, fun _ _ _ => trivial, fun _ _ => trivial,
    fun g n ns e _ h => ok e (hc.startTag g n ns e h), fun g i e _ h => ok e (hc.auxInfo g i e h),
    fun g t e _ h => ok e (hc.token g t e h), fun g e _ h => ok e (hc.handleEnd g e h)⟩

/-- the class of errors at which `ctl` and `cleanCtl ctl` part: a panic that is not the guard's, or an
`internal`-class error -/
def GP : Err → Prop := fun e => (∃ m, e = .panic m ∧ m ≠ guardSite) ∨ ∃ s, e = .internal s

theorem okErr_cases {e : Err} (h : OkErr e) : cleanErr e = e ∨ GP e := by
  cases e with
  | panic m => exact Or.inr (Or.inl ⟨m, rfl, fun hm => h (by rw [hm])⟩)
  | internal s => exact Or.inr (Or.inr ⟨s, rfl⟩)
  | _ => exact Or.inl rfl

/-- a parse that fails at such an error does not return the guard's error -/
theorem GP_parseErr {e : Err} (h : GP e) : RelE.parseErr e ≠ .panic guardSite := by
  rcases h with ⟨m, rfl, hne⟩ | ⟨s, rfl⟩
  · intro hh
    simp only [RelE.parseErr, Err.panic.injEq] at hh
    exact hne hh
  · intro hh; cases hh

/-- `ctl` is followed by `cleanCtl ctl` until a callback fails with a panic -/
theorem cleanCtl_sim {ctl : Controller γ} {D : γ → Prop} (h : PanicLaws ctl D) : CtlSim ctl (cleanCtl ctl) D GP where
  flags := fun _ _ => rfl
  emit := fun _ _ => rfl
  bailOut := rfl
  endTag := fun g n hd => ⟨rfl, h.endTag_D g n hd⟩
  startTag := fun g n ns hd => by
    cases hr : (ctl.startTag g n ns).2 with
    | err e =>
      rcases okErr_cases (h.startTag_err g n ns e hd hr) with hc | hg
      · left
        refine ⟨?_, h.startTag_D g n ns hd⟩
        show ctl.startTag g n ns = ((ctl.startTag g n ns).1, match (ctl.startTag g n ns).2 with | .err e => .err (cleanErr e) | x => x)
        rw [hr]
        simp only [hc]
        exact Prod.ext rfl hr
      · exact Or.inr ⟨e, hg, rfl⟩
    | flags f =>
      left
      refine ⟨?_, h.startTag_D g n ns hd⟩
      show ctl.startTag g n ns = ((ctl.startTag g n ns).1, match (ctl.startTag g n ns).2 with | .err e => .err (cleanErr e) | x => x)
      rw [hr]
      exact Prod.ext rfl hr
    | infoRequest =>
      left
      refine ⟨?_, h.startTag_D g n ns hd⟩
      show ctl.startTag g n ns = ((ctl.startTag g n ns).1, match (ctl.startTag g n ns).2 with | .err e => .err (cleanErr e) | x => x)
      rw [hr]
      exact Prod.ext rfl hr
  auxInfo := fun g i hd => by
    cases hr : (ctl.auxInfo g i).2 with
    | error e =>
      rcases okErr_cases (h.auxInfo_err g i e hd hr) with hc | hg
      · left
        refine ⟨?_, h.auxInfo_D g i hd⟩
        show ctl.auxInfo g i = ((ctl.auxInfo g i).1, match (ctl.auxInfo g i).2 with | .error e => .error (cleanErr e) | x => x)
        rw [hr]
        simp only [hc]
        exact Prod.ext rfl hr
      · exact Or.inr ⟨e, hg, rfl⟩
    | ok f =>
      left
      refine ⟨?_, h.auxInfo_D g i hd⟩
      show ctl.auxInfo g i = ((ctl.auxInfo g i).1, match (ctl.auxInfo g i).2 with | .error e => .error (cleanErr e) | x => x)
      rw [hr]
      exact Prod.ext rfl hr
  token := fun g t hd => by
    cases hr : (ctl.token g t).2.err with
    | none =>
      left
      refine ⟨?_, h.token_D g t hd⟩
      show ctl.token g t = ((ctl.token g t).1, { (ctl.token g t).2 with err := (ctl.token g t).2.err.map cleanErr })
      rw [hr]
      refine Prod.ext rfl ?_
      show (ctl.token g t).2 = { (ctl.token g t).2 with err := none }
      rw [← hr]
    | some e =>
      rcases okErr_cases (h.token_err g t e hd hr) with hc | hg
      · left
        refine ⟨?_, h.token_D g t hd⟩
        show ctl.token g t = ((ctl.token g t).1, { (ctl.token g t).2 with err := (ctl.token g t).2.err.map cleanErr })
        rw [hr]
        refine Prod.ext rfl ?_
        show (ctl.token g t).2 = { (ctl.token g t).2 with err := some (cleanErr e) }
        rw [hc, ← hr]
      · exact Or.inr ⟨e, hg, rfl⟩
  handleEnd := fun g hd => by
    cases hr : (ctl.handleEnd g).2.2 with
    | none =>
      left
      refine ⟨?_, h.handleEnd_D g hd⟩
      show ctl.handleEnd g = ((ctl.handleEnd g).1, (ctl.handleEnd g).2.1, (ctl.handleEnd g).2.2.map cleanErr)
      rw [hr]
      exact Prod.ext rfl (Prod.ext rfl hr)
    | some e =>
      rcases okErr_cases (h.handleEnd_err g e hd hr) with hc | hg
      · left
        refine ⟨?_, h.handleEnd_D g hd⟩
        show ctl.handleEnd g = ((ctl.handleEnd g).1, (ctl.handleEnd g).2.1, (ctl.handleEnd g).2.2.map cleanErr)
        rw [hr]
        simp only [Option.map_some, hc]
        exact Prod.ext rfl (Prod.ext rfl hr)
      · exact Or.inr ⟨e, hg, rfl⟩

/-! ### transport -/

section
variable {w : World γ} {D : γ → Prop}
variable {L : Labels} {TT : TLabels} {P : PLabels} {S : SLabels}

/-- the world with the cleaned controller -/
abbrev cleanWorld (w : World γ) : World γ := World.withCtl w (cleanCtl w.ctl)

/-- a guard in front of `handle_tag` either changes nothing or makes the parse return the guard's error -/
theorem guard_rel (ht : EmitsChecked w.tbl = true) (inp : Bytes) (last : Bool) (p : Parser (Disp γ)) :
    Parser.parse (guardEnv w) inp last p = Parser.parse w.env inp last p ∨
    (Parser.parse (guardEnv w) inp last p).2 = .error (.panic guardSite) := by
  have hops : OpsRel (guardOps w.ctl) (dispOps w.ctl) inp (fun a b : Disp γ => a = b) (.panic guardSite) := by
    refine ⟨fun lx k₁ k₂ hk => ?_, fun lx k₁ k₂ hk => ?_, fun n ns k₁ k₂ hk => ?_, fun n k₁ k₂ hk => ?_⟩
    · subst hk
      simp only [guardOps]
      split
      · exact Or.inr rfl
      · exact Or.inl ⟨rfl, rfl⟩
    · subst hk; exact Or.inl ⟨rfl, rfl⟩
    · subst hk; exact Or.inl ⟨rfl, rfl⟩
    · subst hk; exact Or.inl ⟨rfl, rfl⟩
  rcases Parser.parse_rel (tbl := w.tbl) (cfg := w.tags) (inp := inp) hops ht (by intro s hh; cases hh) last p p
    ⟨rfl, rfl, rfl, rfl, rfl, rfl, rfl, rfl⟩ with ⟨h1, h2⟩ | hab
  · exact Or.inl (Prod.ext (C06.PR_eq h1) h2)
  · exact Or.inr hab

variable (hside : RelexSide w.tbl L TT P S) (ht : EmitsChecked w.tbl = true) (hwf : WfTable w.tbl = true)
  (hl : ResumeLaws w.ctl) (hpl : PanicLaws w.ctl D)

/-- **One parse of `ctl`, from what is known about the parse of `cleanCtl ctl`**: the guard never fires, and
after a successful parse the watermark is valid. -/
theorem parse_facts (ht : EmitsChecked w.tbl = true) (hwf : WfTable w.tbl = true) (hpl : PanicLaws w.ctl D)
    (inp : Bytes) (last : Bool) (p : Parser (Disp γ)) (hd : D p.x.sink.ctl)
    (hp : PInv w.tbl inp.length (fun d : Disp γ => d.rcs) p)
    (hGC : Parser.parse (guardEnv (cleanWorld w)) inp last p = Parser.parse (cleanWorld w).env inp last p) :
    Parser.parse (guardEnv w) inp last p = Parser.parse w.env inp last p ∧
    ∀ consumed, (Parser.parse w.env inp last p).2 = .ok consumed →
      (Parser.parse w.env inp last p).1.x.sink.rcs ≤ consumed ∧ consumed ≤ inp.length := by
  have hw := WfTable.wf hwf
  have hsim := cleanCtl_sim hpl
  have hpost := parse_post (env := (cleanWorld w).env) (inp := inp) (dispOps_safe (cleanCtl_clean w.ctl)) hw last p hp
  unfold ParsePost at hpost
  constructor
  · rcases guard_rel ht inp last p with he | hab
    · exact he
    · exfalso
      rcases parseG_sim hsim ht inp last p hd with ⟨he, _⟩ | ⟨e, hGe, he⟩
      · rw [he, hGC] at hab
        rw [hab] at hpost
        simp only [ErrOK] at hpost
        revert hpost
        simp [U1, guardSite]
      · rw [hab] at he
        simp only [Except.error.injEq] at he
        exact GP_parseErr hGe he.symm
  · intro consumed hok
    rcases parse_sim hsim ht inp last p hd with ⟨he, _⟩ | ⟨e, _, he⟩
    · rw [← he, hok] at hpost
      exact ⟨hpost.1, hpost.2.1⟩
    · rw [hok] at he; cases he

include hpl ht in
/-- a prefix of writes has poisoned the rewriter, or is the run of the cleaned controller -/
theorem prefix_agree (g : γ) (hg : D g) (cfg : Settings) (pre : List Bytes) :
    (C01.writeAll w (C01.Rewriter.new w g cfg) pre).1.poisoned = true ∨
    (C01.writeAll w (C01.Rewriter.new w g cfg) pre =
      C01.writeAll (cleanWorld w) (C01.Rewriter.new (cleanWorld w) g cfg) pre ∧
    RD D (C01.writeAll w (C01.Rewriter.new w g cfg) pre).1) := by
  have hsim := cleanCtl_sim hpl
  rw [← new_eq hsim g hg cfg]
  rcases writeAll_sim hsim ht pre (C01.Rewriter.new w g cfg) (Or.inr hg) with hh | ⟨hp, _⟩
  · exact Or.inr hh
  · exact Or.inl hp

include hside ht hwf hl hpl in
/-- every call of the checked rewriter after a prefix of real writes is the real call -/
theorem step_eq' (g : γ) (hg : D g) (cfg : Settings) (pre : List Bytes) :
    (∀ data, (C01.writeAll w (C01.Rewriter.new w g cfg) pre).1.writeG w data =
      (C01.writeAll w (C01.Rewriter.new w g cfg) pre).1.write w data) ∧
    (C01.writeAll w (C01.Rewriter.new w g cfg) pre).1.endG w = (C01.writeAll w (C01.Rewriter.new w g cfg) pre).1.end w := by
  have hw := WfTable.wf hwf
  have hPA := prefix_agree ht hpl g hg cfg pre
  have hc2 := cleanCtl_clean w.ctl
  have hinv := (C15.writeAll_post (w := cleanWorld w) hc2 hw pre (C01.Rewriter.new (cleanWorld w) g cfg)
    (Or.inr (Stream.new_SInv (w := cleanWorld w) hw g cfg))).2
  have hrel := C06.C06_relex_end_tag (cleanWorld w) L TT P S hside ht (pendE (cleanCtl w.ctl)) (fun _ => True)
    (endLawsD (cleanCtl_resumeLaws hl) hc2) g cfg pre
  dsimp only at hrel
  generalize C01.writeAll (cleanWorld w) (C01.Rewriter.new (cleanWorld w) g cfg) pre = RC at hPA hinv hrel
  generalize C01.writeAll w (C01.Rewriter.new w g cfg) pre = R at hPA ⊢
  have facts : R.1.poisoned = false → R = RC ∧ SInv w R.1.stream ∧ D R.1.stream.disp.ctl := by
    intro hp
    rcases hPA with hh | ⟨hA, hRD⟩
    · rw [hp] at hh; cases hh
    · subst hA
      refine ⟨rfl, ?_, ?_⟩
      · rcases hinv with hh | hh
        · rw [hp] at hh; cases hh
        · exact hh
      · rcases hRD with hh | hh
        · rw [hp] at hh; cases hh
        · exact hh
  constructor
  · intro data
    apply rewriter_writeG_eq
    intro hp
    obtain ⟨hA, ⟨hrcs, hpinv⟩, hd⟩ := facts hp
    subst hA
    have hlen : (if R.1.stream.hasBuffered then R.1.stream.buf.data.length else 0) ≤ (R.1.stream.pending ++ data).length := by
      simp only [Stream.pending, List.length_append]
      split <;> omega
    obtain ⟨f1, f2⟩ := parse_facts ht hwf hpl (R.1.stream.pending ++ data) false R.1.stream.parser hd
      (PInv_mono hpinv hlen) ((hrel hp).1 data)
    exact stream_writeG_eq_core R.1.stream data f1 f2
  · apply rewriter_endG_eq
    intro hp
    obtain ⟨hA, ⟨hrcs, hpinv⟩, hd⟩ := facts hp
    subst hA
    have hp1 : PInv w.tbl R.1.stream.pending.length (fun d : Disp γ => d.rcs) R.1.stream.parser := by
      unfold Stream.pending
      split <;> rename_i hb <;> simpa [hb] using hpinv
    exact stream_endG_eq _ (parse_facts ht hwf hpl R.1.stream.pending true R.1.stream.parser hd hp1 (hrel hp).2).1

omit hside ht hwf hl hpl in
theorem writeAll_append (r : Rewriter γ) (pre cs : List Bytes) :
    C01.writeAll w r (pre ++ cs) =
      ((C01.writeAll w (C01.writeAll w r pre).1 cs).1,
       (C01.writeAll w r pre).2 ++ (C01.writeAll w (C01.writeAll w r pre).1 cs).2) := by
  induction pre generalizing r with
  | nil => rfl
  | cons p pre ih =>
    simp only [List.cons_append, C01.writeAll]
    rw [ih]

include hside ht hwf hl hpl in
/-- the writes of the checked rewriter are the real writes -/
theorem writeAllG_eq_from' (g : γ) (hg : D g) (cfg : Settings) (cs : List Bytes) :
    ∀ pre, writeAllG w (C01.writeAll w (C01.Rewriter.new w g cfg) pre).1 cs =
        C01.writeAll w (C01.writeAll w (C01.Rewriter.new w g cfg) pre).1 cs := by
  induction cs with
  | nil => intro pre; rfl
  | cons c cs ih =>
    intro pre
    simp only [writeAllG, C01.writeAll]
    rw [(step_eq' hside ht hwf hl hpl g hg cfg pre).1 c, ← writeAll_snoc, ih (pre ++ [c])]

include hside ht hwf hl hpl in
/-- **The checked rewriter is the real one**, on every chunking. -/
theorem writeAllG_eq' (g : γ) (hg : D g) (cfg : Settings) (cs : List Bytes) :
    writeAllG w (C01.Rewriter.new w g cfg) cs = C01.writeAll w (C01.Rewriter.new w g cfg) cs :=
  writeAllG_eq_from' hside ht hwf hl hpl g hg cfg cs []

include hside ht hwf hl hpl in
theorem runG_eq' (g : γ) (hg : D g) (cfg : Settings) (cs : List Bytes) :
    runG w (C01.Rewriter.new w g cfg) cs = C01.run w (C01.Rewriter.new w g cfg) cs := by
  unfold runG C01.run
  dsimp only
  rw [writeAllG_eq' hside ht hwf hl hpl g hg cfg cs, (step_eq' hside ht hwf hl hpl g hg cfg cs).2]

end

end LolHtml.Model.Chunk.R
