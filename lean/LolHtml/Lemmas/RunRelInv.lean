import LolHtml.Lemmas.LexOnlyE
/-!
# Until-first-error lifting for BOTH parser directives, with an invariant of the DISPATCHER state and a guard

`Lemmas/LexOnlyE.lean` lifts a per-operation comparison of two sinks through `parse` / `write` / `end` / whole runs
in pure lexer mode. `Lemmas/CtlSim.lean` does it for both directives, but with an invariant of the CONTROLLER
state only. Here: both directives (tag scanner and lexer, hints included), an invariant `Inv` of the whole
dispatcher state that has to hold again only after SUCCESSFUL operations, and a state-dependent guard `Gd` in front
of the first dispatcher (`guardS`), so that the per-operation comparison (`CtlRelI.ops`, in the form of
`RelE.OpsRelE`) is only needed for the lexemes the guard lets through. That the guard never fires is a separate,
run-level fact (`GuardFree`): package inv's `C15_args_valid_run` for the argument guard, package scan's re-lexing
agreement for the kind of the re-lexed tag.

`run_relI`: every call of the run over `w.ctl` answers like the same call of the run over `c2`, or with the
documented panic after an error, or with an error of the class `G`.
-/
set_option linter.unusedSimpArgs false
set_option linter.unusedVariables false
namespace LolHtml.Model.RelI
open LolHtml LolHtml.Model

variable {κ : Type}

/-- a guard that may look at the sink state -/
structure SGuard (κ : Type) where
  tag : Bytes → TagLexeme → κ → Option Err
  nonTag : Bytes → NonTagLexeme → κ → Option Err

def guardS (Gd : SGuard κ) (ops : SinkOps κ) : SinkOps κ :=
  { ops with
    handleTag := fun inp lx k => match Gd.tag inp lx k with | some e => (k, .error e) | none => ops.handleTag inp lx k
    handleNonTag := fun inp lx k => match Gd.nonTag inp lx k with | some e => (k, .error e) | none => ops.handleNonTag inp lx k }

/-- the same sink state, with the invariant -/
def IRel (Inv : κ → Prop) (a b : κ) : Prop := a = b ∧ Inv a

theorem PR_IRel {Inv : κ → Prop} {p₁ p₂ : Parser κ} (hp : PR (IRel Inv) p₁ p₂) : p₁ = p₂ ∧ Inv p₁.x.sink := by
  obtain ⟨a, b, c, d, e, ⟨f1, hD⟩, f2, f3⟩ := hp
  obtain ⟨lc, lr, sc, sr, dr, ⟨sk, sm, pc⟩⟩ := p₁
  obtain ⟨lc', lr', sc', sr', dr', ⟨sk', sm', pc'⟩⟩ := p₂
  simp only at a b c d e f1 f2 f3 hD
  subst a b c d e f1 f2 f3
  exact ⟨rfl, hD⟩

section
variable {γ : Type} {w : World γ} {c2 : Controller γ} {Gd : SGuard (Disp γ)} {Inv : Disp γ → Prop} {G : Err → Prop}

local notation "w2" => Chunk.R.World.withCtl w c2

/-- the environment with the guarded dispatcher -/
def envS (w : World γ) (Gd : SGuard (Disp γ)) : Env (Disp γ) := ⟨w.tbl, w.tags, guardS Gd (dispOps w.ctl)⟩

/-- what the lifting needs from the two controllers, the guard and the dispatcher invariant -/
structure CtlRelI (w : World γ) (c2 : Controller γ) (Gd : SGuard (Disp γ)) (Inv : Disp γ → Prop) (G : Err → Prop) : Prop where
  ops : ∀ inp, RelE.OpsRelE (guardS Gd (dispOps w.ctl)) (dispOps c2) inp (IRel Inv) G
  bail : w.ctl.bailOut = c2.bailOut
  flush : ∀ d d' inp k, d.flushRemaining inp k = .ok d' → Inv d → Inv d'
  handleEnd : ∀ d, Inv d → w.ctl.handleEnd d.ctl = c2.handleEnd d.ctl ∨ ∃ e, G e ∧ (w.ctl.handleEnd d.ctl).2.2 = some e
  initial : ∀ g, w.ctl.initialFlags g = c2.initialFlags g

/-- the guard that never refuses -/
def noGuard : SGuard (Disp γ) := ⟨fun _ _ _ => none, fun _ _ _ => none⟩

/-- the hypotheses are consistent: a controller against itself, no guard, no invariant, empty error class -/
theorem CtlRelI.refl (w : World γ) : CtlRelI w w.ctl noGuard (fun _ => True) (fun _ => False) where
  ops := fun inp =>
    ⟨fun lx k₁ k₂ hk => by obtain ⟨rfl, _⟩ := hk; exact Or.inl ⟨⟨rfl, trivial⟩, rfl⟩,
     fun lx k₁ k₂ hk => by obtain ⟨rfl, _⟩ := hk; exact Or.inl ⟨⟨rfl, trivial⟩, rfl⟩,
     fun n ns k₁ k₂ hk => by obtain ⟨rfl, _⟩ := hk; exact Or.inl ⟨⟨rfl, trivial⟩, rfl⟩,
     fun n k₁ k₂ hk => by obtain ⟨rfl, _⟩ := hk; exact Or.inl ⟨⟨rfl, trivial⟩, rfl⟩⟩
  bail := rfl
  flush := fun _ _ _ _ _ _ => trivial
  handleEnd := fun _ _ => Or.inl rfl
  initial := fun _ => rfl

variable (h : CtlRelI w c2 Gd Inv G) (ht : EmitsChecked w.tbl = true)
include h

theorem bail_eqI : Stream.bail w = Stream.bail (w2) := by
  funext s e sl
  unfold Stream.bail Disp.runBailOut
  show (if s.shouldBailOutFor e = true then _ else _) = (if s.shouldBailOutFor e = true then _ else _)
  rw [show (w2).ctl.bailOut = w.ctl.bailOut from h.bail.symm]

theorem chunkFor_eqI : Stream.chunkFor w = Stream.chunkFor (w2) := by
  funext s data
  unfold Stream.chunkFor
  rw [bail_eqI h]

theorem keepTail_eqI : Stream.keepTail w = Stream.keepTail (w2) := by
  funext s data chunk consumed
  unfold Stream.keepTail
  rw [bail_eqI h]

include ht

/-- `Parser::parse` over the guarded first dispatcher and the second one -/
theorem parse_relI (inp : Bytes) (last : Bool) (p : Parser (Disp γ)) (hd : Inv p.x.sink) :
    (Parser.parse (envS w Gd) inp last p = Parser.parse (w2).env inp last p ∧
      Inv (Parser.parse (envS w Gd) inp last p).1.x.sink) ∨
    ∃ e, G e ∧ (Parser.parse (envS w Gd) inp last p).2 = .error (RelE.parseErr e) := by
  rcases RelE.parse_relE (tbl := w.tbl) (cfg := w.tags) (inp := inp) (h.ops inp) ht last p p
    ⟨rfl, rfl, rfl, rfl, rfl, ⟨rfl, hd⟩, rfl, rfl⟩ with ⟨h1, h2⟩ | hab
  · obtain ⟨e1, hD⟩ := PR_IRel h1
    exact Or.inl ⟨Prod.ext e1 h2, hD⟩
  · exact Or.inr hab

/-- **`TransformStream::write`**, when its parse call is the guarded one -/
theorem write_relI (s : Stream γ) (data : Bytes) (hd : Inv s.disp)
    (hg : ∀ s1 chunk, s.chunkFor w data = .inr (s1, chunk) →
      Parser.parse (envS w Gd) chunk false s1.parser = Parser.parse w.env chunk false s1.parser) :
    (s.write w data = s.write (w2) data ∧ ((s.write w data).2 = .ok () → Inv (s.write w data).1.disp)) ∨
    ∃ e, G e ∧ (s.write w data).2 = .error (RelE.parseErr e) := by
  unfold Stream.write
  rw [← chunkFor_eqI h, ← keepTail_eqI h, ← bail_eqI h]
  cases hcf : s.chunkFor w data with
  | inl s' => exact Or.inl ⟨rfl, fun hh => by cases hh⟩
  | inr sc =>
    obtain ⟨s1, chunk⟩ := sc
    obtain ⟨c1, c2', c3, c4, c5⟩ := Stream.chunkFor_inr hcf
    dsimp only
    have hd1 : Inv s1.parser.x.sink := by rw [c2']; exact hd
    have hgp := hg s1 chunk hcf
    rcases parse_relI h ht chunk false s1.parser hd1 with ⟨he, hD⟩ | ⟨e, hGe, he⟩
    · rw [hgp] at he hD
      have he' : s1.parser.parse w.env chunk false = s1.parser.parse (w2).env chunk false := he
      rw [← he']
      refine Or.inl ⟨rfl, ?_⟩
      cases hpr : (s1.parser.parse w.env chunk false).2 with
      | error e => intro hh; cases hh
      | ok consumed =>
        dsimp only
        cases hfl : Disp.flushRemaining (Stream.disp { s1 with parser := (s1.parser.parse w.env chunk false).1 }) chunk consumed with
        | error e => intro hh; cases hh
        | ok d =>
          dsimp only
          intro hk
          rw [Chunk.R.keepTail_ok_disp hk]
          exact h.flush _ _ _ _ hfl hD
    · right
      refine ⟨e, hGe, ?_⟩
      rw [hgp] at he
      have he' : (s1.parser.parse w.env chunk false).2 = .error (RelE.parseErr e) := he
      rw [he']

/-- **`TransformStream::end`**, when its parse call is the guarded one -/
theorem end_relI (s : Stream γ) (hd : Inv s.disp)
    (hg : Parser.parse (envS w Gd) (if s.hasBuffered then s.buf.data else []) true s.parser =
      Parser.parse w.env (if s.hasBuffered then s.buf.data else []) true s.parser) :
    s.end w = s.end (w2) ∨ ∃ e', LexE.GE G e' ∧ (s.end w).2 = .error e' := by
  unfold Stream.end
  rw [← bail_eqI h]
  dsimp only
  rcases parse_relI h ht (if s.hasBuffered then s.buf.data else []) true s.parser hd with ⟨he, hD⟩ | ⟨e, hG, he⟩
  · rw [hg] at he hD
    have he' : s.parser.parse w.env (if s.hasBuffered then s.buf.data else []) true =
        s.parser.parse (w2).env (if s.hasBuffered then s.buf.data else []) true := he
    rw [← he']
    cases hpr : (s.parser.parse w.env (if s.hasBuffered then s.buf.data else []) true).2 with
    | error e => exact Or.inl rfl
    | ok consumed =>
      dsimp only
      unfold Disp.finish
      cases hfl : (Stream.disp { s with parser := (s.parser.parse w.env (if s.hasBuffered then s.buf.data else []) true).1 }).flushRemaining
          (if s.hasBuffered then s.buf.data else []) (if s.hasBuffered then s.buf.data else []).length with
      | error e => exact Or.inl rfl
      | ok d =>
        simp only [DRes.ofExcept, DRes.bind]
        rcases h.handleEnd d (h.flush _ _ _ _ hfl hD) with heq | ⟨e, hG, hee⟩
        · have heq' : w.ctl.handleEnd d.ctl = (w2).ctl.handleEnd d.ctl := heq
          rw [← heq']
          exact Or.inl rfl
        · right
          rw [hee]
          exact ⟨e, ⟨e, hG, Or.inl rfl⟩, rfl⟩
  · right
    rw [hg] at he
    have he' : (s.parser.parse w.env (if s.hasBuffered then s.buf.data else []) true).2 = .error (RelE.parseErr e) := he
    rw [he']
    exact ⟨_, ⟨e, hG, Or.inr rfl⟩, rfl⟩

end

/-! ### whole runs -/

section
variable {γ : Type} {w : World γ} {c2 : Controller γ} {Gd : SGuard (Disp γ)} {Inv : Disp γ → Prop} {G : Err → Prop}

local notation "w2" => Chunk.R.World.withCtl w c2

open LolHtml.Thm.C01 (writeAll run Rewriter.new)

/-- **the guard never fires**: in the run over `w.ctl` from a new rewriter, for every prefix of writes that left the
rewriter usable, the parse call of the next `write` (any chunk) and of `end` over the guarded dispatcher IS the parse
call over the real one -/
def GuardFree (w : World γ) (Gd : SGuard (Disp γ)) (g : γ) (cfg : Settings) : Prop :=
  ∀ pre, (writeAll w (Rewriter.new w g cfg) pre).1.poisoned = false →
    (∀ data s1 chunk, (writeAll w (Rewriter.new w g cfg) pre).1.stream.chunkFor w data = .inr (s1, chunk) →
      Parser.parse (envS w Gd) chunk false s1.parser = Parser.parse w.env chunk false s1.parser) ∧
    Parser.parse (envS w Gd)
        (if (writeAll w (Rewriter.new w g cfg) pre).1.stream.hasBuffered
          then (writeAll w (Rewriter.new w g cfg) pre).1.stream.buf.data else []) true
        (writeAll w (Rewriter.new w g cfg) pre).1.stream.parser =
      Parser.parse w.env
        (if (writeAll w (Rewriter.new w g cfg) pre).1.stream.hasBuffered
          then (writeAll w (Rewriter.new w g cfg) pre).1.stream.buf.data else []) true
        (writeAll w (Rewriter.new w g cfg) pre).1.stream.parser

theorem writeAll_snoc (w : World γ) (r : Rewriter γ) (pre : List Bytes) (c : Bytes) :
    (writeAll w r (pre ++ [c])).1 = ((writeAll w r pre).1.write w c).1 := by
  induction pre generalizing r with
  | nil => simp [writeAll]
  | cons a as ih => simp only [List.cons_append, writeAll]; exact ih _

variable (h : CtlRelI w c2 Gd Inv G) (ht : EmitsChecked w.tbl = true)
include h ht

/-- **`write* ; end`** -/
theorem run_relI (g : γ) (cfg : Settings) (hI : Inv (Disp.new w.ctl g cfg.encoding)) (hgf : GuardFree w Gd g cfg)
    (cs : List Bytes) :
    ∀ x ∈ (run w (Rewriter.new w g cfg) cs).2, LexE.CallE G (run (w2) (Rewriter.new (w2) g cfg) cs).2 x := by
  have hnew : Rewriter.new w g cfg = Rewriter.new (w2) g cfg := by
    unfold Rewriter.new Stream.new Disp.new
    show _ = ({ stream := _ } : Rewriter γ)
    simp only [Chunk.R.World.withCtl]
    rw [h.initial g]
    rfl
  -- the writes, prefix by prefix
  have key : ∀ (cs pre : List Bytes),
      ((writeAll w (Rewriter.new w g cfg) pre).1.poisoned = true ∨ Inv (writeAll w (Rewriter.new w g cfg) pre).1.stream.disp) →
      ((writeAll w (writeAll w (Rewriter.new w g cfg) pre).1 cs = writeAll (w2) (writeAll w (Rewriter.new w g cfg) pre).1 cs ∧
          ((writeAll w (Rewriter.new w g cfg) (pre ++ cs)).1.poisoned = true ∨
            Inv (writeAll w (Rewriter.new w g cfg) (pre ++ cs)).1.stream.disp)) ∨
        (writeAll w (writeAll w (Rewriter.new w g cfg) pre).1 cs).1.poisoned = true) ∧
      ∀ x ∈ (writeAll w (writeAll w (Rewriter.new w g cfg) pre).1 cs).2,
        LexE.CallE G (writeAll (w2) (writeAll w (Rewriter.new w g cfg) pre).1 cs).2 x := by
    intro cs
    induction cs with
    | nil => intro pre hr; exact ⟨Or.inl ⟨rfl, by simpa using hr⟩, fun x hx => by cases hx⟩
    | cons c cs ih =>
      intro pre hr
      have hsn := writeAll_snoc w (Rewriter.new w g cfg) pre c
      have hpc : pre ++ c :: cs = (pre ++ [c]) ++ cs := by simp
      simp only [writeAll]
      generalize hrr : (writeAll w (Rewriter.new w g cfg) pre).1 = r at hr hsn ⊢
      -- one write
      have hstep : (r.write w c = r.write (w2) c ∧ ((r.write w c).1.poisoned = true ∨ Inv (r.write w c).1.stream.disp)) ∨
          ((r.write w c).1.poisoned = true ∧ ∃ e', LexE.GE G e' ∧ (r.write w c).2 = .err e') := by
        unfold Rewriter.write
        by_cases hp : r.poisoned = true
        · rw [if_pos hp, if_pos hp]
          exact Or.inl ⟨rfl, Or.inl hp⟩
        · rw [if_neg hp, if_neg hp]
          have hd : Inv r.stream.disp := hr.resolve_left hp
          have hpf : (writeAll w (Rewriter.new w g cfg) pre).1.poisoned = false := by rw [hrr]; simpa using hp
          have hg := (hgf pre hpf).1 c
          rw [hrr] at hg
          rcases write_relI h ht r.stream c hd hg with ⟨he, hok⟩ | ⟨e, hG, he⟩
          · rw [← he]
            refine Or.inl ⟨rfl, ?_⟩
            dsimp only
            cases hres : (r.stream.write w c).2 with
            | ok u => exact Or.inr (hok hres)
            | error e => exact Or.inl rfl
          · right
            dsimp only
            rw [he]
            exact ⟨rfl, _, ⟨e, hG, Or.inr rfl⟩, rfl⟩
      rcases hstep with ⟨he, hr'⟩ | ⟨hp, e', hGE, he⟩
      · rw [← he]
        have := ih (pre ++ [c]) (by rw [hsn]; exact hr')
        rw [hsn] at this
        obtain ⟨i1, i2⟩ := this
        refine ⟨?_, fun x hx => ?_⟩
        · rcases i1 with ⟨j1, j2⟩ | j
          · exact Or.inl ⟨by rw [j1], by rw [hpc]; exact j2⟩
          · exact Or.inr j
        · rcases List.mem_cons.mp hx with rfl | hx
          · exact Or.inl List.mem_cons_self
          · rcases i2 x hx with k | k | k
            · exact Or.inl (List.mem_cons_of_mem _ k)
            · exact Or.inr (Or.inl k)
            · exact Or.inr (Or.inr k)
      · obtain ⟨i1, i2⟩ := LexE.writeAll_poisoned_res (w := w) cs _ hp
        refine ⟨Or.inr i1, fun x hx => ?_⟩
        rcases List.mem_cons.mp hx with rfl | hx
        · exact Or.inr (Or.inr ⟨e', hGE, he⟩)
        · exact Or.inr (Or.inl (i2 x hx))
  obtain ⟨i1, i2⟩ := key cs [] (Or.inr (by simpa [writeAll, Rewriter.new, Stream.new, Stream.disp, Parser.new] using hI))
  simp only [writeAll, List.nil_append] at i1 i2
  intro x hx
  unfold LexE.CallE
  simp only [run, List.mem_append, List.mem_singleton] at hx ⊢
  rw [← hnew]
  rcases hx with hx | hx
  · rcases i2 x hx with k | k | k
    · exact Or.inl (Or.inl k)
    · exact Or.inr (Or.inl k)
    · exact Or.inr (Or.inr k)
  · subst hx
    rcases i1 with ⟨j1, j2⟩ | j
    · rw [← j1]
      by_cases hp : (writeAll w (Rewriter.new w g cfg) cs).1.poisoned = true
      · right; left
        unfold Rewriter.end
        rw [if_pos hp]
      · have hd := j2.resolve_left hp
        have hg := (hgf cs (by simpa using hp)).2
        unfold Rewriter.end
        rw [if_neg hp, if_neg hp]
        dsimp only
        rcases end_relI h ht _ hd hg with he | ⟨e', hGE, he⟩
        · rw [← he]
          exact Or.inl (Or.inr rfl)
        · rw [he]
          exact Or.inr (Or.inr ⟨e', hGE, rfl⟩)
    · right; left
      unfold Rewriter.end
      rw [if_pos j]

end
end LolHtml.Model.RelI
