import LolHtml.Lemmas.CongrStep
import LolHtml.Lemmas.ObsParse
import LolHtml.Lemmas.ObsHandover
import LolHtml.Lemmas.ScanLexSim
/-!
C06, scanner-mode half of handler independence, the two "legs" that connect the dispatcher-sink machines
to the logging-sink machines of `Lemmas/ScanLexSim.lean`:

* leg S (`scanCong`): the plain run's tag scanner with the dispatcher of `H` as sink ⇄ the tag scanner with the
  logging sink `scanLog`: same registers, same simulator, and the dispatcher is the fold of `H`'s hint
  handlers over the log (`foldHints`);
* leg L (`lexCong`): the observing run's lexer with the dispatcher of `withObs H o` as sink ⇄ the lexer with the
  logging sink `lexLog`: same registers, same simulator, and the observing dispatcher is `ObsR false`-related
  to the fold of `H`'s hint handlers over the log of tag lexemes.

Hypotheses on `H`: `StayScan` (a hint is never answered `lex`: the plain run stays in the tag scanner unless
the tree-builder simulator asks for a lexeme) and `HashOnly` (`H` looks at a tag name through its hash only —
the log records hashes).
-/
set_option linter.unusedSimpArgs false
set_option linter.unusedVariables false

namespace LolHtml.Model

variable {γ : Type}

/-- the hint `H` receives for a logged tag event -/
def hintEv (H : Controller γ) (d : Disp γ) : TagEv → Disp γ
  | .start h ns => (Disp.startTagHint H (.hash h) ns d).1
  | .end_ h => (Disp.endTagHint H (.hash h) d).1

/-- the plain run's dispatcher after the hints of a log -/
def foldHints (H : Controller γ) (d0 : Disp γ) (log : List TagEv) : Disp γ := log.foldl (hintEv H) d0

theorem foldHints_snoc (H : Controller γ) (d0 : Disp γ) (log : List TagEv) (ev : TagEv) :
    foldHints H d0 (log ++ [ev]) = hintEv H (foldHints H d0 log) ev := by
  simp [foldHints, List.foldl_append]

/-- `H` looks at a tag name through its hash only -/
structure HashOnly (H : Controller γ) : Prop where
  start : ∀ g n ns, H.startTag g n ns = H.startTag g (.hash (lnHash n)) ns
  end_ : ∀ g n, H.endTag g n = H.endTag g (.hash (lnHash n))

/-- in tag-scanner mode `H` answers every hint with `scan` (and stays in that mode) -/
structure StayScan (H : Controller γ) : Prop where
  start : ∀ d n ns, ScanMode H d →
    (Disp.startTagHint H n ns d).2 = .ok .scan ∧ ScanMode H (Disp.startTagHint H n ns d).1
  end_ : ∀ d n, ScanMode H d → (Disp.endTagHint H n d).2 = .ok .scan ∧ ScanMode H (Disp.endTagHint H n d).1

theorem startTagHint_hashOnly {H : Controller γ} (ho : HashOnly H) (n : LocalName) (ns : Ns) (d : Disp γ) :
    Disp.startTagHint H n ns d = Disp.startTagHint H (.hash (lnHash n)) ns d := by
  unfold Disp.startTagHint
  rw [ho.start d.ctl n ns]

theorem endTagHint_hashOnly {H : Controller γ} (ho : HashOnly H) (n : LocalName) (d : Disp γ) :
    Disp.endTagHint H n d = Disp.endTagHint H (.hash (lnHash n)) d := by
  unfold Disp.endTagHint
  simp only [fun g => ho.end_ g n]

/-! ### leg S -/

/-- the congruence of leg S -/
def scanCong (H : Controller γ) (d0 : Disp γ) : Cong (Disp γ) L where
  Rx x₁ x₂ := x₁.sink = foldHints H d0 x₂.sink ∧ ScanMode H x₁.sink ∧ x₁.sim = x₂.sim
  Jr r := ∃ s, r = .scanner s
  Stop _ := False
  Good _ := True

section
variable {H : Controller γ} {d0 : Disp γ} {tbl : Table} {cfg : TagCfg} {inp : Bytes}

set_option quotPrecheck false in
local notation "envH" => (Env.mk tbl cfg (dispOps H) : Env (Disp γ))

theorem scanS_same {c : Common} {s : ScanRegs} {x₁ : Ctx (Disp γ)} {x₂ : Ctx L} {sig : Option Signal}
    (h : (scanCong H d0).Rx x₁ x₂) :
    (scanCong H d0).Out ((⟨c, .scanner s, x₁⟩ : M (Disp γ)), sig) ((⟨c, .scanner s, x₂⟩ : M L), sig) :=
  Or.inr ⟨⟨rfl, rfl, ⟨s, rfl⟩, h⟩, rfl, trivial⟩

theorem scanS_emitHint (hs : StayScan H) (ho : HashOnly H) (c : Common) (s : ScanRegs) (x₁ : Ctx (Disp γ)) (x₂ : Ctx L)
    (ts : Nat) (ie : Bool) (hx : (scanCong H d0).Rx x₁ x₂) :
    (scanCong H d0).Out (scanEmitHint envH inp c s x₁ ts ie) (scanEmitHint (envS tbl cfg) inp c s x₂ ts ie) := by
  obtain ⟨hd, hm, hsim⟩ := hx
  unfold scanEmitHint
  cases hn : LocalName.new inp ⟨s.tagNameStart, c.pos⟩ s.tagNameHash with
  | none => exact scanS_same ⟨hd, hm, hsim⟩
  | some name =>
    dsimp only [dispOps, envS, scanLog]
    cases ie with
    | true =>
      simp only [if_true]
      obtain ⟨h1, h2⟩ := hs.end_ x₁.sink name hm
      rw [h1]
      dsimp only
      refine scanS_same ⟨?_, h2, hsim⟩
      dsimp only
      rw [foldHints_snoc, ← hd, endTagHint_hashOnly ho]
      rfl
    | false =>
      simp only [Bool.false_eq_true, if_false]
      obtain ⟨h1, h2⟩ := hs.start x₁.sink name x₁.sim.currentNs hm
      rw [h1]
      dsimp only
      refine scanS_same ⟨?_, h2, hsim⟩
      dsimp only
      rw [foldHints_snoc, ← hd, startTagHint_hashOnly ho, hsim]
      rfl

theorem scanS_finishTagName (hs : StayScan H) (ho : HashOnly H) (c : Common) (s : ScanRegs) (x₁ : Ctx (Disp γ)) (x₂ : Ctx L)
    (hx : (scanCong H d0).Rx x₁ x₂) :
    (scanCong H d0).Out (scanFinishTagName envH inp c s x₁) (scanFinishTagName (envS tbl cfg) inp c s x₂) := by
  have hsim := hx.2.2
  unfold scanFinishTagName
  cases s.tagStart with
  | none => exact scanS_same hx
  | some tagStart =>
    dsimp only [envS]
    rw [hsim]
    cases (if s.isInEndTag = true then x₂.sim.feedbackForEndTag cfg s.tagNameHash
            else x₂.sim.feedbackForStartTag cfg s.tagNameHash) with
    | error e => exact scanS_same hx
    | ok sf =>
      dsimp only
      split
      · exact scanS_same ⟨hx.1, hx.2.1, rfl⟩
      · exact scanS_emitHint hs ho _ _ _ _ _ _ ⟨hx.1, hx.2.1, rfl⟩

theorem scanS_ok (hs : StayScan H) (ho : HashOnly H) : (scanCong H d0).OkS envH (envS tbl cfg) inp where
  tbl := rfl
  stop_err := fun r h => h.elim
  good_none := trivial
  good_panic := fun _ => trivial
  good_eoi := fun _ => trivial
  act := by
    intro a m₁ m₂ hm
    obtain ⟨c, r, x₁, x₂, rfl, rfl, ⟨s, rfl⟩, hx⟩ := hm.cases
    simp only [act]
    by_cases hf : a = .finishTagName
    · subst hf
      simp only [scanAct]
      exact scanS_finishTagName hs ho c s x₁ x₂ hx
    · cases a <;> first
        | exact absurd rfl hf
        | (simp only [scanAct]; exact scanS_same hx)
        | (simp only [scanAct]; split <;> exact scanS_same hx)
  silent := fun _ _ _ h => h
  pc := fun _ _ _ h => h
  jr_enter := by
    intro c r ⟨s, hs⟩
    subst hs
    exact ⟨_, rfl⟩
  jr_leave := by
    intro r ⟨s, hs⟩
    subst hs
    exact ⟨_, rfl⟩
  jr_adjust := by
    intro r ⟨s, hs⟩
    subst hs
    simp only [adjustR]
    split <;> exact ⟨_, rfl⟩

end
end LolHtml.Model
